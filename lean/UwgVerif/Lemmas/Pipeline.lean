/-
Helper lemmas for composition D (`Model/Pipeline.lean`): the loop for `24·days` hours is `Sim.simulate`, the
window `Weather` cuts is the window of composition A, a returning `Weather.read` is the row-wise projection
`projD`, which pass made which record (with the pass itself, not only its row), a returning `stepW` is a
returning `Step.step` on the row `forcingOf` built. Property theorems live in `Props/Pipeline.lean`.
-/
import UwgVerif.Model.Pipeline
import UwgVerif.Lemmas.Morph
import UwgVerif.Props.Weather
import UwgVerif.Props.EpwHeader
import UwgVerif.Props.C20
import UwgVerif.Lemmas.Step

namespace Uwg.Pipeline
open Uwg Uwg.Csv Uwg.Sim Uwg.Step Uwg.C02

/-! ## The loop -/

theorem simulateHours_days {St R D Rc E : Type} (P : Phys St R D Rc E) (soil : Soil D) (dt M Dy days : Nat)
    (rows : List R) (s0 : St) :
    simulateHours P soil dt M Dy (24 * days) rows s0 = simulate P soil dt M Dy days rows s0 := by
  have e : 24 * days * 3600 / dt = nt dt days - 1 := by
    have e' : 24 * days * 3600 = days * 86400 := by omega
    unfold nt
    rw [Nat.add_sub_cancel, e']
  unfold simulateHours simulate
  rw [e]
  cases Clock.create dt M Dy with
  | error e => cases e <;> rfl
  | ok c0 => rfl

/-! ## The window and the station records -/

theorem window_bridge {α : Type} (hdr rows : List α) (M Dy days : Nat) (h8 : hdr.length = 8) :
    ((hdr ++ rows).drop (timeInitial M Dy)).take (timeFinal M Dy days + 1 - timeInitial M Dy) =
      Sim.window M Dy days rows := by
  unfold Sim.window timeInitial timeFinal
  have e1 : (Clock.init M Dy).julian * 24 + 24 * days + 8 - 1 + 1 - ((Clock.init M Dy).julian * 24 + 8) =
      24 * days := by omega
  rw [e1, List.drop_append]
  have e2 : (Clock.init M Dy).julian * 24 + 8 - hdr.length = 24 * (Clock.init M Dy).julian := by omega
  rw [List.drop_eq_nil_of_le (by omega), e2, List.nil_append]

theorem weather_window_bridge (hdr rows : List Csv.Row) (M Dy days : Nat) (h8 : hdr.length = 8) :
    Weather.window (hdr ++ rows) (timeInitial M Dy) (timeFinal M Dy days) = Sim.window M Dy days rows :=
  window_bridge hdr rows M Dy days h8

/-- A returning `Weather(...)`: the window is not empty and record `i` is `rowRec` of window row `i`. -/
theorem read_ok_inv {S : Sym ℚ} {table : List Weather.Row} {HI HF : Nat} {xs : List Weather.Rec}
    (h : Weather.read S table HI HF = .ok xs) :
    Weather.window table HI HF ≠ [] ∧
    List.Forall₂ (fun r x => Weather.rowRec S r = .ok x) (Weather.window table HI HF) xs := by
  refine ⟨?_, Weather.read_rowwise S table HI HF xs h⟩
  intro hcd
  unfold Weather.read at h
  cases table with
  | nil => cases h
  | cons first rest =>
    simp only at h
    cases h1 : first[1]? with
    | none => simp [h1] at h
    | some c => simp [h1, hcd] at h

theorem projD_of_rowRec {S : Sym ℚ} {r : Csv.Row} {x : Weather.Rec} (h : Weather.rowRec S r = .ok x) :
    projD S r = x := by
  unfold projD
  rw [h]

theorem map_projD_of_forall₂ {S : Sym ℚ} {rs : List Csv.Row} {xs : List Weather.Rec}
    (h : List.Forall₂ (fun r x => Weather.rowRec S r = .ok x) rs xs) : rs.map (projD S) = xs := by
  induction h with
  | nil => rfl
  | cons hx _ ih => simp [projD_of_rowRec hx, ih]

/-- all ten cells of a row whose station record exists -/
theorem extract_cells {r : Weather.Row} {w : Weather.Raw} (h : Weather.extract r = .ok w) :
    Weather.cell r 6 = .ok w.temp ∧ Weather.cell r 7 = .ok w.tdp ∧ Weather.cell r 8 = .ok w.rhum ∧
    Weather.cell r 9 = .ok w.pres ∧ Weather.cell r 12 = .ok w.infra ∧ Weather.cell r 13 = .ok w.hor ∧
    Weather.cell r 14 = .ok w.dir ∧ Weather.cell r 15 = .ok w.dif ∧ Weather.cell r 20 = .ok w.udir ∧
    Weather.cell r 21 = .ok w.umod := by
  unfold Weather.extract at h
  simp only [bind, Except.bind, pure, Except.pure] at h
  repeat' (split at h <;> try (cases h; done))
  cases h
  refine ⟨?_, ?_, ?_, ?_, ?_, ?_, ?_, ?_, ?_, ?_⟩ <;> assumption

theorem cell_ok {r : Weather.Row} {j : Nat} {v : Weather.Val} (h : Weather.cell r j = .ok v) :
    ∃ c, r[j]? = some c ∧ Weather.str2flCell c = v := by
  unfold Weather.cell at h
  cases hj : r[j]? with
  | none => simp [hj] at h
  | some c => simp [hj] at h; exact ⟨c, rfl, h⟩

/-- The cells behind the four entries of a station record that a pass computes with. -/
theorem rowRec_read_cells {S : Sym ℚ} {r : Weather.Row} {x : Weather.Rec} (h : Weather.rowRec S r = .ok x) :
    (∃ c, r[12]? = some c ∧ Weather.str2flCell c = x.infra) ∧
    (∃ c, r[14]? = some c ∧ Weather.str2flCell c = x.dir) ∧
    (∃ c, r[15]? = some c ∧ Weather.str2flCell c = x.dif) ∧
    (∃ c, r[21]? = some c ∧ Weather.str2flCell c = x.umod) := by
  obtain ⟨w, he, hf⟩ := (Weather.rowRec_ok_iff S r x).1 h
  obtain ⟨_, _, _, _, c12, _, c14, c15, _, c21⟩ := extract_cells he
  have e : x.infra = w.infra ∧ x.dir = w.dir ∧ x.dif = w.dif ∧ x.umod = w.umod := by
    unfold Weather.finish at hf
    repeat' (split at hf <;> try (cases hf; done))
    cases hf
    exact ⟨rfl, rfl, rfl, rfl⟩
  rw [e.1, e.2.1, e.2.2.1, e.2.2.2]
  exact ⟨cell_ok c12, cell_ok c14, cell_ok c15, cell_ok c21⟩

theorem rowRec_wide {S : Sym ℚ} {r : Weather.Row} {x : Weather.Rec} (h : Weather.rowRec S r = .ok x) :
    22 ≤ r.length := by
  obtain ⟨_, _, _, c, hc, _⟩ := rowRec_read_cells h
  have := (List.getElem?_eq_some_iff.1 hc).1
  omega

theorem weatherOk_of_forall₂ {S : Sym ℚ} {rs : List Csv.Row} {xs : List Weather.Rec}
    (h : List.Forall₂ (fun r x => Weather.rowRec S r = .ok x) rs xs) (hne : rs ≠ []) :
    Morph.weatherOk rs = true := by
  unfold Morph.weatherOk
  rw [Bool.and_eq_true]
  constructor
  · simpa [List.isEmpty_iff] using hne
  · rw [List.all_eq_true]
    intro r hr
    have : ∃ x, Weather.rowRec S r = .ok x := by
      clear hne
      induction h with
      | nil => cases hr
      | cons hx _ ih =>
        rcases List.mem_cons.1 hr with rfl | hr
        · exact ⟨_, hx⟩
        · exact ih hr
    obtain ⟨x, hx⟩ := this
    exact decide_eq_true (rowRec_wide hx)

/-! ## Which pass made which record -/

/-- Every record a returning run appended was made by `P.record` from the post-state of a RETURNING pass on
    the rural row of its record event (`runSteps_records_at` keeps only the row). -/
theorem runSteps_records_prov {St R D Rc E : Type} (P : Phys St R D Rc E) (deep : StepTrace → D)
    (rows : List R) (tr : List StepTrace) :
    ∀ (s s' : St) (acc acc' : List Rc), runSteps P deep rows tr s acc = .ok (s', acc') →
      ∀ (k : Nat) (ev : Nat × Nat × Nat), (records tr)[k]? = some ev →
        ∃ s0 s1 t r, t.recorded = true ∧ rows[ev.2.2]? = some r ∧ P.step s0 t r (deep t) = .ok s1 ∧
          acc'[acc.length + k]? = some (P.record s1 t r) := by
  induction tr with
  | nil =>
    intro s s' acc acc' _ k ev hk
    simp [records] at hk
  | cons t ts ih =>
    intro s s' acc acc' h k ev hk
    simp only [runSteps] at h
    cases hr : rows[t.row]? with
    | none => simp [hr] at h
    | some r =>
      simp only [hr] at h
      cases hp : P.step s t r (deep t) with
      | error e => simp [hp] at h
      | ok s1 =>
        simp only [hp] at h
        by_cases hrec : t.recorded = true
        · simp only [hrec, if_true] at h
          have hrecs : records (t :: ts) = (t.nBefore, t.it, t.row) :: records ts := by
            simp [records, hrec]
          rw [hrecs] at hk
          cases k with
          | zero =>
            simp only [List.getElem?_cons_zero, Option.some.injEq] at hk
            subst hk
            obtain ⟨⟨new, hnew⟩, _⟩ := Morph.runSteps_records_at P deep rows ts s1 s' _ acc' h
            refine ⟨s, s1, t, r, hrec, hr, hp, ?_⟩
            rw [hnew]
            simp
          | succ k =>
            simp only [List.getElem?_cons_succ] at hk
            obtain ⟨s0, s2, t2, r2, h0, h1, h2, h3⟩ := ih s1 s' _ acc' h k ev hk
            refine ⟨s0, s2, t2, r2, h0, h1, h2, ?_⟩
            rw [← h3]
            congr 1
            simp only [List.length_append, List.length_cons, List.length_nil]
            omega
        · simp only [hrec] at h
          have hrecs : records (t :: ts) = records ts := by
            simp [records, hrec]
          rw [hrecs] at hk
          exact ih s1 s' acc acc' h k ev hk

/-- A valid run that returns: record `n` was made from the post-state of a returning record pass on rural
    row `n` of the window, with the deep temperature of that pass. -/
theorem simulate_prov {St R D Rc E : Type} (P : Phys St R D Rc E) (soil : Soil D) (dt M Dy days : Nat)
    (rows : List R) (s0 s' : St) (recs : List Rc) (hv : Valid ⟨dt, M, Dy, days, rows.length⟩)
    (h : simulate P soil dt M Dy days rows s0 = .ok (s', recs)) :
    recs.length = 24 * days ∧
    ∀ n, n < 24 * days → ∃ sa sb t r, t.recorded = true ∧ rows[n]? = some r ∧
      P.step sa t r (deepAt soil t) = .ok sb ∧ recs[n]? = some (P.record sb t r) := by
  obtain ⟨tr, htr, hrec⟩ := records_eq ⟨dt, M, Dy, days, rows.length⟩ hv
  have hsim := simulate_of_driver_ok P soil dt M Dy days rows s0 tr htr
  rw [hsim] at h
  refine ⟨C10.records_complete_on_return P soil dt M Dy days rows s0 s' recs hv (by rw [hsim, h]), ?_⟩
  intro n hn
  have hk : (records tr)[n]? = some (recSpec dt n) := by
    rw [hrec]
    simp [hn]
  obtain ⟨sa, sb, t, r, h0, h1, h2, h3⟩ := runSteps_records_prov P (deepAt soil) rows tr s0 s' [] recs h n _ hk
  exact ⟨sa, sb, t, r, h0, h1, h2, by simpa using h3⟩

/-! ## `stepW` and `forcingOf` -/

theorem forcingOf_ok {w : Weather.Rec} {r : FRow ℚ} (h : forcingOf w = .ok r) :
    w.umod = .num r.wind ∧ w.dir = .num r.dir ∧ w.dif = .num r.dif ∧ w.infra = .num r.infra ∧
    r.hum = w.hum ∧ r.pres = w.pres ∧ r.temp = w.temp ∧ r.rHum = w.rhum := by
  unfold forcingOf at h
  split at h
  · rename_i wind dir dif infra h1 h2 h3 h4
    cases h
    exact ⟨h1, h2, h3, h4, rfl, rfl, rfl, rfl⟩
  · cases h

/-- On a record whose four computed cells are numbers `stepW` IS the loop body on the row `forcingOf` built;
    on any other record it raises. -/
theorem stepW_of_forcingOf (S : Sym ℚ) (C : Cfg ℚ) (s : State ℚ) (t : StepTrace) (w : Weather.Rec)
    (d : Deep ℚ) :
    (∀ r, forcingOf w = .ok r → stepW S C s t w d = step S C s t r d) ∧
    (∀ e, forcingOf w = .error e → ∃ e', stepW S C s t w d = .error e') := by
  unfold forcingOf stepW
  cases w.umod with
  | text => exact ⟨fun r h => (by cases h), fun e _ => ⟨_, rfl⟩⟩
  | num wind =>
    cases w.dir with
    | text => exact ⟨fun r h => (by cases h), fun e _ => ⟨_, rfl⟩⟩
    | num dir =>
      cases w.dif with
      | text => exact ⟨fun r h => (by cases h), fun e _ => ⟨_, rfl⟩⟩
      | num dif =>
        cases w.infra with
        | num infra => exact ⟨fun r h => (by cases h; rfl), fun e h => (by cases h)⟩
        | text =>
          refine ⟨fun r h => (by cases h), fun e _ => ?_⟩
          simp only
          cases beforeInfra S C s t (rowOf w 0 wind dir dif) d with
          | error e' => exact ⟨e', rfl⟩
          | ok _ => exact ⟨.type, rfl⟩

theorem stepW_ok {S : Sym ℚ} {C : Cfg ℚ} {s s' : State ℚ} {t : StepTrace} {w : Weather.Rec} {d : Deep ℚ}
    (h : stepW S C s t w d = .ok s') : ∃ r, forcingOf w = .ok r ∧ step S C s t r d = .ok s' := by
  obtain ⟨h1, h2⟩ := stepW_of_forcingOf S C s t w d
  cases hf : forcingOf w with
  | ok r => exact ⟨r, rfl, by rw [← h1 r hf]; exact h⟩
  | error e =>
    obtain ⟨e', he⟩ := h2 e hf
    rw [he] at h
    cases h

theorem forall₂_get {α β : Type} {R : α → β → Prop} {l : List α} {l' : List β} (h : List.Forall₂ R l l') :
    ∀ (n : Nat) (a : α) (b : β), l[n]? = some a → l'[n]? = some b → R a b := by
  induction h with
  | nil => intro n a b ha; simp at ha
  | cons hab _ ih =>
    intro n a b ha hb
    cases n with
    | zero =>
      simp only [List.getElem?_cons_zero, Option.some.injEq] at ha hb
      subst ha hb
      exact hab
    | succ n =>
      simp only [List.getElem?_cons_succ] at ha hb
      exact ih n a b ha hb

/-! ## The wind direction is never read -/

section UDir
variable {K : Type} [Field K] [LinearOrder K] [IsStrictOrderedRing K]

/-- `forc.uDir := x` -/
def setU (x : K) (f : Forcing K) : Forcing K := { f with uDir := x }

theorem headBld_uDir (S : Sym K) (C : Cfg K) (t : StepTrace) (f : Forcing K) (x a b c d e : K) (bl : Bld K) :
    headBld S C t (setU x f) a b c d e bl = headBld S C t f a b c d e bl := rfl

theorem headAll_uDir (S : Sym K) (C : Cfg K) (t : StepTrace) (f : Forcing K) (x a b c d e : K) :
    ∀ (bs : List (Bld K)) (acc : HeadAcc K),
      headAll S C t (setU x f) a b c d e acc bs = headAll S C t f a b c d e acc bs
  | [], _ => rfl
  | bl :: bs, acc => by
    simp only [headAll, headBld_uDir]
    cases headBld S C t f a b c d e bl with
    | error e => rfl
    | ok b' =>
      simp only
      cases b'.wall.t0 <;> cases b'.roof.t0 <;> simp only [headAll_uDir S C t f x a b c d e bs]

/-- **`step_uDir_dead`.** No stage of the loop body reads the wind direction of the row: a pass on a row with
    another `uDir` has the same outcome (exception, or post-state) except for the field `forc.uDir` itself,
    which is the row's. (And `forc` of the pre-state is dead: `StepProps.step_stale_forcing_dead`.) -/
theorem step_uDir_dead (S : Sym K) (C : Cfg K) (s : State K) (t : StepTrace) (r : FRow K) (d : Deep K) (x : K) :
    step S C s t { r with uDir := x } d =
      (step S C s t r d).map (fun s' => { s' with forc := { s'.forc with uDir := x } }) := by
  unfold step
  simp only [StepProps.map_bind, StepProps.map_pure]
  have hf : forcOf C.par.windMin { r with uDir := x } d = setU x (forcOf C.par.windMin r d) := rfl
  rw [hf]
  simp only [headAll_uDir]
  rfl

end UDir

theorem beforeInfra_uDir (S : Sym ℚ) (C : Cfg ℚ) (s : State ℚ) (t : StepTrace) (r : FRow ℚ) (d : Deep ℚ)
    (x : ℚ) : beforeInfra S C s t { r with uDir := x } d = beforeInfra S C s t r d := rfl

/-- **`stepW_unread_dead`.** Two station records that agree on everything a pass computes with - wind speed,
    direct, diffuse, infrared, humidity ratio, pressure, temperature, relative humidity, precipitation - i.e. that
    may differ in the wind direction, the dew point and the global horizontal radiation (cells 20, 7, 13 of the
    rural row: numbers or text): a pass has the same outcome on both (same exception, or the same post-state)
    except for the write-only field `forc.uDir`, and the record block does not read that field. So the `0` that
    `forcingOf` puts for text in the wind-direction cell reaches nothing. -/
theorem stepW_unread_dead (S : Sym ℚ) (C : Cfg ℚ) (s : State ℚ) (t : StepTrace) (w w' : Weather.Rec) (d : Deep ℚ)
    (h1 : w'.umod = w.umod) (h2 : w'.dir = w.dir) (h3 : w'.dif = w.dif) (h4 : w'.infra = w.infra)
    (h5 : w'.hum = w.hum) (h6 : w'.pres = w.pres) (h7 : w'.temp = w.temp) (h8 : w'.rhum = w.rhum)
    (h9 : w'.robs = w.robs) :
    stepW S C s t w' d =
      (stepW S C s t w d).map (fun s' => { s' with forc := { s'.forc with uDir := valD w'.udir } }) ∧
    ∀ (s' : State ℚ) (x : ℚ), (physW S C).record { s' with forc := { s'.forc with uDir := x } } t w' =
      (physW S C).record s' t w := by
  refine ⟨?_, fun _ _ => rfl⟩
  have key : ∀ a b c e : ℚ, rowOf w' a b c e = { rowOf w a b c e with uDir := valD w'.udir } := by
    intro a b c e
    unfold rowOf
    rw [h5, h6, h7, h8, h9]
  unfold stepW
  rw [h1, h2, h3, h4]
  cases w.umod with
  | text => rfl
  | num wind =>
    cases w.dir with
    | text => rfl
    | num dir =>
      cases w.dif with
      | text => rfl
      | num dif =>
        cases w.infra with
        | num infra =>
          simp only [key]
          exact step_uDir_dead S C s t (rowOf w infra wind dir dif) d (valD w'.udir)
        | text =>
          simp only [key, beforeInfra_uDir]
          cases beforeInfra S C s t (rowOf w 0 wind dir dif) d <;> rfl

/-! ## The stages of a returning run -/

theorem soilOf_ok {droad kroad croad : ℚ} {g : Epw.Ground} {recs : List Weather.Rec} {soil : Soil (Deep ℚ)}
    (h : soilOf droad kroad croad g recs = .ok soil) :
    soil = (if decide (3 ≤ g.nSoil) = true then Soil.monthly (tableOf droad kroad croad g)
            else Soil.windowMean (meanDeep recs)) := by
  unfold soilOf at h
  cases hc : roadColumn droad kroad croad g with
  | index => simp [hc] at h
  | refused => simp [hc] at h
  | ok ls idx =>
    simp only [hc] at h
    by_cases h3 : 3 ≤ g.nSoil
    · simp only [h3, if_true] at h
      cases idx with
      | none => cases h
      | some i => cases h; simp [h3]
    · simp only [h3, if_false] at h
      cases h
      simp [h3]

/-- `simulateFile` of composition A at the concrete readers is the loop on the station records. -/
theorem simulateFile_eq (S : Sym ℚ) (C : Cfg ℚ) (init : Option Weather.Rec → State ℚ)
    (droad kroad croad : ℚ) (dt M Dy days : Nat) (hdr rows : List Csv.Row) (g : Epw.Ground)
    (wrecs : List Weather.Rec) (soil : Soil (Deep ℚ)) (h8 : hdr.length = 8)
    (hr : Weather.read S (hdr ++ rows) (timeInitial M Dy) (timeFinal M Dy days) = .ok wrecs)
    (hs : soilOf droad kroad croad g wrecs = .ok soil) :
    simulateFile (physW S C) (decide (3 ≤ g.nSoil)) (tableOf droad kroad croad g) meanDeep (projD S) dt M Dy
        days rows init = simulate (physW S C) soil dt M Dy days wrecs (init wrecs.head?) := by
  obtain ⟨_, hfa⟩ := read_ok_inv hr
  rw [weather_window_bridge hdr rows M Dy days h8] at hfa
  unfold simulateFile
  simp only [map_projD_of_forall₂ hfa, soilOf_ok hs]

/-- The stages a returning `generate(); simulate()` went through. -/
theorem pipelineSim_ok_inv {S : Sym ℚ} {C0 : Cfg ℚ} {init : Option Weather.Rec → State ℚ}
    {droad kroad croad : ℚ} {dt M Dy days hours : Nat} {hdr rows : List Csv.Row}
    {x : State ℚ × List Res}
    (h : pipelineSim S C0 init droad kroad croad dt M Dy days hours hdr rows = .ok x) :
    ∃ site g c0 wrecs soil, Epw.readHeader hdr = .ok (site, g) ∧ Clock.create dt M Dy = .ok c0 ∧
      Weather.read S (hdr ++ rows) (timeInitial M Dy) (timeFinal M Dy days) = .ok wrecs ∧
      initWindText wrecs = false ∧ soilOf droad kroad croad g wrecs = .ok soil ∧
      simulateHours (physW S (cfgOf C0 site dt)) soil dt M Dy hours wrecs (init wrecs.head?) = .ok x := by
  unfold pipelineSim at h
  cases hh : Epw.readHeader hdr with
  | error e => simp [hh] at h
  | ok sg =>
    obtain ⟨site, g⟩ := sg
    simp only [hh] at h
    cases hc : Clock.create dt M Dy with
    | error e => simp [hc] at h
    | ok c0 =>
      simp only [hc] at h
      cases hr : Weather.read S (hdr ++ rows) (timeInitial M Dy) (timeFinal M Dy days) with
      | error e => simp [hr] at h
      | ok wrecs =>
        simp only [hr] at h
        cases hi : initWindText wrecs with
        | true => simp [hi] at h
        | false =>
          simp only [hi, Bool.false_eq_true, if_false] at h
          cases hs : soilOf droad kroad croad g wrecs with
          | error e => simp [hs] at h
          | ok soil =>
            simp only [hs] at h
            cases hsim : simulateHours (physW S (cfgOf C0 site dt)) soil dt M Dy hours wrecs
                (init wrecs.head?) with
            | error e => simp [hsim] at h
            | ok y =>
              simp only [hsim, Except.ok.injEq] at h
              subst h
              exact ⟨site, g, c0, wrecs, soil, rfl, rfl, rfl, hi, hs, hsim⟩

/-- **Transfer.** Once the header is read, `Weather` returned, the first wind is a number and the road
    column is accepted, the pipeline IS composition A at the concrete physics `physW`, with `proj` = the
    station record of a row, `table` = the monthly deep temperatures of the header at the depth the
    pavement reaches, `mean` = the window mean. -/
theorem pipeline_eq_morph_aux (S : Sym ℚ) (C0 : Cfg ℚ) (init : Option Weather.Rec → State ℚ)
    (droad kroad croad : ℚ) (dt M Dy days p : Nat) (hdr rows : List Csv.Row) (site : Epw.Site)
    (g : Epw.Ground) (wrecs : List Weather.Rec) (soil : Soil (Deep ℚ)) (h8 : hdr.length = 8)
    (hh : Epw.readHeader hdr = .ok (site, g))
    (hr : Weather.read S (hdr ++ rows) (timeInitial M Dy) (timeFinal M Dy days) = .ok wrecs)
    (hi : initWindText wrecs = false) (hs : soilOf droad kroad croad g wrecs = .ok soil) :
    pipeline S C0 init droad kroad croad dt M Dy days p hdr rows =
      (Morph.morph (physW S (cfgOf C0 site dt)) (decide (3 ≤ g.nSoil)) (tableOf droad kroad croad g)
        meanDeep (projD S) init dt M Dy days p hdr rows).mapError ofMorph := by
  obtain ⟨hne, hfa⟩ := read_ok_inv hr
  rw [weather_window_bridge hdr rows M Dy days h8] at hne hfa
  have hmap := map_projD_of_forall₂ hfa
  have hwok := weatherOk_of_forall₂ hfa hne
  have hsoil := soilOf_ok hs
  unfold pipeline pipelineCore pipelineSim Morph.morph
  simp only [hh]
  cases hc : Clock.create dt M Dy with
  | error e => rfl
  | ok c0 =>
    simp only [hr, hi, Bool.false_eq_true, if_false, hs, hwok, if_true, simulateHours_days]
    have hsf : simulateFile (physW S (cfgOf C0 site dt)) (decide (3 ≤ g.nSoil)) (tableOf droad kroad croad g)
        meanDeep (projD S) dt M Dy days rows init =
        simulate (physW S (cfgOf C0 site dt)) soil dt M Dy days wrecs (init wrecs.head?) := by
      unfold simulateFile
      simp only [hmap, hsoil]
    rw [hsf]
    cases simulate (physW S (cfgOf C0 site dt)) soil dt M Dy days wrecs (init wrecs.head?) with
    | error x => rfl
    | ok x =>
      simp only
      cases writeEpw hdr rows (Morph.startRow M Dy) x.2 p with
      | none => rfl
      | some text => rfl

/-! ## Two rural files that agree on what is modelled -/

theorem extract_congr (r r' : Weather.Row)
    (h : ∀ j ∈ [6, 7, 8, 9, 12, 13, 14, 15, 20, 21], r[j]? = r'[j]?) :
    Weather.extract r = Weather.extract r' := by
  simp only [Weather.extract, Weather.cell]
  rw [h 6 (by simp), h 7 (by simp), h 8 (by simp), h 9 (by simp), h 12 (by simp), h 13 (by simp),
    h 14 (by simp), h 15 (by simp), h 20 (by simp), h 21 (by simp)]

theorem mapE_map_congr {α α' β ε : Type} (f : α → Except ε β) (f' : α' → Except ε β) :
    ∀ (l : List α) (l' : List α'), l.map f = l'.map f' → Weather.mapE f l = Weather.mapE f' l'
  | [], [], _ => rfl
  | [], _ :: _, h => by simp at h
  | _ :: _, [], h => by simp at h
  | a :: as, b :: bs, h => by
    simp only [List.map_cons, List.cons.injEq] at h
    simp only [Weather.mapE, h.1, mapE_map_congr f f' as bs h.2]

/-- `Weather(...)` on two tables whose first lines both have a second cell and whose windows agree cell by cell
    on the ten modelled columns. -/
theorem read_congr (S : Sym ℚ) (f f' : Weather.Row) (t t' : List Weather.Row) (HI HF : Nat) (c c' : C06.Str)
    (h1 : f[1]? = some c) (h1' : f'[1]? = some c')
    (hw : (Weather.window (f :: t) HI HF).map Weather.extract =
          (Weather.window (f' :: t') HI HF).map Weather.extract) :
    Weather.read S (f :: t) HI HF = Weather.read S (f' :: t') HI HF := by
  have hlen := congrArg List.length hw
  simp only [List.length_map] at hlen
  have hnil : Weather.window (f :: t) HI HF = [] ↔ Weather.window (f' :: t') HI HF = [] := by
    rw [← List.length_eq_zero_iff, ← List.length_eq_zero_iff, hlen]
  simp only [Weather.read, h1, h1']
  by_cases hc : Weather.window (f :: t) HI HF = []
  · simp [hc, hnil.1 hc]
  · have hc' : ¬ Weather.window (f' :: t') HI HF = [] := fun h => hc (hnil.2 h)
    simp only [hc, hc', if_false]
    have : Weather.extractAll (Weather.window (f :: t) HI HF) =
        Weather.extractAll (Weather.window (f' :: t') HI HF) := mapE_map_congr _ _ _ _ hw
    rw [this]

theorem map_window_congr {α β : Type} (f : α → β) (M Dy days : Nat) (l l' : List α)
    (hlen : l.length = l'.length)
    (h : ∀ n a a', n < 24 * days → l[24 * (Clock.init M Dy).julian + n]? = some a →
      l'[24 * (Clock.init M Dy).julian + n]? = some a' → f a = f a') :
    (Sim.window M Dy days l).map f = (Sim.window M Dy days l').map f := by
  apply List.ext_getElem?
  intro n
  simp only [List.getElem?_map]
  by_cases hn : n < 24 * days
  · rw [Morph.window_getElem? M Dy days l n hn, Morph.window_getElem? M Dy days l' n hn]
    cases ha : l[24 * (Clock.init M Dy).julian + n]? with
    | none =>
      have : l'[24 * (Clock.init M Dy).julian + n]? = none := by
        rw [List.getElem?_eq_none_iff] at ha ⊢
        omega
      rw [this]
    | some a =>
      cases ha' : l'[24 * (Clock.init M Dy).julian + n]? with
      | none =>
        rw [List.getElem?_eq_none_iff] at ha'
        have := (List.getElem?_eq_some_iff.1 ha).1
        omega
      | some a' => simp [h n a a' hn ha ha']
  · have e : ∀ k : List α, (Sim.window M Dy days k)[n]? = none := by
      intro k
      rw [List.getElem?_eq_none_iff]
      unfold Sim.window
      rw [List.length_take]
      omega
    rw [e l, e l']

/-! ## Header cells -/

open Uwg.Epw Uwg.C06 in
theorem floatAt_ok {l : List Str} {i : Nat} {v : Rat} (h : floatAt l i = .ok v) :
    ∃ c, l[i]? = some c ∧ parseFloat c = some v := by
  unfold floatAt cellAt at h
  cases hc : l[i]? with
  | none => simp [hc, bind, Except.bind] at h
  | some c =>
    simp only [hc, bind, Except.bind] at h
    cases hp : parseFloat c with
    | none => simp [hp] at h
    | some q =>
      simp only [hp, Except.ok.injEq] at h
      subst h
      exact ⟨c, rfl, hp⟩

open Uwg.Epw Uwg.C06 in
/-- A site that was read IS the numeric value of cells 6, 7, 8 of the LOCATION line. -/
theorem readSite_ok {loc : List Str} {site : Site} (h : readSite loc = .ok site) :
    ∃ a b c, loc[6]? = some a ∧ loc[7]? = some b ∧ loc[8]? = some c ∧ parseFloat a = some site.lat ∧
      parseFloat b = some site.lon ∧ parseFloat c = some site.gmt := by
  unfold readSite at h
  cases h6 : floatAt loc 6 with
  | error e => simp [h6, bind, Except.bind] at h
  | ok x =>
    cases h7 : floatAt loc 7 with
    | error e => simp [h6, h7, bind, Except.bind] at h
    | ok y =>
      cases h8 : floatAt loc 8 with
      | error e => simp [h6, h7, h8, bind, Except.bind] at h
      | ok z =>
        simp only [h6, h7, h8, bind, Except.bind, pure, Except.pure, Except.ok.injEq] at h
        subst h
        obtain ⟨a, ha, pa⟩ := floatAt_ok h6
        obtain ⟨b, hb, pb⟩ := floatAt_ok h7
        obtain ⟨c, hc, pc⟩ := floatAt_ok h8
        exact ⟨a, b, c, ha, hb, hc, pa, pb, pc⟩

open Uwg.Epw in
theorem readHeader_ok {hdr : List (List C06.Str)} {site : Site} {g : Ground}
    (h : readHeader hdr = .ok (site, g)) :
    ∃ loc gl, hdr[0]? = some loc ∧ hdr[3]? = some gl ∧ readSite loc = .ok site ∧ readGround gl = .ok g := by
  unfold readHeader rowAt at h
  cases h0 : hdr[0]? with
  | none => simp [h0, bind, Except.bind] at h
  | some loc =>
    cases hs : readSite loc with
    | error e => simp [h0, hs, bind, Except.bind] at h
    | ok s =>
      cases h3 : hdr[3]? with
      | none => simp [h0, hs, h3, bind, Except.bind] at h
      | some gl =>
        cases hg : readGround gl with
        | error e => simp [h0, hs, h3, hg, bind, Except.bind] at h
        | ok gg =>
          simp only [h0, hs, h3, hg, bind, Except.bind, pure, Except.pure, Except.ok.injEq,
            Prod.mk.injEq] at h
          obtain ⟨rfl, rfl⟩ := h
          exact ⟨loc, gl, rfl, rfl, hs, hg⟩

/-! ## The ground line, cell by cell -/

open Uwg.Epw Uwg.C06 in
theorem parseAll_get : ∀ (cs : List Str) (vs : List Rat), parseAll cs = some vs →
    ∀ (k : Nat) (c : Str), cs[k]? = some c → ∃ v, parseFloat c = some v ∧ vs[k]? = some v
  | [], _, _, k, c, hk => by simp at hk
  | c0 :: cs, vs, h, k, c, hk => by
    unfold parseAll at h
    cases hc : parseFloat c0 with
    | none => simp [hc] at h
    | some v0 =>
      cases hcs : parseAll cs with
      | none => simp [hc, hcs] at h
      | some vs0 =>
        simp only [hc, hcs, Option.some.injEq] at h
        subst h
        cases k with
        | zero =>
          simp only [List.getElem?_cons_zero, Option.some.injEq] at hk
          subst hk
          exact ⟨v0, hc, rfl⟩
        | succ k =>
          simp only [List.getElem?_cons_succ] at hk
          obtain ⟨v, h1, h2⟩ := parseAll_get cs vs0 hcs k c hk
          exact ⟨v, h1, by simpa using h2⟩

open Uwg.Epw Uwg.C06 in
theorem parseRecs_get : ∀ (recs : List GText) (parsed : List GRec), parseRecs recs = some parsed →
    ∀ (i : Nat) (r : GText), recs[i]? = some r → ∃ d ms, parseFloat r.depth = some d ∧ parseAll r.months = some ms ∧
      parsed[i]? = some ⟨d, ms.map (· + 27315 / 100)⟩
  | [], _, _, i, r, hi => by simp at hi
  | r0 :: rs, parsed, h, i, r, hi => by
    unfold parseRecs at h
    cases hr : parseRec r0 with
    | none => simp [hr] at h
    | some v0 =>
      cases hrs : parseRecs rs with
      | none => simp [hr, hrs] at h
      | some vs0 =>
        simp only [hr, hrs, Option.some.injEq] at h
        subst h
        cases i with
        | zero =>
          simp only [List.getElem?_cons_zero, Option.some.injEq] at hi
          subst hi
          unfold parseRec at hr
          cases hd : parseFloat r0.depth with
          | none => simp [hd] at hr
          | some d =>
            cases hms : parseAll r0.months with
            | none => simp [hd, hms] at hr
            | some ms =>
              simp only [hd, hms, Option.some.injEq] at hr
              subst hr
              exact ⟨d, ms, rfl, rfl, rfl⟩
        | succ i =>
          simp only [List.getElem?_cons_succ] at hi
          obtain ⟨d, ms, h1, h2, h3⟩ := parseRecs_get rs vs0 hrs i r hi
          exact ⟨d, ms, h1, h2, by simpa using h3⟩

open Uwg.Epw Uwg.C06 in
/-- Cell `16·i + k` of the flattened records is cell `k` of record `i` (records of 16 cells). -/
theorem flat_cells_get : ∀ (recs : List GText) (rest : List Str), (∀ r ∈ recs, r.months.length = 12) →
    ∀ (i : Nat) (r : GText), recs[i]? = some r → ∀ k : Nat, k < 16 →
      (recs.flatMap GText.cells ++ rest)[16 * i + k]? = r.cells[k]?
  | [], _, _, i, r, hi, _, _ => by simp at hi
  | r0 :: rs, rest, hm, i, r, hi, k, hk => by
    have h16 : r0.cells.length = 16 := cells_length r0 (hm r0 (by simp))
    rw [List.flatMap_cons, List.append_assoc]
    cases i with
    | zero =>
      simp only [List.getElem?_cons_zero, Option.some.injEq] at hi
      subst hi
      rw [List.getElem?_append_left (by omega)]
      simp
    | succ i =>
      simp only [List.getElem?_cons_succ] at hi
      rw [List.getElem?_append_right (by omega)]
      have e : 16 * (i + 1) + k - r0.cells.length = 16 * i + k := by omega
      rw [e]
      exact flat_cells_get rs rest (fun q hq => hm q (List.mem_cons_of_mem _ hq)) i r hi k hk

open Uwg.Epw in
theorem parseRecs_length : ∀ (recs : List GText) (parsed : List GRec), parseRecs recs = some parsed →
    parsed.length = recs.length
  | [], parsed, h => by simp [parseRecs] at h; subst h; rfl
  | r :: rs, parsed, h => by
    unfold parseRecs at h
    cases hr : parseRec r with
    | none => simp [hr] at h
    | some v =>
      cases hrs : parseRecs rs with
      | none => simp [hr, hrs] at h
      | some vs =>
        simp only [hr, hrs, Option.some.injEq] at h
        subst h
        simp [parseRecs_length rs vs hrs]

theorem roadColumn_index {droad kroad croad : ℚ} {g : Epw.Ground} {ls : List (Lay ℚ)} {i : Nat}
    (h : roadColumn droad kroad croad g = .ok ls (some i)) : ∃ r, g.recs[i]? = some r := by
  unfold roadColumn columnOutcome at h
  split at h
  · cases h
  · split at h <;> cases h
  · rename_i ls' i' hgc
    cases h
    unfold groundColumn at hgc
    dsimp only at hgc
    split at hgc
    · cases hgc
    · split at hgc
      · cases hgc
      · rename_i i0 k0 hpad
        simp only [Option.some.injEq, Prod.mk.injEq] at hgc
        obtain ⟨_, hi⟩ := hgc
        subst hi
        obtain ⟨d, hd, _⟩ := C20.pad_index _ _ _ _ _ _ hpad
        rw [List.getElem?_map] at hd
        cases hr : g.recs[i0]? with
        | none => rw [hr] at hd; cases hd
        | some r => exact ⟨r, rfl⟩

end Uwg.Pipeline
