/-
Helper lemmas for C01: the automaton on rendered cells/rows, line splitting, digits.
Core Lean only.
-/
import UwgVerif.Model.Csv

namespace Uwg.Csv

/-! ### consHead -/

theorem foldr_consHead (c f : List Char) (fs : List Cell) :
    c.foldr consHead (f :: fs) = (c ++ f) :: fs := by
  induction c with
  | nil => rfl
  | cons ch c ih => simp [List.foldr, ih, consHead]

/-! ### the automaton on a plain (unquoted) cell -/

theorem parseAux_infield_append (c tail : List Char) (hc : ',' ∉ c) :
    parseAux .infield (c ++ tail) = c.foldr consHead (parseAux .infield tail) := by
  induction c with
  | nil => rfl
  | cons ch c ih =>
    have h1 : ch ≠ ',' := fun h => hc (by simp [h])
    have h2 : ',' ∉ c := fun h => hc (by simp [h])
    simp [parseAux, h1, ih h2]

theorem parseAux_infield_comma (more : List Char) :
    parseAux .infield (',' :: more) = [] :: parseAux .start more := by
  simp [parseAux]

theorem parseAux_start_plain_sep (c more : List Char) (h1 : ',' ∉ c) (h2 : '"' ∉ c) :
    parseAux .start (c ++ ',' :: more) = c :: parseAux .start more := by
  cases c with
  | nil => simp [parseAux]
  | cons ch c =>
    have a1 : ch ≠ ',' := fun h => h1 (by simp [h])
    have a2 : ch ≠ '"' := fun h => h2 (by simp [h])
    have a3 : ',' ∉ c := fun h => h1 (by simp [h])
    simp only [List.cons_append, parseAux, a1, a2, if_false]
    rw [parseAux_infield_append c _ a3, parseAux_infield_comma, foldr_consHead]
    simp [consHead]

theorem parseAux_start_plain_end (c : List Char) (h1 : ',' ∉ c) (h2 : '"' ∉ c) :
    parseAux .start c = [c] := by
  cases c with
  | nil => simp [parseAux]
  | cons ch c =>
    have a1 : ch ≠ ',' := fun h => h1 (by simp [h])
    have a2 : ch ≠ '"' := fun h => h2 (by simp [h])
    have a3 : ',' ∉ c := fun h => h1 (by simp [h])
    simp only [parseAux, a1, a2, if_false]
    have := parseAux_infield_append c [] a3
    rw [List.append_nil] at this
    rw [this]
    simp [parseAux, foldr_consHead, consHead]

/-! ### the automaton on a quoted cell -/

theorem parseAux_quoted_append (c tail : List Char) :
    parseAux .quoted (escapeQuotes c ++ tail) = c.foldr consHead (parseAux .quoted tail) := by
  induction c with
  | nil => rfl
  | cons ch c ih =>
    by_cases h : ch = '"'
    · subst h
      simp [escapeQuotes, parseAux, ih]
    · simp [escapeQuotes, parseAux, h, ih]

theorem parseAux_start_quoted_sep (c more : List Char) :
    parseAux .start ('"' :: (escapeQuotes c ++ ['"']) ++ ',' :: more) = c :: parseAux .start more := by
  have : '"' :: (escapeQuotes c ++ ['"']) ++ ',' :: more
      = '"' :: (escapeQuotes c ++ ('"' :: ',' :: more)) := by simp
  rw [this]
  simp only [parseAux, if_true]
  rw [parseAux_quoted_append]
  simp [parseAux, foldr_consHead]

theorem parseAux_start_quoted_end (c : List Char) :
    parseAux .start ('"' :: (escapeQuotes c ++ ['"'])) = [c] := by
  simp only [parseAux, if_true]
  rw [parseAux_quoted_append]
  simp [parseAux, foldr_consHead]

theorem contains_false_iff (c : List Char) (x : Char) : c.contains x = false ↔ x ∉ c := by
  simp

/-! ### cells and rows -/

theorem parseAux_renderCell_sep (c more : List Char) :
    parseAux .start (renderCell c ++ ',' :: more) = c :: parseAux .start more := by
  unfold renderCell
  by_cases h : needsQuote c = true
  · rw [if_pos h]; exact parseAux_start_quoted_sep c more
  · rw [if_neg h]
    have h' : needsQuote c = false := by simpa using h
    simp only [needsQuote, Bool.or_eq_false_iff, contains_false_iff] at h'
    exact parseAux_start_plain_sep c more h'.1 h'.2

theorem parseAux_renderCell_end (c : List Char) :
    parseAux .start (renderCell c) = [c] := by
  unfold renderCell
  by_cases h : needsQuote c = true
  · rw [if_pos h]; exact parseAux_start_quoted_end c
  · rw [if_neg h]
    have h' : needsQuote c = false := by simpa using h
    simp only [needsQuote, Bool.or_eq_false_iff, contains_false_iff] at h'
    exact parseAux_start_plain_end c h'.1 h'.2

theorem parseAux_renderRow (c : Cell) (cs : Row) :
    parseAux .start (renderRow (c :: cs)) = c :: cs := by
  induction cs generalizing c with
  | nil => simpa [renderRow] using parseAux_renderCell_end c
  | cons d ds ih =>
    simp only [renderRow]
    rw [parseAux_renderCell_sep, ih]

theorem parseLine_eq (l : List Char) : parseLine l = if l = [] then [] else parseAux .start l := by
  cases l <;> simp [parseLine]

theorem renderCell_eq_nil (c : Cell) : renderCell c = [] ↔ c = [] := by
  unfold renderCell
  by_cases h : needsQuote c = true
  · rw [if_pos h]
    constructor
    · intro h'; simp at h'
    · intro h'; subst h'; simp [needsQuote] at h
  · rw [if_neg h]

theorem renderRow_eq_nil (r : Row) : renderRow r = [] ↔ r = [] ∨ r = [[]] := by
  match r with
  | [] => simp [renderRow]
  | [c] => simp [renderRow, renderCell_eq_nil]
  | c :: d :: ds => simp [renderRow]

/-! ### rendered rows never end inside a quoted field -/

theorem endSt_infield_append (c tail : List Char) (hc : ',' ∉ c) :
    endSt .infield (c ++ tail) = endSt .infield tail := by
  induction c with
  | nil => rfl
  | cons ch c ih =>
    have h1 : ch ≠ ',' := fun h => hc (by simp [h])
    have h2 : ',' ∉ c := fun h => hc (by simp [h])
    simp [endSt, h1, ih h2]

theorem endSt_quoted_append (c tail : List Char) :
    endSt .quoted (escapeQuotes c ++ tail) = endSt .quoted tail := by
  induction c with
  | nil => rfl
  | cons ch c ih =>
    by_cases h : ch = '"'
    · subst h; simp [escapeQuotes, endSt, ih]
    · simp [escapeQuotes, endSt, h, ih]

theorem endSt_renderCell (c tail : List Char) :
    endSt .start (renderCell c ++ tail) =
      if needsQuote c then endSt .qq tail else if c = [] then endSt .start tail else endSt .infield tail := by
  unfold renderCell
  by_cases h : needsQuote c = true
  · simp only [h, if_true]
    have : '"' :: (escapeQuotes c ++ ['"']) ++ tail = '"' :: (escapeQuotes c ++ ('"' :: tail)) := by simp
    rw [this]
    simp only [endSt, if_true]
    rw [endSt_quoted_append]
    simp [endSt]
  · simp only [h]
    have h' : needsQuote c = false := by simpa using h
    simp only [needsQuote, Bool.or_eq_false_iff, contains_false_iff] at h'
    cases c with
    | nil => simp
    | cons ch c =>
      have a1 : ch ≠ ',' := fun h => h'.1 (by simp [h])
      have a2 : ch ≠ '"' := fun h => h'.2 (by simp [h])
      have a3 : ',' ∉ c := fun h => h'.1 (by simp [h])
      simp [endSt, a1, a2, endSt_infield_append c tail a3]

theorem endSt_renderRow_ne_quoted (r : Row) : endSt .start (renderRow r) ≠ .quoted := by
  match r with
  | [] => simp [renderRow, endSt]
  | [c] =>
    have := endSt_renderCell c []
    rw [List.append_nil] at this
    simp only [renderRow, this]
    split
    · simp [endSt]
    · split <;> simp [endSt]
  | c :: d :: ds =>
    have ih := endSt_renderRow_ne_quoted (d :: ds)
    simp only [renderRow]
    rw [endSt_renderCell]
    split
    · simpa [endSt] using ih
    · split
      · simpa [endSt] using ih
      · simpa [endSt] using ih

/-! ### lines -/

theorem splitLines_append (l rest : List Char) (h : '\n' ∉ l) :
    splitLines (l ++ '\n' :: rest) = l :: splitLines rest := by
  induction l with
  | nil => simp [splitLines]
  | cons ch l ih =>
    have h1 : ch ≠ '\n' := fun e => h (by simp [e])
    have h2 : '\n' ∉ l := fun e => h (by simp [e])
    simp [splitLines, h1, ih h2]

theorem mem_escapeQuotes {x : Char} {c : List Char} (h : x ∈ escapeQuotes c) : x = '"' ∨ x ∈ c := by
  induction c with
  | nil => simp [escapeQuotes] at h
  | cons ch c ih =>
    by_cases e : ch = '"'
    · subst e
      simp only [escapeQuotes, if_true, List.mem_cons] at h
      rcases h with h | h | h
      · exact Or.inl h
      · exact Or.inl h
      · rcases ih h with h | h
        · exact Or.inl h
        · exact Or.inr (by simp [h])
    · simp only [escapeQuotes, e, if_false, List.mem_cons] at h
      rcases h with h | h
      · exact Or.inr (by simp [h])
      · rcases ih h with h | h
        · exact Or.inl h
        · exact Or.inr (by simp [h])

theorem mem_renderCell {x : Char} {c : List Char} (h : x ∈ renderCell c) : x = '"' ∨ x ∈ c := by
  unfold renderCell at h
  split at h
  · simp only [List.mem_cons, List.mem_append, List.mem_nil_iff, or_false] at h
    rcases h with h | h | h
    · exact Or.inl h
    · exact mem_escapeQuotes h
    · exact Or.inl h
  · exact Or.inr h

theorem mem_renderRow {x : Char} {r : Row} (h : x ∈ renderRow r) :
    x = '"' ∨ x = ',' ∨ ∃ c ∈ r, x ∈ c := by
  match r with
  | [] => simp [renderRow] at h
  | [c] =>
    rcases mem_renderCell (by simpa [renderRow] using h) with h | h
    · exact Or.inl h
    · exact Or.inr (Or.inr ⟨c, by simp, h⟩)
  | c :: d :: ds =>
    simp only [renderRow, List.mem_append, List.mem_cons] at h
    rcases h with h | h | h
    · rcases mem_renderCell h with h | h
      · exact Or.inl h
      · exact Or.inr (Or.inr ⟨c, by simp, h⟩)
    · exact Or.inr (Or.inl h)
    · rcases mem_renderRow h with h | h | ⟨c', hc', h⟩
      · exact Or.inl h
      · exact Or.inr (Or.inl h)
      · exact Or.inr (Or.inr ⟨c', by simp [hc'], h⟩)

theorem renderRow_no_nl (r : Row) (h : ∀ c ∈ r, '\n' ∉ c) : '\n' ∉ renderRow r := by
  intro hm
  rcases mem_renderRow hm with e | e | ⟨c, hc, e⟩
  · exact absurd e (by decide)
  · exact absurd e (by decide)
  · exact h c hc e

theorem splitLines_writeText (rows : List Row) (h : ∀ r ∈ rows, ∀ c ∈ r, '\n' ∉ c) :
    splitLines (writeText rows) = rows.map renderRow := by
  induction rows with
  | nil => simp [writeText, splitLines]
  | cons r rows ih =>
    have h1 := renderRow_no_nl r (h r (by simp))
    have h2 : ∀ r' ∈ rows, ∀ c ∈ r', '\n' ∉ c := fun r' hr' => h r' (by simp [hr'])
    have e : writeText (r :: rows) = renderRow r ++ '\n' :: writeText rows := by
      simp [writeText]
    rw [e, splitLines_append _ _ h1, List.map_cons, ← ih h2]

end Uwg.Csv
