/-
C06 — the reader processes a file block by block: filler rows change nothing, an entry block performs one
dictionary assignment. From this, layout invariance (T3).
-/
import UwgVerif.Model.Reader
import UwgVerif.Lemmas.C06Dict

namespace Uwg.C06
open Uwg.Gen

/-- blank line (`[]`) or a row whose first cell contains `#` -/
def IsFiller (row : Row) : Prop :=
  row = [] ∨ ∃ k cells, row = k :: cells ∧ '#' ∈ clean k

/-- rows of a `bld` block: each is a type row with a well-formed triple -/
def bldTriples : List Row → Option (List J)
  | [] => some []
  | row :: rows =>
    if isTypeRow (row.map clean) then
      match bldTriple (row.map clean), bldTriples rows with
      | .ok t, some ts => some (t :: ts)
      | _, _ => none
    else none

/-- one parameter entry of a file, as the block of rows that spells it -/
inductive Entry
  | scalar (row : Row)
  | sch (hdr r1 r2 r3 : Row)
  | bld (hdr : Row) (rows : List Row)

def Entry.rows : Entry → List Row
  | .scalar row => [row]
  | .sch hdr r1 r2 r3 => [hdr, r1, r2, r3]
  | .bld hdr rows => hdr :: rows

/-- the assignment an entry stands for (`none`: the block is not a well-formed entry). It only depends
    on the *cleaned* header cells (lower-cased, spaces removed) and, for schedules, on the raw value
    cells through `float()`. -/
def Entry.sem : Entry → Option (Str × J)
  | .scalar row =>
    if isTypeRow (row.map clean) then none else
    match classify (row.map clean) with
    | .store k v => some (k, v)
    | _ => none
  | .sch hdr r1 r2 r3 =>
    match classify (hdr.map clean), schRows [r1, r2, r3] with
    | .sch k, .ok m => some (k, .list m)
    | _, _ => none
  | .bld hdr rows =>
    match classify (hdr.map clean), bldTriples rows with
    | .bldHdr, some ts => some (cs! "bld", .list ts)
    | _, _ => none

inductive Piece
  | filler (row : Row)
  | entry (e : Entry)

def Piece.rows : Piece → List Row
  | .filler row => [row]
  | .entry e => e.rows

def Piece.WF : Piece → Prop
  | .filler row => IsFiller row
  | .entry e => e.sem.isSome

def Piece.apply (p : Piece) (d : Dict) : Dict :=
  match p with
  | .filler _ => d
  | .entry e => match e.sem with
                | some (k, v) => aset k v d
                | none => d

/-- the rows of a file laid out as a sequence of pieces -/
def render (ps : List Piece) : List Row := ps.flatMap Piece.rows

/-- the assignments of a piece list, in file order -/
def sems : List Piece → List (Str × J)
  | [] => []
  | .filler _ :: ps => sems ps
  | .entry e :: ps => match e.sem with
                      | some kv => kv :: sems ps
                      | none => sems ps

theorem hash_not_type : ∀ k ∈ REF_BLDTYPES, '#' ∉ k := by decide

theorem filler_facts {row : Row} (h : IsFiller row) :
    isTypeRow (row.map clean) = false ∧ classify (row.map clean) = .skip := by
  rcases h with h | ⟨k, cells, h, hk⟩
  · subst h; exact ⟨rfl, rfl⟩
  · subst h
    constructor
    · simp only [List.map, isTypeRow, decide_eq_false_iff_not]
      intro hm
      exact hash_not_type _ hm hk
    · simp [classify, hk]

/-! ### one reader step per kind of row -/

theorem rd_step_top (pend : Option (List J)) (row : Row) (rest : List Row) (d : Dict)
    (ht : isTypeRow (row.map clean) = false) :
    rd pend (row :: rest) d =
      (match classify (row.map clean) with
       | .skip => rd none rest (flush pend d)
       | .store k v => rd none rest (aset k v (flush pend d))
       | .fail e => .error e
       | .bldHdr => rd (some []) rest (flush pend d)
       | .sch k =>
         match rest with
         | r1 :: r2 :: r3 :: rest' =>
           match schRows [r1, r2, r3] with
           | .error e => .error e
           | .ok m => rd none rest' (aset k (.list m) (flush pend d))
         | _ =>
           match schRows rest with
           | .error e => .error e
           | .ok m => .ok (aset k (.list m) (flush pend d))) := by
  rw [rd]
  · rfl
  · intro acc _ h
    rw [ht] at h
    cases h

theorem rd_step_bld (acc : List J) (row : Row) (rest : List Row) (d : Dict) (t : J)
    (ht : isTypeRow (row.map clean) = true) (h : bldTriple (row.map clean) = .ok t) :
    rd (some acc) (row :: rest) d = rd (some (acc ++ [t])) rest d := by
  simp only [rd, ht, h]

theorem rd_bld_rows (rest : List Row) (d : Dict) :
    ∀ (rows : List Row) (acc ts : List J), bldTriples rows = some ts →
      rd (some acc) (rows ++ rest) d = rd (some (acc ++ ts)) rest d := by
  intro rows
  induction rows with
  | nil => intro acc ts h; simp [bldTriples] at h; subst h; simp
  | cons row rows ih =>
    intro acc ts h
    unfold bldTriples at h
    split at h
    · rename_i htype
      split at h
      · rename_i t ts' ht hts
        cases h
        rw [List.cons_append, rd_step_bld acc row _ d t htype ht, ih _ _ hts]
        simp
      · cases h
    · cases h

theorem classify_sch_not_type {r : Row} {k : Str} (h : classify r = .sch k) : isTypeRow r = false := by
  cases r with
  | nil => rfl
  | cons k' cells =>
    simp only [classify] at h
    split at h
    · cases h
    · split at h
      · rename_i hk
        subst hk
        simp only [isTypeRow]; decide
      · split at h
        · cases h
        · split at h
          · split at h <;> cases h
          · split at h
            · split at h
              · cases h
              · split at h
                · cases h
                · split at h <;> cases h
            · split at h <;> cases h

theorem classify_bld_not_type {r : Row} (h : classify r = .bldHdr) : isTypeRow r = false := by
  cases r with
  | nil => rfl
  | cons k' cells =>
    simp only [classify] at h
    split at h
    · cases h
    · split at h
      · cases h
      · split at h
        · rename_i hk
          subst hk
          simp only [isTypeRow]; decide
        · split at h
          · split at h <;> cases h
          · split at h
            · split at h
              · cases h
              · split at h
                · cases h
                · split at h <;> cases h
            · split at h <;> cases h

/-- Every well-formed piece is consumed entirely and acts on the *effective* dictionary
    (`flush pend d`: the dictionary with a pending `bld` block written back) as `Piece.apply`. -/
theorem rd_piece (p : Piece) (hp : p.WF) (pend : Option (List J)) (rest : List Row) (d : Dict) :
    ∃ pend' d', rd pend (p.rows ++ rest) d = rd pend' rest d' ∧
      flush pend' d' = p.apply (flush pend d) := by
  cases p with
  | filler row =>
    obtain ⟨h1, h2⟩ := filler_facts hp
    refine ⟨none, flush pend d, ?_, rfl⟩
    simp only [Piece.rows, List.cons_append, List.nil_append]
    rw [rd_step_top pend row rest d h1, h2]
  | entry e =>
    cases e with
    | scalar row =>
      simp only [Piece.WF, Entry.sem] at hp
      split at hp
      · cases hp
      · rename_i htype
        split at hp
        · rename_i k v hc
          refine ⟨none, aset k v (flush pend d), ?_, ?_⟩
          · simp only [Piece.rows, Entry.rows, List.cons_append, List.nil_append]
            rw [rd_step_top pend row rest d (by simpa using htype), hc]
          · simp [Piece.apply, Entry.sem, htype, hc, flush]
        · cases hp
    | sch hdr r1 r2 r3 =>
      simp only [Piece.WF, Entry.sem] at hp
      split at hp
      · rename_i k m hc hs
        refine ⟨none, aset k (.list m) (flush pend d), ?_, ?_⟩
        · simp only [Piece.rows, Entry.rows, List.cons_append, List.nil_append]
          rw [rd_step_top pend hdr _ d (classify_sch_not_type hc), hc]
          simp only [hs]
        · simp [Piece.apply, Entry.sem, hc, hs, flush]
      · cases hp
    | bld hdr rows =>
      simp only [Piece.WF, Entry.sem] at hp
      split at hp
      · rename_i ts hc hs
        refine ⟨some ts, flush pend d, ?_, ?_⟩
        · simp only [Piece.rows, Entry.rows, List.cons_append]
          rw [rd_step_top pend hdr _ d (classify_bld_not_type hc), hc]
          simp only []
          rw [rd_bld_rows rest (flush pend d) rows [] ts hs]
          simp
        · simp [Piece.apply, Entry.sem, hc, hs, flush]
      · cases hp

theorem rd_pieces (ps : List Piece) (hp : ∀ p ∈ ps, p.WF) (tail : List Row) :
    ∀ (pend : Option (List J)) (d : Dict),
    ∃ pend' d', rd pend (render ps ++ tail) d = rd pend' tail d' ∧
      flush pend' d' = ps.foldl (fun acc p => p.apply acc) (flush pend d) := by
  induction ps with
  | nil => intro pend d; exact ⟨pend, d, by simp [render], rfl⟩
  | cons p ps ih =>
    intro pend d
    obtain ⟨pend1, d1, h1, f1⟩ := rd_piece p (hp p (by simp)) pend (render ps ++ tail) d
    obtain ⟨pend2, d2, h2, f2⟩ := ih (fun q hq => hp q (by simp [hq])) pend1 d1
    refine ⟨pend2, d2, ?_, ?_⟩
    · simp only [render, List.flatMap_cons, List.append_assoc] at h1 ⊢
      rw [h1]
      simpa [render] using h2
    · rw [f2, f1]; rfl

/-! ### folding assignments -/

def assign (d : Dict) (kvs : List (Str × J)) : Dict := kvs.foldl (fun acc kv => aset kv.1 kv.2 acc) d

theorem apply_fold_eq (ps : List Piece) (hp : ∀ p ∈ ps, p.WF) (d : Dict) :
    ps.foldl (fun acc p => p.apply acc) d = assign d (sems ps) := by
  induction ps generalizing d with
  | nil => rfl
  | cons p ps ih =>
    have ih' := fun d => ih (fun q hq => hp q (by simp [hq])) d
    cases p with
    | filler row => simpa [sems, Piece.apply] using ih' d
    | entry e =>
      have hw := hp (.entry e) (by simp)
      simp only [Piece.WF] at hw
      cases hs : e.sem with
      | none => simp [hs] at hw
      | some kv =>
        obtain ⟨k, v⟩ := kv
        simp only [List.foldl_cons, sems, hs, Piece.apply, assign]
        exact ih' _

theorem alookup_assign (k : Str) (kvs : List (Str × J)) :
    ∀ d, (kvs.map Prod.fst).Nodup →
      alookup k (assign d kvs) = (alookup k kvs).orElse (fun _ => alookup k d) := by
  induction kvs with
  | nil => intro d _; simp [assign, alookup]
  | cons kv kvs ih =>
    intro d hnd
    obtain ⟨k', v'⟩ := kv
    simp only [List.map_cons, List.nodup_cons] at hnd
    obtain ⟨hnot, hnd'⟩ := hnd
    have := ih (aset k' v' d) hnd'
    simp only [assign, List.foldl_cons] at this ⊢
    rw [this, alookup_aset]
    by_cases hk : k = k'
    · subst hk
      have hnone : alookup k kvs = none := by
        cases h : alookup k kvs with
        | none => rfl
        | some v =>
          exact absurd (List.mem_map_of_mem (f := Prod.fst) (alookup_mem h)) hnot
      simp [alookup, hnone]
    · simp [alookup, hk]

theorem alookup_perm {l1 l2 : List (Str × J)} (h : l1.Perm l2) (hnd : (l1.map Prod.fst).Nodup)
    (k : Str) : alookup k l1 = alookup k l2 := by
  induction h with
  | nil => rfl
  | cons x _ ih =>
    obtain ⟨k', v'⟩ := x
    simp only [List.map_cons, List.nodup_cons] at hnd
    by_cases hk : k = k' <;> simp [alookup, hk, ih hnd.2]
  | swap x y l =>
    obtain ⟨k1, v1⟩ := x
    obtain ⟨k2, v2⟩ := y
    simp only [List.map_cons, List.nodup_cons, List.mem_cons, not_or] at hnd
    have hne : k2 ≠ k1 := hnd.1.1
    by_cases h1 : k = k1
    · subst h1
      have : ¬ k = k2 := fun h => hne h.symm
      simp [alookup, this]
    · simp [alookup, h1]
  | trans h1 _ ih1 ih2 =>
    rw [ih1 hnd, ih2 ((h1.map Prod.fst).nodup_iff.mp hnd)]

end Uwg.C06
