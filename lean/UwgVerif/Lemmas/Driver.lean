/-
Helper lemmas for the driver model (C02): arithmetic of the row index and the record counter, the loop
invariant of `drvLoop`, and the list of record events.
-/
import UwgVerif.Model.Driver
import UwgVerif.Lemmas.Clock

namespace Uwg

/-! ### Arithmetic -/

theorem rowIdx_eq (dt it : Nat) (hpos : 0 < dt) (hit : 1 ≤ it) : rowIdx dt it = (it * dt - 1) / 3600 := by
  have : 1 ≤ it * dt := Nat.mul_pos hit hpos
  unfold rowIdx
  omega

/-- With `dt ∣ 3600`, after `j` steps the seconds within the current hour leave room for one more step. -/
theorem hour_room {dt : Nat} (hdt : dt ∣ 3600) (j : Nat) : (j * dt) % 3600 + dt ≤ 3600 :=
  add_le_of_dvd_lt ((Nat.dvd_mod_iff hdt).2 ⟨j, Nat.mul_comm _ _⟩) hdt (Nat.mod_lt _ (by decide))

/-- The record counter before step `j+1` equals the row index of step `j+1`. -/
theorem counter_eq_row {dt : Nat} (hdt : dt ∣ 3600) (hpos : 0 < dt) (j : Nat) :
    (j * dt) / 3600 = ((j + 1) * dt - 1) / 3600 := by
  have h := hour_room hdt j
  rw [Nat.succ_mul]
  omega

/-- The record counter advances exactly at the steps that end on a full hour. -/
theorem counter_step {dt : Nat} (hdt : dt ∣ 3600) (hpos : 0 < dt) (j : Nat) :
    ((j + 1) * dt) / 3600 = if ((j + 1) * dt) % 3600 = 0 then (j * dt) / 3600 + 1 else (j * dt) / 3600 := by
  have h := hour_room hdt j
  rw [Nat.succ_mul]
  split <;> omega

/-! ### Loop invariant -/

/-- Expected observation at loop index `it`, given the sequence `cs` of clock states
(`cs k` = state after `k` updates). -/
def stepSpec (dt : Nat) (cs : Nat → Clock) (it : Nat) : StepTrace :=
  { it := it, row := (it * dt - 1) / 3600, secDay := (cs it).secDay, hourDay := (cs it).hourDay,
    month := (cs it).month, day := (cs it).day, julian := (cs it).julian,
    dayType := dayType (cs it).julian, nBefore := (it * dt - 1) / 3600,
    recorded := decide (it * dt % 3600 = 0), monthBefore := (cs (it - 1)).month }

theorem drvStep_spec {dt N rows K : Nat} (hdt : dt ∣ 3600) (hpos : 0 < dt) (cs : Nat → Clock)
    (hupd : ∀ k, k < K → Clock.update dt (cs k) = some (cs (k + 1)))
    (hsec : ∀ k, k ≤ K → (cs k).secDay % 3600 = (k * dt) % 3600)
    (hK : K * dt ≤ 3600 * N) (hrows : N ≤ rows) (j : Nat) (hjK : j < K) :
    drvStep dt N rows (j + 1) (cs j) ((j * dt) / 3600) =
      .ok (cs (j + 1), ((j + 1) * dt) / 3600, stepSpec dt cs (j + 1)) := by
  have hle : (j + 1) * dt ≤ K * dt := Nat.mul_le_mul_right dt hjK
  have h1 : 1 ≤ (j + 1) * dt := Nat.mul_pos (Nat.succ_pos j) hpos
  have hrow : rowIdx dt (j + 1) = ((j + 1) * dt - 1) / 3600 := rowIdx_eq dt (j + 1) hpos (by omega)
  have hcnt := counter_eq_row hdt hpos j
  have hlt : (j * dt) / 3600 < N := by omega
  have hnr : ¬ rows ≤ rowIdx dt (j + 1) := by omega
  have hs := hsec (j + 1) (by omega)
  have hnext := counter_step hdt hpos j
  unfold drvStep
  rw [hupd j hjK]
  simp only [hnr, if_false, hs, hlt, decide_true, Bool.and_true]
  by_cases hrec : (j + 1) * dt % 3600 = 0
  · rw [if_pos hrec] at hnext
    simp [stepSpec, hrec, hnext, hrow, hcnt]
  · rw [if_neg hrec] at hnext
    simp [stepSpec, hrec, hnext, hrow, hcnt]

theorem drvLoop_spec {dt N rows K : Nat} (hdt : dt ∣ 3600) (hpos : 0 < dt) (cs : Nat → Clock)
    (hupd : ∀ k, k < K → Clock.update dt (cs k) = some (cs (k + 1)))
    (hsec : ∀ k, k ≤ K → (cs k).secDay % 3600 = (k * dt) % 3600)
    (hK : K * dt ≤ 3600 * N) (hrows : N ≤ rows) :
    ∀ steps j, j + steps = K →
      drvLoop dt N rows steps (j + 1) (cs j) ((j * dt) / 3600) =
        .ok ((List.range' (j + 1) steps).map (stepSpec dt cs)) := by
  intro steps
  induction steps with
  | zero => intro j _; simp [drvLoop]
  | succ steps ih =>
    intro j hj
    rw [drvLoop, drvStep_spec hdt hpos cs hupd hsec hK hrows j (by omega)]
    simp only []
    rw [ih (j + 1) (by omega)]
    simp [List.range'_succ]

/-! ### Record events -/

/-- Expected record event for slot `n`: taken at loop index `3600(n+1)/dt`, forced by row `n`. -/
def recSpec (dt n : Nat) : Nat × Nat × Nat := (n, 3600 * (n + 1) / dt, n)

theorem records_spec {dt : Nat} (hdt : dt ∣ 3600) (hpos : 0 < dt) (cs : Nat → Clock) :
    ∀ steps j, records ((List.range' (j + 1) steps).map (stepSpec dt cs)) =
      (List.range' ((j * dt) / 3600) (((j + steps) * dt) / 3600 - (j * dt) / 3600)).map (recSpec dt) := by
  intro steps
  induction steps with
  | zero => intro j; simp [records]
  | succ steps ih =>
    intro j
    have hcnt := counter_eq_row hdt hpos j
    have hnext := counter_step hdt hpos j
    have hidx : j + (steps + 1) = j + 1 + steps := by omega
    have hmono : ((j + 1) * dt) / 3600 ≤ ((j + 1 + steps) * dt) / 3600 :=
      Nat.div_le_div_right (Nat.mul_le_mul_right dt (by omega))
    have ih' := ih (j + 1)
    rw [List.range'_succ, List.map_cons, hidx]
    unfold records at ih' ⊢
    rw [List.filterMap_cons]
    by_cases hrec : (j + 1) * dt % 3600 = 0
    · rw [if_pos hrec] at hnext
      have hit : 3600 * ((j * dt) / 3600 + 1) / dt = j + 1 := by
        have : 3600 * ((j * dt) / 3600 + 1) = (j + 1) * dt := by omega
        rw [this, Nat.mul_div_cancel _ hpos]
      have hlen : ((j + 1 + steps) * dt) / 3600 - (j * dt) / 3600 =
          (((j + 1 + steps) * dt) / 3600 - ((j + 1) * dt) / 3600) + 1 := by omega
      have e1 : ((j + 1) * dt - 1) / 3600 = (j * dt) / 3600 := hcnt.symm
      rw [hnext] at ih' hlen
      simp only [stepSpec, hrec, decide_true, if_true]
      rw [ih', hlen, List.range'_succ, List.map_cons]
      simp only [recSpec, e1, hit]
    · rw [if_neg hrec] at hnext
      simp only [stepSpec, hrec, decide_false, if_false, Bool.false_eq_true]
      rw [ih', hnext]

end Uwg
