import UwgVerif.Model.Tridiag
import Mathlib.Algebra.Order.Field.Basic
import Mathlib.Tactic.FieldSimp
import Mathlib.Tactic.Ring
import Mathlib.Tactic.Linarith
import Mathlib.Tactic.LinearCombination

namespace Uwg
variable {K : Type} [Field K]

theorem elim_ne_nil (r : Row K) (rs : List (Row K)) : elim (r :: rs) ≠ [] := by
  unfold elim; split <;> simp

theorem elim_length (rs : List (Row K)) : (elim rs).length = rs.length := by
  induction rs with
  | nil => simp [elim]
  | cons r rs ih =>
    unfold elim
    split
    · rename_i h; rw [h] at ih; simp at ih; simp [← ih]
    · rename_i r' rs' h; rw [h] at ih; simp at ih ⊢; omega

/-- All pivots (main-diagonal entries after elimination) are non-zero. -/
def Pivots (rs : List (Row K)) : Prop := ∀ r ∈ elim rs, r.b ≠ 0

theorem Pivots.tail {r : Row K} {rs : List (Row K)} (h : Pivots (r :: rs)) : Pivots rs := by
  intro q hq
  apply h
  unfold elim
  split
  · rename_i he; rw [he] at hq; simp at hq
  · rename_i r' rs' he; rw [he] at hq; exact List.mem_cons_of_mem _ hq

/-- Core soundness lemma: forward substitution on the eliminated system satisfies the
    *original* system, for any value of the unknown above the first row. -/
theorem fwd_elim_sat (rs : List (Row K)) (hp : Pivots rs) (xprev : K) :
    Sat xprev rs (fwd xprev (elim rs)) := by
  induction rs generalizing xprev with
  | nil => simp [elim, fwd, Sat]
  | cons r rs ih =>
    have hp' := hp.tail
    have hpr := hp
    unfold Pivots at hpr
    unfold elim at hpr ⊢
    split
    · rename_i he
      -- rs must be empty
      have : rs = [] := by
        cases rs with
        | nil => rfl
        | cons q qs => exact absurd he (elim_ne_nil q qs)
      subst this
      rw [he] at hpr
      have hb : r.b ≠ 0 := hpr r (by simp)
      simp only [fwd, Sat, List.headD_nil, mul_zero, add_zero, and_true]
      field_simp
      ring
    · rename_i r' rs' he
      rw [he] at hpr
      have hb' : r'.b ≠ 0 := hpr r' (by simp)
      have hb : r.b - r.c * r'.a / r'.b ≠ 0 :=
        hpr { r with b := r.b - r.c * r'.a / r'.b, y := r.y - r.c * r'.y / r'.b } (by simp)
      cases rs with
      | nil => simp [elim] at he
      | cons q qs =>
        have ih' := ih hp' ((r.y - r.c * r'.y / r'.b - r.a * xprev) / (r.b - r.c * r'.a / r'.b))
        rw [he] at ih'
        simp only [fwd] at ih' ⊢
        refine ⟨?_, ih'⟩
        simp only [List.headD_cons]
        obtain ⟨D, hDdef⟩ : ∃ D, D = r.b - r.c * r'.a / r'.b := ⟨_, rfl⟩
        rw [← hDdef] at hb ⊢
        have hbD : r.b = D + r.c * r'.a / r'.b := by rw [hDdef]; ring
        rw [hbD]
        field_simp
        ring

/-- C16 (solver part) / C11: `invert` returns an exact solution of the system it is given,
    whenever no pivot vanishes. -/
theorem solve_sound (rs : List (Row K)) (hp : Pivots rs) : Sat 0 rs (solve rs) :=
  fwd_elim_sat rs hp 0

theorem solve_length (rs : List (Row K)) : (solve rs).length = rs.length := by
  unfold solve
  have : ∀ (l : List (Row K)) (x : K), (fwd x l).length = l.length := by
    intro l; induction l with
    | nil => intro x; simp [fwd]
    | cons r l ih => intro x; simp [fwd, ih]
  rw [this, elim_length]

section Ordered
variable [LinearOrder K] [IsStrictOrderedRing K]

/-- Row shape of every system uwg builds: non-positive off-diagonals, weak diagonal dominance,
    and `b + c > 0` (which is implied by strict dominance with `a ≤ 0`). The last diffusion row
    `(-1, 1, 0)` is only weakly dominant and is covered. -/
def MRow (r : Row K) : Prop := r.a ≤ 0 ∧ r.c ≤ 0 ∧ 0 ≤ r.a + r.b + r.c ∧ 0 < r.b + r.c

/-- Invariant carried bottom-up through the elimination. -/
theorem elim_head_inv (rs : List (Row K)) (h : ∀ r ∈ rs, MRow r) :
    (∀ r ∈ elim rs, 0 < r.b) ∧
    (∀ r rs', elim rs = r :: rs' → 0 ≤ r.a + r.b ∧ r.a ≤ 0) := by
  induction rs with
  | nil => simp [elim]
  | cons r rs ih =>
    have hr : MRow r := h r (by simp)
    obtain ⟨ha, hc, hd, hbc⟩ := hr
    have ih' := ih (fun q hq => h q (List.mem_cons_of_mem _ hq))
    unfold elim
    split
    · rename_i he
      refine ⟨?_, ?_⟩
      · intro q hq; simp at hq; subst hq; linarith
      · intro q qs hq; simp at hq; obtain ⟨rfl, _⟩ := hq; exact ⟨by linarith, ha⟩
    · rename_i r' rs' he
      rw [he] at ih'
      obtain ⟨hpos, hhead⟩ := ih'
      have hb' : 0 < r'.b := hpos r' (by simp)
      obtain ⟨hab', ha'⟩ := hhead r' rs' rfl
      -- 0 ≤ -a'/b' ≤ 1
      have hq0 : 0 ≤ -r'.a / r'.b := div_nonneg (by linarith) hb'.le
      have hq1 : -r'.a / r'.b ≤ 1 := by rw [div_le_one hb']; linarith
      have key : r.b - r.c * r'.a / r'.b = r.b + r.c * (-r'.a / r'.b) := by ring
      have hge : r.b + r.c ≤ r.b + r.c * (-r'.a / r'.b) := by
        have : r.c * 1 ≤ r.c * (-r'.a / r'.b) := mul_le_mul_of_nonpos_left hq1 hc
        linarith
      refine ⟨?_, ?_⟩
      · intro q hq
        simp only [List.mem_cons] at hq
        rcases hq with rfl | rfl | hq
        · show 0 < r.b - r.c * r'.a / r'.b
          rw [key]; linarith
        · exact hb'
        · exact hpos q (by simp [hq])
      · intro q qs hq
        simp only [List.cons.injEq] at hq
        obtain ⟨rfl, _⟩ := hq
        show 0 ≤ r.a + (r.b - r.c * r'.a / r'.b) ∧ r.a ≤ 0
        rw [key]
        exact ⟨by linarith, ha⟩

/-- Every system whose rows are all `MRow`s has non-vanishing (indeed positive) pivots. -/
theorem pivots_of_mrows (rs : List (Row K)) (h : ∀ r ∈ rs, MRow r) : Pivots rs := by
  intro r hr
  exact ne_of_gt ((elim_head_inv rs h).1 r hr)

/-- Strict diagonal dominance in the usual absolute-value sense. -/
def SDD (r : Row K) : Prop := |r.a| + |r.c| < |r.b|

theorem elim_head_sdd (rs : List (Row K)) (h : ∀ r ∈ rs, SDD r) :
    (∀ r ∈ elim rs, r.b ≠ 0) ∧ (∀ r rs', elim rs = r :: rs' → |r.a| < |r.b|) := by
  induction rs with
  | nil => simp [elim]
  | cons r rs ih =>
    have hr : SDD r := h r (by simp)
    unfold SDD at hr
    have ih' := ih (fun q hq => h q (List.mem_cons_of_mem _ hq))
    unfold elim
    split
    · rename_i he
      have hlt : |r.a| < |r.b| := by have := abs_nonneg r.c; linarith
      refine ⟨?_, ?_⟩
      · intro q hq; simp at hq; subst hq
        intro h0; rw [h0, abs_zero] at hlt; exact absurd hlt (not_lt.mpr (abs_nonneg _))
      · intro q qs hq; simp at hq; obtain ⟨rfl, _⟩ := hq; exact hlt
    · rename_i r' rs' he
      rw [he] at ih'
      obtain ⟨hne, hhead⟩ := ih'
      have hb' : r'.b ≠ 0 := hne r' (by simp)
      have hab' := hhead r' rs' rfl
      have hb'pos : 0 < |r'.b| := abs_pos.mpr hb'
      have hratio : |r'.a / r'.b| ≤ 1 := by
        rw [abs_div, div_le_one hb'pos]; exact hab'.le
      have hterm : |r.c * r'.a / r'.b| ≤ |r.c| := by
        rw [mul_div_assoc, abs_mul]
        calc |r.c| * |r'.a / r'.b| ≤ |r.c| * 1 := mul_le_mul_of_nonneg_left hratio (abs_nonneg _)
          _ = |r.c| := mul_one _
      have hlow : |r.b| - |r.c * r'.a / r'.b| ≤ |r.b - r.c * r'.a / r'.b| :=
        abs_sub_abs_le_abs_sub _ _
      have hlt : |r.a| < |r.b - r.c * r'.a / r'.b| := by linarith
      refine ⟨?_, ?_⟩
      · intro q hq
        simp only [List.mem_cons] at hq
        rcases hq with rfl | rfl | hq
        · show r.b - r.c * r'.a / r'.b ≠ 0
          intro h0; rw [h0, abs_zero] at hlt
          exact absurd hlt (not_lt.mpr (abs_nonneg _))
        · exact hb'
        · exact hne q (by simp [hq])
      · intro q qs hq
        simp only [List.cons.injEq] at hq
        obtain ⟨rfl, _⟩ := hq
        exact hlt

/-- C16: for every strictly diagonally dominant tridiagonal system the pivots are non-zero,
    hence (`solve_sound`) the solver returns its exact solution. -/
theorem pivots_of_sdd (rs : List (Row K)) (h : ∀ r ∈ rs, SDD r) : Pivots rs :=
  (elim_head_sdd rs h).1

theorem solve_sound_of_sdd (rs : List (Row K)) (h : ∀ r ∈ rs, SDD r) : Sat 0 rs (solve rs) :=
  solve_sound rs (pivots_of_sdd rs h)

theorem solve_sound_of_mrows (rs : List (Row K)) (h : ∀ r ∈ rs, MRow r) : Sat 0 rs (solve rs) :=
  solve_sound rs (pivots_of_mrows rs h)

end Ordered
end Uwg
