/-
Helper lemmas for the composition `Model/Morph.lean`: the window cut out of the file, which rural row a
stored record was made from, and the only way a valid run can fail.
-/
import UwgVerif.Model.Morph
import UwgVerif.Lemmas.Sim
import UwgVerif.Props.C10

namespace Uwg.Morph
open Uwg Uwg.Csv Uwg.Sim Uwg.C02

variable {S R D Rec E : Type}

theorem startRow_eq (M Dy : Nat) : startRow M Dy = 24 * (Clock.init M Dy).julian := by
  unfold startRow timeInitial
  omega

theorem julian_eq {M Dy : Nat} (hv : validDate M Dy) : (Clock.init M Dy).julian = dayOfYear0 M Dy := by
  rw [init_eq hv]
  show dayOfYear0 M Dy * 86400 / 86400 = dayOfYear0 M Dy
  omega

theorem window_length {α : Type} (M Dy days : Nat) (file : List α)
    (hfit : 24 * ((Clock.init M Dy).julian + days) ≤ file.length) :
    (window M Dy days file).length = 24 * days := by
  unfold window
  rw [List.length_take, List.length_drop]
  omega

theorem window_getElem? {α : Type} (M Dy days : Nat) (file : List α) (n : Nat) (hn : n < 24 * days) :
    (window M Dy days file)[n]? = file[24 * (Clock.init M Dy).julian + n]? := by
  unfold window
  rw [List.getElem?_take]
  simp [hn, List.getElem?_drop]

/-- Every record a returning run appended was made by `P.record` from the rural row of its record event. -/
theorem runSteps_records_at (P : Phys S R D Rec E) (deep : StepTrace → D) (rows : List R)
    (tr : List StepTrace) :
    ∀ (s s' : S) (acc acc' : List Rec), runSteps P deep rows tr s acc = .ok (s', acc') →
      (∃ new, acc' = acc ++ new) ∧
      ∀ (k : Nat) (ev : Nat × Nat × Nat), (records tr)[k]? = some ev →
        ∃ s1 t r, rows[ev.2.2]? = some r ∧ acc'[acc.length + k]? = some (P.record s1 t r) := by
  induction tr with
  | nil =>
    intro s s' acc acc' h
    simp only [runSteps, Except.ok.injEq, Prod.mk.injEq] at h
    refine ⟨⟨[], by simp [h.2]⟩, ?_⟩
    intro k ev hk
    simp [records] at hk
  | cons t ts ih =>
    intro s s' acc acc' h
    simp only [runSteps] at h
    cases hr : rows[t.row]? with
    | none => simp [hr] at h
    | some r =>
      simp only [hr] at h
      cases hp : P.step s t r (deep t) with
      | error e => simp [hp] at h
      | ok s1 =>
        simp only [hp] at h
        by_cases hrec : t.recorded = true
        · simp only [hrec, if_true] at h
          obtain ⟨⟨new, hnew⟩, hat⟩ := ih s1 s' _ acc' h
          refine ⟨⟨P.record s1 t r :: new, by simp [hnew]⟩, ?_⟩
          intro k ev hk
          have hrecs : records (t :: ts) = (t.nBefore, t.it, t.row) :: records ts := by
            simp [records, hrec]
          rw [hrecs] at hk
          cases k with
          | zero =>
            simp only [List.getElem?_cons_zero, Option.some.injEq] at hk
            subst hk
            refine ⟨s1, t, r, hr, ?_⟩
            rw [hnew]
            simp
          | succ k =>
            simp only [List.getElem?_cons_succ] at hk
            obtain ⟨s2, t2, r2, h1, h2⟩ := hat k ev hk
            refine ⟨s2, t2, r2, h1, ?_⟩
            rw [← h2]
            congr 1
            simp only [List.length_append, List.length_cons, List.length_nil]
            omega
        · simp only [hrec] at h
          obtain ⟨hnew, hat⟩ := ih s1 s' acc acc' h
          refine ⟨hnew, ?_⟩
          intro k ev hk
          have hrecs : records (t :: ts) = records ts := by
            simp [records, hrec]
          rw [hrecs] at hk
          exact hat k ev hk

/-- When every step of the trace finds its forcing row, the only exception is one raised by the physics. -/
theorem runSteps_error_phys (P : Phys S R D Rec E) (deep : StepTrace → D) (rows : List R)
    (tr : List StepTrace) (hrow : ∀ t ∈ tr, t.row < rows.length) :
    ∀ (s : S) (acc acc' : List Rec) (e : SimErr E),
      runSteps P deep rows tr s acc = .error (acc', e) → ∃ pe, e = .phys pe := by
  induction tr with
  | nil => intro s acc acc' e h; simp [runSteps] at h
  | cons t ts ih =>
    intro s acc acc' e h
    simp only [runSteps] at h
    have hlt := hrow t (by simp)
    rw [List.getElem?_eq_getElem hlt] at h
    simp only [] at h
    cases hp : P.step s t rows[t.row] (deep t) with
    | error pe =>
      simp only [hp, Except.error.injEq, Prod.mk.injEq] at h
      exact ⟨pe, h.2.symm⟩
    | ok s1 =>
      simp only [hp] at h
      exact ih (fun q hq => hrow q (List.mem_cons_of_mem _ hq)) s1 _ acc' e h

/-- A valid run (valid start, window inside the year, hour-dividing timestep, all `24·days` rural rows
    present) either returns with exactly `24·days` records, record `n` made from rural row `n`, or ends in
    an exception raised by the physics. -/
theorem simulate_valid (P : Phys S R D Rec E) (soil : Soil D) (dt M Dy days : Nat) (rows : List R) (s0 : S)
    (hv : Valid ⟨dt, M, Dy, days, rows.length⟩) :
    (∃ s' recs, simulate P soil dt M Dy days rows s0 = .ok (s', recs) ∧ recs.length = 24 * days ∧
      ∀ n, n < 24 * days → ∃ s1 t r, rows[n]? = some r ∧ recs[n]? = some (P.record s1 t r)) ∨
    (∃ recs pe, simulate P soil dt M Dy days rows s0 = .error (recs, .phys pe)) := by
  obtain ⟨tr, htr, hrec⟩ := records_eq ⟨dt, M, Dy, days, rows.length⟩ hv
  obtain ⟨tr', htr', _, _, _, hrows, _⟩ := records_complete ⟨dt, M, Dy, days, rows.length⟩ hv
  rw [htr] at htr'
  cases htr'
  have hsim := simulate_of_driver_ok P soil dt M Dy days rows s0 tr htr
  cases hrun : runSteps P (deepAt soil) rows tr s0 [] with
  | error x =>
    obtain ⟨acc', e⟩ := x
    right
    have hlt : ∀ t ∈ tr, t.row < rows.length := by
      intro t ht
      have h1 : t.row < 24 * days := (hrows t ht).1
      have h2 : 24 * days ≤ rows.length := hv.rows
      omega
    obtain ⟨pe, rfl⟩ := runSteps_error_phys P (deepAt soil) rows tr hlt s0 [] acc' e hrun
    exact ⟨acc', pe, by rw [hsim, hrun]⟩
  | ok x =>
    obtain ⟨s', recs⟩ := x
    left
    have hlen := C10.records_complete_on_return P soil dt M Dy days rows s0 s' recs hv (by rw [hsim, hrun])
    refine ⟨s', recs, by rw [hsim, hrun], hlen, ?_⟩
    intro n hn
    obtain ⟨_, hat⟩ := runSteps_records_at P (deepAt soil) rows tr s0 s' [] recs hrun
    have hk : (records tr)[n]? = some (recSpec dt n) := by
      rw [hrec]
      simp [hn]
    obtain ⟨s1, t, r, h1, h2⟩ := hat n _ hk
    refine ⟨s1, t, r, h1, ?_⟩
    simpa using h2

end Uwg.Morph
