/-
C06 — association-list lemmas and the core induction over a sequence of property setters.
-/
import UwgVerif.Lemmas.C06Records

namespace Uwg.C06
open Uwg.Gen

/-! ### association lists -/

theorem alookup_aset {β : Type} (k n : Str) (v : β) (l : List (Str × β)) :
    alookup k (aset n v l) = if k = n then some v else alookup k l := by
  induction l with
  | nil => simp [aset, alookup]
  | cons p rest ih =>
    obtain ⟨k', v'⟩ := p
    by_cases h1 : n = k'
    · subst h1
      by_cases h2 : k = n
      · simp [aset, alookup, h2]
      · simp [aset, alookup, h2]
    · by_cases h2 : k = k'
      · subst h2
        have : ¬ k = n := fun h => h1 h.symm
        simp [aset, alookup, h1, this]
      · simp [aset, alookup, h1, h2, ih]

theorem alookup_append {β : Type} (k : Str) (l1 l2 : List (Str × β)) :
    alookup k (l1 ++ l2) = (alookup k l1).orElse (fun _ => alookup k l2) := by
  induction l1 with
  | nil => simp [alookup]
  | cons p rest ih =>
    obtain ⟨k', v'⟩ := p
    by_cases h : k = k' <;> simp [alookup, h, ih]

theorem alookup_map_self {β : Type} (f : Str → β) (ns : List Str) (k : Str) :
    alookup k (ns.map fun n => (n, f n)) = if k ∈ ns then some (f k) else none := by
  induction ns with
  | nil => simp [alookup]
  | cons n ns ih =>
    by_cases h : k = n
    · subst h; simp [alookup]
    · simp [alookup, h, ih]

theorem alookup_mem {β : Type} {k : Str} {v : β} {l : List (Str × β)} (h : alookup k l = some v) :
    (k, v) ∈ l := by
  induction l with
  | nil => simp [alookup] at h
  | cons p rest ih =>
    obtain ⟨k', v'⟩ := p
    by_cases hk : k = k'
    · subst hk
      simp [alookup] at h
      subst h
      simp
    · simp [alookup, hk] at h
      exact List.mem_cons_of_mem _ (ih h)

theorem getAttrs_eq (st : St) (f : Str → J) (ns : List Str)
    (h : ∀ n ∈ ns, alookup n st = some (f n)) :
    getAttrs st ns = .ok (ns.map fun n => (n, f n)) := by
  induction ns with
  | nil => rfl
  | cons n ns ih =>
    have h1 := h n (by simp)
    have h2 := ih (fun x hx => h x (by simp [hx]))
    simp [getAttrs, h1, h2]

/-- `getAttrs` only depends on the looked-up values -/
theorem getAttrs_congr (st st' : St) (ns : List Str)
    (h : ∀ n ∈ ns, alookup n st = alookup n st') : getAttrs st ns = getAttrs st' ns := by
  induction ns with
  | nil => rfl
  | cons n ns ih =>
    have h1 := h n (by simp)
    have h2 := ih (fun x hx => h x (by simp [hx]))
    simp [getAttrs, h1, h2]

/-! ### one setter -/

theorem setParam_noncover {k : Kind} (h : ∀ a b, k ≠ .cover a b) (n : Str) (st : St) (v : J) :
    setParam k n st v = (norm k v).map (fun v' => aset n v' st) := by
  cases k <;> first | rfl | exact absurd rfl (h _ _)

/-- the sum tested by a cover setter: stored `a`, stored `b`, incoming value of `n` -/
def CoverOK (nv val : Str → J) (a b n : Str) : Prop :=
  ∃ p q r, numView (nv a) = some p ∧ numView (nv b) = some q ∧ numView (val n) = some r ∧ p + q + r ≤ 1

/-- State invariant: names already assigned hold their normalised value, all others are as
    `__init__` left them. -/
def StInv (nv : Str → J) (seen : List Str) (st : St) : Prop :=
  ∀ k, alookup k st = if k ∈ seen then some (nv k) else alookup k initSt

theorem setParam_ok (val nv : Str → J) (n : Str) (st : St) (seen : List Str)
    (hn : norm (kindOf n) (val n) = .ok (nv n))
    (hc : ∀ a b, kindOf n = .cover a b →
      alookup a initSt = none ∧ alookup b initSt = none ∧ CoverOK nv val a b n)
    (hinv : StInv nv seen st) :
    setParam (kindOf n) n st (val n) = .ok (aset n (nv n) st) := by
  cases hk : kindOf n with
  | cover a b =>
    obtain ⟨ha, hb, p, q, r, hp, hq, hr, hsum⟩ := hc a b hk
    rw [hk] at hn
    have la := hinv a
    have lb := hinv b
    rw [ha] at la
    rw [hb] at lb
    by_cases sa : a ∈ seen
    · by_cases sb : b ∈ seen
      · simp only [sa, sb, if_true] at la lb
        simp [setParam, la, lb, hp, hq, hr, hsum, hn, Except.map]
      · simp only [sb, if_false] at lb
        simp [setParam, lb, hn, Except.map]
    · simp only [sa, if_false] at la
      simp [setParam, la, hn, Except.map]
  | _ =>
    rw [hk] at hn
    simp [setParam, hn, Except.map]

theorem StInv_step (nv : Str → J) (n : Str) (st : St) (seen : List Str) (hinv : StInv nv seen st) :
    StInv nv (n :: seen) (aset n (nv n) st) := by
  intro k
  rw [alookup_aset, hinv k]
  by_cases h : k = n
  · subst h; simp
  · simp [h]

/-- Lemma B: a run of setters over `ns` succeeds and stores the normalised values, provided every
    value normalises and every cover sum that can be tested is within bounds. -/
theorem runSetters_ok (src : Str → Except Err J) (val nv : Str → J) (ns : List Str) :
    ∀ (st : St) (seen : List Str),
    (∀ n ∈ ns, src n = .ok (val n) ∧ norm (kindOf n) (val n) = .ok (nv n)) →
    (∀ n ∈ ns, ∀ a b, kindOf n = .cover a b →
      alookup a initSt = none ∧ alookup b initSt = none ∧ CoverOK nv val a b n) →
    StInv nv seen st →
    ∃ st', runSetters src ns st = .ok st' ∧ StInv nv (ns.reverse ++ seen) st' := by
  induction ns with
  | nil => intro st seen _ _ hinv; exact ⟨st, rfl, by simpa using hinv⟩
  | cons n ns ih =>
    intro st seen h hc hinv
    obtain ⟨hs, hn⟩ := h n (by simp)
    have h1 := setParam_ok val nv n st seen hn (hc n (by simp)) hinv
    obtain ⟨st', hr, hinv'⟩ := ih (aset n (nv n) st) (n :: seen)
      (fun x hx => h x (by simp [hx])) (fun x hx => hc x (by simp [hx])) (StInv_step nv n st seen hinv)
    refine ⟨st', ?_, ?_⟩
    · simp [runSetters, hs, h1, hr]
    · simpa using hinv'

theorem StInv_init (nv : Str → J) : StInv nv [] initSt := by
  intro k; simp

end Uwg.C06
