import UwgVerif.Model.Sim
import UwgVerif.Props.C02

namespace Uwg.Sim
open Uwg
variable {S R D Rec E : Type}

theorem traceLoop_of_drvLoop (dt N rows : Nat) :
    ∀ (steps it : Nat) (c : Clock) (n : Nat) (tr : List StepTrace),
      drvLoop dt N rows steps it c n = .ok tr → traceLoop dt N rows steps it c n = (tr, none) := by
  intro steps
  induction steps with
  | zero => intro it c n tr h; simp [drvLoop] at h; simp [traceLoop, h]
  | succ steps ih =>
    intro it c n tr h
    simp only [drvLoop] at h
    cases hs : drvStep dt N rows it c n with
    | error e => simp [hs] at h
    | ok p =>
      obtain ⟨c', n', t⟩ := p
      simp only [hs] at h
      cases hl : drvLoop dt N rows steps (it + 1) c' n' with
      | error e => simp [hl] at h
      | ok rest =>
        simp only [hl] at h
        cases h
        simp [traceLoop, hs, ih (it + 1) c' n' rest hl]

/-- When the driver runs through (`driver cfg = ok tr`), `simulate` is the loop body iterated over
    that trace. -/
theorem simulate_of_driver_ok (P : Phys S R D Rec E) (soil : Soil D) (dt M Dy days : Nat)
    (rows : List R) (s0 : S) (tr : List StepTrace)
    (h : driver ⟨dt, M, Dy, days, rows.length⟩ = .ok tr) :
    simulate P soil dt M Dy days rows s0 = runSteps P (deepAt soil) rows tr s0 [] := by
  unfold driver at h
  unfold simulate
  cases hc : Clock.create dt M Dy with
  | error e => cases e <;> simp [hc] at h
  | ok c0 =>
    simp only [hc] at h
    have ht := traceLoop_of_drvLoop _ _ _ _ _ _ _ tr h
    simp only [ht]
    cases runSteps P (deepAt soil) rows tr s0 [] with
    | error x => rfl
    | ok p => rfl

theorem runSteps_append (P : Phys S R D Rec E) (deep : StepTrace → D) (rows : List R)
    (pre suf : List StepTrace) :
    ∀ (s : S) (acc : List Rec),
      runSteps P deep rows (pre ++ suf) s acc =
        match runSteps P deep rows pre s acc with
        | .error x => .error x
        | .ok (s', acc') => runSteps P deep rows suf s' acc' := by
  induction pre with
  | nil => intro s acc; simp [runSteps]
  | cons t ts ih =>
    intro s acc
    simp only [List.cons_append, runSteps]
    cases rows[t.row]? with
    | none => rfl
    | some r =>
      simp only []
      cases P.step s t r (deep t) with
      | error e => rfl
      | ok s' => exact ih s' _

/-- Runs over two row lists (and two deep-temperature selectors) coincide when they agree on
    every row index and deep temperature the trace actually uses. -/
theorem runSteps_congr (P : Phys S R D Rec E) (deep deep' : StepTrace → D) (rows rows' : List R)
    (tr : List StepTrace)
    (h : ∀ t ∈ tr, rows[t.row]? = rows'[t.row]? ∧ deep t = deep' t) :
    ∀ (s : S) (acc : List Rec),
      runSteps P deep rows tr s acc = runSteps P deep' rows' tr s acc := by
  induction tr with
  | nil => intro s acc; rfl
  | cons t ts ih =>
    intro s acc
    obtain ⟨hr, hd⟩ := h t (by simp)
    simp only [runSteps, hr, hd]
    cases rows'[t.row]? with
    | none => rfl
    | some r =>
      simp only []
      cases P.step s t r (deep' t) with
      | error e => rfl
      | ok s' => exact ih (fun q hq => h q (List.mem_cons_of_mem _ hq)) s' _

/-- Records are only ever appended. -/
theorem runSteps_extends (P : Phys S R D Rec E) (deep : StepTrace → D) (rows : List R)
    (tr : List StepTrace) :
    ∀ (s : S) (acc : List Rec), ∃ x, recordsOf (runSteps P deep rows tr s acc) = acc ++ x := by
  induction tr with
  | nil => intro s acc; exact ⟨[], by simp [runSteps, recordsOf]⟩
  | cons t ts ih =>
    intro s acc
    simp only [runSteps]
    cases rows[t.row]? with
    | none => exact ⟨[], by simp [recordsOf]⟩
    | some r =>
      simp only []
      cases P.step s t r (deep t) with
      | error e => exact ⟨[], by simp [recordsOf]⟩
      | ok s' =>
        simp only []
        by_cases hrec : t.recorded = true
        · obtain ⟨x, hx⟩ := ih s' (acc ++ [P.record s' t r])
          exact ⟨P.record s' t r :: x, by simp [hrec, hx]⟩
        · obtain ⟨x, hx⟩ := ih s' acc
          exact ⟨x, by simp [hrec, hx]⟩

theorem records_length (tr : List StepTrace) :
    (records tr).length = (tr.filter (·.recorded)).length := by
  induction tr with
  | nil => simp [records]
  | cons t ts ih =>
    unfold records at ih ⊢
    rw [List.filterMap_cons, List.filter_cons]
    by_cases h : t.recorded = true
    · simp [h, ih]
    · simp [h, ih]

/-- On normal return the number of records grew by the number of record steps of the trace. -/
theorem runSteps_ok_length (P : Phys S R D Rec E) (deep : StepTrace → D) (rows : List R)
    (tr : List StepTrace) :
    ∀ (s s' : S) (acc acc' : List Rec), runSteps P deep rows tr s acc = .ok (s', acc') →
      acc'.length = acc.length + (records tr).length := by
  induction tr with
  | nil => intro s s' acc acc' h; simp [runSteps] at h; simp [records, h.2]
  | cons t ts ih =>
    intro s s' acc acc' h
    simp only [runSteps] at h
    cases hr : rows[t.row]? with
    | none => simp [hr] at h
    | some r =>
      simp only [hr] at h
      cases hp : P.step s t r (deep t) with
      | error e => simp [hp] at h
      | ok s1 =>
        simp only [hp] at h
        have := ih s1 s' _ acc' h
        rw [this, records_length, records_length, List.filter_cons]
        by_cases hrec : t.recorded = true
        · simp [hrec]; omega
        · simp [hrec]

/-- Every record stored by a run satisfies `okRec` when the physics only returns good states and
    records of good states are fine. -/
theorem runSteps_records_good (P : Phys S R D Rec E) (deep : StepTrace → D) (rows : List R)
    (good : S → Prop) (okRec : Rec → Prop)
    (hstep : ∀ s t r d s', P.step s t r d = .ok s' → good s')
    (hrec : ∀ s t r, good s → okRec (P.record s t r))
    (tr : List StepTrace) :
    ∀ (s : S) (acc : List Rec), (∀ x ∈ acc, okRec x) →
      ∀ x ∈ recordsOf (runSteps P deep rows tr s acc), okRec x := by
  induction tr with
  | nil => intro s acc hacc; simpa [runSteps, recordsOf] using hacc
  | cons t ts ih =>
    intro s acc hacc
    simp only [runSteps]
    cases rows[t.row]? with
    | none => simpa [recordsOf] using hacc
    | some r =>
      simp only []
      cases hp : P.step s t r (deep t) with
      | error e => simpa [recordsOf] using hacc
      | ok s' =>
        simp only []
        apply ih
        intro x hx
        by_cases hr : t.recorded = true
        · simp only [hr, if_true, List.mem_append, List.mem_singleton] at hx
          rcases hx with hx | rfl
          · exact hacc x hx
          · exact hrec s' t r (hstep s t r _ s' hp)
        · simp only [hr] at hx
          exact hacc x hx

end Uwg.Sim
