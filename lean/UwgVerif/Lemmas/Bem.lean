/-
Helper lemmas for the stock-selection model (`Model/Bem.lean`), used by Props/C07 and Props/C08.
-/
import UwgVerif.Model.Bem
import Mathlib.Algebra.BigOperators.Group.List.Basic
import Mathlib.Algebra.Order.Field.Basic
import Mathlib.Tactic.Ring
import Mathlib.Tactic.Linarith
import Mathlib.Data.List.Nodup

set_option linter.unusedSectionVars false
set_option linter.unusedSimpArgs false

namespace Uwg.Bem
variable {K : Type}

/-! ### Pure description of a successful scan -/

/-- Totalised `refBEM[i][j][z]` (`none` also when a subscript is out of range). -/
def cellD (row : LibRow K) (j z : Nat) : Option (Arch K) :=
  match row[j]? with
  | none => none
  | some col =>
    match col[z]? with
    | none => none
    | some c => c

theorem cell_ok_cellD {row : LibRow K} {j z : Nat} {c : Option (Arch K)}
    (h : cell row j z = .ok c) : cellD row j z = c := by
  unfold cell at h; unfold cellD
  split at h
  · cases h
  · rename_i col hcol
    simp only [hcol]
    split at h
    · cases h
    · rename_i c' hc'
      simp only [hc']; cases h; rfl

def Arch.key (a : Arch K) : Key := (a.bldtype, a.era)

def hitPure (d : List (Key × K)) (z : Nat) (row : LibRow K) (j : Nat) : Option (Hit K) :=
  match cellD row j z with
  | none => none
  | some a =>
    match lookup (a.bldtype, a.era) d with
    | none => none
    | some f =>
      match cellD row a.era z with
      | none => none
      | some b => some ⟨(a.bldtype, a.era), b, f⟩

theorem scanCell_ok {d : List (Key × K)} {z : Nat} {row : LibRow K} {j : Nat} {o : Option (Hit K)}
    (h : scanCell d z row j = .ok o) : o = hitPure d z row j := by
  unfold scanCell at h; unfold hitPure
  split at h
  · cases h
  · rename_i h1; rw [cell_ok_cellD h1]; cases h; rfl
  · rename_i a h1
    rw [cell_ok_cellD h1]
    simp only
    split at h
    · rename_i h2; simp only [h2]; cases h; rfl
    · rename_i f h2
      simp only [h2]
      split at h
      · cases h
      · cases h
      · rename_i b h3
        rw [cell_ok_cellD h3]; cases h; rfl

def rowHits (d : List (Key × K)) (z : Nat) (row : LibRow K) : List (Hit K) :=
  (hitPure d z row 0).toList ++ ((hitPure d z row 1).toList ++ (hitPure d z row 2).toList)

theorem scanRow_ok {d : List (Key × K)} {z : Nat} {row : LibRow K} {hs : List (Hit K)}
    (h : scanRow d z row = .ok hs) : hs = rowHits d z row := by
  unfold scanRow at h; unfold rowHits
  split at h
  · cases h
  · rename_i h0 e0
    split at h
    · cases h
    · rename_i h1 e1
      split at h
      · cases h
      · rename_i h2 e2
        cases h
        rw [scanCell_ok e0, scanCell_ok e1, scanCell_ok e2]

def libHits (d : List (Key × K)) (z : Nat) (lib : Lib K) : List (Hit K) :=
  lib.flatMap (rowHits d z)

theorem scan_ok {d : List (Key × K)} {z : Nat} {lib : Lib K} {hs : List (Hit K)}
    (h : scan d z lib = .ok hs) : hs = libHits d z lib := by
  induction lib generalizing hs with
  | nil => simp only [scan] at h; cases h; rfl
  | cons row rest ih =>
    simp only [scan] at h
    split at h
    · cases h
    · rename_i hr er
      split at h
      · cases h
      · rename_i tl et
        cases h
        rw [scanRow_ok er, ih et]; simp [libHits]

/-! ### The stock dictionary -/

theorem lookup_some_mem {k : Key} {f : K} {d : List (Key × K)} (h : lookup k d = some f) :
    (k, f) ∈ d := by
  induction d with
  | nil => simp [lookup] at h
  | cons p rest ih =>
    obtain ⟨k', g⟩ := p
    simp only [lookup] at h
    split at h
    · rename_i hk; cases h; subst hk; simp
    · exact List.mem_cons_of_mem _ (ih h)

theorem lookup_none_iff {k : Key} {d : List (Key × K)} :
    lookup k d = none ↔ k ∉ d.map Prod.fst := by
  induction d with
  | nil => simp [lookup]
  | cons p rest ih =>
    obtain ⟨k', g⟩ := p
    simp only [lookup, List.map_cons, List.mem_cons, not_or]
    split
    · rename_i hk; subst hk; simp
    · rename_i hk; rw [ih]; constructor
      · intro h; exact ⟨fun e => hk e.symm, h⟩
      · intro h; exact h.2

theorem mem_lookup_of_nodup {k : Key} {f : K} {d : List (Key × K)}
    (hn : (d.map Prod.fst).Nodup) (h : (k, f) ∈ d) : lookup k d = some f := by
  induction d with
  | nil => simp at h
  | cons p rest ih =>
    obtain ⟨k', g⟩ := p
    simp only [List.map_cons, List.nodup_cons] at hn
    simp only [lookup]
    rcases List.mem_cons.1 h with h | h
    · cases h; simp
    · split
      · rename_i hk; subst hk
        exact absurd (List.mem_map_of_mem (f := Prod.fst) h) hn.1
      · exact ih hn.2 h

section Dict
variable [Field K]

theorem dictAdd_keys_mem {k k' : Key} {f : K} {d : List (Key × K)} :
    k' ∈ (dictAdd k f d).map Prod.fst ↔ k' = k ∨ k' ∈ d.map Prod.fst := by
  induction d with
  | nil => simp [dictAdd]
  | cons p rest ih =>
    obtain ⟨k2, g⟩ := p
    simp only [dictAdd]
    split
    · rename_i hk; subst hk
      simp only [List.map_cons, List.mem_cons]
      tauto
    · simp only [List.map_cons, List.mem_cons, ih]
      tauto

theorem dictAdd_nodup {k : Key} {f : K} {d : List (Key × K)} (hn : (d.map Prod.fst).Nodup) :
    ((dictAdd k f d).map Prod.fst).Nodup := by
  induction d with
  | nil => simp [dictAdd]
  | cons p rest ih =>
    obtain ⟨k2, g⟩ := p
    simp only [List.map_cons, List.nodup_cons] at hn
    simp only [dictAdd]
    split
    · simp only [List.map_cons, List.nodup_cons]; exact hn
    · rename_i hk
      simp only [List.map_cons, List.nodup_cons, dictAdd_keys_mem, not_or]
      exact ⟨⟨hk, hn.1⟩, ih hn.2⟩

theorem lookup_dictAdd {k k' : Key} {f : K} {d : List (Key × K)} :
    lookup k' (dictAdd k f d) =
      if k' = k then some (f + (lookup k d).getD 0) else lookup k' d := by
  induction d with
  | nil =>
    simp only [dictAdd, lookup]
    by_cases h : k' = k
    · subst h; simp
    · have h' : ¬ k = k' := fun e => h e.symm
      simp [h, h']
  | cons p rest ih =>
    obtain ⟨k2, g⟩ := p
    simp only [dictAdd]
    by_cases h2 : k2 = k
    · subst h2
      simp only [if_true, lookup]
      by_cases h : k' = k2
      · subst h; simp
      · have h' : ¬ k2 = k' := fun e => h e.symm
        simp [h, h']
    · simp only [h2, if_false, lookup]
      by_cases h : k2 = k'
      · subst h; simp [h2]
      · simp only [h, if_false, ih]

theorem dictAdd_sum {k : Key} {f : K} {d : List (Key × K)} :
    ((dictAdd k f d).map Prod.snd).sum = f + (d.map Prod.snd).sum := by
  induction d with
  | nil => simp [dictAdd]
  | cons p rest ih =>
    obtain ⟨k2, g⟩ := p
    simp only [dictAdd]
    split
    · simp only [List.map_cons, List.sum_cons]; ring
    · simp only [List.map_cons, List.sum_cons, ih]; ring

/-- Total fraction the stock list gives to key `k`. -/
def fracOf [DecidableEq K] (k : Key) (rows : List (Key × K)) : K :=
  ((rows.filter (fun r => r.1 = k)).map Prod.snd).sum

def aggFrom (d0 : List (Key × K)) (rows : List (Key × K)) : List (Key × K) :=
  rows.foldl (fun d r => dictAdd r.1 r.2 d) d0

theorem aggFrom_nodup {d0 rows : List (Key × K)} (hn : (d0.map Prod.fst).Nodup) :
    ((aggFrom d0 rows).map Prod.fst).Nodup := by
  induction rows generalizing d0 with
  | nil => exact hn
  | cons r rs ih => exact ih (dictAdd_nodup hn)

theorem aggFrom_sum {d0 rows : List (Key × K)} :
    ((aggFrom d0 rows).map Prod.snd).sum = (d0.map Prod.snd).sum + (rows.map Prod.snd).sum := by
  induction rows generalizing d0 with
  | nil => simp [aggFrom]
  | cons r rs ih =>
    have := ih (d0 := dictAdd r.1 r.2 d0)
    simp only [aggFrom, List.foldl_cons] at this ⊢
    rw [this, dictAdd_sum]; simp only [List.map_cons, List.sum_cons]; ring

theorem lookup_aggFrom [DecidableEq K] {k : Key} {d0 rows : List (Key × K)} :
    lookup k (aggFrom d0 rows) =
      if k ∈ rows.map Prod.fst then some ((lookup k d0).getD 0 + fracOf k rows)
      else lookup k d0 := by
  induction rows generalizing d0 with
  | nil => simp [aggFrom]
  | cons r rs ih =>
    have := ih (d0 := dictAdd r.1 r.2 d0)
    simp only [aggFrom, List.foldl_cons] at this ⊢
    rw [this, lookup_dictAdd]
    by_cases hk : k = r.1
    · subst hk
      by_cases hm : r.1 ∈ rs.map Prod.fst
      · simp [hm, fracOf, List.filter_cons]; ring
      · simp [hm, fracOf, List.filter_cons]
        have : rs.filter (fun x => x.1 = r.1) = [] := by
          rw [List.filter_eq_nil_iff]; intro x hx; simp only [decide_eq_true_eq]
          intro e; exact hm (by rw [← e]; exact List.mem_map_of_mem hx)
        simp [this]; ring
    · have hk' : ¬ r.1 = k := fun e => hk e.symm
      by_cases hm : k ∈ rs.map Prod.fst
      · simp [hm, hk, hk', fracOf, List.filter_cons]
      · simp [hm, hk]

end Dict

/-! ### Well-formed libraries and the list of cells of a zone column -/

/-- Slot consistency at zone column `z`: a cell stored in era slot `j` carries era attribute `j`.
    (`_customize_reference_data` derives the slot from the attribute, and the shipped library is
    built that way, so this is an invariant of every library the code can produce.) -/
def SlotOK (z : Nat) (lib : Lib K) : Prop :=
  ∀ row ∈ lib, ∀ j, j < 3 → ∀ a, cellD row j z = some a → a.era = j

def rowCells (z : Nat) (row : LibRow K) : List (Arch K) :=
  (cellD row 0 z).toList ++ ((cellD row 1 z).toList ++ (cellD row 2 z).toList)

/-- The archetypes present at zone column `z`, in scan order (type index, then era index). -/
def colCells (z : Nat) (lib : Lib K) : List (Arch K) := lib.flatMap (rowCells z)

/-- No two cells of the zone column carry the same (type, era). -/
def KeysUnique (z : Nat) (lib : Lib K) : Prop := ((colCells z lib).map Arch.key).Nodup

/-- Every subscript the scan performs is in range. -/
def ShapeOK (z : Nat) (lib : Lib K) : Prop :=
  ∀ row ∈ lib, ∀ j, j < 3 → ∃ c, cell row j z = .ok c

theorem cellD_some_cell {row : LibRow K} {j z : Nat} {a : Arch K}
    (h : cellD row j z = some a) : cell row j z = .ok (some a) := by
  unfold cellD at h; unfold cell
  split at h
  · cases h
  · rename_i col hcol
    simp only [hcol]
    split at h
    · cases h
    · rename_i c hc; simp only [hc]; rw [h]

theorem mem_rowCells {z : Nat} {row : LibRow K} {a : Arch K} :
    a ∈ rowCells z row ↔ ∃ j, j < 3 ∧ cellD row j z = some a := by
  simp only [rowCells, List.mem_append, Option.mem_toList]
  constructor
  · rintro (h | h | h)
    · exact ⟨0, by omega, h⟩
    · exact ⟨1, by omega, h⟩
    · exact ⟨2, by omega, h⟩
  · rintro ⟨j, hj, h⟩
    have : j = 0 ∨ j = 1 ∨ j = 2 := by omega
    rcases this with rfl | rfl | rfl
    · exact Or.inl h
    · exact Or.inr (Or.inl h)
    · exact Or.inr (Or.inr h)

theorem mem_colCells {z : Nat} {lib : Lib K} {a : Arch K} :
    a ∈ colCells z lib ↔ ∃ row ∈ lib, ∃ j, j < 3 ∧ cellD row j z = some a := by
  simp only [colCells, List.mem_flatMap, mem_rowCells]

/-- The hit a cell produces when its own slot is consistent. -/
def hitOf (d : List (Key × K)) (a : Arch K) : Option (Hit K) :=
  (lookup a.key d).map (fun f => ⟨a.key, a, f⟩)

theorem hitPure_slot {d : List (Key × K)} {z : Nat} {row : LibRow K} {j : Nat}
    (hs : ∀ a, cellD row j z = some a → a.era = j) :
    hitPure d z row j = (cellD row j z).bind (hitOf d) := by
  unfold hitPure
  cases h : cellD row j z with
  | none => rfl
  | some a =>
    have he := hs a h
    simp only [Option.bind_some, hitOf, Arch.key]
    cases hl : lookup (a.bldtype, a.era) d with
    | none => rfl
    | some f => simp only [he, h, Option.map_some]

theorem toList_bind_filterMap {α β : Type} (o : Option α) (f : α → Option β) :
    (o.bind f).toList = o.toList.filterMap f := by
  cases o with
  | none => rfl
  | some a => cases h : f a <;> simp [h]

theorem rowHits_slot {d : List (Key × K)} {z : Nat} {row : LibRow K}
    (hs : ∀ j, j < 3 → ∀ a, cellD row j z = some a → a.era = j) :
    rowHits d z row = (rowCells z row).filterMap (hitOf d) := by
  unfold rowHits rowCells
  rw [hitPure_slot (hs 0 (by omega)), hitPure_slot (hs 1 (by omega)),
    hitPure_slot (hs 2 (by omega))]
  simp only [toList_bind_filterMap, List.filterMap_append]

theorem libHits_slot {d : List (Key × K)} {z : Nat} {lib : Lib K} (hs : SlotOK z lib) :
    libHits d z lib = (colCells z lib).filterMap (hitOf d) := by
  induction lib with
  | nil => rfl
  | cons row rest ih =>
    have h1 : SlotOK z rest := fun r hr => hs r (List.mem_cons_of_mem _ hr)
    simp only [libHits, colCells, List.flatMap_cons, List.filterMap_append] at ih ⊢
    rw [ih h1, rowHits_slot (hs row (List.mem_cons_self ..))]

theorem hitOf_some {d : List (Key × K)} {a : Arch K} {h : Hit K} (e : hitOf d a = some h) :
    h.key = a.key ∧ h.src = a ∧ lookup a.key d = some h.frac := by
  unfold hitOf at e
  cases hl : lookup a.key d with
  | none => simp [hl] at e
  | some f => simp only [hl, Option.map_some, Option.some.injEq] at e; subst e; simp

theorem filterMap_keys_sublist {d : List (Key × K)} (l : List (Arch K)) :
    ((l.filterMap (hitOf d)).map (·.key)).Sublist (l.map Arch.key) := by
  induction l with
  | nil => simp
  | cons a rest ih =>
    simp only [List.filterMap_cons, List.map_cons]
    cases h : hitOf d a with
    | none => exact List.Sublist.cons _ ih
    | some hh =>
      simp only [List.map_cons, (hitOf_some h).1]
      exact List.Sublist.cons_cons _ ih

/-! ### Taking `computeBEM` apart -/

section Compute
variable [Field K] [DecidableEq K]

/-- `total_urban_bld_area`. -/
def area (P : Params K) : K := P.charlength ^ 2 * P.blddensity * P.bldheight / hFloor P

theorem computeBEM_ok_elim {P : Params K} {lib : Lib K} {es : List (Entry K)} {tot : Totals K}
    (h : computeBEM P lib = .ok (es, tot)) :
    hFloor P ≠ 0 ∧ ∃ z rows hs, zoneIdx? P.zone = some z ∧ keyed P.bld = .ok rows ∧
      scan (aggregate rows) z lib = .ok hs ∧ unmatched (aggregate rows) hs = [] ∧
      es = hs.map (mkEntry P (area P)) ∧ tot = totals es := by
  unfold computeBEM at h
  split at h
  · cases h
  · rename_i hfl
    refine ⟨hfl, ?_⟩
    simp only at h
    split at h
    · cases h
    · rename_i z hz
      split at h
      · cases h
      · rename_i rows hk
        split at h
        · cases h
        · rename_i hs hsc
          split at h
          · rename_i hu
            cases h
            exact ⟨z, rows, hs, hz, hk, hsc, hu, rfl, rfl⟩
          · cases h

theorem computeBEM_eq_of {P : Params K} {lib : Lib K} {z : Nat} {rows : List (Key × K)}
    {hs : List (Hit K)} (hfl : hFloor P ≠ 0) (hz : zoneIdx? P.zone = some z)
    (hk : keyed P.bld = .ok rows) (hsc : scan (aggregate rows) z lib = .ok hs) :
    computeBEM P lib =
      if unmatched (aggregate rows) hs = [] then
        .ok (hs.map (mkEntry P (area P)), totals (hs.map (mkEntry P (area P))))
      else .error .refuse := by
  unfold computeBEM
  rw [if_neg hfl]
  simp only [hz, hk, hsc, area]

theorem unmatched_nil_iff {d : List (Key × K)} {hs : List (Hit K)} :
    unmatched d hs = [] ↔ ∀ k ∈ d.map Prod.fst, k ∈ hs.map (·.key) := by
  unfold unmatched
  rw [List.filter_eq_nil_iff]
  simp only [Bool.not_eq_eq_eq_not, Bool.not_true, List.contains_eq_mem, decide_eq_false_iff_not,
    not_not]

theorem keyed_fracs {bld : List (Row K)} {rows : List (Key × K)} (h : keyed bld = .ok rows) :
    rows.map Prod.snd = bld.map (·.frac) := by
  induction bld generalizing rows with
  | nil => simp only [keyed] at h; cases h; rfl
  | cons r rs ih =>
    simp only [keyed] at h
    split at h
    · cases h
    · split at h
      · cases h
      · rename_i l hl
        cases h
        simp only [List.map_cons, ih hl]

theorem keyed_keys {bld : List (Row K)} {rows : List (Key × K)} (h : keyed bld = .ok rows) :
    ∀ k, k ∈ rows.map Prod.fst ↔ ∃ r ∈ bld, ∃ e, eraIdx? r.era = some e ∧ k = (r.bldtype, e) := by
  induction bld generalizing rows with
  | nil => simp only [keyed] at h; cases h; simp
  | cons r rs ih =>
    simp only [keyed] at h
    split at h
    · cases h
    · rename_i e he
      split at h
      · cases h
      · rename_i l hl
        cases h
        intro k
        simp only [List.map_cons, List.mem_cons, ih hl k]
        constructor
        · rintro (rfl | ⟨r', hr', e', he', rfl⟩)
          · exact ⟨r, Or.inl rfl, e, he, rfl⟩
          · exact ⟨r', Or.inr hr', e', he', rfl⟩
        · rintro ⟨r', hr' | hr', e', he', rfl⟩
          · subst hr'; rw [he] at he'; cases he'; exact Or.inl rfl
          · exact Or.inr ⟨r', hr', e', he', rfl⟩

theorem aggFrom_keys_mem {k : Key} {d0 rows : List (Key × K)} :
    k ∈ (aggFrom d0 rows).map Prod.fst ↔ k ∈ d0.map Prod.fst ∨ k ∈ rows.map Prod.fst := by
  induction rows generalizing d0 with
  | nil => simp [aggFrom]
  | cons r rs ih =>
    have := ih (d0 := dictAdd r.1 r.2 d0)
    simp only [aggFrom, List.foldl_cons] at this ⊢
    rw [this, dictAdd_keys_mem]
    simp only [List.map_cons, List.mem_cons]
    tauto

theorem aggregate_keys_mem {k : Key} {rows : List (Key × K)} :
    k ∈ (aggregate rows).map Prod.fst ↔ k ∈ rows.map Prod.fst := by
  have := aggFrom_keys_mem (k := k) (d0 := []) (rows := rows)
  simp only [List.map_nil, List.not_mem_nil, false_or] at this
  exact this

theorem mem_libHits {d : List (Key × K)} {z : Nat} {lib : Lib K} {h : Hit K}
    (hm : h ∈ libHits d z lib) :
    ∃ row ∈ lib, ∃ j, j < 3 ∧ ∃ a, cellD row j z = some a ∧ h.key = (a.bldtype, a.era) ∧
      lookup (a.bldtype, a.era) d = some h.frac ∧ cellD row a.era z = some h.src := by
  simp only [libHits, List.mem_flatMap] at hm
  obtain ⟨row, hrow, hh⟩ := hm
  refine ⟨row, hrow, ?_⟩
  have key : ∀ j, hitPure d z row j = some h →
      ∃ a, cellD row j z = some a ∧ h.key = (a.bldtype, a.era) ∧
        lookup (a.bldtype, a.era) d = some h.frac ∧ cellD row a.era z = some h.src := by
    intro j e
    unfold hitPure at e
    split at e
    · cases e
    · rename_i a ha
      split at e
      · cases e
      · rename_i f hf
        split at e
        · cases e
        · rename_i b hb
          cases e
          exact ⟨a, ha, rfl, hf, hb⟩
  simp only [rowHits, List.mem_append, Option.mem_toList] at hh
  rcases hh with hh | hh | hh
  · exact ⟨0, by omega, key 0 hh⟩
  · exact ⟨1, by omega, key 1 hh⟩
  · exact ⟨2, by omega, key 2 hh⟩

theorem scanCell_wf {d : List (Key × K)} {z : Nat} {row : LibRow K} {j : Nat}
    (hsh : ∃ c, cell row j z = .ok c) (hsl : ∀ a, cellD row j z = some a → a.era = j) :
    scanCell d z row j = .ok (hitPure d z row j) := by
  obtain ⟨c, hc⟩ := hsh
  have hcd := cell_ok_cellD hc
  unfold scanCell hitPure
  rw [hc, hcd]
  cases c with
  | none => rfl
  | some a =>
    have he : a.era = j := hsl a hcd
    simp only
    cases hl : lookup (a.bldtype, a.era) d with
    | none => rfl
    | some f => simp only [he, hc, hcd]

theorem scan_wf {d : List (Key × K)} {z : Nat} {lib : Lib K}
    (hsh : ShapeOK z lib) (hsl : SlotOK z lib) : scan d z lib = .ok (libHits d z lib) := by
  induction lib with
  | nil => rfl
  | cons row rest ih =>
    have h1 := ih (fun r hr => hsh r (List.mem_cons_of_mem _ hr))
      (fun r hr => hsl r (List.mem_cons_of_mem _ hr))
    have hr : scanRow d z row = .ok (rowHits d z row) := by
      have hm : row ∈ row :: rest := List.mem_cons_self ..
      unfold scanRow rowHits
      rw [scanCell_wf (hsh row hm 0 (by omega)) (hsl row hm 0 (by omega)),
        scanCell_wf (hsh row hm 1 (by omega)) (hsl row hm 1 (by omega)),
        scanCell_wf (hsh row hm 2 (by omega)) (hsl row hm 2 (by omega))]
    simp only [scan, hr, h1, libHits, List.flatMap_cons]

/-! ### Splitting a stock row -/

theorem keyed_append (a b : List (Row K)) :
    keyed (a ++ b) =
      match keyed a with
      | .error e => .error e
      | .ok la =>
        match keyed b with
        | .error e => .error e
        | .ok lb => .ok (la ++ lb) := by
  induction a with
  | nil => simp only [List.nil_append, keyed]; cases keyed b <;> rfl
  | cons r rs ih =>
    simp only [List.cons_append, keyed]
    cases he : eraIdx? r.era with
    | none => rfl
    | some e =>
      simp only [ih]
      cases keyed rs with
      | error x => rfl
      | ok la =>
        cases keyed b with
        | error x => rfl
        | ok lb => rfl

theorem keyed_same_key_none {rs : List (Row K)}
    (hkey : ∀ r' ∈ rs, eraIdx? r'.era = none) (hne : rs ≠ []) : keyed rs = .error .value := by
  cases rs with
  | nil => exact absurd rfl hne
  | cons r rest => simp only [keyed, hkey r (List.mem_cons_self ..)]

theorem keyed_same_key_some {rs : List (Row K)} {t : String} {e : Nat}
    (hkey : ∀ r' ∈ rs, r'.bldtype = t ∧ eraIdx? r'.era = some e) :
    keyed rs = .ok (rs.map (fun r' => ((t, e), r'.frac))) := by
  induction rs with
  | nil => rfl
  | cons r rest ih =>
    obtain ⟨h1, h2⟩ := hkey r (List.mem_cons_self ..)
    simp only [keyed, h2, ih (fun r' hr' => hkey r' (List.mem_cons_of_mem _ hr')), List.map_cons, h1]

theorem dictAdd_dictAdd {k : Key} {f1 f2 : K} {d : List (Key × K)} :
    dictAdd k f1 (dictAdd k f2 d) = dictAdd k (f1 + f2) d := by
  induction d with
  | nil => simp only [dictAdd, if_true]; congr 2; ring
  | cons p rest ih =>
    obtain ⟨k2, g⟩ := p
    simp only [dictAdd]
    by_cases h : k2 = k
    · subst h; simp only [if_true, dictAdd]; congr 2; ring
    · simp only [h, if_false, dictAdd, ih]

theorem aggFrom_same_key {k : Key} {ks : List (Key × K)} (hk : ∀ p ∈ ks, p.1 = k) (hne : ks ≠ [])
    (d : List (Key × K)) : aggFrom d ks = dictAdd k (ks.map Prod.snd).sum d := by
  induction ks generalizing d with
  | nil => exact absurd rfl hne
  | cons p rest ih =>
    have hp := hk p (List.mem_cons_self ..)
    cases rest with
    | nil => simp [aggFrom, hp]
    | cons q t =>
      have := ih (fun x hx => hk x (List.mem_cons_of_mem _ hx)) (by simp) (dictAdd p.1 p.2 d)
      simp only [aggFrom, List.foldl_cons] at this ⊢
      rw [this, hp, dictAdd_dictAdd]
      congr 1
      simp only [List.map_cons, List.sum_cons]; ring

theorem aggFrom_append (d a b : List (Key × K)) : aggFrom d (a ++ b) = aggFrom (aggFrom d a) b := by
  simp only [aggFrom, List.foldl_append]

/-- The stock dictionary as a function of the `bld` list. -/
def stockDict (bld : List (Row K)) : Except Err (List (Key × K)) :=
  match keyed bld with
  | .error e => .error e
  | .ok rows => .ok (aggregate rows)

theorem computeBEM_congr_bld (P : Params K) (bld' : List (Row K)) (lib : Lib K)
    (h : stockDict P.bld = stockDict bld') :
    computeBEM P lib = computeBEM { P with bld := bld' } lib := by
  unfold stockDict at h
  unfold computeBEM
  have hfl : hFloor { P with bld := bld' } = hFloor P := rfl
  have hmk : ∀ ar, mkEntry { P with bld := bld' } ar = mkEntry P ar := fun _ => rfl
  simp only [hfl]
  split
  · rfl
  · cases hz : zoneIdx? P.zone with
    | none => rfl
    | some z =>
      simp only
      cases h1 : keyed P.bld with
      | error e1 =>
        cases h2 : keyed bld' with
        | error e2 => rw [h1, h2] at h; cases h; rfl
        | ok r2 => rw [h1, h2] at h; cases h
      | ok r1 =>
        cases h2 : keyed bld' with
        | error e2 => rw [h1, h2] at h; cases h
        | ok r2 =>
          rw [h1, h2] at h
          simp only [Except.ok.injEq] at h
          simp only [h, hmk]

end Compute

/-! ### `_customize_reference_data`, cell by cell -/

/-- Totalised `lib[i][j][z]`. -/
def cellAt (lib : Lib K) (i j z : Nat) : Option (Arch K) :=
  match lib[i]? with
  | none => none
  | some row => cellD row j z

theorem mem_colCells_iff {z : Nat} {lib : Lib K} {a : Arch K} :
    a ∈ colCells z lib ↔ ∃ i j, j < 3 ∧ cellAt lib i j z = some a := by
  rw [mem_colCells]
  constructor
  · rintro ⟨row, hrow, j, hj, hc⟩
    obtain ⟨i, hi⟩ := List.mem_iff_getElem?.1 hrow
    exact ⟨i, j, hj, by simp only [cellAt, hi, hc]⟩
  · rintro ⟨i, j, hj, hc⟩
    unfold cellAt at hc
    split at hc
    · cases hc
    · rename_i row hrow
      exact ⟨row, List.mem_iff_getElem?.2 ⟨i, hrow⟩, j, hj, hc⟩

theorem slotOK_iff {z : Nat} {lib : Lib K} :
    SlotOK z lib ↔ ∀ i j a, j < 3 → cellAt lib i j z = some a → a.era = j := by
  constructor
  · intro h i j a hj hc
    unfold cellAt at hc
    split at hc
    · cases hc
    · rename_i row hrow
      exact h row (List.mem_iff_getElem?.2 ⟨i, hrow⟩) j hj a hc
  · intro h row hrow j hj a hc
    obtain ⟨i, hi⟩ := List.mem_iff_getElem?.1 hrow
    exact h i j a hj (by simp only [cellAt, hi, hc])

theorem cellD_set {row : LibRow K} {col : List (Option (Arch K))} {ei zi j z : Nat} {a : Arch K}
    (hcol : row[ei]? = some col) (hzi : zi < col.length) :
    cellD (row.set ei (col.set zi (some a))) j z =
      if j = ei ∧ z = zi then some a else cellD row j z := by
  have hei : ei < row.length := by
    rcases Nat.lt_or_ge ei row.length with h | h
    · exact h
    · rw [List.getElem?_eq_none h] at hcol; cases hcol
  unfold cellD
  rw [List.getElem?_set]
  by_cases hj : ei = j
  · subst hj
    simp only [if_true, hei, hcol, true_and]
    rw [List.getElem?_set]
    by_cases hz : zi = z
    · subst hz; simp [hzi]
    · have hz' : ¬ z = zi := fun e => hz e.symm
      simp [hz, hz']
  · have hj' : ¬ j = ei := fun e => hj e.symm
    simp [hj, hj']

theorem setCell_spec {lib lib' : Lib K} {ti ei zi : Nat} {a : Arch K}
    (h : setCell lib ti ei zi a = .ok lib') :
    lib'.length = lib.length ∧ ti < lib.length ∧
    ∀ i j z, cellAt lib' i j z =
      if i = ti ∧ j = ei ∧ z = zi then some a else cellAt lib i j z := by
  unfold setCell at h
  split at h
  · cases h
  · rename_i row hrow
    split at h
    · cases h
    · rename_i col hcol
      split at h
      · rename_i hzi
        cases h
        have hti : ti < lib.length := by
          rcases Nat.lt_or_ge ti lib.length with h | h
          · exact h
          · rw [List.getElem?_eq_none h] at hrow; cases hrow
        refine ⟨List.length_set, hti, fun i j z => ?_⟩
        unfold cellAt
        rw [List.getElem?_set]
        by_cases hi : ti = i
        · subst hi
          simp only [if_true, hti, hrow, true_and]
          exact cellD_set hcol hzi
        · have hi' : ¬ i = ti := fun e => hi e.symm
          simp [hi, hi']
      · cases h

theorem cellD_newRow (j z : Nat) : cellD (newRow : LibRow K) j z = none := by
  unfold cellD newRow
  rw [List.getElem?_replicate]
  by_cases hj : j < 3
  · simp only [hj, if_true]
    rw [List.getElem?_replicate]
    by_cases hz : z < 16 <;> simp [hz]
  · simp [hj]

theorem cellAt_append_newRow (lib : Lib K) (i j z : Nat) :
    cellAt (lib ++ [newRow]) i j z = cellAt lib i j z := by
  unfold cellAt
  rw [List.getElem?_append]
  by_cases hi : i < lib.length
  · simp only [hi, if_true]
  · have hi' : lib.length ≤ i := Nat.le_of_not_lt hi
    simp only [hi, if_false, List.getElem?_eq_none hi']
    cases h : [newRow (K := K)][i - lib.length]? with
    | none => rfl
    | some row =>
      have : row = newRow := by
        have := List.mem_of_getElem? h
        simpa using this
      simp only [this, cellD_newRow]

/-- Row that a custom archetype is written to: the index of its type in `REF_BLDTYPE`, the row
    already appended for its (new) type, or a new row appended at the end. -/
def targetRow (lib : Lib K) (m : RowMap) (c : Arch K) : Nat :=
  match refBldType.idxOf? c.bldtype with
  | some ti => ti
  | none =>
    match lookupRow c.bldtype m with
    | some ti => ti
    | none => lib.length

/-- Does this custom append a row? -/
def appends (m : RowMap) (c : Arch K) : Bool :=
  (refBldType.idxOf? c.bldtype).isNone && (lookupRow c.bldtype m).isNone

theorem customize1_spec {lib lib' : Lib K} {m m' : RowMap} {zi : Nat} {c : Arch K}
    (h : customize1 zi lib m c = .ok (lib', m')) :
    c.era < 3 ∧
    lib'.length = (if appends m c then lib.length + 1 else lib.length) ∧
    m' = (if appends m c then m ++ [(c.bldtype, lib.length)] else m) ∧
    targetRow lib m c < lib'.length ∧
    ∀ i j z, cellAt lib' i j z =
      if i = targetRow lib m c ∧ j = c.era ∧ z = zi then some c else cellAt lib i j z := by
  unfold customize1 at h
  split at h
  · cases h
  · rename_i hera
    refine ⟨by omega, ?_⟩
    split at h
    · rename_i ti hti
      have happ : appends m c = false := by simp [appends, hti]
      have htr : targetRow lib m c = ti := by simp [targetRow, hti]
      split at h
      · cases h
      · rename_i lib1 hs
        cases h
        obtain ⟨h1, h2, h3⟩ := setCell_spec hs
        rw [happ, htr]
        exact ⟨h1, rfl, by omega, h3⟩
    · rename_i hti
      split at h
      · rename_i ti hlk
        have happ : appends m c = false := by simp [appends, hti, hlk]
        have htr : targetRow lib m c = ti := by simp [targetRow, hti, hlk]
        split at h
        · cases h
        · rename_i lib1 hs
          cases h
          obtain ⟨h1, h2, h3⟩ := setCell_spec hs
          rw [happ, htr]
          exact ⟨h1, rfl, by omega, h3⟩
      · rename_i hlk
        have happ : appends m c = true := by simp [appends, hti, hlk]
        have htr : targetRow lib m c = lib.length := by simp [targetRow, hti, hlk]
        split at h
        · cases h
        · rename_i lib1 hs
          cases h
          obtain ⟨h1, h2, h3⟩ := setCell_spec hs
          rw [happ, htr]
          simp only [List.length_append, List.length_cons, List.length_nil] at h1 h2
          refine ⟨by simpa using h1, rfl, by omega, fun i j z => ?_⟩
          rw [h3, cellAt_append_newRow]

/-! ### Index form of key uniqueness -/

theorem cellAt_cons_zero (row : LibRow K) (rest : Lib K) (j z : Nat) :
    cellAt (row :: rest) 0 j z = cellD row j z := by simp [cellAt]

theorem cellAt_cons_succ (row : LibRow K) (rest : Lib K) (i j z : Nat) :
    cellAt (row :: rest) (i + 1) j z = cellAt rest i j z := by simp [cellAt]

theorem keysUnique_of_index {z : Nat} {lib : Lib K}
    (h : ∀ i i' j j' a a', j < 3 → j' < 3 → cellAt lib i j z = some a →
      cellAt lib i' j' z = some a' → a.key = a'.key → i = i' ∧ j = j') :
    KeysUnique z lib := by
  induction lib with
  | nil => simp [KeysUnique, colCells]
  | cons row rest ih =>
    have hrest : KeysUnique z rest := by
      apply ih
      intro i i' j j' a a' hj hj' hc hc' hk
      have := h (i + 1) (i' + 1) j j' a a' hj hj' (by rw [cellAt_cons_succ]; exact hc)
        (by rw [cellAt_cons_succ]; exact hc') hk
      exact ⟨by omega, this.2⟩
    unfold KeysUnique colCells at hrest ⊢
    rw [List.flatMap_cons, List.map_append, List.nodup_append]
    refine ⟨?_, hrest, ?_⟩
    · -- the three cells of one row
      have h0 : ∀ j j' a a', j < 3 → j' < 3 → cellD row j z = some a → cellD row j' z = some a' →
          a.key = a'.key → j = j' := by
        intro j j' a a' hj hj' hc hc' hk
        exact (h 0 0 j j' a a' hj hj' (by rw [cellAt_cons_zero]; exact hc)
          (by rw [cellAt_cons_zero]; exact hc') hk).2
      unfold rowCells
      cases c0 : cellD row 0 z with
      | none =>
        cases c1 : cellD row 1 z with
        | none => cases c2 : cellD row 2 z <;> simp
        | some a1 =>
          cases c2 : cellD row 2 z with
          | none => simp
          | some a2 =>
            have := h0 1 2 a1 a2 (by omega) (by omega) c1 c2
            simp only [Option.toList_none, Option.toList_some, List.nil_append, List.cons_append,
              List.map_cons, List.map_nil, List.nodup_cons, List.mem_singleton,
              List.not_mem_nil, not_false_eq_true, List.nodup_nil, and_true]
            intro e; exact absurd (this e) (by omega)
      | some a0 =>
        cases c1 : cellD row 1 z with
        | none =>
          cases c2 : cellD row 2 z with
          | none => simp
          | some a2 =>
            have := h0 0 2 a0 a2 (by omega) (by omega) c0 c2
            simp only [Option.toList_none, Option.toList_some, List.nil_append, List.cons_append,
              List.map_cons, List.map_nil, List.nodup_cons, List.mem_singleton,
              List.not_mem_nil, not_false_eq_true, List.nodup_nil, and_true]
            intro e; exact absurd (this e) (by omega)
        | some a1 =>
          have h01 := h0 0 1 a0 a1 (by omega) (by omega) c0 c1
          cases c2 : cellD row 2 z with
          | none =>
            simp only [Option.toList_none, Option.toList_some, List.nil_append, List.cons_append,
              List.append_nil, List.map_cons, List.map_nil, List.nodup_cons, List.mem_singleton,
              List.not_mem_nil, not_false_eq_true, List.nodup_nil, and_true]
            intro e; exact absurd (h01 e) (by omega)
          | some a2 =>
            have h02 := h0 0 2 a0 a2 (by omega) (by omega) c0 c2
            have h12 := h0 1 2 a1 a2 (by omega) (by omega) c1 c2
            simp only [Option.toList_some, List.nil_append, List.cons_append,
              List.map_cons, List.map_nil, List.nodup_cons, List.mem_cons, List.mem_singleton,
              List.not_mem_nil, not_false_eq_true, List.nodup_nil, and_true, not_or, or_false]
            exact ⟨⟨fun e => absurd (h01 e) (by omega), fun e => absurd (h02 e) (by omega)⟩,
              fun e => absurd (h12 e) (by omega)⟩
    · intro k hk1 k' hk2 e
      subst e
      obtain ⟨a, ha, rfl⟩ := List.mem_map.1 hk1
      obtain ⟨a', ha', hk'⟩ := List.mem_map.1 hk2
      obtain ⟨j, hj, hc⟩ := mem_rowCells.1 ha
      have ha'' : a' ∈ colCells z rest := ha'
      obtain ⟨i', j', hj', hc'⟩ := mem_colCells_iff.1 ha''
      have := h 0 (i' + 1) j j' a a' hj hj' (by rw [cellAt_cons_zero]; exact hc)
        (by rw [cellAt_cons_succ]; exact hc') hk'.symm
      omega

/-! ### Invariant of the library under customisation (index form) -/

theorem refBldType_nodup : refBldType.Nodup := by decide

theorem idxOf_some {t : String} {ti : Nat} (h : refBldType.idxOf? t = some ti) :
    ti < 16 ∧ refBldType[ti]? = some t := by
  unfold List.idxOf? at h
  rw [List.findIdx?_eq_some_iff_getElem] at h
  obtain ⟨hlt, hp, _⟩ := h
  have h16 : refBldType.length = 16 := by decide
  refine ⟨by omega, ?_⟩
  rw [List.getElem?_eq_getElem hlt]
  simp only [beq_iff_eq] at hp
  rw [hp]

theorem idxOf_none {t : String} (h : refBldType.idxOf? t = none) : t ∉ refBldType := by
  unfold List.idxOf? at h
  rw [List.findIdx?_eq_none_iff] at h
  intro hm
  have := h t hm
  simp at this

theorem refBldType_inj {i i' : Nat} {t : String} (h : refBldType[i]? = some t)
    (h' : refBldType[i']? = some t) : i = i' := by
  obtain ⟨hi, e⟩ := List.getElem?_eq_some_iff.1 h
  obtain ⟨hi', e'⟩ := List.getElem?_eq_some_iff.1 h'
  exact (List.Nodup.getElem_inj_iff refBldType_nodup).1 (e.trans e'.symm)

theorem lookupRow_append (t t' : String) (n : Nat) (m : RowMap) :
    lookupRow t (m ++ [(t', n)]) =
      match lookupRow t m with
      | some i => some i
      | none => if t' = t then some n else none := by
  induction m with
  | nil => simp [lookupRow]
  | cons p rest ih =>
    obtain ⟨t2, i2⟩ := p
    simp only [List.cons_append, lookupRow]
    by_cases h : t2 = t
    · simp [h]
    · simp only [h, if_false, ih]

/-- Invariant at zone column `zi`, with the row dictionary `m` of `_customize_reference_data`:
    at least the 16 reference rows; every cell sits in the era slot of its own era attribute; rows
    below 16 hold the reference type of their index; a cell in a row from 16 on has a non-reference
    type which the dictionary maps to exactly that row; the dictionary is injective and points to
    existing rows from 16 on. -/
structure RefInv (zi : Nat) (lib : Lib K) (m : RowMap) : Prop where
  len : 16 ≤ lib.length
  slot : ∀ i j a, j < 3 → cellAt lib i j zi = some a → a.era = j
  low : ∀ i j a, j < 3 → i < 16 → cellAt lib i j zi = some a → refBldType[i]? = some a.bldtype
  high : ∀ i j a, j < 3 → 16 ≤ i → cellAt lib i j zi = some a →
    a.bldtype ∉ refBldType ∧ lookupRow a.bldtype m = some i
  mrange : ∀ t i, lookupRow t m = some i → 16 ≤ i ∧ i < lib.length
  minj : ∀ t t' i, lookupRow t m = some i → lookupRow t' m = some i → t = t'

theorem cellAt_lt {lib : Lib K} {i j z : Nat} {a : Arch K} (h : cellAt lib i j z = some a) :
    i < lib.length := by
  unfold cellAt at h
  rcases Nat.lt_or_ge i lib.length with hlt | hge
  · exact hlt
  · rw [List.getElem?_eq_none hge] at h; cases h

theorem RefInv.index_unique {zi : Nat} {lib : Lib K} {m : RowMap} (inv : RefInv zi lib m) :
    ∀ i i' j j' a a', j < 3 → j' < 3 → cellAt lib i j zi = some a →
      cellAt lib i' j' zi = some a' → a.key = a'.key → i = i' ∧ j = j' := by
  intro i i' j j' a a' hj hj' hc hc' hk
  have hk2 : a.bldtype = a'.bldtype ∧ a.era = a'.era := by
    simpa [Arch.key] using hk
  have ej := inv.slot i j a hj hc
  have ej' := inv.slot i' j' a' hj' hc'
  rcases Nat.lt_or_ge i 16 with hi | hi <;> rcases Nat.lt_or_ge i' 16 with hi' | hi'
  · have l1 := inv.low i j a hj hi hc
    have l2 := inv.low i' j' a' hj' hi' hc'
    rw [hk2.1] at l1
    exact ⟨refBldType_inj l1 l2, by omega⟩
  · have l1 := inv.low i j a hj hi hc
    have l2 := (inv.high i' j' a' hj' hi' hc').1
    exact absurd (List.mem_of_getElem? l1) (by rw [hk2.1]; exact l2)
  · have l1 := (inv.high i j a hj hi hc).1
    have l2 := inv.low i' j' a' hj' hi' hc'
    exact absurd (List.mem_of_getElem? l2) (by rw [← hk2.1]; exact l1)
  · have l1 := (inv.high i j a hj hi hc).2
    have l2 := (inv.high i' j' a' hj' hi' hc').2
    rw [hk2.1, l2] at l1
    exact ⟨(Option.some.inj l1).symm, by omega⟩

theorem RefInv.keysUnique {zi : Nat} {lib : Lib K} {m : RowMap} (inv : RefInv zi lib m) :
    KeysUnique zi lib := keysUnique_of_index inv.index_unique

theorem RefInv.slotOK {zi : Nat} {lib : Lib K} {m : RowMap} (inv : RefInv zi lib m) :
    SlotOK zi lib := slotOK_iff.2 inv.slot

/-- One custom archetype keeps the invariant (no condition on the list of customs). -/
theorem RefInv.step {zi : Nat} {lib lib' : Lib K} {m m' : RowMap} {c : Arch K}
    (inv : RefInv zi lib m) (h : customize1 zi lib m c = .ok (lib', m')) :
    RefInv zi lib' m' := by
  obtain ⟨hera, hlen, hm', htl, hcell⟩ := customize1_spec h
  have hl := inv.len
  have key : ∀ i j a, cellAt lib' i j zi = some a →
      (i = targetRow lib m c ∧ j = c.era ∧ a = c) ∨ cellAt lib i j zi = some a := by
    intro i j a hc
    rw [hcell] at hc
    by_cases hij : i = targetRow lib m c ∧ j = c.era
    · simp only [hij, and_self, if_true, Option.some.injEq] at hc
      exact Or.inl ⟨hij.1, hij.2, hc.symm⟩
    · have : ¬ (i = targetRow lib m c ∧ j = c.era ∧ zi = zi) := fun e => hij ⟨e.1, e.2.1⟩
      rw [if_neg this] at hc; exact Or.inr hc
  cases hidx : refBldType.idxOf? c.bldtype with
  | some ti =>
    obtain ⟨hti, hty⟩ := idxOf_some hidx
    have happ : appends m c = false := by simp [appends, hidx]
    have htr : targetRow lib m c = ti := by simp [targetRow, hidx]
    simp only [happ, Bool.false_eq_true, if_false] at hlen hm'
    subst hm'
    rw [htr] at key
    refine ⟨by omega, ?_, ?_, ?_, ?_, inv.minj⟩
    · intro i j a hj hc
      rcases key i j a hc with ⟨_, h2, h3⟩ | h'
      · rw [h3, h2]
      · exact inv.slot i j a hj h'
    · intro i j a hj hi hc
      rcases key i j a hc with ⟨h1, _, h3⟩ | h'
      · rw [h3, h1]; exact hty
      · exact inv.low i j a hj hi h'
    · intro i j a hj hi hc
      rcases key i j a hc with ⟨h1, _, _⟩ | h'
      · omega
      · exact inv.high i j a hj hi h'
    · intro t i hlk; have := inv.mrange t i hlk; omega
  | none =>
    have hnotref := idxOf_none hidx
    cases hlk : lookupRow c.bldtype m with
    | some ti =>
      have happ : appends m c = false := by simp [appends, hidx, hlk]
      have htr : targetRow lib m c = ti := by simp [targetRow, hidx, hlk]
      simp only [happ, Bool.false_eq_true, if_false] at hlen hm'
      subst hm'
      rw [htr] at key
      have hr := inv.mrange _ _ hlk
      refine ⟨by omega, ?_, ?_, ?_, ?_, inv.minj⟩
      · intro i j a hj hc
        rcases key i j a hc with ⟨_, h2, h3⟩ | h'
        · rw [h3, h2]
        · exact inv.slot i j a hj h'
      · intro i j a hj hi hc
        rcases key i j a hc with ⟨h1, _, _⟩ | h'
        · omega
        · exact inv.low i j a hj hi h'
      · intro i j a hj hi hc
        rcases key i j a hc with ⟨h1, _, h3⟩ | h'
        · rw [h3, h1]; exact ⟨hnotref, hlk⟩
        · exact inv.high i j a hj hi h'
      · intro t i hlk'; have := inv.mrange t i hlk'; omega
    | none =>
      have happ : appends m c = true := by simp [appends, hidx, hlk]
      have htr : targetRow lib m c = lib.length := by simp [targetRow, hidx, hlk]
      simp only [happ, if_true] at hlen hm'
      subst hm'
      rw [htr] at key
      refine ⟨by omega, ?_, ?_, ?_, ?_, ?_⟩
      · intro i j a hj hc
        rcases key i j a hc with ⟨_, h2, h3⟩ | h'
        · rw [h3, h2]
        · exact inv.slot i j a hj h'
      · intro i j a hj hi hc
        rcases key i j a hc with ⟨h1, _, _⟩ | h'
        · omega
        · exact inv.low i j a hj hi h'
      · intro i j a hj hi hc
        rw [lookupRow_append]
        rcases key i j a hc with ⟨h1, _, h3⟩ | h'
        · rw [h3, hlk, h1]; simp [hnotref]
        · have := inv.high i j a hj hi h'
          rw [this.2]; exact ⟨this.1, rfl⟩
      · intro t i hlk'
        rw [lookupRow_append] at hlk'
        cases hm : lookupRow t m with
        | some i0 =>
          rw [hm] at hlk'
          simp only [Option.some.injEq] at hlk'
          have := inv.mrange t _ hm; omega
        | none =>
          rw [hm] at hlk'
          by_cases ht : c.bldtype = t
          · simp only [ht, if_true, Option.some.injEq] at hlk'; omega
          · simp [ht] at hlk'
      · intro t t' i h1 h2
        rw [lookupRow_append] at h1 h2
        cases hm : lookupRow t m with
        | some i0 =>
          rw [hm] at h1
          simp only [Option.some.injEq] at h1
          cases hm' : lookupRow t' m with
          | some i1 =>
            rw [hm'] at h2
            simp only [Option.some.injEq] at h2
            exact inv.minj t t' i (by rw [hm, h1]) (by rw [hm', h2])
          | none =>
            rw [hm'] at h2
            by_cases ht' : c.bldtype = t'
            · simp only [ht', if_true, Option.some.injEq] at h2
              have := inv.mrange t _ hm; omega
            · simp [ht'] at h2
        | none =>
          rw [hm] at h1
          by_cases ht : c.bldtype = t
          · simp only [ht, if_true, Option.some.injEq] at h1
            cases hm' : lookupRow t' m with
            | some i1 =>
              rw [hm'] at h2
              simp only [Option.some.injEq] at h2
              have := inv.mrange t' _ hm'; omega
            | none =>
              rw [hm'] at h2
              by_cases ht' : c.bldtype = t'
              · rw [← ht, ← ht']
              · simp [ht'] at h2
          · simp [ht] at h1

/-- The whole `ref_bem_vector` keeps the invariant — for every list of customs. -/
theorem RefInv.loop {zi : Nat} {cs : List (Arch K)} {lib lib' : Lib K} {m m' : RowMap}
    (inv : RefInv zi lib m) (h : customizeLoop zi cs lib m = .ok (lib', m')) :
    RefInv zi lib' m' := by
  induction cs generalizing lib m with
  | nil => simp only [customizeLoop] at h; cases h; exact inv
  | cons c cs ih =>
    simp only [customizeLoop] at h
    split at h
    · cases h
    · rename_i lib1 m1 h1
      exact ih (inv.step h1) h

/-- Every cell of the customised library is an untouched cell of the original one or one of the
    custom archetypes. -/
theorem customizeLoop_cells {zi : Nat} {cs : List (Arch K)} {lib lib' : Lib K} {m m' : RowMap}
    (h : customizeLoop zi cs lib m = .ok (lib', m')) :
    ∀ i j a, cellAt lib' i j zi = some a → cellAt lib i j zi = some a ∨ a ∈ cs := by
  induction cs generalizing lib m with
  | nil => simp only [customizeLoop] at h; cases h; intro i j a hc; exact Or.inl hc
  | cons c cs ih =>
    simp only [customizeLoop] at h
    split at h
    · cases h
    · rename_i lib1 m1 h1
      intro i j a hc
      rcases ih h i j a hc with h' | h'
      · obtain ⟨_, _, _, _, hcell⟩ := customize1_spec h1
        rw [hcell] at h'
        split at h'
        · cases h'; exact Or.inr (List.mem_cons_self ..)
        · exact Or.inl h'
      · exact Or.inr (List.mem_cons_of_mem _ h')

/-- The last custom archetype of the list carrying key `k`. -/
def lastWithKey (k : Key) : List (Arch K) → Option (Arch K)
  | [] => none
  | c :: cs =>
    match lastWithKey k cs with
    | some c' => some c'
    | none => if c.key = k then some c else none

theorem lastWithKey_none {k : Key} {cs : List (Arch K)} (h : lastWithKey k cs = none) :
    ∀ c ∈ cs, c.key ≠ k := by
  induction cs with
  | nil => intro c hc; cases hc
  | cons c0 rest ih =>
    simp only [lastWithKey] at h
    split at h
    · cases h
    · rename_i hr
      split at h
      · cases h
      · rename_i hne
        intro c hc
        rcases List.mem_cons.1 hc with rfl | hc
        · exact hne
        · exact ih hr c hc

theorem lastWithKey_some {k : Key} {cs : List (Arch K)} {c : Arch K}
    (h : lastWithKey k cs = some c) : c ∈ cs ∧ c.key = k := by
  induction cs with
  | nil => cases h
  | cons c0 rest ih =>
    simp only [lastWithKey] at h
    split at h
    · rename_i c' hr
      cases h
      exact ⟨List.mem_cons_of_mem _ (ih hr).1, (ih hr).2⟩
    · split at h
      · rename_i hk; cases h; exact ⟨List.mem_cons_self .., hk⟩
      · cases h

/-- A cell survives the rest of the customisation when no later custom carries its key. -/
theorem RefInv.survive {zi : Nat} {cs : List (Arch K)} {lib lib' : Lib K} {m m' : RowMap}
    (inv : RefInv zi lib m) (h : customizeLoop zi cs lib m = .ok (lib', m'))
    {i j : Nat} {a : Arch K} (hj : j < 3)
    (hc : cellAt lib i j zi = some a) (hlast : lastWithKey a.key cs = none) :
    cellAt lib' i j zi = some a := by
  induction cs generalizing lib m with
  | nil => simp only [customizeLoop] at h; cases h; exact hc
  | cons c cs ih =>
    simp only [customizeLoop] at h
    split at h
    · cases h
    · rename_i lib1 m1 h1
      have hne : c.key ≠ a.key := lastWithKey_none hlast c (List.mem_cons_self ..)
      have hlast' : lastWithKey a.key cs = none := by
        simp only [lastWithKey] at hlast
        split at hlast
        · cases hlast
        · rename_i hr; exact hr
      obtain ⟨_, _, _, _, hcell⟩ := customize1_spec h1
      have hc1 : cellAt lib1 i j zi = some a := by
        rw [hcell, if_neg]
        · exact hc
        · rintro ⟨hi, hjj, _⟩
          have e2 : a.era = j := inv.slot i j a hj hc
          cases hidx : refBldType.idxOf? c.bldtype with
          | some ti =>
            obtain ⟨hti, hty⟩ := idxOf_some hidx
            have : targetRow lib m c = ti := by simp [targetRow, hidx]
            rw [this] at hi
            have l1 := inv.low i j a hj (by omega) hc
            rw [hi, hty] at l1
            have e1 : c.bldtype = a.bldtype := Option.some.inj l1
            apply hne
            simp only [Arch.key, e1, Prod.mk.injEq, true_and]; omega
          | none =>
            cases hlk : lookupRow c.bldtype m with
            | some ti =>
              have : targetRow lib m c = ti := by simp [targetRow, hidx, hlk]
              rw [this] at hi
              have hr := inv.mrange _ _ hlk
              have l1 := (inv.high i j a hj (by omega) hc).2
              rw [hi] at l1
              have e1 : a.bldtype = c.bldtype := inv.minj _ _ _ l1 hlk
              apply hne
              simp only [Arch.key, e1, Prod.mk.injEq, true_and]; omega
            | none =>
              have : targetRow lib m c = lib.length := by simp [targetRow, hidx, hlk]
              rw [this] at hi
              have := cellAt_lt hc
              omega
      exact ih (inv.step h1) h hc1 hlast'

/-- The last custom with a given key is present in the customised library. -/
theorem RefInv.last_present {zi : Nat} {cs : List (Arch K)} {lib lib' : Lib K} {m m' : RowMap}
    (inv : RefInv zi lib m) (h : customizeLoop zi cs lib m = .ok (lib', m'))
    {k : Key} {c : Arch K} (hl : lastWithKey k cs = some c) :
    ∃ i, cellAt lib' i c.era zi = some c := by
  induction cs generalizing lib m with
  | nil => cases hl
  | cons c0 cs ih =>
    simp only [customizeLoop] at h
    split at h
    · cases h
    · rename_i lib1 m1 h1
      obtain ⟨hera, _, _, _, hcell⟩ := customize1_spec h1
      have inv1 := inv.step h1
      simp only [lastWithKey] at hl
      split at hl
      · rename_i c' hr
        cases hl
        exact ih inv1 h hr
      · rename_i hr
        split at hl
        · rename_i hk0
          cases hl
          have hc1 : cellAt lib1 (targetRow lib m c) c.era zi = some c := by
            rw [hcell]; simp
          exact ⟨_, inv1.survive h hera hc1 (by rw [hk0]; exact hr)⟩
        · cases hl

/-! ### The shape of the shipped library, and decidable checks of the hypotheses -/

/-- Zone column `zi` of a library shaped like the shipped one: 16 rows, and a cell in row `i`, era
    slot `j` carries type `REF_BLDTYPE[i]` and era `j`. -/
def RefLib (zi : Nat) (lib : Lib K) : Prop :=
  lib.length = 16 ∧ ∀ i j a, j < 3 → cellAt lib i j zi = some a →
    a.era = j ∧ refBldType[i]? = some a.bldtype

theorem RefLib.inv {zi : Nat} {lib : Lib K} (h : RefLib zi lib) : RefInv zi lib [] := by
  obtain ⟨hlen, hc⟩ := h
  refine ⟨by omega, fun i j a hj h => (hc i j a hj h).1, fun i j a hj _ h => (hc i j a hj h).2,
    ?_, ?_, ?_⟩
  · intro i j a _ hi h; have := cellAt_lt h; omega
  · intro t i h; simp [lookupRow] at h
  · intro t t' i h; simp [lookupRow] at h

def refLibB (zi : Nat) (lib : Lib K) : Bool :=
  lib.length == 16 && (List.range 16).all fun i => (List.range 3).all fun j =>
    match cellAt lib i j zi with
    | none => true
    | some a => a.era == j && refBldType[i]? == some a.bldtype

theorem refLib_of_check {zi : Nat} {lib : Lib K} (h : refLibB zi lib = true) : RefLib zi lib := by
  unfold refLibB at h
  simp only [Bool.and_eq_true, beq_iff_eq, List.all_eq_true, List.mem_range] at h
  refine ⟨h.1, fun i j a hj hc => ?_⟩
  have hi : i < 16 := by have := cellAt_lt hc; omega
  have := h.2 i hi j hj
  rw [hc] at this
  simpa using this

def slotOKb (z : Nat) (lib : Lib K) : Bool :=
  lib.all fun row => (List.range 3).all fun j =>
    match cellD row j z with
    | none => true
    | some a => a.era == j

theorem slotOK_of_check {z : Nat} {lib : Lib K} (h : slotOKb z lib = true) : SlotOK z lib := by
  unfold slotOKb at h
  simp only [List.all_eq_true, List.mem_range] at h
  intro row hrow j hj a hc
  have := h row hrow j hj
  rw [hc] at this
  simpa using this

def shapeOKb (z : Nat) (lib : Lib K) : Bool :=
  lib.all fun row => (List.range 3).all fun j =>
    match cell row j z with
    | .ok _ => true
    | .error _ => false

theorem shapeOK_of_check {z : Nat} {lib : Lib K} (h : shapeOKb z lib = true) : ShapeOK z lib := by
  unfold shapeOKb at h
  simp only [List.all_eq_true, List.mem_range] at h
  intro row hrow j hj
  have := h row hrow j hj
  split at this
  · rename_i c hc; exact ⟨c, hc⟩
  · cases this

instance (z : Nat) (lib : Lib K) : Decidable (KeysUnique z lib) := by
  unfold KeysUnique; infer_instance

end Uwg.Bem
