/-
Helper lemmas for C09 (psychrometric routines), symbols interpreted by the real functions.
-/
import UwgVerif.Model.Psychro
import UwgVerif.Model.SymbolsReal
import Mathlib.Analysis.SpecialFunctions.Log.Basic
import Mathlib.Analysis.SpecialFunctions.Pow.Real
import Mathlib.Analysis.Complex.ExponentialBounds
import Mathlib.Tactic.Linarith
import Mathlib.Tactic.Ring
import Mathlib.Tactic.FieldSimp
import Mathlib.Tactic.NormNum
import Mathlib.Tactic.Positivity

namespace Uwg
open Real

section generic
variable {K : Type} [Field K] [LinearOrder K] [IsStrictOrderedRing K]

/-- Literals such as `100.0` / `-1.0` of the source: rewrite them to numerals before `ring`
    (`ring` on a scientific literal with an integral value trips a kernel type mismatch in this
    Mathlib version). -/
theorem lit100 : (100.0 : K) = 100 := by norm_num
theorem lit1 : (1.0 : K) = 1 := by norm_num

/-- The two routines evaluate the *same* saturation-pressure exponent (same six constants),
    whatever the interpretation of `log`. -/
theorem satExponent_eq (s : Sym K) (T : K) : satExponent s T = humExponent s T := by
  unfold satExponent humExponent
  rw [lit1]
  ring

/-- `Pw = wP/(0.621945+w)` is strictly increasing in `w` on `w ≥ 0` for `P > 0`. -/
theorem vapourPressure_strictMono (P w₁ w₂ : K) (hP : 0 < P) (h1 : 0 ≤ w₁) (h12 : w₁ < w₂) :
    vapourPressure w₁ P < vapourPressure w₂ P := by
  unfold vapourPressure
  have hc : (0 : K) < 0.621945 := by norm_num
  have d1 : (0 : K) < 0.621945 + w₁ := by linarith
  have d2 : (0 : K) < 0.621945 + w₂ := by linarith
  rw [div_lt_div_iff₀ d1 d2]
  have : 0 < P * 0.621945 * (w₂ - w₁) := by
    apply mul_pos (mul_pos hP hc); linarith
  nlinarith

theorem vapourPressure_nonneg (P w : K) (hP : 0 < P) (hw : 0 ≤ w) : 0 ≤ vapourPressure w P := by
  unfold vapourPressure
  have d1 : (0 : K) < 0.621945 + w := by
    have hc : (0 : K) < 0.621945 := by norm_num
    linarith
  exact div_nonneg (mul_nonneg hw hP.le) d1.le

theorem vapourPressure_pos (P w : K) (hP : 0 < P) (hw : 0 < w) : 0 < vapourPressure w P := by
  unfold vapourPressure
  have d1 : (0 : K) < 0.621945 + w := by
    have hc : (0 : K) < 0.621945 := by norm_num
    linarith
  exact div_pos (mul_pos hw hP) d1

omit [IsStrictOrderedRing K] in
/-- Whenever `psychrometrics` returns at all, `phi`, `Tdp`, `w`, `Tdb` are the value expressions
    (any field, any symbol table). -/
theorem psychro_fields (s : Sym K) (T w P : K) (r : PsyOut K) (h : psychro s T w P = .ok r) :
    r.phi = phiVal s T w P ∧ r.tdp = tdpVal s w P ∧ r.w = w ∧ r.tdb = T - 273.15 := by
  unfold psychro at h
  dsimp only at h
  by_cases h1 : (0.621945 : K) + w = 0
  · rw [if_pos h1] at h; cases h
  rw [if_neg h1] at h
  cases hs : satPressure s (T - 273.15) with
  | error e => rw [hs] at h; cases h
  | ok pws =>
    rw [hs] at h
    dsimp only at h
    have hp : pws = satPressureVal s (T - 273.15) := by
      unfold satPressure at hs
      dsimp only at hs
      split_ifs at hs
      injection hs with hs
      exact hs.symm
    split_ifs at h
    injection h with h
    subst h; subst hp
    exact ⟨rfl, rfl, rfl, rfl⟩

end generic

@[simp] theorem realSym_exp (x : ℝ) : realSym.exp x = Real.exp x := rfl
@[simp] theorem realSym_log (x : ℝ) : realSym.log x = Real.log x := rfl
@[simp] theorem realSym_rpow (x y : ℝ) : realSym.rpow x y = x ^ y := rfl

theorem satPressureVal_pos (t : ℝ) : 0 < satPressureVal realSym t := by
  unfold satPressureVal
  simp only [realSym_exp]
  exact div_pos (Real.exp_pos _) (by norm_num)

theorem kelvin_roundtrip (T : ℝ) : T - 273.15 + 273.15 = T := by ring

/-- Under the physical guards (`T > 0` K, `w ≥ 0`, `P > 0`) `psychrometrics` raises nothing and
    returns the value expressions. -/
theorem psychro_ok (T w P : ℝ) (hT : 0 < T) (hw : 0 ≤ w) (hP : 0 < P) :
    ∃ r, psychro realSym T w P = .ok r ∧ r.phi = phiVal realSym T w P ∧
      r.tdp = tdpVal realSym w P ∧ r.w = w ∧ r.tdb = T - 273.15 := by
  have hc : (0 : ℝ) < 0.621945 := by norm_num
  have hd : (0.621945 : ℝ) + w ≠ 0 := by linarith
  have hT' : T - 273.15 + 273.15 ≠ 0 := by rw [kelvin_roundtrip]; exact hT.ne'
  have hT'' : ¬ (T - 273.15 + 273.15 ≤ 0) := by rw [kelvin_roundtrip]; exact not_le.mpr hT
  have hs : satPressureVal realSym (T - 273.15) ≠ 0 := (satPressureVal_pos _).ne'
  have hP' : P / 1000 ≠ 0 := by positivity
  have hpw : ¬ (w * (P / 1000) / (0.621945 + w) < 0) := by
    have := vapourPressure_nonneg (P / 1000) w (by positivity) hw
    unfold vapourPressure at this
    exact not_lt.mpr this
  unfold psychro satPressure
  simp only [hd, hT', hT'', hs, hP', hpw, if_false]
  exact ⟨_, rfl, rfl, rfl, rfl, rfl⟩

/-- Under the guards `T + 273.15 > 0` and `P ≠ PW`, `hum_from_rhum_temp` raises nothing. -/
theorem humFromRh_ok (RH tC P : ℝ) (hT : 0 < tC + 273.15)
    (hP : P - RH * Real.exp (humExponent realSym (tC + 273.15)) / 100.0 ≠ 0) :
    humFromRh realSym RH tC P = .ok (humFromRhVal realSym RH tC P) := by
  unfold humFromRh humFromRhVal
  simp only [realSym_exp, hT.ne', not_le.mpr hT, hP, if_false]

/-! ### the identity behind moisture conservation -/

/-- Feeding the relative humidity that `psychrometrics` computes back through
    `hum_from_rhum_temp` at the same temperature and pressure returns the humidity ratio times
    0.62198/0.621945 — for *every* temperature (the saturation pressure cancels). -/
theorem moisture_identity_val (T w P : ℝ) (hw : 0 ≤ w) (hP : 0 < P) :
    humFromRhVal realSym (phiVal realSym T w P) (T - 273.15) P = (0.62198 / 0.621945) * w := by
  have hX : 0 < Real.exp (humExponent realSym T) := Real.exp_pos _
  unfold humFromRhVal phiVal satPressureVal vapourPressure
  simp only [realSym_exp, lit100, kelvin_roundtrip, satExponent_eq]
  generalize Real.exp (humExponent realSym T) = X at hX
  have hc : (0 : ℝ) < 0.621945 := by norm_num
  have hd : (0.621945 : ℝ) + w ≠ 0 := by linarith
  have hpw : w * (P / 1000) / (0.621945 + w) / (X / 1000) * 100 * X / 100
      = w * P / (0.621945 + w) := by
    field_simp
  rw [hpw]
  have hden : P - w * P / (0.621945 + w) = 0.621945 * P / (0.621945 + w) := by
    field_simp; ring
  rw [hden]
  field_simp

/-- The vapour pressure that `hum_from_rhum_temp` reconstructs from `phi` is `wP/(0.621945+w)`,
    so its denominator `P − PW` is `0.621945·P/(0.621945+w) ≠ 0`. -/
theorem reconstructed_denominator_ne (T w P : ℝ) (hw : 0 ≤ w) (hP : 0 < P) :
    P - phiVal realSym T w P * Real.exp (humExponent realSym (T - 273.15 + 273.15)) / 100.0 ≠ 0 := by
  have hX : 0 < Real.exp (humExponent realSym T) := Real.exp_pos _
  unfold phiVal satPressureVal vapourPressure
  simp only [realSym_exp, lit100, kelvin_roundtrip, satExponent_eq]
  generalize Real.exp (humExponent realSym T) = X at hX
  have hc : (0 : ℝ) < 0.621945 := by norm_num
  have hd : (0 : ℝ) < 0.621945 + w := by linarith
  have hpw : w * (P / 1000) / (0.621945 + w) / (X / 1000) * 100 * X / 100
      = w * P / (0.621945 + w) := by
    field_simp
  rw [hpw]
  have hden : P - w * P / (0.621945 + w) = 0.621945 * P / (0.621945 + w) := by
    field_simp; ring
  rw [hden]
  positivity

/-! ### monotonicity -/

/-- The cubic part of the dew-point correlation is strictly increasing on all of ℝ: its
    difference quotient `14.526 + 0.7389(a+b) + 0.09486(a²+ab+b²)` is positive because the
    derivative's discriminant is negative. -/
theorem dewCubic_strictMono (a b : ℝ) (hab : a < b) :
    14.526 * a + a ^ 2 * 0.7389 + a ^ 3 * 0.09486
      < 14.526 * b + b ^ 2 * 0.7389 + b ^ 3 * 0.09486 := by
  have hq : 0 < 14.526 + 0.7389 * (a + b) + 0.09486 * (a ^ 2 + a * b + b ^ 2) := by
    nlinarith [sq_nonneg (a - b), sq_nonneg (a + b + 5.193)]
  have := mul_pos (sub_pos.mpr hab) hq
  nlinarith [this]

/-- The dew-point correlation is strictly increasing in the vapour pressure on `pw > 0`. -/
theorem dewPoint_strictMono (p q : ℝ) (hp : 0 < p) (hpq : p < q) :
    dewPoint realSym p < dewPoint realSym q := by
  have hq : 0 < q := hp.trans hpq
  have hl : Real.log p < Real.log q := Real.log_lt_log hp hpq
  have hr : p ^ (0.1984 : ℝ) < q ^ (0.1984 : ℝ) := Real.rpow_lt_rpow hp.le hpq (by norm_num)
  have hc := dewCubic_strictMono _ _ hl
  unfold dewPoint dewAlpha
  simp only [realSym_log, realSym_rpow, if_neg (not_le.mpr hp), if_neg (not_le.mpr hq)]
  linarith

/-- The exponent of the saturation-pressure formula is strictly increasing in the absolute
    temperature on [233.15 K, 323.15 K] (−40 … 50 °C). No calculus: the `log` term is increasing,
    and the difference quotient of the rational/polynomial part is bounded below by
    `0.0555 − 0.048640239 + 4.1764768e-5·(a+b) − 1.4452093e-8·(a²+ab+b²) > 0` on the range. -/
theorem satExponent_strictMono (a b : ℝ) (ha : 233.15 ≤ a) (hab : a < b) (hb : b ≤ 323.15) :
    satExponent realSym a < satExponent realSym b := by
  have ha0 : 0 < a := by linarith
  have hb0 : 0 < b := by linarith
  have hl : Real.log a < Real.log b := Real.log_lt_log ha0 hab
  unfold satExponent
  simp only [realSym_log, lit1]
  have hinv : -1 * 5.8002206e3 / b - (-1 * 5.8002206e3 / a) = 5800.2206 * (b - a) / (a * b) := by
    field_simp; ring
  have hab2 : a * b ≤ 323.15 * 323.15 := by nlinarith
  have hinv2 : 0.0555 * (b - a) ≤ 5800.2206 * (b - a) / (a * b) := by
    rw [le_div_iff₀ (mul_pos ha0 hb0)]
    nlinarith [mul_nonneg (sub_pos.mpr hab).le (sub_nonneg.mpr hab2)]
  have hpoly : 0 < (b - a) * (0.0555 - 0.048640239 + 4.1764768e-5 * (a + b)
      - 1.4452093e-8 * (a ^ 2 + a * b + b ^ 2)) := by
    apply mul_pos (sub_pos.mpr hab)
    nlinarith
  nlinarith

/-! ### numeric bounds: saturation pressure below 60 kPa up to 50 °C -/

theorem log_323_le : Real.log 323.15 ≤ 5.8011 := by
  have h6 : (403.4 : ℝ) ≤ Real.exp 6 := by
    have : Real.exp 1 ^ 6 = Real.exp ((6 : ℕ) : ℝ) := Real.exp_one_pow 6
    have h1 := Real.exp_one_gt_d9
    have h2 : (2.7182818283 : ℝ) ^ 6 ≤ Real.exp 1 ^ 6 := pow_le_pow_left₀ (by norm_num) h1.le 6
    have h3 : (403.4 : ℝ) ≤ (2.7182818283 : ℝ) ^ 6 := by norm_num
    rw [this] at h2
    norm_num at h2 ⊢
    linarith
  have hpos : (0 : ℝ) < 323.15 / Real.exp 6 := by positivity
  have hl := Real.log_le_sub_one_of_pos hpos
  rw [Real.log_div (by norm_num) (Real.exp_pos 6).ne', Real.log_exp] at hl
  have : 323.15 / Real.exp 6 ≤ 323.15 / 403.4 := by
    apply div_le_div_of_nonneg_left (by norm_num) (by norm_num) h6
  have h' : (323.15 : ℝ) / 403.4 ≤ 0.8011 := by norm_num
  linarith

theorem exp_ten_lt : Real.exp 10 < 22100 := by
  have : Real.exp 1 ^ 10 = Real.exp ((10 : ℕ) : ℝ) := Real.exp_one_pow 10
  have h1 := Real.exp_one_lt_d9
  have h2 : Real.exp 1 ^ 10 ≤ (2.7182818286 : ℝ) ^ 10 :=
    pow_le_pow_left₀ (Real.exp_pos 1).le h1.le 10
  have h3 : (2.7182818286 : ℝ) ^ 10 < 22100 := by norm_num
  rw [this] at h2
  norm_num at h2 ⊢
  linarith

theorem satExponent_323_le : satExponent realSym 323.15 ≤ 10 := by
  unfold satExponent
  simp only [realSym_log, lit1]
  have := log_323_le
  norm_num
  linarith

/-- Saturation vapour pressure [Pa] is below 22.1 kPa for every temperature in −40 … 50 °C
    (true value at 50 °C: 12.35 kPa). -/
theorem satPa_lt (T : ℝ) (ha : 233.15 ≤ T) (hb : T ≤ 323.15) :
    Real.exp (humExponent realSym T) < 22100 := by
  rw [← satExponent_eq]
  have h1 : satExponent realSym T ≤ satExponent realSym 323.15 := by
    rcases eq_or_lt_of_le hb with h | h
    · rw [h]
    · exact (satExponent_strictMono T 323.15 ha h le_rfl).le
  calc Real.exp (satExponent realSym T) ≤ Real.exp 10 :=
        Real.exp_le_exp.mpr (h1.trans satExponent_323_le)
    _ < 22100 := exp_ten_lt

end Uwg
