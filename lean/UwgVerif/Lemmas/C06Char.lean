/-
C06 — ASCII case facts about `Char.toLower` / `Char.toUpper` (core has no lemmas about them).
-/
namespace Uwg.C06

theorem toLower_nat (c : Char) : c.toLower.toNat =
    if 65 ≤ c.toNat ∧ c.toNat ≤ 90 then c.toNat + 32 else c.toNat := by
  have e : c.val.toNat = c.toNat := rfl
  unfold Char.toLower
  split
  · rename_i h
    have h1 : 65 ≤ c.toNat ∧ c.toNat ≤ 90 := by
      obtain ⟨a, b⟩ := h
      rw [ge_iff_le, UInt32.le_iff_toNat_le] at a
      rw [UInt32.le_iff_toNat_le] at b
      rw [e] at a b
      exact ⟨a, b⟩
    rw [if_pos h1]
    show (c.val + ('a'.val - 'A'.val)).toNat = c.toNat + 32
    rw [UInt32.toNat_add, e]
    have : ('a'.val - 'A'.val).toNat = 32 := rfl
    rw [this]
    omega
  · rename_i h
    have h1 : ¬ (65 ≤ c.toNat ∧ c.toNat ≤ 90) := by
      intro hh; apply h
      rw [ge_iff_le, UInt32.le_iff_toNat_le, UInt32.le_iff_toNat_le, e]
      exact hh
    rw [if_neg h1]

theorem toUpper_nat (c : Char) : c.toUpper.toNat =
    if 97 ≤ c.toNat ∧ c.toNat ≤ 122 then c.toNat - 32 else c.toNat := by
  have e : c.val.toNat = c.toNat := rfl
  unfold Char.toUpper
  split
  · rename_i h
    have h1 : 97 ≤ c.toNat ∧ c.toNat ≤ 122 := by
      obtain ⟨a, b⟩ := h
      rw [UInt32.le_iff_toNat_le] at a b
      rw [e] at a b
      exact ⟨a, b⟩
    rw [if_pos h1]
    show (c.val + ('A'.val - 'a'.val)).toNat = c.toNat - 32
    rw [UInt32.toNat_add, e]
    have : ('A'.val - 'a'.val).toNat = 4294967264 := rfl
    rw [this]
    omega
  · rename_i h
    have h1 : ¬ (97 ≤ c.toNat ∧ c.toNat ≤ 122) := by
      intro hh; apply h
      rw [UInt32.le_iff_toNat_le, UInt32.le_iff_toNat_le, e]
      exact hh
    rw [if_neg h1]

theorem char_eq_of_toNat {a b : Char} (h : a.toNat = b.toNat) : a = b := by
  apply Char.ext
  apply UInt32.toNat_inj.mp
  exact h

theorem char_case_facts (c : Char) : c.toLower.toLower = c.toLower ∧ c.toUpper.toLower = c.toLower ∧
      (c.toLower = ' ' ↔ c = ' ') ∧ (c.toUpper = ' ' ↔ c = ' ') := by
  have hsp : (' ' : Char).toNat = 32 := rfl
  refine ⟨?_, ?_, ?_, ?_⟩
  · apply char_eq_of_toNat
    rw [toLower_nat c.toLower, toLower_nat c]
    split <;> (try split) <;> omega
  · apply char_eq_of_toNat
    rw [toLower_nat c.toUpper, toUpper_nat c, toLower_nat c]
    split <;> (try split) <;> (try split) <;> omega
  · constructor
    · intro h
      apply char_eq_of_toNat
      have := congrArg Char.toNat h
      rw [toLower_nat, hsp] at this
      rw [hsp]
      split at this <;> omega
    · intro h; subst h; rfl
  · constructor
    · intro h
      apply char_eq_of_toNat
      have := congrArg Char.toNat h
      rw [toUpper_nat, hsp] at this
      rw [hsp]
      split at this <;> omega
    · intro h; subst h; rfl

end Uwg.C06
