/-
Inversion lemmas for `Model/Generate.lean`: what a returning `stages` / `rsmInit` / `generateFull` went through.
-/
import UwgVerif.Model.Generate
import UwgVerif.Lemmas.RsmCoef
import UwgVerif.Lemmas.Pipeline

namespace Uwg.Gen
open Uwg Uwg.Step

theorem bindE_ok {ε α β : Type} {x : Except ε α} {f : α → Except ε β} {b : β} :
    (x >>= f) = Except.ok b ↔ ∃ a, x = Except.ok a ∧ f a = Except.ok b := by
  cases x with
  | error e => simp [bind, Except.bind]
  | ok a => simp [bind, Except.bind]

theorem pureE_ok {ε α : Type} {a b : α} : (pure a : Except ε α) = Except.ok b ↔ a = b := by
  simp [pure, Except.pure]

theorem need_ok {p : Prop} [Decidable p] {c : Cls} {s : Stage} {u : Unit} :
    need p c s = Except.ok u ↔ p := by
  unfold need
  split <;> simp_all

/-- what a returning `stages` went through -/
theorem stages_ok {S : Sym ℚ} {P : GenParams} {stock : Stock} {g : Epw.Ground} {first : Option Weather.Rec}
    {zm : List ℚ} {p : Parts} (h : stages S P stock g first zm = .ok p) :
    simParam P = .ok p.sim ∧ first = some p.w ∧ Urb.ublInit P.charlength 250 = .ok p.ubl ∧
    (0 < P.kroad ∧ 0 < P.croad) ∧ 1 - P.blddensity ≠ 0 ∧
    rsmInit S (rsmParamOf P) P.h_ref P.h_ubl2 P.h_obs p.w.temp p.w.pres zm = .ok p.rsm ∧
    (∃ wind, p.w.umod = .num wind ∧
      Urb.ucmInit S { bldHeight := P.bldheight, bldDensity := P.blddensity, verToHor := P.vertohor,
                      treeCoverage := P.treecover, roadVeg := roadVeg P, roadAlbedo := P.albroad,
                      initialWind := wind, windMin := P.windmin, rGlaze := stock.rGlaze,
                      shgc := stock.shgc, albWall := stock.albWall } = .ok p.ucm) ∧
    Pipeline.roadColumn P.droad P.kroad P.croad g = .ok p.col.1 p.col.2 ∧
    p.rsm.nzfor = some p.nzfor := by
  unfold stages at h
  simp only [bindE_ok, pureE_ok] at h
  obtain ⟨sim, hsim, w, hw, ubl, hubl, u1, hmat, u2, hden, u3, _, u4, _, rsm, hrsm, ucm, hucm, col, hcol, u5, _, u6, _,
    nzfor, hnz, rfl⟩ := h
  refine ⟨hsim, ?_, ?_, ?_, need_ok.mp hden, hrsm, ?_, ?_, ?_⟩
  · cases first with
    | none => cases hw
    | some w' => cases hw; rfl
  · split at hubl
    · rename_i u hu; cases hubl; exact hu
    · cases hubl
  · unfold materialChecks at hmat
    simp only [bindE_ok] at hmat
    obtain ⟨_, h1, h2⟩ := hmat
    exact ⟨need_ok.mp h1, need_ok.mp h2⟩
  · split at hucm
    · split at hucm <;> cases hucm
    · rename_i wind hwind
      refine ⟨wind, hwind, ?_⟩
      split at hucm
      · cases hucm
      · rename_i u hu; cases hucm; exact hu
  · split at hcol
    · cases hcol
    · cases hcol
    · rename_i ls idx hc; cases hcol; exact hc
  · dsimp only
    split at hnz
    · rename_i n hn; cases hnz; exact hn
    · cases hnz

/-! ### the level search -/

/-- the test of the level search: `is_near_zero(z[iz] - h) or z[iz] > h` -/
def AtOrAbove (h x : ℚ) : Prop := Rsm.nearZero (x - h) = true ∨ x > h

instance (h x : ℚ) : Decidable (AtOrAbove h x) := by unfold AtOrAbove; infer_instance

theorem levelFrom_some (h : ℚ) : ∀ (z : List ℚ) (i n : Nat), levelFrom h i z = some n ↔
    ∃ k x, n = i + k + 1 ∧ z[k]? = some x ∧ AtOrAbove h x ∧ ∀ j y, j < k → z[j]? = some y → ¬ AtOrAbove h y := by
  intro z
  induction z with
  | nil => intro i n; simp [levelFrom]
  | cons a as ih =>
    intro i n
    unfold levelFrom
    by_cases ha : Rsm.nearZero (a - h) = true ∨ a > h
    · rw [if_pos ha]
      constructor
      · intro e
        cases e
        exact ⟨0, a, rfl, rfl, ha, fun j y hj => absurd hj (Nat.not_lt_zero j)⟩
      · rintro ⟨k, x, rfl, hx, hat, hbelow⟩
        cases k with
        | zero => rfl
        | succ k => exact absurd ha (hbelow 0 a (Nat.succ_pos k) rfl)
    · rw [if_neg ha, ih (i + 1) n]
      constructor
      · rintro ⟨k, x, rfl, hx, hat, hbelow⟩
        refine ⟨k + 1, x, by omega, by simpa using hx, hat, ?_⟩
        intro j y hj hy
        cases j with
        | zero => simp only [List.getElem?_cons_zero, Option.some.injEq] at hy; subst hy; exact ha
        | succ j => exact hbelow j y (by omega) (by simpa using hy)
      · rintro ⟨k, x, rfl, hx, hat, hbelow⟩
        cases k with
        | zero =>
          simp only [List.getElem?_cons_zero, Option.some.injEq] at hx
          subst hx
          exact absurd hat ha
        | succ k =>
          refine ⟨k, x, by omega, by simpa using hx, hat, ?_⟩
          intro j y hj hy
          exact hbelow (j + 1) y (by omega) (by simpa using hy)

theorem levelFrom_none (h : ℚ) : ∀ (z : List ℚ) (i : Nat), levelFrom h i z = none ↔ ∀ x ∈ z, ¬ AtOrAbove h x := by
  intro z
  induction z with
  | nil => intro i; simp [levelFrom]
  | cons a as ih =>
    intro i
    unfold levelFrom
    by_cases ha : Rsm.nearZero (a - h) = true ∨ a > h
    · rw [if_pos ha]
      simp only [reduceCtorEq, List.mem_cons, forall_eq_or_imp, false_iff, not_and]
      intro hn
      exact absurd ha hn
    · rw [if_neg ha, ih (i + 1)]
      simp only [List.mem_cons, forall_eq_or_imp]
      exact ⟨fun hr => ⟨ha, hr⟩, fun hr => hr.2⟩

/-! ### `RSMDef.__init__` -/

theorem rsmInit_ok {sym : Sym ℚ} {Pm : Rsm.Param ℚ} {refH nightH height t p : ℚ} {zm : List ℚ} {r : RsmInit}
    (h : rsmInit sym Pm refH nightH height t p zm = .ok r) :
    level (Rsm.mesoGrid zm).1 refH = some r.nzref ∧ r.z = (Rsm.mesoGrid zm).1 ∧ r.dz = (Rsm.mesoGrid zm).2 ∧
    r.nzfor = level (Rsm.mesoGrid zm).1 nightH ∧ r.z0r = 1 / 10 * height ∧ r.disp = 1 / 2 * height ∧
    initProfiles sym Pm r.nzref (Rsm.mesoGrid zm).2 t p = .ok r.st := by
  unfold rsmInit at h
  split at h
  · cases h
  · rename_i nzref hl
    split at h
    · cases h
    · rename_i st hst
      cases h
      exact ⟨hl, rfl, rfl, rfl, rfl, rfl, hst⟩

theorem presInitStep_len {sym : Sym ℚ} {Pm : Rsm.Param ℚ} {pInit : ℚ} {temp dz pres pres' : List ℚ} {iz : Nat}
    (h : presInitStep sym Pm pInit temp dz pres iz = .ok pres') : pres'.length = pres.length := by
  unfold presInitStep at h
  simp only [Rsm.bind_ok] at h
  obtain ⟨_, _, _, _, _, _, _, _, _, _, _, _, _, _, _, _, _, _, _, _, _, _, hset⟩ := h
  obtain ⟨_, rfl⟩ := Rsm.setC_ok.mp hset
  simp

theorem foldE_mem_inv {σ ι : Type} {f : σ → ι → Rsm.R σ} (Q : σ → Prop) :
    ∀ (l : List ι), (∀ s i s', i ∈ l → Q s → f s i = Except.ok s' → Q s') →
      ∀ (s s' : σ), Q s → Rsm.foldE f s l = Except.ok s' → Q s' := by
  intro l
  induction l with
  | nil => intro _ s s' hs h; simp only [Rsm.foldE] at h; cases h; exact hs
  | cons i is ih =>
    intro hf s s' hs h
    simp only [Rsm.foldE] at h
    split at h
    · cases h
    · rename_i s1 h1
      exact ih (fun s i s' hi => hf s i s' (List.mem_cons_of_mem _ hi)) s1 s'
        (hf s i s1 List.mem_cons_self hs h1) h

theorem presInitStep_set {sym : Sym ℚ} {Pm : Rsm.Param ℚ} {pInit : ℚ} {temp dz pres pres' : List ℚ} {iz : Nat}
    (h : presInitStep sym Pm pInit temp dz pres iz = .ok pres') : ∃ v, pres' = pres.set iz v := by
  unfold presInitStep at h
  simp only [Rsm.bind_ok] at h
  obtain ⟨_, _, _, _, _, _, _, _, _, _, _, _, _, _, _, _, _, _, _, _, _, _, hset⟩ := h
  obtain ⟨_, rfl⟩ := Rsm.setC_ok.mp hset
  exact ⟨_, rfl⟩

/-- the pressure loop of the constructor starts at level 1: level 0 keeps the station pressure -/
theorem initProfiles_pres0 {sym : Sym ℚ} {Pm : Rsm.Param ℚ} {nzref : Nat} {dz : List ℚ} {t p : ℚ}
    {st : Rsm.VdmState ℚ} (hn : 1 ≤ nzref) (h : initProfiles sym Pm nzref dz t p = .ok st) :
    st.presProf[0]? = some p := by
  unfold initProfiles at h
  simp only [Rsm.bind_ok, Rsm.pure_ok] at h
  obtain ⟨pres, hpres, _, _, _, _, _, _, _, _, _, _, _, _, rfl⟩ := h
  refine foldE_mem_inv (fun l => l[0]? = some p) _ ?_ _ _ ?_ hpres
  · intro s i s' hi hs hf
    obtain ⟨v, rfl⟩ := presInitStep_set hf
    have hi1 : 1 ≤ i := (List.mem_range'_1.mp hi).1
    rw [List.getElem?_set_ne (by omega)]
    exact hs
  · cases nzref with
    | zero => omega
    | succ n => simp [List.replicate_succ]

/-- what the initial profiles look like -/
theorem initProfiles_ok {sym : Sym ℚ} {Pm : Rsm.Param ℚ} {nzref : Nat} {dz : List ℚ} {t p : ℚ} {st : Rsm.VdmState ℚ}
    (h : initProfiles sym Pm nzref dz t p = .ok st) :
    st.tempProf = List.replicate nzref t ∧ st.windProf = List.replicate nzref 1 ∧
    st.presProf.length = nzref ∧ st.tempRealProf.length = nzref ∧ st.densityProfC.length = nzref ∧
    st.densityProfS.length = nzref + 1 := by
  unfold initProfiles at h
  simp only [Rsm.bind_ok, Rsm.pure_ok] at h
  obtain ⟨pres, hpres, treal, htreal, dC, hdC, c0, _, dS1, hdS1, cl, _, dS, hdS, rfl⟩ := h
  have lp : pres.length = nzref :=
    Rsm.foldE_inv (fun l => l.length = nzref) (fun s i s' hs hf => by rw [presInitStep_len hf]; exact hs)
      _ _ _ (by simp) hpres
  have lt := (Rsm.storeLoop_spec _ _ _ htreal).1
  have lc := (Rsm.storeLoop_spec _ _ _ hdC).1
  have ls1 := (Rsm.storeLoop_spec _ _ _ hdS1).1
  obtain ⟨_, rfl⟩ := Rsm.setC_ok.mp hdS
  refine ⟨rfl, rfl, lp, by simpa using lt, by simpa using lc, by simpa using ls1⟩

end Uwg.Gen
