/-
C06 — `UWG.fromDict (UWG.toDict m)` for valid models (the proof of T1/T2).
-/
import UwgVerif.Lemmas.C06Dict

namespace Uwg.C06
open Uwg.Gen

/-- a value a setter of kind `k` can have stored: it is a fixed point of the setter's normalisation -/
def Stored (k : Kind) (v : J) : Prop := norm k v = .ok v

/-- `getattr(m, n)` (`None` if the attribute was never set) -/
def UWG.attr (m : UWG) (n : Str) : J := (alookup n m.st).getD .null

/-- custom reference vectors as `_check_reference_data` leaves them -/
def RefsValid : Option (List BEMDef) → Option (List SchDef) → Prop
  | none, none => True
  | some bs, some ss =>
    bs ≠ [] ∧ checkRef bs ss = .ok () ∧ (∀ b ∈ bs, b.Valid) ∧ (∀ s ∈ ss, s.Valid)
  | _, _ => False

/-- the parameter part of validity: every PARAMETER_LIST attribute is set to a value its setter stores,
    and the three cover fractions sum to at most one (in each of the orders the setters use) -/
structure UWG.ParamsValid (m : UWG) : Prop where
  params : ∀ n ∈ paramList, ∃ v, alookup n m.st = some v ∧ Stored (kindOf n) v
  cover : ∀ n ∈ paramList, ∀ a b, kindOf n = .cover a b → CoverOK m.attr m.attr a b n

structure UWG.Valid (m : UWG) : Prop extends UWG.ParamsValid m where
  refs : RefsValid m.refBem m.refSch

/-- same parameter record and same custom reference vectors -/
def UWG.Same (m m' : UWG) : Prop :=
  (∀ n ∈ paramList, alookup n m.st = alookup n m'.st) ∧ m.refBem = m'.refBem ∧ m.refSch = m'.refSch

/-- facts about the generated table used by the round-trip proof -/
def tableOK : Bool :=
  paramList.all (fun n =>
    match kindOf n with
    | .cover a b => (alookup a initSt).isNone && (alookup b initSt).isNone
    | _ => true)
  && !decide (cs! "type" ∈ paramList) && !decide (cs! "ref_sch_vector" ∈ paramList)
  && !decide (cs! "ref_bem_vector" ∈ paramList)

theorem tableOK_cover (h : tableOK = true) {n a b : Str} (hn : n ∈ paramList)
    (hk : kindOf n = .cover a b) : alookup a initSt = none ∧ alookup b initSt = none := by
  simp only [tableOK, Bool.and_eq_true, List.all_eq_true] at h
  have := h.1.1.1 n hn
  rw [hk] at this
  simpa using this

def refTail (rb : Option (List BEMDef)) (rs : Option (List SchDef)) : List (Str × J) :=
  if truthy rb && truthy rs then
    [(cs! "ref_sch_vector", .list ((rs.getD []).map SchDef.toDict)),
     (cs! "ref_bem_vector", .list ((rb.getD []).map BEMDef.toDict))]
  else []

theorem toDict_eq (m : UWG) (f : Str → J) (h : ∀ n ∈ paramList, alookup n m.st = some (f n)) :
    m.toDict true = .ok (.obj ((cs! "type", J.str (cs! "UWG")) ::
      ((paramList.map fun n => (n, f n)) ++ refTail m.refBem m.refSch))) := by
  unfold UWG.toDict
  rw [getAttrs_eq m.st f paramList h]
  simp only [Bool.true_and, refTail]
  split <;> simp

theorem UWG.toDict_congr (b : Bool) (m m' : UWG) (h : UWG.Same m m') : m.toDict b = m'.toDict b := by
  obtain ⟨h1, h2, h3⟩ := h
  unfold UWG.toDict
  rw [getAttrs_congr m.st m'.st paramList h1, h2, h3]

section
variable (f : Str → J) (tail : List (Str × J))

/-- the dictionary `to_dict` emits, with an arbitrary tail after the parameters -/
def dictOf : J := .obj ((cs! "type", J.str (cs! "UWG")) :: ((paramList.map fun n => (n, f n)) ++ tail))

theorem dictOf_type : checkType (cs! "UWG") (dictOf f tail) = .ok () := by
  simp [dictOf, checkType, J.get, alookup]

theorem dictOf_get (ht : tableOK = true) {n : Str} (hn : n ∈ paramList) :
    (dictOf f tail).get n = .ok (f n) := by
  have h1 : n ≠ cs! "type" := by
    intro h
    simp only [tableOK, Bool.and_eq_true, Bool.not_eq_true', decide_eq_false_iff_not] at ht
    exact ht.1.1.2 (h ▸ hn)
  simp only [dictOf, J.get, alookup, h1, if_false, alookup_append, alookup_map_self, hn, if_true,
    Option.orElse]

theorem dictOf_get_tail (k : Str) (hk : k ∉ paramList) (hk' : k ≠ cs! "type") :
    alookup k ((cs! "type", J.str (cs! "UWG")) :: ((paramList.map fun n => (n, f n)) ++ tail))
      = alookup k tail := by
  simp only [alookup, hk', if_false, alookup_append, alookup_map_self, hk, Option.orElse]
end

theorem checkRef_length {bs : List BEMDef} {ss : List SchDef} (h : checkRef bs ss = .ok ()) :
    ss.length = bs.length := by
  unfold checkRef at h
  split at h
  · cases h
  · rename_i hl
    simpa using hl

theorem truthy_iff {α : Type} (l : List α) : truthy (some l) = true ↔ l ≠ [] := by
  cases l <;> simp [truthy]

/-- the reference-vector tail of `from_dict` on what `to_dict` emitted -/
theorem refsFromDict_dictOf (f : Str → J) (ht : tableOK = true)
    (rb : Option (List BEMDef)) (rs : Option (List SchDef))
    (hv : (truthy rb && truthy rs) = true → RefsValid rb rs) :
    UWG.refsFromDict (dictOf f (refTail rb rs)) =
      .ok (if truthy rb && truthy rs then (rb, rs) else (none, none)) := by
  have hs : cs! "ref_sch_vector" ∉ paramList := by
    simp only [tableOK, Bool.and_eq_true, Bool.not_eq_true', decide_eq_false_iff_not] at ht
    exact ht.1.2
  have hb : cs! "ref_bem_vector" ∉ paramList := by
    simp only [tableOK, Bool.and_eq_true, Bool.not_eq_true', decide_eq_false_iff_not] at ht
    exact ht.2
  have gs := dictOf_get_tail f (refTail rb rs) (cs! "ref_sch_vector") hs (by decide)
  have gb := dictOf_get_tail f (refTail rb rs) (cs! "ref_bem_vector") hb (by decide)
  by_cases htr : (truthy rb && truthy rs) = true
  · -- both vectors emitted
    have hval := hv htr
    simp only [Bool.and_eq_true] at htr
    obtain ⟨t1, t2⟩ := htr
    match rb, rs, hval, t1, t2 with
    | some bs, some ss, hval, t1, t2 =>
      obtain ⟨_, hchk, hbv, hsv⟩ := hval
      have tl : refTail (some bs) (some ss) =
          [(cs! "ref_sch_vector", .list (ss.map SchDef.toDict)),
           (cs! "ref_bem_vector", .list (bs.map BEMDef.toDict))] := by
        simp [refTail, t1, t2]
      rw [tl] at gs gb ⊢
      have g1 : (dictOf f [(cs! "ref_sch_vector", .list (ss.map SchDef.toDict)),
          (cs! "ref_bem_vector", .list (bs.map BEMDef.toDict))]).get (cs! "ref_sch_vector")
          = .ok (.list (ss.map SchDef.toDict)) := by
        simp only [dictOf, J.get, gs]; rfl
      have g2 : (dictOf f [(cs! "ref_sch_vector", .list (ss.map SchDef.toDict)),
          (cs! "ref_bem_vector", .list (bs.map BEMDef.toDict))]).get (cs! "ref_bem_vector")
          = .ok (.list (bs.map BEMDef.toDict)) := by
        simp only [dictOf, J.get, gb]; rfl
      unfold UWG.refsFromDict
      simp only [presentNotNone, g1, g2, bne_self_eq_false, Bool.false_eq_true, if_false, Bool.and_self,
        if_true, t1, t2]
      simp only [bind, Except.bind, schdefs_from_to ss hsv, bemdefs_from_to bs hbv, hchk, pure,
        Except.pure]
  · -- nothing emitted
    have tl : refTail rb rs = [] := by simp [refTail, htr]
    rw [tl] at gs gb ⊢
    have g1 : (dictOf f []).get (cs! "ref_sch_vector") = .error .key := by
      simp only [dictOf, J.get]; rw [gs]; rfl
    have g2 : (dictOf f []).get (cs! "ref_bem_vector") = .error .key := by
      simp only [dictOf, J.get]; rw [gb]; rfl
    unfold UWG.refsFromDict
    simp only [presentNotNone, g1, g2, bne_self_eq_false, Bool.false_eq_true, if_false, Bool.and_self,
      htr]
    rfl

/-- core of T1: parameters valid, reference vectors valid whenever they are emitted -/
theorem round_trip_core (m : UWG) (ht : tableOK = true) (hp : m.ParamsValid)
    (hv : (truthy m.refBem && truthy m.refSch) = true → RefsValid m.refBem m.refSch) :
    ∃ d m', m.toDict true = .ok d ∧ UWG.fromDict d = .ok m' ∧
      (∀ n ∈ paramList, alookup n m.st = alookup n m'.st) ∧
      (m'.refBem, m'.refSch) =
        (if truthy m.refBem && truthy m.refSch then (m.refBem, m.refSch) else (none, none)) := by
  have hattr : ∀ n ∈ paramList, alookup n m.st = some (m.attr n) := by
    intro n hn
    obtain ⟨v, hv, _⟩ := hp.params n hn
    simp [UWG.attr, hv]
  have hstored : ∀ n ∈ paramList, norm (kindOf n) (m.attr n) = .ok (m.attr n) := by
    intro n hn
    obtain ⟨v, hv, hs⟩ := hp.params n hn
    simpa [UWG.attr, hv, Stored] using hs
  have hd := toDict_eq m m.attr hattr
  obtain ⟨st', hrun, hinv⟩ := runSetters_ok (fun n => (dictOf m.attr (refTail m.refBem m.refSch)).get n)
    m.attr m.attr paramList initSt []
    (fun n hn => ⟨dictOf_get m.attr _ ht hn, hstored n hn⟩)
    (fun n hn a b hk => by
      obtain ⟨ha, hb⟩ := tableOK_cover ht hn hk
      exact ⟨ha, hb, hp.cover n hn a b hk⟩)
    (StInv_init _)
  have hrefs := refsFromDict_dictOf m.attr ht m.refBem m.refSch hv
  refine ⟨_, ⟨st', _, _⟩, hd, ?_, ?_, rfl⟩
  · show UWG.fromDict (dictOf m.attr (refTail m.refBem m.refSch)) = _
    unfold UWG.fromDict
    rw [bind_ok _ (dictOf_type _ _), bind_ok _ hrun, bind_ok _ hrefs]
    rfl
  · intro n hn
    rw [hattr n hn, hinv n]
    simp [hn]

end Uwg.C06
