/-
C06 — validity predicates and `from_dict (to_dict x) = x` for Material, Element, Building, SchDef, BEMDef.
Proof pattern: one `rfl` lemma per dictionary key (`x.toDict.get key = ok field`), then the monadic
`from_dict` is rewritten bind by bind (`bind_ok`); a single big `simp` over 17 string keys is far too slow.
-/
import UwgVerif.Model.Params

namespace Uwg.C06

/-- `lo <= v <= hi` holds for the number `v` (Python bool counts as 0/1) -/
def InR (lo : Int) (hi : Option Int) (v : J) : Prop :=
  ∃ x, numView v = some x ∧ inRange lo hi x = true

/-- `lo < v` -/
def ExclMin (lo : Int) (v : J) : Prop := ∃ x, numView v = some x ∧ (lo : Rat) < x

theorem checkRange_ok {lo hi v} (h : InR lo hi v) : checkRange lo hi v = .ok v := by
  obtain ⟨x, hx, hr⟩ := h
  simp [checkRange, hx, hr]

theorem checkRange_eq_ok {lo hi v v'} (h : checkRange lo hi v = .ok v') : v' = v ∧ InR lo hi v := by
  unfold checkRange at h
  split at h
  · cases h
  · rename_i x hx
    split at h
    · rename_i hr
      cases h
      exact ⟨rfl, x, hx, hr⟩
    · cases h

theorem checkExclMin_ok {lo v} (h : ExclMin lo v) : checkExclMin lo v = .ok v := by
  obtain ⟨x, hx, hr⟩ := h
  simp [checkExclMin, hx, hr]

theorem checkExclMin_eq_ok {lo v v'} (h : checkExclMin lo v = .ok v') : v' = v ∧ ExclMin lo v := by
  unfold checkExclMin at h
  split at h
  · cases h
  · rename_i x hx
    split at h
    · rename_i hr
      cases h
      exact ⟨rfl, x, hx, hr⟩
    · cases h

/-- a stored week schedule: passes `check_week_validity` -/
def IsWeek (w : J) : Prop := checkWeek w = .ok w

theorem checkWeek_eq_ok {v v'} (h : checkWeek v = .ok v') : v' = v := by
  unfold checkWeek at h
  split at h
  · split at h
    · split at h
      · cases h
      · cases h; rfl
    · cases h
  · cases h

theorem bind_ok {ε α β : Type} {x : Except ε α} {a : α} (f : α → Except ε β) (h : x = .ok a) :
    x >>= f = f a := by subst h; rfl

/-! ### Material -/

def Material.Valid (m : Material) : Prop := ExclMin 0 m.thermalcond ∧ ExclMin 0 m.volheat

theorem material_from_to' (m : Material) (h : m.Valid) : Material.fromDict m.toDict = .ok m := by
  obtain ⟨h1, h2⟩ := h
  simp [Material.fromDict, Material.toDict, checkType, J.get, alookup, Material.make,
    checkExclMin_ok h1, checkExclMin_ok h2, bind, Except.bind]

theorem materials_from_to (ms : List Material) (h : ∀ m ∈ ms, m.Valid) :
    Material.fromDicts (ms.map Material.toDict) = .ok ms := by
  induction ms with
  | nil => rfl
  | cons m ms ih =>
    have h1 := material_from_to' m (h m (by simp))
    have h2 := ih (fun x hx => h x (by simp [hx]))
    simp [Material.fromDicts, h1, h2]

/-! ### Element -/

def Element.Valid (e : Element) : Prop :=
  InR 0 none e.albedo ∧ InR 0 none e.emissivity ∧
  (∃ ts, e.thick = .list ts ∧ ts.length = e.mats.length ∧ allPositive ts = .ok ()) ∧
  (∀ m ∈ e.mats, m.Valid) ∧ InR 0 (some 1) e.vegcoverage ∧ InR 0 none e.tInit

theorem pyInt_bool (b : Bool) : pyInt (.bool b) = .ok (if b then 1 else 0) := by
  cases b <;> rfl

section
variable (e : Element)
theorem eg0 : checkType (cs! "Element") e.toDict = .ok () := rfl
theorem eg1 : e.toDict.get (cs! "material_lst") = .ok (.list (e.mats.map Material.toDict)) := rfl
theorem eg2 : e.toDict.get (cs! "albedo") = .ok e.albedo := rfl
theorem eg3 : e.toDict.get (cs! "emissivity") = .ok e.emissivity := rfl
theorem eg4 : e.toDict.get (cs! "layer_thickness_lst") = .ok e.thick := rfl
theorem eg5 : e.toDict.get (cs! "vegcoverage") = .ok e.vegcoverage := rfl
theorem eg6 : e.toDict.get (cs! "t_init") = .ok e.tInit := rfl
theorem eg7 : e.toDict.get (cs! "horizontal") = .ok (.bool e.horizontal) := rfl
theorem eg8 : e.toDict.get (cs! "name") = .ok e.name := rfl
end

theorem element_make_stored (e : Element) (h : e.Valid) :
    Element.make e.albedo e.emissivity e.thick e.mats e.vegcoverage e.tInit (.bool e.horizontal) e.name
      = .ok e := by
  obtain ⟨h1, h2, ⟨ts, hts, hlen, hpos⟩, _, h5, h6⟩ := h
  obtain ⟨al, em, th, mats, vc, ti, ho, nm⟩ := e
  simp only at hts hlen h1 h2 h5 h6
  subst hts
  simp [Element.make, hlen, hpos, checkRange_ok h1, checkRange_ok h2, checkRange_ok h5,
    checkRange_ok h6, pyInt_bool]

theorem element_from_to' (e : Element) (h : e.Valid) : Element.fromDict e.toDict = .ok e := by
  have hm := materials_from_to e.mats h.2.2.2.1
  have e1 := element_make_stored e h
  unfold Element.fromDict
  rw [bind_ok _ (eg0 e), bind_ok _ (eg1 e)]
  simp only []
  rw [bind_ok _ hm, bind_ok _ (eg2 e), bind_ok _ (eg3 e), bind_ok _ (eg4 e), bind_ok _ (eg5 e),
    bind_ok _ (eg6 e), bind_ok _ (eg7 e), bind_ok _ (eg8 e), e1]

/-! ### Building -/

def Building.Valid (b : Building) : Prop :=
  InR 0 none b.floorHeight ∧ InR 0 none b.intHeatNight ∧ InR 0 (some 1) b.intHeatFrad ∧
  InR 0 (some 1) b.intHeatFlat ∧ InR 0 none b.infil ∧ InR 0 none b.vent ∧
  InR 0 (some 1) b.glazingRatio ∧ InR 0 none b.uValue ∧ InR 0 (some 1) b.shgc ∧
  b.condtype ∈ CONDTYPES ∧ InR 0 none b.cop ∧ InR 0 none b.coolcap ∧ InR 0 none b.heateff ∧
  InR 0 none b.initialTemp ∧ b.heatCap ≠ .null

theorem checkCondtype_stored {s : Str} (h : s ∈ CONDTYPES) : checkCondtype (.str s) = .ok s := by
  simp only [CONDTYPES, List.mem_cons, List.not_mem_nil, or_false] at h
  rcases h with h | h <;> subst h <;> rfl

section
variable (b : Building)
theorem bg0 : checkType (cs! "Building") b.toDict = .ok () := rfl
theorem bg1 : b.toDict.get (cs! "floor_height") = .ok b.floorHeight := rfl
theorem bg2 : b.toDict.get (cs! "int_heat_night") = .ok b.intHeatNight := rfl
theorem bg3 : b.toDict.get (cs! "int_heat_day") = .ok b.intHeatDay := rfl
theorem bg4 : b.toDict.get (cs! "int_heat_frad") = .ok b.intHeatFrad := rfl
theorem bg5 : b.toDict.get (cs! "int_heat_flat") = .ok b.intHeatFlat := rfl
theorem bg6 : b.toDict.get (cs! "infil") = .ok b.infil := rfl
theorem bg7 : b.toDict.get (cs! "vent") = .ok b.vent := rfl
theorem bg8 : b.toDict.get (cs! "glazing_ratio") = .ok b.glazingRatio := rfl
theorem bg9 : b.toDict.get (cs! "u_value") = .ok b.uValue := rfl
theorem bg10 : b.toDict.get (cs! "shgc") = .ok b.shgc := rfl
theorem bg11 : b.toDict.get (cs! "condtype") = .ok (.str b.condtype) := rfl
theorem bg12 : b.toDict.get (cs! "cop") = .ok b.cop := rfl
theorem bg13 : b.toDict.get (cs! "coolcap") = .ok b.coolcap := rfl
theorem bg14 : b.toDict.get (cs! "heateff") = .ok b.heateff := rfl
theorem bg15 : b.toDict.get (cs! "initial_temp") = .ok b.initialTemp := rfl
theorem bg16 : b.toDict.get (cs! "heat_cap") = .ok b.heatCap := rfl
end

theorem building_make_stored (b : Building) (h : b.Valid) :
    Building.make b.floorHeight b.intHeatNight b.intHeatDay b.intHeatFrad b.intHeatFlat b.infil b.vent
      b.glazingRatio b.uValue b.shgc (.str b.condtype) b.cop b.coolcap b.heateff b.initialTemp =
    .ok { b with heatCap := .num (.int 999) } := by
  obtain ⟨h1, h2, h3, h4, h5, h6, h7, h8, h9, h10, h11, h12, h13, h14, _⟩ := h
  simp only [Building.make, checkRange_ok h1, checkRange_ok h2, checkRange_ok h3, checkRange_ok h4,
      checkRange_ok h5, checkRange_ok h6, checkRange_ok h7, checkRange_ok h8, checkRange_ok h9,
      checkCondtype_stored h10, checkRange_ok h11, checkRange_ok h12, checkRange_ok h13,
      checkRange_ok h14, bind, Except.bind, pure, Except.pure]

theorem building_from_to' (b : Building) (h : b.Valid) : Building.fromDict b.toDict = .ok b := by
  have e1 := building_make_stored b h
  have hc : b.heatCap ≠ .null := h.2.2.2.2.2.2.2.2.2.2.2.2.2.2
  unfold Building.fromDict
  rw [bind_ok _ (bg0 b), bind_ok _ (bg1 b), bind_ok _ (bg2 b), bind_ok _ (bg3 b), bind_ok _ (bg4 b),
    bind_ok _ (bg5 b), bind_ok _ (bg6 b), bind_ok _ (bg7 b), bind_ok _ (bg8 b), bind_ok _ (bg9 b),
    bind_ok _ (bg10 b), bind_ok _ (bg11 b), bind_ok _ (bg12 b), bind_ok _ (bg13 b), bind_ok _ (bg14 b),
    bind_ok _ (bg15 b), bind_ok _ e1, bg16 b]
  obtain ⟨a1, a2, a3, a4, a5, a6, a7, a8, a9, a10, a11, a12, a13, a14, a15, a16⟩ := b
  cases a16 <;> first | rfl | exact absurd rfl hc

/-! ### SchDef -/

def SchDef.Valid (s : SchDef) : Prop :=
  IsWeek s.elec ∧ IsWeek s.gas ∧ IsWeek s.light ∧ IsWeek s.occ ∧ IsWeek s.cool ∧ IsWeek s.heat ∧
  IsWeek s.swh ∧ InR 0 none s.qElec ∧ InR 0 none s.qGas ∧ InR 0 none s.qLight ∧ InR 0 none s.nOcc ∧
  InR 0 none s.vent ∧ InR 0 none s.vSwh ∧ s.builtera ∈ REF_ERAS

theorem checkBuiltera_stored {s : Str} (h : s ∈ REF_ERAS) : checkBuiltera (.str s) = .ok s := by
  simp [checkBuiltera, h]

section
variable (s : SchDef)
theorem sg0 : checkType (cs! "SchDef") s.toDict = .ok () := rfl
theorem sg1 : s.toDict.get (cs! "elec") = .ok s.elec := rfl
theorem sg2 : s.toDict.get (cs! "gas") = .ok s.gas := rfl
theorem sg3 : s.toDict.get (cs! "light") = .ok s.light := rfl
theorem sg4 : s.toDict.get (cs! "occ") = .ok s.occ := rfl
theorem sg5 : s.toDict.get (cs! "cool") = .ok s.cool := rfl
theorem sg6 : s.toDict.get (cs! "heat") = .ok s.heat := rfl
theorem sg7 : s.toDict.get (cs! "swh") = .ok s.swh := rfl
theorem sg8 : s.toDict.get (cs! "q_elec") = .ok s.qElec := rfl
theorem sg9 : s.toDict.get (cs! "q_gas") = .ok s.qGas := rfl
theorem sg10 : s.toDict.get (cs! "q_light") = .ok s.qLight := rfl
theorem sg11 : s.toDict.get (cs! "n_occ") = .ok s.nOcc := rfl
theorem sg12 : s.toDict.get (cs! "vent") = .ok s.vent := rfl
theorem sg13 : s.toDict.get (cs! "v_swh") = .ok s.vSwh := rfl
theorem sg14 : s.toDict.get (cs! "bldtype") = .ok (.str s.bldtype) := rfl
theorem sg15 : s.toDict.get (cs! "builtera") = .ok (.str s.builtera) := rfl
end

theorem schdef_make_stored (s : SchDef) (h : s.Valid) :
    SchDef.make s.elec s.gas s.light s.occ s.cool s.heat s.qElec s.qGas s.qLight s.nOcc s.vent
      (.str s.bldtype) (.str s.builtera) s.swh s.vSwh = .ok s := by
  obtain ⟨w1, w2, w3, w4, w5, w6, w7, h1, h2, h3, h4, h5, h6, he⟩ := h
  simp only [IsWeek] at w1 w2 w3 w4 w5 w6 w7
  simp only [SchDef.make, w1, w2, w3, w4, w5, w6, w7, checkRange_ok h1, checkRange_ok h2,
    checkRange_ok h3, checkRange_ok h4, checkRange_ok h5, checkRange_ok h6, checkBuiltera_stored he,
    checkBldtype, bind, Except.bind, pure, Except.pure]

theorem schdef_from_to' (s : SchDef) (h : s.Valid) : SchDef.fromDict s.toDict = .ok s := by
  have e1 := schdef_make_stored s h
  unfold SchDef.fromDict
  rw [bind_ok _ (sg0 s), bind_ok _ (sg1 s), bind_ok _ (sg2 s), bind_ok _ (sg3 s), bind_ok _ (sg4 s),
    bind_ok _ (sg5 s), bind_ok _ (sg6 s), bind_ok _ (sg7 s), bind_ok _ (sg8 s), bind_ok _ (sg9 s),
    bind_ok _ (sg10 s), bind_ok _ (sg11 s), bind_ok _ (sg12 s), bind_ok _ (sg13 s), bind_ok _ (sg14 s),
    bind_ok _ (sg15 s), e1]

theorem schdefs_from_to (ss : List SchDef) (h : ∀ s ∈ ss, s.Valid) :
    SchDef.fromDicts (ss.map SchDef.toDict) = .ok ss := by
  induction ss with
  | nil => rfl
  | cons s ss ih =>
    have h1 := schdef_from_to' s (h s (by simp))
    have h2 := ih (fun x hx => h x (by simp [hx]))
    simp [SchDef.fromDicts, h1, h2]

/-! ### BEMDef -/

def BEMDef.Valid (x : BEMDef) : Prop :=
  x.building.Valid ∧ x.mass.Valid ∧ x.wall.Valid ∧ x.roof.Valid ∧ x.builtera ∈ REF_ERAS

section
variable (x : BEMDef)
theorem xg0 : checkType (cs! "BEMDef") x.toDict = .ok () := rfl
theorem xg1 : x.toDict.get (cs! "building") = .ok x.building.toDict := rfl
theorem xg2 : x.toDict.get (cs! "mass") = .ok x.mass.toDict := rfl
theorem xg3 : x.toDict.get (cs! "wall") = .ok x.wall.toDict := rfl
theorem xg4 : x.toDict.get (cs! "roof") = .ok x.roof.toDict := rfl
theorem xg5 : x.toDict.get (cs! "bldtype") = .ok (.str x.bldtype) := rfl
theorem xg6 : x.toDict.get (cs! "builtera") = .ok (.str x.builtera) := rfl
end

theorem bemdef_from_to' (x : BEMDef) (h : x.Valid) : BEMDef.fromDict x.toDict = .ok x := by
  obtain ⟨hb, hm, hw, hr, he⟩ := h
  unfold BEMDef.fromDict
  rw [bind_ok _ (xg0 x), bind_ok _ (xg1 x), bind_ok _ (building_from_to' _ hb), bind_ok _ (xg2 x),
    bind_ok _ (element_from_to' _ hm), bind_ok _ (xg3 x), bind_ok _ (element_from_to' _ hw),
    bind_ok _ (xg4 x), bind_ok _ (element_from_to' _ hr), bind_ok _ (xg5 x), bind_ok _ (xg6 x),
    bind_ok _ (show checkBldtype (.str x.bldtype) = .ok x.bldtype from rfl),
    bind_ok _ (checkBuiltera_stored he)]
  rfl

theorem bemdefs_from_to (xs : List BEMDef) (h : ∀ x ∈ xs, x.Valid) :
    BEMDef.fromDicts (xs.map BEMDef.toDict) = .ok xs := by
  induction xs with
  | nil => rfl
  | cons x xs ih =>
    have h1 := bemdef_from_to' x (h x (by simp))
    have h2 := ih (fun y hy => h y (by simp [hy]))
    simp [BEMDef.fromDicts, h1, h2]

end Uwg.C06
