/-
Helper lemmas for the clock model (C04, reused by the driver of C02).

The finite facts about the two month tables (the code's cumulative `inobis`, the specification's month
lengths `mdays`) are closed by kernel evaluation over the 365 days / 12×31 dates; everything that
quantifies over the timestep `dt` and the number of steps is proved by arithmetic and induction.
-/
import UwgVerif.Model.Clock

namespace Uwg

/-- A date of the non-leap calendar. -/
def validDate (M D : Nat) : Prop := 1 ≤ M ∧ M ≤ 12 ∧ 1 ≤ D ∧ D ≤ monthLen M

instance (M D : Nat) : Decidable (validDate M D) := by unfold validDate; infer_instance

/-- 0-based day of year of a date, from the month lengths (specification side). -/
def dayOfYear0 (M D : Nat) : Nat := daysBefore M + D - 1

/-! ### Finite table facts -/

set_option maxRecDepth 100000 in
/-- Crossing midnight inside the year: the code's 12-way scan against `inobis`, started from
`(month, day + 1)`, lands on the calendar date of the next day. -/
theorem monthScan_next_day : ∀ doy, doy < 364 →
    monthScan (doy + 1) inobis ((monthDay doy).1, (monthDay doy).2 + 1) = monthDay (doy + 1) := by
  decide

set_option maxRecDepth 100000 in
/-- For every valid date the constructor's state is the calendar instant of that date's midnight. -/
theorem init_table : ∀ M, M < 13 → ∀ D, D < 32 → validDate M D →
    Clock.init M D = trueCalendar (dayOfYear0 M D * 86400) := by
  decide

set_option maxRecDepth 100000 in
theorem dayOfYear0_table : ∀ M, M < 13 → ∀ D, D < 32 → validDate M D → dayOfYear0 M D < 365 := by
  decide

set_option maxRecDepth 100000 in
/-- `monthDay` inverts `dayOfYear0`, lands on a valid date, and the code's `inobis` entry of that month is
the number of days before it. -/
theorem monthDay_table : ∀ doy, doy < 365 →
    validDate (monthDay doy).1 (monthDay doy).2 ∧
    dayOfYear0 (monthDay doy).1 (monthDay doy).2 = doy ∧
    inobis.getD ((monthDay doy).1 - 1) 0 = daysBefore (monthDay doy).1 := by
  decide

theorem monthLen_le (M : Nat) : monthLen M ≤ 31 := by
  unfold monthLen mdays
  split
  · omega
  · match M with
    | 0 => simp
    | 1 | 2 | 3 | 4 | 5 | 6 | 7 | 8 | 9 | 10 | 11 | 12 => simp
    | n + 13 => simp

theorem validDate_bounds {M D : Nat} (h : validDate M D) : M < 13 ∧ D < 32 := by
  have := monthLen_le M
  unfold validDate at h
  omega

theorem init_eq {M D : Nat} (h : validDate M D) :
    Clock.init M D = trueCalendar (dayOfYear0 M D * 86400) :=
  init_table M (validDate_bounds h).1 D (validDate_bounds h).2 h

theorem dayOfYear0_lt {M D : Nat} (h : validDate M D) : dayOfYear0 M D < 365 :=
  dayOfYear0_table M (validDate_bounds h).1 D (validDate_bounds h).2 h

/-! ### Arithmetic of one step -/

theorem dvd_86400 {dt : Nat} (h : dt ∣ 3600) : dt ∣ 86400 := Nat.dvd_trans h ⟨24, rfl⟩

/-- A multiple of `dt` below a multiple of `dt` leaves room for one more `dt`. -/
theorem add_le_of_dvd_lt {dt s n : Nat} (hs : dt ∣ s) (hn : dt ∣ n) (h : s < n) : s + dt ≤ n := by
  obtain ⟨a, rfl⟩ := hs
  obtain ⟨b, rfl⟩ := hn
  have hab : a < b := Nat.lt_of_mul_lt_mul_left h
  calc dt * a + dt = dt * (a + 1) := by rw [Nat.mul_succ]
    _ ≤ dt * b := Nat.mul_le_mul_left dt hab

/-- One call of `update_date` from the calendar instant `t` gives the calendar instant `t + dt`, as long as
`t + dt` is still inside the year. -/
theorem update_trueCalendar {dt t : Nat} (hdt : dt ∣ 3600) (hpos : 0 < dt) (hdiv : dt ∣ t)
    (hlt : t + dt < 365 * 86400) :
    Clock.update dt (trueCalendar t) = some (trueCalendar (t + dt)) := by
  have h86 := dvd_86400 hdt
  have hs : dt ∣ t % 86400 := (Nat.dvd_mod_iff h86).2 hdiv
  have hle : t % 86400 + dt ≤ 86400 := add_le_of_dvd_lt hs h86 (Nat.mod_lt _ (by decide))
  by_cases hmid : t % 86400 + dt = 86400
  · -- midnight
    have e1 : (t + dt) / 86400 = t / 86400 + 1 := by omega
    have e2 : (t + dt) % 86400 = 0 := by omega
    have hd : t / 86400 < 364 := by omega
    have hscan := monthScan_next_day (t / 86400) hd
    simp only [Clock.update, trueCalendar, hmid, e1, e2, if_true, hscan]
    simp
  · have e1 : (t + dt) / 86400 = t / 86400 := by omega
    have e2 : (t + dt) % 86400 = t % 86400 + dt := by omega
    have hng : ¬ (t % 86400 + dt > 86400) := by omega
    simp only [Clock.update, trueCalendar, hmid, e1, e2, if_false, hng]

theorem run_succ_last (dt k : Nat) (c : Clock) :
    Clock.run dt (k + 1) c = (Clock.run dt k c).bind (Clock.update dt) := by
  induction k generalizing c with
  | zero => simp [Clock.run]
  | succ k ih =>
    rw [Clock.run]
    cases h : Clock.update dt c with
    | none => simp [Clock.run, h]
    | some c' =>
      simp only [Option.bind_some]
      rw [ih c']
      conv => rhs; rw [Clock.run, h, Option.bind_some]

/-- `k` updates from the calendar instant `t` give the calendar instant `t + k·dt`
(induction on `k`; the invariant carried along is "state = trueCalendar t ∧ dt ∣ t"). -/
theorem run_trueCalendar {dt : Nat} (hdt : dt ∣ 3600) (hpos : 0 < dt) :
    ∀ k t, dt ∣ t → t + k * dt < 365 * 86400 →
      Clock.run dt k (trueCalendar t) = some (trueCalendar (t + k * dt)) := by
  intro k
  induction k with
  | zero => intro t _ _; simp [Clock.run]
  | succ k ih =>
    intro t hdiv hlt
    rw [Nat.succ_mul] at hlt
    rw [Clock.run, update_trueCalendar hdt hpos hdiv (by omega), Option.bind_some,
      ih (t + dt) (Nat.dvd_add hdiv (Nat.dvd_refl dt)) (by omega), Nat.succ_mul]
    congr 2
    omega

/-! ### Week -/

def Weekday.ofIdx : Nat → Weekday
  | 0 => .sun | 1 => .mon | 2 => .tue | 3 => .wed | 4 => .thu | 5 => .fri | _ => .sat

theorem weekdayOf_eq (j : Nat) : weekdayOf j = Weekday.ofIdx (j % 7) := by
  induction j with
  | zero => rfl
  | succ j ih =>
    rw [weekdayOf, ih]
    have h : j % 7 = 0 ∨ j % 7 = 1 ∨ j % 7 = 2 ∨ j % 7 = 3 ∨ j % 7 = 4 ∨ j % 7 = 5 ∨ j % 7 = 6 := by
      omega
    rcases h with h | h | h | h | h | h | h
    · have : (j + 1) % 7 = 1 := by omega
      rw [h, this]; rfl
    · have : (j + 1) % 7 = 2 := by omega
      rw [h, this]; rfl
    · have : (j + 1) % 7 = 3 := by omega
      rw [h, this]; rfl
    · have : (j + 1) % 7 = 4 := by omega
      rw [h, this]; rfl
    · have : (j + 1) % 7 = 5 := by omega
      rw [h, this]; rfl
    · have : (j + 1) % 7 = 6 := by omega
      rw [h, this]; rfl
    · have : (j + 1) % 7 = 0 := by omega
      rw [h, this]; rfl

end Uwg
