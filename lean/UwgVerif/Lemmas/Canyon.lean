/-
Helper lemmas for C13 (canyon radiation). Property theorems live in `Props/C13.lean`.
-/
import UwgVerif.Model.Canyon
import Mathlib.Tactic.Ring
import Mathlib.Tactic.FieldSimp
import Mathlib.Tactic.Linarith
import Mathlib.Tactic.LinearCombination
import Mathlib.Tactic.NormNum
import Mathlib.Tactic.Positivity

namespace Uwg.Canyon
variable {K : Type} [Field K] [LinearOrder K] [IsStrictOrderedRing K]

/-! ### view factors -/

theorem root_gt (a s : K) (hs : s * s = a * a + 1) (hs0 : 0 ≤ s) : a < s := by
  by_contra h
  have h' : s ≤ a := not_lt.mp h
  have : s * s ≤ a * a := mul_self_le_mul_self hs0 h'
  linarith

theorem root_lt (a s : K) (ha : 0 < a) (hs : s * s = a * a + 1) : s < a + 1 := by
  by_contra h
  have h' : a + 1 ≤ s := not_lt.mp h
  have : (a + 1) * (a + 1) ≤ s * s := mul_self_le_mul_self (by linarith) h'
  nlinarith

theorem root_gt_one (a s : K) (ha : 0 < a) (hs : s * s = a * a + 1) (hs0 : 0 ≤ s) : 1 < s := by
  by_contra h
  have h' : s ≤ 1 := not_lt.mp h
  have : s * s ≤ 1 * 1 := mul_self_le_mul_self hs0 h'
  nlinarith

/-! ### what a successful `ucmGeometry` returns -/

omit [IsStrictOrderedRing K] in
theorem ucmGeometry_ok {S : Sym K} {h dens vth tree veg : K} {g : Geom K}
    (hg : ucmGeometry S h dens vth tree veg = .ok g) :
    g.canWidth ≠ 0 ∧ g.canAspect ≠ 0 ∧ g.canAspect = h / g.canWidth ∧
    g.roadConf = roadConfOf (S.rpow (g.canAspect ^ 2 + 1) (1 / 2)) g.canAspect ∧
    g.wallConf = wallConfOf (S.rpow (g.canAspect ^ 2 + 1) (1 / 2)) g.canAspect ∧
    g.roadShad = min (tree / (1 - dens)) 1 := by
  unfold ucmGeometry at hg
  simp only at hg
  split_ifs at hg with h1 h2 h3 h4 h5 h6
  cases hg
  exact ⟨h5, h6, rfl, rfl, rfl, rfl⟩

/-! ### reflection closure: denominators and radiosities -/

section closure
variable {Ψr Ψw αr αw R B : K}

theorem frImpl_pos (hΨr1 : Ψr ≤ 1) (hΨw : 0 < Ψw) (hΨw2 : 2 * Ψw ≤ 1)
    (hαr : 0 ≤ αr) (hαw : 0 ≤ αw) (hαw1 : αw ≤ 1) : 0 < frImpl Ψr Ψw αr αw := by
  unfold frImpl
  have h1 : (1 - 2 * Ψw) * αw ≤ (1 - 2 * Ψw) * 1 :=
    mul_le_mul_of_nonneg_left hαw1 (by linarith)
  have h2 : 0 ≤ (1 - Ψr) * Ψw * αr * αw := by
    have : 0 ≤ 1 - Ψr := by linarith
    positivity
  linarith

theorem frSpec_pos (hΨr : 0 ≤ Ψr) (hΨr1 : Ψr ≤ 1) (hΨw : 0 < Ψw) (hΨw2 : 2 * Ψw ≤ 1)
    (hαr : 0 ≤ αr) (hαr1 : αr ≤ 1) (hαw : 0 ≤ αw) (hαw1 : αw ≤ 1) :
    0 < frSpec Ψr Ψw αr αw := by
  unfold frSpec
  -- (1-2Ψw)αw + (1-Ψr)Ψw αr αw ≤ αw((1-2Ψw) + Ψw) = αw (1-Ψw) ≤ 1 - Ψw < 1
  have h0 : 0 ≤ 1 - Ψr := by linarith
  have h1 : (1 - Ψr) * Ψw * αr * αw ≤ 1 * Ψw * 1 * αw := by
    have a1 : (1 - Ψr) * Ψw ≤ 1 * Ψw := mul_le_mul_of_nonneg_right (by linarith) hΨw.le
    have a2 : (1 - Ψr) * Ψw * αr ≤ 1 * Ψw * 1 :=
      mul_le_mul a1 hαr1 hαr (by linarith)
    exact mul_le_mul_of_nonneg_right a2 hαw
  have h2 : (1 - Ψw) * αw ≤ (1 - Ψw) * 1 := mul_le_mul_of_nonneg_left hαw1 (by linarith)
  nlinarith

theorem mw_nonneg (cl : Closure) (hfr : 0 < frOf cl Ψr Ψw αr αw) (hΨw : 0 ≤ Ψw)
    (hαr : 0 ≤ αr) (hαw : 0 ≤ αw) (hR : 0 ≤ R) (hB : 0 ≤ B) :
    0 ≤ mwOf cl Ψr Ψw αr αw R B := by
  unfold mwOf
  apply div_nonneg _ hfr.le
  positivity

theorem mr_nonneg (cl : Closure) (hfr : 0 < frOf cl Ψr Ψw αr αw) (hΨr1 : Ψr ≤ 1) (hΨw : 0 ≤ Ψw)
    (hαr : 0 ≤ αr) (hαw : 0 ≤ αw) (hR : 0 ≤ R) (hB : 0 ≤ B) :
    0 ≤ mrOf cl Ψr Ψw αr αw R B := by
  have h0 : 0 ≤ 1 - Ψr := by linarith
  cases cl with
  | impl =>
    unfold mrOf
    apply div_nonneg _ (show (0 : K) ≤ frImpl Ψr Ψw αr αw from hfr.le)
    positivity
  | spec =>
    have := mw_nonneg .spec hfr hΨw hαr hαw hR hB
    unfold mrOf
    positivity

end closure

/-! ### algebraic identities with the denominator treated as an atom -/

/-- closed form of `cB` under reciprocity, with the denominator as an atom -/
theorem cB_key (a Ψr Ψw αr αw F : K) (ha : a ≠ 0) (hF : F ≠ 0)
    (hΨr : Ψr = 1 - 2 * a * Ψw)
    (hFdef : F = 1 - (1 - 2 * Ψw) * αw + (1 - Ψr) * Ψw * αr * αw) :
    ((1 - αr) * ((1 - Ψr) * αw / F) +
      (1 - αw) * (2 * a) * (1 + (1 - 2 * Ψw) * αw / F + Ψw * ((1 - Ψr) * αr * αw) / F)) / (2 * a)
     = 1 - αw * Ψw * (1 + αr * Ψr + 2 * αw * αr * (1 - Ψr)) / F := by
  subst hΨr
  field_simp
  subst hFdef
  ring

omit [LinearOrder K] [IsStrictOrderedRing K] in
/-- the wall radiosity of the closed-form solution satisfies its balance equation -/
theorem spec_key (Ψr Ψw αr αw R B F : K) (hF : F ≠ 0)
    (hFdef : F = 1 - (1 - 2 * Ψw) * αw - (1 - Ψr) * Ψw * αr * αw) :
    (αw * B + Ψw * αw * (αr * R)) / F =
      αw * (B + (1 - 2 * Ψw) * ((αw * B + Ψw * αw * (αr * R)) / F) +
        Ψw * (αr * R + (1 - Ψr) * αr * ((αw * B + Ψw * αw * (αr * R)) / F))) := by
  field_simp
  subst hFdef
  ring


end Uwg.Canyon
