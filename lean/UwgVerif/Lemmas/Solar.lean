/-
Helper lemmas for C12: unfolding of the two `solarangles` models, calendar look-ups, and the
analytic bounds (only `|cos| ≤ 1`, `|sin| ≤ 1`, `|sin x| ≤ |x|`, `1 − x²/2 ≤ cos x`, bounds on π).
-/
import UwgVerif.Model.Solar
import UwgVerif.Model.SymbolsReal
import Mathlib.Analysis.SpecialFunctions.Trigonometric.Bounds
import Mathlib.Analysis.Real.Pi.Bounds
import Mathlib.Tactic.IntervalCases
import Mathlib.Tactic.Linarith
import Mathlib.Tactic.Ring
import Mathlib.Tactic.FieldSimp
import Mathlib.Tactic.NormNum

namespace Uwg

section generic
variable {K : Type} [Field K] [LinearOrder K]

/-- A successful call of the as-coded model: the month look-up succeeded, the result is `implOut`,
    and the two divisors of the last statement are non-zero. -/
theorem solaranglesImpl_ok {S : Sym K} {inobis : List Nat} {month day secDay : Int}
    {lat lon gmt ca : K} {o : SolarOut K}
    (h : solaranglesImpl S inobis month day secDay lat lon gmt ca = .ok o) :
    ∃ ino, pyIndex inobis (month - 1) = some ino ∧
      o = implOut S ino day secDay lat lon gmt ca ∧ o.tanzen ≠ 0 ∧ ca ≠ 0 := by
  unfold solaranglesImpl at h
  split at h
  · cases h
  · split at h
    · cases h
    · rename_i ino hino
      simp only at h
      split at h
      · cases h
      · rename_i hg
        injection h with h
        refine ⟨ino, hino, h.symm, ?_, ?_⟩
        · rw [← h]; exact fun hz => hg (Or.inl hz)
        · exact fun hz => hg (Or.inr hz)

theorem solaranglesSpec_ok {S : Sym K} {month day secDay : Int}
    {lat lon tz ca : K} {o : SolarOut K}
    (h : solaranglesSpec S month day secDay lat lon tz ca = .ok o) :
    1 ≤ month ∧ month ≤ 12 ∧ o = specOut S month day secDay lat lon tz ca ∧
      o.tanzen ≠ 0 ∧ ca ≠ 0 := by
  unfold solaranglesSpec at h
  split at h
  · cases h
  · rename_i hm
    simp only at h
    split at h
    · cases h
    · rename_i hg
      injection h with h
      refine ⟨by omega, by omega, h.symm, ?_, ?_⟩
      · rw [← h]; exact fun hz => hg (Or.inl hz)
      · exact fun hz => hg (Or.inr hz)

/-- Conversely: with the standard month table the as-coded model succeeds whenever the month is
    valid and the two divisors are non-zero. -/
theorem solaranglesImpl_std (S : Sym K) (month day secDay : Int) (lat lon gmt ca : K)
    (ino : Nat) (hino : pyIndex inobisStd (month - 1) = some ino)
    (ht : (implOut S ino day secDay lat lon gmt ca).tanzen ≠ 0) (hc : ca ≠ 0) :
    solaranglesImpl S inobisStd month day secDay lat lon gmt ca =
      .ok (implOut S ino day secDay lat lon gmt ca) := by
  unfold solaranglesImpl
  have hib : ibisLoop inobisStd = some [0, 32, 60, 91, 121, 152, 182, 213, 244, 274, 305, 335] := by
    decide
  rw [hib]
  simp only [hino]
  rw [if_neg]
  rintro (h | h)
  · exact ht h
  · exact hc h

theorem solaranglesSpec_of (S : Sym K) (month day secDay : Int) (lat lon tz ca : K)
    (h1 : 1 ≤ month) (h12 : month ≤ 12)
    (ht : (specOut S month day secDay lat lon tz ca).tanzen ≠ 0) (hc : ca ≠ 0) :
    solaranglesSpec S month day secDay lat lon tz ca =
      .ok (specOut S month day secDay lat lon tz ca) := by
  unfold solaranglesSpec
  rw [if_neg (by omega)]
  simp only
  rw [if_neg]
  rintro (h | h)
  · exact ht h
  · exact hc h

end generic

/-- For a valid month the code's look-up `inobis[month-1]` in the standard table is the entry the
    specification's day-of-year uses. -/
theorem pyIndex_std (month : Int) (h1 : 1 ≤ month) (h12 : month ≤ 12) :
    pyIndex inobisStd (month - 1) = some (inobisStd.getD (month - 1).toNat 0) := by
  interval_cases month <;> rfl

/-- The code's `date` is the 1-based day of the year minus one. -/
theorem date_eq_doy_sub_one (month day : Int) (ino : Nat) (h1 : 1 ≤ month) (h12 : month ≤ 12)
    (hino : pyIndex inobisStd (month - 1) = some ino) :
    day + (ino : Int) - 1 = doySpec month day - 1 := by
  rw [pyIndex_std month h1 h12] at hino
  injection hino with hino
  unfold doySpec
  rw [hino]; ring

/-- `ut` for integer seconds: the double `% 24` is one reduction modulo a day. -/
theorem utImpl_mod {K : Type} [Field K] (secDay : Int) :
    (((86400 + secDay % 86400) % 86400 : Int) : K) / 3600 = ((secDay % 86400 : Int) : K) / 3600 := by
  have : (86400 + secDay % 86400) % 86400 = secDay % 86400 := by omega
  rw [this]

section real
open Real

/-- The spherical-law-of-cosines expression is a cosine: it lies in [−1, 1] for all angles. -/
theorem cosZenArg_real_mem (a b h : ℝ) :
    -1 ≤ cosZenArg realSym a b h ∧ cosZenArg realSym a b h ≤ 1 := by
  simp only [cosZenArg, realSym]
  have hc1 := Real.cos_le_one h
  have hc2 := Real.neg_one_le_cos h
  have h1 := Real.cos_le_one (a - b)
  have h2 := Real.neg_one_le_cos (a - b)
  have h3 := Real.cos_le_one (a + b)
  have h4 := Real.neg_one_le_cos (a + b)
  rw [Real.cos_sub] at h1 h2
  rw [Real.cos_add] at h3 h4
  constructor
  · nlinarith [mul_nonneg (by linarith : (0:ℝ) ≤ 1 + cos h) (by linarith : (0:ℝ) ≤ 1 + (cos a * cos b + sin a * sin b)),
      mul_nonneg (by linarith : (0:ℝ) ≤ 1 - cos h) (by linarith : (0:ℝ) ≤ 1 - (cos a * cos b - sin a * sin b))]
  · nlinarith [mul_nonneg (by linarith : (0:ℝ) ≤ 1 + cos h) (by linarith : (0:ℝ) ≤ 1 - (cos a * cos b + sin a * sin b)),
      mul_nonneg (by linarith : (0:ℝ) ≤ 1 - cos h) (by linarith : (0:ℝ) ≤ 1 + (cos a * cos b - sin a * sin b))]

/-- Equation of time: at most 20.51 minutes in absolute value, for ANY argument (uses only
    `|cos|, |sin| ≤ 1`). `229.18·(0.000075+0.001868+0.032077+0.01461+0.040849) = 20.5068…`. -/
theorem eqtime_real_bound (x : ℝ) : |eqtimeOf realSym x| ≤ 2051 / 100 := by
  simp only [eqtimeOf, realSym]
  have a1 := Real.cos_le_one x
  have a2 := Real.neg_one_le_cos x
  have a3 := Real.sin_le_one x
  have a4 := Real.neg_one_le_sin x
  have a5 := Real.cos_le_one (2 * x)
  have a6 := Real.neg_one_le_cos (2 * x)
  have a7 := Real.sin_le_one (2 * x)
  have a8 := Real.neg_one_le_sin (2 * x)
  rw [abs_le]
  constructor <;> linarith

/-- Declination series: at most 0.488929 rad in absolute value, for any argument. -/
theorem decsol_real_bound (x : ℝ) : |decsolOf realSym x| ≤ 488929 / 1000000 := by
  simp only [decsolOf, realSym]
  have a1 := Real.cos_le_one x
  have a2 := Real.neg_one_le_cos x
  have a3 := Real.sin_le_one x
  have a4 := Real.neg_one_le_sin x
  have a5 := Real.cos_le_one (2 * x)
  have a6 := Real.neg_one_le_cos (2 * x)
  have a7 := Real.sin_le_one (2 * x)
  have a8 := Real.neg_one_le_sin (2 * x)
  have a9 := Real.cos_le_one (3 * x)
  have a10 := Real.neg_one_le_cos (3 * x)
  have a11 := Real.sin_le_one (3 * x)
  have a12 := Real.neg_one_le_sin (3 * x)
  rw [abs_le]
  constructor <;> linarith

/-- `tan z ≠ 0` for `0 < z < π`, `z ≠ π/2` (note `Real.tan (π/2) = 0` by the division convention,
    which is why the clamp around π/2 matters for this lemma). -/
theorem tan_ne_zero_of_mem {z : ℝ} (h0 : 0 < z) (hpi : z < π) (hne : z ≠ π / 2) : tan z ≠ 0 := by
  rw [Real.tan_eq_sin_div_cos]
  have hs : 0 < sin z := Real.sin_pos_of_pos_of_lt_pi h0 hpi
  have hc : cos z ≠ 0 := by
    intro hc
    apply hne
    have : cos z = cos (π / 2) := by rw [hc, Real.cos_pi_div_two]
    exact Real.injOn_cos ⟨h0.le, hpi.le⟩ ⟨by positivity, by linarith [Real.pi_pos]⟩ this
  exact div_ne_zero hs.ne' hc

/-- `tanzenOf` at the real symbols, with the projections of `realSym` evaluated. -/
theorem tanzenOf_real (z : ℝ) : tanzenOf realSym z =
    if |1 / 2 * π - z| < 1 / 1000000 then
      if 1 / 2 * π - z > 0 then tan (1 / 2 * π - 1 / 1000000) else tan (1 / 2 * π + 1 / 1000000)
    else if |z| < 1 / 1000000 then 1 / 1000000 else tan z := rfl

/-- The clamped tangent never vanishes for a zenith angle in `[0, π)`: the clamps remove exactly
    the points where `1/tanzen` would fail (zenith 0) or blow up (π/2). -/
theorem tanzen_real_ne_zero {z : ℝ} (h0 : 0 ≤ z) (hpi : z < π) : tanzenOf realSym z ≠ 0 := by
  have hpi3 := Real.pi_gt_three
  rw [tanzenOf_real]
  by_cases h1 : |1 / 2 * π - z| < 1 / 1000000
  · rw [if_pos h1]
    by_cases h2 : 1 / 2 * π - z > 0
    · rw [if_pos h2]
      -- tan(π/2 − 1e-6) > 0
      have : 0 < tan (1 / 2 * π - 1 / 1000000) :=
        Real.tan_pos_of_pos_of_lt_pi_div_two (by linarith) (by linarith)
      exact this.ne'
    · rw [if_neg h2]
      -- tan(π/2 + 1e-6) = (tan(−1e-6))⁻¹ = −(tan 1e-6)⁻¹ ≠ 0
      have e : (1 / 2 * π + 1 / 1000000 : ℝ) = π / 2 - (-(1 / 1000000)) := by ring
      rw [e, Real.tan_pi_div_two_sub, Real.tan_neg]
      have : 0 < tan (1 / 1000000 : ℝ) :=
        Real.tan_pos_of_pos_of_lt_pi_div_two (by norm_num) (by linarith)
      exact inv_ne_zero (neg_ne_zero.mpr this.ne')
  · rw [if_neg h1]
    by_cases h3 : |z| < 1 / 1000000
    · rw [if_pos h3]; norm_num
    · rw [if_neg h3]
      have hz : 0 < z := by
        rcases h0.lt_or_eq with h | h
        · exact h
        · exfalso; apply h3; rw [← h]; norm_num
      apply tan_ne_zero_of_mem hz hpi
      intro hh
      apply h1
      rw [hh]
      have : (1 / 2 * π - π / 2 : ℝ) = 0 := by ring
      rw [this]; norm_num

end real
end Uwg
