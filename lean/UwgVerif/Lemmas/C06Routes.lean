/-
C06 — order independence of a run of property setters (the proof of T4): what a successful run stores,
and when a run succeeds, do not depend on the order in which the parameters are assigned.
-/
import UwgVerif.Lemmas.C06RoundTrip

namespace Uwg.C06
open Uwg.Gen

/-- the value a setter stores for the raw value `val n` (`null` if it rejects it) -/
def nvOf (val : Str → J) (n : Str) : J :=
  match norm (kindOf n) (val n) with
  | .ok v => v
  | .error _ => .null

/-- `a + b + n <= 1` on the raw values -/
def CoverSum (val : Str → J) (a b n : Str) : Prop :=
  ∃ p q r, numView (val a) = some p ∧ numView (val b) = some q ∧ numView (val n) = some r ∧
    p + q + r ≤ 1

/-- invariant of a successful run: every name assigned so far normalised, and every cover triple that
    is completely assigned satisfies its sum (in the order of the setter of each of its members) -/
def CovInv (val : Str → J) (seen : List Str) : Prop :=
  (∀ n ∈ seen, norm (kindOf n) (val n) = .ok (nvOf val n)) ∧
  ∀ n a b, n ∈ seen → a ∈ seen → b ∈ seen → kindOf n = .cover a b → CoverSum val a b n

/-- facts about the cover setters read off the generated table -/
def coverClosedB : Bool :=
  paramList.all (fun n =>
    match kindOf n with
    | .cover a b =>
      decide (a ∈ paramList) && decide (b ∈ paramList) && decide (a ≠ b) && decide (a ≠ n) &&
      decide (b ≠ n) &&
      (decide (kindOf a = .cover n b) || decide (kindOf a = .cover b n)) &&
      (decide (kindOf b = .cover n a) || decide (kindOf b = .cover a n))
    | _ => true)

structure TableFacts : Prop where
  ok : tableOK = true
  closed : coverClosedB = true
  names : setterKinds.map Prod.fst = paramList
  optKind : ∀ n ∈ optionalSet, ∃ k, kindOf n = .opt k
  optInit : ∀ n, n ∈ optionalSet ↔ n ∈ initNone
  optMem : ∀ n ∈ optionalSet, n ∈ paramList
  kwMem : ∀ n ∈ kwargsOrder, n ∈ paramList
  kwIff : ∀ n ∈ paramList, n ∈ kwargsOrder ↔ n ∉ optionalSet

theorem kindOf_mem {n : Str} (tf : TableFacts) (h : kindOf n ≠ .unknown) : n ∈ paramList := by
  unfold kindOf at h
  cases hl : alookup n setterKinds with
  | none => simp [hl] at h
  | some k =>
    rw [← tf.names]
    exact List.mem_map_of_mem (f := Prod.fst) (alookup_mem hl)

theorem cover_closure (tf : TableFacts) {n a b : Str} (hk : kindOf n = .cover a b) :
    n ∈ paramList ∧ a ∈ paramList ∧ b ∈ paramList ∧ a ≠ b ∧ a ≠ n ∧ b ≠ n ∧
    (kindOf a = .cover n b ∨ kindOf a = .cover b n) ∧
    (kindOf b = .cover n a ∨ kindOf b = .cover a n) := by
  have hn : n ∈ paramList := kindOf_mem tf (by rw [hk]; intro h; cases h)
  have := tf.closed
  simp only [coverClosedB, List.all_eq_true] at this
  have h := this n hn
  rw [hk] at h
  simp only [Bool.and_eq_true, Bool.or_eq_true, decide_eq_true_eq] at h
  obtain ⟨⟨⟨⟨⟨⟨h1, h2⟩, h3⟩, h4⟩, h5⟩, h6⟩, h7⟩ := h
  exact ⟨hn, h1, h2, h3, h4, h5, h6, h7⟩

theorem norm_cover_id {a b : Str} {v v' : J} (h : norm (.cover a b) v = .ok v') : v' = v :=
  (checkRange_eq_ok h).1

/-- for a cover-kind name whose raw value normalises, stored = raw -/
theorem nvOf_cover {val : Str → J} {n a b : Str} (hk : kindOf n = .cover a b)
    (hn : norm (kindOf n) (val n) = .ok (nvOf val n)) : nvOf val n = val n := by
  rw [hk] at hn
  exact norm_cover_id hn

/-! ### what a successful setter call tells -/

theorem map_eq_ok {α β : Type} {x : Except Err α} {f : α → β} {y : β} (h : x.map f = .ok y) :
    ∃ a, x = .ok a ∧ y = f a := by
  cases x with
  | error e => cases h
  | ok a => cases h; exact ⟨a, rfl, rfl⟩

theorem setParam_result {k : Kind} {n : Str} {st st' : St} {v : J}
    (h : setParam k n st v = .ok st') : ∃ v', norm k v = .ok v' ∧ st' = aset n v' st := by
  by_cases hc : ∃ a b, k = .cover a b
  · obtain ⟨a, b, rfl⟩ := hc
    simp only [setParam] at h
    split at h
    · split at h
      · split at h
        · exact map_eq_ok h
        · cases h
      · cases h
    · exact map_eq_ok h
  · rw [setParam_noncover (fun a b hk => hc ⟨a, b, hk⟩)] at h
    exact map_eq_ok h

theorem setParam_cover_checked {a b n : Str} {st st' : St} {v x y : J}
    (h : setParam (.cover a b) n st v = .ok st') (ha : alookup a st = some x)
    (hb : alookup b st = some y) :
    ∃ p q r, numView x = some p ∧ numView y = some q ∧ numView v = some r ∧ p + q + r ≤ 1 := by
  simp only [setParam, ha, hb] at h
  split at h
  · rename_i p q r hp hq hr
    split at h
    · rename_i hsum; exact ⟨p, q, r, hp, hq, hr, hsum⟩
    · cases h
  · cases h

/-! ### Lemma A: a successful run -/

theorem covInv_step (tf : TableFacts) (val : Str → J) (m : Str) (st st1 : St) (seen : List Str)
    (hinv : StInv (nvOf val) seen st) (hcov : CovInv val seen)
    (hset : setParam (kindOf m) m st (val m) = .ok st1)
    (hnorm : norm (kindOf m) (val m) = .ok (nvOf val m)) :
    CovInv val (m :: seen) := by
  obtain ⟨c1, c2⟩ := hcov
  have c1' : ∀ n ∈ m :: seen, norm (kindOf n) (val n) = .ok (nvOf val n) := by
    intro n hn
    rcases List.mem_cons.mp hn with rfl | hn
    · exact hnorm
    · exact c1 n hn
  refine ⟨c1', ?_⟩
  intro n a b hn ha hb hk
  obtain ⟨_, _, _, hab, han, hbn, hka, hkb⟩ := cover_closure tf hk
  -- stored value of an already assigned cover name = its raw value, as a number
  have stored : ∀ x ∈ seen, (∃ y z, kindOf x = .cover y z) →
      alookup x st = some (val x) := by
    intro x hx ⟨y, z, hkx⟩
    rw [hinv x, if_pos hx, nvOf_cover hkx (c1 x hx)]
  have kn : ∃ y z, kindOf n = .cover y z := ⟨a, b, hk⟩
  have ka : ∃ y z, kindOf a = .cover y z := by rcases hka with h | h <;> exact ⟨_, _, h⟩
  have kb : ∃ y z, kindOf b = .cover y z := by rcases hkb with h | h <;> exact ⟨_, _, h⟩
  by_cases hall : n ∈ seen ∧ a ∈ seen ∧ b ∈ seen
  · exact c2 n a b hall.1 hall.2.1 hall.2.2 hk
  · have inSeen : ∀ x, x ∈ m :: seen → x ≠ m → x ∈ seen := by
      intro x hx hne
      rcases List.mem_cons.mp hx with h | h
      · exact absurd h hne
      · exact h
    by_cases hnm : n = m
    · -- the setter of `n` itself ran the test
      subst hnm
      have ha' : a ∈ seen := inSeen a ha han
      have hb' : b ∈ seen := inSeen b hb hbn
      rw [hk] at hset
      obtain ⟨p, q, r, hp, hq, hr, hs⟩ :=
        setParam_cover_checked hset (stored a ha' ka) (stored b hb' kb)
      exact ⟨p, q, r, hp, hq, hr, hs⟩
    · have hn' : n ∈ seen := inSeen n hn hnm
      by_cases ham : a = m
      · subst ham
        have hb' : b ∈ seen := inSeen b hb (fun h => hab h.symm)
        rcases hka with h | h
        · rw [h] at hset
          obtain ⟨p, q, r, hp, hq, hr, hs⟩ :=
            setParam_cover_checked hset (stored n hn' kn) (stored b hb' kb)
          exact ⟨r, q, p, hr, hq, hp, by grind⟩
        · rw [h] at hset
          obtain ⟨p, q, r, hp, hq, hr, hs⟩ :=
            setParam_cover_checked hset (stored b hb' kb) (stored n hn' kn)
          exact ⟨r, p, q, hr, hp, hq, by grind⟩
      · have ha' : a ∈ seen := inSeen a ha ham
        have hbm : b = m := by
          by_cases hbm : b = m
          · exact hbm
          · exact absurd ⟨hn', ha', inSeen b hb hbm⟩ hall
        subst hbm
        rcases hkb with h | h
        · rw [h] at hset
          obtain ⟨p, q, r, hp, hq, hr, hs⟩ :=
            setParam_cover_checked hset (stored n hn' kn) (stored a ha' ka)
          exact ⟨q, r, p, hq, hr, hp, by grind⟩
        · rw [h] at hset
          obtain ⟨p, q, r, hp, hq, hr, hs⟩ :=
            setParam_cover_checked hset (stored a ha' ka) (stored n hn' kn)
          exact ⟨p, r, q, hp, hr, hq, by grind⟩

theorem runSetters_inv (tf : TableFacts) (src : Str → Except Err J) (val : Str → J) (ns : List Str) :
    ∀ (st st' : St) (seen : List Str),
    (∀ n ∈ ns, src n = .ok (val n)) →
    runSetters src ns st = .ok st' → StInv (nvOf val) seen st → CovInv val seen →
    StInv (nvOf val) (ns.reverse ++ seen) st' ∧ CovInv val (ns.reverse ++ seen) := by
  induction ns with
  | nil =>
    intro st st' seen _ hr hinv hcov
    simp only [runSetters] at hr
    cases hr
    simpa using ⟨hinv, hcov⟩
  | cons m ns ih =>
    intro st st' seen hsrc hr hinv hcov
    have hm := hsrc m (by simp)
    unfold runSetters at hr
    rw [hm] at hr
    simp only at hr
    split at hr
    · cases hr
    · rename_i st1 hset
      obtain ⟨v', hnv, hst1⟩ := setParam_result hset
      have hnorm : norm (kindOf m) (val m) = .ok (nvOf val m) := by
        simp [nvOf, hnv]
      have hv' : v' = nvOf val m := by simp [nvOf, hnv]
      subst hst1
      rw [hv'] at hset
      have hinv1 : StInv (nvOf val) (m :: seen) (aset m (nvOf val m) st) :=
        StInv_step (nvOf val) m st seen hinv
      have hcov1 := covInv_step tf val m st _ seen hinv hcov hset hnorm
      have := ih (aset m (nvOf val m) st) st' (m :: seen) (fun x hx => hsrc x (by simp [hx]))
        (by rw [hv'] at hr; exact hr) hinv1 hcov1
      simpa using this

end Uwg.C06

namespace Uwg.C06
open Uwg.Gen

theorem initSt_lookup (n : Str) : alookup n initSt = if n ∈ initNone then some .null else none := by
  simp only [initSt]
  exact alookup_map_self (fun _ => J.null) initNone n

theorem CovInv_nil (val : Str → J) : CovInv val [] := by
  constructor
  · intro n hn; cases hn
  · intro n a b hn; cases hn

theorem nvOf_opt_null (tf : TableFacts) {val : Str → J} {n : Str} (ho : n ∈ optionalSet)
    (hv : val n = .null) : norm (kindOf n) (val n) = .ok (nvOf val n) ∧ nvOf val n = .null := by
  obtain ⟨k, hk⟩ := tf.optKind n ho
  have : norm (kindOf n) (val n) = .ok .null := by rw [hk, hv]; simp [norm]
  simp [nvOf, this]

/-- cover hypothesis of Lemma B from the invariant of Lemma A -/
theorem coverOK_of_covInv (tf : TableFacts) (val : Str → J) (seen : List Str) (hcov : CovInv val seen)
    {n a b : Str} (hk : kindOf n = .cover a b) (hn : n ∈ seen) (ha : a ∈ seen) (hb : b ∈ seen) :
    CoverOK (nvOf val) val a b n := by
  obtain ⟨c1, c2⟩ := hcov
  obtain ⟨_, _, _, _, _, _, hka, hkb⟩ := cover_closure tf hk
  obtain ⟨p, q, r, hp, hq, hr, hs⟩ := c2 n a b hn ha hb hk
  have ea : nvOf val a = val a := by
    rcases hka with h | h <;> exact nvOf_cover h (c1 a ha)
  have eb : nvOf val b = val b := by
    rcases hkb with h | h <;> exact nvOf_cover h (c1 b hb)
  exact ⟨p, q, r, by rw [ea]; exact hp, by rw [eb]; exact hq, hr, hs⟩

theorem not_optional_of_cover (tf : TableFacts) {n a b : Str} (hk : kindOf n = .cover a b) :
    n ∉ optionalSet := by
  intro ho
  obtain ⟨k, hk'⟩ := tf.optKind n ho
  rw [hk] at hk'
  cases hk'

section
variable (tf : TableFacts) (val : Str → J) (srcD srcK srcX : Str → Except Err J) (xs : List Str)
  (hD : ∀ n ∈ paramList, srcD n = .ok (val n)) (hK : ∀ n ∈ kwargsOrder, srcK n = .ok (val n))
  (hX : ∀ n ∈ xs, srcX n = .ok (val n)) (hxs : ∀ n ∈ xs, n ∈ optionalSet)
  (hnull : ∀ n ∈ optionalSet, n ∉ xs → val n = .null)
include tf hD hK hX hxs hnull

omit hD hK hX hxs in
/-- same record: the attribute table after the dictionary order and after the keyword order -/
theorem same_after (st1 sb : St) (h1 : StInv (nvOf val) (paramList.reverse ++ []) st1)
    (h2 : StInv (nvOf val) (xs.reverse ++ (kwargsOrder.reverse ++ [])) sb) :
    ∀ n ∈ paramList, alookup n st1 = alookup n sb := by
  intro n hn
  rw [h1 n, h2 n]
  have e1 : n ∈ paramList.reverse ++ [] := by simpa using hn
  rw [if_pos e1]
  by_cases hin : n ∈ xs.reverse ++ (kwargsOrder.reverse ++ [])
  · rw [if_pos hin]
  · rw [if_neg hin]
    have hx : n ∉ xs := fun h => hin (by simp [h])
    have hk : n ∉ kwargsOrder := fun h => hin (by simp [h])
    have ho : n ∈ optionalSet := by
      by_cases ho : n ∈ optionalSet
      · exact ho
      · exact absurd ((tf.kwIff n hn).2 ho) hk
    rw [initSt_lookup, if_pos ((tf.optInit n).1 ho), (nvOf_opt_null tf ho (hnull n ho hx)).2]

theorem dict_to_kwargs (st1 : St) (h : runSetters srcD paramList initSt = .ok st1) :
    ∃ sa sb, runSetters srcK kwargsOrder initSt = .ok sa ∧ runSetters srcX xs sa = .ok sb ∧
      ∀ n ∈ paramList, alookup n st1 = alookup n sb := by
  obtain ⟨hinv1, hcov1⟩ := runSetters_inv tf srcD val paramList initSt st1 [] hD h (StInv_init _)
    (CovInv_nil _)
  have memP : ∀ n, n ∈ paramList → n ∈ paramList.reverse ++ [] := by intro n hn; simpa using hn
  have c1 := hcov1.1
  obtain ⟨sa, hra, hinva⟩ := runSetters_ok srcK val (nvOf val) kwargsOrder initSt []
    (fun n hn => ⟨hK n hn, c1 n (memP n (tf.kwMem n hn))⟩)
    (fun n hn a b hk => by
      obtain ⟨ha, hb⟩ := tableOK_cover tf.ok (tf.kwMem n hn) hk
      obtain ⟨hn', ha', hb', _⟩ := cover_closure tf hk
      exact ⟨ha, hb, coverOK_of_covInv tf val _ hcov1 hk (memP n hn') (memP a ha') (memP b hb')⟩)
    (StInv_init _)
  obtain ⟨sb, hrb, hinvb⟩ := runSetters_ok srcX val (nvOf val) xs sa (kwargsOrder.reverse ++ [])
    (fun n hn => ⟨hX n hn, c1 n (memP n (tf.optMem n (hxs n hn)))⟩)
    (fun n hn a b hk => absurd (hxs n hn) (not_optional_of_cover tf hk))
    hinva
  exact ⟨sa, sb, hra, hrb, same_after tf val xs hnull st1 sb hinv1 hinvb⟩

omit hxs in
theorem kwargs_to_dict (sa sb : St) (ha : runSetters srcK kwargsOrder initSt = .ok sa)
    (hb : runSetters srcX xs sa = .ok sb) :
    ∃ st1, runSetters srcD paramList initSt = .ok st1 ∧
      ∀ n ∈ paramList, alookup n st1 = alookup n sb := by
  obtain ⟨hinva, hcova⟩ := runSetters_inv tf srcK val kwargsOrder initSt sa [] hK ha (StInv_init _)
    (CovInv_nil _)
  obtain ⟨hinvb, hcovb⟩ := runSetters_inv tf srcX val xs sa sb _ hX hb hinva hcova
  have memK : ∀ n, n ∈ kwargsOrder → n ∈ xs.reverse ++ (kwargsOrder.reverse ++ []) := by
    intro n hn; simp [hn]
  have memX : ∀ n, n ∈ xs → n ∈ xs.reverse ++ (kwargsOrder.reverse ++ []) := by
    intro n hn; simp [hn]
  have c1 := hcovb.1
  have kwOfCover : ∀ {n a b : Str}, kindOf n = .cover a b → n ∈ kwargsOrder := by
    intro n a b hk
    obtain ⟨hn, _⟩ := cover_closure tf hk
    exact (tf.kwIff n hn).2 (not_optional_of_cover tf hk)
  obtain ⟨st1, hr1, hinv1⟩ := runSetters_ok srcD val (nvOf val) paramList initSt []
    (fun n hn => ⟨hD n hn, by
      by_cases hk : n ∈ kwargsOrder
      · exact c1 n (memK n hk)
      · by_cases hx : n ∈ xs
        · exact c1 n (memX n hx)
        · have ho : n ∈ optionalSet := by
            by_cases ho : n ∈ optionalSet
            · exact ho
            · exact absurd ((tf.kwIff n hn).2 ho) hk
          exact (nvOf_opt_null tf ho (hnull n ho hx)).1⟩)
    (fun n hn a b hk => by
      obtain ⟨ha0, hb0⟩ := tableOK_cover tf.ok hn hk
      obtain ⟨_, _, _, _, _, _, hka, hkb⟩ := cover_closure tf hk
      have ka : a ∈ kwargsOrder := by rcases hka with h | h <;> exact kwOfCover h
      have kb : b ∈ kwargsOrder := by rcases hkb with h | h <;> exact kwOfCover h
      exact ⟨ha0, hb0, coverOK_of_covInv tf val _ hcovb hk (memK n (kwOfCover hk)) (memK a ka)
        (memK b kb)⟩)
    (StInv_init _)
  exact ⟨st1, hr1, same_after tf val xs hnull st1 sb hinv1 hinvb⟩
end

end Uwg.C06
