/-
Helper lemmas for composition C (`Props/Step.lean`): taking a successful pass of `Step.step` apart
(`step_ok_inv`: the results of all stages, post-state = `assemble` of them), what the per-building blocks
leave behind, and the commutation of every stage with the erasure of vegetation data outside the season
(`…_bare`). Property theorems live in `Props/Step.lean`.
-/
import UwgVerif.Model.Step
import UwgVerif.Props.C18
import UwgVerif.Props.SurfFluxEnergy

namespace Uwg.StepProps
open Uwg Uwg.Step Uwg.Sim

variable {K : Type} [Field K] [LinearOrder K] [IsStrictOrderedRing K]

/-! ## Taking a successful step apart -/

theorem bind_ok {α β : Type} {x : Except Err α} {f : α → Except Err β} {b : β} :
    (x >>= f) = .ok b ↔ ∃ a, x = .ok a ∧ f a = .ok b := by
  cases x with
  | error e => simp [bind, Except.bind]
  | ok a => simp [bind, Except.bind]

theorem ensure_ok {c : Prop} [Decidable c] {e : Err} {u : Unit} : ensure c e = .ok u ↔ c := by
  unfold ensure
  split_ifs with h <;> simp [h]

theorem lift_ok {ε α : Type} {f : ε → Err} {x : Except ε α} {a : α} (h : lift f x = .ok a) :
    x = .ok a := by
  cases x with
  | error e => simp [lift] at h
  | ok b => simpa [lift] using h

/-- The results of the stages of a pass that returned. -/
structure Stages (S : Sym K) (C : Cfg K) (s : State K) (t : StepTrace) (r : FRow K) (d : Deep K)
    where
  sol : Canyon.SolarOut K
  tr : K
  blds1 : List (Bld K)
  rural : Elem K
  rsm : Rsm.VdmOut K
  hd : List (Bld K) × HeadAcc K
  road : Elem K
  roadT : K
  tl : Urb.UrbOut K
  ab : List (Air.Bld K)
  uc : Air.UcmOut K
  ub : Air.UblOut K
  psy : Option (PsyOut K)
  hsol : solarStage S C t (forcOf C.par.windMin r d) s.ucm.road = .ok sol
  htr : look C.schtraffic (dayIdx t) t.hourDay = .ok tr
  hglue : glueAll C (dayIdx t) t.hourDay sol.roofRec sol.wallRec C.sch s.blds = .ok blds1
  hrural : ruralStage C t (forcOf C.par.windMin r d) sol.ruralRec s.rural = .ok rural
  hrsm : vdmStage S C (forcOf C.par.windMin r d) rural.sens s.rsm = .ok rsm
  hhd : headAll S C t (forcOf C.par.windMin r d) s.ucm.canTemp (forcOf C.par.windMin r d).hum
    s.ucm.canWind s.ucm.roadTemp s.ucm.road.emissivity { wallTemp := 0, roofTemp := 0, eWall := none }
    blds1 = .ok hd
  hroad : roadStage C t (forcOf C.par.windMin r d) sol.roadRec s.ucm.canTemp
    (forcOf C.par.windMin r d).hum s.ucm.canWind s.ucm.roadTemp hd.2 s.ucm.road = .ok road
  hroadT : road.t0 = .ok roadT
  htl : Urb.urbTail S (urbIn C (forcOf C.par.windMin r d) s.ucm s.ubl rsm) = .ok tl
  hab : airBlds hd.1 = .ok ab
  huc : Air.ucModel (ucmIn C (forcOf C.par.windMin r d) s.ucm.canTemp s.ubl.ublTemp roadT
    road.aeroCond tl.uExch (C.sensanth * tr) sol.treeSens) ab = .ok uc
  hub : Air.ublModel S.rpow (ublIn C t (forcOf C.par.windMin r d) uc.sensHeat uc.qUbl rural.sens s.ubl
    rsm) = .ok ub
  hpsy : recordStage S t.recorded uc.canTemp (forcOf C.par.windMin r d).hum
    (forcOf C.par.windMin r d).pres = .ok psy

/-- The post-state of a pass with these stage results. -/
def Stages.post {S : Sym K} {C : Cfg K} {s : State K} {t : StepTrace} {r : FRow K} {d : Deep K}
    (st : Stages S C s t r d) : State K :=
  assemble C s (forcOf C.par.windMin r d) st.sol (C.sensanth * st.tr) st.rural st.rsm st.hd.1 st.road
    st.roadT st.tl st.uc st.ub st.psy

/-- A pass that returns went through every stage, and its post-state is `assemble` of their results. -/
theorem step_ok_inv {S : Sym K} {C : Cfg K} {s s' : State K} {t : StepTrace} {r : FRow K} {d : Deep K}
    (h : step S C s t r d = .ok s') : ∃ st : Stages S C s t r d, s' = st.post := by
  unfold step at h
  simp only [bind_ok] at h
  obtain ⟨sol, hsol, tr, htr, blds1, hglue, rural, hrural, rsm, hrsm, hd, hhd, road, hroad, roadT,
    hroadT, tl, htl, ab, hab, uc, huc, ub, hub, psy, hpsy, hfin⟩ := h
  exact ⟨{ sol := sol, tr := tr, blds1 := blds1, rural := rural, rsm := rsm, hd := hd, road := road,
           roadT := roadT, tl := tl, ab := ab, uc := uc, ub := ub, psy := psy, hsol := hsol,
           htr := htr, hglue := hglue, hrural := hrural, hrsm := hrsm, hhd := hhd, hroad := hroad,
           hroadT := hroadT, htl := lift_ok htl, hab := hab, huc := lift_ok huc, hub := lift_ok hub,
           hpsy := hpsy }, by cases hfin; rfl⟩

/-- What the per-building block of the loop body leaves on a building. -/
theorem glueBld_ok {C : Cfg K} {di hi : Nat} {rr wr : K} {sc : Sched K} {b b' : Bld K}
    (h : glueBld C di hi rr wr sc b = .ok b') :
    0 ≤ b'.light + b'.elec + b'.qocc ∧ b'.intHeatDay = b'.light + b'.elec + b'.qocc ∧
    b'.intHeatNight = b'.intHeatDay ∧ 0 ≤ b'.intHeatFLat ∧ 0 ≤ b'.vent ∧
    (b'.intHeatFRad, b'.intHeatFLat) =
      Sim.loadFractions b'.light b'.elec b'.qocc b'.nocc C.radflight C.radfequip C.latfocc C.sensocc ∧
    b'.coolSetNight = b'.coolSetDay ∧ b'.heatSetNight = b'.heatSetDay := by
  unfold glueBld at h
  simp only [bind_ok, ensure_ok] at h
  obtain ⟨cool, _, heat, _, fe, _, fl, _, fo, _, fs, _, _, g1, fg, _, _, g2, _, g3, twx, _, twi, _,
    trx, _, tri, _, hfin⟩ := h
  cases hfin
  exact ⟨g2, rfl, rfl, g3, g1, rfl, rfl, rfl⟩

theorem glueAll_mem {C : Cfg K} {di hi : Nat} {rr wr : K} :
    ∀ {scs : List (Sched K)} {bs bs' : List (Bld K)}, glueAll C di hi rr wr scs bs = .ok bs' →
      ∀ b' ∈ bs', ∃ sc b, glueBld C di hi rr wr sc b = .ok b'
  | scs, [], bs', h => by
    cases scs <;> (simp only [glueAll, Except.ok.injEq] at h; subst h; intro b' hb; cases hb)
  | [], _ :: _, _, h => by simp [glueAll] at h
  | sc :: scs, b :: bs, bs', h => by
    simp only [glueAll] at h
    cases h1 : glueBld C di hi rr wr sc b with
    | error e => rw [h1] at h; cases h
    | ok b1 =>
      rw [h1] at h
      cases h2 : glueAll C di hi rr wr scs bs with
      | error e => rw [h2] at h; cases h
      | ok r =>
        rw [h2] at h
        simp only [Except.ok.injEq] at h
        subst h
        intro b' hb
        rcases List.mem_cons.mp hb with rfl | hb
        · exact ⟨sc, b, h1⟩
        · exact glueAll_mem h2 b' hb

/-- `BEMCalc` with `psychrometrics` interpreted returns what `Hvac.bemCalc` returns for the relative
    humidity that `psychrometrics` computed. -/
theorem bemCalcFull_ok {S : Sym K} {i : Hvac.BemIn K} {o : Hvac.BemOut K}
    (h : bemCalcFull S i = .ok o) : ∃ phi, Hvac.bemCalc phi i = .ok o ∧ o = Hvac.bemCore phi i := by
  unfold bemCalcFull at h
  split_ifs at h with g1 g2 g3 g4 g5
  · cases hp : psychro S (Hvac.indoorTempNew i) (Hvac.indoorHumNew i) i.pres <;>
      (rw [hp] at h; cases h)
  · cases hp : psychro S (Hvac.indoorTempNew i) (Hvac.indoorHumNew i) i.pres with
    | error e => rw [hp] at h; cases h
    | ok p =>
      rw [hp] at h
      simp only [Except.ok.injEq] at h
      have g45 : ¬ (Hvac.h2 i = 0 ∨ Hvac.humDen i = 0 ∨ i.heateff = 0) := by
        rw [not_or] at g4
        simp only [not_or]
        exact ⟨g4.1, g4.2, g5⟩
      refine ⟨fun _ _ _ => p.phi, ?_, h.symm⟩
      simp only [Hvac.bemCalc, Hvac.guards, g1, g2, g3, g45, not_true_eq_false, if_false, h]

theorem headBld_out {S : Sym K} {C : Cfg K} {t : StepTrace} {f : Forcing K} {ct ch cw rt re : K}
    {b b' : Bld K} (h : headBld S C t f ct ch cw rt re b = .ok b') :
    ∃ i phi, b'.out = some (Hvac.bemCore phi i) ∧ Hvac.bemCalc phi i = .ok (Hvac.bemCore phi i) := by
  unfold headBld at h
  simp only [bind_ok] at h
  obtain ⟨_, _, tWall, _, tCeil, _, tMass, _, o, ho, _, _, _, _, _, _, _, _, _, _, hfin⟩ := h
  obtain ⟨phi, h1, h2⟩ := bemCalcFull_ok ho
  cases hfin
  exact ⟨bemIn C t f ct ch b tWall tCeil tMass, phi, by simp only [h2], by rw [← h2]; exact h1⟩

theorem headAll_mem {S : Sym K} {C : Cfg K} {t : StepTrace} {f : Forcing K} {ct ch cw rt re : K} :
    ∀ {bs : List (Bld K)} {acc : HeadAcc K} {res : List (Bld K) × HeadAcc K},
      headAll S C t f ct ch cw rt re acc bs = .ok res →
      res.1.length = bs.length ∧ ∀ b' ∈ res.1, ∃ b, headBld S C t f ct ch cw rt re b = .ok b'
  | [], acc, res, h => by
    simp only [headAll, Except.ok.injEq] at h
    subst h
    exact ⟨rfl, fun b' hb => by cases hb⟩
  | b :: bs, acc, res, h => by
    simp only [headAll] at h
    cases h1 : headBld S C t f ct ch cw rt re b with
    | error e => rw [h1] at h; cases h
    | ok b1 =>
      rw [h1] at h
      simp only at h
      cases h2 : b1.wall.t0 with
      | error e => rw [h2] at h; cases h
      | ok tw =>
        cases h3 : b1.roof.t0 with
        | error e => rw [h2, h3] at h; cases h
        | ok tr =>
          rw [h2, h3] at h
          simp only at h
          cases h4 : headAll S C t f ct ch cw rt re
              { wallTemp := acc.wallTemp + b1.frac * tw, roofTemp := acc.roofTemp + b1.frac * tr,
                eWall := some b1.wall.emissivity } bs with
          | error e => rw [h4] at h; cases h
          | ok p =>
            rw [h4] at h
            obtain ⟨r, acc'⟩ := p
            simp only [Except.ok.injEq] at h
            subst h
            obtain ⟨hl, hm⟩ := headAll_mem h4
            refine ⟨by simp [hl], fun b' hb => ?_⟩
            rcases List.mem_cons.mp hb with rfl | hb
            · exact ⟨b, h1⟩
            · exact hm b' hb

theorem glueAll_length {C : Cfg K} {di hi : Nat} {rr wr : K} :
    ∀ {scs : List (Sched K)} {bs bs' : List (Bld K)}, glueAll C di hi rr wr scs bs = .ok bs' →
      bs'.length = bs.length
  | scs, [], bs', h => by
    cases scs <;> (simp only [glueAll, Except.ok.injEq] at h; subst h; rfl)
  | [], _ :: _, _, h => by simp [glueAll] at h
  | sc :: scs, b :: bs, bs', h => by
    simp only [glueAll] at h
    cases h1 : glueBld C di hi rr wr sc b with
    | error e => rw [h1] at h; cases h
    | ok b1 =>
      rw [h1] at h
      cases h2 : glueAll C di hi rr wr scs bs with
      | error e => rw [h2] at h; cases h
      | ok r =>
        rw [h2] at h
        simp only [Except.ok.injEq] at h
        subst h
        simp [glueAll_length h2]

/-! ## Vegetation season -/

/-- Outside the vegetation season `solarcalcs` releases no vegetation heat. -/
theorem solar_offseason {S : Sym K} {C : Cfg K} {t : StepTrace} {f : Forcing K} {road : Elem K}
    {o : Canyon.SolarOut K} (h : solarStage S C t f road = .ok o)
    (hoff : t.month < C.par.vegStart ∨ t.month > C.par.vegEnd) : o.treeSens = 0 ∧ o.treeLat = 0 := by
  unfold solarStage at h
  simp only [bind_ok] at h
  obtain ⟨a, _, h2⟩ := h
  have h3 := lift_ok h2
  unfold Canyon.solarcalcs at h3
  have hoff' : ((t.month : Int) < (C.par.vegStart : Int)) ∨ ((t.month : Int) > (C.par.vegEnd : Int)) := by
    rcases hoff with h | h
    · exact .inl (by exact_mod_cast h)
    · exact .inr (by exact_mod_cast h)
  split_ifs at h3 with g1 g2 g3
  · simp only [Except.ok.injEq] at h3
    subst h3
    simp only [Canyon.sunlit, hoff', if_true, and_self]
  · simp only [Except.ok.injEq] at h3
    subst h3
    simp [Canyon.noSun]

/-- What `SurfFlux` leaves on a horizontal element outside the season. -/
theorem surfFlux_offseason {e e' : Elem K} {a : SurfArgs K} (h : e.surfFlux a = .ok e')
    (hh : e.horizontal = true) (hoff : offSeasonElement a.month a.vegStart a.vegEnd = true) :
    e'.solAbs = (1 - e.albedo) * e.solRec ∧ e'.lat = 0 ∧ e'.albedo = e.albedo ∧ e'.solRec = e.solRec := by
  unfold Elem.surfFlux at h
  cases hr : Uwg.surfFlux e.surf a with
  | error x => rw [hr] at h; cases h
  | ok r =>
    rw [hr] at h
    simp only [Except.ok.injEq] at h
    subst h
    obtain ⟨l0, bc, _, _, _, _, h1, h2, _⟩ := SurfFluxEnergy.surfFlux_ok_inv e.surf a r hr
    have hp : surfPartition e.surf a l0.t = surfFluxHorizontal true (surfIn e.surf a l0.t) := by
      unfold surfPartition
      simp only [Elem.surf, hh, if_true, hoff]
    obtain ⟨f1, f2, _⟩ := C18.off_season_formula (surfIn e.surf a l0.t)
    refine ⟨?_, ?_, rfl, rfl⟩
    · simp only [Elem.after]; rw [h1, hp, f1]; rfl
    · simp only [Elem.after]; rw [h2, hp, f2]; simp [surfIn]

/-! ## Erasing the vegetation data -/

/-- Vegetation data removed from an element. -/
def bareE (e : Elem K) : Elem K := { e with vegcoverage := 0, roadCover := none }
def bareB (b : Bld K) : Bld K := { b with mass := bareE b.mass, wall := bareE b.wall, roof := bareE b.roof }
def bareS (s : State K) : State K :=
  { s with ucm := { s.ucm with road := bareE s.ucm.road }, rural := bareE s.rural, blds := s.blds.map bareB }
def bareC (C : Cfg K) : Cfg K :=
  { C with par := { C.par with vegAlbedo := 0, treeFLat := 0, grassFLat := 0 }, treeCoverage := 0, vegcover := 0 }

def Off (C : Cfg K) (t : StepTrace) : Prop := t.month < C.par.vegStart ∨ t.month > C.par.vegEnd

theorem solar_bare {S : Sym K} {C : Cfg K} {t : StepTrace} (f : Forcing K) (road : Elem K) (hoff : Off C t) :
    solarStage S (bareC C) t f (bareE road) = solarStage S C t f road := by
  have hoff' : ((t.month : Int) < (C.par.vegStart : Int)) ∨ ((t.month : Int) > (C.par.vegEnd : Int)) := by
    rcases hoff with h | h
    · exact .inl (by exact_mod_cast h)
    · exact .inr (by exact_mod_cast h)
  unfold solarStage
  congr 1
  funext a
  congr 1
  simp only [Canyon.solarcalcs, Canyon.albRoad, Canyon.sunlit, Canyon.roadSolOf, Canyon.bldSolOf, Canyon.horSolOf, bareC, bareE, hoff', if_true]

theorem surf_bare {C : Cfg K} {t : StepTrace} (f : Forcing K) (hr tr wr bc fx : K) (e : Elem K)
    (hoff : Off C t) :
    (bareE e).surfFlux (surfArgs (bareC C) t f hr tr wr bc fx) =
      (e.surfFlux (surfArgs C t f hr tr wr bc fx)).map bareE := by
  have hO : offSeasonElement t.month C.par.vegStart C.par.vegEnd = true := by
    simp only [offSeasonElement, Bool.or_eq_true]
    rcases hoff with h | h
    · exact .inl (decide_eq_true h)
    · exact .inr (decide_eq_true h)
  have h := SurfFluxEnergy.surfflux_offseason_bare e.surf (bareE e).surf (surfArgs C t f hr tr wr bc fx)
    (surfArgs (bareC C) t f hr tr wr bc fx) ⟨rfl, rfl, rfl, rfl, rfl⟩
    ⟨rfl, rfl, rfl, rfl, rfl, rfl, rfl, rfl, rfl, rfl⟩ (.inr ⟨hO, hO⟩)
  unfold Elem.surfFlux
  rw [← h]
  cases Uwg.surfFlux e.surf (surfArgs C t f hr tr wr bc fx) with
  | error x => rfl
  | ok r => rfl


theorem map_bind {α β γ : Type} (x : Except Err α) (g : α → Except Err β) (f : β → γ) :
    (x >>= g).map f = x >>= fun a => (g a).map f := by
  cases x <;> rfl

theorem map_pure {β γ : Type} (v : β) (f : β → γ) : (pure v : Except Err β).map f = pure (f v) := rfl

theorem glueBld_bare (C : Cfg K) (di hi : Nat) (rr wr : K) (sc : Sched K) (b : Bld K) :
    glueBld (bareC C) di hi rr wr sc (bareB b) = (glueBld C di hi rr wr sc b).map bareB := by
  unfold glueBld
  simp only [map_bind, map_pure]
  rfl

theorem glueAll_bare (C : Cfg K) (di hi : Nat) (rr wr : K) :
    ∀ (scs : List (Sched K)) (bs : List (Bld K)),
      glueAll (bareC C) di hi rr wr scs (bs.map bareB) = (glueAll C di hi rr wr scs bs).map (List.map bareB)
  | scs, [] => by cases scs <;> rfl
  | [], _ :: _ => rfl
  | sc :: scs, b :: bs => by
    simp only [List.map_cons, glueAll, glueBld_bare, glueAll_bare C di hi rr wr scs bs]
    cases glueBld C di hi rr wr sc b with
    | error e => rfl
    | ok b' =>
      cases glueAll C di hi rr wr scs bs with
      | error e => rfl
      | ok r => rfl

theorem ruralStage_bare {C : Cfg K} {t : StepTrace} (f : Forcing K) (sr : K) (e : Elem K) (hoff : Off C t) :
    ruralStage (bareC C) t f sr (bareE e) = (ruralStage C t f sr e).map bareE := by
  unfold ruralStage
  simp only [map_bind]
  congr 1
  funext t0
  exact surf_bare f _ _ _ _ _ ({ e with solRec := sr, infra := f.infra - e.emissivity * C.sigma * t0 ^ 4 } : Elem K) hoff


theorem bind_congr' {α β : Type} {x : Except Err α} {g g' : α → Except Err β} (h : ∀ a, g a = g' a) :
    x >>= g = x >>= g' := by
  cases x <;> simp [bind, Except.bind, h]

theorem bind_map_congr {α α' β : Type} {x : Except Err α} {x' : Except Err α'} {m : α' → α}
    (hx : x = x'.map m) {g : α → Except Err β} {g' : α' → Except Err β} (h : ∀ a, g (m a) = g' a) :
    x >>= g = x' >>= g' := by
  subst hx
  cases x' <;> simp [bind, Except.bind, Except.map, h]

theorem headBld_bare {S : Sym K} {C : Cfg K} {t : StepTrace} (f : Forcing K) (ct ch cw rt re : K)
    (b : Bld K) (hoff : Off C t) :
    headBld S (bareC C) t f ct ch cw rt re (bareB b) =
      (headBld S C t f ct ch cw rt re b).map bareB := by
  unfold headBld
  simp only [map_bind, map_pure]
  apply bind_congr'; intro _
  apply bind_congr'; intro tWall
  apply bind_congr'; intro tCeil
  apply bind_congr'; intro tMass
  apply bind_congr'; intro o
  apply bind_congr'; intro tRoof
  apply bind_congr'; intro tWall0
  apply bind_congr'; intro massT
  apply bind_map_congr (surf_bare f ch ct (max f.wind cw) 1 o.fluxRoof
    ({ b.roof with infra := b.roof.emissivity * (f.infra - Canyon.sigma * tRoof ^ 4) } : Elem K) hoff)
  intro roof
  apply bind_map_congr (surf_bare f ch ct cw 1 o.fluxWall
    ({ b.wall with infra := (Canyon.infracalcs
      { roadConf := C.roadConf, wallConf := C.wallConf, roadShad := C.roadShad, infra := f.infra,
        eRoad := re, eWall := b.wall.emissivity, tRoad := rt, tWall := tWall0 }).2 } : Elem K) hoff)
  intro wall
  rfl


theorem headAll_bare {S : Sym K} {C : Cfg K} {t : StepTrace} (f : Forcing K) (ct ch cw rt re : K)
    (hoff : Off C t) :
    ∀ (bs : List (Bld K)) (acc : HeadAcc K),
      headAll S (bareC C) t f ct ch cw rt re acc (bs.map bareB) =
        (headAll S C t f ct ch cw rt re acc bs).map (fun p => (p.1.map bareB, p.2))
  | [], acc => rfl
  | b :: bs, acc => by
    simp only [List.map_cons, headAll, headBld_bare f ct ch cw rt re b hoff]
    cases headBld S C t f ct ch cw rt re b with
    | error e => rfl
    | ok b' =>
      simp only [Except.map]
      have e1 : (bareB b').wall.t0 = b'.wall.t0 := rfl
      have e2 : (bareB b').roof.t0 = b'.roof.t0 := rfl
      rw [e1, e2]
      cases b'.wall.t0 with
      | error e => rfl
      | ok tw =>
        cases b'.roof.t0 with
        | error e => rfl
        | ok tr =>
          simp only []
          have ih := headAll_bare (S := S) f ct ch cw rt re hoff bs
            { wallTemp := acc.wallTemp + b'.frac * tw, roofTemp := acc.roofTemp + b'.frac * tr,
              eWall := some b'.wall.emissivity }
          have e3 : (bareB b').frac = b'.frac := rfl
          have e4 : (bareB b').wall.emissivity = b'.wall.emissivity := rfl
          rw [e3, e4, ih]
          cases headAll S C t f ct ch cw rt re
            { wallTemp := acc.wallTemp + b'.frac * tw, roofTemp := acc.roofTemp + b'.frac * tr,
              eWall := some b'.wall.emissivity } bs with
          | error e => rfl
          | ok p => rfl

theorem roadStage_bare {C : Cfg K} {t : StepTrace} (f : Forcing K) (sr ct ch cw rt : K) (acc : HeadAcc K)
    (road : Elem K) (hoff : Off C t) :
    roadStage (bareC C) t f sr ct ch cw rt acc (bareE road) =
      (roadStage C t f sr ct ch cw rt acc road).map bareE := by
  unfold roadStage
  cases acc.eWall with
  | none => rfl
  | some ew =>
    exact surf_bare f ch ct cw 2 0
      ({ road with solRec := sr, infra := (Canyon.infracalcs
        { roadConf := C.roadConf, wallConf := C.wallConf, roadShad := C.roadShad, infra := f.infra,
          eRoad := road.emissivity, eWall := ew, tRoad := rt, tWall := acc.wallTemp }).1 } : Elem K) hoff

theorem airBlds_bare : ∀ (bs : List (Bld K)), airBlds (bs.map bareB) = airBlds bs
  | [] => rfl
  | b :: bs => by
    simp only [List.map_cons, airBlds, airBlds_bare bs]
    rfl


theorem bind_congr_left {α β : Type} {x x' : Except Err α} (hx : x = x') {g g' : α → Except Err β}
    (h : ∀ a, g a = g' a) : x >>= g = x' >>= g' := by
  subst hx
  exact bind_congr' h

end Uwg.StepProps
