/-
C05 — Results are a pure function of parameters and rural file.
World machine of `Model/Lifecycle.lean`: several objects in one interpreter, every operation
addressed to one object. Theorems hold for every machine (whatever the physics computes).
-/
import UwgVerif.Model.Lifecycle

namespace Uwg.C05
open Uwg.Life
variable {P L B R : Type}

/-- The operations of an interleaving that are addressed to object `i`, in order. -/
def opsOf (i : Nat) (ops : List (Nat × Op P)) : List (Op P) :=
  (ops.filter (fun iop => iop.1 == i)).map (·.2)

/-- T1. Non-interference: after *any* interleaving of operations on any number of objects, object
    `i` is in exactly the state it reaches when only its own operations are run on it. -/
theorem noninterference (M : Machine P L B R) (ops : List (Nat × Op P)) :
    ∀ (w : World P L B R) (i : Nat),
      (runWorld M w ops)[i]? = (w[i]?).map (fun o => run M false o (opsOf i ops)) := by
  induction ops with
  | nil => intro w i; simp [runWorld, opsOf, run]
  | cons iop ops ih =>
    intro w i
    obtain ⟨j, op⟩ := iop
    have hstep : runWorld M w ((j, op) :: ops) = runWorld M (stepAt M w j op) ops := by
      simp [runWorld]
    rw [hstep, ih]
    unfold stepAt
    rw [List.getElem?_modify]
    by_cases hji : j = i
    · subst hji
      simp only [if_true, opsOf, List.filter_cons, beq_self_eq_true, List.map_cons]
      cases w[j]? with
      | none => simp
      | some o => simp [run]
    · have hne : (j == i) = false := by simpa using hji
      simp only [if_neg hji, id, opsOf, List.filter_cons, hne]
      cases w[i]? <;> simp

/-- T2. Determinism / purity: a fresh object with parameters `p` that is generated and simulated
    produces the same records whatever else happens in the interpreter — other objects, their
    parameters, and the interleaving are irrelevant. -/
theorem deterministic (M : Machine P L B R) (p : P) (w w' : World P L B R) (i j : Nat)
    (ops ops' : List (Nat × Op P))
    (hw : w[i]? = some (fresh M p)) (hw' : w'[j]? = some (fresh M p))
    (hops : opsOf i ops = opsOf j ops') :
    (runWorld M w ops)[i]? = (runWorld M w' ops')[j]? := by
  rw [noninterference, noninterference, hw, hw', hops]

/-- Repeated runs: a second fresh object with the same parameters gives the same result. -/
theorem repeatable (M : Machine P L B R) (p : P) :
    (run M false (fresh M p) [.generate, .simulate]).last =
      ((runWorld M [fresh M p, fresh M p] [(0, .generate), (0, .simulate), (1, .generate), (1, .simulate)])[1]?).bind (·.last) := by
  rw [noninterference]
  simp [opsOf]

/-! ### Why the per-object library matters: a shared library breaks non-interference. -/

structure SObj (P B R : Type) where
  params : P
  built : Option B
  last : Option R

/-- Hypothetical design: one library object shared by all models (e.g. cached at class level) and
    mutated through the aliased archetypes. -/
def stepShared (M : Machine P L B R) (w : L × List (SObj P B R)) (i : Nat) (op : Op P) :
    L × List (SObj P B R) :=
  match w.2[i]? with
  | none => w
  | some o =>
    match op with
    | .set f => (w.1, w.2.set i { o with params := f o.params })
    | .generate =>
      let lib := M.customize o.params w.1
      (lib, w.2.set i { o with built := some (M.select o.params lib) })
    | .simulate =>
      match o.built with
      | none => w
      | some b =>
        let (b', lib', r) := M.sim b w.1
        (lib', w.2.set i { o with built := some b', last := some r })

def runShared (M : Machine P L B R) (w : L × List (SObj P B R)) (ops : List (Nat × Op P)) :=
  ops.foldl (fun w iop => stepShared M w iop.1 iop.2) w

/-- T3. With a shared, mutated library the result of object 0 depends on whether object 1 ran
    first (toy machine witness) — the per-instance load in `generate` is what makes T1 true. -/
theorem asis_shared_library_breaks :
    let M := toy [⟨300, 200, 300, 200, false⟩]
    let o : SObj Ov (List Arch) (List Arch) := ⟨⟨none, none⟩, none, none⟩
    ((runShared M (M.pristine, [o, o]) [(0, .generate), (0, .simulate)]).2[0]?).bind (·.last) ≠
    ((runShared M (M.pristine, [o, o]) [(1, .generate), (1, .simulate), (0, .generate), (0, .simulate)]).2[0]?).bind (·.last) := by
  decide

end Uwg.C05
