/-
Property theorems about the header interpretation of the rural EPW file (`UWG._read_epw`, model
`Uwg.Epw.readHeader`). They serve C12 (the site that the sun position uses is the LOCATION line's), C20 (the ground
column is padded to the depths the file states) and C03 (deep temperature = the file's monthly value).
-/
import UwgVerif.Model.EpwHeader

namespace Uwg.Epw
open Uwg.C06

/-! ### helper lemmas -/

theorem floatAt_of_get {g : List Str} {i : Nat} {c : Str} {v : Rat} (hg : g[i]? = some c)
    (hv : parseFloat c = some v) : floatAt g i = .ok v := by
  simp [floatAt, cellAt, hg, hv, bind, Except.bind]

theorem readMonths_ok (g : List Str) (b : Nat) :
    ∀ (cells : List Str) (vals : List Rat) (j : Nat), parseAll cells = some vals →
      (∀ i, i < cells.length → g[6 + b + j + i]? = cells[i]?) →
      readMonths g b j cells.length = .ok (vals.map (· + 27315 / 100)) := by
  intro cells
  induction cells with
  | nil =>
    intro vals j hv _
    simp [parseAll] at hv
    subst hv
    simp [readMonths]
  | cons c cs ih =>
    intro vals j hv hg
    unfold parseAll at hv
    cases hc : parseFloat c with
    | none => simp [hc] at hv
    | some v =>
      cases hcs : parseAll cs with
      | none => simp [hc, hcs] at hv
      | some vs =>
        simp [hc, hcs] at hv
        subst hv
        have h0 : g[6 + b + j]? = some c := by
          have := hg 0 (by simp)
          simpa using this
        have hrest : ∀ i, i < cs.length → g[6 + b + (j + 1) + i]? = cs[i]? := by
          intro i hi
          have := hg (i + 1) (by simp; omega)
          have e : 6 + b + (j + 1) + i = 6 + b + j + (i + 1) := by omega
          rw [e, this]
          simp
        have := ih vs (j + 1) hcs hrest
        simp [readMonths, floatAt_of_get h0 hc, this, bind, Except.bind, pure, Except.pure]

theorem cells_length (r : GText) (h : r.months.length = 12) : r.cells.length = 16 := by
  simp [GText.cells, h]

theorem readRecs_ok :
    ∀ (recs : List GText) (pre : List Str) (b : Nat) (trailing : List Str) (parsed : List GRec),
      pre.length = 2 + b → (∀ r ∈ recs, r.months.length = 12) → parseRecs recs = some parsed →
      readRecs (pre ++ (recs.flatMap GText.cells ++ trailing)) b recs.length = .ok parsed := by
  intro recs
  induction recs with
  | nil =>
    intro pre b trailing parsed _ _ hp
    simp [parseRecs] at hp
    subst hp
    simp [readRecs]
  | cons r rs ih =>
    intro pre b trailing parsed hpre hm hp
    unfold parseRecs at hp
    cases hr : parseRec r with
    | none => simp [hr] at hp
    | some v =>
      cases hrs : parseRecs rs with
      | none => simp [hr, hrs] at hp
      | some vs =>
        simp [hr, hrs] at hp
        subst hp
        have hm12 : r.months.length = 12 := hm r (by simp)
        unfold parseRec at hr
        cases hd : parseFloat r.depth with
        | none => simp [hd] at hr
        | some d =>
          cases hms : parseAll r.months with
          | none => simp [hd, hms] at hr
          | some ms =>
            simp [hd, hms] at hr
            subst hr
            let g := pre ++ ((r :: rs).flatMap GText.cells ++ trailing)
            have hgdef : g = pre ++ (r.depth :: r.p1 :: r.p2 :: r.p3 :: (r.months ++
                (rs.flatMap GText.cells ++ trailing))) := by
              simp [g, GText.cells, List.flatMap_cons, List.append_assoc]
            have hdepth : g[2 + b]? = some r.depth := by
              rw [hgdef, List.getElem?_append_right (by omega)]
              simp [hpre]
            have hmon : ∀ i, i < r.months.length → g[6 + b + 0 + i]? = r.months[i]? := by
              intro i hi
              rw [hgdef, List.getElem?_append_right (by omega)]
              have e : 6 + b + 0 + i - pre.length = i + 4 := by omega
              rw [e]
              simp [List.getElem?_append_left hi]
            have h1 := readMonths_ok g b r.months ms 0 hms hmon
            rw [hm12] at h1
            have hg2 : g = (pre ++ r.cells) ++ (rs.flatMap GText.cells ++ trailing) := by
              simp [g, List.flatMap_cons, List.append_assoc]
            have hpre2 : (pre ++ r.cells).length = 2 + (b + 16) := by
              simp [cells_length r hm12, hpre]; omega
            have h2 := ih (pre ++ r.cells) (b + 16) trailing vs hpre2
              (fun r' hr' => hm r' (by simp [hr'])) hrs
            rw [← hg2] at h2
            show readRecs g b (rs.length + 1) = _
            simp [readRecs, floatAt_of_get hdepth hd, h1, h2, bind, Except.bind, pure, Except.pure]

/-! ### property theorems -/

/-- **Ground line, every number of depths.** For a ground-temperature line laid out as the EPW data dictionary says
(label, count, then per depth: depth, three soil-property cells, twelve monthly cells; anything after that), whose
count cell reads `n = number of records` and whose depth and monthly cells are numbers, `_read_epw` returns exactly
the `n` stated depths and the twelve monthly values of each record in Kelvin - for every `n`, whatever the
soil-property cells and the trailing cells contain. -/
theorem readGround_groundLine (label count : Str) (recs : List GText) (trailing : List Str)
    (parsed : List GRec) (hc : parseInt count = some (recs.length : Int))
    (hm : ∀ r ∈ recs, r.months.length = 12) (hp : parseRecs recs = some parsed) :
    readGround (groundLine label count recs trailing) = .ok ⟨(recs.length : Int), parsed⟩ := by
  have h := readRecs_ok recs [label, count] 0 trailing parsed (by simp) hm hp
  have hcell : (groundLine label count recs trailing)[1]? = some count := by simp [groundLine]
  have hg : groundLine label count recs trailing
      = [label, count] ++ (recs.flatMap GText.cells ++ trailing) := by simp [groundLine]
  rw [hg] at hcell ⊢
  have h' : readRecs (label :: count :: (recs.flatMap GText.cells ++ trailing)) 0 recs.length = .ok parsed := by
    simpa using h
  simp [readGround, intAt, cellAt, hc, h', bind, Except.bind, pure, Except.pure]

/-- the result does not depend on the soil-property cells, the label or the trailing cells -/
theorem readGround_indep (label label' count : Str) (recs recs' : List GText) (trailing trailing' : List Str)
    (parsed : List GRec) (hc : parseInt count = some (recs.length : Int))
    (hm : ∀ r ∈ recs, r.months.length = 12) (hp : parseRecs recs = some parsed)
    (hlen : recs'.length = recs.length) (hm' : ∀ r ∈ recs', r.months.length = 12)
    (hp' : parseRecs recs' = some parsed) :
    readGround (groundLine label count recs trailing) = readGround (groundLine label' count recs' trailing') := by
  rw [readGround_groundLine label count recs trailing parsed hc hm hp,
    readGround_groundLine label' count recs' trailing' parsed (by rw [hlen]; exact hc) hm' hp', hlen]

/-- **Site.** The site is read from cells 6, 7, 8 of the LOCATION line and from nothing else. -/
theorem readSite_cells (loc : List Str) (a b c : Str) (x y z : Rat) (h6 : loc[6]? = some a)
    (h7 : loc[7]? = some b) (h8 : loc[8]? = some c) (ha : parseFloat a = some x) (hb : parseFloat b = some y)
    (hcz : parseFloat c = some z) : readSite loc = .ok ⟨x, y, z⟩ := by
  simp [readSite, floatAt_of_get h6 ha, floatAt_of_get h7 hb, floatAt_of_get h8 hcz, bind, Except.bind, pure,
    Except.pure]

theorem readSite_congr (l₁ l₂ : List Str) (h6 : l₁[6]? = l₂[6]?) (h7 : l₁[7]? = l₂[7]?) (h8 : l₁[8]? = l₂[8]?) :
    readSite l₁ = readSite l₂ := by
  simp [readSite, floatAt, cellAt, h6, h7, h8]

/-- **Header.** Two headers that agree on cells 6..8 of line 1 and on line 4 are interpreted identically (every
other header line and cell is irrelevant to the simulation's site and ground data). -/
theorem readHeader_congr (h₁ h₂ : List (List Str)) (l₁ l₂ g : List Str) (e1 : h₁[0]? = some l₁)
    (e2 : h₂[0]? = some l₂) (g1 : h₁[3]? = some g) (g2 : h₂[3]? = some g) (h6 : l₁[6]? = l₂[6]?)
    (h7 : l₁[7]? = l₂[7]?) (h8 : l₁[8]? = l₂[8]?) : readHeader h₁ = readHeader h₂ := by
  have hs := readSite_congr l₁ l₂ h6 h7 h8
  simp only [readHeader, rowAt, e1, e2, g1, g2, bind, Except.bind, hs]

/-- fail-stop: a header with fewer than four lines, or a LOCATION line with fewer than nine cells, is an
IndexError - never a silently defaulted site -/
theorem readHeader_short (h : List (List Str)) (hl : h.length < 4) : ∃ e, readHeader h = .error e := by
  unfold readHeader rowAt
  cases h0 : h[0]? with
  | none => exact ⟨_, rfl⟩
  | some loc =>
    simp only [bind, Except.bind]
    cases hs : readSite loc with
    | error e => exact ⟨e, rfl⟩
    | ok s =>
      have : h[3]? = none := by simp; omega
      simp [this]

/-! ### non-vacuity: the ground line of the shipped Singapore file -/

def sgpGround : List Str :=
  ["GROUND TEMPERATURES", "3", ".5", "", "", "", "27.55", "27.84", "28.04", "28.13", "28.07", "27.84", "27.55", "27.28",
   "27.09", "27.00", "27.07", "27.28", "2", "", "", "", "27.70", "27.87", "27.99", "28.06", "28.04", "27.92", "27.75",
   "27.59", "27.46", "27.39", "27.41", "27.52", "4", "", "", "", "27.73", "27.82", "27.90", "27.94", "27.94", "27.88",
   "27.79", "27.69", "27.61", "27.56", "27.56", "27.62"].map String.toList

example : (readGround sgpGround).toOption.map (fun g => (g.nSoil, g.recs.map (·.depth))) =
    some (3, [1 / 2, 2, 4]) := by decide +kernel

example : (readGround sgpGround).toOption.bind (fun g => (g.recs.head?).bind (·.months.head?)) =
    some (27.55 + 273.15 : Rat) := by decide +kernel

end Uwg.Epw
