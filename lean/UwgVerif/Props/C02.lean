/-
C02 — "Each simulated hour is driven by and written to its own rural row".

Property theorems only; models: `Model/Driver.lean` (loop of `simulate`, `write_epw` row), `Model/Clock.lean`;
lemmas: `Lemmas/Driver.lean`, `Lemmas/Clock.lean`, and C04 for the clock.

Standing hypotheses (`Valid`): the start date is a calendar date, the timestep is positive and divides one
hour, the window lies inside the year (`dayOfYear0 M D + days ≤ 365`), and the rural file provides at least
the `24·days` rows of the window.
-/
import UwgVerif.Model.Driver
import UwgVerif.Lemmas.Driver
import UwgVerif.Props.C04

namespace Uwg.C02
open Uwg

/-- The standing hypotheses on a run. -/
structure Valid (cfg : DrvCfg) : Prop where
  date : validDate cfg.M cfg.D
  dvd : cfg.dt ∣ 3600
  pos : 0 < cfg.dt
  inYear : dayOfYear0 cfg.M cfg.D + cfg.days ≤ 365
  rows : 24 * cfg.days ≤ cfg.rows

/-- Clock state after `k` calls of `update_date` (the start state if the clock had raised, which it does
not inside the window: `clockAt_run`). -/
def clockAt (dt M D k : Nat) : Clock := (Clock.run dt k (Clock.init M D)).getD (Clock.init M D)

/-! ### The clock inside the window -/

theorem steps_mul (cfg : DrvCfg) (h : Valid cfg) : (nt cfg.dt cfg.days - 1) * cfg.dt = cfg.days * 86400 := by
  unfold nt
  rw [Nat.add_sub_cancel]
  exact Nat.div_mul_cancel (Nat.dvd_trans (dvd_86400 h.dvd) ⟨cfg.days, Nat.mul_comm _ _⟩)

/-- Every step index of the loop stays inside the year (the last may touch 31 December 24:00). -/
theorem step_in_year (cfg : DrvCfg) (h : Valid cfg) (k : Nat) (hk : k ≤ nt cfg.dt cfg.days - 1) :
    dayOfYear0 cfg.M cfg.D * 86400 + k * cfg.dt ≤ 365 * 86400 := by
  have h1 := steps_mul cfg h
  have h2 : k * cfg.dt ≤ (nt cfg.dt cfg.days - 1) * cfg.dt := Nat.mul_le_mul_right _ hk
  have h3 := h.inYear
  omega

theorem clockAt_run (cfg : DrvCfg) (h : Valid cfg) (k : Nat) (hk : k ≤ nt cfg.dt cfg.days - 1) :
    Clock.run cfg.dt k (Clock.init cfg.M cfg.D) = some (clockAt cfg.dt cfg.M cfg.D k) ∧
    (clockAt cfg.dt cfg.M cfg.D k).secDay = (dayOfYear0 cfg.M cfg.D * 86400 + k * cfg.dt) % 86400 := by
  have hy := step_in_year cfg h k hk
  unfold clockAt
  by_cases hlt : dayOfYear0 cfg.M cfg.D * 86400 + k * cfg.dt < 365 * 86400
  · rw [C04.clock_correct cfg.M cfg.D cfg.dt k h.date h.dvd h.pos hlt]
    exact ⟨rfl, rfl⟩
  · have he : dayOfYear0 cfg.M cfg.D * 86400 + k * cfg.dt = 365 * 86400 := by omega
    rw [C04.year_end cfg.M cfg.D cfg.dt k h.date h.dvd h.pos he, he]
    exact ⟨rfl, rfl⟩

/-- Inside the year the clock seen at step `it` is the true calendar at `start + it·dt` (C04). -/
theorem clockAt_eq (cfg : DrvCfg) (h : Valid cfg) (it : Nat)
    (hlt : dayOfYear0 cfg.M cfg.D * 86400 + it * cfg.dt < 365 * 86400) :
    clockAt cfg.dt cfg.M cfg.D it = trueCalendar (dayOfYear0 cfg.M cfg.D * 86400 + it * cfg.dt) := by
  unfold clockAt
  rw [C04.clock_correct cfg.M cfg.D cfg.dt it h.date h.dvd h.pos hlt]
  rfl

/-! ### The trace of the loop -/

/-- **Trace theorem.** Under the standing hypotheses the loop raises nothing and its observable trace is,
for `it = 1 .. nt−1`: forcing row `⌊(it·dt − 1)/3600⌋`, the clock after `it` updates (the true calendar
at `start + it·dt` by `clockAt_eq`), its day type, record counter equal to the forcing row, a record taken
exactly when `it·dt` is a whole number of hours, and the ground-temperature month taken from the clock
after `it − 1` updates. -/
theorem driver_trace (cfg : DrvCfg) (h : Valid cfg) :
    driver cfg = .ok ((List.range' 1 (nt cfg.dt cfg.days - 1)).map
      (stepSpec cfg.dt (clockAt cfg.dt cfg.M cfg.D))) := by
  have hcreate := (C04.create_ok_iff cfg.dt cfg.M cfg.D).2 ⟨h.pos, h.dvd⟩
  have hmul := steps_mul cfg h
  unfold driver
  rw [hcreate]
  have hupd : ∀ k, k < nt cfg.dt cfg.days - 1 →
      Clock.update cfg.dt (clockAt cfg.dt cfg.M cfg.D k) = some (clockAt cfg.dt cfg.M cfg.D (k + 1)) := by
    intro k hk
    have h1 := (clockAt_run cfg h k (by omega)).1
    have h2 := (clockAt_run cfg h (k + 1) (by omega)).1
    rw [run_succ_last, h1, Option.bind_some] at h2
    exact h2
  have hsec : ∀ k, k ≤ nt cfg.dt cfg.days - 1 →
      (clockAt cfg.dt cfg.M cfg.D k).secDay % 3600 = (k * cfg.dt) % 3600 := by
    intro k hk
    rw [(clockAt_run cfg h k hk).2]
    omega
  have hK : (nt cfg.dt cfg.days - 1) * cfg.dt ≤ 3600 * (24 * cfg.days) := by omega
  have hstart : clockAt cfg.dt cfg.M cfg.D 0 = Clock.init cfg.M cfg.D := rfl
  have := drvLoop_spec h.dvd h.pos (clockAt cfg.dt cfg.M cfg.D) hupd hsec hK h.rows
    (nt cfg.dt cfg.days - 1) 0 (by omega)
  simpa [hstart] using this

/-- **Look-ups see the true calendar (DESIGN C04-T3).** At every step `it` that ends inside the year, the
quantities the loop body uses for its look-ups are those of the true calendar: schedules are indexed with
the day type and hour of `start + it·dt` and the season test sees its month (all read after the clock
advance), while the ground temperature is indexed with the month of `start + (it−1)·dt` (read before). -/
theorem lookups_true_calendar (cfg : DrvCfg) (h : Valid cfg) (it : Nat) (hit : 1 ≤ it)
    (hlt : dayOfYear0 cfg.M cfg.D * 86400 + it * cfg.dt < 365 * 86400) :
    (stepSpec cfg.dt (clockAt cfg.dt cfg.M cfg.D) it).month =
        (trueCalendar (dayOfYear0 cfg.M cfg.D * 86400 + it * cfg.dt)).month ∧
    (stepSpec cfg.dt (clockAt cfg.dt cfg.M cfg.D) it).hourDay =
        (trueCalendar (dayOfYear0 cfg.M cfg.D * 86400 + it * cfg.dt)).hourDay ∧
    (stepSpec cfg.dt (clockAt cfg.dt cfg.M cfg.D) it).dayType =
        trueDayType ((dayOfYear0 cfg.M cfg.D * 86400 + it * cfg.dt) / 86400) ∧
    (stepSpec cfg.dt (clockAt cfg.dt cfg.M cfg.D) it).monthBefore =
        (trueCalendar (dayOfYear0 cfg.M cfg.D * 86400 + (it - 1) * cfg.dt)).month := by
  have hle : (it - 1) * cfg.dt ≤ it * cfg.dt := Nat.mul_le_mul_right _ (by omega)
  have e1 := clockAt_eq cfg h it hlt
  have e2 := clockAt_eq cfg h (it - 1) (by omega)
  refine ⟨?_, ?_, ?_, ?_⟩
  · simp only [stepSpec, e1]
  · simp only [stepSpec, e1]
  · simp only [stepSpec, e1]
    exact C04.dayType_correct _
  · simp only [stepSpec, e2]

/-- **T1 `rowIdx_spec`.** For every step `it ≥ 1`, `ceil_time_step` is the index of the hour that contains
the step's time interval `((it−1)·dt, it·dt]`: `rowIdx = ⌊(it·dt − 1)/3600⌋`, and the whole interval lies
inside `[3600·rowIdx, 3600·(rowIdx+1)]`. -/
theorem rowIdx_spec (dt it : Nat) (hdt : dt ∣ 3600) (hpos : 0 < dt) (hit : 1 ≤ it) :
    rowIdx dt it = (it * dt - 1) / 3600 ∧
    3600 * rowIdx dt it ≤ (it - 1) * dt ∧ it * dt ≤ 3600 * (rowIdx dt it + 1) := by
  obtain ⟨j, rfl⟩ : ∃ j, it = j + 1 := ⟨it - 1, by omega⟩
  have h1 := rowIdx_eq dt (j + 1) hpos (by omega)
  have h2 := counter_eq_row hdt hpos j
  have h3 : 1 ≤ (j + 1) * dt := Nat.mul_pos (Nat.succ_pos j) hpos
  rw [Nat.add_sub_cancel, h1]
  omega

/-- **T3 `records_complete` (list form).** The record events of a run are exactly, in order, one per slot
`n = 0 .. N−1` (`N = 24·days`): slot `n` is filled at loop index `3600(n+1)/dt` from forcing row `n`. -/
theorem records_eq (cfg : DrvCfg) (h : Valid cfg) :
    ∃ tr, driver cfg = .ok tr ∧
      records tr = (List.range (24 * cfg.days)).map (recSpec cfg.dt) := by
  refine ⟨_, driver_trace cfg h, ?_⟩
  have hmul := steps_mul cfg h
  have := records_spec h.dvd h.pos (clockAt cfg.dt cfg.M cfg.D) (nt cfg.dt cfg.days - 1) 0
  rw [this, List.range_eq_range']
  have e : (0 + (nt cfg.dt cfg.days - 1)) * cfg.dt / 3600 - 0 * cfg.dt / 3600 = 24 * cfg.days := by
    rw [Nat.zero_add, hmul]
    omega
  rw [e]
  simp

/-- **T2 `record_row`.** Every record event `(n, it, row)` of a run is taken at the step that ends hour
`n` of the window, `it·dt = 3600·(n+1)`, the forcing row in force at that step is `row = n`, and this is
the value of `ceil_time_step` there. -/
theorem record_row (cfg : DrvCfg) (h : Valid cfg) :
    ∃ tr, driver cfg = .ok tr ∧
      ∀ r ∈ records tr, r.2.1 * cfg.dt = 3600 * (r.1 + 1) ∧ r.2.2 = r.1 ∧ rowIdx cfg.dt r.2.1 = r.1 ∧
        r.1 < 24 * cfg.days := by
  obtain ⟨tr, htr, hrec⟩ := records_eq cfg h
  refine ⟨tr, htr, ?_⟩
  intro r hr
  rw [hrec, List.mem_map] at hr
  obtain ⟨n, hn, rfl⟩ := hr
  have hn' : n < 24 * cfg.days := by simpa using hn
  have hmul : 3600 * (n + 1) / cfg.dt * cfg.dt = 3600 * (n + 1) :=
    Nat.div_mul_cancel (Nat.dvd_trans h.dvd ⟨n + 1, rfl⟩)
  have hit : 1 ≤ 3600 * (n + 1) / cfg.dt := by
    rcases Nat.eq_zero_or_pos (3600 * (n + 1) / cfg.dt) with h0 | h0
    · rw [h0] at hmul; omega
    · exact h0
  refine ⟨hmul, rfl, ?_, hn'⟩
  show rowIdx cfg.dt (3600 * (n + 1) / cfg.dt) = n
  rw [rowIdx_eq cfg.dt _ h.pos hit, hmul]
  omega

/-- **T3 `records_complete`.** A run raises nothing (in particular no `IndexError`), makes `nt − 1` steps,
takes exactly `N = 24·days` records filling slots `0, 1, …, N−1` in this order, every step reads a forcing
row `< N` equal to the current record counter, and (for `days > 0`) the last record is taken at the last
step `it = nt − 1`. -/
theorem records_complete (cfg : DrvCfg) (h : Valid cfg) :
    ∃ tr, driver cfg = .ok tr ∧
      tr.length = nt cfg.dt cfg.days - 1 ∧
      (records tr).length = 24 * cfg.days ∧
      (records tr).map (·.1) = List.range (24 * cfg.days) ∧
      (∀ t ∈ tr, t.row < 24 * cfg.days ∧ t.row = t.nBefore) ∧
      (0 < cfg.days → (records tr).getLast? =
        some (24 * cfg.days - 1, nt cfg.dt cfg.days - 1, 24 * cfg.days - 1)) := by
  obtain ⟨tr, htr, hrec⟩ := records_eq cfg h
  have htr' := driver_trace cfg h
  rw [htr] at htr'
  have htr'' : tr = (List.range' 1 (nt cfg.dt cfg.days - 1)).map
      (stepSpec cfg.dt (clockAt cfg.dt cfg.M cfg.D)) := by
    injection htr'
  have hmul := steps_mul cfg h
  refine ⟨tr, htr, ?_, ?_, ?_, ?_, ?_⟩
  · rw [htr'']; simp
  · rw [hrec]; simp
  · rw [hrec, List.map_map]
    have : ((fun x : Nat × Nat × Nat => x.1) ∘ recSpec cfg.dt) = id := by
      funext n; rfl
    rw [this, List.map_id]
  · intro t ht
    rw [htr'', List.mem_map] at ht
    obtain ⟨it, hit, rfl⟩ := ht
    rw [List.mem_range'_1] at hit
    have h1 : it * cfg.dt ≤ (nt cfg.dt cfg.days - 1) * cfg.dt := Nat.mul_le_mul_right _ (by omega)
    have h2 : 1 ≤ it * cfg.dt := Nat.mul_pos hit.1 h.pos
    refine ⟨?_, rfl⟩
    show (it * cfg.dt - 1) / 3600 < 24 * cfg.days
    omega
  · intro hd
    rw [hrec, List.getLast?_map, List.getLast?_range]
    have hne : 24 * cfg.days ≠ 0 := by omega
    simp only [hne, if_false, Option.map_some, recSpec]
    have e : 24 * cfg.days - 1 + 1 = 24 * cfg.days := by omega
    have e2 : 3600 * (24 * cfg.days) = (nt cfg.dt cfg.days - 1) * cfg.dt := by omega
    rw [e, e2, Nat.mul_div_cancel _ h.pos]

/-- The window read from the rural file has exactly `N = 24·days` rows, file rows
`timeInitial .. timeFinal` (header included in the count), i.e. data rows `24·j₀ .. 24·j₀ + N − 1`. -/
theorem window_rows (M D days : Nat) (hd : 0 < days) :
    timeFinal M D days + 1 - timeInitial M D = 24 * days ∧
    timeInitial M D - 8 = 24 * (Clock.init M D).julian := by
  unfold timeFinal timeInitial
  omega

/-- A window that lies inside the file (`24·(j₀ + days) ≤ fileRows`, e.g. `j₀ + days ≤ 365` for an hourly
non-leap file) gives the loop exactly `24·days` rural rows. -/
theorem window_rows_file (M D days fileRows : Nat)
    (hfit : 24 * ((Clock.init M D).julian + days) ≤ fileRows) :
    windowRows M D days fileRows = 24 * days := by
  unfold windowRows timeFinal timeInitial
  omega

/-- **T4 `written_row_stamp`.** Record slot `n` is written to data row `24·j₀ + n` of the file, which is
the `n`-th row of the window that was read, and — in the EPW hour-ending convention, where data row `k`
carries day `k/24` and hour number `k%24 + 1` — the stamp of that row is the calendar date of the instant
`start + n hours` with hour number `hour(start + n h) + 1`: the row describes the hour that *begins*
`n` hours after the start. -/
theorem written_row_stamp (M D n : Nat) (hv : validDate M D) :
    writeRow M D n = timeInitial M D - 8 + n ∧
    writeRow M D n = 24 * dayOfYear0 M D + n ∧
    stamp (writeRow M D n) =
      ((trueCalendar (dayOfYear0 M D * 86400 + n * 3600)).month,
       (trueCalendar (dayOfYear0 M D * 86400 + n * 3600)).day,
       (trueCalendar (dayOfYear0 M D * 86400 + n * 3600)).hourDay + 1) := by
  have hj : (Clock.init M D).julian = dayOfYear0 M D := by
    rw [init_eq hv]
    show dayOfYear0 M D * 86400 / 86400 = dayOfYear0 M D
    omega
  have hw : writeRow M D n = 24 * dayOfYear0 M D + n := by
    unfold writeRow timeInitial
    rw [hj]
    omega
  refine ⟨by unfold writeRow timeInitial; omega, hw, ?_⟩
  rw [hw]
  unfold stamp trueCalendar
  have e1 : (24 * dayOfYear0 M D + n) / 24 = (dayOfYear0 M D * 86400 + n * 3600) / 86400 := by omega
  have e2 : (24 * dayOfYear0 M D + n) % 24 + 1 = (dayOfYear0 M D * 86400 + n * 3600) % 86400 / 3600 + 1 := by
    omega
  rw [e1, e2]

/-- **T5 `wind_recorded`.** What is stored in record slot `n` (and later formatted into the wind column of
file row `24·j₀ + n`) is the forcing of rural row `n` of the window: every forcing value verbatim and
`wind = max wind[n] windMin`. Stated for any type of values with a `max`. -/
theorem wind_recorded {W : Type} [Max W] (cfg : DrvCfg) (h : Valid cfg) (windMin : W)
    (rural : List (Rural W)) (hlen : rural.length = cfg.rows) :
    ∃ tr, driver cfg = .ok tr ∧
      weatherData windMin rural tr =
        (List.range (24 * cfg.days)).map (fun n =>
          (n, (rural[n]?).map (fun r => ({ wind := max r.wind windMin, other := r.other } : Rural W)))) ∧
      ∀ n, n < 24 * cfg.days → ∃ r, rural[n]? = some r := by
  obtain ⟨tr, htr, hrec⟩ := records_eq cfg h
  refine ⟨tr, htr, ?_, ?_⟩
  · unfold weatherData
    rw [hrec, List.map_map]
    rfl
  · intro n hn
    have : n < rural.length := by have := h.rows; omega
    exact ⟨rural[n], List.getElem?_eq_getElem this⟩

/-! ### The historical floating-point formula (recorded defect, repaired in /repo) -/

/-- `m / 2^k` is the IEEE-754 binary64 value nearest to the positive rational `p / q`
(round-to-nearest, ties to even; normalised 53-bit significand `2^52 ≤ m < 2^53`):
`|p/q − m/2^k| ≤ ½·2^(−k)`, with an even significand in case of equality. -/
def IsRN64 (p q m k : Nat) : Prop :=
  2 ^ 52 ≤ m ∧ m < 2 ^ 53 ∧
  2 * (p * 2 ^ k - m * q) ≤ q ∧ 2 * (m * q - p * 2 ^ k) ≤ q ∧
  ((2 * (p * 2 ^ k - m * q) = q ∨ 2 * (m * q - p * 2 ^ k) = q) → m % 2 = 0)

instance (p q m k : Nat) : Decidable (IsRN64 p q m k) := by unfold IsRN64; infer_instance

/-- **T6 `asis_float_rowidx_wrong`.** The formula the code used before the repair,
`int(ceil(it * (dt / 3600.))) - 1` in double precision, selects row 7 at `dt = 48`, `it = 525`
(`it·dt = 25200 s = 7 h` exactly, so the step still belongs to hour 6): the double nearest to `48/3600` is
`ph = 7686143364045647 / 2^59`, the double nearest to `525·ph` is `7881299347898369 / 2^50 > 7`, its ceiling
is 8. The integer formula of the repaired code gives 6. -/
theorem asis_float_rowidx_wrong :
    IsRN64 48 3600 7686143364045647 59 ∧
    IsRN64 (525 * 7686143364045647) (2 ^ 59) 7881299347898369 50 ∧
    (7881299347898369 + 2 ^ 50 - 1) / 2 ^ 50 - 1 = 7 ∧
    rowIdx 48 525 = 6 := by
  decide

/-! ### Non-vacuity -/

/-- A configuration satisfying the standing hypotheses: 27 February, 3 days, dt = 300 s. -/
example : Valid { dt := 300, M := 2, D := 27, days := 3, rows := 72 } :=
  ⟨by decide, by decide, by decide, by decide, by decide⟩

/-- Its 12th step (first full hour) records slot 0 from row 0; step 13 reads row 1. -/
example : rowIdx 300 12 = 0 ∧ rowIdx 300 13 = 1 ∧ recSpec 300 0 = (0, 12, 0) ∧ nt 300 3 = 865 := by decide

/-- The timestep 48 s, where the float formula `ceil(it*dt/3600.)` used to go wrong at `it = 525`
(`it·dt = 25200 = 7 h`): the integer formula gives row 6. -/
example : rowIdx 48 525 = 6 := by decide

/-- Slot 0 of a run starting 1 March is written to data row 1416, stamped 3/1 hour 1. -/
example : writeRow 3 1 0 = 1416 ∧ stamp 1416 = (3, 1, 1) := by decide

end Uwg.C02
