/-
C07 — The whole building stock is simulated, or the model refuses.
Property theorems about `Uwg.Bem.computeBEM` / `customize` / `generateBEM` (model of
`UWG._compute_BEM`, `_customize_reference_data`, `generate`); helper lemmas in `Lemmas/Bem.lean`.
Fractions and attributes range over any field `K` with decidable equality (ℚ in the tie, ℝ too).
-/
import UwgVerif.Lemmas.Bem
import Mathlib.Algebra.Order.Field.Rat

namespace Uwg.C07
open Uwg.Bem
variable {K : Type} [Field K] [DecidableEq K]

/-- What the stock dictionary holds: one pair per distinct (type, era) of the stock list (era text
    compared case-insensitively through `eraIdx?`), carrying the **sum** of the fractions of all
    rows with that key. This is the "aggregated stock list" of `bem_exact`. -/
theorem aggregate_spec (rows : List (Key × K)) :
    ((aggregate rows).map Prod.fst).Nodup ∧
    ∀ k f, (k, f) ∈ aggregate rows ↔ k ∈ rows.map Prod.fst ∧ f = fracOf k rows := by
  have hn : ((aggregate rows).map Prod.fst).Nodup := aggFrom_nodup (d0 := []) (by simp)
  refine ⟨hn, fun k f => ?_⟩
  have hl : lookup k (aggregate rows) =
      if k ∈ rows.map Prod.fst then some (fracOf k rows) else none := by
    have := lookup_aggFrom (k := k) (d0 := []) (rows := rows)
    simp only [lookup, Option.getD_none, zero_add] at this
    exact this
  constructor
  · intro hm
    have := mem_lookup_of_nodup hn hm
    rw [hl] at this
    split at this
    · rename_i hk; refine ⟨hk, ?_⟩; simp only [Option.some.injEq] at this; exact this.symm
    · cases this
  · rintro ⟨hk, rfl⟩
    apply lookup_some_mem
    rw [hl, if_pos hk]

/-- **T1.** If `_compute_BEM` succeeds on a library whose zone column is slot-consistent and has
    no two cells with the same (type, era), then
    (i) the list of (type, era, fraction) of the simulated archetypes is a permutation of the
        aggregated stock list (`aggregate_spec`): one simulated archetype per distinct (type, era),
        with the summed fraction — none missing, none extra, none twice;
    (ii) every simulated archetype is the library cell stored at its own era slot in the column of
        the *proxy* zone (`z` is `REF_ZONETYPE.index` of `proxyZone zone`), with the overrides
        applied (`applyOv` keeps type, era and object identity);
    (iii) the simulated fractions sum to exactly the sum of the stock list. -/
theorem bem_exact (P : Params K) (lib : Lib K) (z : Nat) (rows : List (Key × K))
    (es : List (Entry K)) (tot : Totals K)
    (hz : zoneIdx? P.zone = some z) (hk : keyed P.bld = .ok rows)
    (hslot : SlotOK z lib) (huniq : KeysUnique z lib)
    (h : computeBEM P lib = .ok (es, tot)) :
    (es.map (fun e => (e.arch.key, e.frac))).Perm (aggregate rows) ∧
    (∀ e ∈ es, ∃ row ∈ lib, ∃ a, e.arch.era < 3 ∧ cell row e.arch.era z = .ok (some a) ∧
        a.bldtype = e.arch.bldtype ∧ e.arch = applyOv P a) ∧
    (es.map (·.frac)).sum = (P.bld.map (·.frac)).sum := by
  obtain ⟨_, z', rows', hs, hz', hk', hsc, hu, hes, _⟩ := computeBEM_ok_elim h
  rw [hz] at hz'; cases hz'
  rw [hk] at hk'; cases hk'
  have hhs : hs = (colCells z lib).filterMap (hitOf (aggregate rows)) := by
    rw [scan_ok hsc, libHits_slot hslot]
  have hmem : ∀ h' ∈ hs, ∃ a ∈ colCells z lib, h'.key = a.key ∧ h'.src = a ∧
      lookup a.key (aggregate rows) = some h'.frac := by
    intro h' hh'
    rw [hhs, List.mem_filterMap] at hh'
    obtain ⟨a, ha, e⟩ := hh'
    exact ⟨a, ha, hitOf_some e⟩
  have hL : es.map (fun e => (e.arch.key, e.frac)) = hs.map (fun h' => (h'.key, h'.frac)) := by
    rw [hes, List.map_map]
    apply List.map_congr_left
    intro h' hh'
    obtain ⟨a, _, h1, h2, _⟩ := hmem h' hh'
    simp only [Function.comp, mkEntry, applyOv, Arch.key, h1, h2]
  obtain ⟨hn, _⟩ := aggregate_spec rows
  have hperm : (es.map (fun e => (e.arch.key, e.frac))).Perm (aggregate rows) := by
    rw [hL]
    have hnodupL : (hs.map (fun h' => (h'.key, h'.frac))).Nodup := by
      apply List.Nodup.of_map Prod.fst
      rw [List.map_map]
      have : (Prod.fst ∘ fun h' : Hit K => (h'.key, h'.frac)) = (·.key) := rfl
      rw [this, hhs]
      exact List.Nodup.sublist (filterMap_keys_sublist _) huniq
    refine (List.perm_ext_iff_of_nodup hnodupL (List.Nodup.of_map Prod.fst hn)).2 ?_
    rintro ⟨k, f⟩
    constructor
    · intro hm
      obtain ⟨h', hh', e⟩ := List.mem_map.1 hm
      obtain ⟨a, _, h1, _, h3⟩ := hmem h' hh'
      cases e
      rw [h1]; exact lookup_some_mem h3
    · intro hm
      have hl := mem_lookup_of_nodup hn hm
      have hk1 : k ∈ (aggregate rows).map Prod.fst := List.mem_map_of_mem (f := Prod.fst) hm
      obtain ⟨h', hh', e⟩ := List.mem_map.1 ((unmatched_nil_iff.1 hu) k hk1)
      obtain ⟨a, _, h1, _, h3⟩ := hmem h' hh'
      apply List.mem_map.2
      refine ⟨h', hh', ?_⟩
      have : h'.frac = f := by
        rw [← h1, e, hl] at h3; exact (Option.some.inj h3).symm
      rw [e, this]
  refine ⟨hperm, ?_, ?_⟩
  · intro e he
    rw [hes] at he
    obtain ⟨h', hh', rfl⟩ := List.mem_map.1 he
    obtain ⟨a, ha, _, h2, _⟩ := hmem h' hh'
    obtain ⟨row, hrow, j, hj, hc⟩ := mem_colCells.1 ha
    have hera : a.era = j := hslot row hrow j hj a hc
    refine ⟨row, hrow, a, ?_, ?_, ?_, ?_⟩
    · simp only [mkEntry, applyOv, h2, hera]; exact hj
    · simp only [mkEntry, applyOv, h2, hera]; exact cellD_some_cell hc
    · simp only [mkEntry, applyOv, h2]
    · simp only [mkEntry, h2]
  · have h1 : (es.map (·.frac)) = (es.map (fun e => (e.arch.key, e.frac))).map Prod.snd := by
      rw [List.map_map]; rfl
    rw [h1, (hperm.map Prod.snd).sum_eq]
    have := aggFrom_sum (d0 := ([] : List (Key × K))) (rows := rows)
    simp only [List.map_nil, List.sum_nil, zero_add] at this
    rw [show aggregate rows = aggFrom [] rows from rfl, this, keyed_fracs hk]

/-- The simulated fractions sum to the stock total, which the `bld` setter keeps within 1/100 of
    one ("the simulated fractions sum to one"). -/
theorem bem_fractions_sum [LinearOrder K] (P : Params K) (lib : Lib K) (z : Nat)
    (rows : List (Key × K)) (es : List (Entry K)) (tot : Totals K)
    (hacc : bldSetter P.bld = .ok P.bld)
    (hz : zoneIdx? P.zone = some z) (hk : keyed P.bld = .ok rows)
    (hslot : SlotOK z lib) (huniq : KeysUnique z lib)
    (h : computeBEM P lib = .ok (es, tot)) :
    absK ((es.map (·.frac)).sum - 1) < 1 / 100 := by
  rw [(bem_exact P lib z rows es tot hz hk hslot huniq h).2.2]
  unfold bldSetter at hacc
  have key : ∀ (l : List (Row K)) (t t' : K), bldSetterLoop l t = .ok t' →
      t' = t + (l.map (·.frac)).sum := by
    intro l
    induction l with
    | nil => intro t t' e; simp only [bldSetterLoop] at e; cases e; simp
    | cons r rs ih =>
      intro t t' e
      simp only [bldSetterLoop] at e
      split at e
      · cases e
      · split at e
        · cases e
        · rw [ih _ _ e]; simp only [List.map_cons, List.sum_cons]; ring
  split at hacc
  · cases hacc
  · rename_i t ht
    split at hacc
    · rename_i hlt
      rw [key _ _ _ ht, zero_add] at hlt; exact hlt
    · cases hacc

/-- **T2.** Refuse or all: if some stock row has no archetype at the zone column — no cell whose
    own (type, era) equals the row's — `_compute_BEM` does not return a result at all (in
    particular never a shorter list). No well-formedness of the library is needed. -/
theorem refuse_or_all (P : Params K) (lib : Lib K) (z : Nat) (hz : zoneIdx? P.zone = some z)
    (r : Row K) (hr : r ∈ P.bld) (e : Nat) (he : eraIdx? r.era = some e)
    (hno : ∀ row ∈ lib, ∀ j, j < 3 → ∀ a, cell row j z = .ok (some a) →
      ¬ (a.bldtype = r.bldtype ∧ a.era = e)) :
    ∀ out, computeBEM P lib ≠ .ok out := by
  rintro ⟨es, tot⟩ h
  obtain ⟨_, z', rows, hs, hz', hk, hsc, hu, _, _⟩ := computeBEM_ok_elim h
  rw [hz] at hz'; cases hz'
  have hkin : (r.bldtype, e) ∈ rows.map Prod.fst := (keyed_keys hk _).2 ⟨r, hr, e, he, rfl⟩
  have := (unmatched_nil_iff.1 hu) _ (aggregate_keys_mem.2 hkin)
  obtain ⟨h', hh', ek⟩ := List.mem_map.1 this
  rw [scan_ok hsc] at hh'
  obtain ⟨row, hrow, j, hj, a, hc, hkey, _, _⟩ := mem_libHits hh'
  rw [hkey, Prod.mk.injEq] at ek
  exact hno row hrow j hj a (cellD_some_cell hc) ek

/-- **T2, exact form.** On a well-shaped, slot-consistent library, with a non-zero floor height
    and an accepted stock list, a row without archetype makes `_compute_BEM` raise exactly the
    refusal (`Exception`), not some other error. -/
theorem refuse_or_all_wf (P : Params K) (lib : Lib K) (z : Nat) (rows : List (Key × K))
    (hfl : hFloor P ≠ 0) (hz : zoneIdx? P.zone = some z) (hk : keyed P.bld = .ok rows)
    (hshape : ShapeOK z lib) (hslot : SlotOK z lib)
    (r : Row K) (hr : r ∈ P.bld) (e : Nat) (he : eraIdx? r.era = some e)
    (hno : ∀ a ∈ colCells z lib, a.key ≠ (r.bldtype, e)) :
    computeBEM P lib = .error .refuse := by
  rw [computeBEM_eq_of hfl hz hk (scan_wf hshape hslot)]
  rw [if_neg]
  intro hu
  have hkin : (r.bldtype, e) ∈ rows.map Prod.fst := (keyed_keys hk _).2 ⟨r, hr, e, he, rfl⟩
  have := (unmatched_nil_iff.1 hu) _ (aggregate_keys_mem.2 hkin)
  obtain ⟨h', hh', ek⟩ := List.mem_map.1 this
  obtain ⟨row, hrow, j, hj, a, hc, hkey, _, _⟩ := mem_libHits hh'
  exact hno a (mem_colCells.2 ⟨row, hrow, j, hj, hc⟩) (by rw [← ek, hkey]; rfl)

/-- **Progress** (the refusal is not the only way to satisfy T1/T2): on a well-shaped,
    slot-consistent library, with non-zero floor height and an accepted stock list every row of
    which has an archetype at the zone column, `_compute_BEM` succeeds. -/
theorem bem_progress (P : Params K) (lib : Lib K) (z : Nat) (rows : List (Key × K))
    (hfl : hFloor P ≠ 0) (hz : zoneIdx? P.zone = some z) (hk : keyed P.bld = .ok rows)
    (hshape : ShapeOK z lib) (hslot : SlotOK z lib)
    (hall : ∀ r ∈ P.bld, ∀ e, eraIdx? r.era = some e →
      ∃ a ∈ colCells z lib, a.key = (r.bldtype, e)) :
    ∃ out, computeBEM P lib = .ok out := by
  rw [computeBEM_eq_of hfl hz hk (scan_wf hshape hslot)]
  rw [if_pos]
  · exact ⟨_, rfl⟩
  · rw [unmatched_nil_iff]
    intro k hkd
    obtain ⟨r, hr, e, he, rfl⟩ := (keyed_keys hk k).1 (aggregate_keys_mem.1 hkd)
    obtain ⟨a, ha, hak⟩ := hall r hr e he
    have hl : lookup a.key (aggregate rows) ≠ none := by
      rw [Ne, lookup_none_iff, not_not, hak]; exact hkd
    obtain ⟨f, hf⟩ := Option.ne_none_iff_exists'.1 hl
    rw [libHits_slot hslot]
    apply List.mem_map.2
    refine ⟨⟨a.key, a, f⟩, List.mem_filterMap.2 ⟨a, ha, ?_⟩, hak⟩
    simp only [hitOf, hf, Option.map_some]

/-- **T4.** Writing one stock row as several rows with the same type, the same era (in any
    letter case) and the same total fraction changes nothing: `_compute_BEM` returns the identical
    result — the same simulated archetypes with the same fractions and floor areas, the same three
    stock averages — or the identical error. (With aggregation this is an exact equality whenever
    the fractions add exactly, as they do in a field.) -/
theorem split_stock_totals (P : Params K) (pre post rs : List (Row K)) (r : Row K) (lib : Lib K)
    (hne : rs ≠ [])
    (hkey : ∀ r' ∈ rs, r'.bldtype = r.bldtype ∧ eraIdx? r'.era = eraIdx? r.era)
    (hsum : (rs.map (·.frac)).sum = r.frac) :
    computeBEM { P with bld := pre ++ rs ++ post } lib =
      computeBEM { P with bld := pre ++ [r] ++ post } lib := by
  have key : stockDict (pre ++ rs ++ post) = stockDict (pre ++ [r] ++ post) := by
    unfold stockDict
    rw [keyed_append, keyed_append pre, keyed_append (pre ++ [r]), keyed_append pre [r]]
    cases he : eraIdx? r.era with
    | none =>
      rw [keyed_same_key_none (fun r' hr' => by rw [(hkey r' hr').2, he]) hne,
        keyed_same_key_none (rs := [r]) (by simpa using he) (by simp)]
    | some e =>
      rw [keyed_same_key_some (t := r.bldtype) (e := e)
          (fun r' hr' => ⟨(hkey r' hr').1, by rw [(hkey r' hr').2, he]⟩),
        keyed_same_key_some (rs := [r]) (t := r.bldtype) (e := e) (by simpa using he)]
      cases keyed pre with
      | error e => rfl
      | ok lpre =>
        simp only
        cases keyed post with
        | error e => rfl
        | ok lpost =>
          have hX : ∀ d : List (Key × K),
              aggFrom d (rs.map (fun r' => ((r.bldtype, e), r'.frac))) =
                aggFrom d [((r.bldtype, e), r.frac)] := by
            intro d
            rw [aggFrom_same_key (k := (r.bldtype, e))
                (ks := rs.map (fun r' => ((r.bldtype, e), r'.frac))) (by simp) (by simpa using hne),
              aggFrom_same_key (k := (r.bldtype, e)) (ks := [((r.bldtype, e), r.frac)])
                (by simp) (by simp)]
            congr 1
            simp only [List.map_map, List.map_cons, List.map_nil, List.sum_cons, List.sum_nil,
              add_zero]
            exact hsum
          change Except.ok (aggFrom [] _) = Except.ok (aggFrom [] _)
          simp only [aggFrom_append, hX, List.map_cons, List.map_nil]
  have := computeBEM_congr_bld { P with bld := pre ++ rs ++ post } (pre ++ [r] ++ post) lib key
  exact this

/-- T4 through `generate` (customisation does not read the stock list). -/
theorem split_stock_generate (P : Params K) (cs : List (Arch K)) (pre post rs : List (Row K))
    (r : Row K) (lib : Lib K) (hne : rs ≠ [])
    (hkey : ∀ r' ∈ rs, r'.bldtype = r.bldtype ∧ eraIdx? r'.era = eraIdx? r.era)
    (hsum : (rs.map (·.frac)).sum = r.frac) :
    generateBEM { P with bld := pre ++ rs ++ post } cs lib =
      generateBEM { P with bld := pre ++ [r] ++ post } cs lib := by
  unfold generateBEM
  cases cs with
  | nil => exact split_stock_totals P pre post rs r lib hne hkey hsum
  | cons c cs =>
    simp only
    cases customize P.zone (c :: cs) lib with
    | error e => rfl
    | ok lib' => exact split_stock_totals P pre post rs r lib' hne hkey hsum

/-! ### Tables: zones, era texts, the text key -/

/-- Every one of the 18 zone texts the `zone` setter accepts has a library column
    (`REF_ZONETYPE.index` cannot raise). -/
theorem zone_index_total : ∀ z ∈ zoneSet, ∃ i, zoneIdx? z = some i ∧ i < 16 := by decide

/-- Zones 1B and 5C use the columns of 1A and 5B; every other accepted zone uses its own. -/
theorem proxy_zone_table :
    zoneIdx? "1B" = zoneIdx? "1A" ∧ zoneIdx? "5C" = zoneIdx? "5B" ∧
    (∀ z ∈ zoneSet, z ≠ "1B" → z ≠ "5C" → refZoneType[(zoneIdx? z).getD 99]? = some z) := by
  decide

/-- A stock list the `bld` setter accepted never makes `REF_BUILTERA.index` raise. -/
theorem accepted_no_value_error [LinearOrder K] (bld : List (Row K))
    (hacc : bldSetter bld = .ok bld) : ∃ rows, keyed bld = .ok rows := by
  unfold bldSetter at hacc
  have key : ∀ (l : List (Row K)) (t t' : K), bldSetterLoop l t = .ok t' →
      ∃ rows, keyed l = .ok rows := by
    intro l
    induction l with
    | nil => intro _ _ _; exact ⟨[], rfl⟩
    | cons r rs ih =>
      intro t t' e
      simp only [bldSetterLoop] at e
      split at e
      · cases e
      · rename_i hera
        split at e
        · cases e
        · obtain ⟨rows, hr⟩ := ih _ _ e
          cases he : eraIdx? r.era with
          | none => simp [he] at hera
          | some ei => exact ⟨((r.bldtype, ei), r.frac) :: rows, by simp only [keyed, he, hr]⟩
  split at hacc
  · cases hacc
  · rename_i t ht; exact key _ _ _ ht

/-- The era text is compared without regard to letter case (examples; `eraIdx?` lower-cases). -/
theorem era_any_case :
    eraIdx? "PST80" = some 1 ∧ eraIdx? "pst80" = some 1 ∧ eraIdx? "Pre80" = some 0 ∧
    eraIdx? "NeW" = some 2 ∧ eraIdx? "pst8O" = none := by decide

/-- The dictionary key of the Python code is the concatenated text `bldtype + builtera`; since the
    era text is one of 'pre80', 'pst80', 'new', the text determines (type, era) — which is what the
    model keys by. -/
theorem key_text_injective (t1 t2 : String) (e1 e2 : Nat) (h1 : e1 < 3) (h2 : e2 < 3)
    (h : t1 ++ refBuiltEra[e1]! = t2 ++ refBuiltEra[e2]!) : t1 = t2 ∧ e1 = e2 := by
  have aux : ∀ (l1 l2 : List Char),
      l1 ++ (refBuiltEra[e1]!).toList = l2 ++ (refBuiltEra[e2]!).toList → l1 = l2 ∧ e1 = e2 := by
    intro l1 l2 h
    have c1 : e1 = 0 ∨ e1 = 1 ∨ e1 = 2 := by omega
    have c2 : e2 = 0 ∨ e2 = 1 ∨ e2 = 2 := by omega
    have hlast := congrArg List.getLast? h
    have hE : ∀ (l : List Char) (s : List Char), s ≠ [] → (l ++ s).getLast? = s.getLast? := by
      intro l s hs
      rw [List.getLast?_append]
      cases hh : s.getLast? with
      | none => exact absurd (List.getLast?_eq_none_iff.1 hh) hs
      | some x => rfl
    rcases c1 with rfl | rfl | rfl <;> rcases c2 with rfl | rfl | rfl
    · exact ⟨List.append_cancel_right h, rfl⟩
    · exact absurd (List.append_inj' h (by decide)).2 (by decide)
    · rw [hE _ _ (by decide), hE _ _ (by decide)] at hlast; exact absurd hlast (by decide)
    · exact absurd (List.append_inj' h (by decide)).2 (by decide)
    · exact ⟨List.append_cancel_right h, rfl⟩
    · rw [hE _ _ (by decide), hE _ _ (by decide)] at hlast; exact absurd hlast (by decide)
    · rw [hE _ _ (by decide), hE _ _ (by decide)] at hlast; exact absurd hlast (by decide)
    · rw [hE _ _ (by decide), hE _ _ (by decide)] at hlast; exact absurd hlast (by decide)
    · exact ⟨List.append_cancel_right h, rfl⟩
  have := congrArg String.toList h
  rw [String.toList_append, String.toList_append] at this
  obtain ⟨a, b⟩ := aux _ _ this
  exact ⟨String.toList_inj.1 a, b⟩

/-! ### T3 — custom archetypes replace or extend the reference set -/

/-- **T3a.** A custom archetype whose type is a reference type is written into that type's row, at
    its own era slot and the (proxy) zone column; the library keeps its length and every other
    cell, and the row dictionary is unchanged. -/
theorem custom_replaces (zi : Nat) (lib lib' : Lib K) (m m' : RowMap) (c : Arch K) (ti : Nat)
    (hidx : refBldType.idxOf? c.bldtype = some ti) (h : customize1 zi lib m c = .ok (lib', m')) :
    m' = m ∧ lib'.length = lib.length ∧ cellAt lib' ti c.era zi = some c ∧
    ∀ i j z, ¬ (i = ti ∧ j = c.era ∧ z = zi) → cellAt lib' i j z = cellAt lib i j z := by
  obtain ⟨_, hlen, hm, _, hcell⟩ := customize1_spec h
  have htr : targetRow lib m c = ti := by simp [targetRow, hidx]
  have happ : appends m c = false := by simp [appends, hidx]
  rw [happ] at hlen hm
  refine ⟨hm, hlen, by rw [hcell, htr]; simp, fun i j z hne => ?_⟩
  rw [hcell, htr, if_neg hne]

/-- **T3b.** The first custom archetype of a new type name gets a new last row that is empty except
    for the archetype itself at its era slot and the zone column; all existing rows are unchanged
    and the dictionary remembers the row. -/
theorem custom_extends (zi : Nat) (lib lib' : Lib K) (m m' : RowMap) (c : Arch K)
    (hidx : refBldType.idxOf? c.bldtype = none) (hfirst : lookupRow c.bldtype m = none)
    (h : customize1 zi lib m c = .ok (lib', m')) :
    m' = m ++ [(c.bldtype, lib.length)] ∧
    lib'.length = lib.length + 1 ∧ cellAt lib' lib.length c.era zi = some c ∧
    (∀ j z, ¬ (j = c.era ∧ z = zi) → cellAt lib' lib.length j z = none) ∧
    ∀ i j z, i ≠ lib.length → cellAt lib' i j z = cellAt lib i j z := by
  obtain ⟨_, hlen, hm, _, hcell⟩ := customize1_spec h
  have htr : targetRow lib m c = lib.length := by simp [targetRow, hidx, hfirst]
  have happ : appends m c = true := by simp [appends, hidx, hfirst]
  rw [happ] at hlen hm
  refine ⟨hm, hlen, by rw [hcell, htr]; simp, fun j z hne => ?_, fun i j z hne => ?_⟩
  · rw [hcell, htr, if_neg (fun e => hne ⟨e.2.1, e.2.2⟩)]
    unfold cellAt; rw [List.getElem?_eq_none (Nat.le_refl _)]
  · rw [hcell, htr, if_neg (fun e => hne e.1)]

/-- **T3c.** A later custom archetype of an already added new type is written into that type's
    row (no second row): it fills another era slot or replaces the earlier custom of the same era. -/
theorem custom_extends_again (zi : Nat) (lib lib' : Lib K) (m m' : RowMap) (c : Arch K) (ti : Nat)
    (hidx : refBldType.idxOf? c.bldtype = none) (hrow : lookupRow c.bldtype m = some ti)
    (h : customize1 zi lib m c = .ok (lib', m')) :
    m' = m ∧ lib'.length = lib.length ∧ cellAt lib' ti c.era zi = some c ∧
    ∀ i j z, ¬ (i = ti ∧ j = c.era ∧ z = zi) → cellAt lib' i j z = cellAt lib i j z := by
  obtain ⟨_, hlen, hm, _, hcell⟩ := customize1_spec h
  have htr : targetRow lib m c = ti := by simp [targetRow, hidx, hrow]
  have happ : appends m c = false := by simp [appends, hidx, hrow]
  rw [happ] at hlen hm
  refine ⟨hm, hlen, by rw [hcell, htr]; simp, fun i j z hne => ?_⟩
  rw [hcell, htr, if_neg hne]

/-- **Model invariant.** `_customize_reference_data` derives the slot from the archetype's own
    `builtera`, so it cannot produce a cell whose era attribute disagrees with its slot: slot
    consistency of the zone column is preserved (and holds for the shipped library, checked in the
    tie). This is the hypothesis `SlotOK` of `bem_exact`. -/
theorem customize_keeps_slots (zone : String) (zi : Nat) (cs : List (Arch K)) (lib lib' : Lib K)
    (hz : zoneIdx? zone = some zi) (hslot : SlotOK zi lib)
    (h : customize zone cs lib = .ok lib') : SlotOK zi lib' := by
  unfold customize at h
  rw [hz] at h
  simp only at h
  split at h
  · cases h
  · rename_i lib1 m1 hl
    cases h
    rw [slotOK_iff] at hslot ⊢
    generalize ([] : RowMap) = m0 at hl
    induction cs generalizing lib m0 with
    | nil => simp only [customizeLoop] at hl; cases hl; exact hslot
    | cons c cs ih =>
      simp only [customizeLoop] at hl
      split at hl
      · cases hl
      · rename_i lib2 m2 h1
        apply ih lib2 _ m2 hl
        obtain ⟨_, _, _, _, hcell⟩ := customize1_spec h1
        intro i j a hj hc
        rw [hcell] at hc
        split at hc
        · rename_i hij; cases hc; exact hij.2.1.symm
        · exact hslot i j a hj hc

/-- **T3.** End to end through `generate` on a library shaped like the shipped one (16 rows, row
    `i` holding type `REF_BLDTYPE[i]`, slots consistent), with **any** list of custom archetypes
    (repeated types and eras allowed): if the selection succeeds then
    * the simulated archetypes are, as in T1, a permutation of the aggregated stock list and their
      fractions sum to the stock total;
    * a simulated (type, era) for which custom archetypes exist is simulated by the **last** such
      custom archetype (it *replaces* the reference archetype, or *extends* the set with a new type);
    * every other simulated (type, era) is the untouched reference cell of the zone column. -/
theorem custom_replaces_extends (P : Params K) (cs : List (Arch K)) (lib : Lib K) (zi : Nat)
    (rows : List (Key × K)) (es : List (Entry K)) (tot : Totals K)
    (hz : zoneIdx? P.zone = some zi) (hk : keyed P.bld = .ok rows)
    (hlib : RefLib zi lib)
    (h : generateBEM P cs lib = .ok (es, tot)) :
    (es.map (fun e => (e.arch.key, e.frac))).Perm (aggregate rows) ∧
    (es.map (·.frac)).sum = (P.bld.map (·.frac)).sum ∧
    ∀ e ∈ es,
      match lastWithKey e.arch.key cs with
      | some c => e.arch = applyOv P c
      | none => ∃ i a, cellAt lib i e.arch.era zi = some a ∧ a.key = e.arch.key ∧
          e.arch = applyOv P a := by
  have hloop : ∃ lib' m', customizeLoop zi cs lib [] = .ok (lib', m') ∧
      computeBEM P lib' = .ok (es, tot) := by
    unfold generateBEM at h
    cases cs with
    | nil => exact ⟨lib, [], rfl, h⟩
    | cons c cs =>
      simp only [customize, hz] at h
      split at h
      · cases h
      · rename_i lib' hl
        split at hl
        · cases hl
        · rename_i lib1 m1 hl1; cases hl; exact ⟨_, m1, hl1, h⟩
  obtain ⟨lib', m', hl, hc⟩ := hloop
  have inv := hlib.inv.loop hl
  obtain ⟨hperm, hsrc, hsum⟩ := bem_exact P lib' zi rows es tot hz hk inv.slotOK inv.keysUnique hc
  refine ⟨hperm, hsum, fun e he => ?_⟩
  obtain ⟨row, hrow, a, hj, hcell, hty, harch⟩ := hsrc e he
  obtain ⟨i, hi⟩ := List.mem_iff_getElem?.1 hrow
  have hca : cellAt lib' i e.arch.era zi = some a := by
    simp only [cellAt, hi, cell_ok_cellD hcell]
  have hkey : a.key = e.arch.key := by rw [harch]; rfl
  cases hlk : lastWithKey e.arch.key cs with
  | some c =>
    simp only
    obtain ⟨hcm, hck⟩ := lastWithKey_some hlk
    obtain ⟨i', hc'⟩ := hlib.inv.last_present hl hlk
    have hcera : c.era = e.arch.era := by
      have : c.key = e.arch.key := hck
      simpa [Arch.key] using (congrArg Prod.snd this)
    have hj' : c.era < 3 := by omega
    have := inv.index_unique i i' e.arch.era c.era a c hj hj' hca hc' (by rw [hkey, hck])
    have hac : a = c := by
      rw [← this.1, ← this.2, hca] at hc'
      exact Option.some.inj hc'
    rw [harch, hac]
  | none =>
    simp only
    rcases customizeLoop_cells hl i e.arch.era a hca with h0 | h0
    · exact ⟨i, a, h0, hkey, harch⟩
    · exact absurd hkey (lastWithKey_none hlk a h0)

/-! ### Concrete witnesses (ℚ): the hypotheses are satisfiable, the old logic misbehaved,
the repaired logic does not -/

section Witnesses

def mkA (t : String) (e pid : Nat) : Arch ℚ := ⟨t, e, pid, 1 / 4, 1 / 2, 1 / 8, 3 / 8, 0, 3⟩

/-- A library shaped like the shipped one, cut down to two zone columns (1A, 2A): row `i` holds
    `REF_BLDTYPE[i]`, every cell present, object identity `6 i + 2 j + z`. -/
def exLib : Lib ℚ :=
  (List.range 16).map fun i => (List.range 3).map fun j => (List.range 2).map fun z =>
    some (mkA refBldType[i]! j (6 * i + 2 * j + z))

def exP (zone : String) (bld : List (Row ℚ)) : Params ℚ :=
  ⟨zone, bld, none, none, none, none, none, none, 1000, 1 / 2, 10⟩

/-- (object identity, fraction) of the simulated archetypes; `none` on an exception. -/
def view (r : Except Err (List (Entry ℚ) × Totals ℚ)) : Option (List (Nat × ℚ)) :=
  match r with
  | .ok (es, _) => some (es.map (fun e => (e.arch.pid, e.frac)))
  | .error _ => none

def errOf (r : Except Err (List (Entry ℚ) × Totals ℚ)) : Option Err :=
  match r with
  | .ok _ => none
  | .error e => some e

def customA : Arch ℚ := mkA "customa" 2 1000

def asisWithCustoms (P : Params ℚ) (cs : List (Arch ℚ)) (lib : Lib ℚ) :
    Except Err (List (Entry ℚ) × Totals ℚ) :=
  match customizeAsis P.zone cs lib with
  | .error e => .error e
  | .ok lib' => computeBEMAsis P lib'

/-- Non-vacuity: the well-formedness hypotheses of T1–T3 hold for `exLib` (decidable checks), and
    a duplicated, mixed-case stock list is simulated. -/
example : SlotOK 0 exLib ∧ KeysUnique 0 exLib ∧ ShapeOK 0 exLib ∧ RefLib 0 exLib ∧
    SlotOK 1 exLib ∧ KeysUnique 1 exLib ∧ RefLib 1 exLib ∧
    view (computeBEM (exP "1B" [⟨"largeoffice", "pst80", 1 / 4⟩, ⟨"hospital", "New", 1 / 2⟩,
      ⟨"largeoffice", "PST80", 1 / 4⟩]) exLib) = some [(10, 1 / 2), (20, 1 / 2)] :=
  ⟨slotOK_of_check (by decide), by decide, shapeOK_of_check (by decide), refLib_of_check (by decide),
   slotOK_of_check (by decide), by decide, refLib_of_check (by decide), by decide +kernel⟩

/-- **T6a.** Before the repair a type written in another letter case was silently dropped: 60 % of
    the stock simulated as if it were everything. -/
theorem asis_type_case_dropped :
    view (computeBEMAsis (exP "1A" [⟨"LargeOffice", "pst80", 2 / 5⟩,
      ⟨"midriseapartment", "pst80", 3 / 5⟩]) exLib) = some [(32, 3 / 5)] := by decide +kernel

/-- **T6b.** Before the repair duplicate rows collapsed, the last one winning. -/
theorem asis_duplicates_collapse :
    view (computeBEMAsis (exP "1A" [⟨"largeoffice", "pst80", 1 / 4⟩,
      ⟨"largeoffice", "pst80", 3 / 4⟩]) exLib) = some [(20, 3 / 4)] := by decide +kernel

/-- **T6c.** Before the repair an unknown type gave an empty building stock without any error. -/
theorem asis_unknown_type_empty :
    view (computeBEMAsis (exP "2A" [⟨"skyscraper", "new", 1⟩]) exLib) = some [] := by
  decide +kernel

/-- **T6d.** Before the repair a custom archetype with a new type name was dropped in every zone
    but 1A (the key was read from zone column 0, which is empty in the appended row). -/
theorem asis_custom_dropped_off_1A :
    view (asisWithCustoms (exP "2A" [⟨"customa", "new", 1⟩]) [customA] exLib) = some [] ∧
    view (asisWithCustoms (exP "1A" [⟨"customa", "new", 1⟩]) [customA] exLib) =
      some [(1000, 1)] := by decide +kernel

/-- The same four inputs on the repaired logic: refusal, summed duplicate, refusal, custom kept. -/
theorem fixed_witnesses :
    errOf (computeBEM (exP "1A" [⟨"LargeOffice", "pst80", 2 / 5⟩,
      ⟨"midriseapartment", "pst80", 3 / 5⟩]) exLib) = some .refuse ∧
    view (computeBEM (exP "1A" [⟨"largeoffice", "pst80", 1 / 4⟩,
      ⟨"largeoffice", "pst80", 3 / 4⟩]) exLib) = some [(20, 1)] ∧
    errOf (computeBEM (exP "2A" [⟨"skyscraper", "new", 1⟩]) exLib) = some .refuse ∧
    view (generateBEM (exP "2A" [⟨"customa", "new", 1⟩]) [customA] exLib) = some [(1000, 1)] := by
  decide +kernel

/-- **T6e.** Before the repair of `_customize_reference_data` two custom archetypes with the same
    *new* type and era got a row each and were **both** simulated at the full fraction (fractions
    summing to 2); now they share one row and the last one wins (T3, `custom_extends_again`). -/
theorem asis_dup_custom_double_counts :
    view (match customizeAsis "1A" [customA, mkA "customa" 2 1001] exLib with
      | .error e => .error e
      | .ok lib' => computeBEM (exP "1A" [⟨"customa", "new", 1⟩]) lib') =
      some [(1000, 1), (1001, 1)] ∧
    view (generateBEM (exP "1A" [⟨"customa", "new", 1⟩]) [customA, mkA "customa" 2 1001] exLib) =
      some [(1001, 1)] ∧
    view (generateBEM (exP "2A" [⟨"customa", "new", 1 / 2⟩, ⟨"customa", "pre80", 1 / 2⟩])
      [customA, mkA "customa" 0 1001, mkA "customa" 2 1002] exLib) =
      some [(1001, 1 / 2), (1002, 1 / 2)] := by decide +kernel

end Witnesses

end Uwg.C07
