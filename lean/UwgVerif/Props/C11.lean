/-
C11 — One-dimensional conduction conserves energy exactly.
Property theorems only (helper lemmas live in `Lemmas/`). Generic over every linearly ordered
field `K` (so they hold over ℚ, where the model is executed against the real code, and over ℝ).
-/
import UwgVerif.Lemmas.Conduction

namespace Uwg.C11
open Uwg
variable {K : Type} [Field K] [LinearOrder K] [IsStrictOrderedRing K]

/-- T1–T3. For physically admissible layers (positive thickness, conductivity, heat capacity),
    a positive timestep and at least two layers, `Conduction` returns a vector of the right
    length that solves *every* row equation of the system it assembled (no pivot vanishes). -/
theorem conduction_solves (dt flx1 : K) (bc : BC K) (ls : List (Layer K))
    (hdt : 0 < dt) (hpos : PosLayers ls) (hlen : 2 ≤ ls.length) :
    ∃ xs, conduction dt flx1 bc ls = some xs ∧ xs.length = ls.length ∧
      Sat 0 (condRows dt bc 0 0 flx1 ls) xs := by
  refine ⟨solve (condRows dt bc 0 0 flx1 ls), ?_, ?_, ?_⟩
  · unfold conduction; rw [if_neg (by omega)]
  · rw [solve_length, condRows_length]
  · exact solve_sound_of_mrows _ (condRows_mrows dt bc hdt ls 0 0 flx1 le_rfl hpos)

/-- T4. Flux boundary: the heat stored in the element changes by exactly
    (outer flux + inner flux) × timestep. -/
theorem energy_flux_bc (dt flx1 flx2 : K) (ls : List (Layer K)) (xs : List K)
    (hdt : 0 < dt) (hpos : PosLayers ls) (hlen : 2 ≤ ls.length)
    (h : conduction dt flx1 (.flux flx2) ls = some xs) :
    storedChange ls xs = dt * (flx1 + flx2) := by
  obtain ⟨xs', h', hl, hsat⟩ := conduction_solves dt flx1 (.flux flx2) ls hdt hpos hlen
  rw [h] at h'; cases h'
  match ls, xs, hl, hsat with
  | l :: rest, x :: xs, _, hsat =>
    have := energy_flux_aux dt flx2 (ne_of_gt hdt) rest l 0 0 flx1 0 x xs hsat
    rw [this]; ring
  | [], _, _, _ => simp at hlen
  | _ :: _, [], hl, _ => simp at hl

/-- T5. Deep-temperature boundary: the last layer takes the deep temperature, and the heat
    stored in the other layers changes by (outer flux − conductive flux into the deep layer) × dt. -/
theorem energy_deep_bc (dt flx1 temp2 : K) (ls : List (Layer K)) (xs : List K)
    (hdt : 0 < dt) (hpos : PosLayers ls) (hlen : 2 ≤ ls.length)
    (h : conduction dt flx1 (.deep temp2) ls = some xs) :
    xs.getLast? = some temp2 ∧
    storedChange ls.dropLast xs = dt * (flx1 - deepFlux ls xs) := by
  obtain ⟨xs', h', hl, hsat⟩ := conduction_solves dt flx1 (.deep temp2) ls hdt hpos hlen
  rw [h] at h'; cases h'
  match ls, xs, hl, hsat with
  | l :: l' :: rest, x :: xs, _, hsat =>
    obtain ⟨hE, hL⟩ := energy_deep_aux dt temp2 (ne_of_gt hdt) rest l l' 0 0 flx1 0 x xs hsat
    refine ⟨hL, ?_⟩
    rw [hE]; ring
  | [], _, _, _ => simp at hlen
  | [_], _, _, _ => simp at hlen
  | _ :: _ :: _, [], hl, _ => simp at hl

/-- A profile carrying the same conductive flux `q` through every interface. -/
def Steady (q : K) : List (Layer K) → Prop
  | l :: l' :: rest => tcp l l' * (l.t - l'.t) = q ∧ Steady q (l' :: rest)
  | _ => True

private theorem steady_sat_flux (dt q : K) (hdt : dt ≠ 0) (rest : List (Layer K)) :
    ∀ (l : Layer K) (gin tprev extra : K), Steady q (l :: rest) →
      gin * (tprev - l.t) + extra = q →
      Sat tprev (condRows dt (.flux (-q)) gin tprev extra (l :: rest)) ((l :: rest).map (·.t)) := by
  induction rest with
  | nil =>
    intro l gin tprev extra _ hq
    simp only [condRows, List.map, Sat, condRow, List.headD_nil, and_true]
    linear_combination (-1 : K) * hq
  | cons l' rest ih =>
    intro l gin tprev extra hs hq
    obtain ⟨h1, h2⟩ := hs
    simp only [condRows, List.map, Sat, condRow, List.headD_cons]
    refine ⟨?_, ?_⟩
    · linear_combination (-1 : K) * hq + h1
    · have := ih l' (tcp l l') l.t 0 h2 (by linear_combination h1)
      simpa only [List.map] using this

private theorem steady_sat_deep (dt q : K) (hdt : dt ≠ 0) (rest : List (Layer K)) :
    ∀ (l l' : Layer K) (gin tprev extra : K), Steady q (l :: l' :: rest) →
      gin * (tprev - l.t) + extra = q →
      Sat tprev (condRows dt (.deep ((l :: l' :: rest).getLast (by simp)).t) gin tprev extra
        (l :: l' :: rest)) ((l :: l' :: rest).map (·.t)) := by
  induction rest with
  | nil =>
    intro l l' gin tprev extra hs hq
    obtain ⟨h1, _⟩ := hs
    simp only [condRows, List.map, Sat, condRow, List.headD_cons, List.headD_nil,
      List.getLast_cons_cons, List.getLast_singleton, and_true]
    refine ⟨?_, by ring⟩
    linear_combination (-1 : K) * hq + h1
  | cons l'' rest ih =>
    intro l l' gin tprev extra hs hq
    obtain ⟨h1, h2⟩ := hs
    have := ih l' l'' (tcp l l') l.t 0 h2 (by linear_combination h1)
    simp only [condRows, List.map, Sat, condRow, List.headD_cons, List.getLast_cons_cons]
      at this ⊢
    refine ⟨?_, this⟩
    linear_combination (-1 : K) * hq + h1

/-- T7 (flux boundary). A steady profile carrying flux `q` in at the outer face and out at the
    inner face is a fixed point. -/
theorem steady_fixed_flux (dt q : K) (ls : List (Layer K))
    (hdt : 0 < dt) (hpos : PosLayers ls) (hlen : 2 ≤ ls.length) (hs : Steady q ls) :
    conduction dt q (.flux (-q)) ls = some (ls.map (·.t)) := by
  obtain ⟨xs, h, _, _⟩ := conduction_solves dt q (.flux (-q)) ls hdt hpos hlen
  rw [h]; congr 1
  have hp := pivots_of_mrows _ (condRows_mrows dt (.flux (-q)) hdt ls 0 0 q le_rfl hpos)
  unfold conduction at h; rw [if_neg (by omega)] at h; cases h
  symm
  apply sat_unique_solve _ hp
  match ls, hlen, hs with
  | l :: rest, _, hs => exact steady_sat_flux dt q (ne_of_gt hdt) rest l 0 0 q hs (by ring)

/-- T7 (deep boundary). A steady profile whose last layer is at the deep temperature is a fixed point. -/
theorem steady_fixed_deep (dt q : K) (l l' : Layer K) (rest : List (Layer K))
    (hdt : 0 < dt) (hpos : PosLayers (l :: l' :: rest)) (hs : Steady q (l :: l' :: rest)) :
    conduction dt q (.deep ((l :: l' :: rest).getLast (by simp)).t) (l :: l' :: rest) =
      some ((l :: l' :: rest).map (·.t)) := by
  have hlen : 2 ≤ (l :: l' :: rest).length := by simp
  obtain ⟨xs, h, _, _⟩ := conduction_solves dt q (.deep ((l :: l' :: rest).getLast (by simp)).t)
    (l :: l' :: rest) hdt hpos hlen
  rw [h]; congr 1
  have hp := pivots_of_mrows _ (condRows_mrows dt (.deep ((l :: l' :: rest).getLast (by simp)).t)
    hdt (l :: l' :: rest) 0 0 q le_rfl hpos)
  unfold conduction at h; rw [if_neg (by omega)] at h; cases h
  symm
  apply sat_unique_solve _ hp
  exact steady_sat_deep dt q (ne_of_gt hdt) rest l l' 0 0 q hs (by ring)

/-- All layers at one temperature. -/
def Uniform (T : K) (ls : List (Layer K)) : Prop := ∀ l ∈ ls, l.t = T

theorem uniform_steady (T : K) (ls : List (Layer K)) (h : Uniform T ls) : Steady 0 ls := by
  induction ls with
  | nil => simp [Steady]
  | cons l ls ih =>
    cases ls with
    | nil => simp [Steady]
    | cons l' rest =>
      refine ⟨?_, ih (fun q hq => h q (List.mem_cons_of_mem _ hq))⟩
      rw [h l (by simp), h l' (by simp)]; ring

/-- T6. A uniform element with no flux at either face is unchanged. -/
theorem uniform_fixed (dt T : K) (ls : List (Layer K))
    (hdt : 0 < dt) (hpos : PosLayers ls) (hlen : 2 ≤ ls.length) (hu : Uniform T ls) :
    conduction dt 0 (.flux 0) ls = some (ls.map (·.t)) := by
  have := steady_fixed_flux dt 0 ls hdt hpos hlen (uniform_steady T ls hu)
  simpa using this

/-! ### Sequences of steps -/

/-- Write new temperatures into the layers. -/
def applyTemps (ls : List (Layer K)) (xs : List K) : List (Layer K) :=
  List.zipWith (fun l x => { l with t := x }) ls xs

/-- Heat content per unit area (relative to 0 K). -/
def energy : List (Layer K) → K
  | [] => 0
  | l :: ls => l.hcp * l.t + energy ls

/-- One flux-boundary step with its own timestep and face fluxes. -/
structure FluxStep (K : Type) where
  dt : K
  flx1 : K
  flx2 : K

/-- Run a sequence of flux-boundary steps. -/
def run : List (Layer K) → List (FluxStep K) → Option (List (Layer K))
  | ls, [] => some ls
  | ls, s :: ss =>
    match conduction s.dt s.flx1 (.flux s.flx2) ls with
    | none => none
    | some xs => run (applyTemps ls xs) ss

/-- Heat supplied over a sequence of steps. -/
def supplied : List (FluxStep K) → K
  | [] => 0
  | s :: ss => s.dt * (s.flx1 + s.flx2) + supplied ss

private theorem energy_applyTemps (ls : List (Layer K)) (xs : List K) (h : xs.length = ls.length) :
    energy (applyTemps ls xs) - energy ls = storedChange ls xs := by
  induction ls generalizing xs with
  | nil => cases xs <;> simp [applyTemps, energy, storedChange]
  | cons l ls ih =>
    cases xs with
    | nil => simp at h
    | cons x xs =>
      have := ih xs (by simpa using h)
      simp only [applyTemps, List.zipWith_cons_cons, energy, storedChange, Layer.hcp] at this ⊢
      linear_combination this

private theorem pos_applyTemps (ls : List (Layer K)) (xs : List K) (h : PosLayers ls) :
    PosLayers (applyTemps ls xs) := by
  intro l hl
  unfold applyTemps at hl
  obtain ⟨i, hi, rfl⟩ := List.mem_iff_getElem.mp hl
  simp only [List.getElem_zipWith]
  simp only [List.length_zipWith] at hi
  exact h _ (List.getElem_mem (by omega))

private theorem length_applyTemps (ls : List (Layer K)) (xs : List K) (h : xs.length = ls.length) :
    (applyTemps ls xs).length = ls.length := by
  simp [applyTemps, h]

/-- T8. Over any sequence of steps (each with its own positive timestep and fluxes), the run
    completes and the heat content changes by exactly the heat supplied at the two faces. -/
theorem energy_sequence (ss : List (FluxStep K)) :
    ∀ (ls : List (Layer K)), PosLayers ls → 2 ≤ ls.length → (∀ s ∈ ss, 0 < s.dt) →
      ∃ ls', run ls ss = some ls' ∧ energy ls' - energy ls = supplied ss := by
  induction ss with
  | nil => intro ls _ _ _; exact ⟨ls, rfl, by simp [supplied]⟩
  | cons s ss ih =>
    intro ls hpos hlen hdt
    have hs := hdt s (by simp)
    obtain ⟨xs, hc, hl, _⟩ := conduction_solves s.dt s.flx1 (.flux s.flx2) ls hs hpos hlen
    have hE := energy_flux_bc s.dt s.flx1 s.flx2 ls xs hs hpos hlen hc
    obtain ⟨ls', hr, hE'⟩ := ih (applyTemps ls xs) (pos_applyTemps ls xs hpos)
      (by rw [length_applyTemps ls xs hl]; exact hlen) (fun q hq => hdt q (List.mem_cons_of_mem _ hq))
    refine ⟨ls', ?_, ?_⟩
    · simp only [run, hc]; exact hr
    · have := energy_applyTemps ls xs hl
      simp only [supplied]
      linear_combination hE' + this + hE

/-! ### Non-vacuity: a concrete admissible two-material wall meets every hypothesis. -/

example : PosLayers ([⟨1/10, 1, 2, 290⟩, ⟨1/5, 2, 3, 300⟩, ⟨1/20, 1/2, 1, 310⟩] : List (Layer ℚ)) ∧
    2 ≤ ([⟨1/10, 1, 2, 290⟩, ⟨1/5, 2, 3, 300⟩, ⟨1/20, 1/2, 1, 310⟩] : List (Layer ℚ)).length := by
  refine ⟨?_, by simp⟩
  intro l hl
  simp only [List.mem_cons, List.mem_nil_iff, or_false] at hl
  rcases hl with rfl | rfl | rfl <;> norm_num

end Uwg.C11
