/-
C15, inputs — where the weight hypotheses of the air-node theorems come from.

`Props/C15.lean` proves fixed point / range / monotonicity of the three air-node updates under
hypotheses on their inputs: `uExch ≥ 0`, `aeroCond ≥ 0`, densities ≥ 0, areas ≥ 0, rural wind
profile ≥ 0, and (night boundary layer) loop count = number of cells. This file proves those
hypotheses for the values the code itself produces (`Model/UrbFlux.lean`: the tail of `urbflux`,
the head of `Element.SurfFlux`, `UCMDef.__init__`, `UBLDef.__init__`, the wind-profile loop of
`RSMDef.vdm`), and says exactly what is left as a hypothesis.

Hypotheses on the libm symbols are explicit and are discharged for the real functions
(`…_real`): `x ** (1/3.) ≥ 0` and `x ** (-1/2.) ≥ 0` for `x ≥ 0`, `0 < sqrt d < 1` for
`0 < d < 1`, `log x ≥ 0` for `x ≥ 1`.
-/
import UwgVerif.Model.UrbFlux
import UwgVerif.Model.SymbolsReal
import UwgVerif.Props.C15
import UwgVerif.Props.C13
import Mathlib.Data.Rat.Floor
import Mathlib.Algebra.Order.Floor.Semifield

namespace Uwg.C15
open Uwg.Air Uwg.Urb
variable {K : Type} [Field K] [LinearOrder K] [IsStrictOrderedRing K]

/-! ## Kahan sums of `urbflux` -/

/-- The compensated summation loop of `urbflux` returns, in exact arithmetic, the plain sum:
    every compensation term `(t - s) - y` with `t = s + y` is zero. -/
theorem kahan_exact (s c : K) (ys : List K) : kahan s c ys = s - c + listSum ys := by
  induction ys generalizing s c with
  | nil => simp [kahan, listSum]
  | cons y ys ih => simp only [kahan, ih, listSum]; ring

/-- `forDens`, `intAdv1`, `intAdv2` start from `0.0` with compensation `0.0`. -/
theorem kahan_zero (ys : List K) : kahan 0 0 ys = listSum ys := by
  rw [kahan_exact]; ring

/-! ## Air density, convection coefficient -/

/-- `dens_pos`. Positive pressure and temperature, non-negative humidity ⇒ the air density
    `pres / (1000·0.287042·T·(1 + 1.607858·hum))` of `SurfFlux`, `urbflux` and `UCModel` is
    positive (and its denominator is, so no ZeroDivisionError). -/
theorem dens_pos (pres T hum : K) (hp : 0 < pres) (hT : 0 < T) (hq : 0 ≤ hum) :
    0 < airDensDen T hum ∧ 0 < airDens pres T hum := by
  have h : 0 < airDensDen T hum := by unfold airDensDen; positivity
  exact ⟨h, div_pos hp h⟩

/-- the two densities of `UCModel` (`Air.dens`, `Air.densUbl`) are this expression -/
theorem ucm_dens_eq (u : UcmIn K) :
    Air.dens u = airDens u.pres u.canTemp u.canHum ∧
    Air.densUbl u = airDens u.pres u.tUbl u.forcHum := ⟨rfl, rfl⟩

/-- `aeroCond_pos`. For a non-negative reference wind the convection coefficient
    `5.8 + 3.7·windRef` is at least 5.8, in particular positive. -/
theorem aeroCond_pos (w : K) (hw : 0 ≤ w) : 0 < aeroCond w ∧ 58 / 10 ≤ aeroCond w := by
  unfold aeroCond
  constructor
  · positivity
  · linarith [mul_nonneg (by norm_num : (0 : K) ≤ 37 / 10) hw]

/-- the value `surfHead` returns is `(airDens, aeroCond)` and it returns whenever the density's
    denominator is non-zero -/
theorem surfHead_ok (pres T hum w : K) (hp : 0 < pres) (hT : 0 < T) (hq : 0 ≤ hum) (hw : 0 ≤ w) :
    ∃ d a, surfHead pres T hum w = .ok (d, a) ∧ 0 < d ∧ 0 < a := by
  obtain ⟨h1, h2⟩ := dens_pos pres T hum hp hT hq
  refine ⟨airDens pres T hum, aeroCond w, ?_, h2, (aeroCond_pos w hw).1⟩
  unfold surfHead; rw [if_neg h1.ne']

/-! ## Friction and exchange velocities (`urbflux`) -/
section urb
variable (S : Sym K) (x : UrbIn K)

/-- `ustarMod_ge_wstar`. The modified friction velocity `max(ustar, wstar)` is at least the
    convective scaling velocity and at least the friction velocity. -/
theorem ustarMod_ge_wstar : wstar S x ≤ ustarMod S x ∧ ustar S x ≤ ustarMod S x :=
  ⟨le_max_right _ _, le_max_left _ _⟩

/-- the base of `** (1/3.)` is non-negative for non-negative gravity, reference height, density,
    heat capacity and canyon temperature (`max(sensHeat, 0.0)` takes care of the heat flux) -/
theorem wstarBase_nonneg (hg : 0 ≤ x.g) (hz : 0 ≤ zref x) (hd : 0 ≤ Urb.dens x) (hcp : 0 ≤ x.cp)
    (hT : 0 ≤ x.canTemp) : 0 ≤ wstarBase x := by
  unfold wstarBase
  exact div_nonneg (div_nonneg (div_nonneg (mul_nonneg (mul_nonneg hg (le_max_right _ _)) hz) hd)
    hcp) hT

/-- `uExch_nonneg`. If `x ** (1/3.)` is non-negative for non-negative `x` (hypothesis on the
    symbol, true of the real power) and `exCoeff ≥ 0`, then `wstar ≥ 0`, hence
    `ustarMod = max(ustar, wstar) ≥ 0` and `uExch = exCoeff·ustarMod ≥ 0` — whatever the sign of
    `ustar` (i.e. of the logarithms in `windUrb`). -/
theorem uExch_nonneg (hS : ∀ a : K, 0 ≤ a → 0 ≤ S.rpow a (1 / 3)) (hex : 0 ≤ x.exCoeff)
    (hg : 0 ≤ x.g) (hz : 0 ≤ zref x) (hd : 0 ≤ Urb.dens x) (hcp : 0 ≤ x.cp) (hT : 0 ≤ x.canTemp) :
    0 ≤ wstar S x ∧ 0 ≤ ustarMod S x ∧ 0 ≤ uExch S x ∧ 0 ≤ (urbCore S x).uExch := by
  have hw : 0 ≤ wstar S x := hS _ (wstarBase_nonneg x hg hz hd hcp hT)
  have hm : 0 ≤ ustarMod S x := le_trans hw (ustarMod_ge_wstar S x).1
  exact ⟨hw, hm, mul_nonneg hex hm, mul_nonneg hex hm⟩

/-- `canWind_nonneg`. With `x ** (-1/2.) ≥ 0` for `x ≥ 0` as well, the canyon wind speed — the
    reference wind of the *next* step's `SurfFlux` on road and walls — and the turbulent
    velocities are non-negative. -/
theorem canWind_nonneg (hS : ∀ a : K, 0 ≤ a → 0 ≤ S.rpow a (1 / 3))
    (hS2 : ∀ a : K, 0 ≤ a → 0 ≤ S.rpow a (-1 / 2)) (hv : 0 ≤ x.verToHor)
    (hg : 0 ≤ x.g) (hz : 0 ≤ zref x) (hd : 0 ≤ Urb.dens x) (hcp : 0 ≤ x.cp) (hT : 0 ≤ x.canTemp) :
    0 ≤ (urbCore S x).canWind ∧ 0 ≤ (urbCore S x).turbU ∧ 0 ≤ (urbCore S x).turbV ∧
      0 ≤ (urbCore S x).turbW := by
  have hw : 0 ≤ wstar S x := hS _ (wstarBase_nonneg x hg hz hd hcp hT)
  have hm : 0 ≤ ustarMod S x := le_trans hw (ustarMod_ge_wstar S x).1
  have h8 : 0 ≤ x.verToHor / 8 := by positivity
  refine ⟨mul_nonneg hm (hS2 _ h8), ?_, ?_, ?_⟩ <;> exact mul_nonneg (by norm_num) hm

/-- A normal return of the tail of `urbflux` yields `urbCore`; the base of the cube root was
    non-negative and no logarithm argument was ≤ 0. -/
theorem urbTail_ok (o : UrbOut K) (h : urbTail S x = .ok o) :
    o = urbCore S x ∧ 0 ≤ wstarBase x ∧ sumsWf x := by
  unfold urbTail at h
  split at h
  · simp at h
  · rename_i hg
    simp only [Except.ok.injEq] at h
    unfold urbGuards at hg
    rw [List.findSome?_eq_none_iff] at hg
    have h1 := hg (chk (wstarBase x < 0) .type) (by simp [urbGuardList])
    have h2 := hg (chk (¬ sumsWf x) .index) (by simp [urbGuardList])
    simp only [id, chk] at h1 h2
    refine ⟨h.symm, ?_, ?_⟩
    · by_contra hc
      rw [if_pos (not_le.mp hc)] at h1
      simp at h1
    · by_contra hc
      rw [if_pos hc] at h2
      simp at h2

end urb

/-- `uExch_nonneg` for the real power function: no hypothesis on the symbol is left. -/
theorem uExch_nonneg_real (x : UrbIn ℝ) (hex : 0 ≤ x.exCoeff) (hg : 0 ≤ x.g) (hz : 0 ≤ zref x)
    (hd : 0 ≤ Urb.dens x) (hcp : 0 ≤ x.cp) (hT : 0 ≤ x.canTemp) :
    0 ≤ uExch realSym x ∧ 0 ≤ (urbCore realSym x).canWind ∨ x.verToHor < 0 := by
  by_cases hv : 0 ≤ x.verToHor
  · left
    have hS : ∀ a : ℝ, 0 ≤ a → 0 ≤ realSym.rpow a (1 / 3) := fun a ha => Real.rpow_nonneg ha _
    have hS2 : ∀ a : ℝ, 0 ≤ a → 0 ≤ realSym.rpow a (-1 / 2) := fun a ha => Real.rpow_nonneg ha _
    exact ⟨(uExch_nonneg realSym x hS hex hg hz hd hcp hT).2.2.1,
      (canWind_nonneg realSym x hS hS2 hv hg hz hd hcp hT).1⟩
  · right; exact not_le.mp hv

/-! ## `UCMDef.__init__`: areas, shadowing, roughness and displacement lengths -/

/-- `areas_pos`. Building density in (0,1), positive height and facade ratio, tree coverage ≥ 0,
    and `0 < sqrt(bldDensity) < 1` (hypothesis on the symbol; true of the real root *and* of the
    rational stub `(d+1)/2`): whenever the constructor's geometry statements return, road, roof
    and facade areas are positive and `0 ≤ roadShad ≤ 1`. -/
theorem areas_pos (S : Sym K) (h dens vth tree veg : K) (g : Canyon.Geom K)
    (hgeo : Canyon.ucmGeometry S h dens vth tree veg = .ok g)
    (hh : 0 < h) (hd0 : 0 < dens) (hd1 : dens < 1) (hv : 0 < vth) (ht : 0 ≤ tree)
    (hs0 : 0 < S.sqrt dens) (hs1 : S.sqrt dens < 1) :
    0 < g.roadArea ∧ 0 < g.roofArea ∧ 0 < g.facArea ∧ 0 ≤ g.roadShad ∧ g.roadShad ≤ 1 := by
  unfold Canyon.ucmGeometry at hgeo
  simp only at hgeo
  generalize S.sqrt dens = r at hgeo hs0 hs1
  split_ifs at hgeo
  simp only [Except.ok.injEq] at hgeo
  subst hgeo
  simp only
  have hbw : 0 < 4 * h * dens / vth := by positivity
  have h1d : 0 < 1 - dens := by linarith
  refine ⟨?_, by positivity, by positivity, le_min (div_nonneg ht h1d.le) zero_le_one,
    min_le_right _ _⟩
  have hrr : r * r < 1 := by nlinarith
  have e : 4 * h * dens / vth / r * (4 * h * dens / vth / r) - (4 * h * dens / vth) ^ 2
      = (4 * h * dens / vth) ^ 2 * ((1 - r * r) / (r * r)) := by
    field_simp
  rw [e]
  have : 0 < (1 - r * r) / (r * r) := div_pos (by linarith) (by positivity)
  positivity

/-- `areas_partition`. Whenever the constructor's geometry statements return — for *any* value
    `r` the symbol `sqrt` gives for the density — the roof takes the fraction `r²` of the site
    (`roofArea + roadArea`), and `facArea · bldDensity = verToHor · roofArea`. With the true root
    (`r² = bldDensity`) this reads: `roofArea = bldDensity · site`, `facArea = verToHor · site` —
    the two defining ratios of the canyon are reproduced by the three areas. -/
theorem areas_partition (S : Sym K) (h dens vth tree veg : K) (g : Canyon.Geom K)
    (hgeo : Canyon.ucmGeometry S h dens vth tree veg = .ok g) :
    g.roofArea = S.sqrt dens ^ 2 * (g.roadArea + g.roofArea) ∧
    g.facArea * dens = vth * g.roofArea ∧
    (S.sqrt dens * S.sqrt dens = dens → g.roofArea = dens * (g.roadArea + g.roofArea) ∧
      g.facArea = vth * (g.roadArea + g.roofArea)) := by
  unfold Canyon.ucmGeometry at hgeo
  simp only at hgeo
  generalize S.sqrt dens = r at hgeo ⊢
  split_ifs at hgeo with c1 c2 c3 c4 c5 c6
  simp only [Except.ok.injEq] at hgeo
  subst hgeo
  simp only
  have e1 : (4 * h * dens / vth) ^ 2 = r ^ 2 * (4 * h * dens / vth / r * (4 * h * dens / vth / r) -
      (4 * h * dens / vth) ^ 2 + (4 * h * dens / vth) ^ 2) := by
    field_simp; ring
  have e2 : 4 * (4 * h * dens / vth) * h * dens = vth * (4 * h * dens / vth) ^ 2 := by
    field_simp
  refine ⟨e1, e2, fun hr => ?_⟩
  have hd : dens ≠ 0 := by
    intro h0; rw [h0] at hr
    exact c4 (mul_self_eq_zero.mp hr)
  have hr2 : r ^ 2 = dens := by rw [sq]; exact hr
  rw [hr2] at e1
  refine ⟨e1, ?_⟩
  have := congrArg (fun t => vth * t) e1
  beta_reduce at this
  rw [← e2] at this
  have h3 : 4 * (4 * h * dens / vth) * h * dens = (vth * (4 * h * dens / vth / r *
      (4 * h * dens / vth / r) - (4 * h * dens / vth) ^ 2 + (4 * h * dens / vth) ^ 2)) * dens := by
    rw [this]; ring
  exact mul_right_cancel₀ hd h3

/-- `areas_pos` over the reals: the constructor returns and the areas are positive — nothing is
    left as a hypothesis on `sqrt`. -/
theorem areas_pos_real (h dens vth tree veg : ℝ)
    (hh : 0 < h) (hd0 : 0 < dens) (hd1 : dens < 1) (hv : 0 < vth) (ht : 0 ≤ tree) :
    ∃ g, Canyon.ucmGeometry realSym h dens vth tree veg = .ok g ∧
      0 < g.roadArea ∧ 0 < g.roofArea ∧ 0 < g.facArea ∧ 0 ≤ g.roadShad ∧ g.roadShad ≤ 1 := by
  obtain ⟨g, hg, _⟩ := C13.geometry_positive_real h dens vth tree veg hh hd0 hd1 hv
  refine ⟨g, hg, areas_pos realSym h dens vth tree veg g hg hh hd0 hd1 hv ht
    (Real.sqrt_pos.mpr hd0) ?_⟩
  show Real.sqrt dens < 1
  rw [Real.sqrt_lt' one_pos]; simpa using hd1

/-- `z0u_ldisp_bounds`. For a positive building height and a non-negative facade ratio:
    `0 ≤ z0u ≤ 0.15·h` and `0 ≤ l_disp < 0.9975·h < h`; both are positive when the facade ratio
    is. (`l_disp` is *not* monotone in the facade ratio: it drops from just under `0.9975·h` to
    `0.5·h` at `frontDens = 1`.) -/
theorem z0u_ldisp_bounds (h v : K) (hh : 0 < h) (hv : 0 ≤ v) :
    0 ≤ z0u h v ∧ z0u h v ≤ 15 / 100 * h ∧ 0 ≤ lDisp h v ∧ lDisp h v < 399 / 400 * h ∧
    lDisp h v < h ∧ (0 < v → 0 < z0u h v ∧ 0 < lDisp h v) := by
  have hf : 0 ≤ frontDens v := by unfold frontDens; positivity
  have hfp : 0 < v → 0 < frontDens v := fun h0 => by unfold frontDens; positivity
  have key : ∀ c : K, c * h < 399 / 400 * h ↔ c < 399 / 400 := fun c =>
    mul_lt_mul_iff_of_pos_right hh
  simp only [z0u, lDisp]
  generalize frontDens v = f at hf hfp ⊢
  have l1 : 0 ≤ (if f < 5 / 100 then 3 * f * h
      else if f < 15 / 100 then (15 / 100 + 55 / 10 * (f - 5 / 100)) * h
      else if f < 1 then (7 / 10 + 35 / 100 * (f - 15 / 100)) * h else 1 / 2 * h) := by
    split_ifs with c1 c2 c3
    · positivity
    · have : 0 ≤ f - 5 / 100 := by linarith
      positivity
    · have : 0 ≤ f - 15 / 100 := by linarith
      positivity
    · positivity
  have l2 : (if f < 5 / 100 then 3 * f * h
      else if f < 15 / 100 then (15 / 100 + 55 / 10 * (f - 5 / 100)) * h
      else if f < 1 then (7 / 10 + 35 / 100 * (f - 15 / 100)) * h else 1 / 2 * h)
      < 399 / 400 * h := by
    split_ifs with c1 c2 c3 <;> rw [key] <;> linarith
  refine ⟨?_, ?_, l1, l2, by linarith, ?_⟩
  · split_ifs <;> positivity
  · split_ifs with c
    · exact mul_le_mul_of_nonneg_right c.le hh.le
    · exact le_rfl
  · intro h0
    have f0 := hfp h0
    constructor
    · split_ifs <;> positivity
    · split_ifs with c1 c2 c3
      · positivity
      · have : 0 ≤ f - 5 / 100 := by linarith
        positivity
      · have : 0 ≤ f - 15 / 100 := by linarith
        positivity
      · positivity

/-- Consequence for the logarithms of `urbflux`: with `z0u`, `l_disp` from the constructor
    (`h > 0`, facade ratio > 0) the arguments `(2h − l_disp)/z0u` and `2h/z0u` exceed 1 and
    `(z + h − l_disp)/z0u` is positive for every level `z ≥ 0`: no ValueError from these, and
    with the real logarithm `ustar` has the sign of `windUrb`. -/
theorem urban_log_args (h v : K) (hh : 0 < h) (hv : 0 < v) :
    1 < (2 * h - lDisp h v) / z0u h v ∧ 1 < 2 * h / z0u h v ∧
    ∀ z : K, 0 ≤ z → 0 < (z + h - lDisp h v) / z0u h v := by
  obtain ⟨_, b2, _, _, b5, b6⟩ := z0u_ldisp_bounds h v hh hv.le
  obtain ⟨z0, _⟩ := b6 hv
  refine ⟨?_, ?_, fun z hz => div_pos (by linarith) z0⟩
  · rw [lt_div_iff₀ z0]; linarith
  · rw [lt_div_iff₀ z0]; linarith

/-! ## Rural wind profile (`RSMDef.vdm`) -/

/-- One level of the rural wind profile is non-negative when `ustarRur / vk ≥ 0`, `log x ≥ 0`
    for `x ≥ 1` (hypothesis on the symbol) and the level is either caught by the ValueError
    branch (`(z − disp)/z0r ≤ 0`) or lies at least `z0r` above the displacement height.
    For `0 < (z − disp)/z0r < 1` the logarithm — and with it the wind — is negative: see the
    `example` at the end of this file. -/
theorem rsmWind_nonneg (S : Sym K) (u vk disp z0r z : K) (hS : ∀ a : K, 1 ≤ a → 0 ≤ S.log a)
    (hu : 0 ≤ u / vk) (hz : (z - disp) / z0r ≤ 0 ∨ 1 ≤ (z - disp) / z0r) :
    0 ≤ rsmWind S u vk disp z0r z := by
  unfold rsmWind
  split_ifs with c
  · exact le_rfl
  · rcases hz with hz | hz
    · exact absurd hz c
    · exact mul_nonneg hu (hS _ hz)

/-- `rsm_windProf_nonneg`. If the wind-profile loop of `vdm` returns, the profile keeps its
    length, and every entry is non-negative under the hypotheses of `rsmWind_nonneg` on the
    `nzref` levels (entries beyond `nzref`, which the loop does not touch, assumed ≥ 0). This is
    the hypothesis `∀ x ∈ windProf, 0 ≤ x` of `advCoef1_bounds` / `night_convex`. -/
theorem rsm_windProf_nonneg (S : Sym K) (u vk disp z0r : K) (hS : ∀ a : K, 1 ≤ a → 0 ≤ S.log a)
    (hu : 0 ≤ u / vk) : ∀ (n : Nat) (zs old out : List K),
    rsmWindLoop S u vk disp z0r n zs old = .ok out →
    (∀ z ∈ zs.take n, (z - disp) / z0r ≤ 0 ∨ 1 ≤ (z - disp) / z0r) →
    (∀ w ∈ old.drop n, 0 ≤ w) →
    out.length = old.length ∧ ∀ w ∈ out, 0 ≤ w
  | 0, zs, old, out, h, _, ho => by
    simp only [rsmWindLoop, Except.ok.injEq] at h
    subst h
    exact ⟨rfl, by simpa using ho⟩
  | n + 1, [], old, out, h, _, _ => by
    simp only [rsmWindLoop] at h
    split_ifs at h
  | n + 1, z :: zs', [], out, h, _, _ => by
    simp only [rsmWindLoop] at h
    split_ifs at h
  | n + 1, z :: zs', o :: old', out, h, hz, ho => by
    simp only [rsmWindLoop] at h
    split_ifs at h
    split at h
    · simp at h
    · rename_i rest hrest
      simp only [Except.ok.injEq] at h
      subst h
      obtain ⟨il, ih⟩ := rsm_windProf_nonneg S u vk disp z0r hS hu n zs' old' rest hrest
        (fun y hy => hz y (by simp [hy])) (by simpa using ho)
      refine ⟨by simp [il], ?_⟩
      intro w hw
      simp only [List.mem_cons] at hw
      rcases hw with rfl | hw
      · exact rsmWind_nonneg S u vk disp z0r z hS hu (hz z (by simp))
      · exact ih w hw

/-- the real logarithm satisfies the hypothesis on the symbol -/
theorem log_nonneg_real : ∀ a : ℝ, 1 ≤ a → 0 ≤ realSym.log a := fun _ ha => Real.log_nonneg ha

/-! ## `UBLDef.__init__`: number of cells, `paralLength`, and the loop bound of `nightforc` -/

/-- Python's `round` picks the floor or the floor + 1 according to the fractional part, ties to
    either (the even one). -/
theorem pyRound_cases (x : ℚ) : ∃ (f : ℤ) (t : ℚ), x = f + t ∧ 0 ≤ t ∧ t < 1 ∧
    ((t < 1 / 2 ∧ pyRound x = f) ∨ (1 / 2 < t ∧ pyRound x = f + 1) ∨
     (t = 1 / 2 ∧ (pyRound x = f ∨ pyRound x = f + 1))) := by
  have hd : (0 : ℤ) < (x.den : ℤ) := by exact_mod_cast x.den_pos
  have hdq : (0 : ℚ) < (x.den : ℚ) := by exact_mod_cast x.den_pos
  have e := Int.mul_ediv_add_emod x.num (x.den : ℤ)
  have r0 := Int.emod_nonneg x.num hd.ne'
  have r1 := Int.emod_lt_of_pos x.num hd
  set f := x.num / (x.den : ℤ) with hf
  set r := x.num % (x.den : ℤ) with hr
  have hx : x = (f : ℚ) + (r : ℚ) / (x.den : ℚ) := by
    have h1 : (x.num : ℚ) = (x.den : ℚ) * f + r := by exact_mod_cast e.symm
    have h2 := Rat.num_div_den x
    conv_lhs => rw [← h2, h1]
    field_simp
  refine ⟨f, (r : ℚ) / (x.den : ℚ), hx, by positivity, ?_, ?_⟩
  · rw [div_lt_one hdq]; exact_mod_cast r1
  · have hp : pyRound x = if r * 2 < (x.den : ℤ) then f else if r * 2 > (x.den : ℤ) then f + 1
        else if f % 2 = 0 then f else f + 1 := rfl
    by_cases c1 : r * 2 < (x.den : ℤ)
    · left
      rw [hp, if_pos c1]
      refine ⟨?_, rfl⟩
      rw [div_lt_iff₀ hdq]
      have : ((r * 2 : ℤ) : ℚ) < ((x.den : ℤ) : ℚ) := by exact_mod_cast c1
      push_cast at this; linarith
    · by_cases c2 : r * 2 > (x.den : ℤ)
      · right; left
        rw [hp, if_neg c1, if_pos c2]
        refine ⟨?_, rfl⟩
        rw [lt_div_iff₀ hdq]
        have : ((x.den : ℤ) : ℚ) < ((r * 2 : ℤ) : ℚ) := by exact_mod_cast c2
        push_cast at this; linarith
      · right; right
        have e2 : r * 2 = (x.den : ℤ) := by omega
        constructor
        · rw [div_eq_iff hdq.ne']
          have : ((r * 2 : ℤ) : ℚ) = ((x.den : ℤ) : ℚ) := by exact_mod_cast e2
          push_cast at this; linarith
        · rw [hp, if_neg c1, if_neg c2]
          split_ifs <;> simp

/-- `|x − round(x)| ≤ 1/2`. -/
theorem pyRound_bounds (x : ℚ) :
    2 * x - 1 ≤ 2 * (pyRound x : ℚ) ∧ 2 * (pyRound x : ℚ) ≤ 2 * x + 1 := by
  obtain ⟨f, t, hx, t0, t1, h⟩ := pyRound_cases x
  rcases h with ⟨a, b⟩ | ⟨a, b⟩ | ⟨a, b | b⟩ <;> rw [b, hx] <;> push_cast <;> constructor <;> linarith
/-- `int(x)` of a non-negative rational is its floor -/
theorem tdiv_num_den (x : ℚ) (hx : 0 ≤ x) : x.num.tdiv (x.den : ℤ) = (⌊x⌋₊ : ℤ) := by
  have hn : 0 ≤ x.num := Rat.num_nonneg.mpr hx
  rw [Int.tdiv_eq_ediv_of_nonneg hn, ← Rat.floor_def', Int.natCast_floor_eq_floor hx]

/-- The loop bound of `nightforc` for `paralLength = charLength / n`:
    `int(L) // int(L/n) = ⌊L⌋ // (⌊L⌋ // n)` (ZeroDivisionError when `⌊L⌋ < n`). -/
theorem loopCount_div (L : ℚ) (n : ℕ) (hL : 0 ≤ L) :
    loopCount L (L / n) =
      if ⌊L⌋₊ / n = 0 then none else some (⌊L⌋₊ / (⌊L⌋₊ / n)) := by
  have hp : 0 ≤ L / (n : ℚ) := by positivity
  unfold loopCount
  simp only
  rw [tdiv_num_den L hL, tdiv_num_den _ hp, Nat.floor_div_natCast]
  by_cases hq : ⌊L⌋₊ / n = 0
  · rw [if_pos (by exact_mod_cast hq), if_pos hq]
  · rw [if_neg (by exact_mod_cast hq), if_neg hq]
    congr 1
    rw [Int.fdiv_eq_ediv_of_nonneg _ (by positivity)]
    exact_mod_cast Int.toNat_natCast _

/-- `A // (A // n) = n` exactly when the remainder of `A / n` is smaller than the quotient. -/
theorem nat_count_iff (A n : ℕ) (hq : 1 ≤ A / n) :
    A / (A / n) = n ↔ A % n < A / n := by
  have e := Nat.div_add_mod A n
  rw [Nat.div_eq_iff (by omega)]
  generalize A / n = q at *
  generalize A % n = s at *
  generalize n * q = m at *
  omega

/-- … and it is never smaller than `n`. -/
theorem nat_count_ge (A n : ℕ) (hq : 1 ≤ A / n) : n ≤ A / (A / n) := by
  rw [Nat.le_div_iff_mul_le (by omega)]
  exact Nat.mul_div_le A n

/-- the ratio that is rounded is ≥ 1 for `L ≥ 1`, `m > 0` -/
theorem ratio_ge_one (L m : ℚ) (hL : 1 ≤ L) (hm : 0 < m) :
    0 < min L m ∧ 1 ≤ L / min L m := by
  have h0 : 0 < min L m := lt_min (by linarith) hm
  exact ⟨h0, by rw [le_div_iff₀ h0]; linarith [min_le_left L m]⟩

theorem pyRound_pos (x : ℚ) (hx : 1 ≤ x) : 1 ≤ pyRound x := by
  have := (pyRound_bounds x).1
  have h2 : (1 : ℚ) ≤ 2 * (pyRound x : ℚ) := by linarith
  have h3 : ((1 : ℤ) : ℚ) ≤ ((2 * pyRound x : ℤ) : ℚ) := by push_cast; linarith
  have h4 : (1 : ℤ) ≤ 2 * pyRound x := by exact_mod_cast h3
  omega

/-- `cells_count`. For `charLength = L ≥ 1` and `maxdx = m > 0`, **in exact arithmetic**, the
    constructor returns; it creates `numdx = round(L / min(L, m)) ≥ 1` cells;
    `paralLength = L / numdx > 0`, so `charLength = numdx · paralLength`; and the loop bound of
    `nightforc`, `int(L) // int(paralLength)`, equals the number of cells **iff**
    `⌊L⌋ // numdx ≥ 1` and `⌊L⌋ mod numdx < ⌊L⌋ // numdx`. When `⌊L⌋ // numdx ≥ 1` the loop
    bound is never *smaller* than the number of cells (so a mismatch is always an IndexError in
    `nightforc`, `night_partial_count`, never a silently shortened loop); when
    `⌊L⌋ // numdx = 0` it is a ZeroDivisionError. -/
theorem cells_count (L m : ℚ) (hL : 1 ≤ L) (hm : 0 < m) :
    ∃ g, ublInit L m = .ok g ∧ 1 ≤ g.ncells ∧ g.numdx = (g.ncells : ℤ) ∧
      g.numdx = pyRound (L / min L m) ∧
      g.paralLength = L / (g.ncells : ℚ) ∧ L = (g.ncells : ℚ) * g.paralLength ∧
      0 < g.paralLength ∧
      (loopCount L g.paralLength = some g.ncells ↔
        (1 ≤ ⌊L⌋₊ / g.ncells ∧ ⌊L⌋₊ % g.ncells < ⌊L⌋₊ / g.ncells)) ∧
      (1 ≤ ⌊L⌋₊ / g.ncells → ∃ k, loopCount L g.paralLength = some k ∧ g.ncells ≤ k) ∧
      (⌊L⌋₊ / g.ncells = 0 → loopCount L g.paralLength = none) := by
  obtain ⟨h0, h1⟩ := ratio_ge_one L m hL hm
  have hn := pyRound_pos _ h1
  obtain ⟨n, hn'⟩ : ∃ n : ℕ, pyRound (L / min L m) = (n : ℤ) :=
    ⟨(pyRound (L / min L m)).toNat, (Int.toNat_of_nonneg (by omega)).symm⟩
  have hn1 : 1 ≤ n := by omega
  have hnq : (0 : ℚ) < (n : ℚ) := by exact_mod_cast hn1
  have hL0 : 0 ≤ L := by linarith
  refine ⟨{ perimeter := 4 * L, urbArea := L ^ 2, orthLength := L, numdx := (n : ℤ),
            paralLength := L / ((n : ℤ) : ℚ), ncells := n }, ?_, hn1, rfl, hn'.symm, ?_, ?_, ?_,
          ?_, ?_, ?_⟩
  · unfold ublInit
    rw [if_neg h0.ne']
    simp only [hn']
    rw [if_neg (by omega)]
    simp
  · simp
  · simp only [Int.cast_natCast]; field_simp
  · simp only [Int.cast_natCast]; positivity
  · dsimp only
    simp only [Int.cast_natCast]
    rw [loopCount_div L n hL0]
    by_cases hq : ⌊L⌋₊ / n = 0
    · rw [if_pos hq]; simp [hq]
    · rw [if_neg hq]
      have hq1 : 1 ≤ ⌊L⌋₊ / n := Nat.pos_of_ne_zero hq
      simp only [Option.some.injEq, nat_count_iff _ _ hq1, hq1, true_and]
  · intro hq1
    dsimp only at hq1 ⊢
    simp only [Int.cast_natCast]
    rw [loopCount_div L n hL0, if_neg (Nat.pos_iff_ne_zero.mp hq1)]
    exact ⟨_, rfl, nat_count_ge _ _ hq1⟩
  · intro hq
    dsimp only at hq ⊢
    simp only [Int.cast_natCast]
    rw [loopCount_div L n hL0, if_pos hq]

/-- the arithmetic heart of `cells_count_int` (`n ≤ A/M + 1/2` is all that is used of `round`) -/
theorem int_condition (A M n : ℕ) (hn : 1 ≤ n) (hA1 : 1 ≤ A)
    (h1 : 2 * n * M ≤ 2 * A + M) (hA : 2 * A < 2 * M * M + M) (hne : A + 1 ≠ M * M) :
    1 ≤ A / n ∧ A % n < A / n := by
  obtain ⟨k, rfl⟩ : ∃ k, n = k + 1 := ⟨n - 1, by omega⟩
  have hnM : k + 1 ≤ M := by
    by_contra hc
    have : M + 1 ≤ k + 1 := by omega
    nlinarith
  have hAk : k * (k + 1) ≤ A := by
    have := Nat.mul_le_mul_left (2 * k + 1) hnM
    nlinarith
  have hqk : k ≤ A / (k + 1) := by
    rw [Nat.le_div_iff_mul_le (by omega)]; exact hAk
  have e := Nat.div_add_mod A (k + 1)
  have hs := Nat.mod_lt A (show 0 < k + 1 by omega)
  constructor
  · rcases Nat.eq_zero_or_pos k with rfl | hk
    · simpa using hA1
    · omega
  · by_contra hc
    have hq : A / (k + 1) = k := by omega
    have hs' : A % (k + 1) = k := by omega
    rw [hq, hs'] at e
    have hM2 : M ≤ k + 1 := by
      by_contra hc2
      have : k + 2 ≤ M := by omega
      have := Nat.mul_le_mul_left (2 * k + 1) this
      nlinarith
    have : M = k + 1 := by omega
    subst this
    apply hne
    rw [← e]; ring

/-- `cells_count_int`: the explicit condition on `(charLength, maxdx)`. For positive integers
    `charLength = A`, `maxdx = M` with `A < M² + M/2` and `A ≠ M² − 1`, the loop bound
    `int(charLength) // int(paralLength)` equals the number of cells the constructor created.
    For `M = 250` (the value uwg uses) this is every integer `1 ≤ A ≤ 62624` except `62499`. -/
theorem cells_count_int (A M : ℕ) (hA1 : 1 ≤ A) (hM : 1 ≤ M) (hA : 2 * A < 2 * M * M + M)
    (hne : A + 1 ≠ M * M) :
    ∃ g, ublInit (A : ℚ) (M : ℚ) = .ok g ∧ loopCount (A : ℚ) g.paralLength = some g.ncells ∧
      1 ≤ g.ncells ∧ (A : ℚ) = (g.ncells : ℚ) * g.paralLength ∧ 0 < g.paralLength := by
  have hAq : (1 : ℚ) ≤ (A : ℚ) := by exact_mod_cast hA1
  have hMq : (0 : ℚ) < (M : ℚ) := by exact_mod_cast hM
  obtain ⟨g, hg, hn1, hnum, hround, _, hL, hp, hiff, _, _⟩ := cells_count (A : ℚ) (M : ℚ) hAq hMq
  refine ⟨g, hg, ?_, hn1, hL, hp⟩
  rw [hiff, Nat.floor_natCast]
  have hb := pyRound_bounds ((A : ℚ) / min (A : ℚ) (M : ℚ))
  rw [← hround, hnum] at hb
  simp only [Int.cast_natCast] at hb
  rcases le_or_gt A M with hle | hlt
  · -- one cell
    have hmin : min (A : ℚ) (M : ℚ) = (A : ℚ) := min_eq_left (by exact_mod_cast hle)
    rw [hmin, div_self (by positivity)] at hb
    have h2 : (2 * g.ncells : ℚ) ≤ 3 := by linarith [hb.2]
    have h3 : 2 * g.ncells ≤ 3 := by exact_mod_cast h2
    have : g.ncells = 1 := by omega
    rw [this]; simp; omega
  · have hmin : min (A : ℚ) (M : ℚ) = (M : ℚ) := min_eq_right (by exact_mod_cast hlt.le)
    rw [hmin] at hb
    have h2 : 2 * (g.ncells : ℚ) * M ≤ 2 * A + M := by
      have := mul_le_mul_of_nonneg_right hb.2 hMq.le
      have e : (2 * ((A : ℚ) / M) + 1) * M = 2 * A + M := by field_simp
      linarith
    have h3 : 2 * g.ncells * M ≤ 2 * A + M := by exact_mod_cast h2
    exact int_condition A M g.ncells hn1 hA1 h3 hA hne

/-- The exception is real: for every integer `maxdx = M ≥ 3` and `charLength = M² − 1` the
    constructor creates `M` cells but the loop bound is `M + 1` (→ IndexError in `nightforc`).
    `M = 250`: `charLength = 62499`. -/
theorem cells_count_fails (M : ℕ) (hM : 3 ≤ M) :
    ∃ g, ublInit ((M * M - 1 : ℕ) : ℚ) (M : ℚ) = .ok g ∧ g.ncells = M ∧
      loopCount ((M * M - 1 : ℕ) : ℚ) g.paralLength = some (M + 1) := by
  obtain ⟨j, rfl⟩ : ∃ j, M = j + 1 := ⟨M - 1, by omega⟩
  have hj : 2 ≤ j := by omega
  have hAe : (j + 1) * (j + 1) - 1 = j * j + 2 * j := by
    have : (j + 1) * (j + 1) = j * j + 2 * j + 1 := by ring
    omega
  rw [hAe]
  set A := j * j + 2 * j with hA
  have hA1 : (1 : ℚ) ≤ (A : ℚ) := by
    have : 1 ≤ A := by nlinarith
    exact_mod_cast this
  have hMq : (0 : ℚ) < ((j + 1 : ℕ) : ℚ) := by positivity
  obtain ⟨g, hg, hn1, hnum, hround, hpar, _, _, _, _, _⟩ :=
    cells_count (A : ℚ) ((j + 1 : ℕ) : ℚ) hA1 hMq
  have hlt : j + 1 < A := by nlinarith
  have hmin : min (A : ℚ) ((j + 1 : ℕ) : ℚ) = ((j + 1 : ℕ) : ℚ) :=
    min_eq_right (by exact_mod_cast hlt.le)
  have hb := pyRound_bounds ((A : ℚ) / min (A : ℚ) ((j + 1 : ℕ) : ℚ))
  rw [← hround, hnum, hmin] at hb
  simp only [Int.cast_natCast] at hb
  have e : ((A : ℚ) / ((j + 1 : ℕ) : ℚ)) * ((j + 1 : ℕ) : ℚ) = A := by field_simp
  have hn : g.ncells = j + 1 := by
    have u1 : 2 * (g.ncells : ℚ) * ((j + 1 : ℕ) : ℚ) ≤ 2 * A + ((j + 1 : ℕ) : ℚ) := by
      have := mul_le_mul_of_nonneg_right hb.2 hMq.le
      nlinarith
    have u2 : 2 * (A : ℚ) - ((j + 1 : ℕ) : ℚ) ≤ 2 * (g.ncells : ℚ) * ((j + 1 : ℕ) : ℚ) := by
      have := mul_le_mul_of_nonneg_right hb.1 hMq.le
      nlinarith
    have v1 : 2 * g.ncells * (j + 1) ≤ 2 * A + (j + 1) := by exact_mod_cast u1
    have v2 : 2 * A ≤ 2 * g.ncells * (j + 1) + (j + 1) := by
      have : 2 * (A : ℚ) ≤ 2 * (g.ncells : ℚ) * ((j + 1 : ℕ) : ℚ) + ((j + 1 : ℕ) : ℚ) := by
        linarith
      exact_mod_cast this
    have w1 : g.ncells ≤ j + 1 := by
      by_contra hc
      have : j + 2 ≤ g.ncells := by omega
      have := Nat.mul_le_mul_right (j + 1) this
      nlinarith
    have w2 : j + 1 ≤ g.ncells := by
      by_contra hc
      have : g.ncells ≤ j := by omega
      have := Nat.mul_le_mul_right (j + 1) this
      nlinarith
    omega
  refine ⟨g, hg, hn, ?_⟩
  rw [hpar, hn, loopCount_div _ _ (by linarith), Nat.floor_natCast]
  have q1 : A / (j + 1) = j := Nat.div_eq_of_lt_le (by nlinarith) (by nlinarith)
  have q2 : A / j = j + 2 := Nat.div_eq_of_lt_le (by nlinarith) (by nlinarith)
  rw [q1, if_neg (by omega), q2]

/-- with a loop count equal to the (positive) number of cells `nightforc` does not raise -/
theorem nightforc_returns (cells : List ℚ) (n : ℕ) (hn : n = cells.length) (h1 : 1 ≤ n)
    (csurf a1 a2 pL cL : ℚ) : ∃ t cs, nightforc cells n csurf a1 a2 pL cL = some (t, cs) := by
  match cells, hn with
  | [], hn => simp at hn; omega
  | c0 :: rest, hn =>
    unfold nightforc
    simp only
    rw [if_neg (by simp [hn])]
    exact ⟨_, _, rfl⟩

/-- `night_mean_of_constructor`. For a boundary layer built by `UBLDef.__init__` from integers
    `charLength = A`, `maxdx = M` under the condition of `cells_count_int`, and any state of its
    `ncells` cells: the loop bound is the number of cells, `nightforc` returns, no cell is lost
    and the returned temperature is the arithmetic mean of the returned cells — the loop-count
    and `charLength = n·paralLength` hypotheses of `night_mean` are discharged. -/
theorem night_mean_of_constructor (A M : ℕ) (hA1 : 1 ≤ A) (hM : 1 ≤ M)
    (hA : 2 * A < 2 * M * M + M) (hne : A + 1 ≠ M * M)
    (g : UblGeom) (hg : ublInit (A : ℚ) (M : ℚ) = .ok g)
    (cells : List ℚ) (hc : cells.length = g.ncells) (csurf a1 a2 : ℚ) :
    ∃ n t cs, loopCount (A : ℚ) g.paralLength = some n ∧ n = cells.length ∧
      nightforc cells n csurf a1 a2 g.paralLength (A : ℚ) = some (t, cs) ∧
      cs.length = cells.length ∧ t = listSum cs / (cells.length : ℚ) := by
  obtain ⟨g', hg', hcount, hn1, hL, hp⟩ := cells_count_int A M hA1 hM hA hne
  rw [hg] at hg'
  simp only [Except.ok.injEq] at hg'
  subst hg'
  obtain ⟨t, cs, hnf⟩ := nightforc_returns cells g.ncells hc.symm hn1 csurf a1 a2 g.paralLength A
  obtain ⟨m1, m2⟩ := night_mean cells g.ncells csurf a1 a2 g.paralLength (A : ℚ) t cs hnf
    hc.symm hL hp.ne'
  exact ⟨g.ncells, t, cs, hcount, hc.symm, hnf, m1, by rw [m2, hc]⟩

/-- `cells_count_int` at `maxdx = 250`: every integer `charLength` from 1 to 62498 (and
    62500 … 62624). -/
theorem cells_count_250 (A : ℕ) (hA1 : 1 ≤ A) (hA : A ≤ 62624) (hne : A ≠ 62499) :
    ∃ g, ublInit (A : ℚ) 250 = .ok g ∧ loopCount (A : ℚ) g.paralLength = some g.ncells := by
  obtain ⟨g, h1, h2, _⟩ := cells_count_int A 250 hA1 (by norm_num) (by omega) (by omega)
  exact ⟨g, by simpa using h1, h2⟩

/-! ## Composition: the weights handed to `UCModel` -/

/-- `canyon_weights_nonneg`. The canyon object `u` that `UCModel` reads satisfies the weight
    hypotheses `UcmNonneg` of `canyon_convex` when

    * its areas are the ones `UCMDef.__init__` computed (`ucmGeometry … = .ok g`) for a density
      in (0,1), positive height and facade ratio (`areas_pos`; symbol hypothesis
      `0 < sqrt d < 1`),
    * `road.aeroCond` is what `SurfFlux` set from a reference wind `≥ 0` (`aeroCond_pos`) — the
      reference wind is `UCM.canWind` of the previous step, `≥ 0` by `canWind_nonneg`, or the
      initial wind,
    * `uExch` is what the tail of `urbflux` set (`uExch_nonneg`; symbol hypothesis
      `x ** (1/3.) ≥ 0` for `x ≥ 0`) with `exCoeff, g, zref, cp ≥ 0`,

    and — **still hypotheses**, nothing in the modelled code enforces them — pressure ≥ 0,
    canyon and boundary-layer temperatures > 0, humidities ≥ 0, `cp ≥ 0`. -/
theorem canyon_weights_nonneg (S : Sym K) (u : UcmIn K) (x : UrbIn K)
    (h dens vth tree veg : K) (g : Canyon.Geom K) (windRef : K)
    (hgeo : Canyon.ucmGeometry S h dens vth tree veg = .ok g)
    (hh : 0 < h) (hd0 : 0 < dens) (hd1 : dens < 1) (hv : 0 < vth) (ht : 0 ≤ tree)
    (hs0 : 0 < S.sqrt dens) (hs1 : S.sqrt dens < 1)
    (hroad : u.roadArea = g.roadArea) (hroof : u.roofArea = g.roofArea)
    (hfac : u.facArea = g.facArea) (hbh : u.bldHeight = h)
    (haero : u.aeroCond = aeroCond windRef) (hw : 0 ≤ windRef)
    (hex : u.uExch = (urbCore S x).uExch)
    (hS : ∀ a : K, 0 ≤ a → 0 ≤ S.rpow a (1 / 3)) (hexc : 0 ≤ x.exCoeff) (hg : 0 ≤ x.g)
    (hz : 0 ≤ zref x) (hxp : 0 ≤ x.pres) (hxT : 0 < x.canTemp) (hxq : 0 ≤ x.canHum)
    (hxcp : 0 ≤ x.cp)
    (hcp : 0 ≤ u.cp) (hp : 0 ≤ u.pres) (hT : 0 < u.canTemp) (hTu : 0 < u.tUbl)
    (hq : 0 ≤ u.canHum) (hqf : 0 ≤ u.forcHum) :
    UcmNonneg u := by
  obtain ⟨a1, a2, a3, _, _⟩ := areas_pos S h dens vth tree veg g hgeo hh hd0 hd1 hv ht hs0 hs1
  have dpos : ∀ p T q : K, 0 ≤ p → 0 < T → 0 ≤ q → 0 ≤ airDens p T q := fun p T q h1 h2 h3 =>
    div_nonneg h1 (by unfold airDensDen; positivity)
  have hxd : 0 ≤ Urb.dens x := dpos _ _ _ hxp hxT hxq
  exact {
    aeroCond := by rw [haero]; exact (aeroCond_pos windRef hw).1.le
    roadArea := by rw [hroad]; exact a1.le
    roofArea := by rw [hroof]; exact a2.le
    facArea := by rw [hfac]; exact a3.le
    uExch := by rw [hex]; exact (uExch_nonneg S x hS hexc hg hz hxd hxcp hxT.le).2.2.2
    cp := hcp
    dens := dpos _ _ _ hp hT hq
    densUbl := dpos _ _ _ hp hTu hqf
    bldHeight := by rw [hbh]; exact hh.le }

/-- Between `lo` and `hi`: `canyon_convex` for a canyon whose weights come from the modelled
    code (`canyon_weights_nonneg`) — the composed statement. -/
theorem canyon_convex_of_code (u : UcmIn K) (hu : UcmNonneg u) (lo hi : K) (bs : List (Bld K))
    (hroad : lo ≤ u.tRoad ∧ u.tRoad ≤ hi) (hubl : lo ≤ u.tUbl ∧ u.tUbl ≤ hi)
    (hb : ∀ b ∈ bs, BldNonneg b ∧ (lo ≤ b.indoorTemp ∧ b.indoorTemp ≤ hi) ∧
      (lo ≤ b.tWall ∧ b.tWall ≤ hi))
    (hQ : ucQ u bs = 0) (hroadA : 0 < u.roadArea) (haero : 0 < u.aeroCond)
    (hsum : 0 ≤ sumH2 u bs) :
    0 < ucH2 u bs ∧ lo ≤ canTempNew u bs ∧ canTempNew u bs ≤ hi := by
  have hH2 : 0 < ucH2 u bs := by
    unfold ucH2
    have w1 : 0 < u.aeroCond * u.roadArea := mul_pos haero hroadA
    have w2 : 0 ≤ u.roadArea * u.uExch * u.cp * densUbl u :=
      mul_nonneg (mul_nonneg (mul_nonneg hu.roadArea hu.uExch) hu.cp) hu.densUbl
    linarith
  exact ⟨hH2, canyon_convex u hu lo hi bs hroad hubl hb hQ hH2⟩

/-- the rural wind is *negative* on a level with `0 < (z − disp)/z0r < 1` (real logarithm,
    `ustarRur / vk > 0`): the hypothesis of `rsmWind_nonneg` on the levels cannot be dropped -/
theorem rsmWind_neg_real (u vk disp z0r z : ℝ) (hu : 0 < u / vk) (h0 : 0 < (z - disp) / z0r)
    (h1 : (z - disp) / z0r < 1) : rsmWind realSym u vk disp z0r z < 0 := by
  unfold rsmWind
  rw [if_neg (not_le.mpr h0)]
  exact mul_neg_of_pos_of_neg hu (Real.log_neg h0 h1)

/-! ## Non-vacuity (kernel-evaluated over ℚ) -/
section examples

/-- the call returned and its result satisfies `p` -/
def okAnd {ε α : Type} (e : Except ε α) (p : α → Bool) : Bool :=
  match e with
  | .ok a => p a
  | .error _ => false

/-- 1000 m at maxdx = 250 m: 4 cells of 250 m, loop bound 4 -/
example : okAnd (ublInit 1000 250) (fun g => decide (g.ncells = 4 ∧ g.numdx = 4 ∧
    g.paralLength = 250 ∧ loopCount 1000 g.paralLength = some 4)) = true := by decide +kernel

/-- the first integer charLength for which the loop bound is wrong: 250 cells, bound 251 -/
example : okAnd (ublInit 62499 250) (fun g => decide (g.ncells = 250 ∧
    loopCount 62499 g.paralLength = some 251)) = true := by decide +kernel

/-- ties go to the even integer: 375/250 = 1.5 → 2, 625/250 = 2.5 → 2 -/
example : pyRound (375 / 250) = 2 ∧ pyRound (625 / 250) = 2 ∧ pyRound (626 / 250) = 3 ∧
    pyRound 1 = 1 ∧ pyRound (-3 / 2) = -2 := by decide +kernel

/-- a canyon as the constructor builds it (stub root), and the derived lengths -/
example : okAnd (Canyon.ucmGeometry stubQ 10 (1/4) (4/5) (1/10) (1/5)) (fun g => decide
      (0 < g.roadArea ∧ 0 < g.roofArea ∧ 0 < g.facArea ∧ 0 ≤ g.roadShad ∧ g.roadShad ≤ 1)) = true ∧
    (0 < stubQ.sqrt (1/4) ∧ stubQ.sqrt (1/4) < 1) ∧
    z0u (10 : ℚ) (4/5) = 3/2 ∧ lDisp (10 : ℚ) (4/5) = 287/40 := by decide +kernel

def exRsmU : Rsm ℚ :=
  { nzref := 3, nzfor := 2, densityProfC := [12/10, 119/100, 118/100],
    dz := [4, 6, 10], z := [2, 7, 15], tempProf := [300, 300, 299], windProf := [2, 3, 4] }

def exUrb : UrbIn ℚ :=
  { rsm := exRsmU, z0r := 1/2, paralLength := 250, ublTemp := 299, urbArea := 1000000,
    wind := 4, pres := 101325, cp := 1004, windHeight := 10, vk := 2/5, g := 981/100,
    exCoeff := 3/10, canTemp := 298, canHum := 1/100, bldHeight := 10, z0u := 3/2,
    lDisp := 287/40, sensHeat := 120, verToHor := 4/5, windProf0 := [] }

/-- a state in which the tail of `urbflux` returns (no guard fires) and every weight hypothesis
    holds; the convective velocity exceeds the friction velocity here (`ustarMod = wstar`) -/
example : urbGuards stubQ exUrb = none ∧ 0 ≤ wstarBase exUrb ∧ 0 < Urb.dens exUrb ∧
    0 ≤ (urbCore stubQ exUrb).uExch ∧ (urbCore stubQ exUrb).windProf.length = 3 := by
  decide +kernel

/-- rural wind profile: level 0 below the displacement height (ValueError branch → 0), the
    others at least `z0r` above it -/
example : rsmWindLoop stubQ (1/2) (2/5) 3 (1/2) 3 [2, 7, 15] [1, 1, 1] = .ok [0, 35/4, 115/4] := by
  decide +kernel

end examples

end Uwg.C15
