/-
C08 — Optional building overrides take effect at every accepted value.
Property theorems about `Uwg.Bem.computeBEM` / `generateBEM` (model of `UWG._compute_BEM`, `generate`),
shared with C07. An override is an `Option K`: `none` = left unset, `some v` = set to `v`; the
theorems hold for **every** `v` (0 and 1 included) and every combination of the six options, i.e.
for all 2⁶ subsets at once. No well-formedness of the library is needed.
-/
import UwgVerif.Props.C07

namespace Uwg.C08
open Uwg.Bem
variable {K : Type} [Field K] [DecidableEq K]

/-- `b` is an archetype stored in zone column `z` of the library. -/
def IsCell (z : Nat) (lib : Lib K) (b : Arch K) : Prop :=
  ∃ row ∈ lib, ∃ j, cell row j z = .ok (some b)

/-- `generate` is "customise (or not), then `_compute_BEM`". -/
theorem generateBEM_ok_elim {P : Params K} {cs : List (Arch K)} {lib : Lib K}
    {out : List (Entry K) × Totals K} (h : generateBEM P cs lib = .ok out) :
    ∃ lib', (cs = [] ∧ lib' = lib ∨ customize P.zone cs lib = .ok lib') ∧
      computeBEM P lib' = .ok out := by
  unfold generateBEM at h
  cases cs with
  | nil => exact ⟨lib, Or.inl ⟨rfl, rfl⟩, h⟩
  | cons c cs =>
    simp only at h
    split at h
    · cases h
    · rename_i lib' hl; exact ⟨lib', Or.inr hl, h⟩

/-- Every simulated building is a library archetype with the overrides applied (`applyOv` replaces
    exactly the six overridable attributes, each by its own option). -/
theorem entries_closed_form (P : Params K) (lib : Lib K) (es : List (Entry K)) (tot : Totals K)
    (h : computeBEM P lib = .ok (es, tot)) :
    ∃ z, zoneIdx? P.zone = some z ∧
      ∀ e ∈ es, ∃ b, IsCell z lib b ∧ e.arch = applyOv P b ∧ e.flArea = e.frac * area P := by
  obtain ⟨_, z, rows, hs, hz, _, hsc, _, hes, _⟩ := computeBEM_ok_elim h
  refine ⟨z, hz, fun e he => ?_⟩
  rw [hes] at he
  obtain ⟨h', hh', rfl⟩ := List.mem_map.1 he
  rw [scan_ok hsc] at hh'
  obtain ⟨row, hrow, _, _, a, _, _, _, hb⟩ := mem_libHits hh'
  exact ⟨h'.src, ⟨row, hrow, a.era, cellD_some_cell hb⟩, rfl, rfl⟩

/-- **T1.** An override that is set — to any value, 0 and 1 included — is the value carried by
    every simulated building (all six overrides). -/
theorem override_applied (P : Params K) (lib : Lib K) (es : List (Entry K)) (tot : Totals K)
    (h : computeBEM P lib = .ok (es, tot)) :
    (∀ v, P.glzr = some v → ∀ e ∈ es, e.arch.glz = v) ∧
    (∀ v, P.shgc = some v → ∀ e ∈ es, e.arch.shgc = v) ∧
    (∀ v, P.albwall = some v → ∀ e ∈ es, e.arch.albWall = v) ∧
    (∀ v, P.albroof = some v → ∀ e ∈ es, e.arch.albRoof = v) ∧
    (∀ v, P.vegroof = some v → ∀ e ∈ es, e.arch.vegRoof = v) ∧
    (∀ v, P.flrh = some v → ∀ e ∈ es, e.arch.flrH = v) := by
  obtain ⟨z, _, hcf⟩ := entries_closed_form P lib es tot h
  refine ⟨?_, ?_, ?_, ?_, ?_, ?_⟩ <;>
  · intro v hv e he
    obtain ⟨b, _, hb, _⟩ := hcf e he
    rw [hb]; simp only [applyOv, hv, ov]

/-- **T2.** An override left unset leaves each simulated archetype's reference value untouched:
    the building is a library cell `b` of the zone column (same type, era and object identity)
    and carries `b`'s own value of that attribute. -/
theorem override_unset (P : Params K) (lib : Lib K) (es : List (Entry K)) (tot : Totals K)
    (h : computeBEM P lib = .ok (es, tot)) :
    ∃ z, zoneIdx? P.zone = some z ∧ ∀ e ∈ es, ∃ b, IsCell z lib b ∧
      e.arch.bldtype = b.bldtype ∧ e.arch.era = b.era ∧ e.arch.pid = b.pid ∧
      (P.glzr = none → e.arch.glz = b.glz) ∧
      (P.shgc = none → e.arch.shgc = b.shgc) ∧
      (P.albwall = none → e.arch.albWall = b.albWall) ∧
      (P.albroof = none → e.arch.albRoof = b.albRoof) ∧
      (P.vegroof = none → e.arch.vegRoof = b.vegRoof) ∧
      (P.flrh = none → e.arch.flrH = b.flrH) := by
  obtain ⟨z, hz, hcf⟩ := entries_closed_form P lib es tot h
  refine ⟨z, hz, fun e he => ?_⟩
  obtain ⟨b, hcell, hb, _⟩ := hcf e he
  refine ⟨b, hcell, by rw [hb]; rfl, by rw [hb]; rfl, by rw [hb]; rfl, ?_, ?_, ?_, ?_, ?_, ?_⟩ <;>
  · intro hn; rw [hb]; simp only [applyOv, hn, ov]

private theorem totals_acc (es : List (Entry K)) (t : Totals K) :
    es.foldl (fun t e =>
      ({ rGlaze := t.rGlaze + e.frac * e.arch.glz
         shgc := t.shgc + e.frac * e.arch.shgc
         albWall := t.albWall + e.frac * e.arch.albWall } : Totals K)) t =
    { rGlaze := t.rGlaze + (es.map (fun e => e.frac * e.arch.glz)).sum
      shgc := t.shgc + (es.map (fun e => e.frac * e.arch.shgc)).sum
      albWall := t.albWall + (es.map (fun e => e.frac * e.arch.albWall)).sum } := by
  induction es generalizing t with
  | nil => simp
  | cons e rest ih =>
    simp only [List.foldl_cons, ih, List.map_cons, List.sum_cons]
    congr 1 <;> ring

/-- **T3.** The stock averages handed to the canyon model are `Σ frac · value` over the simulated
    buildings, with the values those buildings carry (so with every set override), and each
    building's floor area is `frac · L² · density · height / h_floor` where `h_floor` is the floor
    height override when set and 3.05 m otherwise. -/
theorem totals_formula (P : Params K) (lib : Lib K) (es : List (Entry K)) (tot : Totals K)
    (h : computeBEM P lib = .ok (es, tot)) :
    tot.rGlaze = (es.map (fun e => e.frac * e.arch.glz)).sum ∧
    tot.shgc = (es.map (fun e => e.frac * e.arch.shgc)).sum ∧
    tot.albWall = (es.map (fun e => e.frac * e.arch.albWall)).sum ∧
    (∀ e ∈ es, e.flArea =
      e.frac * (P.charlength ^ 2 * P.blddensity * P.bldheight / (P.flrh.getD (61 / 20)))) := by
  obtain ⟨_, _, _, _, _, _, _, _, _, htot⟩ := computeBEM_ok_elim h
  obtain ⟨_, _, hcf⟩ := entries_closed_form P lib es tot h
  rw [htot, totals, totals_acc]
  refine ⟨by simp, by simp, by simp, fun e he => ?_⟩
  obtain ⟨_, _, _, hfa⟩ := hcf e he
  rw [hfa, area, hFloor]
  cases P.flrh <;> rfl

private theorem sum_const_mul (es : List (Entry K)) (f : Entry K → K) (v : K)
    (hf : ∀ e ∈ es, f e = v) :
    (es.map (fun e => e.frac * f e)).sum = (es.map (·.frac)).sum * v := by
  induction es with
  | nil => simp
  | cons e rest ih =>
    simp only [List.map_cons, List.sum_cons]
    rw [ih (fun e he => hf e (List.mem_cons_of_mem _ he)), hf e (List.mem_cons_self ..)]
    ring

/-- T3 with the overrides spelled out: when glazing ratio, SHGC and wall albedo are all set, the
    three stock averages are the override values times the total simulated fraction. -/
theorem totals_all_overridden (P : Params K) (lib : Lib K) (es : List (Entry K)) (tot : Totals K)
    (g s w : K) (hg : P.glzr = some g) (hs : P.shgc = some s) (hw : P.albwall = some w)
    (h : computeBEM P lib = .ok (es, tot)) :
    tot.rGlaze = (es.map (·.frac)).sum * g ∧ tot.shgc = (es.map (·.frac)).sum * s ∧
    tot.albWall = (es.map (·.frac)).sum * w := by
  obtain ⟨t1, t2, t3, _⟩ := totals_formula P lib es tot h
  obtain ⟨o1, o2, o3, _⟩ := override_applied P lib es tot h
  rw [t1, t2, t3]
  exact ⟨sum_const_mul es _ g (o1 g hg), sum_const_mul es _ s (o2 s hs),
    sum_const_mul es _ w (o3 w hw)⟩

/-- **T4.** Independence across all 2⁶ subsets. Take two parameter sets that agree on zone, stock
    list and geometry and differ arbitrarily in the six overrides. If both selections succeed they
    simulate the same archetypes (type, era, identity, fraction) in the same order, and for each of
    the six attributes: if *that* override agrees in the two sets, the carried values agree —
    whatever the other five do. (Together with T1/T2: each attribute of each building is a function
    of its own override and its reference value only.) -/
theorem override_independent (P P' : Params K) (lib : Lib K)
    (es es' : List (Entry K)) (tot tot' : Totals K)
    (hzone : P'.zone = P.zone) (hbld : P'.bld = P.bld)
    (h : computeBEM P lib = .ok (es, tot)) (h' : computeBEM P' lib = .ok (es', tot')) :
    es'.map (fun e => (e.arch.bldtype, e.arch.era, e.arch.pid, e.frac)) =
      es.map (fun e => (e.arch.bldtype, e.arch.era, e.arch.pid, e.frac)) ∧
    (P'.glzr = P.glzr → es'.map (·.arch.glz) = es.map (·.arch.glz)) ∧
    (P'.shgc = P.shgc → es'.map (·.arch.shgc) = es.map (·.arch.shgc)) ∧
    (P'.albwall = P.albwall → es'.map (·.arch.albWall) = es.map (·.arch.albWall)) ∧
    (P'.albroof = P.albroof → es'.map (·.arch.albRoof) = es.map (·.arch.albRoof)) ∧
    (P'.vegroof = P.vegroof → es'.map (·.arch.vegRoof) = es.map (·.arch.vegRoof)) ∧
    (P'.flrh = P.flrh → es'.map (·.arch.flrH) = es.map (·.arch.flrH)) := by
  obtain ⟨_, z, rows, hs, hz, hk, hsc, _, hes, _⟩ := computeBEM_ok_elim h
  obtain ⟨_, z', rows', hs', hz', hk', hsc', _, hes', _⟩ := computeBEM_ok_elim h'
  rw [hzone, hz] at hz'; cases hz'
  rw [hbld, hk] at hk'; cases hk'
  have : hs' = hs := by rw [scan_ok hsc, scan_ok hsc']
  subst this
  rw [hes, hes']
  simp only [List.map_map]
  refine ⟨rfl, ?_, ?_, ?_, ?_, ?_, ?_⟩ <;>
  · intro he
    apply List.map_congr_left
    intro x _
    simp only [Function.comp, mkEntry, applyOv, he]

/-- Floor height 0 is **rejected by the `flr_h` setter** (`float_in_range_excl(v, 0)`: strictly
    positive). The division by the floor height in `_compute_BEM` still raises `ZeroDivisionError`
    for 0 (second conjunct, kept in the model), but that path is unreachable through the setter:
    every accepted floor height makes `hFloor` non-zero (third conjunct). -/
theorem flrh_zero_refused [LinearOrder K] [IsStrictOrderedRing K] (P : Params K) (lib : Lib K) :
    ovSetterPos (some (0 : K)) = .error .assert ∧
    (P.flrh = some 0 → computeBEM P lib = .error .zerodiv) ∧
    (ovSetterPos P.flrh = .ok P.flrh → hFloor P ≠ 0) := by
  refine ⟨by simp [ovSetterPos], ?_, ?_⟩
  · intro h0; unfold computeBEM hFloor; rw [h0]; simp
  · intro hacc
    unfold hFloor
    cases hf : P.flrh with
    | none => simp only; norm_num
    | some v =>
      rw [hf] at hacc
      simp only [ovSetterPos] at hacc
      split at hacc
      · rename_i hv; exact ne_of_gt hv
      · cases hacc

/-- The accepted values of the six setters: `None`, or any `v` with `0 ≤ v ≤ 1` — the boundary
    values 0 and 1 included — for the five ratios; `None` or any `v > 0` for the floor height. -/
theorem setters_accept [LinearOrder K] [IsStrictOrderedRing K] :
    ovSetter01 (none : Option K) = .ok none ∧ ovSetter01 (some (0 : K)) = .ok (some 0) ∧
    ovSetter01 (some (1 : K)) = .ok (some 1) ∧ ovSetterPos (none : Option K) = .ok none ∧
    (∀ v : K, (∃ o, ovSetter01 (some v) = .ok o) ↔ 0 ≤ v ∧ v ≤ 1) ∧
    (∀ v : K, (∃ o, ovSetterPos (some v) = .ok o) ↔ 0 < v) := by
  refine ⟨rfl, by simp [ovSetter01], by simp [ovSetter01], rfl, ?_, ?_⟩
  · intro v; unfold ovSetter01; simp only
    constructor
    · rintro ⟨o, ho⟩; split at ho
      · assumption
      · cases ho
    · intro hv; exact ⟨some v, by rw [if_pos hv]⟩
  · intro v; unfold ovSetterPos; simp only
    constructor
    · rintro ⟨o, ho⟩; split at ho
      · assumption
      · cases ho
    · intro hv; exact ⟨some v, by rw [if_pos hv]⟩

/-! ### Through `generate` (with custom archetypes) -/

/-- T1–T3 hold verbatim for `generate` with any list of custom archetypes: the selection then runs
    on the customised library. -/
theorem override_applied_generate (P : Params K) (cs : List (Arch K)) (lib : Lib K)
    (es : List (Entry K)) (tot : Totals K) (h : generateBEM P cs lib = .ok (es, tot)) :
    (∀ v, P.glzr = some v → ∀ e ∈ es, e.arch.glz = v) ∧
    (∀ v, P.shgc = some v → ∀ e ∈ es, e.arch.shgc = v) ∧
    (∀ v, P.albwall = some v → ∀ e ∈ es, e.arch.albWall = v) ∧
    (∀ v, P.albroof = some v → ∀ e ∈ es, e.arch.albRoof = v) ∧
    (∀ v, P.vegroof = some v → ∀ e ∈ es, e.arch.vegRoof = v) ∧
    (∀ v, P.flrh = some v → ∀ e ∈ es, e.arch.flrH = v) ∧
    tot.rGlaze = (es.map (fun e => e.frac * e.arch.glz)).sum ∧
    tot.shgc = (es.map (fun e => e.frac * e.arch.shgc)).sum ∧
    tot.albWall = (es.map (fun e => e.frac * e.arch.albWall)).sum := by
  obtain ⟨lib', _, hc⟩ := generateBEM_ok_elim h
  obtain ⟨a1, a2, a3, a4, a5, a6⟩ := override_applied P lib' es tot hc
  obtain ⟨t1, t2, t3, _⟩ := totals_formula P lib' es tot hc
  exact ⟨a1, a2, a3, a4, a5, a6, t1, t2, t3⟩

/-! ### Witnesses (ℚ) -/

section Witnesses
open Uwg.C07

def ovP (glzr flrh : Option ℚ) : Params ℚ :=
  ⟨"1A", [⟨"largeoffice", "pst80", 1⟩], glzr, some 1, none, some 0, none, flrh, 1000, 1 / 2, 10⟩

/-- Per building `[glazing ratio, SHGC, roof albedo, floor height]`, then `[r_glaze_total]`. -/
def glzOf (r : Except Err (List (Entry ℚ) × Totals ℚ)) : Option (List (List ℚ)) :=
  match r with
  | .ok (es, t) =>
    some (es.map (fun e => [e.arch.glz, e.arch.shgc, e.arch.albRoof, e.arch.flrH]) ++ [[t.rGlaze]])
  | .error _ => none

/-- Non-vacuity of T1–T4 and the boundary values: glazing ratio 0, SHGC 1, roof albedo 0, floor
    height 4 are all carried; the unset ones keep the reference values. -/
example : glzOf (computeBEM (ovP (some 0) (some 4)) exLib) = some [[0, 1, 0, 4], [0]] ∧
    glzOf (computeBEM (ovP none none) exLib) = some [[1 / 4, 1, 0, 3], [1 / 4]] := by
  decide +kernel

/-- Before the repair (`if self.glzr:`) an override set to 0 was ignored: the building kept its
    reference glazing ratio 1/4 and roof albedo 3/8. -/
theorem asis_override_zero_ignored :
    glzOf (computeBEMAsis (ovP (some 0) none) exLib) = some [[1 / 4, 1, 3 / 8, 3], [1 / 4]] := by
  decide +kernel

end Witnesses

end Uwg.C08
