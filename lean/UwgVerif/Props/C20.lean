/-
C20 — Ground columns are refined and padded without changing their physics.
-/
import UwgVerif.Model.Procmat
import Mathlib.Algebra.Order.Floor.Semiring
import Mathlib.Data.Rat.Floor
import Mathlib.Tactic.Ring
import Mathlib.Tactic.Linarith
import Mathlib.Tactic.FieldSimp
import Mathlib.Tactic.NormNum
import Mathlib.Tactic.Positivity

namespace Uwg.C20
open Uwg
variable {K : Type} [Field K] [LinearOrder K] [IsStrictOrderedRing K] [FloorRing K]

/-- An additive layer measure that is linear in the thickness: `g l = l.d * w l` with `w`
    independent of the thickness (thickness: w = 1, resistance: w = 1/k, capacity: w = c). -/
structure LinMeasure (K : Type) [Field K] where
  w : Lay K → K
  w_indep : ∀ (l : Lay K) (x : K), w { l with d := x } = w l

def LinMeasure.total (g : LinMeasure K) (ls : List (Lay K)) : K := (ls.map (fun l => l.d * g.w l)).sum

def thicknessM : LinMeasure K := ⟨fun _ => 1, fun _ _ => rfl⟩
def resistanceM : LinMeasure K := ⟨fun l => 1 / l.k, fun _ _ => rfl⟩
def capacityM : LinMeasure K := ⟨fun l => l.c, fun _ _ => rfl⟩

omit [LinearOrder K] [IsStrictOrderedRing K] [FloorRing K] in
theorem total_thickness (ls : List (Lay K)) : thicknessM.total ls = totalThickness ls := by
  simp [LinMeasure.total, thicknessM, totalThickness]
omit [LinearOrder K] [IsStrictOrderedRing K] [FloorRing K] in
theorem total_resistance (ls : List (Lay K)) : resistanceM.total ls = totalResistance ls := by
  simp [LinMeasure.total, resistanceM, totalResistance, div_eq_mul_inv]
omit [LinearOrder K] [IsStrictOrderedRing K] [FloorRing K] in
theorem total_capacity (ls : List (Lay K)) : capacityM.total ls = totalCapacity ls := by
  simp [LinMeasure.total, capacityM, totalCapacity]

omit [LinearOrder K] [IsStrictOrderedRing K] [FloorRing K] in
private theorem total_append (g : LinMeasure K) (a b : List (Lay K)) :
    g.total (a ++ b) = g.total a + g.total b := by
  simp [LinMeasure.total]

private theorem ceil_pos_of_gt {maxT d : K} (hmax : 0 < maxT) (hd : maxT < d) : 2 ≤ ⌈d / maxT⌉₊ := by
  have : (1 : K) < d / maxT := by rw [lt_div_iff₀ hmax]; linarith
  have h := Nat.lt_ceil.mpr (by exact_mod_cast this : ((1 : ℕ) : K) < d / maxT)
  omega

private theorem total_subdivide (g : LinMeasure K) {maxT : K} (l : Lay K) (hmax : 0 < maxT)
    (hd : maxT < l.d) : g.total (subdivide maxT l) = l.d * g.w l := by
  have hn := ceil_pos_of_gt hmax hd
  have hn0 : ((⌈l.d / maxT⌉₊ : ℕ) : K) ≠ 0 := by
    have : 0 < ⌈l.d / maxT⌉₊ := by omega
    exact_mod_cast this.ne'
  simp only [LinMeasure.total, subdivide, List.map_replicate, List.sum_replicate, nsmul_eq_mul,
    g.w_indep]
  field_simp

private theorem total_splitLayer (g : LinMeasure K) {maxT minT : K} (l : Lay K) (hmax : 0 < maxT)
    (hmin : minT ≤ l.d) : g.total (splitLayer maxT minT l) = l.d * g.w l := by
  unfold splitLayer
  split
  · rename_i h; exact total_subdivide g l hmax h
  · rw [if_neg (not_lt.mpr hmin)]; simp [LinMeasure.total]

private theorem total_flatMap (g : LinMeasure K) {maxT minT : K} (hmax : 0 < maxT)
    (ls : List (Lay K)) (hall : ∀ l ∈ ls, minT ≤ l.d) :
    g.total (ls.flatMap (splitLayer maxT minT)) = g.total ls := by
  induction ls with
  | nil => simp [LinMeasure.total]
  | cons l ls ih =>
    rw [List.flatMap_cons, total_append, total_splitLayer g l hmax (hall l (by simp)),
      ih (fun q hq => hall q (List.mem_cons_of_mem _ hq))]
    simp [LinMeasure.total]

/-- Core of T1 for any thickness-linear measure. -/
theorem procmat_preserves_measure (g : LinMeasure K) (maxT minT : K) (ls out : List (Lay K))
    (hmax : 0 < maxT) (hall : ∀ l ∈ ls, minT ≤ l.d) (h : procmat maxT minT ls = some out) :
    g.total out = g.total ls := by
  match ls, h with
  | [l], h =>
    simp only [procmat] at h
    split at h
    · rename_i hd; cases h
      rw [total_subdivide g l hmax hd]; simp [LinMeasure.total]
    · cases h
      simp only [LinMeasure.total, List.map_cons, List.map_nil, List.sum_cons, List.sum_nil,
        g.w_indep, add_zero]
      ring
  | l :: l' :: rest, h =>
    simp only [procmat] at h; cases h
    exact total_flatMap g hmax _ hall

/-- T1. Refinement preserves total thickness, thermal resistance and heat capacity whenever every
    layer is at least `minT` (1 cm) thick (thinner layers of a multi-layer construction are
    dropped by the code, with a warning; a single layer is always just split). -/
theorem procmat_preserves (maxT minT : K) (ls out : List (Lay K))
    (hmax : 0 < maxT) (hall : ∀ l ∈ ls, minT ≤ l.d) (h : procmat maxT minT ls = some out) :
    totalThickness out = totalThickness ls ∧ totalResistance out = totalResistance ls ∧
    totalCapacity out = totalCapacity ls := by
  refine ⟨?_, ?_, ?_⟩
  · rw [← total_thickness, ← total_thickness]; exact procmat_preserves_measure _ _ _ _ _ hmax hall h
  · rw [← total_resistance, ← total_resistance]; exact procmat_preserves_measure _ _ _ _ _ hmax hall h
  · rw [← total_capacity, ← total_capacity]; exact procmat_preserves_measure _ _ _ _ _ hmax hall h

/-- The layers of a construction that are at least `minT` (1 cm) thick - the part the property speaks about. -/
def thickPart (minT : K) (ls : List (Lay K)) : List (Lay K) := ls.filter (fun l => decide (minT ≤ l.d))

private theorem total_flatMap_thick (g : LinMeasure K) {maxT minT : K} (hmax : 0 < maxT) (hmm : minT ≤ maxT)
    (ls : List (Lay K)) :
    g.total (ls.flatMap (splitLayer maxT minT)) = g.total (thickPart minT ls) := by
  induction ls with
  | nil => simp [LinMeasure.total, thickPart]
  | cons l ls ih =>
    rw [List.flatMap_cons, total_append, ih]
    by_cases hl : minT ≤ l.d
    · rw [total_splitLayer g l hmax hl]
      simp [thickPart, hl, LinMeasure.total]
    · have hlt : l.d < minT := not_le.mp hl
      have hnot : ¬ l.d > maxT := not_lt.mpr (le_trans hlt.le hmm)
      simp [thickPart, hl, splitLayer, hnot, hlt, LinMeasure.total]

/-- T1 at full strength for multi-layer constructions (round 8): WHATEVER the thin layers are, the refined
    construction carries exactly the thickness-linear measure of the layers of at least `minT` - thinner layers are
    dropped and every other layer keeps ITS OWN conductivity and heat capacity. -/
theorem procmat_preserves_thick_measure (g : LinMeasure K) (maxT minT : K) (l l' : Lay K) (rest out : List (Lay K))
    (hmax : 0 < maxT) (hmm : minT ≤ maxT) (h : procmat maxT minT (l :: l' :: rest) = some out) :
    g.total out = g.total (thickPart minT (l :: l' :: rest)) := by
  simp only [procmat] at h; cases h
  exact total_flatMap_thick g hmax hmm _

/-- T1 (multi-layer, mixed thicknesses): total thickness, thermal resistance and heat capacity of the refined
    construction are those of the layers of at least 1 cm. -/
theorem procmat_preserves_thick (maxT minT : K) (l l' : Lay K) (rest out : List (Lay K))
    (hmax : 0 < maxT) (hmm : minT ≤ maxT) (h : procmat maxT minT (l :: l' :: rest) = some out) :
    totalThickness out = totalThickness (thickPart minT (l :: l' :: rest)) ∧
    totalResistance out = totalResistance (thickPart minT (l :: l' :: rest)) ∧
    totalCapacity out = totalCapacity (thickPart minT (l :: l' :: rest)) := by
  refine ⟨?_, ?_, ?_⟩
  · rw [← total_thickness, ← total_thickness]; exact procmat_preserves_thick_measure _ _ _ _ _ _ _ hmax hmm h
  · rw [← total_resistance, ← total_resistance]; exact procmat_preserves_thick_measure _ _ _ _ _ _ _ hmax hmm h
  · rw [← total_capacity, ← total_capacity]; exact procmat_preserves_thick_measure _ _ _ _ _ _ _ hmax hmm h

/-- Non-vacuity: a wall with a 5 mm membrane between two thick layers; the membrane goes, its neighbours keep
    their own materials. -/
example : procmat (1/20 : ℚ) (1/100) [⟨1/10, 2, 100⟩, ⟨1/200, 5, 7⟩, ⟨2/25, 3, 50⟩] =
    some [⟨1/20, 2, 100⟩, ⟨1/20, 2, 100⟩, ⟨1/25, 3, 50⟩, ⟨1/25, 3, 50⟩] := by decide +kernel

private theorem subdivide_shape {maxT : K} (l : Lay K) (hmax : 0 < maxT) (hd : maxT < l.d) :
    2 ≤ (subdivide maxT l).length ∧ ∀ q ∈ subdivide maxT l, q.d ≤ maxT := by
  have hn := ceil_pos_of_gt hmax hd
  refine ⟨by simpa [subdivide] using hn, ?_⟩
  intro q hq
  simp only [subdivide, List.mem_replicate] at hq
  obtain ⟨_, rfl⟩ := hq
  have hnpos : (0 : K) < (⌈l.d / maxT⌉₊ : ℕ) := by
    have : 0 < ⌈l.d / maxT⌉₊ := by omega
    exact_mod_cast this
  show l.d / (⌈l.d / maxT⌉₊ : K) ≤ maxT
  rw [div_le_iff₀ hnpos]
  have := Nat.le_ceil (l.d / maxT)
  rw [div_le_iff₀ hmax] at this
  linarith [mul_comm maxT ((⌈l.d / maxT⌉₊ : ℕ) : K)]

/-- T2. The result has at least two sub-layers and none is thicker than `maxT` (5 cm). -/
theorem procmat_shape (maxT minT : K) (ls out : List (Lay K))
    (hmax : 0 < maxT) (hpos : ∀ l ∈ ls, 0 < l.d) (hall : ∀ l ∈ ls, minT ≤ l.d)
    (h : procmat maxT minT ls = some out) :
    2 ≤ out.length ∧ ∀ q ∈ out, q.d ≤ maxT := by
  match ls, h with
  | [l], h =>
    simp only [procmat] at h
    split at h
    · rename_i hd; cases h; exact subdivide_shape l hmax hd
    · rename_i hd; cases h
      have hl := hpos l (by simp)
      refine ⟨by simp, ?_⟩
      intro q hq
      simp only [List.mem_cons, List.mem_nil_iff, or_false, or_self] at hq
      subst hq
      show l.d / 2 ≤ maxT
      have := not_lt.mp hd
      linarith
  | l :: l' :: rest, h =>
    simp only [procmat] at h; cases h
    have key : ∀ (ms : List (Lay K)), (∀ m ∈ ms, minT ≤ m.d) →
        ms.length ≤ (ms.flatMap (splitLayer maxT minT)).length ∧
        ∀ q ∈ ms.flatMap (splitLayer maxT minT), q.d ≤ maxT := by
      intro ms
      induction ms with
      | nil => intro _; simp
      | cons m ms ih =>
        intro hms
        obtain ⟨ihl, ihb⟩ := ih (fun q hq => hms q (List.mem_cons_of_mem _ hq))
        have hm := hms m (by simp)
        rw [List.flatMap_cons]
        have hone : 1 ≤ (splitLayer maxT minT m).length ∧ ∀ q ∈ splitLayer maxT minT m, q.d ≤ maxT := by
          unfold splitLayer
          split
          · rename_i hd
            obtain ⟨a, b⟩ := subdivide_shape m hmax hd
            exact ⟨by omega, b⟩
          · rename_i hd
            rw [if_neg (not_lt.mpr hm)]
            refine ⟨by simp, ?_⟩
            intro q hq; simp at hq; subst hq; exact not_lt.mp hd
        refine ⟨by simp only [List.length_append, List.length_cons]; omega, ?_⟩
        intro q hq
        rcases List.mem_append.mp hq with hq | hq
        · exact hone.2 q hq
        · exact ihb q hq
    obtain ⟨hl, hb⟩ := key (l :: l' :: rest) hall
    refine ⟨?_, hb⟩
    simp only [List.length_cons] at hl ⊢
    omega

/-- T1 was false before the repair: a single 1.5 cm layer came back as 2 × 0.5 cm. -/
theorem asis_thin_layer_shrinks :
    (procmatAsis (1/20 : ℚ) (1/100) [⟨3/200, 1, 1⟩]).map totalThickness = some (1/100) ∧
    (procmat (1/20 : ℚ) (1/100) [⟨3/200, 1, 1⟩]).map totalThickness = some (3/200) := by
  constructor <;> norm_num [procmatAsis, procmat, totalThickness]

/-! ### Soil padding -/

private theorem padFrom_spec (maxT eps total : K) (depths : List K) :
    ∀ (i0 i k : Nat), padFrom maxT eps total i0 depths = some (i, k) →
      ∃ j depth, i = i0 + j ∧ depths[j]? = some depth ∧
        (|depth - total| < eps ∨ depth > total) ∧ k = ⌈(depth - total) / maxT⌉₊ ∧
        ∀ j' < j, ∀ d', depths[j']? = some d' → ¬ (|d' - total| < eps ∨ d' > total) := by
  induction depths with
  | nil => intro i0 i k h; simp [padFrom] at h
  | cons depth rest ih =>
    intro i0 i k h
    simp only [padFrom] at h
    split at h
    · rename_i hq
      cases h
      exact ⟨0, depth, rfl, rfl, hq, rfl, by intro j' hj'; omega⟩
    · rename_i hq
      obtain ⟨j, d, hi, hd, hqual, hk, hfirst⟩ := ih (i0 + 1) i k h
      refine ⟨j + 1, d, by omega, by simpa using hd, hqual, hk, ?_⟩
      intro j' hj' d' hd'
      cases j' with
      | zero => simp at hd'; subst hd'; exact hq
      | succ j'' => exact hfirst j'' (by omega) d' (by simpa using hd')

/-- T3. The chosen ground-temperature depth is the first one (in file order) that is at least
    the column thickness (up to the code's 1e-15 tolerance). -/
theorem pad_index (maxT eps total : K) (depths : List K) (i k : Nat)
    (h : pad maxT eps total depths = some (i, k)) :
    ∃ depth, depths[i]? = some depth ∧ (|depth - total| < eps ∨ depth > total) ∧
      ∀ j < i, ∀ d', depths[j]? = some d' → ¬ (|d' - total| < eps ∨ d' > total) := by
  obtain ⟨j, d, hi, hd, hq, _, hf⟩ := padFrom_spec maxT eps total depths 0 i k h
  have : i = j := by omega
  subst this
  exact ⟨d, hd, hq, hf⟩

/-- T4. After padding with `k` soil layers of `maxT` the column reaches the chosen depth and
    overshoots it by less than one layer; it ends *exactly* at that depth when the gap is a
    whole number of layers (true of every shipped file: 0.5, 2, 4 m with 5 cm layers). -/
theorem pad_total (maxT eps total : K) (depths : List K) (i k : Nat) (hmax : 0 < maxT)
    (h : pad maxT eps total depths = some (i, k)) :
    ∃ depth, depths[i]? = some depth ∧
      (total ≤ depth → depth ≤ total + k * maxT ∧ total + k * maxT < depth + maxT) ∧
      (depth < total → k = 0 ∧ total - depth < eps) ∧
      (∀ m : Nat, depth - total = m * maxT → total + k * maxT = depth) := by
  obtain ⟨j, d, hi, hd, hq, hk, _⟩ := padFrom_spec maxT eps total depths 0 i k h
  have : i = j := by omega
  subst this
  refine ⟨d, hd, ?_, ?_, ?_⟩
  · intro hle
    have hnn : 0 ≤ (d - total) / maxT := div_nonneg (by linarith) hmax.le
    have h1 := Nat.le_ceil ((d - total) / maxT)
    have h2 := Nat.ceil_lt_add_one hnn
    rw [← hk] at h1 h2
    rw [div_le_iff₀ hmax] at h1
    have h3 : (k : K) - 1 < (d - total) / maxT := by linarith
    rw [lt_div_iff₀ hmax] at h3
    constructor <;> nlinarith
  · intro hlt
    have hneg : (d - total) / maxT ≤ 0 := by
      apply div_nonpos_of_nonpos_of_nonneg (by linarith) hmax.le
    have hk0 : k = 0 := by rw [hk]; exact Nat.ceil_eq_zero.mpr hneg
    refine ⟨hk0, ?_⟩
    rcases hq with hq | hq
    · have := abs_lt.mp hq; linarith
    · linarith
  · intro m hm
    have : (d - total) / maxT = m := by rw [hm]; field_simp
    rw [hk, this, Nat.ceil_natCast]
    linarith

/-- Non-vacuity: the shipped configuration (0.5 m asphalt road, depths 0.5 / 2 / 4 m). -/
example : pad (1/20 : ℚ) (1/1000000000000000) (1/2) [1/2, 2, 4] = some (0, 0) := by
  norm_num [pad, padFrom]

/-- **The deep-temperature index exists whenever it is read.** If `generate()` returns and the rural file has at
least three ground depths (the case in which every step reads `Tsoil[_soilindex1]`), the index was set by this very
call and names a depth of the file: no run can read a missing or left-over index. -/
theorem column_index_set (maxT minT eps droad kroad croad ksoil csoil : K) (depths : List K)
    (ls : List (Lay K)) (idx : Option Nat) (h3 : 3 ≤ depths.length)
    (h : columnOutcome maxT minT eps droad kroad croad ksoil csoil depths = .ok ls idx) :
    ∃ i, idx = some i := by
  unfold columnOutcome at h
  split at h
  · cases h
  · rw [if_pos h3] at h; cases h
  · cases h; exact ⟨_, rfl⟩

end Uwg.C20
