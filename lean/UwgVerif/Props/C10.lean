/-
C10 — Fail-stop: complete finite results or an exception, never a hang.

Driver-level statements on `Sim.simulate` (any physics), the zero-load guard, and (imported from
the reader model of C06) totality of the parameter-file reader.
-/
import UwgVerif.Lemmas.Sim
import Mathlib.Algebra.Order.Field.Basic
import Mathlib.Tactic.Positivity
import Mathlib.Tactic.Linarith

namespace Uwg.C10
open Uwg Uwg.Sim Uwg.C02
variable {S R D Rec E : Type}

/-- T2a `records_complete_on_return`. Whenever `simulate` returns normally (valid start, window
    inside the year, hour-dividing timestep, enough rural rows), *every one* of the `N = 24·days`
    hourly records exists — never a partial list. -/
theorem records_complete_on_return (P : Phys S R D Rec E) (soil : Soil D) (dt M Dy days : Nat)
    (rows : List R) (s0 s' : S) (recs : List Rec)
    (hv : Valid ⟨dt, M, Dy, days, rows.length⟩)
    (h : simulate P soil dt M Dy days rows s0 = .ok (s', recs)) : recs.length = 24 * days := by
  obtain ⟨tr, htr, _, hlen, _⟩ := records_complete ⟨dt, M, Dy, days, rows.length⟩ hv
  rw [simulate_of_driver_ok P soil dt M Dy days rows s0 tr htr] at h
  have := runSteps_ok_length P (deepAt soil) rows tr s0 s' [] recs h
  simpa [hlen] using this

/-- T2b `timestep_refused`. A timestep that is zero or does not divide one hour never simulates:
    the run ends with an exception before the first step, with no record stored. -/
theorem timestep_refused (P : Phys S R D Rec E) (soil : Soil D) (dt M Dy days : Nat)
    (rows : List R) (s0 : S) (hbad : ¬ (0 < dt ∧ dt ∣ 3600)) :
    ∃ e, simulate P soil dt M Dy days rows s0 = .error ([], .drv e) := by
  unfold simulate Clock.create
  by_cases h0 : dt = 0
  · exact ⟨.zerodiv, by simp [h0]⟩
  · by_cases h : 3600 % dt = 0
    · exact absurd ⟨Nat.pos_of_ne_zero h0, Nat.dvd_of_mod_eq_zero h⟩ hbad
    · exact ⟨.timestep, by simp [h0, h]⟩

/-- T2c. In every case the outcome is either a normal return with all records or an exception:
    there is no third possibility (the model is a total function — no hang in the driver). -/
theorem return_or_exception (P : Phys S R D Rec E) (soil : Soil D) (dt M Dy days : Nat)
    (rows : List R) (s0 : S) (hv : Valid ⟨dt, M, Dy, days, rows.length⟩) :
    (∃ s' recs, simulate P soil dt M Dy days rows s0 = .ok (s', recs) ∧ recs.length = 24 * days) ∨
    (∃ recs e, simulate P soil dt M Dy days rows s0 = .error (recs, e)) := by
  cases h : simulate P soil dt M Dy days rows s0 with
  | ok p => exact .inl ⟨p.1, p.2, rfl, records_complete_on_return P soil dt M Dy days rows s0 p.1 p.2 hv h⟩
  | error x => exact .inr ⟨x.1, x.2, rfl⟩

/-- T3 `bounds_on_return`. If the physics step returns only states that passed its validity checks
    (`good`, e.g. 200 K ≤ canyon temperature ≤ 350 K — `UCModel` raises otherwise — and the indoor /
    ceiling window checked by `BEMCalc`), and records of good states are within bounds, then every
    record stored by a run is within bounds: each record is written after *that step's* check. -/
theorem bounds_on_return (P : Phys S R D Rec E) (soil : Soil D) (dt M Dy days : Nat)
    (rows : List R) (s0 : S) (good : S → Prop) (okRec : Rec → Prop)
    (hstep : ∀ s t r d s', P.step s t r d = .ok s' → good s')
    (hrec : ∀ s t r, good s → okRec (P.record s t r)) :
    ∀ x ∈ recordsOf (simulate P soil dt M Dy days rows s0), okRec x := by
  unfold simulate
  cases Clock.create dt M Dy with
  | error e => cases e <;> (intro x hx; simp [recordsOf] at hx)
  | ok c0 =>
    simp only []
    have hg := runSteps_records_good P (deepAt soil) rows good okRec hstep hrec
      (traceLoop dt (24 * days) rows.length (nt dt days - 1) 1 c0 0).1 s0 [] (by simp)
    cases hr : runSteps P (deepAt soil) rows
        (traceLoop dt (24 * days) rows.length (nt dt days - 1) 1 c0 0).1 s0 [] with
    | error x => rw [hr] at hg; simpa [recordsOf] using hg
    | ok p =>
      rw [hr] at hg
      obtain ⟨s, recs⟩ := p
      cases (traceLoop dt (24 * days) rows.length (nt dt days - 1) 1 c0 0).2 with
      | none => simpa [recordsOf] using hg
      | some e => simpa [recordsOf] using hg

/-! ### Zero internal load (T4) -/

section
variable {K : Type} [Field K] [LinearOrder K] [IsStrictOrderedRing K]

/-- T4 `zero_load_defined`. For all non-negative light, equipment and occupant loads the radiant
    and latent fractions are defined without dividing by zero: with zero total load both are 0,
    otherwise they are the ratios over the (positive) total. -/
theorem zero_load_defined (light elec qocc nocc rl re lf so : K)
    (hl : 0 ≤ light) (he : 0 ≤ elec) (hq : 0 ≤ qocc) :
    (light + elec + qocc = 0 → loadFractions light elec qocc nocc rl re lf so = (0, 0)) ∧
    (light + elec + qocc ≠ 0 →
      0 < light + elec + qocc ∧
      loadFractions light elec qocc nocc rl re lf so =
        ((rl * light + re * elec) / (light + elec + qocc), lf * so * nocc / (light + elec + qocc))) := by
  constructor
  · intro h0
    simp [loadFractions, h0]
  · intro hne
    have hpos : 0 < light + elec + qocc := lt_of_le_of_ne (by positivity) (Ne.symm hne)
    exact ⟨hpos, by simp [loadFractions, hpos]⟩

/-- With radiant fractions in [0, 1] the radiant share of the internal heat stays in [0, 1]
    (so the zero-load value 0 is consistent with the non-zero case). -/
theorem load_fraction_bounds (light elec qocc nocc rl re lf so : K)
    (hl : 0 ≤ light) (he : 0 ≤ elec) (hq : 0 ≤ qocc)
    (hrl : 0 ≤ rl ∧ rl ≤ 1) (hre : 0 ≤ re ∧ re ≤ 1) :
    0 ≤ (loadFractions light elec qocc nocc rl re lf so).1 ∧
    (loadFractions light elec qocc nocc rl re lf so).1 ≤ 1 := by
  unfold loadFractions
  simp only
  split
  · rename_i hpos
    constructor
    · apply div_nonneg
      · have := mul_nonneg hrl.1 hl; have := mul_nonneg hre.1 he; linarith
      · exact hpos.le
    · rw [div_le_one hpos]
      have h1 : rl * light ≤ 1 * light := mul_le_mul_of_nonneg_right hrl.2 hl
      have h2 : re * elec ≤ 1 * elec := mul_le_mul_of_nonneg_right hre.2 he
      linarith
  · exact ⟨le_rfl, zero_le_one⟩

end

/-- Non-vacuity: an accepted configuration, and a refused timestep. -/
example : Valid ⟨300, 12, 30, 2, 48⟩ :=
  { date := by decide, dvd := ⟨12, by decide⟩, pos := by decide, inYear := by decide, rows := by decide }
example : ¬ (0 < 480 ∧ 480 ∣ 3600) := by decide

end Uwg.C10
