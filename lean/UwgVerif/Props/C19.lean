/-
C19 — Shipped reference library equals its source tables and is usable.

`Gen/RefTables.lean` is REGENERATED from the working tree by harness/extract/reftables.py on
every run of the check (translator route): `shipped` is what the pickle contains, `regenerated`
what the reader builds from the csv tables. The theorems below are re-checked against it.
-/
import UwgVerif.Gen.RefTables
import UwgVerif.Props.C11
import Mathlib.Algebra.Order.Field.Rat
import Mathlib.Tactic.Positivity

namespace Uwg.C19
open Uwg Uwg.RefLib Uwg.Gen

/-- T1. The shipped binary library is exactly what the reader produces from the reference
    tables: same constructions (every layer thickness, conductivity, heat capacity, bit for bit),
    and for each of the 768 archetypes the same construction ids, fractions, positive scalars,
    schedule shapes and SHA-256 digest of *all* attributes of the BEMDef and its SchDef.
    (Finite table; decided by kernel evaluation, no axioms.) -/
theorem shipped_eq_regenerated :
    shippedConstructions = regeneratedConstructions ∧ shipped = regenerated := by
  decide +kernel

/-- All 16 × 3 × 16 archetypes are present. -/
theorem shipped_complete : shipped.length = 768 := by decide +kernel

/-- T2. Every shipped archetype is physically well-formed: wall, roof and mass each have at
    least two layers with positive thickness, conductivity and heat capacity; the listed
    fractions lie in [0, 1]; floor height, COP, U-value, capacities and initial temperature are
    positive; all seven schedules are 3 × 24. -/
theorem all_wellformed : shipped.all (rowOk nFracs nPos shippedConstructions) = true := by
  decide +kernel

/-! ### Bridge to C11: a well-formed construction can always be stepped by `Conduction`. -/

/-- The rational value `m / 2^e` of an exported double. -/
def toQ (x : Dbl) : ℚ := (x.1 : ℚ) / (2 : ℚ) ^ x.2

theorem toQ_pos {x : Dbl} (h : x.pos = true) : 0 < toQ x := by
  unfold Dbl.pos at h
  simp only [decide_eq_true_eq] at h
  unfold toQ
  have h1 : (0 : ℚ) < x.1 := by exact_mod_cast h
  exact div_pos h1 (by positivity)

/-- The layers of a construction at given temperatures (missing temperatures read as 0; the
    theorem below quantifies over the temperature list, so nothing depends on that default). -/
def layersOf : List (Dbl × Dbl × Dbl) → List ℚ → List (Layer ℚ)
  | [], _ => []
  | l :: ls, ts => ⟨toQ l.1, toQ l.2.1, toQ l.2.2, ts.headD 0⟩ :: layersOf ls ts.tail

theorem layersOf_length (c : List (Dbl × Dbl × Dbl)) (ts : List ℚ) :
    (layersOf c ts).length = c.length := by
  induction c generalizing ts with
  | nil => rfl
  | cons l ls ih => simp [layersOf, ih]

theorem layersOf_pos (c : List (Dbl × Dbl × Dbl)) (ts : List ℚ)
    (h : c.all (fun l => l.1.pos && l.2.1.pos && l.2.2.pos) = true) : PosLayers (layersOf c ts) := by
  induction c generalizing ts with
  | nil => intro l hl; simp [layersOf] at hl
  | cons l ls ih =>
    simp only [List.all_cons, Bool.and_eq_true] at h
    obtain ⟨⟨⟨h1, h2⟩, h3⟩, hrest⟩ := h
    intro q hq
    simp only [layersOf, List.mem_cons] at hq
    rcases hq with rfl | hq
    · exact ⟨toQ_pos h1, toQ_pos h2, toQ_pos h3⟩
    · exact ih ts.tail (by simpa using hrest) q hq

/-- T3. For a well-formed construction, every conduction step — any positive timestep, any layer
    temperatures, any boundary condition and fluxes — returns a solution of the system: no
    pivot vanishes, `invert` cannot divide by zero. With T2 this covers all 768 archetypes. -/
theorem wellformed_solvable (c : List (Dbl × Dbl × Dbl)) (hc : consOk c = true)
    (dt flx1 : ℚ) (bc : BC ℚ) (ts : List ℚ) (hdt : 0 < dt) :
    ∃ xs, conduction dt flx1 bc (layersOf c ts) = some xs ∧ xs.length = c.length ∧
      Sat 0 (condRows dt bc 0 0 flx1 (layersOf c ts)) xs := by
  unfold consOk at hc
  simp only [Bool.and_eq_true, decide_eq_true_eq] at hc
  obtain ⟨hlen, hall⟩ := hc
  obtain ⟨xs, h1, h2, h3⟩ := C11.conduction_solves dt flx1 bc (layersOf c ts) hdt
    (layersOf_pos c ts hall) (by rw [layersOf_length]; exact hlen)
  exact ⟨xs, h1, by rw [h2, layersOf_length], h3⟩

/-- T3 applied to the table: the wall, roof and mass of every shipped archetype are solvable. -/
theorem shipped_solvable (r : ArchRow) (hr : r ∈ shipped) :
    ∃ w ro m, shippedConstructions[r.wall]? = some w ∧ shippedConstructions[r.roof]? = some ro ∧
      shippedConstructions[r.mass]? = some m ∧ consOk (layersOfCode w) = true ∧
      consOk (layersOfCode ro) = true ∧ consOk (layersOfCode m) = true := by
  have h := List.all_eq_true.mp all_wellformed r hr
  unfold rowOk at h
  simp only [Bool.and_eq_true] at h
  obtain ⟨⟨⟨h1, _⟩, _⟩, _⟩ := h
  split at h1
  · rename_i w ro m hw hro hm
    simp only [Bool.and_eq_true] at h1
    exact ⟨w, ro, m, hw, hro, hm, h1.1.1.1.1.1, h1.1.1.1.2, h1.1.2⟩
  · simp at h1

end Uwg.C19
