/-
C15 — Air-node updates have an isothermal fixed point and stay bounded.

Three air nodes: canyon air (`Uwg.Air.ucModel`, model of `UCMDef.UCModel`), indoor air (the
balance part of `Uwg.Hvac.bemCalc`, model of `Building.BEMCalc`, shared with C14) and the urban
boundary layer (`Uwg.Air.ublModel` / `nightforc`, models of `UBLDef.ublmodel` / `nightforc`).
For each node, over every linearly ordered field:

* T1 `…_fixed_point`  — every temperature the node exchanges heat with equals `T` and there is no
                         heat source ⇒ the new node temperature is exactly `T`;
* T2 `…_convex`       — exchange coefficients ≥ 0, their sum > 0, no source ⇒ the new temperature
                         lies between the smallest and the largest exchanged temperature;
* T3 `…_monotone…`    — adding sensible heat never lowers the new temperature;
* T4 `ubl_day_mean`, `night_mean` — the boundary-layer temperature is the mean of its along-wind
                         cells (night: under the hypothesis that the loop count
                         `int(charLength)//int(paralLength)` equals the number of cells and
                         `charLength = count · paralLength`; `night_partial_count` says what
                         happens otherwise);
* T5 `night_convex`   — night-time cells stay within the range of the rural profile and the old
                         cells when the wind profile is non-negative.

Hypotheses are stated explicitly (no reliance on `x / 0 = 0`): `H2 ≠ 0` / `0 < H2`,
`1 + advCoef ≠ 0`, weights ≥ 0.
-/
import UwgVerif.Model.AirNodes
import UwgVerif.Props.C14

namespace Uwg.C15
open Uwg.Air
variable {K : Type} [Field K] [LinearOrder K] [IsStrictOrderedRing K]

/-! ## Canyon air node -/
section canyon
variable (u : UcmIn K)

/-- Temperatures of one archetype the canyon air exchanges with: indoor air (through windows,
    ventilation, infiltration) and outer wall surface. -/
def BldTemps (T : K) (b : Bld K) : Prop := b.indoorTemp = T ∧ b.tWall = T

/-- non-negative exchange data of the canyon object -/
structure UcmNonneg : Prop where
  aeroCond : 0 ≤ u.aeroCond
  roadArea : 0 ≤ u.roadArea
  roofArea : 0 ≤ u.roofArea
  facArea : 0 ≤ u.facArea
  uExch : 0 ≤ u.uExch
  cp : 0 ≤ u.cp
  dens : 0 ≤ dens u
  densUbl : 0 ≤ densUbl u
  bldHeight : 0 ≤ u.bldHeight

/-- non-negative exchange data of one archetype -/
structure BldNonneg (b : Bld K) : Prop where
  frac : 0 ≤ b.frac
  glz0 : 0 ≤ b.glazingRatio
  glz1 : b.glazingRatio ≤ 1
  uValue : 0 ≤ b.uValue
  vent : 0 ≤ b.vent
  nFloor : 0 ≤ b.nFloor
  infil : 0 ≤ b.infil

theorem bldH1_eq (b : Bld K) :
    bldH1 u b = b.indoorTemp * (b.frac * (wWin u b + wVent u b + wInfil u b)) +
      b.tWall * (b.frac * wWall u b) := by
  unfold bldH1 wWin wVent wInfil wWall; ring

theorem bldH2_eq (b : Bld K) :
    bldH2 u b = b.frac * (wWin u b + wVent u b + wInfil u b) + b.frac * wWall u b := by
  unfold bldH2 wWin wVent wInfil wWall; ring

theorem sumH1_iso (T : K) (bs : List (Bld K)) (h : ∀ b ∈ bs, BldTemps T b) :
    sumH1 u bs = T * sumH2 u bs := by
  induction bs with
  | nil => simp [sumH1, sumH2]
  | cons b bs ih =>
    have hb := h b List.mem_cons_self
    have ih' := ih (fun x hx => h x (List.mem_cons_of_mem _ hx))
    simp only [sumH1, sumH2, ih', bldH1_eq, bldH2_eq, hb.1, hb.2]; ring

/-- T1 (canyon). Road surface, boundary layer, and every archetype's indoor air and wall surface
    at `T`, total source term `Q = 0`, `H2 ≠ 0` ⇒ the new canyon temperature is exactly `T`. -/
theorem canyon_fixed_point (T : K) (bs : List (Bld K)) (hroad : u.tRoad = T) (hubl : u.tUbl = T)
    (hb : ∀ b ∈ bs, BldTemps T b) (hQ : ucQ u bs = 0) (hH2 : ucH2 u bs ≠ 0) :
    canTempNew u bs = T := by
  unfold canTempNew
  rw [hQ, add_zero, div_eq_iff hH2]
  unfold ucH1 ucH2
  rw [sumH1_iso u T bs hb, hroad, hubl]; ring

theorem sumQ_zero (bs : List (Bld K))
    (h : ∀ b ∈ bs, b.sensWaste * u.hMix = 0 ∧ aWindow u b * b.solRec * (1 - b.shgc) = 0) :
    sumQ u bs = 0 := by
  induction bs with
  | nil => rfl
  | cons b bs ih =>
    have hb := h b List.mem_cons_self
    have ih' := ih (fun x hx => h x (List.mem_cons_of_mem _ hx))
    have : u.roofArea * b.sensWaste * u.hMix = 0 := by rw [mul_assoc, hb.1, mul_zero]
    simp only [sumQ, bldQ, ih', this, hb.2]; ring

/-- T1 with "no heat source" spelled out: no anthropogenic / tree sensible heat, and for every
    archetype no waste heat mixed into the canyon and no sun reflected by the windows. -/
theorem canyon_fixed_point_sources (T : K) (bs : List (Bld K)) (hroad : u.tRoad = T)
    (hubl : u.tUbl = T) (hb : ∀ b ∈ bs, BldTemps T b)
    (hsrc : u.sensAnthrop + u.treeSensHeat = 0)
    (hbsrc : ∀ b ∈ bs, b.sensWaste * u.hMix = 0 ∧ aWindow u b * b.solRec * (1 - b.shgc) = 0)
    (hH2 : ucH2 u bs ≠ 0) :
    canTempNew u bs = T := by
  apply canyon_fixed_point u T bs hroad hubl hb _ hH2
  unfold ucQ; rw [hsrc, sumQ_zero u bs hbsrc]; ring

theorem bld_weights_nonneg (hu : UcmNonneg u) (b : Bld K) (hb : BldNonneg b) :
    0 ≤ b.frac * (wWin u b + wVent u b + wInfil u b) ∧ 0 ≤ b.frac * wWall u b := by
  have h1 : 0 ≤ wWin u b := mul_nonneg (mul_nonneg hb.glz0 hu.facArea) hb.uValue
  have h2 : 0 ≤ wVent u b :=
    mul_nonneg (mul_nonneg (mul_nonneg (mul_nonneg hu.roofArea hb.vent) hb.nFloor) hu.cp) hu.dens
  have h3 : 0 ≤ wInfil u b := by
    unfold wInfil
    exact mul_nonneg (mul_nonneg (div_nonneg (mul_nonneg (mul_nonneg hu.roofArea hb.infil)
      hu.bldHeight) (by positivity)) hu.cp) hu.dens
  have h4 : 0 ≤ wWall u b :=
    mul_nonneg (mul_nonneg (sub_nonneg.mpr hb.glz1) hu.facArea) hu.aeroCond
  exact ⟨mul_nonneg hb.frac (by linarith), mul_nonneg hb.frac h4⟩

theorem sumH1_bounds (hu : UcmNonneg u) (lo hi : K) (bs : List (Bld K))
    (h : ∀ b ∈ bs, BldNonneg b ∧ (lo ≤ b.indoorTemp ∧ b.indoorTemp ≤ hi) ∧
      (lo ≤ b.tWall ∧ b.tWall ≤ hi)) :
    lo * sumH2 u bs ≤ sumH1 u bs ∧ sumH1 u bs ≤ hi * sumH2 u bs := by
  induction bs with
  | nil => simp [sumH1, sumH2]
  | cons b bs ih =>
    obtain ⟨hn, hi1, hw1⟩ := h b List.mem_cons_self
    obtain ⟨ih1, ih2⟩ := ih (fun x hx => h x (List.mem_cons_of_mem _ hx))
    obtain ⟨w1, w2⟩ := bld_weights_nonneg u hu b hn
    simp only [sumH1, sumH2, bldH1_eq, bldH2_eq]
    have a1 := mul_le_mul_of_nonneg_right hi1.1 w1
    have a2 := mul_le_mul_of_nonneg_right hi1.2 w1
    have a3 := mul_le_mul_of_nonneg_right hw1.1 w2
    have a4 := mul_le_mul_of_nonneg_right hw1.2 w2
    constructor <;> nlinarith

/-- T2 (canyon). Non-negative exchange coefficients with positive sum and no source: the new
    canyon temperature lies within `[lo, hi]` whenever road, boundary layer and every archetype's
    indoor and wall temperatures do. -/
theorem canyon_convex (hu : UcmNonneg u) (lo hi : K) (bs : List (Bld K))
    (hroad : lo ≤ u.tRoad ∧ u.tRoad ≤ hi) (hubl : lo ≤ u.tUbl ∧ u.tUbl ≤ hi)
    (hb : ∀ b ∈ bs, BldNonneg b ∧ (lo ≤ b.indoorTemp ∧ b.indoorTemp ≤ hi) ∧
      (lo ≤ b.tWall ∧ b.tWall ≤ hi))
    (hQ : ucQ u bs = 0) (hH2 : 0 < ucH2 u bs) :
    lo ≤ canTempNew u bs ∧ canTempNew u bs ≤ hi := by
  obtain ⟨s1, s2⟩ := sumH1_bounds u hu lo hi bs hb
  have wr : 0 ≤ u.aeroCond * u.roadArea := mul_nonneg hu.aeroCond hu.roadArea
  have wu : 0 ≤ u.roadArea * u.uExch * u.cp * densUbl u :=
    mul_nonneg (mul_nonneg (mul_nonneg hu.roadArea hu.uExch) hu.cp) hu.densUbl
  have a1 := mul_le_mul_of_nonneg_right hroad.1 wr
  have a2 := mul_le_mul_of_nonneg_right hroad.2 wr
  have a3 := mul_le_mul_of_nonneg_right hubl.1 wu
  have a4 := mul_le_mul_of_nonneg_right hubl.2 wu
  unfold canTempNew
  rw [hQ, add_zero, le_div_iff₀ hH2, div_le_iff₀ hH2]
  unfold ucH1 ucH2
  constructor <;> nlinarith

theorem sumH1_anthrop (d : K) (bs : List (Bld K)) :
    sumH1 { u with sensAnthrop := d } bs = sumH1 u bs := by
  induction bs with
  | nil => rfl
  | cons b bs ih => simp only [sumH1, ih]; rfl

theorem sumH2_anthrop (d : K) (bs : List (Bld K)) :
    sumH2 { u with sensAnthrop := d } bs = sumH2 u bs := by
  induction bs with
  | nil => rfl
  | cons b bs ih => simp only [sumH2, ih]; rfl

theorem sumQ_anthrop (d : K) (bs : List (Bld K)) :
    sumQ { u with sensAnthrop := d } bs = sumQ u bs := by
  induction bs with
  | nil => rfl
  | cons b bs ih => simp only [sumQ, ih]; rfl

/-- T3 (canyon, street-level source). More anthropogenic sensible heat never lowers the new
    canyon temperature (`roofArea + roadArea ≥ 0`, `H2 > 0`). -/
theorem canyon_monotone_anthrop (bs : List (Bld K)) (δ : K) (hδ : 0 ≤ δ)
    (hA : 0 ≤ u.roofArea + u.roadArea) (hH2 : 0 < ucH2 u bs) :
    canTempNew u bs ≤ canTempNew { u with sensAnthrop := u.sensAnthrop + δ } bs := by
  have e1 : ucH1 { u with sensAnthrop := u.sensAnthrop + δ } bs = ucH1 u bs := by
    unfold ucH1; rw [sumH1_anthrop]; rfl
  have e2 : ucH2 { u with sensAnthrop := u.sensAnthrop + δ } bs = ucH2 u bs := by
    unfold ucH2; rw [sumH2_anthrop]; rfl
  have e3 : ucQ { u with sensAnthrop := u.sensAnthrop + δ } bs
      = ucQ u bs + (u.roofArea + u.roadArea) * δ := by
    unfold ucQ; rw [sumQ_anthrop]; show _ * (u.sensAnthrop + δ + u.treeSensHeat) + _ = _; ring
  unfold canTempNew
  rw [e1, e2, e3, div_le_div_iff_of_pos_right hH2]
  have := mul_nonneg hA hδ
  linarith

/-- `bs'` is `bs` with (possibly) more HVAC waste heat in each archetype, everything else equal. -/
def MoreWaste : List (Bld K) → List (Bld K) → Prop
  | [], [] => True
  | b :: bs, b' :: bs' =>
    b' = { b with sensWaste := b'.sensWaste } ∧ b.sensWaste ≤ b'.sensWaste ∧ 0 ≤ b.frac ∧
      MoreWaste bs bs'
  | _, _ => False

theorem sums_moreWaste (hr : 0 ≤ u.roofArea) (hm : 0 ≤ u.hMix) :
    ∀ (bs bs' : List (Bld K)), MoreWaste bs bs' →
      sumH1 u bs' = sumH1 u bs ∧ sumH2 u bs' = sumH2 u bs ∧ sumQ u bs ≤ sumQ u bs'
  | [], [], _ => ⟨rfl, rfl, le_rfl⟩
  | b :: bs, b' :: bs', h => by
    obtain ⟨he, hle, hf, hrest⟩ := h
    obtain ⟨i1, i2, i3⟩ := sums_moreWaste hr hm bs bs' hrest
    have q1 : bldH1 u b' = bldH1 u b := by rw [he]; rfl
    have q2 : bldH2 u b' = bldH2 u b := by rw [he]; rfl
    have q3 : bldQ u b ≤ bldQ u b' := by
      rw [he]
      simp only [bldQ, aWindow]
      have : 0 ≤ b.frac * u.roofArea * u.hMix := mul_nonneg (mul_nonneg hf hr) hm
      nlinarith
    simp only [sumH1, sumH2, sumQ, i1, i2, q1, q2]
    exact ⟨trivial, trivial, add_le_add q3 i3⟩
  | [], _ :: _, h => absurd h (by simp [MoreWaste])
  | _ :: _, [], h => absurd h (by simp [MoreWaste])

/-- T3 (canyon, building source). More HVAC waste heat in any archetype never lowers the new
    canyon temperature (`frac, roofArea, h_mix ≥ 0`, `H2 > 0`). -/
theorem canyon_monotone_waste (bs bs' : List (Bld K)) (h : MoreWaste bs bs')
    (hr : 0 ≤ u.roofArea) (hm : 0 ≤ u.hMix) (hH2 : 0 < ucH2 u bs) :
    canTempNew u bs ≤ canTempNew u bs' := by
  obtain ⟨i1, i2, i3⟩ := sums_moreWaste u hr hm bs bs' h
  unfold canTempNew ucH1 ucH2 ucQ at *
  rw [i1, i2, div_le_div_iff_of_pos_right hH2]
  linarith

/-- A normal return of `ucModel` yields `ucCore`, with `H2 ≠ 0` and the new canyon temperature
    inside 200..350 K (the model's image of the final check of `UCModel`). -/
theorem ucModel_ok (bs : List (Bld K)) (o : UcmOut K) (h : ucModel u bs = .ok o) :
    o = ucCore u bs ∧ ucH2 u bs ≠ 0 ∧ 200 ≤ o.canTemp ∧ o.canTemp ≤ 350 := by
  unfold ucModel ucGuards at h
  split_ifs at h with g1 g2 g3
  all_goals try (simp at h)
  rw [not_or] at g3
  subst h
  exact ⟨rfl, g2, not_lt.mp g3.2, not_lt.mp g3.1⟩

end canyon

/-! ## Indoor air node (`Building.BEMCalc`, model shared with C14) -/
section indoor
open Uwg.Hvac
variable (phi : K → K → K → K) (i : BemIn K)

theorem h1_iso (T : K) (hw : i.tWall = T) (hm : i.tMass = T) (hc : i.tCeil = T)
    (hcan : i.canTemp = T) : h1 i = T * h2 i := by
  unfold h1 h2; rw [hw, hm, hc, hcan]; ring

/-- T1 (indoor). Wall, mass, ceiling and canyon air at `T`, no internal or solar gain, and `T`
    between the heating and cooling set-points (so neither system has a demand), `H2 > 0` ⇒ the
    indoor air ends the step exactly at `T`. -/
theorem indoor_fixed_point (T : K) (hw : i.tWall = T) (hm : i.tMass = T) (hc : i.tCeil = T)
    (hcan : i.canTemp = T) (hint : intHeat i = 0) (hsol : winTrans i = 0)
    (hT1 : tHeat i ≤ T) (hT2 : T ≤ tCool i) (hH2 : 0 < h2 i) :
    (bemCore phi i).indoorTemp = T := by
  have e := h1_iso i T hw hm hc hcan
  have lc : loadAt i (tCool i) ≤ 0 := by
    rw [C14.loadAt_eq, e, hint, hsol]
    have := mul_nonneg hH2.le (sub_nonneg.mpr hT2)
    nlinarith
  have lh : 0 ≤ loadAt i (tHeat i) := by
    rw [C14.loadAt_eq, e, hint, hsol]
    have := mul_nonneg hH2.le (sub_nonneg.mpr hT1)
    nlinarith
  have sc : sensCool0 i = 0 := max_eq_right lc
  have sh : sensHeat0 i = 0 := max_eq_right (neg_nonpos.mpr lh)
  have hb : branch i = .idle := by
    unfold branch; rw [sc, sh]; simp
  have hq : qTot i = 0 := by
    simp only [qTot, hvac, hb, hint, hsol, sc]; ring
  show indoorTempNew i = T
  unfold indoorTempNew
  rw [hq, add_zero, e, mul_div_assoc, div_self (ne_of_gt hH2), mul_one]

/-- T2 (indoor). Physically admissible coefficients and no net source in the balance
    (`qTot = 0`: no gains, no system acting): the new indoor temperature lies within `[lo, hi]`
    whenever wall, mass, ceiling and canyon temperatures do. -/
theorem indoor_convex (lo hi : K)
    (hv : 0 ≤ i.verToHor) (hd : 0 < i.bldDensity) (hg0 : 0 ≤ i.glazingRatio)
    (hg1 : i.glazingRatio ≤ 1) (hu : 0 ≤ i.uValue) (hi' : 0 ≤ i.infil) (hve : 0 ≤ i.vent)
    (hb : 0 ≤ i.bldHeight) (hdens : 0 ≤ Hvac.dens i) (hcp : 0 ≤ i.cp)
    (hw : lo ≤ i.tWall ∧ i.tWall ≤ hi) (hm : lo ≤ i.tMass ∧ i.tMass ≤ hi)
    (hc : lo ≤ i.tCeil ∧ i.tCeil ≤ hi) (hcan : lo ≤ i.canTemp ∧ i.canTemp ≤ hi)
    (hq : qTot i = 0) :
    lo ≤ (bemCore phi i).indoorTemp ∧ (bemCore phi i).indoorTemp ≤ hi := by
  have hH2 := C14.h2_pos i hv hd hg0 hg1 hu hi' hve hb hdens hcp
  have hn := C14.nFloor_ge_one i
  have hfac : 0 ≤ facArea i := div_nonneg hv hd.le
  have w1 : 0 ≤ wallArea i * zacWall :=
    mul_nonneg (mul_nonneg hfac (sub_nonneg.mpr hg1)) (by unfold zacWall; positivity)
  have w2 : 0 ≤ massArea i * zacMass := by
    have : 0 ≤ massArea i := by unfold massArea; linarith
    exact mul_nonneg this (by unfold zacMass; positivity)
  have w3 : 0 ≤ zacCeil i := by unfold zacCeil; split_ifs <;> positivity
  have w4 : 0 ≤ winArea i * i.uValue := mul_nonneg (mul_nonneg hfac hg0) hu
  have w5 : 0 ≤ volInfil i * Hvac.dens i * i.cp := by
    unfold volInfil
    exact mul_nonneg (mul_nonneg (div_nonneg (mul_nonneg hi' hb) (by positivity)) hdens) hcp
  have w6 : 0 ≤ volVent i * Hvac.dens i * i.cp :=
    mul_nonneg (mul_nonneg (mul_nonneg hve (C14.nFloor_pos i).le) hdens) hcp
  show lo ≤ indoorTempNew i ∧ indoorTempNew i ≤ hi
  unfold indoorTempNew
  rw [hq, add_zero, le_div_iff₀ hH2, div_le_iff₀ hH2]
  unfold h1 h2
  have a1 := mul_le_mul_of_nonneg_right hw.1 w1
  have a2 := mul_le_mul_of_nonneg_right hw.2 w1
  have a3 := mul_le_mul_of_nonneg_right hm.1 w2
  have a4 := mul_le_mul_of_nonneg_right hm.2 w2
  have a5 := mul_le_mul_of_nonneg_right hc.1 w3
  have a6 := mul_le_mul_of_nonneg_right hc.2 w3
  have a7 := mul_le_mul_of_nonneg_right hcan.1 w4
  have a8 := mul_le_mul_of_nonneg_right hcan.2 w4
  have a9 := mul_le_mul_of_nonneg_right hcan.1 w5
  have a10 := mul_le_mul_of_nonneg_right hcan.2 w5
  have a11 := mul_le_mul_of_nonneg_right hcan.1 w6
  have a12 := mul_le_mul_of_nonneg_right hcan.2 w6
  constructor <;> linarith

/-- T3 (indoor). The new indoor temperature is `(H1 + Q) / H2` with `Q` the net sensible source
    (gains + heating − cooling) and, for `H2 > 0`, non-decreasing in `Q`. -/
theorem indoor_monotone_in_source (hH2 : 0 < h2 i) :
    (bemCore phi i).indoorTemp = (h1 i + qTot i) / h2 i ∧
    ∀ q q' : K, q ≤ q' → (h1 i + q) / h2 i ≤ (h1 i + q') / h2 i := by
  refine ⟨rfl, fun q q' h => ?_⟩
  rw [div_le_div_iff_of_pos_right hH2]; linarith

end indoor

/-! ## Urban boundary layer -/
section ubl
variable (rpow : K → K → K) (b : UblIn K)

theorem listSum_const (c : K) (l : List K) :
    listSum (l.map (fun _ => c)) = (l.length : K) * c := by
  induction l with
  | nil => simp [listSum]
  | cons x xs ih => simp only [List.map, listSum, ih, List.length_cons, Nat.cast_succ]; ring

/-- T1 (boundary layer, day). Rural profile value at the reference height and old
    boundary-layer temperature both `T`, no heat from the canyon (`Q_ubl = 0`),
    `1 + advCoef ≠ 0` ⇒ the new temperature and every cell are exactly `T`. -/
theorem ubl_day_fixed_point (T : K) (he : eqTemp b = T) (hu : b.ublTemp = T) (hq : b.qUbl = 0)
    (hden : 1 + advCoefDay rpow b ≠ 0) (hday : isDay b) :
    (ublCore rpow b).ublTemp = T ∧ ∀ x ∈ (ublCore rpow b).cells, x = T := by
  have e : ublDay rpow b = T := by
    unfold ublDay csurfDay
    rw [hq, he, hu, zero_mul, zero_div, zero_add, div_eq_iff hden]; ring
  unfold ublCore; rw [if_pos hday, e]
  exact ⟨rfl, fun x hx => by simp at hx; exact hx.2⟩

/-- The daytime advection coefficient is non-negative for non-negative geometry, wind profile
    value and minimum wind — whatever the value of `x ** (1/3)`: in the convective branch the
    circulation velocity is at least `max(wind, windMin) ≥ windMin ≥ 0`. -/
theorem advCoefDay_nonneg (ho : 0 ≤ b.orthLength) (hw : 0 ≤ eqWind b) (hdt : 0 ≤ b.dt)
    (hA : 0 < b.urbArea) (hp : 0 ≤ b.perimeter) (hmin : 0 ≤ b.windMin) :
    0 ≤ advCoefDay rpow b := by
  unfold advCoefDay
  split_ifs with hf
  · exact mul_nonneg (div_nonneg (mul_nonneg (mul_nonneg ho hw) hdt) hA.le) (by positivity)
  · have hu : 0 ≤ uCirc rpow b := by
      unfold forced at hf
      have h1 : vWind b ≤ uCirc rpow b := not_lt.mp hf
      have h2 : b.windMin ≤ vWind b := le_max_right _ _
      linarith
    exact mul_nonneg (div_nonneg (mul_nonneg (mul_nonneg hp hu) hdt) hA.le) (by positivity)

/-- T2 (boundary layer, day). `advCoef ≥ 0`, no heat from the canyon ⇒ the new temperature lies
    between the rural reference value and the old boundary-layer temperature. -/
theorem ubl_day_convex (lo hi : K) (hadv : 0 ≤ advCoefDay rpow b) (hq : b.qUbl = 0)
    (he : lo ≤ eqTemp b ∧ eqTemp b ≤ hi) (hu : lo ≤ b.ublTemp ∧ b.ublTemp ≤ hi) :
    lo ≤ ublDay rpow b ∧ ublDay rpow b ≤ hi := by
  have hpos : 0 < 1 + advCoefDay rpow b := by linarith
  unfold ublDay csurfDay
  rw [hq, zero_mul, zero_div, zero_add, le_div_iff₀ hpos, div_le_iff₀ hpos]
  have a1 := mul_le_mul_of_nonneg_left he.1 hadv
  have a2 := mul_le_mul_of_nonneg_left he.2 hadv
  constructor <;> nlinarith

/-- T3 (boundary layer, day). More sensible heat from the canyon never lowers the new
    temperature (`dt ≥ 0`, `h·ρ·cp > 0`, `1 + advCoef > 0`). -/
theorem ubl_day_monotone_in_source (δ : K) (hδ : 0 ≤ δ) (hdt : 0 ≤ b.dt)
    (hden : 0 < b.dayBLHeight * refDens b * b.cp) (hadv : 0 < 1 + advCoefDay rpow b) :
    ublDay rpow b ≤ ublDay rpow { b with qUbl := b.qUbl + δ } := by
  show (csurfDay b + advCoefDay rpow b * eqTemp b + b.ublTemp) / (1 + advCoefDay rpow b) ≤
    ((b.qUbl + δ) * b.dt / (b.dayBLHeight * refDens b * b.cp) + advCoefDay rpow b * eqTemp b
      + b.ublTemp) / (1 + advCoefDay rpow b)
  rw [div_le_div_iff_of_pos_right hadv]
  unfold csurfDay
  have : b.qUbl * b.dt / (b.dayBLHeight * refDens b * b.cp)
      ≤ (b.qUbl + δ) * b.dt / (b.dayBLHeight * refDens b * b.cp) := by
    rw [div_le_div_iff_of_pos_right hden]
    have := mul_nonneg hδ hdt
    nlinarith
  linarith

/-- T4 (day). In the daytime branch every cell is set to the new temperature, so the
    boundary-layer temperature is the mean of its cells. -/
theorem ubl_day_mean (hday : isDay b) :
    listSum (ublCore rpow b).cells
      = ((ublCore rpow b).cells.length : K) * (ublCore rpow b).ublTemp := by
  unfold ublCore; rw [if_pos hday]
  simp only [listSum_const, List.length_map]

/-! ### night -/

theorem nightCells_length (csurf a2 : K) : ∀ (l : List K) (prev : K),
    (nightCells csurf a2 prev l).length = l.length
  | [], _ => rfl
  | c :: cs, prev => by simp only [nightCells, List.length_cons, nightCells_length csurf a2 cs]

theorem listSum_append (l m : List K) : listSum (l ++ m) = listSum l + listSum m := by
  induction l with
  | nil => simp [listSum]
  | cons x xs ih => simp only [List.cons_append, listSum, ih]; ring

theorem listSum_bounds (lo hi : K) (l : List K) (h : ∀ x ∈ l, lo ≤ x ∧ x ≤ hi) :
    lo * (l.length : K) ≤ listSum l ∧ listSum l ≤ hi * (l.length : K) := by
  induction l with
  | nil => simp [listSum]
  | cons x xs ih =>
    obtain ⟨i1, i2⟩ := ih (fun y hy => h y (List.mem_cons_of_mem _ hy))
    obtain ⟨h1, h2⟩ := h x List.mem_cons_self
    simp only [listSum, List.length_cons, Nat.cast_succ]
    constructor <;> nlinarith

/-- Shape of a successful `nightforc` call. -/
theorem nightforc_some (c0 : K) (rest : List K) (n : Nat) (csurf a1 a2 pL cL t : K) (cs : List K)
    (h : nightforc (c0 :: rest) n csurf a1 a2 pL cL = some (t, cs)) :
    n - 1 ≤ rest.length ∧
    t = ((csurf + a1 + c0) / (1 + a2) +
      listSum (nightCells csurf a2 ((csurf + a1 + c0) / (1 + a2)) (rest.take (n - 1)))) / cL * pL ∧
    cs = (csurf + a1 + c0) / (1 + a2) ::
      nightCells csurf a2 ((csurf + a1 + c0) / (1 + a2)) (rest.take (n - 1)) ++ rest.drop (n - 1) := by
  unfold nightforc at h
  simp only at h
  split_ifs at h with hg
  simp only [Option.some.injEq, Prod.mk.injEq] at h
  exact ⟨not_lt.mp hg, h.1.symm, h.2.symm⟩

/-- T4 (night). When the loop count equals the number of cells and
    `charLength = count · paralLength` (both true for objects built by `UBLDef.__init__` with an
    integer `charLength` up to 62 498 m: proved from the constructor's arithmetic as
    `night_mean_of_constructor` in `Props/C15Inputs.lean`), the returned boundary-layer temperature
    is the arithmetic mean of the returned cells, and no cell is lost. -/
theorem night_mean (cells : List K) (n : Nat) (csurf a1 a2 pL cL t : K) (cs : List K)
    (h : nightforc cells n csurf a1 a2 pL cL = some (t, cs))
    (hn : n = cells.length) (hL : cL = (n : K) * pL) (hp : pL ≠ 0) :
    cs.length = cells.length ∧ t = listSum cs / (n : K) := by
  match cells, h, hn with
  | [], h, _ => simp [nightforc] at h
  | c0 :: rest, h, hn =>
    obtain ⟨_, ht, hcs⟩ := nightforc_some c0 rest n csurf a1 a2 pL cL t cs h
    have hn1 : n - 1 = rest.length := by simp [hn]
    rw [hn1, List.take_length, List.drop_length, List.append_nil] at hcs
    rw [hn1, List.take_length] at ht
    have hnpos : (0 : K) < (n : K) := by rw [hn]; simp; positivity
    refine ⟨by rw [hcs]; simp [nightCells_length], ?_⟩
    rw [ht, hcs, hL]
    simp only [listSum]
    have := ne_of_gt hnpos
    field_simp

theorem nightCells_iso (T a2 : K) (ha : 1 + a2 ≠ 0) : ∀ (l : List K), (∀ x ∈ l, x = T) →
    nightCells 0 a2 T l = l
  | [], _ => rfl
  | c :: cs, h => by
    have hc := h c List.mem_cons_self
    have e : (0 + a2 * T + c) / (1 + a2) = T := by rw [hc, div_eq_iff ha]; ring
    simp only [nightCells, e, nightCells_iso T a2 ha cs (fun x hx => h x (List.mem_cons_of_mem _ hx))]
    rw [hc]

/-- T1 (boundary layer, night). Every cell at `T`, the wind-weighted rural profile at `T`
    (`advCoef1 = advCoef2 · T`, see `advCoef1_iso`), no heat from the canyon, `1 + advCoef2 ≠ 0`
    ⇒ no cell changes (for every loop count), and under the hypotheses of `night_mean` the
    boundary-layer temperature is exactly `T`. -/
theorem night_fixed_point (T : K) (cells : List K) (n : Nat) (a1 a2 pL cL t : K) (cs : List K)
    (h : nightforc cells n 0 a1 a2 pL cL = some (t, cs))
    (hc : ∀ x ∈ cells, x = T) (ha1 : a1 = a2 * T) (ha : 1 + a2 ≠ 0) :
    cs = cells ∧ (n = cells.length → cL = (n : K) * pL → pL ≠ 0 → t = T) := by
  match cells, h, hc with
  | [], h, _ => simp [nightforc] at h
  | c0 :: rest, h, hc =>
    obtain ⟨hle, ht, hcs⟩ := nightforc_some c0 rest n 0 a1 a2 pL cL t cs h
    have h0 := hc c0 List.mem_cons_self
    have e : (0 + a1 + c0) / (1 + a2) = T := by rw [ha1, h0, div_eq_iff ha]; ring
    have hr : ∀ x ∈ rest.take (n - 1), x = T :=
      fun x hx => hc x (List.mem_cons_of_mem _ (List.mem_of_mem_take hx))
    have hcells : cs = c0 :: rest := by
      rw [hcs, e, nightCells_iso T a2 ha _ hr, List.cons_append, List.take_append_drop, h0]
    refine ⟨hcells, fun hn hL hp => ?_⟩
    obtain ⟨_, hm⟩ := night_mean (c0 :: rest) n 0 a1 a2 pL cL t cs h hn hL hp
    have hall : ∀ x ∈ cs, T ≤ x ∧ x ≤ T := by
      rw [hcells]; intro x hx; rw [hc x hx]; exact ⟨le_rfl, le_rfl⟩
    obtain ⟨b1, b2⟩ := listSum_bounds T T cs hall
    have hlen : (cs.length : K) = (n : K) := by rw [hcells, hn]
    have hnpos : (0 : K) < (n : K) := by rw [hn]; simp; positivity
    rw [hlen] at b1 b2
    rw [hm, div_eq_iff (ne_of_gt hnpos)]
    linarith

theorem nightCells_bounds (lo hi a2 : K) (ha : 0 ≤ a2) : ∀ (l : List K) (prev : K),
    lo ≤ prev → prev ≤ hi → (∀ x ∈ l, lo ≤ x ∧ x ≤ hi) →
    ∀ y ∈ nightCells 0 a2 prev l, lo ≤ y ∧ y ≤ hi
  | [], _, _, _, _ => by simp [nightCells]
  | c :: cs, prev, h1, h2, hl => by
    have hpos : 0 < 1 + a2 := by linarith
    obtain ⟨c1, c2⟩ := hl c List.mem_cons_self
    have n1 : lo ≤ (0 + a2 * prev + c) / (1 + a2) := by
      rw [le_div_iff₀ hpos]; nlinarith [mul_le_mul_of_nonneg_left h1 ha]
    have n2 : (0 + a2 * prev + c) / (1 + a2) ≤ hi := by
      rw [div_le_iff₀ hpos]; nlinarith [mul_le_mul_of_nonneg_left h2 ha]
    intro y hy
    simp only [nightCells, List.mem_cons] at hy
    rcases hy with hy | hy
    · rw [hy]; exact ⟨n1, n2⟩
    · exact nightCells_bounds lo hi a2 ha cs _ n1 n2
        (fun x hx => hl x (List.mem_cons_of_mem _ hx)) y hy

/-- T5 (boundary layer, night). `advCoef2 ≥ 0`, wind-weighted rural profile within `[lo, hi]`
    (`lo·advCoef2 ≤ advCoef1 ≤ hi·advCoef2`, see `advCoef1_bounds`), old cells within `[lo, hi]`,
    no heat from the canyon ⇒ every returned cell lies in `[lo, hi]`, and so does the
    boundary-layer temperature under the hypotheses of `night_mean`. -/
theorem night_convex (lo hi : K) (cells : List K) (n : Nat) (a1 a2 pL cL t : K) (cs : List K)
    (h : nightforc cells n 0 a1 a2 pL cL = some (t, cs))
    (ha : 0 ≤ a2) (hlo : lo * a2 ≤ a1) (hhi : a1 ≤ hi * a2)
    (hc : ∀ x ∈ cells, lo ≤ x ∧ x ≤ hi) :
    (∀ y ∈ cs, lo ≤ y ∧ y ≤ hi) ∧
    (n = cells.length → cL = (n : K) * pL → pL ≠ 0 → lo ≤ t ∧ t ≤ hi) := by
  match cells, h, hc with
  | [], h, _ => simp [nightforc] at h
  | c0 :: rest, h, hc =>
    obtain ⟨hle, ht, hcs⟩ := nightforc_some c0 rest n 0 a1 a2 pL cL t cs h
    have hpos : 0 < 1 + a2 := by linarith
    obtain ⟨c1, c2⟩ := hc c0 List.mem_cons_self
    have n1 : lo ≤ (0 + a1 + c0) / (1 + a2) := by rw [le_div_iff₀ hpos]; linarith
    have n2 : (0 + a1 + c0) / (1 + a2) ≤ hi := by rw [div_le_iff₀ hpos]; linarith
    have hall : ∀ y ∈ cs, lo ≤ y ∧ y ≤ hi := by
      intro y hy
      rw [hcs] at hy
      simp only [List.mem_cons, List.mem_append] at hy
      rcases hy with (hy | hy) | hy
      · rw [hy]; exact ⟨n1, n2⟩
      · exact nightCells_bounds lo hi a2 ha _ _ n1 n2
          (fun x hx => hc x (List.mem_cons_of_mem _ (List.mem_of_mem_take hx))) y hy
      · exact hc y (List.mem_cons_of_mem _ (List.mem_of_mem_drop hy))
    refine ⟨hall, fun hn hL hp => ?_⟩
    obtain ⟨hlen, hm⟩ := night_mean (c0 :: rest) n 0 a1 a2 pL cL t cs h hn hL hp
    obtain ⟨b1, b2⟩ := listSum_bounds lo hi cs hall
    have hlen' : (cs.length : K) = (n : K) := by rw [hlen, hn]
    have hnpos : (0 : K) < (n : K) := by rw [hn]; simp; positivity
    rw [hlen'] at b1 b2
    rw [hm, le_div_iff₀ hnpos, div_le_iff₀ hnpos]
    exact ⟨b1, b2⟩

theorem nightCells_mono (a2 : K) (ha : 0 ≤ a2) (s s' : K) (hs : s ≤ s') : ∀ (l : List K)
    (prev prev' : K), prev ≤ prev' →
    List.Forall₂ (· ≤ ·) (nightCells s a2 prev l) (nightCells s' a2 prev' l)
  | [], _, _, _ => List.Forall₂.nil
  | c :: cs, prev, prev', hp => by
    have hpos : 0 < 1 + a2 := by linarith
    have e : (s + a2 * prev + c) / (1 + a2) ≤ (s' + a2 * prev' + c) / (1 + a2) := by
      rw [div_le_div_iff_of_pos_right hpos]
      have := mul_le_mul_of_nonneg_left hp ha
      linarith
    simp only [nightCells]
    exact List.Forall₂.cons e (nightCells_mono a2 ha s s' hs cs _ _ e)

theorem forall₂_le_refl : ∀ (l : List K), List.Forall₂ (· ≤ ·) l l
  | [] => List.Forall₂.nil
  | x :: xs => List.Forall₂.cons le_rfl (forall₂_le_refl xs)

theorem forall₂_le_append : ∀ (l l' m : List K), List.Forall₂ (· ≤ ·) l l' →
    List.Forall₂ (· ≤ ·) (l ++ m) (l' ++ m)
  | [], [], m, _ => forall₂_le_refl m
  | x :: xs, y :: ys, m, h => by
    cases h with
    | cons h1 h2 => exact List.Forall₂.cons h1 (forall₂_le_append xs ys m h2)

theorem listSum_mono : ∀ (l l' : List K), List.Forall₂ (· ≤ ·) l l' → listSum l ≤ listSum l'
  | [], [], _ => le_rfl
  | x :: xs, y :: ys, h => by
    cases h with
    | cons h1 h2 =>
      have := listSum_mono xs ys h2
      simp only [listSum]; linarith

/-- T3 (boundary layer, night). More sensible heat from the canyon (`Csurf ≤ Csurf'`,
    `advCoef2 ≥ 0`) lowers no cell, and does not lower the boundary-layer temperature when
    `paralLength / charLength ≥ 0`. -/
theorem night_monotone_in_source (cells : List K) (n : Nat) (s s' a1 a2 pL cL t t' : K)
    (cs cs' : List K) (ha : 0 ≤ a2) (hs : s ≤ s')
    (h : nightforc cells n s a1 a2 pL cL = some (t, cs))
    (h' : nightforc cells n s' a1 a2 pL cL = some (t', cs')) :
    List.Forall₂ (· ≤ ·) cs cs' ∧ (0 < cL → 0 ≤ pL → t ≤ t') := by
  match cells, h, h' with
  | [], h, _ => simp [nightforc] at h
  | c0 :: rest, h, h' =>
    obtain ⟨_, ht, hcs⟩ := nightforc_some c0 rest n s a1 a2 pL cL t cs h
    obtain ⟨_, ht', hcs'⟩ := nightforc_some c0 rest n s' a1 a2 pL cL t' cs' h'
    have hpos : 0 < 1 + a2 := by linarith
    have e : (s + a1 + c0) / (1 + a2) ≤ (s' + a1 + c0) / (1 + a2) := by
      rw [div_le_div_iff_of_pos_right hpos]; linarith
    have hm := nightCells_mono a2 ha s s' hs (rest.take (n - 1)) _ _ e
    refine ⟨?_, fun hcL hpL => ?_⟩
    · rw [hcs, hcs']
      exact List.Forall₂.cons e (forall₂_le_append _ _ _ hm)
    · rw [ht, ht']
      have := listSum_mono _ _ hm
      apply mul_le_mul_of_nonneg_right _ hpL
      rw [div_le_div_iff_of_pos_right hcL]
      linarith

/-- What the loop-count hypothesis of `night_mean` protects against: with a loop count `n`
    smaller than the number of cells, the cells from index `n` on are returned unchanged (and are
    not part of the sum); a count larger than the number of cells is an IndexError (`none`). -/
theorem night_partial_count (cells : List K) (n : Nat) (csurf a1 a2 pL cL : K) :
    (cells.length < n → nightforc cells n csurf a1 a2 pL cL = none) ∧
    (∀ t cs, 1 ≤ n → nightforc cells n csurf a1 a2 pL cL = some (t, cs) →
      cs.length = cells.length ∧ cs.drop n = cells.drop n) := by
  constructor
  · intro hlt
    match cells, hlt with
    | [], _ => rfl
    | c0 :: rest, hlt =>
      unfold nightforc; simp only
      rw [if_pos]; simp only [List.length_cons] at hlt; omega
  · intro t cs hn h
    match cells, h with
    | [], h => simp [nightforc] at h
    | c0 :: rest, h =>
      obtain ⟨hle, _, hcs⟩ := nightforc_some c0 rest n csurf a1 a2 pL cL t cs h
      obtain ⟨m, rfl⟩ : ∃ m, n = m + 1 := ⟨n - 1, by omega⟩
      simp only [Nat.add_sub_cancel] at hcs hle
      have hl : (nightCells csurf a2 ((csurf + a1 + c0) / (1 + a2)) (rest.take m)).length = m := by
        rw [nightCells_length, List.length_take]; omega
      constructor
      · rw [hcs]; simp only [List.length_cons, List.length_append, hl, List.length_drop]; omega
      · rw [hcs, List.cons_append, List.drop_succ_cons, List.drop_succ_cons,
          List.drop_append_of_le_length (by omega), List.drop_of_length_le (by omega),
          List.nil_append]

/-! ### the rural-profile integrals of `nightforc` -/

theorem dot3_iso (T : K) : ∀ (n : Nat) (xs ys zs : List K), (∀ y ∈ ys.take n, y = T) →
    dot3 n xs ys zs = T * dot2 n xs zs ∨ ys.length < n
  | 0, _, _, _, _ => by left; simp [dot3, dot2]
  | n + 1, [], _, _, _ => by left; simp [dot3, dot2]
  | n + 1, _ :: _, [], _, _ => by right; simp
  | n + 1, _ :: _, _ :: _, [], _ => by left; simp [dot3, dot2]
  | n + 1, x :: xs, y :: ys, z :: zs, hy => by
    have hy0 : y = T := hy y (by simp)
    rcases dot3_iso T n xs ys zs (fun a ha => hy a (by simp [ha])) with h | h
    · left; simp only [dot3, dot2, h, hy0]; ring
    · right; simpa using h

/-- Rural potential temperature equal to `T` on every level up to the night boundary-layer
    height (`tempProf[iz] = T` for `iz < nzfor`) ⇒ `advCoef1 = advCoef2 · T`. -/
theorem advCoef1_iso (T : K) (hwf : b.rsm.nzfor ≤ b.rsm.tempProf.length)
    (h : ∀ y ∈ b.rsm.tempProf.take b.rsm.nzfor, y = T) :
    advCoef1 b = advCoef2 b * T := by
  unfold advCoef1 advCoef2 intAdv1 intAdv2
  rcases dot3_iso T b.rsm.nzfor b.rsm.windProf b.rsm.tempProf b.rsm.dz h with e | e
  · rw [e]; ring
  · omega

theorem dot3_bounds (lo hi : K) : ∀ (n : Nat) (xs ys zs : List K),
    (∀ x ∈ xs, 0 ≤ x) → (∀ z ∈ zs, 0 ≤ z) → (∀ y ∈ ys.take n, lo ≤ y ∧ y ≤ hi) →
    (0 ≤ dot2 n xs zs ∧ lo * dot2 n xs zs ≤ dot3 n xs ys zs ∧
      dot3 n xs ys zs ≤ hi * dot2 n xs zs) ∨ ys.length < n
  | 0, _, _, _, _, _, _ => by left; simp [dot3, dot2]
  | n + 1, [], _, _, _, _, _ => by left; simp [dot3, dot2]
  | n + 1, _ :: _, [], _, _, _, _ => by right; simp
  | n + 1, x :: xs, _ :: _, [], hx, _, _ => by
    left
    have : dot2 (n + 1) (x :: xs) ([] : List K) = 0 := by simp [dot2]
    simp [dot3, this]
  | n + 1, x :: xs, y :: ys, z :: zs, hx, hz, hy => by
    obtain ⟨y1, y2⟩ := hy y (by simp)
    have hx0 := hx x List.mem_cons_self
    have hz0 := hz z List.mem_cons_self
    have hxz : 0 ≤ x * z := mul_nonneg hx0 hz0
    rcases dot3_bounds lo hi n xs ys zs (fun a ha => hx a (List.mem_cons_of_mem _ ha))
        (fun a ha => hz a (List.mem_cons_of_mem _ ha)) (fun a ha => hy a (by simp [ha])) with h | h
    · left
      obtain ⟨i0, i1, i2⟩ := h
      simp only [dot3, dot2]
      have a1 := mul_le_mul_of_nonneg_right y1 hxz
      have a2 := mul_le_mul_of_nonneg_right y2 hxz
      refine ⟨by linarith, by nlinarith, by nlinarith⟩
    · right; simpa using h

/-- Non-negative wind profile and layer thicknesses, positive `dt`, `paralLength`, `h_UBL`, and
    rural temperatures within `[lo, hi]` up to the night boundary-layer height ⇒ the hypotheses
    of `night_convex` on the advection coefficients. -/
theorem advCoef1_bounds (lo hi : K) (hwf : b.rsm.nzfor ≤ b.rsm.tempProf.length)
    (hw : ∀ x ∈ b.rsm.windProf, 0 ≤ x) (hz : ∀ z ∈ b.rsm.dz, 0 ≤ z)
    (hT : ∀ y ∈ b.rsm.tempProf.take b.rsm.nzfor, lo ≤ y ∧ y ≤ hi)
    (hdt : 0 ≤ b.dt) (hp : 0 < b.paralLength) (hh : 0 < b.nightBLHeight) :
    0 ≤ advCoef2 b ∧ lo * advCoef2 b ≤ advCoef1 b ∧ advCoef1 b ≤ hi * advCoef2 b := by
  have hc : 0 ≤ 14 / 10 * b.dt / b.paralLength / b.nightBLHeight :=
    div_nonneg (div_nonneg (mul_nonneg (by positivity) hdt) hp.le) hh.le
  unfold advCoef1 advCoef2 intAdv1 intAdv2
  rcases dot3_bounds lo hi b.rsm.nzfor b.rsm.windProf b.rsm.tempProf b.rsm.dz hw hz hT with e | e
  · obtain ⟨e0, e1, e2⟩ := e
    have a1 := mul_le_mul_of_nonneg_left e1 hc
    have a2 := mul_le_mul_of_nonneg_left e2 hc
    refine ⟨mul_nonneg hc e0, by linarith, by linarith⟩
  · omega

/-- A normal return of `ublModel` yields `ublCore`, on a well-formed profile. -/
theorem ublModel_ok (o : UblOut K) (h : ublModel rpow b = .ok o) :
    o = ublCore rpow b ∧ b.rsm.wf := by
  unfold ublModel at h
  split at h
  · simp at h
  · rename_i hg
    simp only [Except.ok.injEq] at h
    refine ⟨h.symm, ?_⟩
    unfold ublGuards at hg
    by_contra hwf
    rw [if_pos hwf] at hg
    simp at hg

end ubl

/-! ## Non-vacuity: concrete states satisfying the hypotheses (kernel-evaluated over ℚ) -/
section examples

def exU : UcmIn ℚ :=
  { pres := 101325, forcHum := 1/100, cp := 1004, tUbl := 300, canTemp := 299, canHum := 1/100,
    tRoad := 300, aeroCond := 10, roadArea := 400, roofArea := 400, facArea := 640, uExch := 1/10,
    sensAnthrop := 0, treeSensHeat := 0, bldHeight := 10, hMix := 1, bldDensity := 1/2,
    verToHor := 4/5, qRoof0 := 0 }

def exB (T : ℚ) (fr : ℚ) : Bld ℚ :=
  { frac := fr, indoorTemp := T, tWall := T, glazingRatio := 2/5, uValue := 3, vent := 1/1000,
    nFloor := 3, infil := 1/2, sensWaste := 0, solRec := 0, shgc := 1/2, tRoof := 310,
    roofSens := 20, flArea := 1000, elecTotal := 10, gasTotal := 2 }

/-- isothermal, source-free canyon: hypotheses of T1/T2 hold, the call returns, result = 300 K -/
example : UcmNonneg exU ∧ (∀ b ∈ [exB 300 (2/5), exB 300 (3/5)], BldNonneg b ∧ BldTemps 300 b) := by
  refine ⟨by constructor <;> decide +kernel, ?_⟩
  intro b hb
  simp only [List.mem_cons, List.not_mem_nil, or_false] at hb
  rcases hb with rfl | rfl <;>
    exact ⟨by constructor <;> decide +kernel, by constructor <;> rfl⟩

example : ucQ exU [exB 300 (2/5), exB 300 (3/5)] = 0 ∧ 0 < ucH2 exU [exB 300 (2/5), exB 300 (3/5)] ∧
    ucGuards exU [exB 300 (2/5), exB 300 (3/5)] = none ∧
    canTempNew exU [exB 300 (2/5), exB 300 (3/5)] = 300 := by decide +kernel

/-- non-isothermal, with a source: result strictly inside, then raised by the source -/
example : let bs := [exB 296 (2/5), exB 304 (3/5)]
    296 < canTempNew exU bs ∧ canTempNew exU bs < 304 ∧
    canTempNew exU bs < canTempNew { exU with sensAnthrop := exU.sensAnthrop + 20 } bs := by
  decide +kernel

example : MoreWaste [exB 296 (2/5), exB 304 (3/5)]
    [{ exB 296 (2/5) with sensWaste := 50 }, exB 304 (3/5)] :=
  ⟨rfl, by decide +kernel, by decide +kernel, rfl, by decide +kernel, by decide +kernel, trivial⟩

/-- indoor node: `C14.exIdle` is an isothermal room at 295 K between the set-points -/
example : Hvac.intHeat C14.exIdle = 0 ∧ Hvac.winTrans C14.exIdle = 0 ∧
    Hvac.tHeat C14.exIdle ≤ 295 ∧ 295 ≤ Hvac.tCool C14.exIdle ∧ 0 < Hvac.h2 C14.exIdle ∧
    Hvac.qTot C14.exIdle = 0 ∧ 0 ≤ Hvac.dens C14.exIdle ∧
    (Hvac.bemCore (fun _ _ _ => 0) C14.exIdle).indoorTemp = 295 := by decide +kernel

def exRsm : Rsm ℚ :=
  { nzref := 3, nzfor := 2, densityProfC := [12/10, 119/100, 118/100, 117/100],
    dz := [4, 6, 10, 20], z := [2, 7, 15, 30], tempProf := [300, 300, 300, 299],
    windProf := [2, 3, 4, 5] }

def exUbl : UblIn ℚ :=
  { sensHeat := 80, qUbl := 0, ruralSens := 50, cp := 1004, circCoeff := 12/10, g := 981/100,
    dayThreshold := 150, windMin := 1, wind := 6, dir := 500, dif := 100, secDay := 36000,
    dt := 300, dayBLHeight := 1000, nightBLHeight := 80, orthLength := 1000, urbArea := 1000000,
    perimeter := 4000, paralLength := 250, charLength := 1000, ublTemp := 300,
    cells := [300, 300, 300, 300], count := loopCount 1000 250, rsm := exRsm }

/-- the stub used in the correspondence runs (`a ** b := a·b + 1`) as a sample interpretation -/
def exPow : ℚ → ℚ → ℚ := fun a c => a * c + 1

/-- day, forced branch, isothermal and source-free: hypotheses of the day theorems hold -/
example : isDay exUbl ∧ forced exPow exUbl ∧ exUbl.rsm.wf ∧ eqTemp exUbl = 300 ∧
    0 ≤ advCoefDay exPow exUbl ∧ 0 < exUbl.dayBLHeight * refDens exUbl * exUbl.cp ∧
    ublGuards exPow exUbl = none ∧ (ublCore exPow exUbl).ublTemp = 300 := by decide +kernel

/-- day, convective branch (calm air, strong urban excess heat) -/
example : let c := { exUbl with wind := 1/2, sensHeat := 400 }
    isDay c ∧ ¬ forced exPow c ∧ 0 ≤ advCoefDay exPow c ∧ ublGuards exPow c = none := by
  decide +kernel

/-- night: loop count = number of cells = 4, `charLength = 4 · paralLength`; isothermal profile
    up to `nzfor`, so `advCoef1 = advCoef2 · 300`; the call returns and nothing moves -/
example : let c := { exUbl with dir := 0, dif := 0 }
    ¬ isDay c ∧ c.count = some 4 ∧ c.charLength = (4 : ℚ) * c.paralLength ∧
    0 ≤ advCoef2 c ∧ advCoef1 c = advCoef2 c * 300 ∧ ublGuards exPow c = none ∧
    (ublCore exPow c).ublTemp = 300 ∧ (ublCore exPow c).cells = [300, 300, 300, 300] := by
  decide +kernel

/-- night with heat from the canyon and a non-uniform state: the mean statement is non-trivial -/
example : let c := { exUbl with dir := 0, dif := 0, qUbl := 40, cells := [299, 300, 301, 302] }
    ublGuards exPow c = none ∧
    (ublCore exPow c).ublTemp = listSum (ublCore exPow c).cells / 4 ∧
    (ublCore exPow c).cells ≠ c.cells := by decide +kernel

end examples

end Uwg.C15
