/-
C14 — HVAC never exceeds capacity and tracks its set-point.

Property theorems about the model `Uwg.Hvac.bemCalc` of `Building.BEMCalc`, for every linearly
ordered field `K` (ℚ, where the model is executed against the real code, and ℝ).

Reading guide.  `bemCalc φ i = .ok o` implies `o = bemCore φ i` (`bemCalc_ok`), so all statements
are made about `bemCore φ i`, the attribute values after the call, and about the per-footprint
quantities of the branch (`sensCoolC`, `dehumC`, `qheatH`, …).  The attributes
`sensCoolDemand`, `coolConsump`, `heatConsump` are *per floor area* (divided by `nFloor` at the
end of `BEMCalc`), `dehumDemand`, `Qhvac`, `Qheat`, `sensWaste` are per building footprint;
delivered cooling per footprint is therefore `sensCoolDemand * nFloor + dehumDemand`.

T1–T4 are stated **for the branch actually taken** (`branch i = .cool / .heat / .idle`).

Free cooling (honest description of a case the property's wording does not foresee).  When the
canyon is at or below 288 K and the load sum at the cooling set-point is positive, the code takes
*no* HVAC branch (unless the heating branch applies) but still subtracts that load in the indoor
balance: the room ends the step exactly at the cooling set-point (`free_cooling_tracks`) while
`Qhvac = coolConsump = 0` and without any capacity limit — the sensible heat removed this way can
exceed `coolcap * nFloor` (`free_cooling_exceeds_capacity`, a concrete witness).  If one reads
"delivered cooling" as "heat removed from the room air", that case contradicts "never exceeds
rated capacity" and "energy use = delivered load / COP"; the theorems below treat the system as
inactive there (`Qhvac = 0`).
-/
import UwgVerif.Model.Hvac
import Mathlib.Tactic.Ring
import Mathlib.Tactic.FieldSimp
import Mathlib.Tactic.Linarith
import Mathlib.Tactic.Positivity
import Mathlib.Tactic.NormNum

namespace Uwg.C14
open Uwg.Hvac
variable {K : Type} [Field K] [LinearOrder K] [IsStrictOrderedRing K]
variable (phi : K → K → K → K) (i : BemIn K)

/-! ### helper facts -/

theorem nFloor_ge_one : 1 ≤ nFloor i := le_max_right _ _

theorem nFloor_pos : 0 < nFloor i := lt_of_lt_of_le one_pos (nFloor_ge_one i)

theorem nFloor_ne : nFloor i ≠ 0 := ne_of_gt (nFloor_pos i)

/-- The load sum and the balance coefficients are the same eight terms: for every `T`,
    `load(T) = H1 − H2·T + int_heat + winTrans`. Proved by `ring` from the written-out sums, so a
    term missing from `loadAt`, `h1` or `h2` makes this (and `tracks_setpoint_*`) fail. -/
theorem loadAt_eq (T : K) : loadAt i T = h1 i - h2 i * T + intHeat i + winTrans i := by
  unfold loadAt h1 h2; ring

theorem sensCool0_nonneg : 0 ≤ sensCool0 i := le_max_right _ _
theorem sensHeat0_nonneg : 0 ≤ sensHeat0 i := le_max_right _ _
theorem dehum0_nonneg : 0 ≤ dehum0 i := le_max_right _ _

theorem sensCool0_of_pos (h : 0 < sensCool0 i) : sensCool0 i = loadAt i (tCool i) := by
  unfold sensCool0 at h ⊢
  rcases lt_max_iff.mp h with h | h
  · exact max_eq_left h.le
  · exact absurd h (lt_irrefl _)

theorem sensHeat0_of_pos (h : 0 < sensHeat0 i) : sensHeat0 i = -(loadAt i (tHeat i)) := by
  unfold sensHeat0 at h ⊢
  rcases lt_max_iff.mp h with h | h
  · exact max_eq_left h.le
  · exact absurd h (lt_irrefl _)

theorem branch_cool_iff : branch i = .cool ↔ 0 < sensCool0 i ∧ 288 < i.canTemp := by
  unfold branch
  split_ifs with h1 h2 <;> simp_all

theorem branch_heat_imp (h : branch i = .heat) : 0 < sensHeat0 i ∧ i.canTemp < 288 := by
  unfold branch at h
  split_ifs at h with h1 h2
  exact h2

theorem branch_idle_imp (h : branch i = .idle) :
    ¬ (0 < sensCool0 i ∧ 288 < i.canTemp) ∧ ¬ (0 < sensHeat0 i ∧ i.canTemp < 288) := by
  unfold branch at h
  split_ifs at h with h1 h2
  exact ⟨h1, h2⟩

theorem capTot_nonneg (hcap : 0 ≤ i.coolcap) : 0 ≤ capTot i :=
  mul_nonneg hcap (nFloor_pos i).le

/-- Delivered cooling (sensible + dehumidification, per footprint) after the capacity block:
    the demand itself when it fits, exactly the rated capacity otherwise. -/
theorem delivered_eq (hcap : 0 ≤ i.coolcap) :
    sensCoolC i + dehumC i = if limited i then capTot i else sensCool0 i + dehum0 i := by
  unfold sensCoolC dehumC
  split_ifs with hl
  · have htot : 0 < totDemand i := lt_of_le_of_lt (capTot_nonneg i hcap) hl
    have : totDemand i ≠ 0 := ne_of_gt htot
    have e : sensCool0 i * capTot i / totDemand i + dehum0 i * capTot i / totDemand i
        = totDemand i * capTot i / totDemand i := by unfold totDemand; ring
    rw [e]; field_simp
  · rfl

/-! ### T0 — the model's error cases -/

/-- A normal return of `bemCalc` yields exactly the attribute values `bemCore`, and then the
    temperature check passed and no divisor of the branch taken vanished. -/
theorem bemCalc_ok (o : BemOut K) (h : bemCalc phi i = .ok o) :
    o = bemCore phi i ∧ tempsOk i ∧ i.floorHeight ≠ 0 ∧ densDen i ≠ 0 ∧ i.bldDensity ≠ 0 ∧
      h2 i ≠ 0 ∧ humDen i ≠ 0 ∧ i.heateff ≠ 0 ∧ ¬ branchGuard i := by
  unfold bemCalc guards at h
  split_ifs at h with g1 g2 g3 g4
  all_goals try (simp at h)
  rw [not_or, not_or] at g1 g4
  exact ⟨h.symm, g2, g1.1, g1.2.1, g1.2.2, g4.1, g4.2.1, g4.2.2, g3⟩

/-! ### T1 — heating and cooling are never active together -/

/-- Cooling branch: no heat is delivered and no heating energy is used. -/
theorem exclusive_cool (hb : branch i = .cool) :
    (bemCore phi i).Qheat = 0 ∧ (bemCore phi i).heatConsump = 0 ∧
    (bemCore phi i).sensHeatDemand = 0 := by
  simp [bemCore, hvac, hb]

/-- Heating branch: no cooling (sensible or latent) is delivered and no cooling energy is used. -/
theorem exclusive_heat (hb : branch i = .heat) :
    (bemCore phi i).sensCoolDemand = 0 ∧ (bemCore phi i).dehumDemand = 0 ∧
    (bemCore phi i).Qhvac = 0 ∧ (bemCore phi i).coolConsump = 0 := by
  simp [bemCore, hvac, hb]

/-- No branch: neither system delivers anything or uses energy, and there is no HVAC waste heat. -/
theorem exclusive_idle (hb : branch i = .idle) :
    (bemCore phi i).Qhvac = 0 ∧ (bemCore phi i).Qheat = 0 ∧ (bemCore phi i).dehumDemand = 0 ∧
    (bemCore phi i).coolConsump = 0 ∧ (bemCore phi i).heatConsump = 0 ∧
    (hvac i).sensWaste = 0 := by
  simp [bemCore, hvac, hb]

/-- In every step, whatever the state: either the heating quantities or the cooling quantities
    are all zero. -/
theorem never_both :
    ((bemCore phi i).Qheat = 0 ∧ (bemCore phi i).heatConsump = 0) ∨
    ((bemCore phi i).Qhvac = 0 ∧ (bemCore phi i).coolConsump = 0 ∧
      (bemCore phi i).dehumDemand = 0) := by
  cases hb : branch i
  · exact Or.inl ⟨(exclusive_cool phi i hb).1, (exclusive_cool phi i hb).2.1⟩
  · have := exclusive_heat phi i hb
    exact Or.inr ⟨this.2.2.1, this.2.2.2, this.2.1⟩
  · have := exclusive_idle phi i hb
    exact Or.inl ⟨this.2.1, this.2.2.2.2.1⟩

/-- With a heating set-point not above the cooling set-point (and non-negative total exchange
    coefficient) a positive cooling demand and a positive heating demand cannot coexist. -/
theorem demands_exclusive (hH2 : 0 ≤ h2 i) (hT : tHeat i ≤ tCool i) :
    ¬ (0 < sensCool0 i ∧ 0 < sensHeat0 i) := by
  rintro ⟨hc, hh⟩
  have e1 := sensCool0_of_pos i hc
  have e2 := sensHeat0_of_pos i hh
  rw [e1] at hc; rw [e2] at hh
  rw [loadAt_eq] at hc hh
  have : 0 ≤ h2 i * (tCool i - tHeat i) := mul_nonneg hH2 (sub_nonneg.mpr hT)
  nlinarith

/-! ### T2 — delivery never exceeds rated capacity -/

/-- Cooling branch, rated capacity ≥ 0: delivered sensible + dehumidification cooling per
    footprint is at most `coolcap * nFloor`, equals `Qhvac`, and equals the capacity exactly when
    the capacity test fired. -/
theorem cool_capacity (hcap : 0 ≤ i.coolcap) :
    sensCoolC i + dehumC i ≤ capTot i ∧ qhvacC i = sensCoolC i + dehumC i ∧
    (limited i → sensCoolC i + dehumC i = capTot i) := by
  rw [delivered_eq i hcap]
  unfold qhvacC
  split_ifs with hl
  · exact ⟨le_rfl, rfl, fun _ => rfl⟩
  · refine ⟨?_, by ring, fun h => absurd h hl⟩
    have := not_lt.mp hl
    unfold totDemand at this
    linarith

/-- The same in terms of the attributes left on the building object. -/
theorem cool_capacity_attrs (hb : branch i = .cool) (hcap : 0 ≤ i.coolcap) :
    (bemCore phi i).sensCoolDemand * (bemCore phi i).nFloor + (bemCore phi i).dehumDemand
        ≤ i.coolcap * (bemCore phi i).nFloor ∧
    (bemCore phi i).Qhvac
        = (bemCore phi i).sensCoolDemand * (bemCore phi i).nFloor + (bemCore phi i).dehumDemand ∧
    (bemCore phi i).Qhvac ≤ i.coolcap * (bemCore phi i).nFloor := by
  obtain ⟨h1, h2, _⟩ := cool_capacity i hcap
  have hn := nFloor_ne i
  have e : (bemCore phi i).sensCoolDemand * (bemCore phi i).nFloor = sensCoolC i := by
    simp only [bemCore, hvac, hb]; field_simp
  have ed : (bemCore phi i).dehumDemand = dehumC i := by simp [bemCore, hvac, hb]
  have eq : (bemCore phi i).Qhvac = qhvacC i := by simp [bemCore, hvac, hb]
  have en : (bemCore phi i).nFloor = nFloor i := rfl
  rw [e, ed, eq, en]
  refine ⟨h1, h2, ?_⟩
  rw [h2]; exact h1

/-- Delivered heating never exceeds `heat_cap * nFloor` (in the heating branch unconditionally;
    elsewhere `Qheat = 0`, which needs `heat_cap ≥ 0`). -/
theorem heat_capacity (h : branch i = .heat ∨ 0 ≤ i.heatCap) :
    (bemCore phi i).Qheat ≤ i.heatCap * (bemCore phi i).nFloor := by
  have en : (bemCore phi i).nFloor = nFloor i := rfl
  rw [en]
  cases hb : branch i
  · have : 0 ≤ i.heatCap := by
      rcases h with h | h
      · rw [hb] at h; cases h
      · exact h
    simp only [bemCore, hvac, hb]
    exact mul_nonneg this (nFloor_pos i).le
  · simp only [bemCore, hvac, hb]
    exact min_le_right _ _
  · have : 0 ≤ i.heatCap := by
      rcases h with h | h
      · rw [hb] at h; cases h
      · exact h
    simp only [bemCore, hvac, hb]
    exact mul_nonneg this (nFloor_pos i).le

/-! ### T3 — set-point tracking -/

/-- Cooling active and not capacity-limited: the indoor air ends the step exactly at the
    cooling set-point. -/
theorem tracks_setpoint_cool (hb : branch i = .cool) (hnl : ¬ limited i) (hH2 : h2 i ≠ 0) :
    (bemCore phi i).indoorTemp = tCool i := by
  have hpos := ((branch_cool_iff i).mp hb).1
  have e := sensCool0_of_pos i hpos
  have hq : qTot i = intHeat i + winTrans i + 0 - loadAt i (tCool i) := by
    simp only [qTot, hvac, hb, sensCoolC, if_neg hnl, e]
  show indoorTempNew i = tCool i
  unfold indoorTempNew
  rw [hq, loadAt_eq]
  field_simp
  ring

/-- Cooling active and capacity-limited (capacity ≥ 0): the indoor air ends strictly above the
    cooling set-point. -/
theorem limited_cool_above_setpoint (hb : branch i = .cool) (hl : limited i)
    (hcap : 0 ≤ i.coolcap) (hH2 : 0 < h2 i) :
    tCool i < (bemCore phi i).indoorTemp := by
  have hpos := ((branch_cool_iff i).mp hb).1
  have e := sensCool0_of_pos i hpos
  have htot : 0 < totDemand i := lt_of_le_of_lt (capTot_nonneg i hcap) hl
  have hlt : sensCoolC i < sensCool0 i := by
    unfold sensCoolC; rw [if_pos hl, div_lt_iff₀ htot]
    exact mul_lt_mul_of_pos_left hl hpos
  have hq : qTot i = intHeat i + winTrans i + 0 - sensCoolC i := by
    simp only [qTot, hvac, hb]
  show tCool i < indoorTempNew i
  unfold indoorTempNew
  rw [lt_div_iff₀ hH2, hq]
  have := loadAt_eq i (tCool i)
  rw [← e] at this
  linarith

/-- Heating active and not capacity-limited: the indoor air ends the step exactly at the heating
    set-point. -/
theorem tracks_setpoint_heat (hb : branch i = .heat) (hnl : sensHeat0 i ≤ heatCapTot i)
    (hH2 : h2 i ≠ 0) :
    (bemCore phi i).indoorTemp = tHeat i := by
  have hpos := (branch_heat_imp i hb).1
  have e := sensHeat0_of_pos i hpos
  have hqh : qheatH i = -(loadAt i (tHeat i)) := by unfold qheatH; rw [min_eq_left hnl, e]
  have hq : qTot i = intHeat i + winTrans i + -(loadAt i (tHeat i)) - 0 := by
    simp only [qTot, hvac, hb, hqh]
  show indoorTempNew i = tHeat i
  unfold indoorTempNew
  rw [hq, loadAt_eq]
  field_simp
  ring

/-- Heating active and capacity-limited: the indoor air ends strictly below the heating
    set-point. -/
theorem limited_heat_below_setpoint (hb : branch i = .heat) (hl : heatCapTot i < sensHeat0 i)
    (hH2 : 0 < h2 i) :
    (bemCore phi i).indoorTemp < tHeat i := by
  have hpos := (branch_heat_imp i hb).1
  have e := sensHeat0_of_pos i hpos
  have hqh : qheatH i = heatCapTot i := by unfold qheatH; rw [min_eq_right hl.le]
  have hq : qTot i = intHeat i + winTrans i + heatCapTot i - 0 := by
    simp only [qTot, hvac, hb, hqh]
  show indoorTempNew i < tHeat i
  unfold indoorTempNew
  rw [div_lt_iff₀ hH2, hq]
  have := loadAt_eq i (tHeat i)
  linarith

/-- Free cooling, as the code has it: no branch taken but a positive load at the cooling
    set-point (canyon ≤ 288 K). The load is subtracted all the same, so the room ends exactly at
    the cooling set-point although `Qhvac = coolConsump = 0` and there is no HVAC waste heat. -/
theorem free_cooling_tracks (hb : branch i = .idle) (hpos : 0 < sensCool0 i) (hH2 : h2 i ≠ 0) :
    (bemCore phi i).indoorTemp = tCool i ∧ (bemCore phi i).Qhvac = 0 ∧
    (bemCore phi i).coolConsump = 0 ∧ (hvac i).sensWaste = 0 ∧ i.canTemp ≤ 288 := by
  have e := sensCool0_of_pos i hpos
  have hq : qTot i = intHeat i + winTrans i + 0 - loadAt i (tCool i) := by
    simp only [qTot, hvac, hb, e]
  have hx := exclusive_idle phi i hb
  refine ⟨?_, hx.1, hx.2.2.2.1, hx.2.2.2.2.2, ?_⟩
  · show indoorTempNew i = tCool i
    unfold indoorTempNew
    rw [hq, loadAt_eq]
    field_simp
    ring
  · by_contra hc
    exact (branch_idle_imp i hb).1 ⟨hpos, not_le.mp hc⟩

/-- The total exchange coefficient `H2` is positive for every physically admissible state
    (non-negative geometry, rates and air density; the floor/ceiling terms alone are ≥ 4.024). -/
theorem h2_pos (hv : 0 ≤ i.verToHor) (hd : 0 < i.bldDensity) (hg0 : 0 ≤ i.glazingRatio)
    (hg1 : i.glazingRatio ≤ 1) (hu : 0 ≤ i.uValue) (hi : 0 ≤ i.infil) (hve : 0 ≤ i.vent)
    (hb : 0 ≤ i.bldHeight) (hdens : 0 ≤ dens i) (hcp : 0 ≤ i.cp) : 0 < h2 i := by
  have hn := nFloor_ge_one i
  have hfac : 0 ≤ facArea i := div_nonneg hv hd.le
  have h1 : 0 ≤ wallArea i * zacWall :=
    mul_nonneg (mul_nonneg hfac (sub_nonneg.mpr hg1)) (by unfold zacWall; positivity)
  have h2' : 0 < massArea i * zacMass := by
    have : 0 < massArea i := by unfold massArea; linarith
    exact mul_pos this (by unfold zacMass; positivity)
  have h3 : 0 < zacCeil i := by unfold zacCeil; split_ifs <;> positivity
  have h4 : 0 ≤ winArea i * i.uValue := mul_nonneg (mul_nonneg hfac hg0) hu
  have h5 : 0 ≤ volInfil i * dens i * i.cp := by
    unfold volInfil
    exact mul_nonneg (mul_nonneg (div_nonneg (mul_nonneg hi hb) (by positivity)) hdens) hcp
  have h6 : 0 ≤ volVent i * dens i * i.cp :=
    mul_nonneg (mul_nonneg (mul_nonneg hve (nFloor_pos i).le) hdens) hcp
  unfold h2
  linarith

/-! ### T4 — energy use and rejected heat -/

theorem removedC_eq (hb : branch i = .cool) (hcap : 0 ≤ i.coolcap) :
    removedC i = sensCoolC i + dehumC i := by
  unfold removedC
  apply max_eq_left
  rw [delivered_eq i hcap]
  split_ifs
  · exact capTot_nonneg i hcap
  · have := ((branch_cool_iff i).mp hb).1
    have := dehum0_nonneg i
    linarith

/-- Cooling: electricity use (per floor area) × `nFloor` × COP = delivered cooling per footprint. -/
theorem energy_cool (hb : branch i = .cool) (hcap : 0 ≤ i.coolcap) (hcop : i.copAdj ≠ 0) :
    (bemCore phi i).coolConsump * (bemCore phi i).nFloor * i.copAdj
      = (bemCore phi i).sensCoolDemand * (bemCore phi i).nFloor + (bemCore phi i).dehumDemand := by
  have hn := nFloor_ne i
  have hr := removedC_eq i hb hcap
  simp only [bemCore, hvac, hb, coolConsumpC, hr]
  field_simp

/-- Heating: fuel use (per floor area) × `nFloor` × efficiency = delivered heat per footprint. -/
theorem energy_heat (hb : branch i = .heat) (heff : i.heateff ≠ 0) :
    (bemCore phi i).heatConsump * (bemCore phi i).nFloor * i.heateff = (bemCore phi i).Qheat := by
  have hn := nFloor_ne i
  simp only [bemCore, hvac, hb, heatConsumpFp]
  field_simp

/-- Air-cooled condenser: HVAC rejected heat = removed heat + compressor work. -/
theorem waste_air (hb : branch i = .cool) (hcap : 0 ≤ i.coolcap) (hc : i.cond = .air) :
    (hvac i).sensWaste
      = (bemCore phi i).Qhvac + (bemCore phi i).coolConsump * (bemCore phi i).nFloor := by
  have hn := nFloor_ne i
  have hr := removedC_eq i hb hcap
  have hq := (cool_capacity i hcap).2.1
  simp only [bemCore, hvac, hb, sensWasteC, hc, hr, hq]
  field_simp

/-- Water-cooled condenser (`evapEff = 1`): sensible rejected heat = removed heat. -/
theorem waste_water (hb : branch i = .cool) (hcap : 0 ≤ i.coolcap) (hc : i.cond = .water) :
    (hvac i).sensWaste = (bemCore phi i).Qhvac := by
  have hr := removedC_eq i hb hcap
  have hq := (cool_capacity i hcap).2.1
  simp only [bemCore, hvac, hb, sensWasteC, hc, hr, hq, evapEff]
  ring

/-- Heating: HVAC waste heat = fuel use − delivered heat (per footprint). -/
theorem waste_heat (hb : branch i = .heat) :
    (hvac i).sensWaste
      = (bemCore phi i).heatConsump * (bemCore phi i).nFloor - (bemCore phi i).Qheat := by
  have hn := nFloor_ne i
  simp only [bemCore, hvac, hb, sensWasteH]
  field_simp

/-- The `sensWaste` attribute = HVAC rejected heat + service-hot-water losses + gas-equipment
    losses, exactly as the code adds them. -/
theorem sensWaste_formula :
    (bemCore phi i).sensWaste
      = (hvac i).sensWaste + (1 / i.heateff - 1) * (volSWH i * 4200 * (49 + 27315 / 100 - i.waterTemp))
        + i.gas * (1 - i.heateff) * nFloor i := rfl

theorem hvac_sensWaste_nonneg (hcop : 0 < i.copAdj) (hcap : 0 ≤ i.coolcap)
    (heff0 : 0 < i.heateff) (heff1 : i.heateff ≤ 1) (hhc : 0 ≤ i.heatCap) :
    0 ≤ (hvac i).sensWaste := by
  cases hb : branch i
  · have hr := removedC_eq i hb hcap
    have hrem : 0 ≤ removedC i := le_max_right _ _
    have hcc : 0 ≤ coolConsumpC i := div_nonneg hrem hcop.le
    simp only [hvac, hb, sensWasteC]
    cases i.cond
    · simp only; linarith
    · simp only [evapEff]; linarith
  · have hq : 0 ≤ qheatH i :=
      le_min (sensHeat0_nonneg i) (mul_nonneg hhc (nFloor_pos i).le)
    simp only [hvac, hb, sensWasteH, heatConsumpFp]
    have : qheatH i ≤ qheatH i / i.heateff := by
      rw [le_div_iff₀ heff0]
      nlinarith
    linarith
  · simp [hvac, hb]

/-- Rejected heat is never negative — under the honest hypotheses: COP > 0, capacities ≥ 0,
    `0 < heateff ≤ 1`, hot-water draw and gas load ≥ 0, and **mains water not hotter than the
    49 °C service temperature** (`waterTemp ≤ 322.15`). Each is needed: `heateff > 1` or
    `waterTemp > 322.15` make the service-hot-water / gas terms negative. -/
theorem sensWaste_nonneg (hcop : 0 < i.copAdj) (hcap : 0 ≤ i.coolcap)
    (heff0 : 0 < i.heateff) (heff1 : i.heateff ≤ 1) (hhc : 0 ≤ i.heatCap)
    (hswh : 0 ≤ i.swh) (hgas : 0 ≤ i.gas) (hw : i.waterTemp ≤ 49 + 27315 / 100) :
    0 ≤ (bemCore phi i).sensWaste := by
  have h1 := hvac_sensWaste_nonneg i hcop hcap heff0 heff1 hhc
  have h2 : 0 ≤ 1 / i.heateff - 1 := by
    rw [sub_nonneg, le_div_iff₀ heff0]; linarith
  have h3 : 0 ≤ swhHeat i := by
    unfold swhHeat volSWH cpH2O tHot
    have : 0 ≤ i.swh * nFloor i / 3600 := div_nonneg (mul_nonneg hswh (nFloor_pos i).le) (by positivity)
    exact mul_nonneg (mul_nonneg this (by positivity)) (sub_nonneg.mpr hw)
  have h4 : 0 ≤ i.gas * (1 - i.heateff) * nFloor i :=
    mul_nonneg (mul_nonneg hgas (sub_nonneg.mpr heff1)) (nFloor_pos i).le
  show 0 ≤ (hvac i).sensWaste + (1 / i.heateff - 1) * swhHeat i + i.gas * (1 - i.heateff) * nFloor i
  have := mul_nonneg h2 h3
  linarith

/-! ### T5 — the recorded defect of the unrepaired capacity rescaling -/

/-- The rescaling as it stood before the repair: the latent part was scaled with the *already
    rescaled* sensible part in the denominator. Returns (sensible, latent) delivered. -/
def rescaleAsis (s d cap : K) : K × K :=
  let s' := s * cap / (d + s)
  (s', d * cap / (d + s'))

/-- s = 80, d = 40, capacity 60: the unrepaired rescaling delivers 40 + 30 = 70 > 60. -/
theorem asis_exceeds_capacity :
    (rescaleAsis (80 : ℚ) 40 60).1 + (rescaleAsis (80 : ℚ) 40 60).2 = 70 ∧ (60 : ℚ) < 70 := by
  norm_num [rescaleAsis]

/-! ### Non-vacuity: concrete states in every branch (evaluated by the kernel over ℚ) -/

/-- A mid-rise office on a hot afternoon (canyon 303 K, set-point 297 K). -/
def exCool : BemIn ℚ :=
  { floorHeight := 3, intHeatNight := 10, intHeatDay := 10, intHeatFRad := 1/2, intHeatFLat := 1/10,
    infil := 1/2, vent := 1/1000, glazingRatio := 2/5, uValue := 3, shgc := 1/2, cond := .air,
    copAdj := 3, coolcap := 200, heateff := 4/5, heatCap := 200, coolSetDay := 297,
    coolSetNight := 297, heatSetDay := 293, heatSetNight := 293, indoorTemp := 298,
    indoorHum := 1/100, latWaste0 := 0, bldHeight := 12, verToHor := 1, bldDensity := 1/2,
    canTemp := 303, canHum := 3/200, tWall := 300, tCeil := 301, tMass := 299, solRec := 100,
    swh := 1/2, elec := 5, light := 5, gas := 1, pres := 101325, waterTemp := 290, lv := 2260000,
    cp := 1004, nightSetStart := 18, nightSetEnd := 8, secDay := 43200, dt := 300 }

/-- The same building in a cold canyon (268 K) with cold fabric. -/
def exHeat : BemIn ℚ :=
  { exCool with canTemp := 268, tWall := 285, tCeil := 284, tMass := 289, indoorTemp := 292,
                solRec := 0, intHeatDay := 2, intHeatNight := 2 }

/-- Warm fabric and large internal gains while the canyon is at 286 K: free cooling. -/
def exFree : BemIn ℚ :=
  { exCool with canTemp := 286, intHeatDay := 80, intHeatNight := 80, infil := 1/10,
                vent := 1/10000, coolcap := 5 }

/-- Everything between the set-points and no gains: neither system runs. -/
def exIdle : BemIn ℚ :=
  { exCool with canTemp := 295, tWall := 295, tCeil := 295, tMass := 295, indoorTemp := 295,
                solRec := 0, intHeatDay := 0, intHeatNight := 0 }

/-- cooling, not limited, air-cooled: hypotheses of T1–T4 hold and the call returns normally -/
example : branch exCool = .cool ∧ ¬ limited exCool ∧ 0 < h2 exCool ∧ guards exCool = none ∧
    (bemCore (fun _ _ _ => 0) exCool).indoorTemp = 297 := by decide +kernel

/-- cooling, capacity-limited, water-cooled -/
example : let i := { exCool with coolcap := 5, cond := .water }
    branch i = .cool ∧ limited i ∧ 0 < h2 i ∧ guards i = none ∧
    (bemCore (fun _ _ _ => 0) i).Qhvac = 20 ∧ 297 < (bemCore (fun _ _ _ => 0) i).indoorTemp := by
  decide +kernel

/-- heating, not limited -/
example : branch exHeat = .heat ∧ sensHeat0 exHeat ≤ heatCapTot exHeat ∧ 0 < h2 exHeat ∧
    guards exHeat = none ∧ (bemCore (fun _ _ _ => 0) exHeat).indoorTemp = 293 := by
  decide +kernel

/-- heating, capacity-limited -/
example : let i := { exHeat with heatCap := 5 }
    branch i = .heat ∧ heatCapTot i < sensHeat0 i ∧ guards i = none ∧
    (bemCore (fun _ _ _ => 0) i).Qheat = 20 ∧ (bemCore (fun _ _ _ => 0) i).indoorTemp < 293 := by
  decide +kernel

/-- idle -/
example : branch exIdle = .idle ∧ sensCool0 exIdle = 0 ∧ sensHeat0 exIdle = 0 ∧
    guards exIdle = none := by decide +kernel

/-- the hypotheses of `sensWaste_nonneg` and `h2_pos` are satisfiable together -/
example : 0 < exCool.copAdj ∧ 0 ≤ exCool.coolcap ∧ 0 < exCool.heateff ∧ exCool.heateff ≤ 1 ∧
    0 ≤ exCool.heatCap ∧ 0 ≤ exCool.swh ∧ 0 ≤ exCool.gas ∧ exCool.waterTemp ≤ 49 + 27315 / 100 ∧
    0 ≤ dens exCool := by decide +kernel

/-- **Free cooling is not bounded by the rated capacity** (witness). A physically admissible
    state (`exFree`: canyon 286 K, cooling set-point 297 K, rated capacity 5 W m⁻² × 4 floors =
    20 W m⁻²) on which `BEMCalc` returns normally, takes no HVAC branch, uses no cooling energy
    and rejects no heat — yet the sensible heat it removes from the room air
    (`sensCoolDemand * nFloor`) exceeds the rated capacity more than tenfold, and the room ends
    exactly at the cooling set-point. -/
theorem free_cooling_exceeds_capacity :
    guards exFree = none ∧ branch exFree = .idle ∧
    (bemCore (fun _ _ _ => 0) exFree).Qhvac = 0 ∧
    (bemCore (fun _ _ _ => 0) exFree).coolConsump = 0 ∧
    (bemCore (fun _ _ _ => 0) exFree).indoorTemp = 297 ∧
    10 * (exFree.coolcap * (bemCore (fun _ _ _ => 0) exFree).nFloor)
      < (bemCore (fun _ _ _ => 0) exFree).sensCoolDemand * (bemCore (fun _ _ _ => 0) exFree).nFloor := by
  decide +kernel

end Uwg.C14
