/-
C12 — Sun position agrees with the weather file and with astronomy.

FULL STATEMENT OF THE PROPERTY (for the code):

    ∀ site (lat ∈ [−66, 66], east-positive lon ∈ [−180, 180], any zone tz hours east of UTC),
      every day of the year, every timestep of the day, every o o',
      solaranglesImpl realSym inobisStd month day secDay lat lon tz ca = .ok o →
      solaranglesSpec realSym month day secDay lat lon tz ca = .ok o' →
      o.zenith = o'.zenith                      -- the zenith used is the NOAA zenith

This statement is **FALSE of the code as it stands** (`solaranglesImpl` mirrors
`SolarCalcs.solarangles` exactly and is tied to it by the correspondence check): the code applies
NOAA's west-positive `time_offset = eqtime − 4·lon + 60·GMT` to the east-positive longitude and
hours-east-of-UTC zone of the EPW header, and its fractional year is `2π/365·(date − 1 + ut − ½)`
with a 0-based `date` and `ut` in hours.  `full_property_false_of_impl` below is a machine-checked
counterexample (cos zenith differs by more than 0.7 at an admissible site and time).  The repair
would break three pinned tests, so this is recorded as known finding
`C12-time-offset-and-fractional-year`, not fixed.

What IS proved:
  T1  `zenith_is_spherical_impl/_spec`  both models return the angle whose cosine is the spherical
      law of cosines expression (its argument is always in [−1,1]: `cosZenArg_mem`);
      `spec_is_noaa`: the full property holds of `solaranglesSpec` — trivially, BY DEFINITION of the
      specification (it is the NOAA algorithm); this says nothing about the code.
  T2  `ha_mirrored`, `ad_shifted`, `impl_is_spec_mirrored`: the exact form of the two deviations.
  T3  `impl_ne_spec_singapore`: at the shipped Singapore header the two hour angles differ by more
      than 21° (and less than 43°) at every instant of every day.
  T4  `offset_coincide_iff`, `ad_coincide_iff`, `ad_never_coincide`: when the deviations vanish.
  T5  `full_property_false_of_impl`: negation witness for the full statement.
The agreement of `cos(zenith)·DNI + DHI` with the file's global-horizontal column is a fact about
data files; it is measured by the harness and cannot be a theorem.
-/
import UwgVerif.Lemmas.Solar

namespace Uwg.C12
open Uwg Real

/-! ### T1 — the zenith is the spherical-triangle zenith -/

/-- The argument handed to `acos` is a genuine cosine: it lies in [−1, 1] for every latitude,
    declination and hour angle, so `math.acos` is never outside its domain in exact arithmetic. -/
theorem cosZenArg_mem (zlat decsol ha : ℝ) :
    -1 ≤ cosZenArg realSym zlat decsol ha ∧ cosZenArg realSym zlat decsol ha ≤ 1 :=
  cosZenArg_real_mem zlat decsol ha

/-- T1 (code). Whenever `solarangles` returns, `cos(zenith) = sin φ sin δ + cos φ cos δ cos ha`
    with φ the latitude in radians and δ, ha the declination and hour angle *it computed*
    (no side condition: the acos argument is always in range). -/
theorem zenith_is_spherical_impl {inobis : List Nat} {month day secDay : Int}
    {lat lon gmt ca : ℝ} {o : SolarOut ℝ}
    (h : solaranglesImpl realSym inobis month day secDay lat lon gmt ca = .ok o) :
    cos o.zenith = sin (lat * (π / 180)) * sin o.decsol
      + cos (lat * (π / 180)) * cos o.decsol * cos o.ha := by
  obtain ⟨ino, -, rfl, -, -⟩ := solaranglesImpl_ok h
  have hm := cosZenArg_real_mem (lat * (π / 180)) (implOut realSym ino day secDay lat lon gmt ca).decsol
    (implOut realSym ino day secDay lat lon gmt ca).ha
  exact Real.cos_arccos hm.1 hm.2

/-- T1 (specification). Same for the NOAA model. -/
theorem zenith_is_spherical_spec {month day secDay : Int} {lat lon tz ca : ℝ} {o : SolarOut ℝ}
    (h : solaranglesSpec realSym month day secDay lat lon tz ca = .ok o) :
    cos o.zenith = sin (lat * (π / 180)) * sin o.decsol
      + cos (lat * (π / 180)) * cos o.decsol * cos o.ha := by
  obtain ⟨-, -, rfl, -, -⟩ := solaranglesSpec_ok h
  have hm := cosZenArg_real_mem (lat * (π / 180)) (specOut realSym month day secDay lat lon tz ca).decsol
    (specOut realSym month day secDay lat lon tz ca).ha
  exact Real.cos_arccos hm.1 hm.2

/-- The full property, proved of the SPECIFICATION only — and only by unfolding its definition:
    `solaranglesSpec` returns the zenith of the NOAA general solar position algorithm for the
    east-positive longitude and hours-east zone (fractional year from the 1-based day of year and
    `(hour − 12)/24`, `time_offset = eqtime + 4·lon − 60·tz`, `ha = tst/4 − 180°`).
    This is NOT a statement about uwg's code; see `full_property_false_of_impl`. -/
theorem spec_is_noaa {month day secDay : Int} {lat lon tz ca : ℝ} {o : SolarOut ℝ}
    (h : solaranglesSpec realSym month day secDay lat lon tz ca = .ok o) :
    o.ad = 2 * π / 365 * ((doySpec month day : ℝ) - 1 + ((secDay : ℝ) / 3600 - 12) / 24) ∧
    o.eqtime = eqtimeOf realSym o.ad ∧ o.decsol = decsolOf realSym o.ad ∧
    o.ha = (((secDay : ℝ) / 60 + (o.eqtime + 4 * lon - 60 * tz)) / 4 - 180) * π / 180 ∧
    cos o.zenith = sin (lat * (π / 180)) * sin o.decsol
      + cos (lat * (π / 180)) * cos o.decsol * cos o.ha := by
  refine ⟨?_, ?_, ?_, ?_, zenith_is_spherical_spec h⟩ <;>
    (obtain ⟨-, -, rfl, -, -⟩ := solaranglesSpec_ok h; rfl)

/-! ### T2 — the exact form of the two deviations -/

section generic
variable {K : Type} [Field K] [LinearOrder K] [IsStrictOrderedRing K]

/-- T2a. With the equation of time held fixed, the code's hour angle for (lon, gmt) is the NOAA
    hour angle for (−lon, −gmt): the code treats east longitudes and zones as west ones. -/
theorem ha_mirrored (S : Sym K) (secDay : Int) (eqtime lon gmt : K) :
    haImplOf S secDay (timeOffsetImpl eqtime lon gmt)
      = haSpecOf S secDay (timeOffsetSpec eqtime (-lon) (-gmt)) := by
  unfold haImplOf haSpecOf timeOffsetImpl timeOffsetSpec
  ring

/-- T2b. The code's fractional year (0-based `date = doy − 1`, `ut` in hours used as days) is the
    NOAA fractional year plus `2π/365 · (23·ut/24 − 1)`: up to a day early at midnight, up to
    22 days late at the end of the day. -/
theorem ad_shifted (S : Sym K) (doy : Int) (ut : K) :
    adImpl S (doy - 1) ut = adSpec S doy ut + 2 * S.pi / 365 * (23 * ut / 24 - 1) := by
  unfold adImpl adSpec
  push_cast
  ring

omit [LinearOrder K] [IsStrictOrderedRing K] in
/-- `ut` as coded is the number of seconds reduced modulo one day, in hours; for a clock value
    `0 ≤ secDay < 86400` it is `secDay/3600` (the `24 + … % 24` dance changes nothing). -/
theorem utImpl_eq (secDay : Int) :
    (utImpl secDay : K) = ((secDay % 86400 : Int) : K) / 3600 ∧
    (0 ≤ secDay → secDay < 86400 → (utImpl secDay : K) = (secDay : K) / 3600) := by
  refine ⟨utImpl_mod secDay, fun h0 h1 => ?_⟩
  unfold utImpl
  have : (86400 + secDay % 86400) % 86400 = secDay := by omega
  rw [this]

/-- T2 at the level of the two routines. Same valid date, same clock value, same header: the
    returned quantities are related by
    `ut` equal; `adImpl = adSpec + 2π/365·(23·ut/24 − 1)`;
    `haImpl − haSpec = ((eqtimeImpl − eqtimeSpec)/4 − 2·lon + 30·gmt)·π/180`. -/
theorem impl_is_spec_mirrored (S : Sym K) {month day secDay : Int} {lat lon gmt ca : K}
    {oI oS : SolarOut K} (h0 : 0 ≤ secDay) (h1 : secDay < 86400)
    (hI : solaranglesImpl S inobisStd month day secDay lat lon gmt ca = .ok oI)
    (hS : solaranglesSpec S month day secDay lat lon gmt ca = .ok oS) :
    oI.ut = oS.ut ∧
    oI.ad = oS.ad + 2 * S.pi / 365 * (23 * oS.ut / 24 - 1) ∧
    oI.ha - oS.ha = ((oI.eqtime - oS.eqtime) / 4 - 2 * lon + 30 * gmt) * S.pi / 180 := by
  obtain ⟨hm1, hm12, rfl, -, -⟩ := solaranglesSpec_ok hS
  obtain ⟨ino, hino, rfl, -, -⟩ := solaranglesImpl_ok hI
  have hut : (utImpl secDay : K) = (secDay : K) / 3600 := (utImpl_eq secDay).2 h0 h1
  have hdate := date_eq_doy_sub_one month day ino hm1 hm12 hino
  refine ⟨hut, ?_, ?_⟩
  · show adImpl S (day + (ino : Int) - 1) (utImpl secDay)
        = adSpec S (doySpec month day) ((secDay : K) / 3600) + _
    rw [hdate, hut, ad_shifted]
    rfl
  · have e1 : (implOut S ino day secDay lat lon gmt ca).ha = haImplOf S secDay
        (timeOffsetImpl (implOut S ino day secDay lat lon gmt ca).eqtime lon gmt) := rfl
    have e2 : (specOut S month day secDay lat lon gmt ca).ha = haSpecOf S secDay
        (timeOffsetSpec (specOut S month day secDay lat lon gmt ca).eqtime lon gmt) := rfl
    rw [e1, e2]
    unfold haImplOf haSpecOf timeOffsetImpl timeOffsetSpec
    ring

/-! ### T4 — when do the deviations vanish -/

/-- T4a. The two time offsets agree iff the site sits exactly on its zone meridian. -/
theorem offset_coincide_iff (eqtime lon gmt : K) :
    timeOffsetImpl eqtime lon gmt = timeOffsetSpec eqtime lon gmt ↔ lon = 15 * gmt := by
  unfold timeOffsetImpl timeOffsetSpec
  constructor <;> intro h <;> linarith

/-- T4b. The two fractional years agree iff `ut = 24/23` hours (01:02:36.52…). -/
theorem ad_coincide_iff (S : Sym K) (hpi : S.pi ≠ 0) (doy : Int) (ut : K) :
    adImpl S (doy - 1) ut = adSpec S doy ut ↔ ut = 24 / 23 := by
  rw [ad_shifted]
  constructor
  · intro h
    have h2 : 2 * S.pi / 365 * (23 * ut / 24 - 1) = 0 := by linarith
    have h3 : 2 * S.pi / 365 ≠ 0 := by
      apply div_ne_zero (mul_ne_zero two_ne_zero hpi); norm_num
    have h4 : 23 * ut / 24 - 1 = 0 := by
      rcases mul_eq_zero.mp h2 with h | h
      · exact absurd h h3
      · exact h
    linarith
  · intro h; rw [h]; ring

end generic

/-- T4c. No integer clock value makes the fractional years agree (86400/23 is not an integer):
    for every valid date and every whole second of the day the code's fractional year differs
    from NOAA's. -/
theorem ad_never_coincide (doy secDay : Int) (h0 : 0 ≤ secDay) (h1 : secDay < 86400) :
    adImpl realSym (doy - 1) (utImpl secDay) ≠ adSpec realSym doy ((secDay : ℝ) / 3600) := by
  rw [(utImpl_eq (K := ℝ) secDay).2 h0 h1]
  intro h
  have := (ad_coincide_iff realSym Real.pi_ne_zero doy ((secDay : ℝ) / 3600)).mp h
  have h2 : ((23 * secDay : Int) : ℝ) = ((86400 : Int) : ℝ) := by
    push_cast; linarith
  have h3 : 23 * secDay = 86400 := by exact_mod_cast h2
  omega

/-- T4 (both parts, over ℝ). The zone terms of code and NOAA agree iff `lon = 15·gmt`; the
    fractional years agree iff `ut = 24/23` h. -/
theorem coincide_iff (eqtime lon gmt : ℝ) (doy : Int) (ut : ℝ) :
    (timeOffsetImpl eqtime lon gmt = timeOffsetSpec eqtime lon gmt ↔ lon = 15 * gmt) ∧
    (adImpl realSym (doy - 1) ut = adSpec realSym doy ut ↔ ut = 24 / 23) :=
  ⟨offset_coincide_iff eqtime lon gmt, ad_coincide_iff realSym Real.pi_ne_zero doy ut⟩

/-- T1 (both models at once). -/
theorem zenith_is_spherical {inobis : List Nat} {month day secDay : Int} {lat lon gmt ca : ℝ} :
    (∀ o, solaranglesImpl realSym inobis month day secDay lat lon gmt ca = .ok o →
      cos o.zenith = sin (lat * (π / 180)) * sin o.decsol
        + cos (lat * (π / 180)) * cos o.decsol * cos o.ha) ∧
    (∀ o, solaranglesSpec realSym month day secDay lat lon gmt ca = .ok o →
      cos o.zenith = sin (lat * (π / 180)) * sin o.decsol
        + cos (lat * (π / 180)) * cos o.decsol * cos o.ha) :=
  ⟨fun _ h => zenith_is_spherical_impl h, fun _ h => zenith_is_spherical_spec h⟩

/-! ### T3 — Singapore: the deviation never vanishes -/

/-- `|eqtime| ≤ 20.51 min` for any value of the fractional year (only `|cos|, |sin| ≤ 1` used). -/
theorem eqtime_bound (x : ℝ) : |eqtimeOf realSym x| ≤ 2051 / 100 := eqtime_real_bound x

/-- `|declination| ≤ 0.488929 rad` (28.02°) for any value of the fractional year. -/
theorem decsol_bound (x : ℝ) : |decsolOf realSym x| ≤ 488929 / 1000000 := decsol_real_bound x

/-- T3. At the shipped Singapore header (lat 1.37, lon 103.98 E, zone +8) the hour angle the code
    computes exceeds the NOAA hour angle by more than 21° (= 21π/180 > 0.366 rad) and by less than
    43°, for EVERY month table entry, day and clock value for which both return — the sun is placed
    between 1 h 24 min and 2 h 52 min further along its daily path than it is.
    (The longitude/zone part is (−8·103.98 + 120·8)/4 = 32.04°; the two equations of time, evaluated
    at different fractional years, can move this by at most 2·20.51/4 = 10.255°.)
    This is a statement about hour angles; zenith angles can still coincide momentarily when the
    two hour angles are mirror images about solar noon. -/
theorem impl_ne_spec_singapore {inobis : List Nat} {month day secDay : Int} {ca : ℝ}
    {oI oS : SolarOut ℝ}
    (hI : solaranglesImpl realSym inobis month day secDay (137 / 100) (10398 / 100) 8 ca = .ok oI)
    (hS : solaranglesSpec realSym month day secDay (137 / 100) (10398 / 100) 8 ca = .ok oS) :
    21 * π / 180 < oI.ha - oS.ha ∧ oI.ha - oS.ha < 43 * π / 180 ∧ 366 / 1000 < oI.ha - oS.ha := by
  obtain ⟨-, -, rfl, -, -⟩ := solaranglesSpec_ok hS
  obtain ⟨ino, -, rfl, -, -⟩ := solaranglesImpl_ok hI
  set eI := (implOut realSym ino day secDay (137 / 100) (10398 / 100) 8 ca).eqtime with heI
  set eS := (specOut realSym month day secDay (137 / 100) (10398 / 100) 8 ca).eqtime with heS
  have hd : (implOut realSym ino day secDay (137 / 100) (10398 / 100) 8 ca).ha
      - (specOut realSym month day secDay (137 / 100) (10398 / 100) 8 ca).ha
      = ((eI - eS) / 4 + 3204 / 100) * π / 180 := by
    show haImplOf realSym secDay (timeOffsetImpl eI _ _) - haSpecOf realSym secDay (timeOffsetSpec eS _ _) = _
    unfold haImplOf haSpecOf timeOffsetImpl timeOffsetSpec
    have hp : realSym.pi = π := rfl
    rw [hp]
    ring
  have bI : |eI| ≤ 2051 / 100 := eqtime_real_bound _
  have bS : |eS| ≤ 2051 / 100 := eqtime_real_bound _
  rw [abs_le] at bI bS
  have hpi := Real.pi_pos
  have hpi4 := Real.pi_gt_d4
  rw [hd]
  have lo : (21 : ℝ) + 78 / 100 ≤ (eI - eS) / 4 + 3204 / 100 := by linarith
  have hi : (eI - eS) / 4 + 3204 / 100 ≤ 42 + 30 / 100 := by linarith
  refine ⟨?_, ?_, ?_⟩ <;> nlinarith

/-! ### Zero-division guard -/

/-- In exact real arithmetic `1./tanzen` can only divide by zero when the zenith is exactly π
    (sun at the nadir, acos argument −1): for a zenith in [0, π) the clamped tangent is non-zero. -/
theorem tanzen_ne_zero {z : ℝ} (h0 : 0 ≤ z) (hpi : z < π) : tanzenOf realSym z ≠ 0 :=
  tanzen_real_ne_zero h0 hpi

/-! ### T5 — the full property is false of the code -/

/-- Equation of time of the NOAA model on 1 January at 15:00 (independent of the longitude). -/
noncomputable def eS0 : ℝ := (specOut realSym 1 1 54000 0 0 8 1).eqtime

/-- Witness longitude: about 75° E (between 69.8° and 80.2°), on zone +8 — the situation of western
    China; chosen so that the NOAA hour angle at 15:00 zone time is exactly 0 (solar noon). -/
noncomputable def lon0 : ℝ := 75 - eS0 / 4

theorem lon0_mem : 69 < lon0 ∧ lon0 < 81 := by
  have b : |eS0| ≤ 2051 / 100 := eqtime_real_bound _
  rw [abs_le] at b
  unfold lon0
  constructor <;> linarith

private theorem arccos_lt_pi {x : ℝ} (hx : -1 < x) : arccos x < π := by
  rcases (Real.arccos_le_pi x).lt_or_eq with h | h
  · exact h
  · exact absurd (Real.arccos_eq_pi.mp h) (not_le.mpr hx)

/-- T5. NEGATION WITNESS for the full property. There is an admissible site and instant — on the
    equator at `lon0` ≈ 75° E using zone +8, 1 January, 15:00:00 zone time, with the standard month
    table — at which both routines return and
    `cos(zenith_NOAA) − cos(zenith_code) > 0.7`: NOAA has the sun within 28.1° of the zenith
    (it is solar noon there), the code has it within 10.3° of the horizon. In particular the two
    zenith angles differ, so "zenith = NOAA zenith for all sites, days and timesteps" is false of
    `solarangles` as coded. -/
theorem full_property_false_of_impl :
    ∃ (month day secDay : Int) (lat lon gmt ca : ℝ) (oI oS : SolarOut ℝ),
      1 ≤ month ∧ month ≤ 12 ∧ 1 ≤ day ∧ day ≤ 31 ∧ 0 ≤ secDay ∧ secDay < 86400 ∧
      -66 ≤ lat ∧ lat ≤ 66 ∧ -180 ≤ lon ∧ lon ≤ 180 ∧ 0 < ca ∧
      solaranglesImpl realSym inobisStd month day secDay lat lon gmt ca = .ok oI ∧
      solaranglesSpec realSym month day secDay lat lon gmt ca = .ok oS ∧
      cos oS.zenith - cos oI.zenith > 7 / 10 ∧ oI.zenith ≠ oS.zenith := by
  have hpi := Real.pi_pos
  have hpi4 := Real.pi_lt_d4
  obtain ⟨hl1, hl2⟩ := lon0_mem
  -- abbreviations
  set oI := implOut realSym 0 1 54000 0 lon0 8 1 with hoI
  set oS := specOut realSym 1 1 54000 0 lon0 8 1 with hoS
  have heS : oS.eqtime = eS0 := rfl
  -- NOAA hour angle is 0, the code's is π/2 + ε
  have hhaS : oS.ha = 0 := by
    show haSpecOf realSym 54000 (timeOffsetSpec oS.eqtime lon0 8) = 0
    rw [heS]
    unfold haSpecOf timeOffsetSpec lon0
    push_cast
    ring
  have hhaI : oI.ha = (oI.eqtime + eS0) / 4 * π / 180 + π / 2 := by
    show haImplOf realSym 54000 (timeOffsetImpl oI.eqtime lon0 8) = _
    unfold haImplOf timeOffsetImpl lon0
    show (((((54000 : Int) : ℝ)) + (oI.eqtime - 4 * (75 - eS0 / 4) + 60 * 8) * 60) / 4 / 60 - 180) * π / 180 = _
    push_cast
    ring
  -- cosines of the two zeniths
  have mS := cosZenArg_real_mem ((0 : ℝ) * (π / 180)) oS.decsol oS.ha
  have mI := cosZenArg_real_mem ((0 : ℝ) * (π / 180)) oI.decsol oI.ha
  have hcS : cos oS.zenith = cos oS.decsol := by
    have : cos oS.zenith = cosZenArg realSym ((0 : ℝ) * (π / 180)) oS.decsol oS.ha :=
      Real.cos_arccos mS.1 mS.2
    rw [this, hhaS]
    simp [cosZenArg, realSym]
  have hcI : cos oI.zenith = -(cos oI.decsol * sin ((oI.eqtime + eS0) / 4 * π / 180)) := by
    have : cos oI.zenith = cosZenArg realSym ((0 : ℝ) * (π / 180)) oI.decsol oI.ha :=
      Real.cos_arccos mI.1 mI.2
    rw [this, hhaI]
    simp only [cosZenArg, realSym, zero_mul, Real.sin_zero, Real.cos_zero, Real.cos_add_pi_div_two]
    ring
  -- bounds
  have bdS : |oS.decsol| ≤ 488929 / 1000000 := decsol_real_bound _
  have beI : |oI.eqtime| ≤ 2051 / 100 := eqtime_real_bound _
  have beS : |eS0| ≤ 2051 / 100 := eqtime_real_bound _
  have h1 : 88 / 100 ≤ cos oS.decsol := by
    have := Real.one_sub_sq_div_two_le_cos (x := oS.decsol)
    have hsq : oS.decsol ^ 2 ≤ (488929 / 1000000) ^ 2 := by
      rw [← sq_abs]; exact pow_le_pow_left₀ (abs_nonneg _) bdS 2
    nlinarith
  have h2 : |cos oI.decsol * sin ((oI.eqtime + eS0) / 4 * π / 180)| ≤ 179 / 1000 := by
    rw [abs_mul]
    have c1 : |cos oI.decsol| ≤ 1 := Real.abs_cos_le_one _
    have s1 : |sin ((oI.eqtime + eS0) / 4 * π / 180)| ≤ |(oI.eqtime + eS0) / 4 * π / 180| :=
      Real.abs_sin_le_abs
    have e1 : |(oI.eqtime + eS0) / 4 * π / 180| ≤ 179 / 1000 := by
      rw [abs_le] at beI beS ⊢
      constructor <;> nlinarith
    calc |cos oI.decsol| * |sin ((oI.eqtime + eS0) / 4 * π / 180)|
        ≤ 1 * |sin ((oI.eqtime + eS0) / 4 * π / 180)| :=
          mul_le_mul_of_nonneg_right c1 (abs_nonneg _)
      _ ≤ 179 / 1000 := by linarith
  rw [abs_le] at h2
  have hgap : cos oS.zenith - cos oI.zenith > 7 / 10 := by
    rw [hcS, hcI]; linarith
  -- both calls succeed
  have hzS : oS.zenith < π := by
    apply arccos_lt_pi
    have : cosZenArg realSym ((0 : ℝ) * (π / 180)) oS.decsol oS.ha = cos oS.zenith :=
      (Real.cos_arccos mS.1 mS.2).symm
    show -1 < cosZenArg realSym ((0 : ℝ) * (π / 180)) oS.decsol oS.ha
    rw [this, hcS]; linarith
  have hzI : oI.zenith < π := by
    apply arccos_lt_pi
    have : cosZenArg realSym ((0 : ℝ) * (π / 180)) oI.decsol oI.ha = cos oI.zenith :=
      (Real.cos_arccos mI.1 mI.2).symm
    show -1 < cosZenArg realSym ((0 : ℝ) * (π / 180)) oI.decsol oI.ha
    rw [this, hcI]; linarith
  have htS : oS.tanzen ≠ 0 := tanzen_real_ne_zero (Real.arccos_nonneg _) hzS
  have htI : oI.tanzen ≠ 0 := tanzen_real_ne_zero (Real.arccos_nonneg _) hzI
  refine ⟨1, 1, 54000, 0, lon0, 8, 1, oI, oS, by norm_num, by norm_num, by norm_num, by norm_num,
    by norm_num, by norm_num, by norm_num, by norm_num, by linarith, by linarith, by norm_num,
    ?_, ?_, hgap, ?_⟩
  · exact solaranglesImpl_std realSym 1 1 54000 0 lon0 8 1 0 rfl htI one_ne_zero
  · exact solaranglesSpec_of realSym 1 1 54000 0 lon0 8 1 (by norm_num) (by norm_num) htS one_ne_zero
  · intro h
    rw [h] at hgap
    linarith

/-! ### Non-vacuity -/

/-- If latitude, declination and hour angle all have non-negative cosine (sun on the day side) the
    acos argument is > −1, hence the zenith is < π and the call cannot divide by zero. -/
private theorem cosZenArg_gt {φ δ ha : ℝ} (hφ : 0 ≤ cos φ) (hδ : |δ| ≤ 488929 / 1000000)
    (hh : 0 ≤ cos ha) : -1 < cosZenArg realSym φ δ ha := by
  show -1 < sin φ * sin δ + cos φ * cos δ * cos ha
  have hcδ : 0 ≤ cos δ := by
    have := Real.one_sub_sq_div_two_le_cos (x := δ)
    have hsq : δ ^ 2 ≤ (488929 / 1000000) ^ 2 := by
      rw [← sq_abs]; exact pow_le_pow_left₀ (abs_nonneg _) hδ 2
    nlinarith
  have h1 : |sin φ * sin δ| ≤ 488929 / 1000000 := by
    rw [abs_mul]
    have a1 : |sin φ| ≤ 1 := Real.abs_sin_le_one _
    have a2 : |sin δ| ≤ |δ| := Real.abs_sin_le_abs
    calc |sin φ| * |sin δ| ≤ 1 * |sin δ| := mul_le_mul_of_nonneg_right a1 (abs_nonneg _)
      _ ≤ 488929 / 1000000 := by linarith
  rw [abs_le] at h1
  have h2 : 0 ≤ cos φ * cos δ * cos ha := mul_nonneg (mul_nonneg hφ hcδ) hh
  linarith

/-- Non-vacuity of T1–T3 over ℝ: at the shipped Singapore header, 21 March 09:00:00, both routines
    return a result (their hour angles are −29°±5.2° and −61°±5.2°, on the day side). -/
example : ∃ oI oS : SolarOut ℝ,
    solaranglesImpl realSym inobisStd 3 21 32400 (137 / 100) (10398 / 100) 8 (3 / 2) = .ok oI ∧
    solaranglesSpec realSym 3 21 32400 (137 / 100) (10398 / 100) 8 (3 / 2) = .ok oS := by
  have hpi := Real.pi_pos
  have hpi4 := Real.pi_lt_d4
  have hpi3 := Real.pi_gt_d4
  set oI := implOut realSym 59 21 32400 (137 / 100) (10398 / 100) 8 (3 / 2) with hoI
  set oS := specOut realSym 3 21 32400 (137 / 100) (10398 / 100) 8 (3 / 2) with hoS
  have hφ : 0 ≤ cos ((137 / 100 : ℝ) * (π / 180)) :=
    (Real.cos_pos_of_mem_Ioo ⟨by nlinarith, by nlinarith⟩).le
  have beI : |oI.eqtime| ≤ 2051 / 100 := eqtime_real_bound _
  have beS : |oS.eqtime| ≤ 2051 / 100 := eqtime_real_bound _
  rw [abs_le] at beI beS
  have hhaI : oI.ha = (oI.eqtime / 4 - 2898 / 100) * π / 180 := by
    show haImplOf realSym 32400 (timeOffsetImpl oI.eqtime _ _) = _
    unfold haImplOf timeOffsetImpl
    have hp : realSym.pi = π := rfl
    rw [hp]; push_cast; ring
  have hhaS : oS.ha = (oS.eqtime / 4 - 6102 / 100) * π / 180 := by
    show haSpecOf realSym 32400 (timeOffsetSpec oS.eqtime _ _) = _
    unfold haSpecOf timeOffsetSpec
    have hp : realSym.pi = π := rfl
    rw [hp]; push_cast; ring
  have hcI : 0 ≤ cos oI.ha :=
    (Real.cos_pos_of_mem_Ioo ⟨by rw [hhaI]; nlinarith, by rw [hhaI]; nlinarith⟩).le
  have hcS : 0 ≤ cos oS.ha :=
    (Real.cos_pos_of_mem_Ioo ⟨by rw [hhaS]; nlinarith, by rw [hhaS]; nlinarith⟩).le
  have bdI : |oI.decsol| ≤ 488929 / 1000000 := decsol_real_bound _
  have bdS : |oS.decsol| ≤ 488929 / 1000000 := decsol_real_bound _
  have gI : -1 < cosZenArg realSym ((137 / 100 : ℝ) * (π / 180)) oI.decsol oI.ha :=
    cosZenArg_gt hφ bdI hcI
  have gS : -1 < cosZenArg realSym ((137 / 100 : ℝ) * (π / 180)) oS.decsol oS.ha :=
    cosZenArg_gt hφ bdS hcS
  have htI : oI.tanzen ≠ 0 := tanzen_real_ne_zero (Real.arccos_nonneg _) (arccos_lt_pi gI)
  have htS : oS.tanzen ≠ 0 := tanzen_real_ne_zero (Real.arccos_nonneg _) (arccos_lt_pi gS)
  exact ⟨oI, oS,
    solaranglesImpl_std realSym 3 21 32400 _ _ 8 _ 59 rfl htI (by norm_num),
    solaranglesSpec_of realSym 3 21 32400 _ _ 8 _ (by norm_num) (by norm_num) htS (by norm_num)⟩

/-- Non-vacuity of `impl_is_spec_mirrored` / `impl_ne_spec_singapore`, executed in the model at ℚ
    with the stub symbols: both routines return at the Singapore header, 21 March 09:00. -/
example : (solaranglesImpl stubQ inobisStd 3 21 32400 (137 / 100) (10398 / 100) 8 (3 / 2)).isOk = true ∧
    (solaranglesSpec stubQ 3 21 32400 (137 / 100) (10398 / 100) 8 (3 / 2)).isOk = true := by
  decide +kernel

end Uwg.C12
