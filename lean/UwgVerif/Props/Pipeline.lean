/-
Composition D - the whole pipeline `generate(); simulate(); write_epw()` with the concrete pieces plugged in
(`Model/Pipeline.lean`): header reader `Epw.readHeader`, `Weather.read`, the road column `columnOutcome`,
`forcingOf` / `stepW` over the real loop body `Step.step`, the writer `Csv.writeEpw`.

Every statement below is composition A's (`Props/Morph.lean`), C09's, C12's, C20's or C03's statement at the
CONCRETE readers and the CONCRETE physics; each proof joins component theorems:
  `pipeline_eq_morph`            the pipeline is `Morph.morph` at `physW`, `projD`, `tableOf`, `meanDeep`;
  `pipeline_preserves`           = `morph_preserves`;       `pipeline_row_stamp` = `written_row_stamp` on top of it;
  `pipeline_causal`              = `morph_causal` ∘ `Weather.rowRec_congr`;
  `pipeline_wind`                = `step_wind_recorded` ∘ `Weather` cell 21 (no hypothesis on the record left);
  `pipeline_moisture`            = `Weather.rowRec_hum` ∘ `step_canHum_is_rural` ∘ `step_record_defined`;
  `pipeline_site_cells`          = `Epw.readSite` inverted; `pipeline_ground_cells` = `readGround_groundLine` ∘ `pad_index`;
  `pipeline_unmodelled_irrelevant(_file)` = `readHeader_congr` ∘ `extract` of ten cells ∘ `write_preserves`;
  `pipeline_fail_stop`, `pipeline_text_fail_stop`.

Standing hypotheses (of composition A): `ValidRun` (calendar start date, positive timestep dividing one hour, at
least one day, window inside the year), `WellFormed` (8 header rows, window inside the data rows, window rows of at
least 22 cells, no line break inside a cell, no row that is a single empty cell). NO hypothesis on the physics is
left: what `morph_wind` had to assume about `Phys.record` is proved for `physW`.
What the theorems still quantify over (= the parameters of the model, see `Model/Pipeline.lean`): the libm
symbols `S`, the configuration `C0` derived from the parameter file, the initial objects `init`, the pavement
`droad kroad croad`.
-/
import UwgVerif.Lemmas.Pipeline
import UwgVerif.Props.Morph
import UwgVerif.Props.Step

namespace Uwg.Pipeline
open Uwg Uwg.Csv Uwg.Sim Uwg.Step Uwg.C02 Uwg.C01 Uwg.Morph Uwg.StepProps

variable (S : Sym ℚ) (C0 : Cfg ℚ) (init : Option Weather.Rec → State ℚ) (droad kroad croad : ℚ)

/-- The ten columns of a rural row that `Weather` reads. -/
def modelledCols : List Nat := [6, 7, 8, 9, 12, 13, 14, 15, 20, 21]

/-! ## The pipeline is composition A at the concrete pieces -/

/-- **`pipeline_eq_morph`.** Whenever the header is readable, `Weather` returns, the first wind cell is a
    number and the road column is accepted, the pipeline IS `Morph.morph` with
    `P = physW S (cfgOf C0 site dt)` (the real loop body on station records, site of the header),
    `proj = projD S` (the station record of a row), `table = tableOf …` (monthly deep temperatures of line 4 at
    the depth the pavement reaches), `mean = meanDeep`, `nSoilGe3 = (3 ≤ nSoil)` - so every theorem of
    composition A applies. In the remaining cases the pipeline stops in `generate()` before any of this. -/
theorem pipeline_eq_morph (dt M Dy days p : Nat) (hdr rows : List Csv.Row) (site : Epw.Site)
    (g : Epw.Ground) (wrecs : List Weather.Rec) (soil : Soil (Deep ℚ)) (h8 : hdr.length = 8)
    (hh : Epw.readHeader hdr = .ok (site, g))
    (hr : Weather.read S (hdr ++ rows) (timeInitial M Dy) (timeFinal M Dy days) = .ok wrecs)
    (hi : initWindText wrecs = false) (hs : soilOf droad kroad croad g wrecs = .ok soil) :
    pipeline S C0 init droad kroad croad dt M Dy days p hdr rows =
      (Morph.morph (physW S (cfgOf C0 site dt)) (decide (3 ≤ g.nSoil)) (tableOf droad kroad croad g)
        meanDeep (projD S) init dt M Dy days p hdr rows).mapError ofMorph :=
  pipeline_eq_morph_aux S C0 init droad kroad croad dt M Dy days p hdr rows site g wrecs soil h8 hh hr hi hs

/-- A run that writes a file: the stages it went through, and the same file from composition A. -/
theorem pipeline_ok_morph {dt M Dy days p : Nat} {hdr rows : List Csv.Row} {text : List Char}
    (h8 : hdr.length = 8)
    (h : pipeline S C0 init droad kroad croad dt M Dy days p hdr rows = .ok text) :
    ∃ site g wrecs soil s recs, Epw.readHeader hdr = .ok (site, g) ∧
      Weather.read S (hdr ++ rows) (timeInitial M Dy) (timeFinal M Dy days) = .ok wrecs ∧
      soilOf droad kroad croad g wrecs = .ok soil ∧
      pipelineSim S C0 init droad kroad croad dt M Dy days (24 * days) hdr rows = .ok (s, recs) ∧
      simulate (physW S (cfgOf C0 site dt)) soil dt M Dy days wrecs (init wrecs.head?) = .ok (s, recs) ∧
      Morph.morph (physW S (cfgOf C0 site dt)) (decide (3 ≤ g.nSoil)) (tableOf droad kroad croad g)
        meanDeep (projD S) init dt M Dy days p hdr rows = .ok text := by
  have h0 := h
  unfold pipeline pipelineCore at h
  cases hps : pipelineSim S C0 init droad kroad croad dt M Dy days (24 * days) hdr rows with
  | error e => rw [hps] at h; cases h
  | ok x =>
    obtain ⟨s, recs⟩ := x
    obtain ⟨site, g, c0, wrecs, soil, hh, _, hr, hi, hs, hsim⟩ := pipelineSim_ok_inv hps
    rw [simulateHours_days] at hsim
    refine ⟨site, g, wrecs, soil, s, recs, hh, hr, hs, rfl, hsim, ?_⟩
    have e := pipeline_eq_morph_aux S C0 init droad kroad croad dt M Dy days p hdr rows site g wrecs soil
      h8 hh hr hi hs
    rw [h0] at e
    cases hm : Morph.morph (physW S (cfgOf C0 site dt)) (decide (3 ≤ g.nSoil))
        (tableOf droad kroad croad g) meanDeep (projD S) init dt M Dy days p hdr rows with
    | error x => rw [hm] at e; cases e
    | ok t =>
      rw [hm] at e
      simp only [Except.mapError, Except.ok.injEq] at e
      rw [e]

/-- **Anatomy of a run that writes a file** (standing hypotheses): the header was read, `Weather` returned one
    station record per window row, the loop returned `24·days` records; record `n` was made by the record block
    from the post-state `sb` of a RETURNING record pass `stepW … sa t w … = ok sb` on the station record `w` of
    rural row `24·j₀ + n`; the written text parses back to the header and rows `out` that carry record `n` in
    cells 6, 7, 8, 21 of row `24·j₀ + n` and the rural cell everywhere else. -/
theorem pipeline_anatomy {dt M Dy days p : Nat} {hdr rows : List Csv.Row} {text : List Char}
    (hv : ValidRun dt M Dy days) (hw : WellFormed hdr rows M Dy days)
    (h : pipeline S C0 init droad kroad croad dt M Dy days p hdr rows = .ok text) :
    ∃ site g wrecs soil s recs out,
      Epw.readHeader hdr = .ok (site, g) ∧ soilOf droad kroad croad g wrecs = .ok soil ∧
      pipelineSim S C0 init droad kroad croad dt M Dy days (24 * days) hdr rows = .ok (s, recs) ∧
      recs.length = 24 * days ∧
      (∀ n, n < 24 * days → ∃ r w sa sb t, rows[24 * dayOfYear0 M Dy + n]? = some r ∧
        Weather.rowRec S r = .ok w ∧ t.recorded = true ∧
        stepW S (cfgOf C0 site dt) sa t w (deepAt soil t) = .ok sb ∧
        recs[n]? = some (resOf (Step.record sb t (rowD w)))) ∧
      parseFile text = hdr ++ out ∧ out.length = rows.length ∧
      (∀ i : Nat, (out[i]?).map List.length = (rows[i]?).map List.length) ∧
      (∀ n, n < 24 * days → ∃ x, recs[n]? = some x ∧ WrittenAt out (24 * dayOfYear0 M Dy + n) x p) ∧
      (∀ i j : Nat, ¬ (24 * dayOfYear0 M Dy ≤ i ∧ i < 24 * dayOfYear0 M Dy + 24 * days ∧ IsWrittenCol j) →
        cellAt out i j = cellAt rows i j) := by
  obtain ⟨site, g, wrecs, soil, s, recs, hh, hr, hs, hps, hsim, hm⟩ :=
    pipeline_ok_morph S C0 init droad kroad croad hw.hdr8 h
  obtain ⟨out, recs', hparse, hlen, hlens, ⟨s', hsf⟩, hrl, hcells, hother⟩ :=
    morph_preserves (physW S (cfgOf C0 site dt)) (decide (3 ≤ g.nSoil)) (tableOf droad kroad croad g)
      meanDeep (projD S) init dt M Dy days p hdr rows text hv hw hm
  rw [simulateFile_eq S (cfgOf C0 site dt) init droad kroad croad dt M Dy days hdr rows g wrecs soil hw.hdr8
    hr hs, hsim] at hsf
  simp only [Except.ok.injEq, Prod.mk.injEq] at hsf
  obtain ⟨_, rfl⟩ := hsf
  have hj := julian_eq hv.date
  obtain ⟨_, hfa⟩ := read_ok_inv hr
  rw [weather_window_bridge hdr rows M Dy days hw.hdr8] at hfa
  have hwl : (window M Dy days rows).length = 24 * days :=
    window_length M Dy days rows (by rw [hj]; exact hw.fits)
  have hlenw : wrecs.length = 24 * days := by
    rw [← Weather.forall₂_length hfa, hwl]
  have hvalid : Valid ⟨dt, M, Dy, days, wrecs.length⟩ :=
    ⟨hv.date, hv.dvd, hv.pos, hv.inYear, by simp [hlenw]⟩
  obtain ⟨_, hprov⟩ := simulate_prov (physW S (cfgOf C0 site dt)) soil dt M Dy days wrecs _ s recs hvalid hsim
  refine ⟨site, g, wrecs, soil, s, recs, out, hh, hs, hps, hrl, ?_, hparse, hlen, hlens, hcells, hother⟩
  intro n hn
  obtain ⟨sa, sb, t, w, hrec, hwn, hstep, hrn⟩ := hprov n hn
  have hrow : (window M Dy days rows)[n]? = rows[24 * dayOfYear0 M Dy + n]? := by
    rw [window_getElem? M Dy days rows n hn, hj]
  have hlt : n < (window M Dy days rows).length := by omega
  have hr0 : (window M Dy days rows)[n]? = some (window M Dy days rows)[n] := List.getElem?_eq_getElem hlt
  refine ⟨(window M Dy days rows)[n], w, sa, sb, t, by rw [← hrow, hr0], ?_, hrec, hstep, hrn⟩
  exact forall₂_get hfa n _ _ hr0 hwn

/-! ## A1 - preservation -/

/-- **`pipeline_preserves`** (= `morph_preserves` at the concrete pieces). Whenever the pipeline writes a file,
    reading the written text back gives the 8 header rows unchanged followed by data rows `out` with the same
    number of rows and, row by row, the same number of cells as the rural file; `simulate` returned exactly
    `24·days` records; for EVERY hour `n` the cells 6, 7, 8, 21 of data row `24·j₀ + n` are the formatted values
    of record `n`; every other cell of every row is identical to the rural cell. -/
theorem pipeline_preserves (dt M Dy days p : Nat) (hdr rows : List Csv.Row) (text : List Char)
    (hv : ValidRun dt M Dy days) (hw : WellFormed hdr rows M Dy days)
    (h : pipeline S C0 init droad kroad croad dt M Dy days p hdr rows = .ok text) :
    ∃ (out : List Csv.Row) (recs : List Res),
      parseFile text = hdr ++ out ∧ out.length = rows.length ∧
      (∀ i : Nat, (out[i]?).map List.length = (rows[i]?).map List.length) ∧
      (∃ s, pipelineSim S C0 init droad kroad croad dt M Dy days (24 * days) hdr rows = .ok (s, recs)) ∧
      recs.length = 24 * days ∧
      (∀ n, n < 24 * days → ∃ x, recs[n]? = some x ∧ WrittenAt out (24 * dayOfYear0 M Dy + n) x p) ∧
      (∀ i j : Nat, ¬ (24 * dayOfYear0 M Dy ≤ i ∧ i < 24 * dayOfYear0 M Dy + 24 * days ∧ IsWrittenCol j) →
        cellAt out i j = cellAt rows i j) := by
  obtain ⟨_, _, _, _, s, recs, out, _, _, hps, hrl, _, hparse, hlen, hlens, hcells, hother⟩ :=
    pipeline_anatomy S C0 init droad kroad croad hv hw h
  exact ⟨out, recs, hparse, hlen, hlens, ⟨s, hps⟩, hrl, hcells, hother⟩

/-! ## A3 - the row written for hour `n` -/

/-- **`pipeline_row_stamp`.** Whenever the pipeline writes a file, record `n` is written to data row
    `writeRow M D n = 24·j₀ + n`, and - if the rural file carries the conventional hour-ending stamps (row `k` has
    month, day, hour of `stamp k` in columns 1, 2, 3, spelt by any `enc`) - that output row still carries the
    calendar date of the instant `start + n hours` with hour number `hour(start + n h) + 1`. -/
theorem pipeline_row_stamp (dt M Dy days p : Nat) (hdr rows : List Csv.Row) (text : List Char)
    (enc : Nat → Cell) (hv : ValidRun dt M Dy days) (hw : WellFormed hdr rows M Dy days)
    (hst : ∀ k, k < rows.length → cellAt rows k 1 = some (enc (stamp k).1) ∧
      cellAt rows k 2 = some (enc (stamp k).2.1) ∧ cellAt rows k 3 = some (enc (stamp k).2.2))
    (h : pipeline S C0 init droad kroad croad dt M Dy days p hdr rows = .ok text) :
    ∃ (out : List Csv.Row) (recs : List Res), parseFile text = hdr ++ out ∧
      (∃ s, pipelineSim S C0 init droad kroad croad dt M Dy days (24 * days) hdr rows = .ok (s, recs)) ∧
      ∀ n, n < 24 * days → ∃ x, recs[n]? = some x ∧
        writeRow M Dy n = 24 * dayOfYear0 M Dy + n ∧
        WrittenAt out (writeRow M Dy n) x p ∧
        cellAt out (writeRow M Dy n) 1 =
          some (enc (trueCalendar (dayOfYear0 M Dy * 86400 + n * 3600)).month) ∧
        cellAt out (writeRow M Dy n) 2 =
          some (enc (trueCalendar (dayOfYear0 M Dy * 86400 + n * 3600)).day) ∧
        cellAt out (writeRow M Dy n) 3 =
          some (enc ((trueCalendar (dayOfYear0 M Dy * 86400 + n * 3600)).hourDay + 1)) := by
  obtain ⟨out, recs, hparse, _, _, hsf, _, hcells, hother⟩ :=
    pipeline_preserves S C0 init droad kroad croad dt M Dy days p hdr rows text hv hw h
  refine ⟨out, recs, hparse, hsf, ?_⟩
  intro n hn
  obtain ⟨x, hx, hwx⟩ := hcells n hn
  obtain ⟨_, hrow, hstamp⟩ := written_row_stamp M Dy n hv.date
  have hlt : 24 * dayOfYear0 M Dy + n < rows.length := by have := hw.fits; omega
  obtain ⟨s1, s2, s3⟩ := hst _ hlt
  rw [← hrow, hstamp] at s1 s2 s3
  refine ⟨x, hx, hrow, by rw [hrow]; exact hwx, ?_, ?_, ?_⟩
  · rw [hother (writeRow M Dy n) 1 (by unfold IsWrittenCol; omega)]; exact s1
  · rw [hother (writeRow M Dy n) 2 (by unfold IsWrittenCol; omega)]; exact s2
  · rw [hother (writeRow M Dy n) 3 (by unfold IsWrittenCol; omega)]; exact s3

/-! ## A4 - the wind column (C02) -/

/-- **`pipeline_wind`.** Whenever the pipeline writes a file, for every hour `n` the wind cell (column 21) of
    data row `24·j₀ + n` is `fmtFixed (max q windMin) p`, where `q` is the NUMBER in the wind cell (column 21) of
    rural row `24·j₀ + n` ITSELF (as `str2fl` reads it) and `windMin` the minimum wind of the configuration: hour
    `n` gets the wind of its own rural row, raised to the minimum wind. No hypothesis on the physics: that the
    recorded wind is `max(row wind, windMin)` is `step_wind_recorded` of the real loop body. -/
theorem pipeline_wind (dt M Dy days p : Nat) (hdr rows : List Csv.Row) (text : List Char)
    (hv : ValidRun dt M Dy days) (hw : WellFormed hdr rows M Dy days)
    (h : pipeline S C0 init droad kroad croad dt M Dy days p hdr rows = .ok text) :
    ∃ out : List Csv.Row, parseFile text = hdr ++ out ∧
      ∀ n, n < 24 * days → ∃ (r : Csv.Row) (c : Cell) (q : ℚ), rows[24 * dayOfYear0 M Dy + n]? = some r ∧
        r[21]? = some c ∧ Weather.str2flCell c = .num q ∧
        cellAt out (24 * dayOfYear0 M Dy + n) 21 = some (fmtFrac (toFrac (max q C0.par.windMin)) p) := by
  obtain ⟨site, g, wrecs, soil, s, recs, out, _, _, _, _, hprov, hparse, _, _, hcells, _⟩ :=
    pipeline_anatomy S C0 init droad kroad croad hv hw h
  refine ⟨out, hparse, ?_⟩
  intro n hn
  obtain ⟨r, w, sa, sb, t, hr, hw', _, hstep, hrn⟩ := hprov n hn
  obtain ⟨x, hx, hwx⟩ := hcells n hn
  rw [hrn] at hx
  cases hx
  obtain ⟨fr, hf, hst⟩ := stepW_ok hstep
  obtain ⟨hwind, _⟩ := step_wind_recorded hst
  obtain ⟨hum, _⟩ := forcingOf_ok hf
  obtain ⟨_, _, _, c, hc, hcv⟩ := rowRec_read_cells hw'
  refine ⟨r, c, fr.wind, hr, hc, by rw [hcv, hum], ?_⟩
  rw [hwx.2.2.2]
  have e : (Step.record sb t (rowD w)).wind = max fr.wind C0.par.windMin := hwind
  simp only [resOf, e]

/-! ## C09 end to end -/

/-- **`pipeline_moisture`.** Whenever the pipeline writes a file, for every hour `n`: let `tC`, `rh`, `pr` be the
    numbers in the dry-bulb, relative-humidity and pressure CELLS (columns 6, 8, 9) of rural row `24·j₀ + n` -
    the row record `n` is written to. The canyon humidity ratio of the pass `sb` behind record `n` is
    `hum_from_rhum_temp(rh, tC, pr)` of THOSE cells (nothing added, nothing lost, no other row involved), and the
    written dry bulb, dew point and relative humidity (cells 6, 7, 8 of the output row) are the formatted
    `T − 273.15`, `Tdp`, `RH` that `psychrometrics` gives for (the canyon temperature `T` of that pass, that
    humidity ratio, that row's pressure `pr`). -/
theorem pipeline_moisture (dt M Dy days p : Nat) (hdr rows : List Csv.Row) (text : List Char)
    (hv : ValidRun dt M Dy days) (hw : WellFormed hdr rows M Dy days)
    (h : pipeline S C0 init droad kroad croad dt M Dy days p hdr rows = .ok text) :
    ∃ out : List Csv.Row, parseFile text = hdr ++ out ∧
      ∀ n, n < 24 * days → ∃ (r : Csv.Row) (c6 c8 c9 : Cell) (tC rh pr hum : ℚ) (sb : State ℚ)
          (ps : PsyOut ℚ),
        rows[24 * dayOfYear0 M Dy + n]? = some r ∧
        r[6]? = some c6 ∧ r[8]? = some c8 ∧ r[9]? = some c9 ∧
        Weather.str2flCell c6 = .num tC ∧ Weather.str2flCell c8 = .num rh ∧ Weather.str2flCell c9 = .num pr ∧
        humFromRh S rh tC pr = .ok hum ∧
        sb.ucm.canHum = hum ∧
        psychro S sb.ucm.canTemp hum pr = .ok ps ∧
        cellAt out (24 * dayOfYear0 M Dy + n) 6 = some (fmtFrac (toFrac (sb.ucm.canTemp - 273.15)) p) ∧
        cellAt out (24 * dayOfYear0 M Dy + n) 7 = some (fmtFrac (toFrac ps.tdp) p) ∧
        cellAt out (24 * dayOfYear0 M Dy + n) 8 = some (fmtFrac (toFrac ps.phi) p) := by
  obtain ⟨site, g, wrecs, soil, s, recs, out, _, _, _, _, hprov, hparse, _, _, hcells, _⟩ :=
    pipeline_anatomy S C0 init droad kroad croad hv hw h
  refine ⟨out, hparse, ?_⟩
  intro n hn
  obtain ⟨r, w, sa, sb, t, hr, hw', hrec, hstep, hrn⟩ := hprov n hn
  obtain ⟨x, hx, hwx⟩ := hcells n hn
  rw [hrn] at hx
  cases hx
  obtain ⟨fr, hf, hst⟩ := stepW_ok hstep
  obtain ⟨_, _, _, _, hhum, hpres, _, _⟩ := forcingOf_ok hf
  obtain ⟨⟨c6, h6, v6⟩, ⟨c8, h8, v8⟩, ⟨c9, h9, v9⟩, _⟩ := Weather.rowRec_values S r w hw'
  have hh := Weather.rowRec_hum S r w hw'
  have hcan := step_canHum_is_rural hst
  obtain ⟨ps, hpsy, _, _, hrecd⟩ := step_record_defined hst hrec
  rw [hhum] at hcan
  rw [hhum, hpres] at hpsy
  have e : Step.record sb t (rowD w) = Step.record sb t fr := rfl
  rw [e, hrecd] at hwx
  refine ⟨r, c6, c8, c9, w.temp - 273.15, w.rhum, w.pres, w.hum, sb, ps, hr, h6, h8, h9, v6, v8, v9, hh, hcan,
    hpsy, ?_, ?_, ?_⟩
  · exact hwx.1
  · exact hwx.2.1
  · exact hwx.2.2.1

/-! ## A2 - causality (C03) -/

private theorem getElem?_of_take_eq'' {α : Type} {l l' : List α} {k i : Nat}
    (h : l.take k = l'.take k) (hi : i < k) : l[i]? = l'[i]? := by
  have h1 : (l.take k)[i]? = l[i]? := by rw [List.getElem?_take]; simp [hi]
  have h2 : (l'.take k)[i]? = l'[i]? := by rw [List.getElem?_take]; simp [hi]
  rw [← h1, ← h2, h]

theorem projD_congr (r r' : Csv.Row) (h : ∀ j ∈ modelledCols, r[j]? = r'[j]?) : projD S r = projD S r' := by
  unfold projD
  rw [Weather.rowRec_congr S r r' h]

/-- **`pipeline_causal`** (= `morph_causal` at the concrete pieces). Two well-formed rural files whose headers are
    interpreted alike (`readHeader` gives the same site and ground data: cells 6..8 of line 1 and line 4,
    `Epw.readHeader_congr`) and state at least three ground depths, and whose window rows `0 … h` agree on the ten
    modelled columns: if the pipeline writes a file for both, the rewritten cells (columns 6, 7, 8, 21) of the
    window rows `0 … h` are the same in the two written files. Whatever the rural rows after hour `h` (or any
    unmodelled cell) contain, it does not reach hour `h`. -/
theorem pipeline_causal (dt M Dy days p : Nat) (hdr hdr' rows rows' : List Csv.Row)
    (text text' : List Char) (h : Nat)
    (hv : ValidRun dt M Dy days) (hw : WellFormed hdr rows M Dy days) (hw' : WellFormed hdr' rows' M Dy days)
    (hh : h < 24 * days)
    (hhdr : Epw.readHeader hdr = Epw.readHeader hdr')
    (h3 : ∀ site g, Epw.readHeader hdr = .ok (site, g) → 3 ≤ g.nSoil)
    (hagree : ∀ n, n ≤ h → ∀ j ∈ modelledCols,
      cellAt rows (24 * dayOfYear0 M Dy + n) j = cellAt rows' (24 * dayOfYear0 M Dy + n) j)
    (hm : pipeline S C0 init droad kroad croad dt M Dy days p hdr rows = .ok text)
    (hm' : pipeline S C0 init droad kroad croad dt M Dy days p hdr' rows' = .ok text') :
    ∃ out out' : List Csv.Row, parseFile text = hdr ++ out ∧ parseFile text' = hdr' ++ out' ∧
      ∀ n j, n ≤ h → IsWrittenCol j →
        cellAt out (24 * dayOfYear0 M Dy + n) j = cellAt out' (24 * dayOfYear0 M Dy + n) j := by
  obtain ⟨site, g, _, _, _, _, hh1, _, _, _, _, hmo⟩ := pipeline_ok_morph S C0 init droad kroad croad hw.hdr8 hm
  obtain ⟨site', g', _, _, _, _, hh1', _, _, _, _, hmo'⟩ :=
    pipeline_ok_morph S C0 init droad kroad croad hw'.hdr8 hm'
  rw [hhdr, hh1'] at hh1
  simp only [Except.ok.injEq, Prod.mk.injEq] at hh1
  obtain ⟨rfl, rfl⟩ := hh1
  have hb : decide (3 ≤ g'.nSoil) = true := decide_eq_true (h3 site' g' (by rw [hhdr, hh1']))
  rw [hb] at hmo hmo'
  apply morph_causal (physW S (cfgOf C0 site' dt)) (tableOf droad kroad croad g') meanDeep (projD S) init dt M Dy
    days p hdr hdr' rows rows' text text' h hv hw hw' hh _ hmo hmo'
  have hj := julian_eq hv.date
  apply List.ext_getElem?
  intro i
  rw [List.getElem?_take, List.getElem?_take]
  by_cases hi : i < h + 1
  · simp only [hi, if_true, List.getElem?_map]
    rw [window_getElem? M Dy days rows i (by omega), window_getElem? M Dy days rows' i (by omega), hj]
    have hlt : 24 * dayOfYear0 M Dy + i < rows.length := by have := hw.fits; omega
    have hlt' : 24 * dayOfYear0 M Dy + i < rows'.length := by have := hw'.fits; omega
    rw [List.getElem?_eq_getElem hlt, List.getElem?_eq_getElem hlt']
    simp only [Option.map_some, Option.some.injEq]
    apply projD_congr
    intro j hj'
    have := hagree i (by omega) j hj'
    unfold cellAt at this
    rw [List.getElem?_eq_getElem hlt, List.getElem?_eq_getElem hlt'] at this
    simpa using this
  · simp [hi]

/-! ## A5 - fail-stop (C10) -/

/-- **`pipeline_fail_stop`.** If the header cannot be interpreted, or the timestep is zero or does not divide one
    hour, or `Weather` raises, or anything in `generate(); simulate()` raises (first wind cell text, refused road
    column, an exception of a pass, a forcing row missing), the pipeline yields NO file - for any file and any
    parameters, no well-formedness needed. -/
theorem pipeline_fail_stop (dt M Dy days p : Nat) (hdr rows : List Csv.Row)
    (hbad : (∃ e, Epw.readHeader hdr = .error e) ∨ ¬ (0 < dt ∧ dt ∣ 3600) ∨
      (∃ e, Weather.read S (hdr ++ rows) (timeInitial M Dy) (timeFinal M Dy days) = .error e) ∨
      (∃ x, pipelineSim S C0 init droad kroad croad dt M Dy days (24 * days) hdr rows = .error x)) :
    ∃ e, pipeline S C0 init droad kroad croad dt M Dy days p hdr rows = .error e := by
  have key : (∃ x, pipelineSim S C0 init droad kroad croad dt M Dy days (24 * days) hdr rows = .error x) →
      ∃ e, pipeline S C0 init droad kroad croad dt M Dy days p hdr rows = .error e := by
    rintro ⟨x, hx⟩
    exact ⟨x, by unfold pipeline pipelineCore; rw [hx]⟩
  rcases hbad with ⟨e, he⟩ | hdt | ⟨e, he⟩ | hx
  · exact key ⟨.header e, by unfold pipelineSim; rw [he]⟩
  · apply key
    unfold pipelineSim
    cases hh : Epw.readHeader hdr with
    | error e => exact ⟨_, rfl⟩
    | ok sg =>
      obtain ⟨site, g⟩ := sg
      simp only
      cases hc : Clock.create dt M Dy with
      | error e => exact ⟨_, rfl⟩
      | ok c =>
        exfalso
        apply hdt
        unfold Clock.create at hc
        by_cases h0 : dt = 0
        · simp [h0] at hc
        · by_cases hm : 3600 % dt = 0
          · exact ⟨Nat.pos_of_ne_zero h0, Nat.dvd_of_mod_eq_zero hm⟩
          · simp [h0, hm] at hc
  · apply key
    unfold pipelineSim
    cases hh : Epw.readHeader hdr with
    | error e => exact ⟨_, rfl⟩
    | ok sg =>
      obtain ⟨site, g⟩ := sg
      simp only
      cases hc : Clock.create dt M Dy with
      | error e => exact ⟨_, rfl⟩
      | ok c => simp only [he]; exact ⟨_, rfl⟩
  · exact key hx

/-- **`pipeline_text_fail_stop`.** Text (anything `float` refuses, or an empty cell) in the wind-speed, direct,
    diffuse or infrared cell (columns 21, 14, 15, 12) of ANY row of the window never produces a file: under the
    standing hypotheses the pipeline ends in an exception (`TypeError` of the pass that reads the row - or an
    earlier exception), it does not silently substitute a number. -/
theorem pipeline_text_fail_stop (dt M Dy days p : Nat) (hdr rows : List Csv.Row)
    (hv : ValidRun dt M Dy days) (hw : WellFormed hdr rows M Dy days)
    (n : Nat) (hn : n < 24 * days) (r : Csv.Row) (j : Nat) (c : Cell)
    (hr : rows[24 * dayOfYear0 M Dy + n]? = some r) (hj : j = 12 ∨ j = 14 ∨ j = 15 ∨ j = 21)
    (hc : r[j]? = some c) (htext : Weather.str2flCell c = .text) :
    ∃ e, pipeline S C0 init droad kroad croad dt M Dy days p hdr rows = .error e := by
  cases hp : pipeline S C0 init droad kroad croad dt M Dy days p hdr rows with
  | error e => exact ⟨e, rfl⟩
  | ok text =>
    exfalso
    obtain ⟨site, g, wrecs, soil, s, recs, out, _, _, _, _, hprov, _⟩ :=
      pipeline_anatomy S C0 init droad kroad croad hv hw hp
    obtain ⟨r', w, sa, sb, t, hr', hw', _, hstep, _⟩ := hprov n hn
    rw [hr] at hr'
    cases hr'
    obtain ⟨fr, hf, _⟩ := stepW_ok hstep
    obtain ⟨f21, f14, f15, f12, _⟩ := forcingOf_ok hf
    obtain ⟨⟨c12, h12, v12⟩, ⟨c14, h14, v14⟩, ⟨c15, h15, v15⟩, ⟨c21, h21, v21⟩⟩ := rowRec_read_cells hw'
    rcases hj with rfl | rfl | rfl | rfl
    · rw [hc] at h12; cases h12; rw [htext, f12] at v12; cases v12
    · rw [hc] at h14; cases h14; rw [htext, f14] at v14; cases v14
    · rw [hc] at h15; cases h15; rw [htext, f15] at v15; cases v15
    · rw [hc] at h21; cases h21; rw [htext, f21] at v21; cases v21

/-! ## C12 end to end: the site -/

/-- **`pipeline_site_param_dead`.** The latitude, longitude, time zone and timestep fields of the configuration
    handed in are never used: whatever they hold, the outcome is the same. -/
theorem pipeline_site_param_dead (dt M Dy days hours : Nat) (hdr rows : List Csv.Row) (a b c d : ℚ) :
    pipelineSim S { C0 with lat := a, lon := b, gmt := c, dt := d } init droad kroad croad dt M Dy days hours
      hdr rows = pipelineSim S C0 init droad kroad croad dt M Dy days hours hdr rows := rfl

/-- **`pipeline_site_cells`.** A `generate(); simulate()` that returns (any number of hours) ran EVERY pass with
    the physics `physW S C` whose configuration `C` carries, as the latitude, longitude and time zone that
    `solarStage` hands to the sun-position routine `solaranglesImpl`, the numeric values of cells 6, 7, 8 of
    line 1 of the rural file - and of nothing else (`pipeline_site_param_dead`). -/
theorem pipeline_site_cells (dt M Dy days hours : Nat) (hdr rows : List Csv.Row) (x : State ℚ × List Res)
    (h : pipelineSim S C0 init droad kroad croad dt M Dy days hours hdr rows = .ok x) :
    ∃ (loc : Csv.Row) (a b c : Cell) (lat lon gmt : ℚ) (g : Epw.Ground) (wrecs : List Weather.Rec)
        (soil : Soil (Deep ℚ)),
      hdr[0]? = some loc ∧ loc[6]? = some a ∧ loc[7]? = some b ∧ loc[8]? = some c ∧
      C06.parseFloat a = some lat ∧ C06.parseFloat b = some lon ∧ C06.parseFloat c = some gmt ∧
      Epw.readHeader hdr = .ok (⟨lat, lon, gmt⟩, g) ∧
      (cfgOf C0 ⟨lat, lon, gmt⟩ dt).lat = lat ∧ (cfgOf C0 ⟨lat, lon, gmt⟩ dt).lon = lon ∧
      (cfgOf C0 ⟨lat, lon, gmt⟩ dt).gmt = gmt ∧
      simulateHours (physW S (cfgOf C0 ⟨lat, lon, gmt⟩ dt)) soil dt M Dy hours wrecs (init wrecs.head?) =
        .ok x := by
  obtain ⟨site, g, _, wrecs, soil, hh, _, _, _, _, hsim⟩ := pipelineSim_ok_inv h
  obtain ⟨loc, gl, h0, _, hs, _⟩ := readHeader_ok hh
  obtain ⟨a, b, c, ha, hb, hc, pa, pb, pc⟩ := readSite_ok hs
  obtain ⟨lat, lon, gmt⟩ := site
  exact ⟨loc, a, b, c, lat, lon, gmt, g, wrecs, soil, h0, ha, hb, hc, pa, pb, pc, hh, rfl, rfl, rfl, hsim⟩

/-! ## C20 end to end: the deep temperature -/

/-- **`pipeline_ground_cells`.** For a ground-temperature line laid out as the EPW data dictionary says (label,
    count, per depth: depth, three soil-property cells, twelve monthly cells; anything after), with ANY number
    `≥ 3` of depths, whose count cell reads that number and whose depth and monthly cells are numbers: when the
    road column is accepted with index `i` (`columnOutcome`: the first stated depth that reaches the pavement),
    then `i` is one of the stated depths, the run looks its deep temperatures up by month
    (`soilOf = monthly (tableOf …)`, `deepAt` takes the month before the clock advances), and for every month
    `m = 1..12` the deep temperature is the number in cell `6 + 16·i + (m−1)` of line 4 plus 273.15 and the
    ground-water temperature the number in cell `6 + 16·2 + (m−1)` plus 273.15. -/
theorem pipeline_ground_cells (hdr : List Csv.Row) (label count : Cell) (recs : List Epw.GText)
    (trailing : List Cell) (parsed : List Epw.GRec) (site : Epw.Site) (g : Epw.Ground)
    (wrecs : List Weather.Rec) (ls : List (Lay ℚ)) (i : Nat)
    (hc : Epw.parseInt count = some (recs.length : Int)) (hm : ∀ r ∈ recs, r.months.length = 12)
    (hp : Epw.parseRecs recs = some parsed) (h3 : 3 ≤ recs.length)
    (hg : hdr[3]? = some (Epw.groundLine label count recs trailing))
    (hh : Epw.readHeader hdr = .ok (site, g))
    (hcol : roadColumn droad kroad croad g = .ok ls (some i)) :
    g = ⟨(recs.length : Int), parsed⟩ ∧ i < recs.length ∧
    soilOf droad kroad croad g wrecs = .ok (.monthly (tableOf droad kroad croad g)) ∧
    (∀ t : StepTrace, deepAt (Soil.monthly (tableOf droad kroad croad g)) t =
      tableOf droad kroad croad g t.monthBefore) ∧
    ∀ m, 1 ≤ m → m ≤ 12 → ∃ (ci c2 : Cell) (vi v2 : ℚ),
      (Epw.groundLine label count recs trailing)[6 + 16 * i + (m - 1)]? = some ci ∧
      C06.parseFloat ci = some vi ∧
      (Epw.groundLine label count recs trailing)[6 + 16 * 2 + (m - 1)]? = some c2 ∧
      C06.parseFloat c2 = some v2 ∧
      tableOf droad kroad croad g m = ⟨vi + 27315 / 100, v2 + 27315 / 100⟩ := by
  obtain ⟨loc, gl, _, h3', _, hgr⟩ := readHeader_ok hh
  rw [hg] at h3'
  cases h3'
  rw [Epw.readGround_groundLine label count recs trailing parsed hc hm hp] at hgr
  simp only [Except.ok.injEq] at hgr
  subst hgr
  obtain ⟨gr, hgi⟩ := roadColumn_index hcol
  have hplen : parsed.length = recs.length := parseRecs_length recs parsed hp
  have hi : i < recs.length := by
    have := (List.getElem?_eq_some_iff.1 hgi).1
    simp only at this
    omega
  have hsoil : soilOf droad kroad croad ⟨(recs.length : Int), parsed⟩ wrecs =
      .ok (.monthly (tableOf droad kroad croad ⟨(recs.length : Int), parsed⟩)) := by
    unfold soilOf
    rw [hcol]
    have : (3 : Int) ≤ (recs.length : Int) := by omega
    simp [this]
  refine ⟨rfl, hi, hsoil, fun t => rfl, ?_⟩
  intro m hm1 hm12
  -- the two records and their monthly cells
  have cellOf : ∀ k, k < recs.length → ∃ (c : Cell) (v : ℚ),
      (Epw.groundLine label count recs trailing)[6 + 16 * k + (m - 1)]? = some c ∧
      C06.parseFloat c = some v ∧
      tsoil ⟨(recs.length : Int), parsed⟩ k m = v + 27315 / 100 := by
    intro k hk
    have hrk : recs[k]? = some recs[k] := List.getElem?_eq_getElem hk
    obtain ⟨d, ms, _, hms, hpk⟩ := parseRecs_get recs parsed hp k _ hrk
    have hmlen : (recs[k]).months.length = 12 := hm _ (List.getElem_mem hk)
    have hcm : (recs[k]).months[m - 1]? = some (recs[k]).months[m - 1] :=
      List.getElem?_eq_getElem (by omega)
    obtain ⟨v, hv, hvs⟩ := parseAll_get _ ms hms (m - 1) _ hcm
    refine ⟨(recs[k]).months[m - 1], v, ?_, hv, ?_⟩
    · have hfl := flat_cells_get recs trailing hm k _ hrk (4 + (m - 1)) (by omega)
      have e : (Epw.groundLine label count recs trailing)[6 + 16 * k + (m - 1)]? =
          (recs.flatMap Epw.GText.cells ++ trailing)[16 * k + (4 + (m - 1))]? := by
        unfold Epw.groundLine
        have e2 : 6 + 16 * k + (m - 1) = (16 * k + (4 + (m - 1))) + 1 + 1 := by omega
        rw [e2, List.getElem?_cons_succ, List.getElem?_cons_succ]
      rw [e, hfl]
      unfold Epw.GText.cells
      have e3 : 4 + (m - 1) = (m - 1) + 1 + 1 + 1 + 1 := by omega
      rw [e3]
      simp only [List.getElem?_cons_succ]
      exact hcm
    · unfold tsoil
      simp only [hpk, Option.bind_some, List.getElem?_map, hvs, Option.map_some, Option.getD_some]
  obtain ⟨ci, vi, h1, h2, h3i⟩ := cellOf i hi
  obtain ⟨c2, v2, h4, h5, h6⟩ := cellOf 2 (by omega)
  refine ⟨ci, c2, vi, v2, h1, h2, h4, h5, ?_⟩
  unfold tableOf
  rw [hcol]
  simp only [deepTable, h3i, h6]

/-! ## C03 end to end: what is not modelled influences nothing -/

/-- **`pipeline_unmodelled_irrelevant`.** Two rural files (8 header lines each, the same number of data rows) that
    agree on cells 6..8 of line 1, on line 4 and - cell by cell - on the ten modelled columns of the window rows
    give the SAME outcome of `generate(); simulate()`: the same final state and records, or the same failing stage
    - for any number of hours. Every other header line, every other cell of line 1, every row outside the window and
    every other column of the window rows influences nothing. -/
theorem pipeline_unmodelled_irrelevant (dt M Dy days hours : Nat) (hdr hdr' rows rows' : List Csv.Row)
    (loc loc' : Csv.Row) (h8 : hdr.length = 8) (h8' : hdr'.length = 8)
    (h0 : hdr[0]? = some loc) (h0' : hdr'[0]? = some loc')
    (h6 : loc[6]? = loc'[6]?) (h7 : loc[7]? = loc'[7]?) (h8c : loc[8]? = loc'[8]?)
    (h4 : hdr[3]? = hdr'[3]?) (hlen : rows.length = rows'.length)
    (hagree : ∀ i, 24 * (Clock.init M Dy).julian ≤ i → i < 24 * (Clock.init M Dy).julian + 24 * days →
      ∀ j ∈ modelledCols, cellAt rows i j = cellAt rows' i j) :
    pipelineSim S C0 init droad kroad croad dt M Dy days hours hdr rows =
    pipelineSim S C0 init droad kroad croad dt M Dy days hours hdr' rows' := by
  have hg : ∃ gl, hdr[3]? = some gl := ⟨hdr[3], List.getElem?_eq_getElem (by omega)⟩
  obtain ⟨gl, hgl⟩ := hg
  have hhdr : Epw.readHeader hdr = Epw.readHeader hdr' :=
    Epw.readHeader_congr hdr hdr' loc loc' gl h0 h0' hgl (by rw [← h4]; exact hgl) h6 h7 h8c
  unfold pipelineSim
  rw [← hhdr]
  cases hh : Epw.readHeader hdr with
  | error e => rfl
  | ok sg =>
    obtain ⟨site, g⟩ := sg
    -- both LOCATION lines have a second cell (they have a seventh)
    obtain ⟨loc0, _, h00, _, hs, _⟩ := readHeader_ok hh
    rw [h0] at h00
    cases h00
    obtain ⟨a, _, _, ha, _⟩ := readSite_ok hs
    have hl1 : ∃ c, loc[1]? = some c := by
      have := (List.getElem?_eq_some_iff.1 ha).1
      exact ⟨loc[1], List.getElem?_eq_getElem (by omega)⟩
    have hl1' : ∃ c, loc'[1]? = some c := by
      rw [h6] at ha
      have := (List.getElem?_eq_some_iff.1 ha).1
      exact ⟨loc'[1], List.getElem?_eq_getElem (by omega)⟩
    obtain ⟨c1, hc1⟩ := hl1
    obtain ⟨c1', hc1'⟩ := hl1'
    have hread : Weather.read S (hdr ++ rows) (timeInitial M Dy) (timeFinal M Dy days) =
        Weather.read S (hdr' ++ rows') (timeInitial M Dy) (timeFinal M Dy days) := by
      cases hdr with
      | nil => simp at h8
      | cons f t =>
        cases hdr' with
        | nil => simp at h8'
        | cons f' t' =>
          simp only [List.getElem?_cons_zero, Option.some.injEq] at h0 h0'
          subst h0 h0'
          have hwin : (Weather.window (f :: t ++ rows) (timeInitial M Dy) (timeFinal M Dy days)).map
              Weather.extract = (Weather.window (f' :: t' ++ rows') (timeInitial M Dy)
                (timeFinal M Dy days)).map Weather.extract := by
            rw [weather_window_bridge (f :: t) rows M Dy days h8,
              weather_window_bridge (f' :: t') rows' M Dy days h8']
            apply map_window_congr Weather.extract M Dy days rows rows' hlen
            intro n r r' hn hr hr'
            apply extract_congr
            intro j hj
            have := hagree (24 * (Clock.init M Dy).julian + n) (by omega) (by omega) j hj
            unfold cellAt at this
            rw [hr, hr'] at this
            simpa using this
          exact read_congr S f f' (t ++ rows) (t' ++ rows') _ _ c1 c1' hc1 hc1' hwin
    simp only [hread]

/-- **`pipeline_unmodelled_irrelevant_file`.** Under the standing hypotheses for both files: two rural files that
    agree on cells 6..8 of line 1, on line 4 and on the ten modelled columns of the window rows - if the pipeline
    writes a file for one it writes a file for the other, each file reads back as its own header followed by rows
    `out` / `out'`, and the two written files differ ONLY where the two rural files differ: wherever the rural
    cells `(i, j)` agree the written cells agree. Every unmodelled header line, column and row is carried through
    verbatim and influences nothing else. -/
theorem pipeline_unmodelled_irrelevant_file (dt M Dy days p : Nat) (hdr hdr' rows rows' : List Csv.Row)
    (loc loc' : Csv.Row) (text : List Char)
    (hv : ValidRun dt M Dy days) (hw : WellFormed hdr rows M Dy days) (hw' : WellFormed hdr' rows' M Dy days)
    (h0 : hdr[0]? = some loc) (h0' : hdr'[0]? = some loc')
    (h6 : loc[6]? = loc'[6]?) (h7 : loc[7]? = loc'[7]?) (h8c : loc[8]? = loc'[8]?)
    (h4 : hdr[3]? = hdr'[3]?) (hlen : rows.length = rows'.length)
    (hagree : ∀ i, 24 * dayOfYear0 M Dy ≤ i → i < 24 * dayOfYear0 M Dy + 24 * days →
      ∀ j ∈ modelledCols, cellAt rows i j = cellAt rows' i j)
    (h : pipeline S C0 init droad kroad croad dt M Dy days p hdr rows = .ok text) :
    ∃ (text' : List Char) (out out' : List Csv.Row),
      pipeline S C0 init droad kroad croad dt M Dy days p hdr' rows' = .ok text' ∧
      parseFile text = hdr ++ out ∧ parseFile text' = hdr' ++ out' ∧
      ∀ i j : Nat, cellAt rows i j = cellAt rows' i j → cellAt out i j = cellAt out' i j := by
  have hj := julian_eq hv.date
  obtain ⟨out, recs, hparse, _, _, ⟨s, hps⟩, hrl, hcells, hother⟩ :=
    pipeline_preserves S C0 init droad kroad croad dt M Dy days p hdr rows text hv hw h
  have hsame := pipeline_unmodelled_irrelevant S C0 init droad kroad croad dt M Dy days (24 * days) hdr hdr'
    rows rows' loc loc' hw.hdr8 hw'.hdr8 h0 h0' h6 h7 h8c h4 hlen (by rw [hj]; exact hagree)
  rw [hps] at hsame
  -- the writer succeeds on the second file
  obtain ⟨text', out', hwr', hparse', _, _, hcells', hother'⟩ :=
    write_preserves hdr' rows' (24 * dayOfYear0 M Dy) recs p hw'.hdr8
      (by have := hw'.fits; omega) (fun i r h1 h2 h3 => hw'.wide i r h1 (by omega) h3) hw'.nonl hw'.nosingle
  have hstart : startRow M Dy = 24 * dayOfYear0 M Dy := by rw [startRow_eq, hj]
  have hp' : pipeline S C0 init droad kroad croad dt M Dy days p hdr' rows' = .ok text' := by
    unfold pipeline pipelineCore
    rw [← hsame]
    simp only [hstart, hwr']
  refine ⟨text', out, out', hp', hparse, hparse', ?_⟩
  intro i j hij
  by_cases hin : 24 * dayOfYear0 M Dy ≤ i ∧ i < 24 * dayOfYear0 M Dy + 24 * days ∧ IsWrittenCol j
  · obtain ⟨h1, h2, hcol⟩ := hin
    obtain ⟨x, hx, hwx⟩ := hcells (i - 24 * dayOfYear0 M Dy) (by omega)
    have e : 24 * dayOfYear0 M Dy + (i - 24 * dayOfYear0 M Dy) = i := by omega
    rw [e] at hwx
    have hx' := hcells' i x h1 (by omega) hx
    obtain ⟨a6, a7, a8, a21⟩ := hwx
    obtain ⟨b6, b7, b8, b21⟩ := hx'
    rcases hcol with rfl | rfl | rfl | rfl
    · rw [a6, b6]
    · rw [a7, b7]
    · rw [a8, b8]
    · rw [a21, b21]
  · rw [hother i j hin, hother' i j (by rw [hrl]; exact hin), hij]

/-! ## Non-vacuity: a tiny concrete rural file through the whole pipeline (evaluated by the kernel over ℚ)

The small city of `Props/Step.lean` (`exCfg`, `exState`), the shared stub symbols, a rural file of 8 header lines
(LOCATION line with site 1.0 / 104.0 / 8.0, a ground line with three depths, a quoted comment cell) and 24 identical
data rows of 22 cells whose wind-direction cell is EMPTY (text, never read) and whose wind 0.5 lies below the minimum
wind 1 (the RH cell is 11646 because the stub `exp`/`log` make the humidity function numerically meaningless; it
gives a ratio of about 0.015). The kernel can evaluate ONE hour (`pipelineCore … hours = 1`, one pass at
`dt = 3600`): exact rationals of a whole day of passes are out of reach, so `pipeline … = ok` for a full day is
exhibited by the harness in floating point only (C01's end-to-end runs), not here. -/

def exRowCells : Csv.Row :=
  ["1989", "1", "1", "1", "60", "flags", "30.0", "20", "11646", "101325", "0", "0", "400", "0", "500", "150", "0",
   "0", "0", "0", "", "0.5"].map String.toList

def exHdr : List Csv.Row :=
  [["LOCATION", "X", "-", "-", "-", "-", "1.0", "104.0", "8.0", "0"],
   ["D"], ["T"],
   ["GROUND TEMPERATURES", "3", ".5", "", "", "", "26", "26", "26", "26", "26", "26", "26", "26", "26", "26", "26",
    "26", "2", "", "", "", "25.85", "25.85", "25.85", "25.85", "25.85", "25.85", "25.85", "25.85", "25.85", "25.85",
    "25.85", "25.85", "4", "", "", "", "24.85", "24.85", "24.85", "24.85", "24.85", "24.85", "24.85", "24.85",
    "24.85", "24.85", "24.85", "24.85"],
   ["H"], ["C", "a,b"], ["C"], ["P"]].map (·.map String.toList)

def exRows : List Csv.Row := List.replicate 24 exRowCells

/-- The standing hypotheses hold for this file and a one-day run from 1 January at `dt = 3600`. -/
example : ValidRun 3600 1 1 1 ∧ WellFormed exHdr exRows 1 1 1 := by
  refine ⟨⟨by decide, by decide, by decide, by decide, by decide⟩, ⟨by decide, by decide, ?_, ?_, ?_⟩⟩
  · intro i r _ _ hr
    have : r ∈ exRows := List.mem_of_getElem? hr
    rw [List.eq_of_mem_replicate this]
    decide
  · decide +kernel
  · decide +kernel

/-- `generate(); simulate()` for the first hour returns one record; the pavement (0.5 m) reaches the first depth
    (0.5 m): deep temperature = January cell of record 0 + 273.15 = 299.15 K, ground water = January cell of
    record 2 + 273.15 = 298 K; the recorded wind is the minimum wind. -/
example : (match pipelineSim stubQ exCfg (fun _ => exState) (1 / 2) 1 1600000 3600 1 1 1 1 exHdr exRows with
    | .ok (s, recs) => decide (recs.length = 1) && (recs.all fun r => decide (r.wind = ⟨1, 1⟩)) &&
        decide (s.forc.deepTemp = 29915 / 100) && decide (s.forc.waterTemp = 298)
    | .error _ => false) = true := by
  decide +kernel

/-- The whole pipeline for the first hour writes a file of 32 lines that reads back with the wind cell of the
    first window row rewritten to the minimum wind (`1.0`), the next row untouched (`0.5`) and the quoted header
    cell intact. -/
example : ((pipelineCore stubQ exCfg (fun _ => exState) (1 / 2) 1 1600000 3600 1 1 1 1 1 exHdr exRows).toOption.map
    fun t => ((parseFile t).length, cellAt (parseFile t) 8 21, cellAt (parseFile t) 9 21,
      cellAt (parseFile t) 5 1)) =
    some (32, some "1.0".toList, some "0.5".toList, some "a,b".toList) := by
  decide +kernel

/-- Fail-stop on the same file: text in the wind cell of the first row stops `generate()` (`UCMDef`), text in the
    infrared cell stops the first pass, a road below the deepest depth is refused. -/
example :
    (match pipelineSim stubQ exCfg (fun _ => exState) (1 / 2) 1 1600000 3600 1 1 1 1 exHdr
        ((exRowCells.set 21 "x".toList) :: exRows.drop 1) with
      | .error .initWind => true
      | _ => false) = true ∧
    (match pipelineSim stubQ exCfg (fun _ => exState) (1 / 2) 1 1600000 3600 1 1 1 1 exHdr
        ((exRowCells.set 12 [] ) :: exRows.drop 1) with
      | .error (.sim (.phys .type)) => true
      | _ => false) = true ∧
    (match pipelineSim stubQ exCfg (fun _ => exState) 5 1 1600000 3600 1 1 1 1 exHdr exRows with
      | .error (.column .refused) => true
      | _ => false) = true := by
  refine ⟨?_, ?_, ?_⟩ <;> decide +kernel

end Uwg.Pipeline
