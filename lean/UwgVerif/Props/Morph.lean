/-
Composition A - the morphing pipeline `generate(); simulate(); write_epw()` as one function.

End-to-end statements about `Morph.morph` (Model/Morph.lean), obtained by joining
  C01 `write_preserves`                (text layer of `write_epw`),
  C02 `records_eq`, `written_row_stamp` (which step fills which record, which row it is written to),
  C03 `causal`                         (records 0..h depend on rural rows 0..h only),
  C10 `records_complete_on_return`     (a returning run has all 24·days records),
for EVERY physics `P` whose hourly record is the quadruple of written values.

Standing hypotheses: `ValidRun` (calendar start date, positive timestep dividing one hour, at least one
day, window inside the year) and `WellFormed` (8 header rows, the window lies inside the data rows, window
rows have at least 22 cells, no line break inside a cell, no row that is a single empty cell).
-/
import UwgVerif.Lemmas.Morph
import UwgVerif.Props.C01
import UwgVerif.Props.C03

namespace Uwg.Morph
open Uwg Uwg.Csv Uwg.Sim Uwg.C02 Uwg.C01

variable {S R D E : Type}

/-- The run parameters are acceptable: calendar start date, timestep positive and dividing one hour,
    at least one day, window inside the (non-leap) year. -/
structure ValidRun (dt M Dy days : Nat) : Prop where
  date : validDate M Dy
  dvd : dt ∣ 3600
  pos : 0 < dt
  days_pos : 0 < days
  inYear : dayOfYear0 M Dy + days ≤ 365

/-- The rural file is well-formed for this window. -/
structure WellFormed (hdr rows : List Row) (M Dy days : Nat) : Prop where
  hdr8 : hdr.length = 8
  fits : 24 * (dayOfYear0 M Dy + days) ≤ rows.length
  wide : ∀ i r, 24 * dayOfYear0 M Dy ≤ i → i < 24 * dayOfYear0 M Dy + 24 * days →
    rows[i]? = some r → 22 ≤ r.length
  nonl : ∀ r ∈ hdr ++ rows, ∀ c ∈ r, '\n' ∉ c ∧ '\r' ∉ c
  nosingle : ∀ r ∈ hdr ++ rows, r ≠ [[]]

/-- The four rewritten cells of data row `i` of `out` are the formatted values of `x`. -/
def WrittenAt (out : List Row) (i : Nat) (x : Res) (p : Nat) : Prop :=
  cellAt out i 6 = some (fmtFrac x.tdb p) ∧ cellAt out i 7 = some (fmtFrac x.tdp p) ∧
  cellAt out i 8 = some (fmtFrac x.rh p) ∧ cellAt out i 21 = some (fmtFrac x.wind p)

/-- Column `j` is one of the four columns `write_epw` rewrites. -/
def IsWrittenCol (j : Nat) : Prop := j = 6 ∨ j = 7 ∨ j = 8 ∨ j = 21

/-! ### The pipeline under the standing hypotheses -/

private theorem weatherOk_window (hdr rows : List Row) (dt M Dy days : Nat) (hv : ValidRun dt M Dy days)
    (hw : WellFormed hdr rows M Dy days) : weatherOk (window M Dy days rows) = true := by
  have hj := julian_eq hv.date
  have hlen := window_length M Dy days rows (by rw [hj]; exact hw.fits)
  unfold weatherOk
  rw [Bool.and_eq_true]
  constructor
  · have : window M Dy days rows ≠ [] := by
      intro h0
      rw [h0] at hlen
      have := hv.days_pos
      simp at hlen
      omega
    simpa [List.isEmpty_iff] using this
  · rw [List.all_eq_true]
    intro r hr
    obtain ⟨n, hn⟩ := List.getElem?_of_mem hr
    have hlt : n < 24 * days := by
      rw [← hlen]
      rcases Nat.lt_or_ge n (window M Dy days rows).length with h | h
      · exact h
      · rw [List.getElem?_eq_none_iff.2 h] at hn; cases hn
    rw [window_getElem? M Dy days rows n hlt, hj] at hn
    exact decide_eq_true (hw.wide _ r (by omega) (by omega) hn)

/-- **Anatomy of a well-formed run.** Under the standing hypotheses the pipeline has exactly two
    outcomes: either `simulate` returns with exactly `24·days` records, record `n` made by `P.record`
    from window row `n` (data row `24·j₀ + n`), `write_epw` succeeds on them and `morph` returns its
    text; or the physics raised and `morph` reports that exception. -/
theorem morph_cases (P : Phys S R D Res E) (b : Bool) (table : Nat → D) (mean : List R → D)
    (proj : Row → R) (init : Option R → S) (dt M Dy days p : Nat) (hdr rows : List Row)
    (hv : ValidRun dt M Dy days) (hw : WellFormed hdr rows M Dy days) :
    (∃ s recs text, simulateFile P b table mean proj dt M Dy days rows init = .ok (s, recs) ∧
      recs.length = 24 * days ∧
      (∀ n, n < 24 * days → ∃ s1 t r, rows[24 * dayOfYear0 M Dy + n]? = some r ∧
        recs[n]? = some (P.record s1 t (proj r))) ∧
      writeEpw hdr rows (24 * dayOfYear0 M Dy) recs p = some text ∧
      morph P b table mean proj init dt M Dy days p hdr rows = .ok text) ∨
    (∃ recs pe, simulateFile P b table mean proj dt M Dy days rows init = .error (recs, .phys pe) ∧
      morph P b table mean proj init dt M Dy days p hdr rows = .error (.sim (.phys pe))) := by
  have hj := julian_eq hv.date
  have hcreate := (C04.create_ok_iff dt M Dy).2 ⟨hv.pos, hv.dvd⟩
  have hwok := weatherOk_window hdr rows dt M Dy days hv hw
  have hlen := window_length M Dy days rows (by rw [hj]; exact hw.fits)
  have hstart : startRow M Dy = 24 * dayOfYear0 M Dy := by rw [startRow_eq, hj]
  have hvalid : Valid ⟨dt, M, Dy, days, ((window M Dy days rows).map proj).length⟩ :=
    ⟨hv.date, hv.dvd, hv.pos, hv.inYear, by simp [hlen]⟩
  have hmorph : morph P b table mean proj init dt M Dy days p hdr rows =
      match simulateFile P b table mean proj dt M Dy days rows init with
      | .error x => .error (.sim x.2)
      | .ok x =>
        match writeEpw hdr rows (24 * dayOfYear0 M Dy) x.2 p with
        | none => .error .write
        | some text => .ok text := by
    unfold morph
    rw [hcreate]
    simp only [hwok, if_true, hstart]
    rfl
  rcases simulate_valid P (if b then Soil.monthly table else Soil.windowMean
      (mean ((window M Dy days rows).map proj))) dt M Dy days ((window M Dy days rows).map proj)
      (init ((window M Dy days rows).map proj).head?) hvalid with
    ⟨s, recs, hsim, hrl, hat⟩ | ⟨recs, pe, hsim⟩
  · left
    have hsf : simulateFile P b table mean proj dt M Dy days rows init = .ok (s, recs) := hsim
    obtain ⟨text, rows', hwr, _⟩ := write_preserves hdr rows (24 * dayOfYear0 M Dy) recs p hw.hdr8
      (by have := hw.fits; omega) (fun i r h1 h2 h3 => hw.wide i r h1 (by omega) h3) hw.nonl hw.nosingle
    refine ⟨s, recs, text, hsf, hrl, ?_, hwr, ?_⟩
    · intro n hn
      obtain ⟨s1, t, r, h1, h2⟩ := hat n hn
      rw [List.getElem?_map, window_getElem? M Dy days rows n hn, hj] at h1
      cases hr : rows[24 * dayOfYear0 M Dy + n]? with
      | none => simp [hr] at h1
      | some r0 =>
        simp only [hr, Option.map_some, Option.some.injEq] at h1
        exact ⟨s1, t, r0, rfl, by rw [h2, h1]⟩
    · rw [hmorph, hsf]
      simp only [hwr]
  · right
    have hsf : simulateFile P b table mean proj dt M Dy days rows init = .error (recs, .phys pe) := hsim
    exact ⟨recs, pe, hsf, by rw [hmorph, hsf]⟩

/-- **`morph_total`.** With valid parameters and a well-formed file the pipeline either writes a file
    or reports an exception raised by the physics: no other failure (timestep, missing forcing row,
    index error while reading or writing) is possible. -/
theorem morph_total (P : Phys S R D Res E) (b : Bool) (table : Nat → D) (mean : List R → D)
    (proj : Row → R) (init : Option R → S) (dt M Dy days p : Nat) (hdr rows : List Row)
    (hv : ValidRun dt M Dy days) (hw : WellFormed hdr rows M Dy days) :
    (∃ text, morph P b table mean proj init dt M Dy days p hdr rows = .ok text) ∨
    (∃ pe, morph P b table mean proj init dt M Dy days p hdr rows = .error (.sim (.phys pe))) := by
  rcases morph_cases P b table mean proj init dt M Dy days p hdr rows hv hw with
    ⟨_, _, text, _, _, _, _, h⟩ | ⟨_, pe, _, h⟩
  · exact .inl ⟨text, h⟩
  · exact .inr ⟨pe, h⟩

/-! ### A1 - preservation -/

/-- **`morph_preserves`.** Whenever the pipeline writes a file, reading the written text back gives the
    8 header rows unchanged followed by data rows `out` with the same number of rows and, row by row,
    the same number of cells as the rural file; `simulate` returned exactly `N = 24·days` records; for
    EVERY hour `n < N` the cells 6, 7, 8, 21 of data row `24·j₀ + n` are the formatted values of record
    `n` (so no row of the window keeps its rural value by omission); and every other cell of every row
    - all columns of the rows outside `24·j₀ … 24·j₀ + N − 1`, all other columns inside - is identical
    to the rural cell. -/
theorem morph_preserves (P : Phys S R D Res E) (b : Bool) (table : Nat → D) (mean : List R → D)
    (proj : Row → R) (init : Option R → S) (dt M Dy days p : Nat) (hdr rows : List Row)
    (text : List Char) (hv : ValidRun dt M Dy days) (hw : WellFormed hdr rows M Dy days)
    (h : morph P b table mean proj init dt M Dy days p hdr rows = .ok text) :
    ∃ (out : List Row) (recs : List Res),
      parseFile text = hdr ++ out ∧
      out.length = rows.length ∧
      (∀ i : Nat, (out[i]?).map List.length = (rows[i]?).map List.length) ∧
      (∃ s, simulateFile P b table mean proj dt M Dy days rows init = .ok (s, recs)) ∧
      recs.length = 24 * days ∧
      (∀ n, n < 24 * days → ∃ x, recs[n]? = some x ∧ WrittenAt out (24 * dayOfYear0 M Dy + n) x p) ∧
      (∀ i j : Nat, ¬ (24 * dayOfYear0 M Dy ≤ i ∧ i < 24 * dayOfYear0 M Dy + 24 * days ∧ IsWrittenCol j) →
        cellAt out i j = cellAt rows i j) := by
  rcases morph_cases P b table mean proj init dt M Dy days p hdr rows hv hw with
    ⟨s, recs, text', hsf, hrl, _, hwr, hm⟩ | ⟨_, pe, _, hm⟩
  · rw [hm] at h
    cases h
    obtain ⟨text'', out, hwr', hparse, hlen, hlens, hcells, hother⟩ :=
      write_preserves hdr rows (24 * dayOfYear0 M Dy) recs p hw.hdr8
        (by have := hw.fits; omega) (fun i r h1 h2 h3 => hw.wide i r h1 (by omega) h3) hw.nonl hw.nosingle
    rw [hwr] at hwr'
    cases hwr'
    refine ⟨out, recs, hparse, hlen, hlens, ⟨s, hsf⟩, hrl, ?_, ?_⟩
    · intro n hn
      have hlt : n < recs.length := by omega
      refine ⟨recs[n], List.getElem?_eq_getElem hlt, ?_⟩
      have := hcells (24 * dayOfYear0 M Dy + n) recs[n] (by omega) (by omega)
        (by rw [Nat.add_sub_cancel_left]; exact List.getElem?_eq_getElem hlt)
      exact this
    · intro i j hnot
      apply hother i j
      rw [hrl]
      exact hnot
  · rw [hm] at h
    cases h

/-! ### A2 - causality -/

private theorem getElem?_of_take_eq' {α : Type} {l l' : List α} {k i : Nat}
    (h : l.take k = l'.take k) (hi : i < k) : l[i]? = l'[i]? := by
  have h1 : (l.take k)[i]? = l[i]? := by rw [List.getElem?_take]; simp [hi]
  have h2 : (l'.take k)[i]? = l'[i]? := by rw [List.getElem?_take]; simp [hi]
  rw [← h1, ← h2, h]

/-- **`morph_causal`.** For rural files with at least three ground depths (deep temperature = monthly
    table of the header): if two well-formed rural files (headers and all other rows arbitrary) have
    windows whose rows `0 … h` agree in the modelled columns, and the pipeline writes a file for both,
    then the rewritten cells (columns 6, 7, 8, 21) of the window rows `0 … h` are the same in the two
    written files. Whatever the rural rows after hour `h` contain, it does not reach hour `h`. -/
theorem morph_causal (P : Phys S R D Res E) (table : Nat → D) (mean : List R → D)
    (proj : Row → R) (init : Option R → S) (dt M Dy days p : Nat) (hdr hdr' rows rows' : List Row)
    (text text' : List Char) (h : Nat)
    (hv : ValidRun dt M Dy days) (hw : WellFormed hdr rows M Dy days) (hw' : WellFormed hdr' rows' M Dy days)
    (hh : h < 24 * days)
    (hagree : ((window M Dy days rows).map proj).take (h + 1) =
      ((window M Dy days rows').map proj).take (h + 1))
    (hm : morph P true table mean proj init dt M Dy days p hdr rows = .ok text)
    (hm' : morph P true table mean proj init dt M Dy days p hdr' rows' = .ok text') :
    ∃ out out' : List Row, parseFile text = hdr ++ out ∧ parseFile text' = hdr' ++ out' ∧
      ∀ n j, n ≤ h → IsWrittenCol j →
        cellAt out (24 * dayOfYear0 M Dy + n) j = cellAt out' (24 * dayOfYear0 M Dy + n) j := by
  obtain ⟨out, recs, hparse, _, _, ⟨s, hsf⟩, hrl, hcells, _⟩ :=
    morph_preserves P true table mean proj init dt M Dy days p hdr rows text hv hw hm
  obtain ⟨out', recs', hparse', _, _, ⟨s', hsf'⟩, hrl', hcells', _⟩ :=
    morph_preserves P true table mean proj init dt M Dy days p hdr' rows' text' hv hw' hm'
  refine ⟨out, out', hparse, hparse', ?_⟩
  have hj := julian_eq hv.date
  have hlen := window_length M Dy days rows (by rw [hj]; exact hw.fits)
  have hlen' := window_length M Dy days rows' (by rw [hj]; exact hw'.fits)
  have hhead : ((window M Dy days rows).map proj).head? = ((window M Dy days rows').map proj).head? := by
    have := getElem?_of_take_eq' hagree (Nat.succ_pos h)
    simpa [List.head?_eq_getElem?] using this
  have hcausal := C03.causal P table dt M Dy days ((window M Dy days rows).map proj)
    ((window M Dy days rows').map proj) (init ((window M Dy days rows).map proj).head?) h
    ⟨hv.date, hv.dvd, hv.pos, hv.inYear, by simp [hlen]⟩
    ⟨hv.date, hv.dvd, hv.pos, hv.inYear, by simp [hlen']⟩ hh hagree
  have e1 : simulate P (.monthly table) dt M Dy days ((window M Dy days rows).map proj)
      (init ((window M Dy days rows).map proj).head?) = .ok (s, recs) := hsf
  have e2 : simulate P (.monthly table) dt M Dy days ((window M Dy days rows').map proj)
      (init ((window M Dy days rows).map proj).head?) = .ok (s', recs') := by
    rw [hhead]; exact hsf'
  rw [e1, e2] at hcausal
  simp only [recordsOf] at hcausal
  intro n j hn hcol
  obtain ⟨x, hx, hwx⟩ := hcells n (by omega)
  obtain ⟨x', hx', hwx'⟩ := hcells' n (by omega)
  have : recs[n]? = recs'[n]? := getElem?_of_take_eq' hcausal (by omega)
  rw [hx, hx'] at this
  cases this
  obtain ⟨a6, a7, a8, a21⟩ := hwx
  obtain ⟨b6, b7, b8, b21⟩ := hwx'
  rcases hcol with rfl | rfl | rfl | rfl
  · rw [a6, b6]
  · rw [a7, b7]
  · rw [a8, b8]
  · rw [a21, b21]

/-- `morph_causal` for files that agree on the window rows `0 … h` themselves. -/
theorem morph_causal_rows (P : Phys S R D Res E) (table : Nat → D) (mean : List R → D)
    (proj : Row → R) (init : Option R → S) (dt M Dy days p : Nat) (hdr hdr' rows rows' : List Row)
    (text text' : List Char) (h : Nat)
    (hv : ValidRun dt M Dy days) (hw : WellFormed hdr rows M Dy days) (hw' : WellFormed hdr' rows' M Dy days)
    (hh : h < 24 * days)
    (hagree : ∀ n, n ≤ h → rows[24 * dayOfYear0 M Dy + n]? = rows'[24 * dayOfYear0 M Dy + n]?)
    (hm : morph P true table mean proj init dt M Dy days p hdr rows = .ok text)
    (hm' : morph P true table mean proj init dt M Dy days p hdr' rows' = .ok text') :
    ∃ out out' : List Row, parseFile text = hdr ++ out ∧ parseFile text' = hdr' ++ out' ∧
      ∀ n j, n ≤ h → IsWrittenCol j →
        cellAt out (24 * dayOfYear0 M Dy + n) j = cellAt out' (24 * dayOfYear0 M Dy + n) j := by
  apply morph_causal P table mean proj init dt M Dy days p hdr hdr' rows rows' text text' h hv hw hw' hh _ hm hm'
  have hj := julian_eq hv.date
  apply List.ext_getElem?
  intro i
  rw [List.getElem?_take, List.getElem?_take]
  by_cases hi : i < h + 1
  · simp only [hi, if_true, List.getElem?_map]
    rw [window_getElem? M Dy days rows i (by omega), window_getElem? M Dy days rows' i (by omega), hj,
      hagree i (by omega)]
  · simp [hi]

/-! ### A3 - the row written for hour `n` -/

/-- **`morph_row_stamp`.** Whenever the pipeline writes a file, record `n` (the canyon state at the end
    of hour `n` of the run) is written to data row `writeRow M D n = 24·j₀ + n`, and - if the rural file
    carries the conventional hour-ending stamps (row `k` has month, day, hour of `stamp k` in columns
    1, 2, 3, spelt by any `enc`; checked per file by the harness) - that output row still carries, in
    columns 1, 2, 3, the calendar date of the instant `start + n hours` with hour number
    `hour(start + n h) + 1`: the row written for hour `n` is the row stamped start + n hours. -/
theorem morph_row_stamp (P : Phys S R D Res E) (b : Bool) (table : Nat → D) (mean : List R → D)
    (proj : Row → R) (init : Option R → S) (dt M Dy days p : Nat) (hdr rows : List Row)
    (text : List Char) (enc : Nat → Cell)
    (hv : ValidRun dt M Dy days) (hw : WellFormed hdr rows M Dy days)
    (hst : ∀ k, k < rows.length → cellAt rows k 1 = some (enc (stamp k).1) ∧
      cellAt rows k 2 = some (enc (stamp k).2.1) ∧ cellAt rows k 3 = some (enc (stamp k).2.2))
    (h : morph P b table mean proj init dt M Dy days p hdr rows = .ok text) :
    ∃ (out : List Row) (recs : List Res), parseFile text = hdr ++ out ∧
      (∃ s, simulateFile P b table mean proj dt M Dy days rows init = .ok (s, recs)) ∧
      ∀ n, n < 24 * days → ∃ x, recs[n]? = some x ∧
        writeRow M Dy n = 24 * dayOfYear0 M Dy + n ∧
        WrittenAt out (writeRow M Dy n) x p ∧
        cellAt out (writeRow M Dy n) 1 =
          some (enc (trueCalendar (dayOfYear0 M Dy * 86400 + n * 3600)).month) ∧
        cellAt out (writeRow M Dy n) 2 =
          some (enc (trueCalendar (dayOfYear0 M Dy * 86400 + n * 3600)).day) ∧
        cellAt out (writeRow M Dy n) 3 =
          some (enc ((trueCalendar (dayOfYear0 M Dy * 86400 + n * 3600)).hourDay + 1)) := by
  obtain ⟨out, recs, hparse, _, _, hsf, _, hcells, hother⟩ :=
    morph_preserves P b table mean proj init dt M Dy days p hdr rows text hv hw h
  refine ⟨out, recs, hparse, hsf, ?_⟩
  intro n hn
  obtain ⟨x, hx, hwx⟩ := hcells n hn
  obtain ⟨_, hrow, hstamp⟩ := written_row_stamp M Dy n hv.date
  have hlt : 24 * dayOfYear0 M Dy + n < rows.length := by have := hw.fits; omega
  obtain ⟨s1, s2, s3⟩ := hst _ hlt
  rw [← hrow, hstamp] at s1 s2 s3
  refine ⟨x, hx, hrow, by rw [hrow]; exact hwx, ?_, ?_, ?_⟩
  · rw [hother (writeRow M Dy n) 1 (by unfold IsWrittenCol; omega)]; exact s1
  · rw [hother (writeRow M Dy n) 2 (by unfold IsWrittenCol; omega)]; exact s2
  · rw [hother (writeRow M Dy n) 3 (by unfold IsWrittenCol; omega)]; exact s3

/-! ### A4 - the wind column -/

/-- **`morph_wind`.** Hypothesis on the physics, stated explicitly: its record copies the forcing wind
    as the real `simulate` does (`forc.wind = max(forcIP.wind[row], windMin)`, `WeatherData[n] =
    copy(forc)`), i.e. `(P.record s t r).wind = toFrac (max (windOf r) windMin)` for the rural row `r`
    the step read. Then, whenever the pipeline writes a file, the wind cell (column 21) of data row
    `24·j₀ + n` is `fmtFrac (toFrac (max wind[n] windMin))`, where `wind[n]` is the wind of rural row
    `24·j₀ + n` itself: hour `n` gets the wind of its own rural row, raised to the minimum wind. -/
theorem morph_wind {W : Type} [Max W] (P : Phys S R D Res E) (b : Bool) (table : Nat → D)
    (mean : List R → D) (proj : Row → R) (init : Option R → S) (dt M Dy days p : Nat)
    (hdr rows : List Row) (text : List Char) (windOf : R → W) (toFrac : W → Frac) (windMin : W)
    (hrec : ∀ s t r, (P.record s t r).wind = toFrac (max (windOf r) windMin))
    (hv : ValidRun dt M Dy days) (hw : WellFormed hdr rows M Dy days)
    (h : morph P b table mean proj init dt M Dy days p hdr rows = .ok text) :
    ∃ out : List Row, parseFile text = hdr ++ out ∧
      ∀ n, n < 24 * days → ∃ r, rows[24 * dayOfYear0 M Dy + n]? = some r ∧
        cellAt out (24 * dayOfYear0 M Dy + n) 21 =
          some (fmtFrac (toFrac (max (windOf (proj r)) windMin)) p) := by
  obtain ⟨out, recs, hparse, _, _, ⟨s, hsf⟩, _, hcells, _⟩ :=
    morph_preserves P b table mean proj init dt M Dy days p hdr rows text hv hw h
  refine ⟨out, hparse, ?_⟩
  rcases morph_cases P b table mean proj init dt M Dy days p hdr rows hv hw with
    ⟨s', recs', _, hsf', _, hat, _, _⟩ | ⟨_, pe, hsf', _⟩
  · rw [hsf] at hsf'
    cases hsf'
    intro n hn
    obtain ⟨s1, t, r, hr, hx⟩ := hat n hn
    obtain ⟨x, hx', hwx⟩ := hcells n hn
    rw [hx] at hx'
    cases hx'
    exact ⟨r, hr, by rw [hwx.2.2.2, hrec]⟩
  · rw [hsf] at hsf'
    cases hsf'

/-! ### A5 - fail-stop -/

/-- **`morph_fail_stop`.** If the timestep is zero or does not divide one hour, or `simulate` raises
    (the physics raised, or a forcing row is missing because the window runs past the file), the
    pipeline yields no file - for any file and any parameters, no hypothesis on well-formedness. -/
theorem morph_fail_stop (P : Phys S R D Res E) (b : Bool) (table : Nat → D) (mean : List R → D)
    (proj : Row → R) (init : Option R → S) (dt M Dy days p : Nat) (hdr rows : List Row)
    (hbad : ¬ (0 < dt ∧ dt ∣ 3600) ∨
      ∃ x, simulateFile P b table mean proj dt M Dy days rows init = .error x) :
    ∃ e, morph P b table mean proj init dt M Dy days p hdr rows = .error e := by
  unfold morph
  cases hc : Clock.create dt M Dy with
  | error e => exact ⟨.timestep e, rfl⟩
  | ok c =>
    simp only []
    rcases hbad with hdt | ⟨x, hx⟩
    · exfalso
      apply hdt
      unfold Clock.create at hc
      by_cases h0 : dt = 0
      · simp [h0] at hc
      · by_cases hm : 3600 % dt = 0
        · exact ⟨Nat.pos_of_ne_zero h0, Nat.dvd_of_mod_eq_zero hm⟩
        · simp [h0, hm] at hc
    · by_cases hwk : weatherOk (window M Dy days rows) = true
      · rw [if_pos hwk, hx]
        exact ⟨.sim x.2, rfl⟩
      · rw [if_neg hwk]
        exact ⟨.weather, rfl⟩

/-- The refused timestep is reported as such, before any row of the file is looked at. -/
theorem morph_timestep_refused (P : Phys S R D Res E) (b : Bool) (table : Nat → D) (mean : List R → D)
    (proj : Row → R) (init : Option R → S) (dt M Dy days p : Nat) (hdr rows : List Row)
    (hbad : ¬ (0 < dt ∧ dt ∣ 3600)) :
    ∃ e, morph P b table mean proj init dt M Dy days p hdr rows = .error (.timestep e) := by
  unfold morph Clock.create
  by_cases h0 : dt = 0
  · exact ⟨.zerodiv, by simp [h0]⟩
  · by_cases hm : 3600 % dt = 0
    · exact absurd ⟨Nat.pos_of_ne_zero h0, Nat.dvd_of_mod_eq_zero hm⟩ hbad
    · exact ⟨.timestep, by simp [h0, hm]⟩

/-! ### Non-vacuity -/

/-- A concrete run and file meeting the standing hypotheses (1 January, one day, dt = 300 s; 24 data rows
    of 22 cells, header cells with a comma), a physics that never raises: the pipeline writes a file. -/
example :
    let rows : List Row := List.replicate 24 (List.replicate 22 ['0'])
    let hdr : List Row := List.replicate 8 [['H'], ['x', ',', 'y']]
    let P : Phys Nat Nat Nat Res Unit :=
      { step := fun s _ r _ => .ok (s + r), record := fun s _ _ => ⟨⟨s, 1⟩, ⟨1, 2⟩, ⟨50, 1⟩, ⟨3, 1⟩⟩ }
    ValidRun 300 1 1 1 ∧ WellFormed hdr rows 1 1 1 ∧
    ∃ text, morph P true (fun m => m) (fun _ => 0) (fun r => r.length) (fun _ => 0) 300 1 1 1 1 hdr rows
      = .ok text := by
  intro rows hdr P
  have hv : ValidRun 300 1 1 1 := ⟨by decide, by decide, by decide, by decide, by decide⟩
  have hw : WellFormed hdr rows 1 1 1 := by
    refine ⟨by decide, by decide, ?_, ?_, ?_⟩
    · intro i r _ _ hr
      have : r ∈ rows := List.mem_of_getElem? hr
      rw [List.eq_of_mem_replicate this]
      decide
    · intro r hr c hc
      rcases List.mem_append.1 hr with hr | hr
      · rw [List.eq_of_mem_replicate hr] at hc
        simp only [List.mem_cons, List.mem_nil_iff, or_false] at hc
        rcases hc with rfl | rfl <;> decide
      · rw [List.eq_of_mem_replicate hr] at hc
        rw [List.eq_of_mem_replicate hc]
        decide
    · intro r hr
      rcases List.mem_append.1 hr with hr | hr
      · rw [List.eq_of_mem_replicate hr]; decide
      · rw [List.eq_of_mem_replicate hr]; decide
  refine ⟨hv, hw, ?_⟩
  rcases morph_total P true (fun m => m) (fun _ => 0) (fun r => r.length) (fun _ => 0) 300 1 1 1 1 hdr rows
    hv hw with h | ⟨pe, h⟩
  · exact h
  · exfalso
    rcases morph_cases P true (fun m => m) (fun _ => 0) (fun r => r.length) (fun _ => 0) 300 1 1 1 1 hdr rows
      hv hw with ⟨_, _, _, _, _, _, _, h'⟩ | ⟨recs, pe', hsf, _⟩
    · rw [h] at h'; cases h'
    · -- the physics never raises
      have : ∀ (tr : List StepTrace) (rws : List Nat) (s : Nat) (acc acc' : List Res) (e : Unit),
          runSteps P (deepAt (Soil.monthly (fun m => m))) rws tr s acc ≠ .error (acc', .phys e) := by
        intro tr
        induction tr with
        | nil => intro rws s acc acc' e hh; simp [runSteps] at hh
        | cons t ts ih =>
          intro rws s acc acc' e hh
          simp only [runSteps] at hh
          cases hr : rws[t.row]? with
          | none => simp [hr] at hh
          | some r =>
            simp only [hr] at hh
            exact ih rws _ _ acc' e hh
      unfold simulateFile simulate at hsf
      simp only [] at hsf
      cases hc : Clock.create 300 1 1 with
      | error e => cases e <;> simp [hc] at hsf
      | ok c0 =>
        simp only [hc] at hsf
        split at hsf
        · rename_i x hx
          simp only [if_true] at hx
          cases hsf
          exact this _ _ _ _ _ _ hx
        · split at hsf <;> simp at hsf

end Uwg.Morph
