/-
C13 — Canyon short-wave and long-wave exchange never creates energy.

Property theorems only (helpers in `Lemmas/Canyon.lean`, model in `Model/Canyon.lean`, whose
header defines `entering`, `absorbed`, `escaped` — all per unit length of canyon and per unit
road width; multiply by the road width `w` for totals, wall height `h = a·w`).

Everything is generic over an ordered field `K` and an arbitrary interpretation `S : Sym K` of the
libm symbols. Where a fact about a symbol is needed it is an explicit hypothesis (`s*s = a*a+1`,
`0 ≤ s` for the root; `S.pi ≠ 0`; `S.cos z ≤ 1`), so the theorems hold for the real functions and
say precisely what is used. The last section discharges those hypotheses for `realSym`.

Status of the property on the code as it stands:
* view factors, beam partition, non-negativity, no-sun branch, long-wave antisymmetry and
  equilibrium: **proved** of the model of the code;
* "total absorbed short-wave never exceeds what enters the canyon": **false** of the coded
  reflection closure (`asis_creates_energy`), exactly when `cR > 1`
  (`absorbed_le_entering_iff`, `cB_le_one`); **proved** of the radiosity closure
  `Closure.spec` (`absorbed_le_entering_spec`, `solar_absorbed_le_incoming_spec`).
-/
import UwgVerif.Lemmas.Canyon
import UwgVerif.Model.SymbolsReal
import Mathlib.Analysis.SpecialFunctions.Trigonometric.Bounds

namespace Uwg.C13
open Uwg Uwg.Canyon
variable {K : Type} [Field K] [LinearOrder K] [IsStrictOrderedRing K]

/-! ## T0 — admissible geometry gives a positive canyon -/

/-- Every positive building height, density strictly between 0 and 1 and positive facade ratio
    makes `UCMDef.__init__` succeed with a positive canyon width and a positive aspect ratio
    (`r` is the value the symbol `sqrt` returns for the density; it is assumed to be the true
    positive root). -/
theorem geometry_positive (S : Sym K) (h dens vth tree veg : K)
    (hh : 0 < h) (hd0 : 0 < dens) (hd1 : dens < 1) (hv : 0 < vth)
    (hr : S.sqrt dens * S.sqrt dens = dens) (hr0 : 0 < S.sqrt dens) :
    ∃ g, ucmGeometry S h dens vth tree veg = .ok g ∧ 0 < g.canWidth ∧ 0 < g.canAspect ∧
      h = g.canAspect * g.canWidth := by
  unfold ucmGeometry
  simp only
  generalize S.sqrt dens = r at hr hr0 ⊢
  have hr1 : r < 1 := by
    by_contra hc
    have : 1 * 1 ≤ r * r := mul_self_le_mul_self (by norm_num) (not_lt.mp hc)
    linarith
  have hbw : 0 < 4 * h * dens / vth := by positivity
  have hcw : 0 < 4 * h * dens / vth / r - 4 * h * dens / vth := by
    have : 4 * h * dens / vth / r - 4 * h * dens / vth = 4 * h * dens / vth * ((1 - r) / r) := by
      field_simp
    rw [this]
    have : 0 < (1 - r) / r := div_pos (by linarith) hr0
    positivity
  have ha : 0 < h / (4 * h * dens / vth / r - 4 * h * dens / vth) := div_pos hh hcw
  rw [if_neg (by linarith : ¬ (1 - dens = 0)), if_neg hv.ne', if_neg (not_lt.mpr hd0.le),
    if_neg hr0.ne', if_neg hcw.ne', if_neg ha.ne']
  refine ⟨_, rfl, hcw, ha, ?_⟩
  have := hcw.ne'
  field_simp

/-! ## T1 — view factors -/

/-- Reciprocity: (wall area 2h)·(wall→sky = wall→road view) equals (road width)·(road→walls view),
    i.e. `2·a·wallConf = 1 − roadConf`. It holds for *any* value `s` returned for the root. -/
theorem vf_reciprocity (a s : K) (ha : a ≠ 0) :
    2 * a * wallConfOf s a = 1 - roadConfOf s a := by
  unfold wallConfOf roadConfOf
  field_simp
  ring

/-- With the true root `s = √(a²+1)`: `0 < roadConf < 1` and `0 < wallConf < ½`. -/
theorem vf_bounds (a s : K) (ha : 0 < a) (hs : s * s = a * a + 1) (hs0 : 0 ≤ s) :
    0 < roadConfOf s a ∧ roadConfOf s a < 1 ∧ 0 < wallConfOf s a ∧ wallConfOf s a < 1 / 2 := by
  have h1 := root_gt a s hs hs0
  have h2 := root_lt a s ha hs
  have h3 := root_gt_one a s ha hs hs0
  unfold roadConfOf wallConfOf
  refine ⟨by linarith, by linarith, ?_, ?_⟩
  · apply div_pos _ ha
    linarith
  · rw [div_lt_iff₀ ha]
    linarith

/-- Closure of the view factors: what the road sees (sky + walls) and what a wall sees
    (sky + road + opposite wall) each sum to one, with every term non-negative. -/
theorem vf_closure (a s : K) (ha : 0 < a) (hs : s * s = a * a + 1) (hs0 : 0 ≤ s) :
    roadConfOf s a + (1 - roadConfOf s a) = 1 ∧ 0 ≤ roadConfOf s a ∧ 0 ≤ 1 - roadConfOf s a ∧
    wallConfOf s a + wallConfOf s a + (1 - 2 * wallConfOf s a) = 1 ∧ 0 ≤ wallConfOf s a ∧
    0 ≤ 1 - 2 * wallConfOf s a := by
  obtain ⟨h1, h2, h3, h4⟩ := vf_bounds a s ha hs hs0
  refine ⟨by ring, h1.le, by linarith, by ring, h3.le, by linarith⟩

/-- T1 for the object `UCMDef.__init__` builds: reciprocity always; bounds when the symbol
    `pow(·, 0.5)` returns the true root at the aspect ratio. -/
theorem vf_of_ucm (S : Sym K) (h dens vth tree veg : K) (g : Geom K)
    (hg : ucmGeometry S h dens vth tree veg = .ok g) :
    2 * g.canAspect * g.wallConf = 1 - g.roadConf ∧
    (0 < g.canAspect →
      S.rpow (g.canAspect ^ 2 + 1) (1 / 2) * S.rpow (g.canAspect ^ 2 + 1) (1 / 2)
        = g.canAspect * g.canAspect + 1 →
      0 ≤ S.rpow (g.canAspect ^ 2 + 1) (1 / 2) →
      0 < g.roadConf ∧ g.roadConf < 1 ∧ 0 < g.wallConf ∧ g.wallConf < 1 / 2) := by
  obtain ⟨_, ha, _, hr, hw, _⟩ := ucmGeometry_ok hg
  rw [hr, hw]
  exact ⟨vf_reciprocity _ _ ha, fun ha' hs hs0 => vf_bounds _ _ ha' hs hs0⟩

/-! ## T2 — beam partition -/

/-- Straight from the `min`/`abs` structure, for every aspect, sun position and symbol values:
    the road and wall fractions of the beam never add up to more than the beam, and the wall
    fraction is a fraction. -/
theorem beam_budget (S : Sym K) (a θ tz : K) :
    krTerm S a θ tz + 2 * a * kwTerm S a θ tz ≤ 1 ∧
    0 ≤ kwTerm S a θ tz ∧ kwTerm S a θ tz ≤ 1 := by
  refine ⟨?_, le_min (abs_nonneg _) zero_le_one, min_le_right _ _⟩
  have : krTerm S a θ tz ≤ 1 - 2 * a * kwTerm S a θ tz := min_le_right _ _
  linarith

/-- The unclamped expressions split the beam exactly: road share + 2a·wall share = 1 for every
    critical orientation `θ` and zenith tangent (pure algebra in the symbols). -/
theorem beam_identity (S : Sym K) (a θ tz : K) (ha : a ≠ 0) (hpi : S.pi ≠ 0) :
    krRaw S a θ tz + 2 * a * kwRaw S a θ tz = 1 := by
  unfold krRaw kwRaw
  field_simp
  ring

/-- When the unclamped road share is a genuine fraction, the clamps do not bite on the road
    (`Kr` *is* the orientation-averaged expression, in particular `Kr ≥ 0`), the wall share is the
    expression capped at 1, and unless that cap bites nothing of the beam is lost. -/
theorem beam_exact (S : Sym K) (a θ tz : K) (ha : 0 < a) (hpi : S.pi ≠ 0)
    (h0 : 0 ≤ krRaw S a θ tz) (h1 : krRaw S a θ tz ≤ 1) :
    krTerm S a θ tz = krRaw S a θ tz ∧ 0 ≤ krTerm S a θ tz ∧
    kwTerm S a θ tz = min (kwRaw S a θ tz) 1 ∧
    (kwRaw S a θ tz ≤ 1 → krTerm S a θ tz + 2 * a * kwTerm S a θ tz = 1) := by
  have hid := beam_identity S a θ tz ha.ne' hpi
  have hkw0 : 0 ≤ kwRaw S a θ tz := by
    have : 0 ≤ 2 * a * kwRaw S a θ tz := by linarith
    by_contra hc
    have hneg : kwRaw S a θ tz < 0 := not_le.mp hc
    have : 2 * a * kwRaw S a θ tz < 0 := mul_neg_of_pos_of_neg (by linarith) hneg
    linarith
  have hkw : kwTerm S a θ tz = min (kwRaw S a θ tz) 1 := by
    unfold kwTerm; rw [abs_of_nonneg hkw0]
  have hle : kwTerm S a θ tz ≤ kwRaw S a θ tz := by rw [hkw]; exact min_le_left _ _
  have hkr : krTerm S a θ tz = krRaw S a θ tz := by
    unfold krTerm
    rw [abs_of_nonneg h0]
    apply min_eq_left
    have : 2 * a * kwTerm S a θ tz ≤ 2 * a * kwRaw S a θ tz :=
      mul_le_mul_of_nonneg_left hle (by linarith)
    linarith
  refine ⟨hkr, by rw [hkr]; exact h0, hkw, fun hc => ?_⟩
  rw [hkr, hkw, min_eq_left hc]
  exact hid

omit [IsStrictOrderedRing K] in
/-- The model's own "entering" amount is the beam split plus the diffuse sky view. -/
theorem entering_eq_beam_dif (S : Sym K) (i : SolarIn K) :
    entering i.canAspect (roadSolOf S i) (bldSolOf S i) =
      horSolOf S i * (krTerm S i.canAspect i.critOrient i.tanzen +
        2 * i.canAspect * kwTerm S i.canAspect i.critOrient i.tanzen) +
      i.dif * (i.roadConf + 2 * i.canAspect * i.wallConf) := by
  unfold entering roadSolOf bldSolOf
  ring

/-- The short-wave entering the canyon never exceeds the incoming horizontal beam plus diffuse,
    and the horizontal beam never exceeds the direct-normal beam (given `cos z ≤ 1`). -/
theorem entering_le_incoming (S : Sym K) (i : SolarIn K)
    (hrec : 2 * i.canAspect * i.wallConf = 1 - i.roadConf) :
    entering i.canAspect (roadSolOf S i) (bldSolOf S i) ≤ horSolOf S i + i.dif ∧
    (0 ≤ i.dir → S.cos i.zenith ≤ 1 → horSolOf S i ≤ i.dir) := by
  constructor
  · rw [entering_eq_beam_dif]
    have hb := (beam_budget S i.canAspect i.critOrient i.tanzen).1
    have hh : 0 ≤ horSolOf S i := le_max_right _ _
    have h1 : horSolOf S i * (krTerm S i.canAspect i.critOrient i.tanzen +
        2 * i.canAspect * kwTerm S i.canAspect i.critOrient i.tanzen) ≤ horSolOf S i * 1 :=
      mul_le_mul_of_nonneg_left hb hh
    have h2 : i.roadConf + 2 * i.canAspect * i.wallConf = 1 := by linarith
    rw [h2]
    linarith
  · intro hd hc
    unfold horSolOf
    apply max_le _ hd
    calc S.cos i.zenith * i.dir ≤ 1 * i.dir := mul_le_mul_of_nonneg_right hc hd
      _ = i.dir := one_mul _

/-! ## T4 — received short-wave is non-negative, and zero without sun -/

/-- Physical ranges of the inputs of `solarcalcs` used by the sign statements. -/
structure Admissible (i : SolarIn K) : Prop where
  dir : 0 ≤ i.dir
  dif : 0 ≤ i.dif
  rc0 : 0 ≤ i.roadConf
  rc1 : i.roadConf ≤ 1
  wc0 : 0 < i.wallConf
  wc1 : 2 * i.wallConf ≤ 1
  ra0 : 0 ≤ i.roadAlbedo
  ra1 : i.roadAlbedo ≤ 1
  va0 : 0 ≤ i.vegAlbedo
  va1 : i.vegAlbedo ≤ 1
  rv0 : 0 ≤ i.roadVeg
  rv1 : i.roadVeg ≤ 1
  wa0 : 0 ≤ i.albWall
  wa1 : i.albWall ≤ 1

theorem albRoad_mem {i : SolarIn K} (h : Admissible i) : 0 ≤ albRoad i ∧ albRoad i ≤ 1 := by
  unfold albRoad
  split_ifs
  · exact ⟨h.ra0, h.ra1⟩
  · have h1 : 0 ≤ 1 - i.roadVeg := by linarith [h.rv1]
    have := h.ra0; have := h.va0; have := h.rv0
    constructor
    · positivity
    · have a1 : i.roadAlbedo * (1 - i.roadVeg) ≤ 1 * (1 - i.roadVeg) :=
        mul_le_mul_of_nonneg_right h.ra1 h1
      have a2 : i.vegAlbedo * i.roadVeg ≤ 1 * i.roadVeg := mul_le_mul_of_nonneg_right h.va1 h.rv0
      linarith

/-- The denominator of either closure is strictly positive for admissible inputs
    (from `α_w ≤ 1` and the view-factor bounds), so the division never fails. -/
theorem fr_pos (cl : Closure) {i : SolarIn K} (h : Admissible i) :
    0 < frOf cl i.roadConf i.wallConf (albRoad i) i.albWall := by
  obtain ⟨h0, h1⟩ := albRoad_mem h
  cases cl with
  | impl => exact frImpl_pos h.rc1 h.wc0 h.wc1 h0 h.wa0 h.wa1
  | spec => exact frSpec_pos h.rc0 h.rc1 h.wc0 h.wc1 h0 h1 h.wa0 h.wa1

/-- For admissible inputs and a non-negative road share of the beam (or no beam at all: sun at or
    below the horizon, where the share is irrelevant), the sunlit branch gives
    every surface (road, rural, roofs, walls, and the three canyon aggregates) a non-negative
    amount of solar radiation — for the coded closure and for the radiosity closure. -/
theorem received_nonneg (cl : Closure) (S : Sym K) (i : SolarIn K) (h : Admissible i)
    (hkr : 0 ≤ krTerm S i.canAspect i.critOrient i.tanzen ∨ horSolOf S i = 0) :
    0 ≤ (sunlit cl S i).roadRec ∧ 0 ≤ (sunlit cl S i).ruralRec ∧ 0 ≤ (sunlit cl S i).roofRec ∧
    0 ≤ (sunlit cl S i).wallRec ∧ 0 ≤ (sunlit cl S i).solRecRoof ∧
    0 ≤ (sunlit cl S i).solRecRoad ∧ 0 ≤ (sunlit cl S i).solRecWall := by
  have hh : 0 ≤ horSolOf S i := le_max_right _ _
  have hkw := (beam_budget S i.canAspect i.critOrient i.tanzen).2.1
  have hdif := h.dif; have hrc0 := h.rc0; have hwc0 := h.wc0.le
  have hR : 0 ≤ roadSolOf S i := by
    unfold roadSolOf
    rcases hkr with hk | hz
    · positivity
    · rw [hz, zero_mul, zero_add]; positivity
  have hB : 0 ≤ bldSolOf S i := by unfold bldSolOf; positivity
  obtain ⟨ha0, _⟩ := albRoad_mem h
  have hfr := fr_pos cl h
  have hmw := mw_nonneg cl hfr hwc0 ha0 h.wa0 hR hB
  have hmr := mr_nonneg cl hfr h.rc1 hwc0 ha0 h.wa0 hR hB
  have h1 : 0 ≤ 1 - i.roadConf := by linarith [h.rc1]
  have h2 : 0 ≤ 1 - 2 * i.wallConf := by linarith [h.wc1]
  have hroad : 0 ≤ roadRecOf cl i.roadConf i.wallConf (albRoad i) i.albWall
      (roadSolOf S i) (bldSolOf S i) := by unfold roadRecOf; positivity
  have hwall : 0 ≤ wallRecOf cl i.roadConf i.wallConf (albRoad i) i.albWall
      (roadSolOf S i) (bldSolOf S i) := by unfold wallRecOf; positivity
  have hsum : 0 ≤ horSolOf S i + i.dif := by linarith
  have hra := h.ra0
  refine ⟨hroad, hsum, hsum, hwall, hsum, hroad, ?_⟩
  show 0 ≤ bldSolOf S i + (1 - 2 * i.wallConf) * i.roadAlbedo * roadSolOf S i
  positivity

/-- The tree/grass heat derived from the road's received radiation (reset to zero outside the
    vegetation season) is non-negative as well when
    the tree cover does not exceed the vegetated cover and the latent fractions are fractions. -/
theorem tree_heat_nonneg (cl : Closure) (S : Sym K) (i : SolarIn K) (h : Admissible i)
    (hkr : 0 ≤ krTerm S i.canAspect i.critOrient i.tanzen ∨ horSolOf S i = 0)
    (ht0 : 0 ≤ i.treeCoverage) (ht1 : i.treeCoverage ≤ i.vegcover)
    (hf0 : 0 ≤ i.treeFLat) (hf1 : i.treeFLat ≤ 1) (hg0 : 0 ≤ i.grassFLat) (hg1 : i.grassFLat ≤ 1) :
    0 ≤ (sunlit cl S i).treeSens ∧ 0 ≤ (sunlit cl S i).treeLat := by
  obtain ⟨hroad, -⟩ := received_nonneg cl S i h hkr
  have hroad' : 0 ≤ roadRecOf cl i.roadConf i.wallConf (albRoad i) i.albWall
      (roadSolOf S i) (bldSolOf S i) := hroad
  have a1 : 0 ≤ 1 - i.vegAlbedo := by linarith [h.va1]
  have a2 : 0 ≤ 1 - i.treeFLat := by linarith
  have a3 : 0 ≤ 1 - i.grassFLat := by linarith
  have a4 : 0 ≤ i.vegcover - i.treeCoverage := by linarith
  constructor
  · simp only [sunlit]
    split_ifs
    · exact le_rfl
    · positivity
  · simp only [sunlit]
    split_ifs
    · exact le_rfl
    · positivity

/-- For admissible inputs with any sun at all and a non-zero aspect, `solarcalcs` does not raise
    and returns the sunlit result (so `received_nonneg` is about what the routine returns). -/
theorem solarcalcs_sunlit (cl : Closure) (S : Sym K) (i : SolarIn K) (h : Admissible i)
    (hsun : 0 < i.dir + i.dif) (ha : i.canAspect ≠ 0) :
    solarcalcs cl S i = .ok (sunlit cl S i) := by
  unfold solarcalcs
  rw [if_pos hsun, if_neg ha, if_neg (fr_pos cl h).ne']

omit [IsStrictOrderedRing K] in
/-- Whenever the weather file reports no sun (`dir + dif ≤ 0`), `solarcalcs` succeeds and every
    received amount, every canyon aggregate and the vegetation heat are exactly zero. -/
theorem no_sun_zero (cl : Closure) (S : Sym K) (i : SolarIn K) (h : i.dir + i.dif ≤ 0) :
    ∃ o, solarcalcs cl S i = .ok o ∧ o.roadRec = 0 ∧ o.ruralRec = 0 ∧ o.roofRec = 0 ∧
      o.wallRec = 0 ∧ o.solRecRoof = 0 ∧ o.solRecRoad = 0 ∧ o.solRecWall = 0 ∧
      o.treeSens = 0 ∧ o.treeLat = 0 := by
  refine ⟨noSun, ?_, rfl, rfl, rfl, rfl, rfl, rfl, rfl, rfl, rfl⟩
  unfold solarcalcs
  rw [if_neg (not_lt.mpr h)]

/-! ## T5, T6 — long-wave exchange -/

/-- The wall↔road exchange terms of `infracalcs` are equal and opposite when weighted by the
    areas: (road width)·(road←wall) + (two walls of height h)·(wall←road) = 0.
    Both coded terms carry the same factor `(1 − roadShad)`, so the plain weights `w` and `2h`
    make this exact (no extra shading weight is needed); it uses only reciprocity. -/
theorem lw_antisymmetric (i : InfraIn K) (w h a : K) (hh : h = a * w)
    (hrec : 2 * a * i.wallConf = 1 - i.roadConf) :
    w * lwRoadFromWall i + 2 * h * lwWallFromRoad i = 0 := by
  subst hh
  unfold lwRoadFromWall lwWallFromRoad
  linear_combination
    (-(w * (1 - i.roadShad) * i.eWall * i.eRoad * sigma * (i.tWall ^ 4 - i.tRoad ^ 4))) * hrec

/-- Hence the area-weighted sum of the two returned fluxes is the net exchange with the sky. -/
theorem lw_budget (i : InfraIn K) (w h a : K) (hh : h = a * w)
    (hrec : 2 * a * i.wallConf = 1 - i.roadConf) :
    w * (infracalcs i).1 + 2 * h * (infracalcs i).2 = w * lwRoadSky i + 2 * h * lwWallSky i := by
  have := lw_antisymmetric i w h a hh hrec
  unfold infracalcs
  simp only
  linear_combination this

omit [LinearOrder K] [IsStrictOrderedRing K] in
/-- At thermal equilibrium with the sky (road and wall at `T`, sky long-wave `σT⁴`) both fluxes
    returned by `infracalcs` vanish. -/
theorem lw_equilibrium (i : InfraIn K) (T : K) (hr : i.tRoad = T) (hw : i.tWall = T)
    (hsky : i.infra = sigma * T ^ 4) : infracalcs i = (0, 0) := by
  unfold infracalcs lwRoadSky lwRoadFromWall lwWallSky lwWallFromRoad
  rw [hr, hw, hsky]
  simp

/-! ## T7 — the coded closure: exact characterisation of "absorbed ≤ entering" -/

/-- The short-wave absorbed by road and walls under the coded closure is linear in the two
    first-incidence amounts, with the explicit coefficients `cR`, `cB` of `Model/Canyon.lean`. -/
theorem absorbed_linear (a Ψr Ψw αr αw R B : K) (ha : a ≠ 0) :
    absorbedOf .impl a Ψr Ψw αr αw R B = cR a Ψr Ψw αr αw * R + cB a Ψr Ψw αr αw * (2 * a * B) := by
  unfold absorbedOf absorbed roadRecOf wallRecOf mwOf mrOf cR cB frOf
  simp only [div_eq_mul_inv]
  have h2a : (2 * a)⁻¹ * (2 * a) = 1 := inv_mul_cancel₀ (by simpa using ha)
  linear_combination
    (-(B * ((1 - αr) * ((1 - Ψr) * αw * (frImpl Ψr Ψw αr αw)⁻¹) +
        (1 - αw) * (2 * a) * (1 + (1 - 2 * Ψw) * αw * (frImpl Ψr Ψw αr αw)⁻¹ +
          Ψw * ((1 - Ψr) * αr * αw) * (frImpl Ψr Ψw αr αw)⁻¹)))) * h2a

/-- `cR` and `cB` are what the coded closure absorbs of a unit of light on the road / of a unit
    of light (per unit road width) on the walls. -/
theorem cR_cB_meaning (a Ψr Ψw αr αw : K) (ha : a ≠ 0) :
    cR a Ψr Ψw αr αw = absorbedOf .impl a Ψr Ψw αr αw 1 0 ∧
    cB a Ψr Ψw αr αw = absorbedOf .impl a Ψr Ψw αr αw 0 (1 / (2 * a)) := by
  have h2a : 2 * a * (1 / (2 * a)) = 1 := by field_simp
  constructor
  · rw [absorbed_linear _ _ _ _ _ _ _ ha]; ring
  · rw [absorbed_linear _ _ _ _ _ _ _ ha, h2a]; ring

/-- **Exact characterisation.** The coded closure absorbs no more than enters for *all*
    non-negative first-incidence amounts iff `cR ≤ 1` and `cB ≤ 1`. -/
theorem absorbed_le_entering_iff (a Ψr Ψw αr αw : K) (ha : 0 < a) :
    (∀ R B : K, 0 ≤ R → 0 ≤ B → absorbedOf .impl a Ψr Ψw αr αw R B ≤ entering a R B) ↔
    (cR a Ψr Ψw αr αw ≤ 1 ∧ cB a Ψr Ψw αr αw ≤ 1) := by
  constructor
  · intro h
    obtain ⟨h1, h2⟩ := cR_cB_meaning a Ψr Ψw αr αw ha.ne'
    constructor
    · rw [h1]
      have := h 1 0 zero_le_one le_rfl
      simpa [entering] using this
    · rw [h2]
      have := h 0 (1 / (2 * a)) le_rfl (by positivity)
      have h2a : 2 * a * (1 / (2 * a)) = 1 := by field_simp
      unfold entering at this
      rw [h2a] at this
      linarith
  · rintro ⟨h1, h2⟩ R B hR hB
    rw [absorbed_linear _ _ _ _ _ _ _ ha.ne']
    unfold entering
    have hB' : 0 ≤ 2 * a * B := by positivity
    nlinarith [mul_le_mul_of_nonneg_right h1 hR, mul_le_mul_of_nonneg_right h2 hB']

/-- Light first incident on the walls is never over-counted: `cB ≤ 1` for every admissible
    geometry and albedo pair. So the coded closure creates energy exactly when `cR > 1`. -/
theorem cB_le_one (a Ψr Ψw αr αw : K) (ha : 0 < a) (hrec : 2 * a * Ψw = 1 - Ψr)
    (hΨr : 0 ≤ Ψr) (hΨr1 : Ψr ≤ 1) (hΨw : 0 < Ψw) (hΨw2 : 2 * Ψw ≤ 1)
    (hαr : 0 ≤ αr) (hαw : 0 ≤ αw) (hαw1 : αw ≤ 1) : cB a Ψr Ψw αr αw ≤ 1 := by
  have hfr := frImpl_pos hΨr1 hΨw hΨw2 hαr hαw hαw1
  have key : cB a Ψr Ψw αr αw =
      1 - αw * Ψw * (1 + αr * Ψr + 2 * αw * αr * (1 - Ψr)) / frImpl Ψr Ψw αr αw := by
    unfold cB
    exact cB_key a Ψr Ψw αr αw _ ha.ne' hfr.ne' (by linarith) rfl
  rw [key]
  have h0 : 0 ≤ 1 - Ψr := by linarith
  have : 0 ≤ αw * Ψw * (1 + αr * Ψr + 2 * αw * αr * (1 - Ψr)) / frImpl Ψr Ψw αr αw := by
    apply div_nonneg _ hfr.le
    have := hΨw.le
    positivity
  linarith

/-- Consequently (with `cB_le_one`) the whole question reduces to `cR`. -/
theorem absorbed_le_entering_iff_cR (a Ψr Ψw αr αw : K) (ha : 0 < a)
    (hrec : 2 * a * Ψw = 1 - Ψr) (hΨr : 0 ≤ Ψr) (hΨr1 : Ψr ≤ 1) (hΨw : 0 < Ψw)
    (hΨw2 : 2 * Ψw ≤ 1) (hαr : 0 ≤ αr) (hαw : 0 ≤ αw) (hαw1 : αw ≤ 1) :
    (∀ R B : K, 0 ≤ R → 0 ≤ B → absorbedOf .impl a Ψr Ψw αr αw R B ≤ entering a R B) ↔
    cR a Ψr Ψw αr αw ≤ 1 := by
  rw [absorbed_le_entering_iff a Ψr Ψw αr αw ha]
  exact ⟨fun h => h.1, fun h => ⟨h, cB_le_one a Ψr Ψw αr αw ha hrec hΨr hΨr1 hΨw hΨw2 hαr hαw hαw1⟩⟩

/-! ## T8 — the coded closure creates energy (known finding C13-reflection-closure) -/

/-- **The property is false of the code as it stands.** In every ordered field there is an
    admissible canyon (aspect 180/19, true root 181/19, so view factors 1/19 and 1/20), albedos
    0.3/0.3 and a beam falling on the road only, for which the coded closure absorbs
    1986737/1893350 ≈ 1.049 times what enters. -/
theorem asis_creates_energy :
    ∃ a s αr αw R B : K, 0 < a ∧ s * s = a * a + 1 ∧ 0 ≤ s ∧ 0 ≤ αr ∧ αr ≤ 1 ∧ 0 ≤ αw ∧ αw ≤ 1 ∧
      0 ≤ R ∧ 0 ≤ B ∧
      entering a R B < absorbedOf .impl a (roadConfOf s a) (wallConfOf s a) αr αw R B := by
  refine ⟨180 / 19, 181 / 19, 3 / 10, 3 / 10, 1, 0, ?_⟩
  norm_num [entering, absorbedOf, absorbed, roadRecOf, wallRecOf, mwOf, mrOf, frOf, frImpl,
    roadConfOf, wallConfOf]

/-- The same witness as a statement about `cR`. -/
theorem asis_cR_gt_one :
    cR (180 / 19 : K) (1 / 19) (1 / 20) (3 / 10) (3 / 10) = 1986737 / 1893350 ∧
    (1 : K) < cR (180 / 19 : K) (1 / 19) (1 / 20) (3 / 10) (3 / 10) := by
  norm_num [cR, frImpl]

/-- The witness geometry is produced by `UCMDef.__init__` itself: height 10, density 1/4, facade
    ratio 180/19, under any symbols that return the true roots at the two arguments used. -/
theorem asis_witness_geometry (S : Sym K) (tree veg : K)
    (h1 : S.sqrt (1 / 4) = 1 / 2) (h2 : S.rpow ((180 / 19) ^ 2 + 1) (1 / 2) = 181 / 19) :
    ∃ g, ucmGeometry S 10 (1 / 4) (180 / 19) tree veg = .ok g ∧ g.canAspect = 180 / 19 ∧
      g.roadConf = 1 / 19 ∧ g.wallConf = 1 / 20 := by
  have hcw : (4 * 10 * (1 / 4) / (180 / 19) / (1 / 2) - 4 * 10 * (1 / 4) / (180 / 19) : K)
      = 19 / 18 := by norm_num
  have ha : (10 / (19 / 18) : K) = 180 / 19 := by norm_num
  unfold ucmGeometry
  simp only [h1, hcw, ha, h2]
  rw [if_neg (by norm_num : ¬ ((1 : K) - 1 / 4 = 0)), if_neg (by norm_num : ¬ ((180 : K) / 19 = 0)),
    if_neg (by norm_num : ¬ ((1 : K) / 4 < 0)), if_neg (by norm_num : ¬ ((1 : K) / 2 = 0)),
    if_neg (by norm_num : ¬ ((19 : K) / 18 = 0)), if_neg (by norm_num : ¬ ((180 : K) / 19 = 0))]
  refine ⟨_, rfl, rfl, ?_, ?_⟩ <;> norm_num [roadConfOf, wallConfOf]

/-! ## T7 (specification) — the radiosity closure conserves energy -/

omit [LinearOrder K] [IsStrictOrderedRing K] in
/-- `Closure.spec` is the radiosity fixed point: the reflected fluxes `jr`, `jw` leaving road and
    wall are the albedo times what each receives, and what each receives is first incidence plus
    the other surfaces' reflected fluxes weighted by the view factors. -/
theorem spec_fixed_point (Ψr Ψw αr αw R B : K) (hfr : frSpec Ψr Ψw αr αw ≠ 0) :
    mrOf .spec Ψr Ψw αr αw R B = αr * roadRecOf .spec Ψr Ψw αr αw R B ∧
    mwOf .spec Ψr Ψw αr αw R B = αw * wallRecOf .spec Ψr Ψw αr αw R B := by
  constructor
  · unfold mrOf roadRecOf; ring
  · unfold wallRecOf mrOf mwOf frOf
    exact spec_key Ψr Ψw αr αw R B _ hfr rfl

/-- Energy balance of the radiosity closure: absorbed + escaped through the canyon top =
    entering (uses only reciprocity). -/
theorem spec_balance (a Ψr Ψw αr αw R B : K) (hrec : 2 * a * Ψw = 1 - Ψr)
    (hfr : frSpec Ψr Ψw αr αw ≠ 0) :
    absorbedOf .spec a Ψr Ψw αr αw R B +
      escaped a Ψr Ψw (mrOf .spec Ψr Ψw αr αw R B) (mwOf .spec Ψr Ψw αr αw R B) =
    entering a R B := by
  obtain ⟨h1, h2⟩ := spec_fixed_point Ψr Ψw αr αw R B hfr
  have e1 : (1 - αr) * roadRecOf .spec Ψr Ψw αr αw R B =
      roadRecOf .spec Ψr Ψw αr αw R B - mrOf .spec Ψr Ψw αr αw R B := by rw [h1]; ring
  have e2 : (1 - αw) * (2 * a) * wallRecOf .spec Ψr Ψw αr αw R B =
      2 * a * (wallRecOf .spec Ψr Ψw αr αw R B - mwOf .spec Ψr Ψw αr αw R B) := by
    rw [h2]; ring
  unfold absorbedOf absorbed escaped entering
  rw [e1, e2]
  unfold roadRecOf wallRecOf
  linear_combination
    (mrOf .spec Ψr Ψw αr αw R B - mwOf .spec Ψr Ψw αr αw R B) * hrec

/-- **Total absorbed short-wave never exceeds what enters the canyon** — for the radiosity
    closure, every admissible geometry/albedo pair and all non-negative first incidences. -/
theorem absorbed_le_entering_spec (a Ψr Ψw αr αw R B : K) (ha : 0 < a)
    (hrec : 2 * a * Ψw = 1 - Ψr) (hΨr : 0 ≤ Ψr) (hΨr1 : Ψr ≤ 1) (hΨw : 0 < Ψw)
    (hΨw2 : 2 * Ψw ≤ 1) (hαr : 0 ≤ αr) (hαr1 : αr ≤ 1) (hαw : 0 ≤ αw) (hαw1 : αw ≤ 1)
    (hR : 0 ≤ R) (hB : 0 ≤ B) :
    absorbedOf .spec a Ψr Ψw αr αw R B ≤ entering a R B := by
  have hfr := frSpec_pos hΨr hΨr1 hΨw hΨw2 hαr hαr1 hαw hαw1
  have hb := spec_balance a Ψr Ψw αr αw R B hrec hfr.ne'
  have hmw := mw_nonneg .spec (show 0 < frOf .spec Ψr Ψw αr αw from hfr) hΨw.le hαr hαw hR hB
  have hmr := mr_nonneg .spec (show 0 < frOf .spec Ψr Ψw αr αw from hfr) hΨr1 hΨw.le hαr hαw hR hB
  have : 0 ≤ escaped a Ψr Ψw (mrOf .spec Ψr Ψw αr αw R B) (mwOf .spec Ψr Ψw αr αw R B) := by
    unfold escaped
    have := hΨw.le
    positivity
  linarith

/-
Full-strength statement of the short-wave clause for the routine, for a closure `cl`:

    ∀ S i, Admissible i → 0 < i.canAspect → 2·a·Ψw = 1 − Ψr → 0 ≤ Kr →
      absorbed a (albRoad i) αw (sunlit cl S i).roadRec (sunlit cl S i).wallRec
        ≤ (sunlit cl S i).horSol + i.dif

It is FALSE for `cl = .impl` (the code as it stands): `asis_creates_energy`, exact condition
`absorbed_le_entering_iff_cR`. It is proved for `cl = .spec`:
-/

/-- With the radiosity closure, what road and walls absorb in the sunlit branch of `solarcalcs`
    never exceeds the horizontal beam plus diffuse radiation arriving at the canyon top. -/
theorem solar_absorbed_le_incoming_spec (S : Sym K) (i : SolarIn K) (h : Admissible i)
    (ha : 0 < i.canAspect) (hrec : 2 * i.canAspect * i.wallConf = 1 - i.roadConf)
    (hkr : 0 ≤ krTerm S i.canAspect i.critOrient i.tanzen ∨ horSolOf S i = 0) :
    absorbed i.canAspect (albRoad i) i.albWall (sunlit .spec S i).roadRec
      (sunlit .spec S i).wallRec ≤ (sunlit .spec S i).horSol + i.dif := by
  have hh : 0 ≤ horSolOf S i := le_max_right _ _
  have hkw := (beam_budget S i.canAspect i.critOrient i.tanzen).2.1
  have hdif := h.dif; have hrc0 := h.rc0; have hwc0 := h.wc0.le
  have hR : 0 ≤ roadSolOf S i := by
    unfold roadSolOf
    rcases hkr with hk | hz
    · positivity
    · rw [hz, zero_mul, zero_add]; positivity
  have hB : 0 ≤ bldSolOf S i := by unfold bldSolOf; positivity
  obtain ⟨ha0, ha1⟩ := albRoad_mem h
  have h1 := absorbed_le_entering_spec i.canAspect i.roadConf i.wallConf (albRoad i) i.albWall
    (roadSolOf S i) (bldSolOf S i) ha hrec h.rc0 h.rc1 h.wc0 h.wc1 ha0 ha1 h.wa0 h.wa1 hR hB
  have h2 := (entering_le_incoming S i hrec).1
  exact le_trans h1 h2

/-! ## T3 and the symbol hypotheses discharged for the real functions -/

section real
open Real

/-- `pow(x, 0.5)` interpreted in ℝ is the true non-negative root. -/
theorem real_root (a : ℝ) :
    realSym.rpow (a ^ 2 + 1) (1 / 2) * realSym.rpow (a ^ 2 + 1) (1 / 2) = a * a + 1 ∧
    0 ≤ realSym.rpow (a ^ 2 + 1) (1 / 2) := by
  have hx : (0 : ℝ) ≤ a ^ 2 + 1 := by positivity
  have e : realSym.rpow (a ^ 2 + 1) (1 / 2) = Real.sqrt (a ^ 2 + 1) := by
    show (a ^ 2 + 1 : ℝ) ^ ((1 : ℝ) / 2) = Real.sqrt (a ^ 2 + 1)
    rw [Real.sqrt_eq_rpow]
  rw [e]
  exact ⟨by rw [Real.mul_self_sqrt hx]; ring, Real.sqrt_nonneg _⟩

/-- T1 over the reals, no hypotheses left: for every positive aspect ratio the coded view
    factors are reciprocal, `0 < roadConf < 1`, `0 < wallConf < ½`. -/
theorem vf_real (a : ℝ) (ha : 0 < a) :
    2 * a * wallConfOf (realSym.rpow (a ^ 2 + 1) (1 / 2)) a
      = 1 - roadConfOf (realSym.rpow (a ^ 2 + 1) (1 / 2)) a ∧
    0 < roadConfOf (realSym.rpow (a ^ 2 + 1) (1 / 2)) a ∧
    roadConfOf (realSym.rpow (a ^ 2 + 1) (1 / 2)) a < 1 ∧
    0 < wallConfOf (realSym.rpow (a ^ 2 + 1) (1 / 2)) a ∧
    wallConfOf (realSym.rpow (a ^ 2 + 1) (1 / 2)) a < 1 / 2 := by
  obtain ⟨h1, h2⟩ := real_root a
  exact ⟨vf_reciprocity _ _ ha.ne', vf_bounds a _ ha h1 h2⟩

/-- T0 over the reals: positive height, density in (0,1), positive facade ratio ⇒ positive canyon. -/
theorem geometry_positive_real (h dens vth tree veg : ℝ)
    (hh : 0 < h) (hd0 : 0 < dens) (hd1 : dens < 1) (hv : 0 < vth) :
    ∃ g, ucmGeometry realSym h dens vth tree veg = .ok g ∧ 0 < g.canWidth ∧ 0 < g.canAspect ∧
      h = g.canAspect * g.canWidth :=
  geometry_positive realSym h dens vth tree veg hh hd0 hd1 hv
    (Real.mul_self_sqrt hd0.le) (Real.sqrt_pos.mpr hd0)

/-- T3. With the real `asin`, `cos`, `π`: for every positive aspect and every positive zenith
    tangent (sun above the horizon; this covers the three `tanzen` branches of `solarangles`),
    at the critical orientation the code computes, the unclamped road share of the beam is a
    genuine fraction. -/
theorem krRaw_real_bounds (a tz : ℝ) (ha : 0 < a) (htz : 0 < tz) :
    0 ≤ krRaw realSym a (realSym.asin (min (|1 / tz| / a) 1)) tz ∧
    krRaw realSym a (realSym.asin (min (|1 / tz| / a) 1)) tz ≤ 1 := by
  show 0 ≤ krRaw realSym a (Real.arcsin (min (|1 / tz| / a) 1)) tz ∧
    krRaw realSym a (Real.arcsin (min (|1 / tz| / a) 1)) tz ≤ 1
  have habs : |1 / tz| / a = 1 / (tz * a) := by
    rw [abs_of_pos (by positivity)]; field_simp
  set x := min (|1 / tz| / a) 1 with hx
  have hx0 : 0 < x := by
    rw [hx, habs]; exact lt_min (by positivity) one_pos
  have hx1 : x ≤ 1 := min_le_right _ _
  have hxa : a * tz * x ≤ 1 := by
    have : x ≤ 1 / (tz * a) := by rw [hx, habs]; exact min_le_left _ _
    have h2 : a * tz * x ≤ a * tz * (1 / (tz * a)) :=
      mul_le_mul_of_nonneg_left this (by positivity)
    have h3 : a * tz * (1 / (tz * a)) = 1 := by field_simp
    linarith
  set θ := Real.arcsin x with hθ
  have hθ0 : 0 ≤ θ := Real.arcsin_nonneg.mpr hx0.le
  have hθ1 : θ ≤ π / 2 := Real.arcsin_le_pi_div_two x
  have hsin : Real.sin θ = x := Real.sin_arcsin (by linarith) hx1
  have hcos : 1 - Real.cos θ ≤ θ ^ 2 / 2 := by
    have := Real.one_sub_sq_div_two_le_cos (x := θ)
    linarith
  have hcos0 : 0 ≤ 1 - Real.cos θ := by linarith [Real.cos_le_one θ]
  have hjordan : 2 / π * θ ≤ x := by rw [← hsin]; exact Real.mul_le_sin hθ0 hθ1
  have hpi : 0 < π := Real.pi_pos
  have hhalf : θ / 2 ≤ x := by
    have : θ / 2 ≤ 2 / π * θ := by
      have h4 : (1 : ℝ) / 2 ≤ 2 / π := by
        rw [div_le_div_iff₀ (by norm_num) hpi]
        linarith [Real.pi_le_four]
      calc θ / 2 = 1 / 2 * θ := by ring
        _ ≤ 2 / π * θ := mul_le_mul_of_nonneg_right h4 hθ0
    linarith
  -- key: a·tz·(1 - cos θ) ≤ θ
  have key : a * tz * (1 - Real.cos θ) ≤ θ := by
    have h5 : x * (a * tz * (1 - Real.cos θ)) ≤ x * θ := by
      calc x * (a * tz * (1 - Real.cos θ)) = (a * tz * x) * (1 - Real.cos θ) := by ring
        _ ≤ 1 * (1 - Real.cos θ) := mul_le_mul_of_nonneg_right hxa hcos0
        _ ≤ θ ^ 2 / 2 := by linarith
        _ = θ * (θ / 2) := by ring
        _ ≤ θ * x := mul_le_mul_of_nonneg_left hhalf hθ0
        _ = x * θ := by ring
    exact le_of_mul_le_mul_left h5 hx0
  have hnn : 0 ≤ a * tz * (1 - Real.cos θ) := by positivity
  have e : krRaw realSym a θ tz = 2 / π * (θ - a * tz * (1 - Real.cos θ)) := by
    show 2 * θ / π - 2 / π * a * tz * (1 - Real.cos θ) = _
    ring
  rw [e]
  constructor
  · have : 0 ≤ θ - a * tz * (1 - Real.cos θ) := by linarith
    positivity
  · have h6 : 2 / π * (θ - a * tz * (1 - Real.cos θ)) ≤ 2 / π * (π / 2) :=
      mul_le_mul_of_nonneg_left (by linarith) (by positivity)
    have h7 : 2 / π * (π / 2) = 1 := by field_simp
    linarith

/-- T4 over the reals, with the hypothesis on `Kr` discharged: for admissible inputs, the
    critical orientation as `solarangles` computes it, and the sun either above the horizon
    (`tanzen > 0`) or at/below it (`cos zenith ≤ 0`, so no horizontal beam), every received
    amount of the sunlit branch is non-negative. -/
theorem received_nonneg_real (cl : Closure) (i : SolarIn ℝ) (h : Admissible i)
    (ha : 0 < i.canAspect)
    (hcrit : i.critOrient = realSym.asin (min (|1 / i.tanzen| / i.canAspect) 1))
    (hsun : 0 < i.tanzen ∨ Real.cos i.zenith ≤ 0) :
    0 ≤ (sunlit cl realSym i).roadRec ∧ 0 ≤ (sunlit cl realSym i).ruralRec ∧
    0 ≤ (sunlit cl realSym i).roofRec ∧ 0 ≤ (sunlit cl realSym i).wallRec ∧
    0 ≤ (sunlit cl realSym i).solRecRoof ∧ 0 ≤ (sunlit cl realSym i).solRecRoad ∧
    0 ≤ (sunlit cl realSym i).solRecWall := by
  apply received_nonneg cl realSym i h
  rcases hsun with htz | hc
  · left
    obtain ⟨h0, h1⟩ := krRaw_real_bounds i.canAspect i.tanzen ha htz
    rw [hcrit]
    exact (beam_exact realSym i.canAspect _ i.tanzen ha Real.pi_ne_zero h0 h1).2.1
  · right
    show max (Real.cos i.zenith * i.dir) 0 = 0
    exact max_eq_right (mul_nonpos_of_nonpos_of_nonneg hc h.dir)

end real

/-! ## Non-vacuity -/

/-- A concrete admissible canyon: aspect 4/3 (true root 5/3), view factors 1/3 and 1/4. -/
example : (0 : ℚ) < 4 / 3 ∧ (5 / 3 : ℚ) * (5 / 3) = 4 / 3 * (4 / 3) + 1 ∧
    roadConfOf (5 / 3 : ℚ) (4 / 3) = 1 / 3 ∧ wallConfOf (5 / 3 : ℚ) (4 / 3) = 1 / 4 ∧
    cR (4 / 3 : ℚ) (1 / 3) (1 / 4) (3 / 10) (3 / 10) ≤ 1 ∧
    absorbedOf .spec (4 / 3 : ℚ) (1 / 3) (1 / 4) (3 / 10) (3 / 10) 1 0 ≤ 1 := by
  norm_num [roadConfOf, wallConfOf, cR, frImpl, absorbedOf, absorbed, roadRecOf, wallRecOf,
    mwOf, mrOf, frOf, frSpec]

/-- `Admissible` is satisfiable with sun, and the stub symbols give a non-negative road share. -/
example : ∃ i : SolarIn ℚ, Admissible i ∧ 0 < i.dir + i.dif ∧ 0 < i.canAspect ∧
    2 * i.canAspect * i.wallConf = 1 - i.roadConf := by
  refine ⟨{ dir := 500, dif := 100, zenith := 0, tanzen := 1, critOrient := 1, canAspect := 4 / 3,
            roadConf := 1 / 3, wallConf := 1 / 4, month := 6, vegStart := 4, vegEnd := 10,
            roadAlbedo := 1 / 10, roadVeg := 1 / 5, vegAlbedo := 1 / 4, albWall := 1 / 5,
            treeCoverage := 1 / 10, vegcover := 3 / 20, treeFLat := 1 / 2, grassFLat := 1 / 2 },
          ?_, ?_, ?_, ?_⟩
  · constructor <;> norm_num
  all_goals norm_num

end Uwg.C13
