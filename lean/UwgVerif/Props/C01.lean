/-
C01 - the morphed EPW preserves every rural field it does not model.

Property theorems about the text layer of `write_epw` (model: `UwgVerif/Model/Csv.lean`, tied to
/repo/uwg/uwg.py by `harness/props/c01.py`).  Well-formed input throughout: cells contain no `\n` / `\r`
(the coverage guard of the `csv.reader` model), 8 header rows, the simulated window lies inside the data
and its rows have at least 22 cells.
-/
import UwgVerif.Model.Csv
import UwgVerif.Lemmas.Csv
import UwgVerif.Lemmas.CsvFmt

namespace Uwg.C01
open Uwg.Csv

/-- Cell `j` of row `i` (`none` outside the table). -/
def cellAt (rows : List Row) (i j : Nat) : Option Cell := rows[i]?.bind (·[j]?)

/-! ### T1 - reading back a written row -/

/-- **T1.** Reading a written row gives the row back: for every row whose cells contain no line break,
except the row consisting of one empty cell, `csv.reader` applied to the line produced by the writer
returns exactly the cells that were written - whatever commas, quotes or blanks they contain.
(The empty row `[]` is covered: it is written as the empty line, which reads back as `[]`.) -/
theorem parse_render_row (r : Row) (_hnl : ∀ c ∈ r, '\n' ∉ c ∧ '\r' ∉ c) (hne : r ≠ [[]]) :
    parseLine (renderRow r) = r := by
  rw [parseLine_eq]
  cases r with
  | nil => simp [renderRow]
  | cons c cs =>
    have : renderRow (c :: cs) ≠ [] := by
      intro h
      rcases (renderRow_eq_nil _).1 h with h | h
      · simp at h
      · exact hne h
    rw [if_neg this, parseAux_renderRow]

/-- The exception of T1 is genuine: the row with one empty cell is written as the empty line, and the
empty line reads back as the empty row (0 fields instead of 1). -/
theorem parse_render_single_empty : parseLine (renderRow [[]]) = [] := by decide

/-- The guard "no line break inside a cell" is needed by the code, not only by the model: the writer does
not quote a cell that contains a line break, so such a cell is written as two lines and reads back as two
records. -/
theorem newline_cell_splits :
    parseFile (writeText [[['a', '\n', 'b'], ['c']]]) = [[['a']], [['b'], ['c']]] := by decide

/-- A written row never leaves a quoted field open at the end of its line, so `csv.reader` ends the record
there (reading the file line by line is reading it record by record). -/
theorem render_closed (r : Row) : endSt .start (renderRow r) ≠ .quoted :=
  endSt_renderRow_ne_quoted r

/-! ### T2 - the written file -/

/-- Reading back a text written from well-formed rows returns the rows. -/
theorem parseFile_writeText (rows : List Row) (hnl : ∀ r ∈ rows, ∀ c ∈ r, '\n' ∉ c ∧ '\r' ∉ c)
    (hne : ∀ r ∈ rows, r ≠ [[]]) : parseFile (writeText rows) = rows := by
  unfold parseFile
  rw [splitLines_writeText rows (fun r hr c hc => (hnl r hr c hc).1), List.map_map]
  have : ∀ r ∈ rows, (parseLine ∘ renderRow) r = id r := fun r hr =>
    parse_render_row r (hnl r hr) (hne r hr)
  rw [List.map_congr_left this, List.map_id]

/-- **T2.** For a well-formed rural file (8 header rows `hdr`, data rows `rows`, no line breaks inside
cells, no row that is a single empty cell), a window `s … s+|res|-1` inside the data whose rows have at
least 22 cells, any results and any precision: `write_epw` succeeds, and reading the written text back
gives the 8 header rows unchanged followed by `rows'`, where `rows'` has as many rows as `rows`, every row
has as many cells as before, the cells 6, 7, 8, 21 of the window rows are the formatted dry-bulb, dew-point,
relative-humidity and wind values of the corresponding hour, and **every other cell of every row is
identical** to the rural one. -/
theorem write_preserves (hdr rows : List Row) (s : Nat) (res : List Res) (p : Nat)
    (hh : hdr.length = 8)
    (hw : s + res.length ≤ rows.length)
    (h22 : ∀ i r, s ≤ i → i < s + res.length → rows[i]? = some r → 22 ≤ r.length)
    (hnl : ∀ r ∈ hdr ++ rows, ∀ c ∈ r, '\n' ∉ c ∧ '\r' ∉ c)
    (hne : ∀ r ∈ hdr ++ rows, r ≠ [[]]) :
    ∃ (text : List Char) (rows' : List Row), writeEpw hdr rows s res p = some text ∧
      parseFile text = hdr ++ rows' ∧
      rows'.length = rows.length ∧
      (∀ i : Nat, (rows'[i]?).map List.length = (rows[i]?).map List.length) ∧
      (∀ (i : Nat) (x : Res), s ≤ i → i < s + res.length → res[i - s]? = some x →
        cellAt rows' i 6 = some (fmtFrac x.tdb p) ∧ cellAt rows' i 7 = some (fmtFrac x.tdp p) ∧
        cellAt rows' i 8 = some (fmtFrac x.rh p) ∧ cellAt rows' i 21 = some (fmtFrac x.wind p)) ∧
      (∀ i j : Nat, ¬ (s ≤ i ∧ i < s + res.length ∧ (j = 6 ∨ j = 7 ∨ j = 8 ∨ j = 21)) →
        cellAt rows' i j = cellAt rows i j) := by
  have h21 : ∀ i r, s ≤ i → i < s + res.length → rows[i]? = some r → 21 < r.length :=
    fun i r a b c => by have := h22 i r a b c; omega
  obtain ⟨rows', hp, hlen, hat⟩ := patchRows_spec p res rows s hw h21
  -- description of a row of rows'
  have hrow : ∀ i r', rows'[i]? = some r' →
      (rows[i]? = some r' ∧ ¬ (s ≤ i ∧ i < s + res.length)) ∨
      (∃ r x, rows[i]? = some r ∧ res[i - s]? = some x ∧ s ≤ i ∧ i < s + res.length ∧
        21 < r.length ∧ r' = patched p r x) := by
    intro i r' h
    rw [hat i] at h
    unfold patchAt at h
    by_cases hin : s ≤ i ∧ i < s + res.length
    · rw [if_pos hin] at h
      right
      cases hr : rows[i]? with
      | none => simp [hr] at h
      | some r =>
        cases hx : res[i - s]? with
        | none => simp [hr, hx] at h
        | some x =>
          simp only [hr, hx, Option.bind_some, Option.map_some, Option.some.injEq] at h
          exact ⟨r, x, rfl, rfl, hin.1, hin.2, h21 i r hin.1 hin.2 hr, h.symm⟩
    · rw [if_neg hin] at h
      exact Or.inl ⟨h, hin⟩
  have hmemrows : ∀ i r, rows[i]? = some r → r ∈ hdr ++ rows := fun i r h =>
    List.mem_append_right _ (List.mem_of_getElem? h)
  -- the written rows are well-formed
  have hnl' : ∀ r ∈ hdr ++ rows', ∀ c ∈ r, '\n' ∉ c ∧ '\r' ∉ c := by
    intro r' hr' c hc
    rcases List.mem_append.1 hr' with hr' | hr'
    · exact hnl r' (List.mem_append_left _ hr') c hc
    · obtain ⟨i, hi⟩ := List.getElem?_of_mem hr'
      rcases hrow i r' hi with ⟨h, _⟩ | ⟨r, x, h, _, _, _, _, he⟩
      · exact hnl r' (hmemrows i r' h) c hc
      · subst he
        have ok : ∀ q : Frac, '\n' ∉ fmtFrac q p ∧ '\r' ∉ fmtFrac q p := by
          intro q
          constructor
          · intro hm; exact (okChar_ne_nl (fmtFixed_okChar _ _ _ _ hm)).1 rfl
          · intro hm; exact (okChar_ne_nl (fmtFixed_okChar _ _ _ _ hm)).2.1 rfl
        rcases mem_patched hc with h' | h' | h' | h' | h'
        · exact hnl r (hmemrows i r h) c h'
        · rw [h']; exact ok _
        · rw [h']; exact ok _
        · rw [h']; exact ok _
        · rw [h']; exact ok _
  have hne' : ∀ r ∈ hdr ++ rows', r ≠ [[]] := by
    intro r' hr'
    rcases List.mem_append.1 hr' with hr' | hr'
    · exact hne r' (List.mem_append_left _ hr')
    · obtain ⟨i, hi⟩ := List.getElem?_of_mem hr'
      rcases hrow i r' hi with ⟨h, _⟩ | ⟨r, x, _, _, _, _, hl, he⟩
      · exact hne r' (hmemrows i r' h)
      · intro e
        have : (patched p r x).length = 1 := by rw [← he, e]; rfl
        rw [patched_length] at this
        omega
  have htake : hdr.take 8 = hdr := by rw [← hh]; exact List.take_length
  refine ⟨writeText (hdr ++ rows'), rows', ?_, parseFile_writeText _ hnl' hne', hlen, ?_, ?_, ?_⟩
  · have : ¬ hdr.length < 8 := by omega
    simp [writeEpw, hp, this, htake]
  · intro i
    cases hr' : rows'[i]? with
    | none =>
      have : rows'.length ≤ i := List.getElem?_eq_none_iff.1 hr'
      have : rows[i]? = none := List.getElem?_eq_none_iff.2 (by omega)
      simp [this]
    | some r' =>
      rcases hrow i r' hr' with ⟨h, _⟩ | ⟨r, x, h, _, _, _, _, he⟩
      · simp [h]
      · simp [h, he, patched_length]
  · intro i x h1 h2 hx
    have hi : i < rows'.length := by omega
    have hr' : rows'[i]? = some rows'[i] := List.getElem?_eq_getElem hi
    rcases hrow i _ hr' with ⟨_, h⟩ | ⟨r, x', _, hx', _, _, hl, he⟩
    · exact absurd ⟨h1, h2⟩ h
    · rw [hx] at hx'
      cases hx'
      simp only [cellAt, hr', Option.bind_some, he]
      refine ⟨?_, ?_, ?_, ?_⟩ <;> rw [patched_get p r x hl] <;> simp
  · intro i j hnot
    unfold cellAt
    cases hr' : rows'[i]? with
    | none =>
      have : rows'.length ≤ i := List.getElem?_eq_none_iff.1 hr'
      have : rows[i]? = none := List.getElem?_eq_none_iff.2 (by omega)
      simp [this]
    | some r' =>
      rcases hrow i r' hr' with ⟨h, _⟩ | ⟨r, x, h, _, h1, h2, hl, he⟩
      · simp [h]
      · have hj : ¬ (j = 6 ∨ j = 7 ∨ j = 8 ∨ j = 21) := fun hj => hnot ⟨h1, h2, hj⟩
        simp only [not_or] at hj
        simp only [h, Option.bind_some, he]
        rw [patched_get p r x hl]
        simp [hj.1, hj.2.1, hj.2.2.1, hj.2.2.2]

/-- `write_epw` raises IndexError whenever the (non-empty) window leaves the data - it never writes a file
with a shifted or truncated window. -/
theorem write_fails_outside (hdr rows : List Row) (s : Nat) (res : List Res) (p : Nat)
    (hw : rows.length < s + res.length) (hres : res ≠ []) :
    writeEpw hdr rows s res p = none := by
  have key : ∀ (res : List Res) (rows : List Row) (s : Nat), rows.length < s + res.length →
      patchRows p rows s res = none ∨ res = [] := by
    intro res
    induction res with
    | nil => intro _ _ _; exact Or.inr rfl
    | cons x xs ih =>
      intro rows s hw
      left
      simp only [patchRows]
      cases hr : rows[s]? with
      | none => rfl
      | some r =>
        simp only [patchRow_eq]
        split
        · simp only [Option.bind_some]
          have hs : s < rows.length := by
            rcases Nat.lt_or_ge s rows.length with h | h
            · exact h
            · rw [List.getElem?_eq_none_iff.2 h] at hr; cases hr
          have : (rows.set s (patched p r x)).length < s + 1 + xs.length := by
            rw [List.length_set]; simp only [List.length_cons] at hw; omega
          rcases ih _ _ this with h' | h'
          · exact h'
          · subst h'
            simp only [List.length_nil, List.length_set] at this
            omega
        · rfl
  rcases key res rows s hw with h' | h'
  · simp [writeEpw, h']
  · exact absurd h' hres

/-! ### T3 - the rewritten fields are decimal numbers at the configured precision -/

/-- **T3.** For a value `num/den` (`den > 0`) and precision `p` the rewritten field is
`-?d+(.d{p})?`: an optional minus sign (present exactly when the value is negative), a non-empty string of
decimal digits, and - when `p > 0` - a point followed by exactly `p` digits; no other character occurs.
Read as an integer number of units of `10^-p`, the digits denote the integer `n` nearest to
`|num/den|·10^p` (`|n·den - |num|·10^p| ≤ den/2`, ties to even), i.e. the printed number is within
`½·10^-p` of the value. -/
theorem fmtFixed_shape (num : Int) (den p : Nat) (hden : 0 < den) :
    ∃ ip fp : List Char,
      fmtFixed num den p = (if num < 0 then ['-'] else []) ++ ip ++ (if p = 0 then [] else '.' :: fp) ∧
      ip ≠ [] ∧ (∀ c ∈ ip, c.isDigit = true) ∧ fp.length = p ∧ (∀ c ∈ fp, c.isDigit = true) ∧
      2 * (decValue (ip ++ fp) * den) ≤ 2 * (num.natAbs * 10 ^ p) + den ∧
      2 * (num.natAbs * 10 ^ p) ≤ 2 * (decValue (ip ++ fp) * den) + den ∧
      (2 * (num.natAbs * 10 ^ p % den) = den → decValue (ip ++ fp) % 2 = 0) := by
  refine ⟨natDigits (fmtScaled num den p / 10 ^ p), fixedDigits p (fmtScaled num den p % 10 ^ p),
    fmtFixed_eq num den p, natDigits_ne_nil _, natDigits_isDigit _, fixedDigits_length _ _,
    fixedDigits_isDigit _ _, ?_⟩
  have hv : decValue (natDigits (fmtScaled num den p / 10 ^ p) ++
      fixedDigits p (fmtScaled num den p % 10 ^ p)) = fmtScaled num den p := by
    rw [decValue_append_fixed, decValue_natDigits, Nat.mod_mod]
    exact Nat.div_add_mod' _ _
  rw [hv]
  exact roundHalfEven_spec _ _ hden

/-- The rewritten fields contain no comma, quote or line break, so they are written unquoted and read back
as one field. -/
theorem fmtFixed_plain (num : Int) (den p : Nat) :
    ∀ c ∈ fmtFixed num den p, c ≠ '\n' ∧ c ≠ '\r' ∧ c ≠ ',' ∧ c ≠ '"' :=
  fun c hc => okChar_ne_nl (fmtFixed_okChar num den p c hc)

/-! ### T4 - the default output name differs from the input name -/

/-- **T4.** The default name of the morphed file is never the name of the rural file (so with the default
directory the output path differs from the input path and the rural file is not overwritten). -/
theorem default_name_ne (n : List Char) : defaultName n ≠ n := by
  intro h
  have hl := congrArg List.length h
  unfold defaultName at hl
  by_cases he : endsWithEpw n = true
  · rw [if_pos he] at hl
    have h4 : ((n.drop (n.length - 4)).map Char.toLower).length = 4 := by
      have : (n.drop (n.length - 4)).map Char.toLower = suffixEpw := by
        simpa [endsWithEpw] using he
      rw [this]; rfl
    simp only [List.length_map, List.length_drop] at h4
    simp only [List.length_append, List.length_take, suffixUwg, List.length_cons, List.length_nil] at hl
    omega
  · rw [if_neg he] at hl
    simp only [List.length_append, suffixUwg, List.length_cons, List.length_nil] at hl
    omega

/-! ### T5 - the writer before the repair (documented defects) -/

/-- Pre-repair writer: a data row is written with its last field twice (2 fields become 3). -/
theorem asis_dup_field :
    parseLine (renderRowAsis [['1'], ['2']]) = [['1'], ['2'], ['2']] := by decide

/-- Pre-repair writer: a header cell containing a comma is written unquoted and reads back as two
fields (the repaired writer returns the row, by T1). -/
theorem asis_header_split :
    parseLine (renderHeaderAsis [['C'], ['a', ',', 'b']]) = [['C'], ['a'], ['b']] ∧
    parseLine (renderRow [['C'], ['a', ',', 'b']]) = [['C'], ['a', ',', 'b']] := by decide

/-! ### non-vacuity -/

/-- A concrete file satisfying the hypotheses of T2 (one data row of 22 cells, one of them containing a
comma and a quote; window = that row), with the resulting text. -/
example :
    let row : Row := [['a', ',', '"']] ++ List.replicate 21 ['0']
    let hdr : List Row := List.replicate 8 [['H'], ['x', ',', 'y']]
    let r : Res := ⟨⟨5, 2⟩, ⟨-1, 100⟩, ⟨1, 8⟩, ⟨7, 1⟩⟩
    hdr.length = 8 ∧ 0 + [r].length ≤ [row].length ∧ 22 ≤ row.length ∧
    (writeEpw hdr [row] 0 [r] 0).isSome = true ∧
    fmtFrac r.tdb 0 = ['2'] ∧ fmtFrac r.tdp 1 = ['-', '0', '.', '0'] ∧
    fmtFrac r.rh 2 = ['0', '.', '1', '2'] := by
  refine ⟨rfl, by decide, by decide, ?_, ?_, ?_, ?_⟩
  · simp [writeEpw, patchRows, patchRow, setCol]
  · simp [fmtFrac, fmtFixed, fmtScaled, roundHalfEven, natDigits, digitChar]
  · simp [fmtFrac, fmtFixed, fmtScaled, roundHalfEven, natDigits, fixedDigits, digitChar]
  · simp [fmtFrac, fmtFixed, fmtScaled, roundHalfEven, natDigits, fixedDigits, digitChar]

end Uwg.C01
