/-
Composition C — the physics time step of `UWG.simulate` as one function (`Model/Step.lean`).

`Step.phys S C` packages `Step.step` / `Step.record` as an instance of the interface `Sim.Phys` over
which the C03 (causality) and C10 (fail-stop) theorems are proved for an *arbitrary* physics. The
corollaries below instantiate them at the concrete physics; each is one line from the generic theorem.
What the footprint scan of C03 used to assume ("a step reads only its state, the current row, the clock
and the deep temperatures") is now the *type* of `step`, tied to the real loop body by the exact
correspondence of `harness/props/step.py`; `step_footprint` states it for a whole forcing table.

The cross-kernel facts are the step-level forms of C09 (`step_canHum_is_rural`, `step_record_*`),
C02/C01 (`step_wind_recorded`), C10 (`step_canTemp_bounds`, `step_zero_load_defined`), C18
(`step_offseason_bare`) and C14 (`step_hvac_never_both`); kernel facts are reused, not re-proved.
-/
import UwgVerif.Lemmas.Step
import UwgVerif.Props.C03
import UwgVerif.Props.C10
import UwgVerif.Props.C14
import UwgVerif.Props.C15

namespace Uwg.StepProps
open Uwg Uwg.Step Uwg.Sim Uwg.C02

variable {K : Type} [Field K] [LinearOrder K] [IsStrictOrderedRing K]

/-! ## The concrete physics in the theorems of C03 and C10 -/

/-- `step_phys`: the loop body and the record block *are* the two fields of the physics that the driver
    model iterates. -/
theorem step_phys (S : Sym K) (C : Cfg K) :
    (phys S C).step = step S C ∧ (phys S C).record = record := ⟨rfl, rfl⟩

/-- C03-T1 for uwg's own physics: with the deep temperature taken from the monthly table of the header,
    the records for hours `0 … h` are the same for any two rural windows that agree on rows `0 … h`. -/
theorem step_causal (S : Sym K) (C : Cfg K) (table : Nat → Deep K) (dt M Dy days : Nat)
    (rows rows' : List (FRow K)) (s0 : State K) (h : Nat)
    (hv : Valid ⟨dt, M, Dy, days, rows.length⟩) (hv' : Valid ⟨dt, M, Dy, days, rows'.length⟩)
    (hh : h < 24 * days) (hrows : rows.take (h + 1) = rows'.take (h + 1)) :
    (recordsOf (simulate (phys S C) (.monthly table) dt M Dy days rows s0)).take (h + 1) =
    (recordsOf (simulate (phys S C) (.monthly table) dt M Dy days rows' s0)).take (h + 1) :=
  C03.causal (phys S C) table dt M Dy days rows rows' s0 h hv hv' hh hrows

/-- C03-T2: simulating more days leaves the records of the shorter run unchanged. -/
theorem step_extend_days (S : Sym K) (C : Cfg K) (table : Nat → Deep K) (dt M Dy d₁ d₂ : Nat)
    (rows : List (FRow K)) (s0 : State K) (hd : d₁ ≤ d₂) (hpos : 0 < d₁)
    (hv₁ : Valid ⟨dt, M, Dy, d₁, (rows.take (24 * d₁)).length⟩)
    (hv₂ : Valid ⟨dt, M, Dy, d₂, rows.length⟩) :
    (recordsOf (simulate (phys S C) (.monthly table) dt M Dy d₁ (rows.take (24 * d₁)) s0)).take (24 * d₁) =
    (recordsOf (simulate (phys S C) (.monthly table) dt M Dy d₂ rows s0)).take (24 * d₁) :=
  C03.extend_days (phys S C) table dt M Dy d₁ d₂ rows s0 hd hpos hv₁ hv₂

/-- C03-T3: only the rows of the simulated window of the rural file are read. -/
theorem step_outside_window_irrelevant {α : Type} (S : Sym K) (C : Cfg K) (b : Bool)
    (table : Nat → Deep K) (mean : List (FRow K) → Deep K) (proj : α → FRow K) (dt M Dy days : Nat)
    (file file' : List α) (init : Option (FRow K) → State K)
    (hwin : ∀ i, 24 * (Clock.init M Dy).julian ≤ i → i < 24 * (Clock.init M Dy).julian + 24 * days →
      file[i]? = file'[i]?) :
    simulateFile (phys S C) b table mean proj dt M Dy days file init =
    simulateFile (phys S C) b table mean proj dt M Dy days file' init :=
  C03.outside_window_irrelevant (phys S C) b table mean proj dt M Dy days file file' init hwin

/-- C03-T4: columns of the rural file outside the projection onto `FRow` do not matter. -/
theorem step_unmodelled_columns_irrelevant {α : Type} (S : Sym K) (C : Cfg K) (b : Bool)
    (table : Nat → Deep K) (mean : List (FRow K) → Deep K) (proj : α → FRow K) (dt M Dy days : Nat)
    (file file' : List α) (init : Option (FRow K) → State K)
    (hcols : (window M Dy days file).map proj = (window M Dy days file').map proj) :
    simulateFile (phys S C) b table mean proj dt M Dy days file init =
    simulateFile (phys S C) b table mean proj dt M Dy days file' init :=
  C03.unmodelled_columns_irrelevant (phys S C) b table mean proj dt M Dy days file file' init hcols

/-- C03-T5: with fewer than three ground depths later rows act only through the window mean. -/
theorem step_nsoil_lt3_only_via_mean (S : Sym K) (C : Cfg K) (m m' : Deep K) (dt M Dy days : Nat)
    (rows rows' : List (FRow K)) (s0 : State K) (h : Nat)
    (hv : Valid ⟨dt, M, Dy, days, rows.length⟩) (hv' : Valid ⟨dt, M, Dy, days, rows'.length⟩)
    (hh : h < 24 * days) (hrows : rows.take (h + 1) = rows'.take (h + 1)) (hm : m = m') :
    (recordsOf (simulate (phys S C) (.windowMean m) dt M Dy days rows s0)).take (h + 1) =
    (recordsOf (simulate (phys S C) (.windowMean m') dt M Dy days rows' s0)).take (h + 1) :=
  C03.nsoil_lt3_only_via_mean (phys S C) m m' dt M Dy days rows rows' s0 h hv hv' hh hrows hm

/-- C10-T2a: a run of uwg's own physics that returns has every one of its `24·days` records. -/
theorem step_records_complete (S : Sym K) (C : Cfg K) (soil : Soil (Deep K)) (dt M Dy days : Nat)
    (rows : List (FRow K)) (s0 s' : State K) (recs : List (Rec K))
    (hv : Valid ⟨dt, M, Dy, days, rows.length⟩)
    (h : simulate (phys S C) soil dt M Dy days rows s0 = .ok (s', recs)) : recs.length = 24 * days :=
  C10.records_complete_on_return (phys S C) soil dt M Dy days rows s0 s' recs hv h

/-- C10-T2c: all records, or an exception — nothing else. -/
theorem step_return_or_exception (S : Sym K) (C : Cfg K) (soil : Soil (Deep K)) (dt M Dy days : Nat)
    (rows : List (FRow K)) (s0 : State K) (hv : Valid ⟨dt, M, Dy, days, rows.length⟩) :
    (∃ s' recs, simulate (phys S C) soil dt M Dy days rows s0 = .ok (s', recs) ∧
      recs.length = 24 * days) ∨
    (∃ recs e, simulate (phys S C) soil dt M Dy days rows s0 = .error (recs, e)) :=
  C10.return_or_exception (phys S C) soil dt M Dy days rows s0 hv

/-! ## Footprint -/

/-- **`step_footprint`.** The outcome of the loop body is a function of the state, the clock view, the
    deep temperatures, the parameters and the *current* row of the forcing table: two tables that agree
    on row `ceil_time_step` give the same outcome (new state or exception), whatever their other rows
    hold — for one pass (`body`) and hence for the driver loop over any trace (`Sim.runSteps`). -/
theorem step_footprint (S : Sym K) (C : Cfg K) (tab tab' : List (FRow K)) (d : Deep K) (s : State K)
    (t : StepTrace) (hrow : tab[t.row]? = tab'[t.row]?) :
    body S C tab d s t = body S C tab' d s t ∧
    ∀ acc, runSteps (phys S C) (fun _ => d) tab [t] s acc =
           runSteps (phys S C) (fun _ => d) tab' [t] s acc := by
  refine ⟨by unfold body; rw [hrow], fun acc => ?_⟩
  exact runSteps_congr (phys S C) _ _ tab tab' [t] (by simpa using hrow) s acc

/-- **`step_run_footprint`.** The same for any number of passes: the driver loop over a trace reads the
    forcing table only at the rows `ceil_time_step` of its passes (and the deep temperatures only at
    those passes). -/
theorem step_run_footprint (S : Sym K) (C : Cfg K) (deep deep' : StepTrace → Deep K)
    (tab tab' : List (FRow K)) (tr : List StepTrace)
    (h : ∀ t ∈ tr, tab[t.row]? = tab'[t.row]? ∧ deep t = deep' t) (s : State K) (acc : List (Rec K)) :
    runSteps (phys S C) deep tab tr s acc = runSteps (phys S C) deep' tab' tr s acc :=
  runSteps_congr (phys S C) deep deep' tab tab' tr h s acc

/-- **`step_stale_forcing_dead`.** The forcing object left by the previous pass is never read: the
    selection block overwrites every field before anything uses it. -/
theorem step_stale_forcing_dead (S : Sym K) (C : Cfg K) (s : State K) (f' : Forcing K) (t : StepTrace)
    (r : FRow K) (d : Deep K) :
    step S C { s with forc := f' } t r d = step S C s t r d := rfl

/-- **`step_forcing_selected`.** After a pass, `forc` holds the current row verbatim, the wind raised
    to `windMin`, and the deep / ground-water temperatures handed in. -/
theorem step_forcing_selected {S : Sym K} {C : Cfg K} {s s' : State K} {t : StepTrace} {r : FRow K}
    {d : Deep K} (h : step S C s t r d = .ok s') : s'.forc = forcOf C.par.windMin r d := by
  obtain ⟨st, rfl⟩ := step_ok_inv h
  rfl

/-! ## C09 at step level -/

/-- **`step_canHum_is_rural`.** The canyon moisture after a pass is the humidity ratio of the rural
    row of that pass — nothing is added or removed by the physics. -/
theorem step_canHum_is_rural {S : Sym K} {C : Cfg K} {s s' : State K} {t : StepTrace} {r : FRow K}
    {d : Deep K} (h : step S C s t r d = .ok s') : s'.ucm.canHum = r.hum := by
  obtain ⟨st, rfl⟩ := step_ok_inv h
  rfl

/-- **`step_record_defined`.** At a record step that returns, `UCM.canRHum` and `UCM.Tdp` are the
    relative humidity and dew point `psychrometrics` computes from the NEW canyon temperature, the
    rural humidity ratio and the rural pressure of the row (so the defaults in `Step.record` are not
    used there). -/
theorem step_record_defined {S : Sym K} {C : Cfg K} {s s' : State K} {t : StepTrace} {r : FRow K}
    {d : Deep K} (h : step S C s t r d = .ok s') (hrec : t.recorded = true) :
    ∃ p, psychro S s'.ucm.canTemp r.hum r.pres = .ok p ∧ s'.ucm.canRHum = some p.phi ∧
      s'.ucm.tdp = some p.tdp ∧
      record s' t r = { canTemp := s'.ucm.canTemp, tdp := p.tdp, canRHum := p.phi,
                        wind := max r.wind C.par.windMin } := by
  obtain ⟨st, rfl⟩ := step_ok_inv h
  have hp := st.hpsy
  unfold recordStage at hp
  rw [hrec] at hp
  simp only [if_true] at hp
  have hT : st.post.ucm.canTemp = st.uc.canTemp := rfl
  cases hq : psychro S st.uc.canTemp (forcOf C.par.windMin r d).hum (forcOf C.par.windMin r d).pres with
  | error e => rw [hq] at hp; simp at hp
  | ok p =>
    rw [hq] at hp
    simp only [Except.ok.injEq] at hp
    refine ⟨p, by rw [hT]; exact hq, ?_, ?_, ?_⟩
    · simp only [Stages.post, assemble, ← hp]
    · simp only [Stages.post, assemble, ← hp]
    · simp only [Stages.post, record, assemble, ← hp, Option.getD_some, forcOf]

/-- **`step_record_is_recordHumidity`.** The link to C09: when the row's humidity ratio is what
    `Weather` computed from the rural (RH, T, P) of that row, the pair stored at a record step is
    exactly `Uwg.recordHumidity` of `Props/C09.lean` at the new canyon temperature. -/
theorem step_record_is_recordHumidity {S : Sym K} {C : Cfg K} {s s' : State K} {t : StepTrace}
    {r : FRow K} {d : Deep K} (row : RuralRow K) (h : step S C s t r d = .ok s')
    (hrec : t.recorded = true) (hw : canHumOf S row = .ok r.hum) (hp : row.pres = r.pres) :
    ∃ p, recordHumidity S row s'.ucm.canTemp = .ok p ∧ s'.ucm.canRHum = some p.phi ∧
      s'.ucm.tdp = some p.tdp := by
  obtain ⟨p, h1, h2, h3, _⟩ := step_record_defined h hrec
  exact ⟨p, by unfold recordHumidity; rw [hw, hp]; exact h1, h2, h3⟩

/-! ## C02 / C01 at step level -/

/-- **`step_wind_recorded`.** The wind that is recorded (and later written to column 21) is
    `max(rural wind of the row, windMin)`; every other recorded cell of `forc` is the row's. -/
theorem step_wind_recorded {S : Sym K} {C : Cfg K} {s s' : State K} {t : StepTrace} {r : FRow K}
    {d : Deep K} (h : step S C s t r d = .ok s') :
    (record s' t r).wind = max r.wind C.par.windMin ∧ s'.forc.wind = max r.wind C.par.windMin := by
  have := step_forcing_selected h
  exact ⟨by simp only [record, this, forcOf], by simp only [this, forcOf]⟩

/-! ## C10 at step level -/

/-- **`step_canTemp_bounds`.** A pass that returns leaves the canyon temperature inside the window
    that `UCModel` checks: 200 K ≤ canTemp ≤ 350 K. -/
theorem step_canTemp_bounds {S : Sym K} {C : Cfg K} {s s' : State K} {t : StepTrace} {r : FRow K}
    {d : Deep K} (h : step S C s t r d = .ok s') :
    200 ≤ s'.ucm.canTemp ∧ s'.ucm.canTemp ≤ 350 := by
  obtain ⟨st, rfl⟩ := step_ok_inv h
  obtain ⟨_, _, h1, h2⟩ := C15.ucModel_ok _ _ _ st.huc
  have hT : st.post.ucm.canTemp = st.uc.canTemp := rfl
  rw [hT]; exact ⟨h1, h2⟩

/-- C10-T3 for uwg's own physics: every record stored by a run — returned or aborted — has its canyon
    temperature inside 200 … 350 K. -/
theorem step_bounds_on_return (S : Sym K) (C : Cfg K) (soil : Soil (Deep K)) (dt M Dy days : Nat)
    (rows : List (FRow K)) (s0 : State K) :
    ∀ x ∈ recordsOf (simulate (phys S C) soil dt M Dy days rows s0),
      200 ≤ x.canTemp ∧ x.canTemp ≤ 350 :=
  C10.bounds_on_return (phys S C) soil dt M Dy days rows s0
    (fun s => 200 ≤ s.ucm.canTemp ∧ s.ucm.canTemp ≤ 350) (fun x => 200 ≤ x.canTemp ∧ x.canTemp ≤ 350)
    (fun _ _ _ _ _ h => step_canTemp_bounds h) (fun _ _ _ h => h)

/-- **`step_zero_load_defined`.** For every building, in every pass that gets past the schedule block,
    the internal load `light + elec + Qocc` is non-negative (the `int_heat_night` setter), and the radiant
    and latent fractions are the guarded ratios of `C10.zero_load_defined`: `0` when the load is zero,
    the quotients otherwise — the loop body never divides by a zero load. -/
theorem step_zero_load_defined {C : Cfg K} {di hi : Nat} {rr wr : K} {scs : List (Sched K)}
    {bs bs' : List (Bld K)} (h : glueAll C di hi rr wr scs bs = .ok bs') :
    ∀ b' ∈ bs', 0 ≤ b'.intHeatDay ∧
      (b'.intHeatDay = 0 → b'.intHeatFRad = 0 ∧ b'.intHeatFLat = 0) ∧
      (b'.intHeatDay ≠ 0 → b'.intHeatFRad = (C.radflight * b'.light + C.radfequip * b'.elec) / b'.intHeatDay ∧
        b'.intHeatFLat = C.latfocc * C.sensocc * b'.nocc / b'.intHeatDay) := by
  intro b' hb
  obtain ⟨sc, b, hg⟩ := glueAll_mem h b' hb
  obtain ⟨h0, hd, _, _, _, hf, _⟩ := glueBld_ok hg
  rw [hd]
  refine ⟨h0, fun hz => ?_, fun hnz => ?_⟩
  · have : Sim.loadFractions b'.light b'.elec b'.qocc b'.nocc C.radflight C.radfequip C.latfocc
        C.sensocc = (0, 0) := by simp [Sim.loadFractions, hz]
    rw [this] at hf
    exact ⟨(Prod.mk.inj hf).1, (Prod.mk.inj hf).2⟩
  · have hpos : 0 < b'.light + b'.elec + b'.qocc := lt_of_le_of_ne h0 (Ne.symm hnz)
    have : Sim.loadFractions b'.light b'.elec b'.qocc b'.nocc C.radflight C.radfequip C.latfocc
        C.sensocc = ((C.radflight * b'.light + C.radfequip * b'.elec) / (b'.light + b'.elec + b'.qocc),
          C.latfocc * C.sensocc * b'.nocc / (b'.light + b'.elec + b'.qocc)) := by
      simp [Sim.loadFractions, hpos]
    rw [this] at hf
    exact ⟨(Prod.mk.inj hf).1, (Prod.mk.inj hf).2⟩

/-- **`step_schedule_lookups`** (C04 "consequently ..." at the concrete per-building block; round 8). In every pass
    that returns, EVERY building - whether the hour carries internal load or not - is handed the entries of its
    schedule set at the step's day type `di` and hour `hi`: hot water, gas, both set points (day and night), and the
    load fractions of that same hour. No hour is skipped and none is remembered from an earlier step. -/
theorem step_schedule_lookups {C : Cfg K} {di hi : Nat} {rr wr : K} {scs : List (Sched K)}
    {bs bs' : List (Bld K)} (h : glueAll C di hi rr wr scs bs = .ok bs') :
    ∀ b' ∈ bs', ∃ sc : Sched K, ∃ cool heat fe fl fo fs fg : K,
      look sc.cool di hi = .ok cool ∧ look sc.heat di hi = .ok heat ∧ look sc.elec di hi = .ok fe ∧
      look sc.light di hi = .ok fl ∧ look sc.occ di hi = .ok fo ∧ look sc.swh di hi = .ok fs ∧
      look sc.gas di hi = .ok fg ∧
      b'.swh = sc.vSwh * fs ∧ b'.gas = sc.qGas * fg ∧ b'.vent = sc.vent ∧
      b'.coolSetDay = cool + 273.15 ∧ b'.coolSetNight = cool + 273.15 ∧
      b'.heatSetDay = heat + 273.15 ∧ b'.heatSetNight = heat + 273.15 ∧
      b'.elec = sc.qElec * fe ∧ b'.light = sc.qLight * fl ∧ b'.nocc = sc.nOcc * fo := by
  intro b' hb
  obtain ⟨sc, b, hg⟩ := glueAll_mem h b' hb
  unfold glueBld at hg
  simp only [bind_ok, ensure_ok] at hg
  obtain ⟨cool, hc, heat, hh, fe, he, fl, hl, fo, ho, fs, hs, _, _, fg, hgs, _, _, _, _, twx, _, twi, _,
    trx, _, tri, _, hfin⟩ := hg
  cases hfin
  exact ⟨sc, cool, heat, fe, fl, fo, fs, fg, hc, hh, he, hl, ho, hs, hgs, rfl, rfl, rfl, rfl, rfl, rfl, rfl,
    rfl, rfl, rfl⟩

/-! ## C14 at step level -/

/-- **`step_hvac_never_both`.** In every pass that returns, for EVERY building: `BEMCalc` ran, and
    either the heating quantities or the cooling quantities it left on the building are all zero
    (C14 `never_both`, for the inputs the loop body actually hands to `BEMCalc`). -/
theorem step_hvac_never_both {S : Sym K} {C : Cfg K} {s s' : State K} {t : StepTrace} {r : FRow K}
    {d : Deep K} (h : step S C s t r d = .ok s') :
    ∀ b ∈ s'.blds, ∃ o, b.out = some o ∧
      ((o.Qheat = 0 ∧ o.heatConsump = 0) ∨ (o.Qhvac = 0 ∧ o.coolConsump = 0 ∧ o.dehumDemand = 0)) := by
  obtain ⟨st, rfl⟩ := step_ok_inv h
  intro b hb
  have hb' : b ∈ st.hd.1 := hb
  obtain ⟨b0, hb0⟩ := (headAll_mem st.hhd).2 b hb'
  obtain ⟨i, phi, ho, _⟩ := headBld_out hb0
  exact ⟨_, ho, C14.never_both phi i⟩

/-- **`step_blds_length`.** A pass neither adds nor drops a building. -/
theorem step_blds_length {S : Sym K} {C : Cfg K} {s s' : State K} {t : StepTrace} {r : FRow K}
    {d : Deep K} (h : step S C s t r d = .ok s') : s'.blds.length = s.blds.length := by
  obtain ⟨st, rfl⟩ := step_ok_inv h
  have : st.post.blds = st.hd.1 := rfl
  rw [this, (headAll_mem st.hhd).1, glueAll_length st.hglue]

/-! ## C18 at step level -/

/-- **`step_offseason_formula`.** C18 for the whole pass, explicit form: when the month of the advanced clock lies
    outside `vegStart … vegEnd`, a pass that returns releases no vegetation heat into the canyon
    (`treeSensHeat = treeLatHeat = 0`), and the rural road and the urban road — when they are
    horizontal elements, as `generate()` builds them — absorbed exactly `(1 − albedo)·solRec` of what
    `solarcalcs` of this pass stored on them and have no latent flux: bare ground, whatever the
    vegetation fractions, vegetation albedo and latent fractions are. -/
theorem step_offseason_formula {S : Sym K} {C : Cfg K} {s s' : State K} {t : StepTrace} {r : FRow K}
    {d : Deep K} (h : step S C s t r d = .ok s')
    (hoff : t.month < C.par.vegStart ∨ t.month > C.par.vegEnd) :
    s'.ucm.treeSensHeat = 0 ∧ s'.ucm.treeLatHeat = 0 ∧
    (s.rural.horizontal = true →
      s'.rural.solAbs = (1 - s'.rural.albedo) * s'.rural.solRec ∧ s'.rural.lat = 0) ∧
    (s.ucm.road.horizontal = true →
      s'.ucm.road.solAbs = (1 - s'.ucm.road.albedo) * s'.ucm.road.solRec ∧ s'.ucm.road.lat = 0) := by
  obtain ⟨st, rfl⟩ := step_ok_inv h
  obtain ⟨z1, z2⟩ := solar_offseason st.hsol hoff
  have hoffE : ∀ (hr tr wr bc fx : K),
      offSeasonElement (surfArgs C t (forcOf C.par.windMin r d) hr tr wr bc fx).month
        (surfArgs C t (forcOf C.par.windMin r d) hr tr wr bc fx).vegStart
        (surfArgs C t (forcOf C.par.windMin r d) hr tr wr bc fx).vegEnd = true := by
    intro _ _ _ _ _
    simp only [surfArgs, offSeasonElement, Bool.or_eq_true]
    rcases hoff with h | h
    · exact .inl (decide_eq_true h)
    · exact .inr (decide_eq_true h)
  have e1 : st.post.ucm.treeSensHeat = st.sol.treeSens := rfl
  have e2 : st.post.ucm.treeLatHeat = st.sol.treeLat := rfl
  have e3 : st.post.rural = st.rural := rfl
  have e4 : st.post.ucm.road = st.road := rfl
  refine ⟨by rw [e1, z1], by rw [e2, z2], fun hh => ?_, fun hh => ?_⟩
  · have hr := st.hrural
    unfold ruralStage at hr
    simp only [bind_ok] at hr
    obtain ⟨t0, _, hsf⟩ := hr
    obtain ⟨a1, a2, a3, a4⟩ := surfFlux_offseason hsf hh (hoffE _ _ _ _ _)
    rw [e3, a1, a2, a3, a4]
    exact ⟨rfl, rfl⟩
  · have hr := st.hroad
    unfold roadStage at hr
    cases he : st.hd.2.eWall with
    | none => rw [he] at hr; cases hr
    | some ew =>
      rw [he] at hr
      obtain ⟨a1, a2, a3, a4⟩ := surfFlux_offseason hr hh (hoffE _ _ _ _ _)
      rw [e4, a1, a2, a3, a4]
      exact ⟨rfl, rfl⟩

/-- **`step_offseason_bare_normal`.** C18 for the whole pass, as an equation: outside the vegetation season
    the pass on the configuration and state with ALL vegetation data erased (`bareC`, `bareS`: vegetation
    albedo, latent fractions, tree and vegetation cover of the canyon, `vegcoverage` and grass / tree
    cover of every element) has the same outcome - new state or exception class - as the pass on the
    original ones, up to those erased fields themselves. -/
theorem step_offseason_bare_normal (S : Sym K) (C : Cfg K) (s : State K) (t : StepTrace) (r : FRow K)
    (d : Deep K) (hoff : Off C t) :
    step S (bareC C) (bareS s) t r d = (step S C s t r d).map bareS := by
  unfold step
  simp only [map_bind, map_pure]
  apply bind_congr_left (solar_bare (forcOf C.par.windMin r d) s.ucm.road hoff); intro sol
  apply bind_congr'; intro tr
  apply bind_map_congr (glueAll_bare C (dayIdx t) t.hourDay sol.roofRec sol.wallRec C.sch s.blds)
  intro blds1
  apply bind_map_congr (ruralStage_bare (forcOf C.par.windMin r d) sol.ruralRec s.rural hoff)
  intro rural
  apply bind_congr'; intro rsm
  apply bind_map_congr (headAll_bare (forcOf C.par.windMin r d) s.ucm.canTemp
    (forcOf C.par.windMin r d).hum s.ucm.canWind s.ucm.roadTemp s.ucm.road.emissivity hoff blds1
    { wallTemp := 0, roofTemp := 0, eWall := none })
  intro hd
  apply bind_map_congr (roadStage_bare (forcOf C.par.windMin r d) sol.roadRec s.ucm.canTemp
    (forcOf C.par.windMin r d).hum s.ucm.canWind s.ucm.roadTemp hd.2 s.ucm.road hoff)
  intro road
  apply bind_congr'; intro roadT
  apply bind_congr'; intro tl
  apply bind_congr_left (airBlds_bare hd.1); intro ab
  apply bind_congr'; intro uc
  apply bind_congr'; intro ub
  apply bind_congr'; intro psy
  rfl


/-- **`step_offseason_bare`.** Outside the vegetation season the whole outcome of a pass - every
    temperature, flux and record, or the exception - is independent of the vegetation data: two
    configurations and states that differ ONLY in vegetation albedo, latent fractions, tree / vegetation
    cover and the vegetation fractions of their elements give the same outcome (compared with those
    fields erased). -/
theorem step_offseason_bare (S : Sym K) (C C' : Cfg K) (s s' : State K) (t : StepTrace) (r : FRow K)
    (d : Deep K) (hC : bareC C = bareC C') (hs : bareS s = bareS s') (hoff : Off C t) :
    (step S C s t r d).map bareS = (step S C' s' t r d).map bareS := by
  have h1 : C.par.vegStart = C'.par.vegStart := congrArg (fun c => c.par.vegStart) hC
  have h2 : C.par.vegEnd = C'.par.vegEnd := congrArg (fun c => c.par.vegEnd) hC
  have hoff' : Off C' t := by unfold Off at hoff ⊢; rw [← h1, ← h2]; exact hoff
  rw [← step_offseason_bare_normal S C s t r d hoff, ← step_offseason_bare_normal S C' s' t r d hoff',
    hC, hs]

/-! ## Non-vacuity: a concrete small city for which a pass returns (evaluated by the kernel over ℚ) -/

def exElem (horizontal : Bool) (t1 t2 : ℚ) : Elem ℚ :=
  { horizontal := horizontal, albedo := 1 / 5, emissivity := 9 / 10, vegcoverage := 1 / 10,
    roadCover := none, layers := [⟨1 / 10, 1, 1000000, t1⟩, ⟨1 / 5, 3 / 2, 1500000, t2⟩], solRec := 0,
    infra := 0, aeroCond := 0, solAbs := 0, lat := 0, sens := 0, flux := 0, tExt := 293, tInt := 293 }

def exWeek (x : ℚ) : List (List ℚ) := List.replicate 3 (List.replicate 24 x)

def exCfg : Cfg ℚ :=
  { par := { dayBLHeight := 1000, windHeight := 10, circCoeff := 6 / 5, dayThreshold := 200,
             treeFLat := 7 / 10, grassFLat := 1 / 2, vegAlbedo := 1 / 4, vegStart := 4, vegEnd := 10,
             nightSetStart := 18, nightSetEnd := 8, windMin := 1, exCoeff := 1, g := 981 / 100,
             cp := 1004, vk := 2 / 5, r := 287, lv := 2560000, waterDens := 1000 },
    dt := 300, inobis := inobis, lat := 1, lon := 104, gmt := 8, sigma := 567 / 10000000000,
    sensanth := 20, schtraffic := exWeek (1 / 2), sensocc := 100, latfocc := 3 / 10,
    radflight := 7 / 10, radfequip := 1 / 2,
    sch := [{ elec := exWeek (1 / 2), gas := exWeek (1 / 2), light := exWeek (1 / 2),
              occ := exWeek (1 / 2), cool := exWeek 24, heat := exWeek 20, swh := exWeek (1 / 2),
              qElec := 10, qGas := 1, qLight := 10, nOcc := 1 / 20, vent := 1 / 1000, vSwh := 1 / 2 }],
    bldHeight := 10, bldDensity := 1 / 2, verToHor := 4 / 5, treeCoverage := 1 / 10, vegcover := 1 / 5,
    roadShad := 1 / 5, canAspect := 6 / 5, roadConf := 1 / 2, wallConf := 1 / 4, facArea := 1000,
    roadArea := 500, roofArea := 625, z0u := 3 / 2, lDisp := 7, albWall := 1 / 5, hMix := 1,
    latAnthrop := none, nzref := 2, nzfor := 1, z := [10, 70, 160], dz := [20, 100, 80],
    z0r := 1 / 100, disp := 1 / 20, ublDayBLHeight := 1000, ublNightBLHeight := 50,
    orthLength := 1000, urbArea := 1000000, perimeter := 4000, paralLength := 250,
    charLength := 1000, nightCount := some 4 }

def exState : State ℚ :=
  { forc := ⟨0, 0, 0, 0, 0, 0, 0, 0, 0, 0, 0, 0⟩,
    ucm := { road := { exElem true 302 300 with roadCover := some (1 / 10, 1 / 10) }, canTemp := 301,
             roadTemp := 302, canHum := 1 / 100, canWind := 2, ustar := 0, ustarMod := 0, uExch := 0,
             turbU := 0, turbV := 0, turbW := 0, sensHeat := 50, latHeat := none, windProf := [],
             sensAnthrop := 0, treeSensHeat := 0, treeLatHeat := 0, solRecRoof := 0, solRecRoad := 0,
             solRecWall := 0, qRoof := 0, qWall := 0, qWindow := 0, qRoad := 0, qHvac := 0,
             qTraffic := 0, qUbl := 0, qVent := 0, elecTotal := 0, gasTotal := 0, roofTemp := 0,
             wallTemp := 0, canRHum := none, tdp := none },
    rural := exElem true 300 299,
    blds := [{ frac := 1, flArea := 1000, floorHeight := 3, infil := 1 / 2, glazingRatio := 2 / 5,
               uValue := 3, shgc := 1 / 2, cond := .air, copAdj := 3, coolcap := 200, heateff := 4 / 5,
               heatCap := 200, mass := exElem true 299 299, wall := exElem false 301 299,
               roof := exElem true 302 300, elec := 0, light := 0, nocc := 0, qocc := 0, swh := 0,
               gas := 0, tWallex := 293, tWallin := 293, tRoofex := 293, tRoofin := 293,
               elecTotal := 0, coolSetDay := 297, coolSetNight := 297, heatSetDay := 293,
               heatSetNight := 293, vent := 0, intHeatDay := 0, intHeatNight := 0, intHeatFRad := 0,
               intHeatFLat := 0, indoorTemp := 298, indoorHum := 1 / 100, latWaste := none,
               out := none }],
    ubl := { ublTemp := 300, cells := [300, 300, 300, 300], advHeat := 0, sensHeat := 0 },
    rsm := { st := ⟨[299, 301], [101300, 101250], [299, 301], [1, 1], [1, 1, 1], [1, 1]⟩,
             ublPres := 0, dlu := [], dld := [] } }

/-- Noon of a Tuesday in June, sun up, record step. -/
def exTrace : StepTrace :=
  { it := 1, row := 0, secDay := 43200, hourDay := 12, month := 6, day := 3, julian := 153,
    dayType := 1, nBefore := 0, recorded := true, monthBefore := 6 }

def exRow : FRow ℚ :=
  { infra := 400, wind := 1 / 2, uDir := 90, hum := 3 / 200, pres := 101325, temp := 303, rHum := 60,
    prec := 0, dif := 150, dir := 500 }

/-- The pass returns; the building cools; the wind is raised to `windMin`; the canyon moisture is the
    row's; the record is defined; in June the vegetation releases heat (so the vegetation data matter in
    season). -/
example : (match step stubQ exCfg exState exTrace exRow ⟨299, 298⟩ with
    | .ok s' => decide (s'.forc.wind = 1) && decide (s'.ucm.canHum = 3 / 200) &&
        s'.ucm.tdp.isSome && s'.blds.length == 1 && decide (s'.ucm.treeSensHeat ≠ 0) &&
        (s'.blds.all fun b => match b.out with
          | some o => decide (0 < o.Qhvac) && decide (o.Qheat = 0)
          | none => false)
    | .error _ => false) = true := by
  decide +kernel

/-- The same city on a January noon: the hypothesis of `step_offseason_bare` holds, the pass returns,
    and no vegetation heat is released. -/
example : Off exCfg { exTrace with month := 1, day := 7, julian := 6 } ∧
    (match step stubQ exCfg exState { exTrace with month := 1, day := 7, julian := 6 } exRow ⟨299, 298⟩ with
    | .ok s' => decide (s'.ucm.treeSensHeat = 0) && decide (s'.ucm.treeLatHeat = 0)
    | .error _ => false) = true := by
  refine ⟨by unfold Off; decide, ?_⟩
  decide +kernel

end Uwg.StepProps

