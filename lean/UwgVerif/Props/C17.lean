/-
C17 — generate() forgets the object's past.
-/
import UwgVerif.Model.Lifecycle

namespace Uwg.C17
open Uwg.Life
variable {P L B R : Type}

theorem run_append (M : Machine P L B R) (asis : Bool) (o : Obj P L B R) (a b : List (Op P)) :
    run M asis o (a ++ b) = run M asis (run M asis o a) b := by
  simp [run, List.foldl_append]

/-- The state after `generate` is a function of the parameters alone. -/
theorem generate_depends_on_params_only (M : Machine P L B R) (o o' : Obj P L B R)
    (h : o.params = o'.params) :
    (generate M o).lib = (generate M o').lib ∧ (generate M o).built = (generate M o').built := by
  simp [generate, h]

/-- T1. For every history `h` (any sequence of parameter assignments, generate and simulate calls)
    on any object, `generate; simulate` afterwards gives exactly the result a fresh object with the
    same current parameter values gives — for every machine, i.e. whatever the physics computes. -/
theorem generate_forgets (M : Machine P L B R) (h : List (Op P)) (o : Obj P L B R) :
    (run M false o (h ++ [.generate, .simulate])).last =
      (run M false (fresh M (run M false o h).params) [.generate, .simulate]).last ∧
    (run M false o (h ++ [.generate, .simulate])).built =
      (run M false (fresh M (run M false o h).params) [.generate, .simulate]).built := by
  rw [run_append]
  generalize run M false o h = o'
  simp only [run, List.foldl_cons, List.foldl_nil, step, Bool.false_eq_true, if_false, fresh]
  simp [generate, simulate]

/-- Parameter values that were set earlier and have since been changed back leave no trace:
    only the *current* parameters enter (corollary of T1 with the history `[set f, …, set g]`
    where `g ∘ f = id`). -/
theorem set_and_reset_forgotten (M : Machine P L B R) (f g : P → P) (hfg : ∀ p, g (f p) = p)
    (p : P) :
    (run M false (fresh M p) [.set f, .generate, .simulate, .set g, .generate, .simulate]).last =
      (run M false (fresh M p) [.generate, .simulate]).last := by
  have := (generate_forgets M [.set f, .generate, .simulate, .set g] (fresh M p)).1
  simp only [List.cons_append, List.nil_append] at this
  rw [this]
  simp [run, step, fresh, generate, simulate, hfg]

/-- T2. The unrepaired `generate` (which kept the object's current library) is history dependent:
    in the toy machine a second `generate; simulate` starts from archetypes dirtied by the first,
    and an override that was set and then unset sticks. -/
theorem asis_history_dependent :
    let M := toy [⟨300, 200, 300, 200, false⟩]
    (run M true (fresh M ⟨none, none⟩) [.generate, .simulate, .generate, .simulate]).last ≠
      (run M true (fresh M ⟨none, none⟩) [.generate, .simulate]).last ∧
    (run M true (fresh M ⟨none, none⟩)
        [.set (fun _ => ⟨some 0, none⟩), .generate, .set (fun _ => ⟨none, none⟩), .generate, .simulate]).last ≠
      (run M true (fresh M ⟨none, none⟩) [.generate, .simulate]).last := by
  decide

/-- The same two histories on the repaired machine agree with the fresh object (instance of T1,
    also a non-vacuity check of the toy instance). -/
example :
    let M := toy [⟨300, 200, 300, 200, false⟩]
    (run M false (fresh M ⟨none, none⟩) [.generate, .simulate, .generate, .simulate]).last =
      (run M false (fresh M ⟨none, none⟩) [.generate, .simulate]).last ∧
    (run M false (fresh M ⟨none, none⟩)
        [.set (fun _ => ⟨some 0, none⟩), .generate, .set (fun _ => ⟨none, none⟩), .generate, .simulate]).last =
      (run M false (fresh M ⟨none, none⟩) [.generate, .simulate]).last := by
  decide

end Uwg.C17
