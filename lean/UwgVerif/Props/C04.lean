/-
C04 — "Model clock and day type equal the true calendar at every step".

Property theorems only; the model is `Model/Clock.lean`, the helper lemmas `Lemmas/Clock.lean`.
`dayOfYear0 M D` (specification side, from the month lengths) is the 0-based day of year of the start date;
the instant reached after `k` clock advances is `dayOfYear0 M D · 86400 + k · dt` seconds after
1 January 00:00.
-/
import UwgVerif.Model.Clock
import UwgVerif.Lemmas.Clock

namespace Uwg.C04
open Uwg

/-- **T1.** For every valid start date `(M, D)`, every positive timestep dividing one hour and every number
`k` of clock advances that stays inside the year, `k` calls of `update_date` after the constructor raise no
exception and leave the clock in exactly the state of the true non-leap calendar at
`start + k·dt`: month, day of month, 0-based day of year, seconds of day and hour of day all agree. -/
theorem clock_correct (M D dt k : Nat) (hv : validDate M D) (hdt : dt ∣ 3600) (hpos : 0 < dt)
    (hin : dayOfYear0 M D * 86400 + k * dt < 365 * 86400) :
    Clock.run dt k (Clock.init M D) = some (trueCalendar (dayOfYear0 M D * 86400 + k * dt)) := by
  rw [init_eq hv]
  exact run_trueCalendar hdt hpos k _ (Nat.dvd_trans (dvd_86400 hdt) ⟨dayOfYear0 M D, Nat.mul_comm _ _⟩) hin

/-- **T1, field by field.** The same statement spelt out: the five fields of the clock after `k` advances
are the month and day of month of day `secs / 86400` of the year, that day number, `secs % 86400` and
`secs % 86400 / 3600`, where `secs = start + k·dt`. -/
theorem clock_correct_fields (M D dt k : Nat) (hv : validDate M D) (hdt : dt ∣ 3600) (hpos : 0 < dt)
    (hin : dayOfYear0 M D * 86400 + k * dt < 365 * 86400) :
    ∃ c, Clock.run dt k (Clock.init M D) = some c ∧
      c.month = (monthDay ((dayOfYear0 M D * 86400 + k * dt) / 86400)).1 ∧
      c.day = (monthDay ((dayOfYear0 M D * 86400 + k * dt) / 86400)).2 ∧
      c.julian = (dayOfYear0 M D * 86400 + k * dt) / 86400 ∧
      c.secDay = (dayOfYear0 M D * 86400 + k * dt) % 86400 ∧
      c.hourDay = (dayOfYear0 M D * 86400 + k * dt) % 86400 / 3600 :=
  ⟨_, clock_correct M D dt k hv hdt hpos hin, rfl, rfl, rfl, rfl, rfl⟩

/-- **Invariant** maintained by the clock inside the year (consequence of T1): the date is a valid
calendar date, the code's `julian` equals `inobis[month-1] + day - 1` *and* equals the specification's
day of year of `(month, day)`, `secDay` is a multiple of `dt` below 86400, and `hourDay = secDay / 3600`
is an hour 0..23. -/
theorem clock_invariant (M D dt k : Nat) (hv : validDate M D) (hdt : dt ∣ 3600) (hpos : 0 < dt)
    (hin : dayOfYear0 M D * 86400 + k * dt < 365 * 86400) :
    ∃ c, Clock.run dt k (Clock.init M D) = some c ∧
      validDate c.month c.day ∧
      c.julian = inobis.getD (c.month - 1) 0 + c.day - 1 ∧
      c.julian = dayOfYear0 c.month c.day ∧
      c.secDay < 86400 ∧ dt ∣ c.secDay ∧ c.hourDay = c.secDay / 3600 ∧ c.hourDay < 24 := by
  refine ⟨_, clock_correct M D dt k hv hdt hpos hin, ?_⟩
  have hd : (dayOfYear0 M D * 86400 + k * dt) / 86400 < 365 := by omega
  obtain ⟨h1, h2, h3⟩ := monthDay_table _ hd
  have hdvd : dt ∣ dayOfYear0 M D * 86400 + k * dt :=
    Nat.dvd_add (Nat.dvd_trans (dvd_86400 hdt) ⟨dayOfYear0 M D, Nat.mul_comm _ _⟩) ⟨k, Nat.mul_comm _ _⟩
  refine ⟨h1, ?_, h2.symm, Nat.mod_lt _ (by decide), (Nat.dvd_mod_iff (dvd_86400 hdt)).2 hdvd, rfl, ?_⟩
  · show (dayOfYear0 M D * 86400 + k * dt) / 86400 =
      inobis.getD ((monthDay ((dayOfYear0 M D * 86400 + k * dt) / 86400)).1 - 1) 0 +
        (monthDay ((dayOfYear0 M D * 86400 + k * dt) / 86400)).2 - 1
    rw [h3]
    exact h2.symm
  · show _ % 86400 / 3600 < 24
    omega

/-- The constructor accepts exactly the positive timesteps that divide one hour. -/
theorem create_ok_iff (dt M D : Nat) : Clock.create dt M D = .ok (Clock.init M D) ↔ (0 < dt ∧ dt ∣ 3600) := by
  unfold Clock.create
  by_cases h0 : dt = 0
  · simp [h0]
  · by_cases h : 3600 % dt = 0
    · simp [h0, h, Nat.dvd_of_mod_eq_zero h, Nat.pos_of_ne_zero h0]
    · have : ¬ dt ∣ 3600 := fun hd => h (Nat.mod_eq_zero_of_dvd hd)
      simp [h0, h, this]

/-- With a timestep accepted by the constructor the `TIMESTEP ERROR` branch of `update_date` is never
taken, inside or outside the year: from a state whose `secDay` is a multiple of `dt` below 86400 the update
succeeds and re-establishes that condition. -/
theorem no_timestep_error (dt : Nat) (c : Clock) (hdt : dt ∣ 3600) (hs : dt ∣ c.secDay)
    (hlt : c.secDay < 86400) :
    ∃ c', Clock.update dt c = some c' ∧ dt ∣ c'.secDay ∧ c'.secDay < 86400 := by
  have hle := add_le_of_dvd_lt hs (dvd_86400 hdt) hlt
  by_cases hmid : c.secDay + dt = 86400
  · exact ⟨_, by simp [Clock.update, hmid]; rfl, by simp, by simp⟩
  · have hng : ¬ (c.secDay + dt > 86400) := by omega
    refine ⟨_, by simp only [Clock.update, hmid, if_false, hng]; rfl, ?_, ?_⟩
    · exact Nat.dvd_add hs (Nat.dvd_refl dt)
    · show c.secDay + dt < 86400
      omega

/-- **T2.** The day type assigned in `simulate` (3 if `julian % 7 = 0`, 2 if `= 6`, else 1) is, for every
0-based day of year, the class (Sunday 3 / Saturday 2 / Monday–Friday 1) of the weekday obtained by walking
forward from Sunday 1 January one day at a time. -/
theorem dayType_correct (doy : Nat) : dayType doy = trueDayType doy := by
  unfold trueDayType dayType
  rw [weekdayOf_eq]
  have h : doy % 7 = 0 ∨ doy % 7 = 1 ∨ doy % 7 = 2 ∨ doy % 7 = 3 ∨ doy % 7 = 4 ∨ doy % 7 = 5 ∨
      doy % 7 = 6 := by omega
  rcases h with h | h | h | h | h | h | h <;> rw [h] <;> rfl

/-- **T1 + T2.** At every step inside the year the day type computed from the model clock is the true
weekday class of the calendar day containing `start + k·dt`. -/
theorem dayType_at_step (M D dt k : Nat) (hv : validDate M D) (hdt : dt ∣ 3600) (hpos : 0 < dt)
    (hin : dayOfYear0 M D * 86400 + k * dt < 365 * 86400) :
    ∃ c, Clock.run dt k (Clock.init M D) = some c ∧
      dayType c.julian = trueDayType ((dayOfYear0 M D * 86400 + k * dt) / 86400) :=
  ⟨_, clock_correct M D dt k hv hdt hpos hin, dayType_correct _⟩

/-- **T3 (what the code does at the end of the year; outside the property's domain).** The advance that
reaches 31 December 24:00 raises no exception and leaves `month = 12`, `day = 32`, `julian = 365`,
`secDay = 0`, `hourDay = 0`: 365 is not an entry of `inobis`, so the 12-way scan finds nothing and the
month is *not* rolled over (the clock reads "32 December 00:00", not 1 January). -/
theorem year_end (M D dt k : Nat) (hv : validDate M D) (hdt : dt ∣ 3600) (hpos : 0 < dt)
    (hend : dayOfYear0 M D * 86400 + k * dt = 365 * 86400) :
    Clock.run dt k (Clock.init M D) =
      some { month := 12, day := 32, julian := 365, secDay := 0, hourDay := 0 } := by
  have hj := dayOfYear0_lt hv
  have hle : dt ≤ 3600 := Nat.le_of_dvd (by decide) hdt
  cases k with
  | zero => omega
  | succ k =>
    rw [Nat.succ_mul] at hend
    rw [run_succ_last, clock_correct M D dt k hv hdt hpos (by omega), Option.bind_some]
    have e1 : (dayOfYear0 M D * 86400 + k * dt) / 86400 = 364 := by omega
    have e2 : (dayOfYear0 M D * 86400 + k * dt) % 86400 + dt = 86400 := by omega
    simp only [Clock.update, trueCalendar, e1, e2, if_true]
    decide

/-- The day type at that year-end state is 1 (weekday): `365 % 7 = 1`. -/
theorem year_end_dayType : dayType 365 = 1 := by decide

/-! ### Non-vacuity -/

/-- The hypotheses of T1 are satisfiable with a month roll-over inside: 28 February, dt = 300 s,
288 advances (= 24 h) is inside the year. -/
example : validDate 2 28 ∧ 300 ∣ 3600 ∧ 0 < 300 ∧ dayOfYear0 2 28 * 86400 + 288 * 300 < 365 * 86400 := by
  decide

set_option maxRecDepth 100000 in
/-- 28 February 23:55 + 300 s = 1 March 00:00, day of year 59 (0-based). -/
example : Clock.run 300 287 (Clock.init 2 28) = some ⟨2, 28, 58, 86100, 23⟩ ∧
    Clock.run 300 288 (Clock.init 2 28) = some ⟨3, 1, 59, 0, 0⟩ := by
  decide

/-- 7 January is a Saturday, 8 January a Sunday, 9 January a Monday when 1 January is a Sunday. -/
example : dayType 6 = 2 ∧ dayType 7 = 3 ∧ dayType 8 = 1 ∧ weekdayOf 6 = .sat ∧ weekdayOf 8 = .mon := by
  decide

/-- A timestep that does not divide the day is refused by `update_date`: 50000 + 50000 > 86400. -/
example : Clock.run 50000 2 (Clock.init 1 1) = none := by decide

end Uwg.C04
