/-
C16 — Vertical diffusion is bounded, conservative and exactly solved.

Property theorems only (helper lemmas live in `Lemmas/Diffusion.lean`, `Lemmas/Tridiag.lean`,
`Lemmas/Conduction.lean`). Everything is generic over a linearly ordered field `K` (so it holds
over ℚ, where the model is executed against the real code, and over ℝ) and over the
`DecidableEq K` instance the executable guard uses.

`diffusion nz dt co da daz cd dz` is the model of `RSMDef.diffusion_equation`; it returns
`.ok xs` exactly when the Python function returns, `.error .index` / `.error .zerodiv` where it
raises IndexError / ZeroDivisionError. All list entries are addressed with `getD · 0`; every
theorem below either assumes the list lengths explicitly (`Admissible`) or assumes that the call
returned (`= .ok xs`), which by the guard forces every entry that is mentioned to exist.

The theorems hold from `nz = 2` on (the property asks for `nz ≥ 3`). With `nz = 1` the code
returns `[0]`, with `nz = 0` it raises IndexError; both are outside the property.
-/
import UwgVerif.Lemmas.Diffusion
import Mathlib.Tactic.IntervalCases

namespace Uwg.C16
open Uwg
variable {K : Type} [Field K] [LinearOrder K] [IsStrictOrderedRing K] [DecidableEq K]

/-- The hypotheses of the property: at least two levels, list lengths as at the call site in
    `RSMDef.vdm` (`co`, `da`: `nz`; `daz`, `cd`: `nz+1`; `dz`: more than `nz`, `dz[nz]` is read),
    non-negative timestep, positive densities and grid spacings, non-negative diffusion
    coefficients. -/
structure Admissible (nz : Nat) (dt : K) (co da daz cd dz : List K) : Prop where
  nz_ge : 2 ≤ nz
  len_co : co.length = nz
  len_da : da.length = nz
  len_daz : daz.length = nz + 1
  len_cd : cd.length = nz + 1
  len_dz : nz + 1 ≤ dz.length
  dt_nonneg : 0 ≤ dt
  da_pos : ∀ i, i < nz → 0 < da.getD i 0
  daz_pos : ∀ i, i ≤ nz → 0 < daz.getD i 0
  cd_nonneg : ∀ i, i ≤ nz → 0 ≤ cd.getD i 0
  dz_pos : ∀ i, i ≤ nz → 0 < dz.getD i 0

omit [IsStrictOrderedRing K] [DecidableEq K] in
private theorem admissible_levels {nz : Nat} {dt : K} {co da daz cd dz : List K}
    (h : Admissible nz dt co da daz cd dz) :
    ∀ l ∈ levelsFrom co da daz cd dz 0 nz, PosLevel l := by
  intro l hl
  obtain ⟨i, _, hi, rfl⟩ := (mem_levelsFrom co da daz cd dz 0 nz l).mp hl
  exact ⟨h.da_pos i (by omega), h.dz_pos i (by omega), (h.daz_pos i (by omega)).le,
    h.cd_nonneg i (by omega)⟩

omit [IsStrictOrderedRing K] [DecidableEq K] in
private theorem bounds_levels {nz : Nat} {co da daz cd dz : List K} {m M : K}
    (hb : ∀ j, j + 2 ≤ nz → m ≤ co.getD j 0 ∧ co.getD j 0 ≤ M) (n : Nat) (hn : nz = n + 1) :
    ∀ l ∈ (levelsFrom co da daz cd dz 0 (n + 1)).dropLast, m ≤ l.co ∧ l.co ≤ M := by
  rw [levelsFrom_dropLast]
  intro l hl
  obtain ⟨i, _, hi, rfl⟩ := (mem_levelsFrom co da daz cd dz 0 n l).mp hl
  exact hb i (by omega)

/-- T4a. For admissible inputs no subscript or division fails and no pivot vanishes: the call
    returns a profile with `nz` levels. -/
theorem diffusion_defined (nz : Nat) (dt : K) (co da daz cd dz : List K)
    (h : Admissible nz dt co da daz cd dz) :
    ∃ xs, diffusion nz dt co da daz cd dz = .ok xs ∧ xs.length = nz := by
  obtain ⟨j, _, hj⟩ := exists_argmin (fun i => co.getD i 0) (nz - 1) (by have := h.nz_ge; omega)
  obtain ⟨j', _, hj'⟩ := exists_argmax (fun i => co.getD i 0) (nz - 1) (by have := h.nz_ge; omega)
  obtain ⟨n, hn⟩ : ∃ n, nz = n + 1 := ⟨nz - 1, by have := h.nz_ge; omega⟩
  have hbr : ∀ r ∈ diffusionRows dt (mkLevels nz co da daz cd dz),
      BRow (co.getD j 0) (co.getD j' 0) r := by
    rw [mkLevels_eq]
    apply diffusionRows_brows dt _ _ h.dt_nonneg _ (admissible_levels h)
    subst hn
    exact bounds_levels (fun i hi => ⟨hj i (by omega), hj' i (by omega)⟩) n rfl
  have hp := pivots_of_mrows _ (fun r hr => (hbr r hr).1)
  refine ⟨solve (diffusionRows dt (mkLevels nz co da daz cd dz)), ?_, ?_⟩
  · rw [diffusion_eq_ok]
    refine ⟨?_, hp, rfl⟩
    apply checks_pass nz co da daz cd dz (by have := h.nz_ge; omega) h.len_co h.len_da h.len_daz
      h.len_cd h.len_dz
    · intro i hi; exact ne_of_gt (h.dz_pos i hi)
    · intro i _ hi
      have a := h.dz_pos i (by omega)
      have b := h.dz_pos (i - 1) (by omega)
      exact ne_of_gt (by linarith)
    · intro i hi; exact ne_of_gt (h.da_pos i hi)
  · rw [solve_length, diffusionRows_length]; simp [mkLevels]

omit [DecidableEq K] in
/-- T4b. For admissible inputs every row of the system `diffusion_equation` assembles is an
    M-matrix row (non-positive off-diagonals, weak diagonal dominance, `b + c > 0`); the closing
    row `(-1, 1, 0)` is only weakly dominant and is covered. -/
theorem diffusion_rows_mrows (nz : Nat) (dt : K) (co da daz cd dz : List K)
    (h : Admissible nz dt co da daz cd dz) :
    ∀ r ∈ diffusionRows dt (mkLevels nz co da daz cd dz), MRow r := by
  obtain ⟨j, _, hj⟩ := exists_argmin (fun i => co.getD i 0) (nz - 1) (by have := h.nz_ge; omega)
  obtain ⟨j', _, hj'⟩ := exists_argmax (fun i => co.getD i 0) (nz - 1) (by have := h.nz_ge; omega)
  obtain ⟨n, hn⟩ : ∃ n, nz = n + 1 := ⟨nz - 1, by have := h.nz_ge; omega⟩
  intro r hr
  rw [mkLevels_eq] at hr
  refine (diffusionRows_brows dt (co.getD j 0) (co.getD j' 0) h.dt_nonneg _
    (admissible_levels h) ?_ r hr).1
  subst hn
  exact bounds_levels (fun i hi => ⟨hj i (by omega), hj' i (by omega)⟩) n rfl

omit [LinearOrder K] [IsStrictOrderedRing K] in
/-- T4c. Whenever the call returns (for *any* input, admissible or not), the returned profile has
    `nz` levels and satisfies every equation of the assembled tridiagonal system exactly, and it
    is the only vector that does. -/
theorem diffusion_exact (nz : Nat) (dt : K) (co da daz cd dz xs : List K)
    (hxs : diffusion nz dt co da daz cd dz = .ok xs) :
    Sat 0 (diffusionRows dt (mkLevels nz co da daz cd dz)) xs ∧ xs.length = nz ∧
    ∀ ys, Sat 0 (diffusionRows dt (mkLevels nz co da daz cd dz)) ys → ys = xs := by
  obtain ⟨_, hp, rfl⟩ := (diffusion_eq_ok nz dt co da daz cd dz xs).mp hxs
  refine ⟨solve_sound _ hp, ?_, fun ys hys => sat_unique_solve _ hp ys hys⟩
  rw [solve_length, diffusionRows_length]; simp [mkLevels]

omit [LinearOrder K] [IsStrictOrderedRing K] in
/-- Unfolding used by T1–T2: for `nz = n+2` a returned profile is `x0 :: x1 :: rest`, with
    `x0 = co[0]` and `x1 :: rest` solving the interior rows above the Dirichlet level. -/
private theorem returned_shape (n : Nat) (dt : K) (co da daz cd dz xs : List K)
    (hxs : diffusion (n + 2) dt co da daz cd dz = .ok xs) :
    ∃ x1 rest, xs = co.getD 0 0 :: x1 :: rest ∧ rest.length = n ∧
      Sat (co.getD 0 0)
        (interiorRows dt (cddzI (levelAt co da daz cd dz 0) (levelAt co da daz cd dz 1))
          (levelAt co da daz cd dz 1 :: levelsFrom co da daz cd dz 2 n)) (x1 :: rest) := by
  obtain ⟨hsat, hlen, _⟩ := diffusion_exact (n + 2) dt co da daz cd dz xs hxs
  rw [mkLevels_eq, levelsFrom_succ, levelsFrom_succ] at hsat
  simp only [diffusionRows] at hsat
  match xs, hlen, hsat with
  | x0 :: x1 :: rest, hlen, hsat =>
    obtain ⟨h0, hs⟩ := hsat
    simp only [zero_mul, one_mul, List.headD_cons, zero_add, add_zero, levelAt] at h0
    subst h0
    exact ⟨x1, rest, rfl, by simpa using hlen, hs⟩
  | [_], hlen, _ => simp at hlen
  | [], hlen, _ => simp at hlen

omit [LinearOrder K] [IsStrictOrderedRing K] in
/-- T1a. The lowest level keeps the measured rural air temperature: `x[0] = co[0]`
    (for every call with `nz ≥ 2` that returns). -/
theorem bottom_dirichlet (nz : Nat) (dt : K) (co da daz cd dz xs : List K) (h2 : 2 ≤ nz)
    (hxs : diffusion nz dt co da daz cd dz = .ok xs) :
    ∃ t, co[0]? = some t ∧ xs[0]? = some t := by
  obtain ⟨n, rfl⟩ : ∃ n, nz = n + 2 := ⟨nz - 2, by omega⟩
  obtain ⟨x1, rest, rfl, _, _⟩ := returned_shape n dt co da daz cd dz xs hxs
  have hc := ((diffusion_eq_ok _ dt co da daz cd dz _).mp hxs).1
  rw [firstErr_eq_none] at hc
  have h0 : 0 < co.length := needIdx_eq_none.mp (hc (needIdx co 0) (by simp [pyChecks]))
  refine ⟨co.getD 0 0, ?_, by simp⟩
  simp [List.getD_eq_getElem?_getD, h0]

omit [LinearOrder K] [IsStrictOrderedRing K] in
/-- T1b. The top two levels are equal after the step: `x[nz-1] = x[nz-2]`
    (for every call with `nz ≥ 2` that returns). -/
theorem top_equal (nz : Nat) (dt : K) (co da daz cd dz xs : List K) (h2 : 2 ≤ nz)
    (hxs : diffusion nz dt co da daz cd dz = .ok xs) :
    ∃ t, xs[nz - 1]? = some t ∧ xs[nz - 2]? = some t := by
  obtain ⟨n, rfl⟩ : ∃ n, nz = n + 2 := ⟨nz - 2, by omega⟩
  obtain ⟨x1, rest, rfl, hlen, hs⟩ := returned_shape n dt co da daz cd dz xs hxs
  have ht := interior_top dt (levelsFrom co da daz cd dz 2 n) _ _ _ _ _ hs
  rw [levelsFrom_length] at ht
  have e1 : n + 2 - 1 = n + 1 := by omega
  have e2 : n + 2 - 2 = n := by omega
  rw [e1, e2, ht]
  have hn : n < (co.getD 0 0 :: x1 :: rest).length := by simp; omega
  exact ⟨(co.getD 0 0 :: x1 :: rest)[n], by rw [List.getElem?_eq_getElem hn], by
    rw [List.getElem?_eq_getElem hn]⟩

omit [LinearOrder K] [IsStrictOrderedRing K] in
/-- T2. Conservation: the heat content of the interior column (levels `1 … nz-2`, weights
    `da[i]·dz[i]`) changes by exactly `dt` × the diffusive flux through its lowest interface,
    `cddz[1]·(x[0] − x[1])` with `cddz[1] = 2·daz[1]·cd[1]/(dz[1]+dz[0])`; nothing passes through
    the top interface because the top two levels are equal. Holds for every call with `nz ≥ 2`
    that returns (no sign conditions needed). `sumFrom f 1 (nz-2) = Σ_{i=1}^{nz-2} f i`. -/
theorem interior_conservation (nz : Nat) (dt : K) (co da daz cd dz xs : List K) (h2 : 2 ≤ nz)
    (hxs : diffusion nz dt co da daz cd dz = .ok xs) :
    sumFrom (fun i => da.getD i 0 * dz.getD i 0 * (xs.getD i 0 - co.getD i 0)) 1 (nz - 2) =
      dt * (2 * daz.getD 1 0 * cd.getD 1 0 / (dz.getD 1 0 + dz.getD 0 0)) *
        (xs.getD 0 0 - xs.getD 1 0) := by
  obtain ⟨n, rfl⟩ : ∃ n, nz = n + 2 := ⟨nz - 2, by omega⟩
  have hc := ((diffusion_eq_ok _ dt co da daz cd dz _).mp hxs).1
  obtain ⟨x1, rest, rfl, hlen, hs⟩ := returned_shape n dt co da daz cd dz xs hxs
  have hnz : ∀ q ∈ (levelAt co da daz cd dz 1 :: levelsFrom co da daz cd dz 2 n).dropLast,
      q.dz ≠ 0 ∧ q.da ≠ 0 := by
    rw [← levelsFrom_succ, levelsFrom_dropLast]
    intro q hq
    obtain ⟨i, hi1, hi2, rfl⟩ := (mem_levelsFrom co da daz cd dz 1 n q).mp hq
    exact checks_interior (n + 2) co da daz cd dz hc i hi1 (by omega)
  have htel := interior_telescope dt (levelsFrom co da daz cd dz 2 n) _ _ _ _ _ hnz hs
  have hsum := interiorSum_levelsFrom co da daz cd dz (co.getD 0 0 :: x1 :: rest) (n + 1) 1
    (by simp; omega)
  rw [levelsFrom_succ] at hsum
  simp only [List.drop_succ_cons, List.drop_zero, Nat.add_sub_cancel] at hsum
  have e2 : n + 2 - 2 = n := by omega
  rw [e2, ← hsum, htel]
  simp [cddzI, levelAt]

/-- T3 (discrete maximum principle). For admissible inputs (`cd ≥ 0`, `da, daz, dz > 0`,
    `dt ≥ 0`) every new value lies between any lower bound `m` and upper bound `M` of the old
    values `co[0 … nz-2]`: no new minimum or maximum is created. The old top value `co[nz-1]` is
    never read by the code and does not enter. -/
theorem max_principle (nz : Nat) (dt : K) (co da daz cd dz xs : List K)
    (h : Admissible nz dt co da daz cd dz) (hxs : diffusion nz dt co da daz cd dz = .ok xs)
    (m M : K) (hb : ∀ j, j + 2 ≤ nz → m ≤ co.getD j 0 ∧ co.getD j 0 ≤ M) :
    ∀ x ∈ xs, m ≤ x ∧ x ≤ M := by
  obtain ⟨_, _, rfl⟩ := (diffusion_eq_ok nz dt co da daz cd dz xs).mp hxs
  obtain ⟨n, hn⟩ : ∃ n, nz = n + 2 := ⟨nz - 2, by have := h.nz_ge; omega⟩
  have hpos := admissible_levels h
  have hbl := bounds_levels (da := da) (daz := daz) (cd := cd) (dz := dz) hb (n + 1) hn
  rw [mkLevels_eq]
  subst hn
  rw [levelsFrom_succ, levelsFrom_succ] at hpos hbl ⊢
  exact diffusion_levels_bounded dt m M h.dt_nonneg _ _ _ hpos hbl

/-- T3, min/max form: every new value is at least the smallest and at most the largest of the
    old values `co[0 … nz-2]` (both attained at some index `j ≤ nz-2`). -/
theorem max_principle_attained (nz : Nat) (dt : K) (co da daz cd dz xs : List K)
    (h : Admissible nz dt co da daz cd dz) (hxs : diffusion nz dt co da daz cd dz = .ok xs) :
    ∀ x ∈ xs, (∃ j, j + 2 ≤ nz ∧ co.getD j 0 ≤ x) ∧ (∃ j, j + 2 ≤ nz ∧ x ≤ co.getD j 0) := by
  obtain ⟨j, hjn, hj⟩ := exists_argmin (fun i => co.getD i 0) (nz - 1) (by have := h.nz_ge; omega)
  obtain ⟨j', hjn', hj'⟩ := exists_argmax (fun i => co.getD i 0) (nz - 1)
    (by have := h.nz_ge; omega)
  intro x hx
  have := max_principle nz dt co da daz cd dz xs h hxs (co.getD j 0) (co.getD j' 0)
    (fun i hi => ⟨hj i (by omega), hj' i (by omega)⟩) x hx
  exact ⟨⟨j, by omega, this.1⟩, ⟨j', by omega, this.2⟩⟩

/-- Corollary of T3: a profile that is uniform below the (unread) top level stays uniform, and
    the top level joins it. -/
theorem uniform_fixed (nz : Nat) (dt : K) (co da daz cd dz xs : List K)
    (h : Admissible nz dt co da daz cd dz) (hxs : diffusion nz dt co da daz cd dz = .ok xs)
    (T : K) (hu : ∀ j, j + 2 ≤ nz → co.getD j 0 = T) : ∀ x ∈ xs, x = T := by
  intro x hx
  have := max_principle nz dt co da daz cd dz xs h hxs T T
    (fun j hj => by rw [hu j hj]; exact ⟨le_rfl, le_rfl⟩) x hx
  exact le_antisymm this.2 this.1

/-! ### The solvers (`RSMDef.invert`, `Element.invert`) return exact solutions -/

omit [LinearOrder K] [IsStrictOrderedRing K] [DecidableEq K] in
/-- T4 (solver). `invert` returns an exact solution of the system it is given whenever no pivot
    vanishes (re-export of `Uwg.solve_sound`). -/
theorem solver_exact (rs : List (Row K)) (hp : Pivots rs) : Sat 0 rs (solve rs) :=
  solve_sound rs hp

omit [DecidableEq K] in
/-- Every strictly diagonally dominant tridiagonal system (entries of any sign) is solved
    exactly. -/
theorem solver_exact_of_sdd (rs : List (Row K)) (h : ∀ r ∈ rs, SDD r) : Sat 0 rs (solve rs) :=
  solve_sound rs (pivots_of_sdd rs h)

omit [DecidableEq K] in
/-- Every system of M-matrix rows (the shape uwg builds, incl. weakly dominant rows) is solved
    exactly. -/
theorem solver_exact_of_mrows (rs : List (Row K)) (h : ∀ r ∈ rs, MRow r) : Sat 0 rs (solve rs) :=
  solve_sound rs (pivots_of_mrows rs h)

omit [LinearOrder K] [IsStrictOrderedRing K] [DecidableEq K] in
/-- The exact solution is unique, so "the" solution is what the solver returns. -/
theorem solver_unique (rs : List (Row K)) (hp : Pivots rs) (xs : List K) (h : Sat 0 rs xs) :
    xs = solve rs := sat_unique_solve rs hp xs h

omit [LinearOrder K] [IsStrictOrderedRing K] in
/-- `invert` with Python's ZeroDivisionError: whenever it returns, for any system at all, the
    result has one entry per equation, solves every equation exactly, and is the only solution. -/
theorem solveChecked_exact (rs : List (Row K)) (xs : List K) (h : solveChecked rs = .ok xs) :
    Sat 0 rs xs ∧ xs.length = rs.length ∧ ∀ ys, Sat 0 rs ys → ys = xs := by
  obtain ⟨hp, rfl⟩ := (solveChecked_eq_ok rs xs).mp h
  exact ⟨solve_sound rs hp, solve_length rs, fun ys hys => sat_unique_solve rs hp ys hys⟩

/-- On a strictly diagonally dominant system `invert` does not raise and returns the exact
    solution. -/
theorem solveChecked_of_sdd (rs : List (Row K)) (h : ∀ r ∈ rs, SDD r) :
    ∃ xs, solveChecked rs = .ok xs ∧ Sat 0 rs xs :=
  ⟨solve rs, (solveChecked_eq_ok rs _).mpr ⟨pivots_of_sdd rs h, rfl⟩,
    solve_sound rs (pivots_of_sdd rs h)⟩

/-! ### Non-vacuity: a concrete three-level call meets every hypothesis. -/

example : Admissible 3 (300 : ℚ) [290, 291, 295] [1, 1, 1] [1, 1, 1, 1] [1, 2, 0, 3]
    [4, 5, 6, 7, 8] where
  nz_ge := by norm_num
  len_co := rfl
  len_da := rfl
  len_daz := rfl
  len_cd := rfl
  len_dz := by simp
  dt_nonneg := by norm_num
  da_pos := by intro i hi; interval_cases i <;> norm_num
  daz_pos := by intro i hi; interval_cases i <;> norm_num
  cd_nonneg := by intro i hi; interval_cases i <;> norm_num
  dz_pos := by intro i hi; interval_cases i <;> norm_num

example : ∀ r ∈ ([⟨0, 2, -1, 1⟩, ⟨1, -3, 1, 0⟩, ⟨-1, 4, 0, 5⟩] : List (Row ℚ)), SDD r := by
  intro r hr
  simp only [List.mem_cons, List.mem_nil_iff, or_false] at hr
  rcases hr with rfl | rfl | rfl <;> (unfold SDD; norm_num [abs_of_pos, abs_of_neg])

end Uwg.C16
