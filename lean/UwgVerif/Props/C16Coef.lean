/-
C16, second part — the inputs `RSMDef.vdm` hands to `RSMDef.diffusion_equation` are admissible.

`Props/C16.lean` proves the maximum principle, the boundary identities and the conservation
identity of `diffusion_equation` for *admissible* inputs (`Admissible`: `cd ≥ 0`, positive
densities and spacings). This file links those hypotheses to the code that produces the inputs:
`Rsm.diffusionCoefficient` (model of `RSMDef.diffusion_coefficient` with `dissipation_bougeault`
and `length_bougeault`), `Rsm.vdmProfiles` / `Rsm.vdmPre` / `Rsm.vdm` (model of `RSMDef.vdm`),
`Rsm.mesoGrid` (grid part of `RSMDef.__init__`); all in `Model/RsmCoef.lean`.

All theorems are about calls that *return* (`= .ok …`): the model mirrors Python's exceptions, and
e.g. a rural heat flux of exactly 0 makes `diffusion_coefficient` raise ZeroDivisionError.
Hypotheses on the function symbols are explicit (`sqrt ≥ 0` on `[0, ∞)`, `rpow` positive for
positive base and exponent) and are discharged for the real functions in the `_real` versions;
the rational stand-ins of the correspondence driver satisfy them too.
-/
import UwgVerif.Props.C16
import UwgVerif.Lemmas.RsmCoef
import UwgVerif.Model.SymbolsReal

set_option linter.unusedSectionVars false
set_option linter.unusedVariables false

namespace Uwg.C16
open Uwg Uwg.Rsm
variable {K : Type} [Field K] [LinearOrder K] [IsStrictOrderedRing K]

/-! ### `diffusion_coefficient` -/

/-- `te_pos`. Whenever `diffusion_coefficient` returns, the TKE profile it hands to
    `dissipation_bougeault` has `nz` entries and every entry is at least 0.01 (both stability
    branches). No hypotheses. -/
theorem te_pos (sym : Sym K) (P : Param K) (rho z0 disp tempRur heatRur uref : K) (z dz th : List K)
    (nz : Nat) (out : CoefOut K)
    (h : diffusionCoefficient sym P rho z dz z0 disp tempRur heatRur nz uref th = .ok out) :
    out.te.length = nz ∧ ∀ x ∈ out.te, 1 / 100 ≤ x :=
  (diffusionCoefficient_spec h).1

/-- `kt_nonneg`. Whenever `diffusion_coefficient` returns, `Kt` has `nz + 1` entries and every
    entry is `≥ 0`, provided `sqrt` is non-negative on `[0, ∞)` and the grid satisfies `GridOK`:
    for every `iz < nz`, `z[nz] - z[iz] - dz[iz]/2 ≥ 0` (start value of `dlu`),
    `z[iz] + dz[iz]/2 ≥ 0` (start value of `dld`) and `(z[iz] + z[iz+1])/2 ≥ 0` (the cap `dlg`).
    Reason, from the code: `Kt[iz] = 0.4 * min(dlu, min(dld, dlg)) * sqrt(te)` where each of `dlu`,
    `dld` is its start value or was replaced by some `max(1., …) ≥ 1`, and `te ≥ 0.01`. -/
theorem kt_nonneg (sym : Sym K) (P : Param K) (rho z0 disp tempRur heatRur uref : K)
    (z dz th : List K) (nz : Nat) (out : CoefOut K)
    (hsqrt : ∀ x, 0 ≤ x → 0 ≤ sym.sqrt x) (hgrid : GridOK nz z dz)
    (h : diffusionCoefficient sym P rho z dz z0 disp tempRur heatRur nz uref th = .ok out) :
    out.kt.length = nz + 1 ∧ ∀ k ∈ out.kt, 0 ≤ k :=
  ⟨(diffusionCoefficient_spec h).2.1, (diffusionCoefficient_spec h).2.2 hsqrt hgrid⟩

/-- The honest statement about the two length scales, read off the code: at every level for which
    `dissipation_bougeault` returns, `dlu[iz]` is its start value `z[nz] - z[iz] - dz[iz]/2` or
    was replaced by some `max(1., …) ≥ 1`; `dld[iz]` is `z[iz] + dz[iz]/2` or `≥ 1`
    (for any profile, any `te`, any symbol interpretation). -/
theorem length_scale_start_or_ge_one (sym : Sym K) (g : K) (nz iz : Nat) (z dz te pt : List K)
    (r : K × K) (h : dissipAt sym g nz z dz te pt iz = .ok r) :
    (r.1 = z.getD nz 0 - z.getD iz 0 - dz.getD iz 0 / 2 ∨ 1 ≤ r.1) ∧
    (r.2 = z.getD iz 0 + dz.getD iz 0 / 2 ∨ 1 ≤ r.2) :=
  dissipAt_spec h

/-- `kt_formula`. Whenever `diffusion_coefficient` returns, with `dlu`, `dld` the two length
    profiles it leaves on the object (`self.dlu`, `self.dld`, the latter already capped):
    `Kt[iz] = 0.4 * min(dlu[iz], dld[iz]) * sqrt(te[iz])` and `dld[iz] ≤ (z[iz] + z[iz+1])/2` for
    every `iz < nz`, and `Kt[nz] = Kt[nz-1]` (for `nz ≥ 1`). No hypotheses; this is the oracle that
    turns a changed length scale into a concrete failing input. -/
theorem kt_formula (sym : Sym K) (P : Param K) (rho z0 disp tempRur heatRur uref : K)
    (z dz th : List K) (nz : Nat) (out : CoefOut K)
    (h : diffusionCoefficient sym P rho z dz z0 disp tempRur heatRur nz uref th = .ok out) :
    (∀ i, i < nz →
      out.kt.getD i 0 =
        2 / 5 * min (out.dlu.getD i 0) (out.dld.getD i 0) * sym.sqrt (out.te.getD i 0) ∧
      out.dld.getD i 0 ≤ (z.getD i 0 + z.getD (i + 1) 0) / 2) ∧
    (1 ≤ nz → out.kt.getD nz 0 = out.kt.getD (nz - 1) 0) :=
  diffusionCoefficient_formula h

/-- `kt_nonneg` for the real square root: the hypothesis on the symbol is discharged. -/
theorem kt_nonneg_real (P : Param ℝ) (rho z0 disp tempRur heatRur uref : ℝ) (z dz th : List ℝ)
    (nz : Nat) (out : CoefOut ℝ) (hgrid : GridOK nz z dz)
    (h : diffusionCoefficient realSym P rho z dz z0 disp tempRur heatRur nz uref th = .ok out) :
    out.kt.length = nz + 1 ∧ ∀ k ∈ out.kt, 0 ≤ k :=
  kt_nonneg realSym P rho z0 disp tempRur heatRur uref z dz th nz out
    (fun x _ => Real.sqrt_nonneg x) hgrid h

/-- The rational stand-in for `sqrt` used by the correspondence driver satisfies the hypothesis
    of `kt_nonneg`, so the oracle `Kt ≥ 0` is also meaningful on fractionised runs. -/
theorem stub_sqrt_nonneg : ∀ x : ℚ, 0 ≤ x → 0 ≤ stubQ.sqrt x := by
  intro x hx
  show 0 ≤ (x + 1) / 2
  positivity

/-! ### the grid of `RSMDef.__init__` -/

omit [LinearOrder K] [IsStrictOrderedRing K] in
private theorem mesoGrid_spec : ∀ (zm : List K),
    (mesoGrid zm).1.length = zm.length - 1 ∧ (mesoGrid zm).2.length = zm.length - 1 ∧
    ∀ i, i + 1 < zm.length →
      (mesoGrid zm).1.getD i 0 = 1 / 2 * (zm.getD i 0 + zm.getD (i + 1) 0) ∧
      (mesoGrid zm).2.getD i 0 = zm.getD (i + 1) 0 - zm.getD i 0
  | [] => by simp [mesoGrid]
  | [_] => by simp [mesoGrid]
  | a :: b :: rest => by
    obtain ⟨h1, h2, h3⟩ := mesoGrid_spec (b :: rest)
    refine ⟨by simp [mesoGrid, h1], by simp [mesoGrid, h2], ?_⟩
    intro i hi
    cases i with
    | zero => simp [mesoGrid]
    | succ i =>
      have := h3 i (by simpa using hi)
      simpa [mesoGrid] using this

private theorem mono_of_adjacent (zm : List K)
    (hinc : ∀ i, i + 1 < zm.length → zm.getD i 0 < zm.getD (i + 1) 0) :
    ∀ j i, i ≤ j → j < zm.length → zm.getD i 0 ≤ zm.getD j 0 := by
  intro j
  induction j with
  | zero => intro i hi _; have : i = 0 := by omega
            subst this; exact le_rfl
  | succ j ih =>
    intro i hi hj
    rcases Nat.lt_or_ge i (j + 1) with h | h
    · exact le_trans (ih i (by omega) (by omega)) (hinc j hj).le
    · have : i = j + 1 := by omega
      subst this; exact le_rfl

/-- `gridOK_of_meso`. The grid `RSMDef.__init__` builds from interface heights `z_meso`
    (`z` = mid-points, `dz` = differences) satisfies the grid hypotheses of `kt_nonneg` for every
    `nz` below the number of cells, and all spacings are positive, as soon as `z_meso` is strictly
    increasing and starts at a non-negative height (checked on the shipped `z_meso.txt` by the
    harness). -/
theorem gridOK_of_meso (zm : List K) (h0 : 0 ≤ zm.getD 0 0)
    (hinc : ∀ i, i + 1 < zm.length → zm.getD i 0 < zm.getD (i + 1) 0) (nz : Nat)
    (hnz : nz < (mesoGrid zm).1.length) :
    GridOK nz (mesoGrid zm).1 (mesoGrid zm).2 ∧
    ∀ i, i < (mesoGrid zm).2.length → 0 < (mesoGrid zm).2.getD i 0 := by
  obtain ⟨h1, h2, h3⟩ := mesoGrid_spec zm
  have mono := mono_of_adjacent zm hinc
  have hpos : ∀ i, i < zm.length → 0 ≤ zm.getD i 0 :=
    fun i hi => le_trans h0 (mono i 0 (Nat.zero_le _) hi)
  rw [h1] at hnz
  refine ⟨⟨?_, ?_, ?_⟩, ?_⟩
  · intro i hi
    obtain ⟨a1, a2⟩ := h3 i (by omega)
    obtain ⟨b1, _⟩ := h3 nz (by omega)
    rw [a1, a2, b1]
    have m1 := mono nz (i + 1) (by omega) (by omega)
    have m2 := mono (nz + 1) (i + 1) (by omega) (by omega)
    linarith
  · intro i hi
    obtain ⟨a1, a2⟩ := h3 i (by omega)
    rw [a1, a2]
    have := hpos (i + 1) (by omega)
    linarith
  · intro i hi
    obtain ⟨a1, _⟩ := h3 i (by omega)
    obtain ⟨b1, _⟩ := h3 (i + 1) (by omega)
    rw [a1, b1]
    have p0 := hpos i (by omega)
    have p1 := hpos (i + 1) (by omega)
    have p2 := hpos (i + 2) (by omega)
    have e : i + 1 + 1 = i + 2 := rfl
    rw [e]
    linarith
  · intro i hi
    rw [h2] at hi
    obtain ⟨_, a2⟩ := h3 i (by omega)
    rw [a2]
    have := hinc i (by omega)
    linarith

/-! ### the profile part of `vdm` -/

/-- `density_pos`. Whenever the profile part of `vdm` returns, under `VdmHyp` (positive `r`, `cp`,
    `g ≥ 0`, positive forcing temperature and pressure, positive old potential temperatures above
    the lowest level, positive old top pressure `presProf[nzref-1]`, positive spacings, list
    lengths of the constructor) and `rpow` positive for positive base and exponent: the new
    potential temperature is the old one with `tempProf[0] = forc.temp`; all `nzref` pressures, real
    temperatures and centre densities and all `nzref + 1` interface densities are positive. -/
theorem density_pos (sym : Sym K) (P : Param K) (nzref : Nat) (dz : List K) (F : Forc K)
    (st : VdmState K) (temp pres treal dC dS : List K)
    (hpow : ∀ a b : K, 0 < a → 0 < b → 0 < sym.rpow a b) (H : VdmHyp P nzref dz F st)
    (h : vdmProfiles sym P nzref dz F st = .ok (temp, pres, treal, dC, dS)) :
    temp = st.tempProf.set 0 F.temp ∧
    (pres.length = nzref ∧ ∀ x ∈ pres, 0 < x) ∧ (treal.length = nzref ∧ ∀ x ∈ treal, 0 < x) ∧
    (dC.length = nzref ∧ ∀ x ∈ dC, 0 < x) ∧ (dS.length = nzref + 1 ∧ ∀ x ∈ dS, 0 < x) :=
  vdmProfiles_spec hpow H h

/-- `density_pos` for the real power function. -/
theorem density_pos_real (P : Param ℝ) (nzref : Nat) (dz : List ℝ) (F : Forc ℝ) (st : VdmState ℝ)
    (temp pres treal dC dS : List ℝ) (H : VdmHyp P nzref dz F st)
    (h : vdmProfiles realSym P nzref dz F st = .ok (temp, pres, treal, dC, dS)) :
    (dC.length = nzref ∧ ∀ x ∈ dC, 0 < x) ∧ (dS.length = nzref + 1 ∧ ∀ x ∈ dS, 0 < x) :=
  let r := density_pos realSym P nzref dz F st temp pres treal dC dS
    (fun a b ha _ => Real.rpow_pos_of_pos ha b) H h
  ⟨r.2.2.2.1, r.2.2.2.2⟩

/-- The rational stand-in for `rpow` satisfies the hypothesis of `density_pos`. -/
theorem stub_rpow_pos : ∀ a b : ℚ, 0 < a → 0 < b → 0 < stubQ.rpow a b := by
  intro a b ha hb
  show 0 < a * b + 1
  positivity

/-! ### composition: a `vdm` step -/

private theorem liftPy_ok {α : Type} {x : Except PyErr α} {a : α} :
    liftPy x = .ok a ↔ x = .ok a := by
  cases x <;> simp [liftPy]

/-- What `vdmPre` returns is what `vdmProfiles` and `diffusion_coefficient` return. -/
private theorem vdmPre_ok {sym : Sym K} {P : Param K} {nzref : Nat} {z dz : List K} {z0r disp : K}
    {F : Forc K} {sens : K} {st : VdmState K} {pre : VdmPre K}
    (h : vdmPre sym P nzref z dz z0r disp F sens st = .ok pre) :
    vdmProfiles sym P nzref dz F st = .ok (pre.temp, pre.pres, pre.treal, pre.dC, pre.dS) ∧
    ∃ rho t0, diffusionCoefficient sym P rho z dz z0r disp t0 sens nzref F.wind pre.temp =
      .ok pre.coef := by
  unfold vdmPre at h
  simp only [bind_ok, pure_ok] at h
  obtain ⟨pr, hpr, rho, _, t0, _, co, hco, rfl⟩ := h
  exact ⟨hpr, rho, t0, hco⟩

/-- The hypotheses of the composition: `VdmHyp`, at least two levels, the grid hypotheses of
    `kt_nonneg`, `dz[nzref]` exists, non-negative timestep. -/
structure StepHyp (P : Param K) (nzref : Nat) (dt : K) (z dz : List K) (F : Forc K)
    (st : VdmState K) : Prop where
  prof : VdmHyp P nzref dz F st
  nz_ge : 2 ≤ nzref
  grid : GridOK nzref z dz
  len_dz : nzref + 1 ≤ dz.length
  dt_nonneg : 0 ≤ dt

/-- `vdm_step_admissible`. Under `StepHyp` and the two symbol hypotheses, whenever `vdm` reaches
    the call of `diffusion_equation`, the arguments it passes — `co = tempProf` (with the new
    `tempProf[0] = forc.temp`), `da = densityProfC`, `daz = densityProfS`, `cd = Kt` of
    `diffusion_coefficient`, `dz` — satisfy `Admissible`, the hypothesis of the maximum principle. -/
theorem vdm_step_admissible (sym : Sym K) (P : Param K) (nzref : Nat) (dt : K) (z dz : List K)
    (z0r disp : K) (F : Forc K) (sens : K) (st : VdmState K) (pre : VdmPre K)
    (hsqrt : ∀ x, 0 ≤ x → 0 ≤ sym.sqrt x)
    (hpow : ∀ a b : K, 0 < a → 0 < b → 0 < sym.rpow a b)
    (H : StepHyp P nzref dt z dz F st)
    (h : vdmPre sym P nzref z dz z0r disp F sens st = .ok pre) :
    Admissible nzref dt pre.temp pre.dC pre.dS pre.coef.kt dz := by
  obtain ⟨hprof, rho, t0, hco⟩ := vdmPre_ok h
  obtain ⟨htemp, _, _, ⟨hCl, hC⟩, ⟨hSl, hS⟩⟩ := vdmProfiles_spec hpow H.prof hprof
  dsimp only at htemp hCl hC hSl hS
  obtain ⟨_, hkl, hk⟩ := diffusionCoefficient_spec hco
  have hk' := hk hsqrt H.grid
  exact {
    nz_ge := H.nz_ge
    len_co := by rw [htemp]; simp [H.prof.len_temp]
    len_da := hCl
    len_daz := hSl
    len_cd := hkl
    len_dz := H.len_dz
    dt_nonneg := H.dt_nonneg
    da_pos := fun i hi => getD_pos_of_forall hCl hC hi
    daz_pos := fun i hi => getD_pos_of_forall hSl hS (by omega)
    cd_nonneg := fun i hi => by
      have hi' : i < pre.coef.kt.length := by omega
      rw [List.getD_eq_getElem?_getD, List.getElem?_eq_getElem hi']
      exact hk' _ (List.getElem_mem hi')
    dz_pos := H.prof.dz_pos }

/-- Under the same hypotheses the call of `diffusion_equation` inside `vdm` cannot fail: once
    `diffusion_coefficient` has returned, the new potential-temperature profile exists (any later
    exception of `vdm` can only come from the wind-profile or average-pressure loops). -/
theorem vdm_diffusion_returns (sym : Sym K) (P : Param K) (nzref : Nat) (dt : K) (z dz : List K)
    (z0r disp : K) (F : Forc K) (sens : K) (st : VdmState K) (pre : VdmPre K)
    (hsqrt : ∀ x, 0 ≤ x → 0 ≤ sym.sqrt x)
    (hpow : ∀ a b : K, 0 < a → 0 < b → 0 < sym.rpow a b)
    (H : StepHyp P nzref dt z dz F st)
    (h : vdmPre sym P nzref z dz z0r disp F sens st = .ok pre) :
    ∃ xs, diffusion nzref dt pre.temp pre.dC pre.dS pre.coef.kt dz = .ok xs ∧ xs.length = nzref :=
  diffusion_defined nzref dt _ _ _ _ dz
    (vdm_step_admissible sym P nzref dt z dz z0r disp F sens st pre hsqrt hpow H h)

/-- A returned `vdm` step decomposes into `vdmPre` and the call of `diffusion_equation`; the
    profiles left on the object are those of `vdmPre`. -/
theorem vdm_decompose (sym : Sym K) (P : Param K) (nzref nzfor : Nat) (dt : K) (z dz : List K)
    (z0r disp : K) (F : Forc K) (sens : K) (st : VdmState K) (out : VdmOut K)
    (h : vdm sym P nzref nzfor dt z dz z0r disp F sens st = .ok out) :
    ∃ pre, vdmPre sym P nzref z dz z0r disp F sens st = .ok pre ∧
      pre.temp = st.tempProf.set 0 F.temp ∧ 0 < st.tempProf.length ∧
      diffusion nzref dt pre.temp pre.dC pre.dS pre.coef.kt dz = .ok out.st.tempProf ∧
      out.st.presProf = pre.pres ∧ out.st.densityProfC = pre.dC ∧ out.st.densityProfS = pre.dS ∧
      out.st.tempRealProf = pre.treal := by
  unfold vdm at h
  simp only [bind_ok, pure_ok] at h
  obtain ⟨pre, hpre, newT, hT, wind, _, ubl, _, rfl⟩ := h
  refine ⟨pre, hpre, ?_, ?_, liftPy_ok.mp hT, rfl, rfl, rfl, rfl⟩
  · have hp := (vdmPre_ok hpre).1
    unfold vdmProfiles at hp
    simp only [bind_ok, pure_ok] at hp
    obtain ⟨temp, htemp, _, _, _, _, _, _, _, _, _, _, _, _, _, _, _, _, hp⟩ := hp
    obtain ⟨_, rfl⟩ := setC_ok.mp htemp
    exact (congrArg Prod.fst hp).symm
  · have hp := (vdmPre_ok hpre).1
    unfold vdmProfiles at hp
    simp only [bind_ok, pure_ok] at hp
    obtain ⟨temp, htemp, _⟩ := hp
    exact (setC_ok.mp htemp).1

/-- `vdm_max_principle`. Under `StepHyp` and the symbol hypotheses, the potential-temperature
    profile after a returned `vdm` step lies between any bounds `m ≤ M` of the profile before the
    step with the forcing temperature at the lowest level (levels `0 … nzref-2`; the old top value
    is never read): a `vdm` step creates no new extremum of potential temperature. -/
theorem vdm_max_principle (sym : Sym K) (P : Param K) (nzref nzfor : Nat) (dt : K) (z dz : List K)
    (z0r disp : K) (F : Forc K) (sens : K) (st : VdmState K) (out : VdmOut K)
    (hsqrt : ∀ x, 0 ≤ x → 0 ≤ sym.sqrt x)
    (hpow : ∀ a b : K, 0 < a → 0 < b → 0 < sym.rpow a b)
    (H : StepHyp P nzref dt z dz F st)
    (h : vdm sym P nzref nzfor dt z dz z0r disp F sens st = .ok out) (m M : K)
    (hb : ∀ j, j + 2 ≤ nzref →
      m ≤ (st.tempProf.set 0 F.temp).getD j 0 ∧ (st.tempProf.set 0 F.temp).getD j 0 ≤ M) :
    out.st.tempProf.length = nzref ∧ ∀ x ∈ out.st.tempProf, m ≤ x ∧ x ≤ M := by
  obtain ⟨pre, hpre, htemp, _, hdiff, _⟩ :=
    vdm_decompose sym P nzref nzfor dt z dz z0r disp F sens st out h
  have hadm := vdm_step_admissible sym P nzref dt z dz z0r disp F sens st pre hsqrt hpow H hpre
  refine ⟨(diffusion_exact nzref dt _ _ _ _ dz _ hdiff).2.1, ?_⟩
  exact max_principle nzref dt _ _ _ _ dz _ hadm hdiff m M (by rw [htemp]; exact hb)

/-- `vdm_max_principle` for the real functions (`Real.sqrt`, real powers): both symbol
    hypotheses are discharged. -/
theorem vdm_max_principle_real (P : Param ℝ) (nzref nzfor : Nat) (dt : ℝ) (z dz : List ℝ)
    (z0r disp : ℝ) (F : Forc ℝ) (sens : ℝ) (st : VdmState ℝ) (out : VdmOut ℝ)
    (H : StepHyp P nzref dt z dz F st)
    (h : vdm realSym P nzref nzfor dt z dz z0r disp F sens st = .ok out) (m M : ℝ)
    (hb : ∀ j, j + 2 ≤ nzref →
      m ≤ (st.tempProf.set 0 F.temp).getD j 0 ∧ (st.tempProf.set 0 F.temp).getD j 0 ≤ M) :
    out.st.tempProf.length = nzref ∧ ∀ x ∈ out.st.tempProf, m ≤ x ∧ x ≤ M :=
  vdm_max_principle realSym P nzref nzfor dt z dz z0r disp F sens st out
    (fun x _ => Real.sqrt_nonneg x) (fun a b ha _ => Real.rpow_pos_of_pos ha b) H h m M hb

/-- After every returned `vdm` step with `nzref ≥ 2` (no sign hypotheses) the lowest level holds
    the measured rural air temperature `forc.temp` and the top two levels are equal. -/
theorem vdm_boundaries (sym : Sym K) (P : Param K) (nzref nzfor : Nat) (dt : K) (z dz : List K)
    (z0r disp : K) (F : Forc K) (sens : K) (st : VdmState K) (out : VdmOut K) (h2 : 2 ≤ nzref)
    (h : vdm sym P nzref nzfor dt z dz z0r disp F sens st = .ok out) :
    out.st.tempProf[0]? = some F.temp ∧
    ∃ t, out.st.tempProf[nzref - 1]? = some t ∧ out.st.tempProf[nzref - 2]? = some t := by
  obtain ⟨pre, _, htemp, hlen, hdiff, _⟩ :=
    vdm_decompose sym P nzref nzfor dt z dz z0r disp F sens st out h
  refine ⟨?_, top_equal nzref dt _ _ _ _ dz _ h2 hdiff⟩
  obtain ⟨t, h0, hx⟩ := bottom_dirichlet nzref dt _ _ _ _ dz _ h2 hdiff
  rw [htemp, List.getElem?_set_self hlen] at h0
  cases h0
  exact hx

/-- Conservation through a returned `vdm` step with `nzref ≥ 2` (no sign hypotheses): with the
    density profiles the step leaves on the object and `cd` the `Kt` of `diffusion_coefficient`,
    the heat content of the interior column changes by `dt` × the flux through its lowest
    interface. -/
theorem vdm_conservation (sym : Sym K) (P : Param K) (nzref nzfor : Nat) (dt : K) (z dz : List K)
    (z0r disp : K) (F : Forc K) (sens : K) (st : VdmState K) (out : VdmOut K) (h2 : 2 ≤ nzref)
    (h : vdm sym P nzref nzfor dt z dz z0r disp F sens st = .ok out) :
    ∃ pre, vdmPre sym P nzref z dz z0r disp F sens st = .ok pre ∧
      sumFrom (fun i => out.st.densityProfC.getD i 0 * dz.getD i 0 *
          (out.st.tempProf.getD i 0 - (st.tempProf.set 0 F.temp).getD i 0)) 1 (nzref - 2) =
        dt * (2 * out.st.densityProfS.getD 1 0 * pre.coef.kt.getD 1 0 /
          (dz.getD 1 0 + dz.getD 0 0)) * (out.st.tempProf.getD 0 0 - out.st.tempProf.getD 1 0) := by
  obtain ⟨pre, hpre, htemp, _, hdiff, _, hC, hS, _⟩ :=
    vdm_decompose sym P nzref nzfor dt z dz z0r disp F sens st out h
  refine ⟨pre, hpre, ?_⟩
  rw [hC, hS, ← htemp]
  exact interior_conservation nzref dt _ _ _ _ dz _ h2 hdiff

/-- `vdm_step_preserves`. The hypotheses are an invariant of the simulation loop: after a returned
    `vdm` step under `StepHyp`, the state left on the object satisfies `StepHyp` again for any next
    forcing with positive temperature and pressure and any non-negative next timestep (list
    lengths are kept, the new potential temperatures are positive because they lie between old
    positive values, all new pressures are positive). So if the state built by the constructor
    satisfies `VdmHyp`, every step of a run satisfies the maximum principle. -/
theorem vdm_step_preserves (sym : Sym K) (P : Param K) (nzref nzfor : Nat) (dt : K) (z dz : List K)
    (z0r disp : K) (F : Forc K) (sens : K) (st : VdmState K) (out : VdmOut K)
    (hsqrt : ∀ x, 0 ≤ x → 0 ≤ sym.sqrt x)
    (hpow : ∀ a b : K, 0 < a → 0 < b → 0 < sym.rpow a b)
    (H : StepHyp P nzref dt z dz F st)
    (h : vdm sym P nzref nzfor dt z dz z0r disp F sens st = .ok out)
    (F' : Forc K) (dt' : K) (hT : 0 < F'.temp) (hP : 0 < F'.pres) (hdt : 0 ≤ dt') :
    StepHyp P nzref dt' z dz F' out.st := by
  obtain ⟨pre, hpre, htemp, hlen0, hdiff, hpres, hC, hS, hR⟩ :=
    vdm_decompose sym P nzref nzfor dt z dz z0r disp F sens st out h
  have hadm := vdm_step_admissible sym P nzref dt z dz z0r disp F sens st pre hsqrt hpow H hpre
  obtain ⟨hprof, _, _, _⟩ := vdmPre_ok hpre
  obtain ⟨_, ⟨hPl, hPp⟩, ⟨hRl, _⟩, ⟨hCl, _⟩, ⟨hSl, _⟩⟩ := vdmProfiles_spec hpow H.prof hprof
  dsimp only at hPl hPp hRl hCl hSl
  have hxl := (diffusion_exact nzref dt _ _ _ _ dz _ hdiff).2.1
  have hatt := max_principle_attained nzref dt _ _ _ _ dz _ hadm hdiff
  have n2 := H.nz_ge
  -- the old profile (with the forcing temperature at the bottom) is positive
  have hold : ∀ j, j < nzref → 0 < pre.temp.getD j 0 := by
    intro j hj
    rw [htemp]
    by_cases h0 : j = 0
    · subst h0
      rw [List.getD_eq_getElem?_getD, List.getElem?_set_self hlen0]
      simpa using H.prof.ftemp_pos
    · rw [List.getD_eq_getElem?_getD, List.getElem?_set_ne (by omega), ← List.getD_eq_getElem?_getD]
      exact H.prof.temp_pos j (by omega) hj
  exact {
    prof := {
      nz_ge := by omega
      r_pos := H.prof.r_pos
      cp_pos := H.prof.cp_pos
      g_nonneg := H.prof.g_nonneg
      ftemp_pos := hT
      fpres_pos := hP
      len_temp := hxl
      len_pres := by rw [hpres]; exact hPl
      len_treal := by rw [hR]; exact hRl
      len_dC := by rw [hC]; exact hCl
      len_dS := by rw [hS]; exact hSl
      temp_pos := by
        intro i _ hi
        have hi' : i < out.st.tempProf.length := by omega
        rw [List.getD_eq_getElem?_getD, List.getElem?_eq_getElem hi']
        obtain ⟨⟨j, hj, hle⟩, _⟩ := hatt _ (List.getElem_mem hi')
        exact lt_of_lt_of_le (hold j (by omega)) hle
      ptop_pos := by
        rw [hpres]
        exact getD_pos_of_forall hPl hPp (by omega)
      dz_pos := H.prof.dz_pos }
    nz_ge := H.nz_ge
    grid := H.grid
    len_dz := H.len_dz
    dt_nonneg := hdt }

/-! ### Non-vacuity -/

/-- A concrete grid, state and forcing over ℚ meet every hypothesis of the composition … -/
example : StepHyp (K := ℚ) ⟨287, 1004, 981 / 100, 2 / 5, 1000⟩ 2 300 [2, 31 / 5, 541 / 50]
    [4, 22 / 5, 121 / 25] ⟨300, 101325, 3⟩
    ⟨[299, 301], [101300, 101250], [299, 301], [1, 1], [1, 1, 1], [1, 1]⟩ where
  prof := {
    nz_ge := by norm_num
    r_pos := by norm_num
    cp_pos := by norm_num
    g_nonneg := by norm_num
    ftemp_pos := by norm_num
    fpres_pos := by norm_num
    len_temp := rfl
    len_pres := rfl
    len_treal := rfl
    len_dC := rfl
    len_dS := rfl
    temp_pos := by intro i h1 h2; interval_cases i; norm_num
    ptop_pos := by norm_num
    dz_pos := by intro i hi; interval_cases i <;> norm_num }
  nz_ge := le_rfl
  grid := {
    up := by intro i hi; interval_cases i <;> norm_num
    down := by intro i hi; interval_cases i <;> norm_num
    mid := by intro i hi; interval_cases i <;> norm_num }
  len_dz := by simp
  dt_nonneg := by norm_num

/-- … and on it the model of `vdm` (with the rational stand-ins, which satisfy both symbol
    hypotheses) returns, so the theorems above are not vacuous. -/
example : (match vdm stubQ (⟨287, 1004, 981 / 100, 2 / 5, 1000⟩ : Param ℚ) 2 1 300
    [2, 31 / 5, 541 / 50] [4, 22 / 5, 121 / 25] (1 / 100) (1 / 20) ⟨300, 101325, 3⟩ 50
    ⟨[299, 301], [101300, 101250], [299, 301], [1, 1], [1, 1, 1], [1, 1]⟩ with
    | .ok out => out.st.tempProf.length == 2
    | .error _ => false) = true := by
  decide +kernel

/-- The first cells of the shipped grid: `mesoGrid` of `0, 4, 8.4, 13.24`. -/
example : mesoGrid ([0, 4, 42 / 5, 331 / 25] : List ℚ) =
    ([2, 31 / 5, 541 / 50], [4, 22 / 5, 121 / 25]) := by
  norm_num [mesoGrid]

end Uwg.C16
