/-
Composition E - `generate()` as one Lean function (`Model/Generate.lean`), closing composition D.

`uwgMain S P stock zm p hdr rows` is the whole program `parameters + rural file ↦ morphed file`:
`generate(); simulate(); write_epw()` with NOTHING about the configuration or the initial objects handed in - they
are the two components of `generateState` evaluated on the header and the first window row of the file itself.

Part 1 - `generate_pipeline`, `uwgMain_stages`, `uwgMain_no_spurious_stage`, and the transfer of the statements of
  `Props/Pipeline.lean` to `uwgMain` (`uwgMain_preserves / causal / fail_stop / row_stamp / wind / moisture /
  site_cells / ground_cells / unmodelled_irrelevant`). Hypotheses: `ValidRun` of the run parameters and `WellFormed`
  of the FILE (composition A's standing hypotheses) - nothing about the physics, the configuration or the state.
Part 2 - what `generate()` hands on: `generate_history_free`, `generate_dead_params`, `generate_cfg_record_free`
  (C17 at the concrete level), `generate_site_from_header` (C12), `generate_windmin_handed_on` (C02),
  `generate_season_handed_on` (C18), `generate_rsm_grid`, `generate_rsm_levels`, `generate_rsm_profiles`, `level_spec`
  (C16), `generate_canyon_averages` (C13 / C07 / C08), `generate_column_index` (C20), `generate_initial_state`,
  `generate_autosize`, `generate_fail_stop_order` (C10), `uwgMainLib_stock`.

What the theorems still quantify over (= the arguments of the model): the libm symbols `S`, the stock `stock` as
`_compute_BEM` delivers it (`uwgMainLib` composes the tied selection model `Bem.generateBEM` in front, given the
payload of every archetype of the library), the numbers `zm` of `z_meso.txt`. Explicit model limits: `dtweather =
3600` (`MainErr.dtweather` otherwise), `RSM.nzfor ≠ None` (`⟨nzfor, rsm⟩` otherwise).
-/
import UwgVerif.Lemmas.Generate
import UwgVerif.Props.Pipeline
import UwgVerif.Props.C16Coef
import UwgVerif.Props.C08

namespace Uwg.Gen
open Uwg Uwg.Csv Uwg.Sim Uwg.Step Uwg.C02 Uwg.C01 Uwg.Morph Uwg.Pipeline

variable (S : Sym ℚ) (P : GenParams) (stock : Stock) (zm : List ℚ)

/-! ## Part 1 - closing the pipeline -/

/-- the two views of the same function -/
theorem generateState_eq (site : Epw.Site) (g : Epw.Ground) (first : Option Weather.Rec) :
    generateState S P stock site g first zm =
      (match generateFull S P stock site g first zm with
       | .error e => .error e
       | .ok x => .ok (x.cfg, x.state)) := by
  unfold generateState generateFull
  cases stages S P stock g first zm <;> rfl

/-- a returning `generateFull` is `stages` followed by the three assemblies -/
theorem generateFull_ok {site : Epw.Site} {g : Epw.Ground} {first : Option Weather.Rec} {x : Objects}
    (h : generateFull S P stock site g first zm = .ok x) :
    ∃ p, stages S P stock g first zm = .ok p ∧ x.cfg = cfgOfParts S P stock site p ∧
      x.state = stateOfParts P stock p ∧ x.extra = extraOfParts S P p := by
  unfold generateFull at h
  cases hs : stages S P stock g first zm with
  | error e => rw [hs] at h; cases h
  | ok p => rw [hs] at h; cases h; exact ⟨p, rfl, rfl, rfl, rfl⟩

theorem generateState_ok {site : Epw.Site} {g : Epw.Ground} {first : Option Weather.Rec} {C : Cfg ℚ} {s : State ℚ}
    (h : generateState S P stock site g first zm = .ok (C, s)) :
    ∃ p, stages S P stock g first zm = .ok p ∧ C = cfgOfParts S P stock site p ∧ s = stateOfParts P stock p := by
  unfold generateState at h
  cases hs : stages S P stock g first zm with
  | error e => rw [hs] at h; cases h
  | ok p => rw [hs] at h; cases h; exact ⟨p, rfl, rfl, rfl⟩

/-- what a returning `generateFile` went through -/
theorem generateFile_ok {hdr rows : List Csv.Row} {x : Objects} (h : generateFile S P stock zm hdr rows = .ok x) :
    ∃ site g recs, Epw.readHeader hdr = .ok (site, g) ∧ P.dtweather = 3600 ∧
      Weather.read S (hdr ++ rows) (timeInitial P.month P.day) (timeFinal P.month P.day P.nday) = .ok recs ∧
      generateFull S P stock site g recs.head? zm = .ok x := by
  unfold generateFile at h
  cases hh : Epw.readHeader hdr with
  | error e => rw [hh] at h; cases h
  | ok sg =>
    obtain ⟨site, g⟩ := sg
    rw [hh] at h
    dsimp only at h
    cases hsp : simParam P with
    | error e => rw [hsp] at h; cases h
    | ok st =>
      rw [hsp] at h
      dsimp only at h
      by_cases hd : P.dtweather = 3600
      · rw [if_neg (by simpa using hd)] at h
        cases hr : Weather.read S (hdr ++ rows) (timeInitial P.month P.day) (timeFinal P.month P.day P.nday) with
        | error e => rw [hr] at h; cases h
        | ok recs =>
          rw [hr] at h
          dsimp only at h
          cases hg : generateFull S P stock site g recs.head? zm with
          | error e => rw [hg] at h; cases h
          | ok y => rw [hg] at h; cases h; exact ⟨site, g, recs, rfl, hd, rfl, hg⟩
      · rw [if_pos hd] at h; cases h

/-- **`generate_pipeline`.** Whenever the header is readable, the weather timestep is one hour, `Weather` returns
    and `generateState` - on the site and ground data of THAT header, the first station record of THAT window, the
    parameters, the stock and `z_meso` - returns `(C0, s0)`, the whole program is composition D's `pipeline` with
    `C0` / `init` := these two components: nothing is left to hand in. -/
theorem generate_pipeline (p : Nat) (hdr rows : List Csv.Row) (site : Epw.Site) (g : Epw.Ground)
    (recs : List Weather.Rec) (C0 : Cfg ℚ) (s0 : State ℚ)
    (hh : Epw.readHeader hdr = .ok (site, g)) (hd : P.dtweather = 3600)
    (hr : Weather.read S (hdr ++ rows) (timeInitial P.month P.day) (timeFinal P.month P.day P.nday) = .ok recs)
    (hg : generateState S P stock site g recs.head? zm = .ok (C0, s0)) :
    uwgMain S P stock zm p hdr rows =
      (Pipeline.pipeline S C0 (fun _ => s0) P.droad P.kroad P.croad P.dtsim P.month P.day P.nday p hdr
        rows).mapError MainErr.pipe := by
  obtain ⟨q, hq, rfl, rfl⟩ := generateState_ok S P stock zm hg
  have hsp : ∃ st, simParam P = .ok st := ⟨q.sim, (stages_ok hq).1⟩
  obtain ⟨st, hst⟩ := hsp
  have hf : generateFile S P stock zm hdr rows =
      .ok { cfg := cfgOfParts S P stock site q, state := stateOfParts P stock q, extra := extraOfParts S P q } := by
    unfold generateFile
    rw [hh]
    dsimp only
    rw [hst]
    dsimp only
    rw [if_neg (by simpa using hd), hr]
    dsimp only
    unfold generateFull
    rw [hq]
  unfold uwgMain
  rw [hf]
  dsimp only
  cases Pipeline.pipeline S (cfgOfParts S P stock site q) (fun _ => stateOfParts P stock q) P.droad P.kroad P.croad
    P.dtsim P.month P.day P.nday p hdr rows <;> rfl

/-- **`uwgMain_stages`.** A run of the whole program that writes a file went through: header read, `Weather`
    returned, `generateState` returned `(C, s)` on the header's site / ground data and the first station record,
    and `pipeline` with exactly these wrote the file. -/
theorem uwgMain_stages {p : Nat} {hdr rows : List Csv.Row} {text : List Char}
    (h : uwgMain S P stock zm p hdr rows = .ok text) :
    ∃ site g recs C s, Epw.readHeader hdr = .ok (site, g) ∧ P.dtweather = 3600 ∧
      Weather.read S (hdr ++ rows) (timeInitial P.month P.day) (timeFinal P.month P.day P.nday) = .ok recs ∧
      generateState S P stock site g recs.head? zm = .ok (C, s) ∧
      Pipeline.pipeline S C (fun _ => s) P.droad P.kroad P.croad P.dtsim P.month P.day P.nday p hdr rows =
        .ok text := by
  unfold uwgMain at h
  cases hf : generateFile S P stock zm hdr rows with
  | error e => rw [hf] at h; cases h
  | ok x =>
    rw [hf] at h
    dsimp only at h
    obtain ⟨site, g, recs, hh, hd, hr, hg⟩ := generateFile_ok S P stock zm hf
    cases hp : Pipeline.pipeline S x.cfg (fun _ => x.state) P.droad P.kroad P.croad P.dtsim P.month P.day P.nday p
        hdr rows with
    | error e => rw [hp] at h; cases h
    | ok t =>
      rw [hp] at h
      cases h
      refine ⟨site, g, recs, x.cfg, x.state, hh, hd, hr, ?_, hp⟩
      rw [generateState_eq, hg]

theorem readRecs_length : ∀ (k : Nat) (gl : List C06.Str) (b : Nat) (rs : List Epw.GRec),
    Epw.readRecs gl b k = .ok rs → rs.length = k := by
  intro k
  induction k with
  | zero => intro gl b rs h; simp only [Epw.readRecs] at h; cases h; rfl
  | succ k ih =>
    intro gl b rs h
    simp only [Epw.readRecs, bindE_ok, pureE_ok] at h
    obtain ⟨_, _, _, _, rest, hrest, rfl⟩ := h
    simp [ih gl _ rest hrest]

theorem readHeader_recs_length {hdr : List Csv.Row} {site : Epw.Site} {g : Epw.Ground}
    (h : Epw.readHeader hdr = .ok (site, g)) : g.recs.length = g.nSoil.toNat := by
  obtain ⟨_, gl, _, _, _, hg⟩ := readHeader_ok h
  unfold Epw.readGround at hg
  simp only [bindE_ok, pureE_ok] at hg
  obtain ⟨n, _, rs, hrs, rfl⟩ := hg
  exact readRecs_length _ _ _ _ hrs

/-- **`uwgMain_no_spurious_stage`.** After `generateState` returned on the header and window of the file, the
    two stages of composition D that repeat work of `generate()` cannot stop the run: the first wind cell is a number
    (`initWindText = false`), the road column is accepted and - with at least three depths - carries an index
    (`soilOf` returns), and overwriting the site and timestep of the configuration with those of the header and the
    run (`cfgOf`) changes nothing. -/
theorem uwgMain_no_spurious_stage {hdr : List Csv.Row} {site : Epw.Site} {g : Epw.Ground} {recs : List Weather.Rec}
    {C : Cfg ℚ} {s : State ℚ} (hh : Epw.readHeader hdr = .ok (site, g))
    (hg : generateState S P stock site g recs.head? zm = .ok (C, s)) :
    initWindText recs = false ∧ (∃ soil, soilOf P.droad P.kroad P.croad g recs = .ok soil) ∧
    cfgOf C site P.dtsim = C := by
  obtain ⟨q, hq, rfl, rfl⟩ := generateState_ok S P stock zm hg
  obtain ⟨_, hfirst, _, _, _, _, ⟨wind, hw, _⟩, hcol, _⟩ := stages_ok hq
  refine ⟨?_, ?_, rfl⟩
  · unfold initWindText
    rw [hfirst]
    simp only [hw]
  · unfold soilOf
    rw [hcol]
    dsimp only
    by_cases h3 : 3 ≤ g.nSoil
    · rw [if_pos h3]
      cases hidx : q.col.2 with
      | some i => exact ⟨_, rfl⟩
      | none =>
        exfalso
        rw [hidx] at hcol
        unfold roadColumn columnOutcome at hcol
        split at hcol
        · cases hcol
        · split at hcol
          · cases hcol
          · rename_i hlen
            apply hlen
            rw [List.length_map, readHeader_recs_length hh]
            omega
        · cases hcol
    · rw [if_neg h3]
      exact ⟨_, rfl⟩

/-! ### transfer of the theorems of composition D -/

/-- **`uwgMain_preserves`** (= `pipeline_preserves`). Whenever the program writes a file, reading the text back
    gives the 8 header rows unchanged followed by data rows `out` with the same number of rows and, row by row, the
    same number of cells as the rural file; for EVERY hour `n` of the run cells 6, 7, 8, 21 of data row `24·j₀ + n`
    are the formatted values of one record `x` (`recs` has exactly `24·days` of them); every other cell of every
    row is identical to the rural cell. -/
theorem uwgMain_preserves (p : Nat) (hdr rows : List Csv.Row) (text : List Char)
    (hv : ValidRun P.dtsim P.month P.day P.nday) (hw : WellFormed hdr rows P.month P.day P.nday)
    (h : uwgMain S P stock zm p hdr rows = .ok text) :
    ∃ (out : List Csv.Row) (recs : List Res),
      parseFile text = hdr ++ out ∧ out.length = rows.length ∧
      (∀ i : Nat, (out[i]?).map List.length = (rows[i]?).map List.length) ∧
      recs.length = 24 * P.nday ∧
      (∀ n, n < 24 * P.nday → ∃ x, recs[n]? = some x ∧ WrittenAt out (24 * dayOfYear0 P.month P.day + n) x p) ∧
      (∀ i j : Nat, ¬ (24 * dayOfYear0 P.month P.day ≤ i ∧ i < 24 * dayOfYear0 P.month P.day + 24 * P.nday ∧
        IsWrittenCol j) → cellAt out i j = cellAt rows i j) := by
  obtain ⟨_, _, _, C, s, _, _, _, _, hp⟩ := uwgMain_stages S P stock zm h
  obtain ⟨out, recs, h1, h2, h3, _, h5, h6, h7⟩ :=
    pipeline_preserves S C (fun _ => s) P.droad P.kroad P.croad P.dtsim P.month P.day P.nday p hdr rows text hv hw hp
  exact ⟨out, recs, h1, h2, h3, h5, h6, h7⟩

/-- **`uwgMain_row_stamp`** (= `pipeline_row_stamp`). If the rural file carries the conventional hour-ending
    stamps, the row written for hour `n` still carries the calendar date of `start + n hours`. -/
theorem uwgMain_row_stamp (p : Nat) (hdr rows : List Csv.Row) (text : List Char) (enc : Nat → Cell)
    (hv : ValidRun P.dtsim P.month P.day P.nday) (hw : WellFormed hdr rows P.month P.day P.nday)
    (hst : ∀ k, k < rows.length → cellAt rows k 1 = some (enc (stamp k).1) ∧
      cellAt rows k 2 = some (enc (stamp k).2.1) ∧ cellAt rows k 3 = some (enc (stamp k).2.2))
    (h : uwgMain S P stock zm p hdr rows = .ok text) :
    ∃ (out : List Csv.Row) (recs : List Res), parseFile text = hdr ++ out ∧
      ∀ n, n < 24 * P.nday → ∃ x, recs[n]? = some x ∧
        writeRow P.month P.day n = 24 * dayOfYear0 P.month P.day + n ∧
        WrittenAt out (writeRow P.month P.day n) x p ∧
        cellAt out (writeRow P.month P.day n) 1 =
          some (enc (trueCalendar (dayOfYear0 P.month P.day * 86400 + n * 3600)).month) ∧
        cellAt out (writeRow P.month P.day n) 2 =
          some (enc (trueCalendar (dayOfYear0 P.month P.day * 86400 + n * 3600)).day) ∧
        cellAt out (writeRow P.month P.day n) 3 =
          some (enc ((trueCalendar (dayOfYear0 P.month P.day * 86400 + n * 3600)).hourDay + 1)) := by
  obtain ⟨_, _, _, C, s, _, _, _, _, hp⟩ := uwgMain_stages S P stock zm h
  obtain ⟨out, recs, h1, _, h3⟩ :=
    pipeline_row_stamp S C (fun _ => s) P.droad P.kroad P.croad P.dtsim P.month P.day P.nday p hdr rows text enc hv hw
      hst hp
  exact ⟨out, recs, h1, h3⟩

/-- the minimum wind of the configuration `generate()` builds is the parameter `windmin` -/
theorem cfgOfParts_windMin (site : Epw.Site) (q : Parts) : (cfgOfParts S P stock site q).par.windMin = P.windmin := rfl

/-- **`uwgMain_wind`** (= `pipeline_wind` + `generate_windmin_handed_on`). Whenever the program writes a file, for
    every hour `n` the wind cell (column 21) of data row `24·j₀ + n` is `fmtFixed (max q windmin) p`, where `q` is the
    NUMBER in the wind cell of rural row `24·j₀ + n` itself and `windmin` the PARAMETER - unscaled. -/
theorem uwgMain_wind (p : Nat) (hdr rows : List Csv.Row) (text : List Char)
    (hv : ValidRun P.dtsim P.month P.day P.nday) (hw : WellFormed hdr rows P.month P.day P.nday)
    (h : uwgMain S P stock zm p hdr rows = .ok text) :
    ∃ out : List Csv.Row, parseFile text = hdr ++ out ∧
      ∀ n, n < 24 * P.nday → ∃ (r : Csv.Row) (c : Cell) (q : ℚ),
        rows[24 * dayOfYear0 P.month P.day + n]? = some r ∧ r[21]? = some c ∧ Weather.str2flCell c = .num q ∧
        cellAt out (24 * dayOfYear0 P.month P.day + n) 21 = some (fmtFrac (toFrac (max q P.windmin)) p) := by
  obtain ⟨site, g, recs, C, s, _, _, _, hg, hp⟩ := uwgMain_stages S P stock zm h
  obtain ⟨q, _, rfl, rfl⟩ := generateState_ok S P stock zm hg
  obtain ⟨out, h1, h2⟩ := pipeline_wind S (cfgOfParts S P stock site q) (fun _ => stateOfParts P stock q) P.droad
    P.kroad P.croad P.dtsim P.month P.day P.nday p hdr rows text hv hw hp
  refine ⟨out, h1, ?_⟩
  intro n hn
  obtain ⟨r, c, qq, a, b, c', d⟩ := h2 n hn
  refine ⟨r, c, qq, a, b, c', ?_⟩
  rw [d, cfgOfParts_windMin]

/-- **`uwgMain_moisture`** (= `pipeline_moisture`). Whenever the program writes a file, for every hour `n` the
    canyon humidity ratio behind record `n` is `hum_from_rhum_temp` of the RH / dry-bulb / pressure CELLS of rural row
    `24·j₀ + n`, and the written dry bulb, dew point and relative humidity are the formatted `T − 273.15`, `Tdp`, `RH`
    that `psychrometrics` gives for (canyon temperature of that pass, that ratio, that row's pressure). -/
theorem uwgMain_moisture (p : Nat) (hdr rows : List Csv.Row) (text : List Char)
    (hv : ValidRun P.dtsim P.month P.day P.nday) (hw : WellFormed hdr rows P.month P.day P.nday)
    (h : uwgMain S P stock zm p hdr rows = .ok text) :
    ∃ out : List Csv.Row, parseFile text = hdr ++ out ∧
      ∀ n, n < 24 * P.nday → ∃ (r : Csv.Row) (c6 c8 c9 : Cell) (tC rh pr hum : ℚ) (sb : State ℚ) (ps : PsyOut ℚ),
        rows[24 * dayOfYear0 P.month P.day + n]? = some r ∧
        r[6]? = some c6 ∧ r[8]? = some c8 ∧ r[9]? = some c9 ∧
        Weather.str2flCell c6 = .num tC ∧ Weather.str2flCell c8 = .num rh ∧ Weather.str2flCell c9 = .num pr ∧
        humFromRh S rh tC pr = .ok hum ∧ sb.ucm.canHum = hum ∧
        psychro S sb.ucm.canTemp hum pr = .ok ps ∧
        cellAt out (24 * dayOfYear0 P.month P.day + n) 6 = some (fmtFrac (toFrac (sb.ucm.canTemp - 273.15)) p) ∧
        cellAt out (24 * dayOfYear0 P.month P.day + n) 7 = some (fmtFrac (toFrac ps.tdp) p) ∧
        cellAt out (24 * dayOfYear0 P.month P.day + n) 8 = some (fmtFrac (toFrac ps.phi) p) := by
  obtain ⟨_, _, _, C, s, _, _, _, _, hp⟩ := uwgMain_stages S P stock zm h
  exact pipeline_moisture S C (fun _ => s) P.droad P.kroad P.croad P.dtsim P.month P.day P.nday p hdr rows text hv hw hp

/-- **`uwgMain_fail_stop`** (C10). If `generate()` raises at any stage (header, `SimParam`, `Weather`, a
    constructor, the refused road column, …) or `generate(); simulate()` raises afterwards, the program yields NO
    file - for any file and any parameters. -/
theorem uwgMain_fail_stop (p : Nat) (hdr rows : List Csv.Row)
    (hbad : (∃ e, generateFile S P stock zm hdr rows = .error e) ∨
      (∃ x e, generateFile S P stock zm hdr rows = .ok x ∧
        pipelineSim S x.cfg (fun _ => x.state) P.droad P.kroad P.croad P.dtsim P.month P.day P.nday (24 * P.nday)
          hdr rows = .error e)) :
    ∃ e, uwgMain S P stock zm p hdr rows = .error e := by
  rcases hbad with ⟨e, he⟩ | ⟨x, e, hx, he⟩
  · exact ⟨e, by unfold uwgMain; rw [he]⟩
  · obtain ⟨e', he'⟩ := pipeline_fail_stop S x.cfg (fun _ => x.state) P.droad P.kroad P.croad P.dtsim P.month P.day
      P.nday p hdr rows (Or.inr (Or.inr (Or.inr ⟨e, he⟩)))
    exact ⟨.pipe e', by unfold uwgMain; rw [hx]; dsimp only; rw [he']⟩

/-- **`uwgMain_site_cells`** (C12 end to end). Whenever the program writes a file, the latitude, longitude and time
    zone of the configuration every pass runs with are the numeric values of cells 6, 7, 8 of line 1 of the rural
    file - no parameter enters. -/
theorem uwgMain_site_cells {p : Nat} {hdr rows : List Csv.Row} {text : List Char}
    (h : uwgMain S P stock zm p hdr rows = .ok text) :
    ∃ (loc : Csv.Row) (a b c : Cell) (lat lon gmt : ℚ) (x : Objects),
      hdr[0]? = some loc ∧ loc[6]? = some a ∧ loc[7]? = some b ∧ loc[8]? = some c ∧
      C06.parseFloat a = some lat ∧ C06.parseFloat b = some lon ∧ C06.parseFloat c = some gmt ∧
      generateFile S P stock zm hdr rows = .ok x ∧ x.cfg.lat = lat ∧ x.cfg.lon = lon ∧ x.cfg.gmt = gmt := by
  unfold uwgMain at h
  cases hf : generateFile S P stock zm hdr rows with
  | error e => rw [hf] at h; cases h
  | ok x =>
    obtain ⟨site, g, recs, hh, _, _, hg⟩ := generateFile_ok S P stock zm hf
    obtain ⟨q, _, hc, _, _⟩ := generateFull_ok S P stock zm hg
    obtain ⟨loc, gl, h0, _, hs, _⟩ := readHeader_ok hh
    obtain ⟨a, b, c, ha, hb, hc', pa, pb, pc⟩ := readSite_ok hs
    obtain ⟨lat, lon, gmt⟩ := site
    exact ⟨loc, a, b, c, lat, lon, gmt, x, h0, ha, hb, hc', pa, pb, pc, rfl, by rw [hc]; rfl, by rw [hc]; rfl,
      by rw [hc]; rfl⟩

/-- the first station record is the record of the first window row -/
theorem read_head {hdr rows : List Csv.Row} {M Dy days : Nat} {recs : List Weather.Rec} (h8 : hdr.length = 8)
    (hfit : 24 * ((Clock.init M Dy).julian + days) ≤ rows.length) (hdays : 0 < days)
    (hr : Weather.read S (hdr ++ rows) (timeInitial M Dy) (timeFinal M Dy days) = .ok recs) :
    ∃ r w, rows[24 * (Clock.init M Dy).julian]? = some r ∧ Weather.rowRec S r = .ok w ∧ recs.head? = some w := by
  obtain ⟨_, hfa⟩ := read_ok_inv hr
  rw [weather_window_bridge hdr rows M Dy days h8] at hfa
  have hwl : (window M Dy days rows).length = 24 * days := window_length M Dy days rows hfit
  have hl := Weather.forall₂_length hfa
  have h0 : (window M Dy days rows)[0]? = rows[24 * (Clock.init M Dy).julian + 0]? :=
    window_getElem? M Dy days rows 0 (by omega)
  have hlt : 0 < (window M Dy days rows).length := by omega
  have hlt' : 0 < recs.length := by omega
  have e0 : (window M Dy days rows)[0]? = some (window M Dy days rows)[0] := List.getElem?_eq_getElem hlt
  have e1 : recs[0]? = some recs[0] := List.getElem?_eq_getElem hlt'
  refine ⟨(window M Dy days rows)[0], recs[0], by rw [← Nat.add_zero (24 * _), ← h0, e0],
    forall₂_get hfa 0 _ _ e0 e1, ?_⟩
  rw [List.head?_eq_getElem?, e1]

/-- **`uwgMain_causal`** (= `pipeline_causal`; C03). Two well-formed rural files whose headers are interpreted alike
    and state at least three ground depths, and whose window rows `0 … h` agree on the ten modelled columns: if the
    program writes a file for both (same parameters, stock, `z_meso`), the rewritten cells of the window rows `0 … h`
    are the same in the two written files. The initial objects `generate()` builds are THE SAME for both files (they
    depend on the header and on window row 0 only) - this is part of the proof, not a hypothesis. -/
theorem uwgMain_causal (p : Nat) (hdr hdr' rows rows' : List Csv.Row) (text text' : List Char) (h : Nat)
    (hv : ValidRun P.dtsim P.month P.day P.nday) (hw : WellFormed hdr rows P.month P.day P.nday)
    (hw' : WellFormed hdr' rows' P.month P.day P.nday) (hh : h < 24 * P.nday)
    (hhdr : Epw.readHeader hdr = Epw.readHeader hdr')
    (h3 : ∀ site g, Epw.readHeader hdr = .ok (site, g) → 3 ≤ g.nSoil)
    (hagree : ∀ n, n ≤ h → ∀ j ∈ modelledCols,
      cellAt rows (24 * dayOfYear0 P.month P.day + n) j = cellAt rows' (24 * dayOfYear0 P.month P.day + n) j)
    (hm : uwgMain S P stock zm p hdr rows = .ok text) (hm' : uwgMain S P stock zm p hdr' rows' = .ok text') :
    ∃ out out' : List Csv.Row, parseFile text = hdr ++ out ∧ parseFile text' = hdr' ++ out' ∧
      ∀ n j, n ≤ h → IsWrittenCol j →
        cellAt out (24 * dayOfYear0 P.month P.day + n) j = cellAt out' (24 * dayOfYear0 P.month P.day + n) j := by
  obtain ⟨site, g, recs, C, s, hh1, _, hr, hg, hp⟩ := uwgMain_stages S P stock zm hm
  obtain ⟨site', g', recs', C', s', hh1', _, hr', hg', hp'⟩ := uwgMain_stages S P stock zm hm'
  rw [hhdr, hh1'] at hh1
  simp only [Except.ok.injEq, Prod.mk.injEq] at hh1
  obtain ⟨rfl, rfl⟩ := hh1
  have hj := julian_eq hv.date
  obtain ⟨r, w, hr0, hw0, hhead⟩ := read_head S hw.hdr8 (by rw [hj]; exact hw.fits) hv.days_pos hr
  obtain ⟨r', w', hr0', hw0', hhead'⟩ := read_head S hw'.hdr8 (by rw [hj]; exact hw'.fits) hv.days_pos hr'
  have hrr : Weather.rowRec S r = Weather.rowRec S r' := by
    apply Weather.rowRec_congr
    intro j hj'
    have := hagree 0 (Nat.zero_le _) j hj'
    unfold cellAt at this
    rw [Nat.add_zero, ← hj, hr0, hr0'] at this
    simpa using this
  rw [hrr, hw0'] at hw0
  cases hw0
  rw [hhead, ← hhead', hg'] at hg
  simp only [Except.ok.injEq, Prod.mk.injEq] at hg
  obtain ⟨hC, hs⟩ := hg
  subst hC hs
  exact pipeline_causal S _ _ P.droad P.kroad P.croad P.dtsim P.month P.day P.nday p hdr hdr' rows rows'
    text text' h hv hw hw' hh hhdr h3 hagree hp hp'

/-- two rural files that agree on cells 6..8 of line 1, on line 4 and on the ten modelled columns of the window
    rows give the same outcome of `generate()` - configuration, state, extras, or the same failing stage -/
theorem generateFile_congr (hdr hdr' rows rows' : List Csv.Row) (loc loc' : Csv.Row)
    (h8 : hdr.length = 8) (h8' : hdr'.length = 8) (h0 : hdr[0]? = some loc) (h0' : hdr'[0]? = some loc')
    (h6 : loc[6]? = loc'[6]?) (h7 : loc[7]? = loc'[7]?) (h8c : loc[8]? = loc'[8]?)
    (h4 : hdr[3]? = hdr'[3]?) (hlen : rows.length = rows'.length)
    (hagree : ∀ i, 24 * (Clock.init P.month P.day).julian ≤ i →
      i < 24 * (Clock.init P.month P.day).julian + 24 * P.nday →
      ∀ j ∈ modelledCols, cellAt rows i j = cellAt rows' i j) :
    generateFile S P stock zm hdr rows = generateFile S P stock zm hdr' rows' := by
  have hg : ∃ gl, hdr[3]? = some gl := ⟨hdr[3], List.getElem?_eq_getElem (by omega)⟩
  obtain ⟨gl, hgl⟩ := hg
  have hhdr : Epw.readHeader hdr = Epw.readHeader hdr' :=
    Epw.readHeader_congr hdr hdr' loc loc' gl h0 h0' hgl (by rw [← h4]; exact hgl) h6 h7 h8c
  unfold generateFile
  rw [← hhdr]
  cases hh : Epw.readHeader hdr with
  | error e => rfl
  | ok sg =>
    obtain ⟨site, g⟩ := sg
    obtain ⟨loc0, _, h00, _, hs, _⟩ := readHeader_ok hh
    rw [h0] at h00
    cases h00
    obtain ⟨a, _, _, ha, _⟩ := readSite_ok hs
    have hl1 : ∃ c, loc[1]? = some c := by
      have := (List.getElem?_eq_some_iff.1 ha).1
      exact ⟨loc[1], List.getElem?_eq_getElem (by omega)⟩
    have hl1' : ∃ c, loc'[1]? = some c := by
      rw [h6] at ha
      have := (List.getElem?_eq_some_iff.1 ha).1
      exact ⟨loc'[1], List.getElem?_eq_getElem (by omega)⟩
    obtain ⟨c1, hc1⟩ := hl1
    obtain ⟨c1', hc1'⟩ := hl1'
    have hread : Weather.read S (hdr ++ rows) (timeInitial P.month P.day) (timeFinal P.month P.day P.nday) =
        Weather.read S (hdr' ++ rows') (timeInitial P.month P.day) (timeFinal P.month P.day P.nday) := by
      cases hdr with
      | nil => simp at h8
      | cons f t =>
        cases hdr' with
        | nil => simp at h8'
        | cons f' t' =>
          simp only [List.getElem?_cons_zero, Option.some.injEq] at h0 h0'
          subst h0 h0'
          have hwin : (Weather.window (f :: t ++ rows) (timeInitial P.month P.day)
                (timeFinal P.month P.day P.nday)).map Weather.extract =
              (Weather.window (f' :: t' ++ rows') (timeInitial P.month P.day)
                (timeFinal P.month P.day P.nday)).map Weather.extract := by
            rw [weather_window_bridge (f :: t) rows P.month P.day P.nday h8,
              weather_window_bridge (f' :: t') rows' P.month P.day P.nday h8']
            apply map_window_congr Weather.extract P.month P.day P.nday rows rows' hlen
            intro n r r' hn hr hr'
            apply extract_congr
            intro j hj
            have := hagree (24 * (Clock.init P.month P.day).julian + n) (by omega) (by omega) j hj
            unfold cellAt at this
            rw [hr, hr'] at this
            simpa using this
          exact read_congr S f f' (t ++ rows) (t' ++ rows') _ _ c1 c1' hc1 hc1' hwin
    simp only [hread]

/-- **`uwgMain_unmodelled_irrelevant`** (= `pipeline_unmodelled_irrelevant_file`; C03). Under the standing
    hypotheses for both files: two rural files that agree on cells 6..8 of line 1, on line 4 and on the ten modelled
    columns of the window rows - `generate()` builds the same objects for both; if the program writes a file for one
    it writes a file for the other, and the two written files differ ONLY where the two rural files differ. -/
theorem uwgMain_unmodelled_irrelevant (p : Nat) (hdr hdr' rows rows' : List Csv.Row) (loc loc' : Csv.Row)
    (text : List Char) (hv : ValidRun P.dtsim P.month P.day P.nday)
    (hw : WellFormed hdr rows P.month P.day P.nday) (hw' : WellFormed hdr' rows' P.month P.day P.nday)
    (h0 : hdr[0]? = some loc) (h0' : hdr'[0]? = some loc')
    (h6 : loc[6]? = loc'[6]?) (h7 : loc[7]? = loc'[7]?) (h8c : loc[8]? = loc'[8]?)
    (h4 : hdr[3]? = hdr'[3]?) (hlen : rows.length = rows'.length)
    (hagree : ∀ i, 24 * dayOfYear0 P.month P.day ≤ i → i < 24 * dayOfYear0 P.month P.day + 24 * P.nday →
      ∀ j ∈ modelledCols, cellAt rows i j = cellAt rows' i j)
    (h : uwgMain S P stock zm p hdr rows = .ok text) :
    generateFile S P stock zm hdr rows = generateFile S P stock zm hdr' rows' ∧
    ∃ (text' : List Char) (out out' : List Csv.Row),
      uwgMain S P stock zm p hdr' rows' = .ok text' ∧
      parseFile text = hdr ++ out ∧ parseFile text' = hdr' ++ out' ∧
      ∀ i j : Nat, cellAt rows i j = cellAt rows' i j → cellAt out i j = cellAt out' i j := by
  have hj := julian_eq hv.date
  have hgf := generateFile_congr S P stock zm hdr hdr' rows rows' loc loc' hw.hdr8 hw'.hdr8 h0 h0' h6 h7 h8c h4 hlen
    (by rw [hj]; exact hagree)
  refine ⟨hgf, ?_⟩
  unfold uwgMain at h ⊢
  rw [← hgf]
  cases hf : generateFile S P stock zm hdr rows with
  | error e => rw [hf] at h; cases h
  | ok x =>
    rw [hf] at h
    dsimp only at h ⊢
    cases hp : Pipeline.pipeline S x.cfg (fun _ => x.state) P.droad P.kroad P.croad P.dtsim P.month P.day P.nday p
        hdr rows with
    | error e => rw [hp] at h; cases h
    | ok t =>
      rw [hp] at h
      cases h
      obtain ⟨text', out, out', hp', h1, h2, h3⟩ :=
        pipeline_unmodelled_irrelevant_file S x.cfg (fun _ => x.state) P.droad P.kroad P.croad P.dtsim P.month P.day
          P.nday p hdr hdr' rows rows' loc loc' _ hv hw hw' h0 h0' h6 h7 h8c h4 hlen hagree hp
      exact ⟨text', out, out', by rw [hp'], h1, h2, h3⟩

/-! ## Part 2 - what `generate()` hands on -/

/-- **`generate_dead_params`** (C17). The parameters `radfocc`, `maxnight` (`geoParam.nightThreshold`) and `h_temp`
    (`geoParam.tempHeight`, used for `RSM.nz0` only) are DEAD at this stage: no statement of `_compute_input` hands
    them on to anything a pass reads or assigns - whatever they hold, configuration and state are the same. (The
    stock parameters `zone`, `bld` and the six overrides enter through `_compute_BEM` only; `epw_precision`,
    the output path and the reference-data vectors are not arguments at all.) -/
theorem generate_dead_params (site : Epw.Site) (g : Epw.Ground) (first : Option Weather.Rec) (a b c : ℚ) :
    generateState S { P with radfocc := a, maxnight := b, h_temp := c } stock site g first zm =
      generateState S P stock site g first zm := rfl

/-- `P'` differs from `P` at most in the three dead parameters -/
def LiveEq (P P' : GenParams) : Prop :=
  { P' with radfocc := P.radfocc, maxnight := P.maxnight, h_temp := P.h_temp } = P

/-- **`generate_history_free`** (C17 at the concrete level). Configuration and state after `generate()` are a
    FUNCTION of: the live parameters, the stock as `_compute_BEM` delivers it, site and ground data of the header,
    the first station record, the `z_meso` levels (and the libm symbols) - nothing else: two parameter sets that
    differ only in parameters `generate()` does not hand on give the same configuration and state, whatever
    happened to the object before (there is no other argument a history could enter through). -/
theorem generate_history_free (P' : GenParams) (site : Epw.Site) (g : Epw.Ground) (first : Option Weather.Rec)
    (h : LiveEq P P') :
    generateState S P' stock site g first zm = generateState S P stock site g first zm := by
  rw [← generate_dead_params S P' stock zm site g first P.radfocc P.maxnight P.h_temp]
  unfold LiveEq at h
  rw [h]

theorem ucmInit_static {i : Urb.UcmInitIn ℚ} {u : Urb.UcmInit ℚ} (h : Urb.ucmInit S i = .ok u) :
    Canyon.ucmGeometry S i.bldHeight i.bldDensity i.verToHor i.treeCoverage i.roadVeg = .ok u.geom ∧
    u.z0u = Urb.z0u i.bldHeight i.verToHor ∧ u.lDisp = Urb.lDisp i.bldHeight i.verToHor ∧
    u.canWind = i.initialWind ∧ u.ublWind = max i.initialWind i.windMin ∧
    u.facAbsor = Urb.facAbsor i.rGlaze i.albWall i.shgc := by
  unfold Urb.ucmInit at h
  split at h
  · cases h
  · rename_i gm hgm
    cases h
    exact ⟨hgm, rfl, rfl, rfl, rfl, rfl⟩

/-- **`generate_cfg_record_free`.** The configuration does not depend on the station record: whatever the first
    window row holds, a returning `generate()` builds the same configuration (so `C0` of composition D is a
    function of the parameter file, the stock, the header and `z_meso` alone; only `init` sees the weather). -/
theorem generate_cfg_record_free (site : Epw.Site) (g : Epw.Ground) (first first' : Option Weather.Rec)
    (C C' : Cfg ℚ) (s s' : State ℚ) (h : generateState S P stock site g first zm = .ok (C, s))
    (h' : generateState S P stock site g first' zm = .ok (C', s')) : C = C' := by
  obtain ⟨q, hq, rfl, _⟩ := generateState_ok S P stock zm h
  obtain ⟨q', hq', rfl, _⟩ := generateState_ok S P stock zm h'
  obtain ⟨_, _, hu, _, _, hr, ⟨_, _, hc⟩, _, hn⟩ := stages_ok hq
  obtain ⟨_, _, hu', _, _, hr', ⟨_, _, hc'⟩, _, hn'⟩ := stages_ok hq'
  rw [hu] at hu'
  have eu : q.ubl = q'.ubl := Except.ok.inj hu'
  obtain ⟨a1, a2, a3, a4, a5, a6, _⟩ := rsmInit_ok hr
  obtain ⟨b1, b2, b3, b4, b5, b6, _⟩ := rsmInit_ok hr'
  obtain ⟨c1, c2, c3, _⟩ := ucmInit_static S hc
  obtain ⟨d1, d2, d3, _⟩ := ucmInit_static S hc'
  dsimp only at c1 d1 c2 d2 c3 d3
  rw [c1] at d1
  have eg : q.ucm.geom = q'.ucm.geom := Except.ok.inj d1
  rw [a1] at b1
  have enz : q.rsm.nzref = q'.rsm.nzref := Option.some.inj b1
  have en : q.nzfor = q'.nzfor := by
    have : some q.nzfor = some q'.nzfor := by rw [← hn, ← hn', a4, b4]
    exact Option.some.inj this
  unfold cfgOfParts
  rw [a2, a3, a5, a6, b2, b3, b5, b6, c2, c3, d2, d3, en, eu, eg, enz]

/-- **`generate_site_from_header`** (C12). The site of the configuration is the site `_read_epw` read from the
    header (`Epw.readHeader`: cells 6..8 of line 1, `uwgMain_site_cells`); no parameter enters. -/
theorem generate_site_from_header (site : Epw.Site) (g : Epw.Ground) (first : Option Weather.Rec)
    (C : Cfg ℚ) (s : State ℚ) (h : generateState S P stock site g first zm = .ok (C, s)) :
    C.lat = site.lat ∧ C.lon = site.lon ∧ C.gmt = site.gmt ∧ C.dt = (P.dtsim : ℚ) := by
  obtain ⟨q, _, rfl, _⟩ := generateState_ok S P stock zm h
  exact ⟨rfl, rfl, rfl, rfl⟩

/-- **`generate_windmin_handed_on`** (C02). `geoParam.windMin` - the minimum wind every pass raises the rural wind
    to - IS the parameter `windmin`: no rescaling, no unit conversion; and the canyon's initial `ublWind` is
    `max(first wind cell, windmin)`. -/
theorem generate_windmin_handed_on (site : Epw.Site) (g : Epw.Ground) (first : Option Weather.Rec) (x : Objects)
    (h : generateFull S P stock site g first zm = .ok x) :
    x.cfg.par.windMin = P.windmin ∧ x.extra.geo.windMin = P.windmin ∧
    ∃ w wind, first = some w ∧ w.umod = .num wind ∧ x.extra.ublWind = max wind P.windmin ∧
      x.state.ucm.canWind = wind := by
  obtain ⟨q, hq, hc, hs, he⟩ := generateFull_ok S P stock zm h
  obtain ⟨_, hf, _, _, _, _, ⟨wind, hw, hu⟩, _, _⟩ := stages_ok hq
  obtain ⟨_, _, _, u4, u5, _⟩ := ucmInit_static S hu
  refine ⟨by rw [hc]; rfl, by rw [he]; rfl, q.w, wind, hf, hw, ?_, ?_⟩
  · rw [he]; exact u5
  · rw [hs]; exact u4

/-- **`generate_season_handed_on`** (C18). The vegetation season of `geoParam` is the configured pair of months -
    for EVERY site, i.e. whatever the latitude (no hemisphere swap, no clamping). -/
theorem generate_season_handed_on (site : Epw.Site) (g : Epw.Ground) (first : Option Weather.Rec)
    (C : Cfg ℚ) (s : State ℚ) (h : generateState S P stock site g first zm = .ok (C, s)) :
    C.par.vegStart = P.vegstart ∧ C.par.vegEnd = P.vegend ∧ C.par.vegAlbedo = P.albveg ∧
    C.par.treeFLat = P.lattree ∧ C.par.grassFLat = P.latgrss := by
  obtain ⟨q, _, rfl, _⟩ := generateState_ok S P stock zm h
  exact ⟨rfl, rfl, rfl, rfl, rfl⟩

/-- **`level_spec`.** What the level search of `RSMDef.__init__` returns: `n` is the number of the first level
    at (within 1e-10) or above `h`; `None` exactly when no level is. -/
theorem level_spec (z : List ℚ) (h : ℚ) :
    (∀ n, level z h = some n ↔ ∃ x, 1 ≤ n ∧ z[n - 1]? = some x ∧ AtOrAbove h x ∧
      ∀ j y, j < n - 1 → z[j]? = some y → ¬ AtOrAbove h y) ∧
    (level z h = none ↔ ∀ x ∈ z, ¬ AtOrAbove h x) := by
  refine ⟨?_, levelFrom_none h z 0⟩
  intro n
  unfold level
  rw [levelFrom_some]
  constructor
  · rintro ⟨k, x, rfl, hx, ha, hb⟩
    exact ⟨x, by omega, by simpa using hx, ha, by simpa using hb⟩
  · rintro ⟨x, hn, hx, ha, hb⟩
    exact ⟨n - 1, x, by omega, hx, ha, hb⟩

/-- **`generate_rsm_levels`** (C16). `RSM.nzref` / `RSM.nzfor` of the configuration are the numbers of the first
    level of the grid at or above the reference height `h_ref` / the night boundary-layer height `h_ubl2`. -/
theorem generate_rsm_levels (site : Epw.Site) (g : Epw.Ground) (first : Option Weather.Rec)
    (C : Cfg ℚ) (s : State ℚ) (h : generateState S P stock site g first zm = .ok (C, s)) :
    level C.z P.h_ref = some C.nzref ∧ level C.z P.h_ubl2 = some C.nzfor ∧
    1 ≤ C.nzref ∧ C.nzref ≤ C.z.length ∧ 1 ≤ C.nzfor ∧ C.nzfor ≤ C.z.length := by
  obtain ⟨q, hq, rfl, _⟩ := generateState_ok S P stock zm h
  obtain ⟨_, _, _, _, _, hr, _, _, hn⟩ := stages_ok hq
  obtain ⟨a1, a2, _, a4, _⟩ := rsmInit_ok hr
  have e1 : level q.rsm.z P.h_ref = some q.rsm.nzref := by rw [a2]; exact a1
  have e2 : level q.rsm.z P.h_ubl2 = some q.nzfor := by rw [a2, ← a4]; exact hn
  obtain ⟨x, n1, hx, _⟩ := ((level_spec q.rsm.z P.h_ref).1 _).mp e1
  obtain ⟨y, m1, hy, _⟩ := ((level_spec q.rsm.z P.h_ubl2).1 _).mp e2
  have l1 := (List.getElem?_eq_some_iff.mp hx).1
  have l2 := (List.getElem?_eq_some_iff.mp hy).1
  exact ⟨e1, e2, n1, by show q.rsm.nzref ≤ q.rsm.z.length; omega, m1, by show q.nzfor ≤ q.rsm.z.length; omega⟩

theorem mesoGrid_len : ∀ zm : List ℚ, (Rsm.mesoGrid zm).1.length = (Rsm.mesoGrid zm).2.length
  | [] => by simp [Rsm.mesoGrid]
  | [_] => by simp [Rsm.mesoGrid]
  | a :: b :: rest => by
    have := mesoGrid_len (b :: rest)
    simp [Rsm.mesoGrid, this]

/-- **`generate_rsm_grid`** (C16). For a strictly increasing `z_meso` that starts at a non-negative height, the
    grid of the configuration is `Rsm.mesoGrid zm` (mid-points, differences), and - when the reference level is not
    the topmost cell (otherwise `diffusion_equation` reads `dz[nzref]` past the end) - the hypotheses `GridOK` that
    `kt_nonneg` / `vdm_step_admissible` (`Props/C16Coef`) need HOLD for what the constructor built: `GridOK nzref z
    dz`, `nzref + 1 ≤ len(dz)`, every spacing positive. -/
theorem generate_rsm_grid (site : Epw.Site) (g : Epw.Ground) (first : Option Weather.Rec)
    (C : Cfg ℚ) (s : State ℚ) (h0 : 0 ≤ zm.getD 0 0)
    (hinc : ∀ i, i + 1 < zm.length → zm.getD i 0 < zm.getD (i + 1) 0)
    (h : generateState S P stock site g first zm = .ok (C, s)) :
    C.z = (Rsm.mesoGrid zm).1 ∧ C.dz = (Rsm.mesoGrid zm).2 ∧ C.z0r = 1 / 10 * P.h_obs ∧ C.disp = 1 / 2 * P.h_obs ∧
    (C.nzref < C.z.length → Rsm.GridOK C.nzref C.z C.dz ∧ C.nzref + 1 ≤ C.dz.length ∧
      ∀ i, i < C.dz.length → 0 < C.dz.getD i 0) := by
  obtain ⟨q, hq, rfl, _⟩ := generateState_ok S P stock zm h
  obtain ⟨_, _, _, _, _, hr, _, _, _⟩ := stages_ok hq
  obtain ⟨_, a2, a3, _, a5, a6, _⟩ := rsmInit_ok hr
  refine ⟨a2, a3, a5, a6, ?_⟩
  intro hlt
  change q.rsm.nzref < q.rsm.z.length at hlt
  show Rsm.GridOK q.rsm.nzref q.rsm.z q.rsm.dz ∧ q.rsm.nzref + 1 ≤ q.rsm.dz.length ∧
    ∀ i, i < q.rsm.dz.length → 0 < q.rsm.dz.getD i 0
  rw [a2, a3] at *
  obtain ⟨hg, hpos⟩ := C16.gridOK_of_meso zm h0 hinc q.rsm.nzref hlt
  exact ⟨hg, by rw [← mesoGrid_len zm]; omega, hpos⟩

/-- **`generate_rsm_profiles`** (C16). The initial profiles of the rural column: potential temperature uniformly
    the sensor temperature of the first window row, wind 1 at every level, the five profile lists of the lengths
    `VdmHyp` (`Lemmas/RsmCoef`) asks for, the lowest level at the station pressure of that row, and - for a positive
    sensor temperature - every level positive. (The top
    pressure being positive depends on the libm symbols and stays a hypothesis of `vdm_step_preserves`, checked on
    live runs.) -/
theorem generate_rsm_profiles (site : Epw.Site) (g : Epw.Ground) (first : Option Weather.Rec)
    (C : Cfg ℚ) (s : State ℚ) (h : generateState S P stock site g first zm = .ok (C, s)) :
    ∃ w, first = some w ∧ s.rsm.st.tempProf = List.replicate C.nzref w.temp ∧
      s.rsm.st.windProf = List.replicate C.nzref 1 ∧ s.rsm.st.presProf.length = C.nzref ∧
      s.rsm.st.tempRealProf.length = C.nzref ∧ s.rsm.st.densityProfC.length = C.nzref ∧
      s.rsm.st.densityProfS.length = C.nzref + 1 ∧ s.rsm.st.presProf[0]? = some w.pres ∧
      (0 < w.temp → ∀ i, i < C.nzref → 0 < s.rsm.st.tempProf.getD i 0) := by
  have hlev := (generate_rsm_levels S P stock zm site g first C s h).2.2.1
  obtain ⟨q, hq, rfl, rfl⟩ := generateState_ok S P stock zm h
  obtain ⟨_, hf, _, _, _, hr, _, _, _⟩ := stages_ok hq
  obtain ⟨_, _, _, _, _, _, hp⟩ := rsmInit_ok hr
  obtain ⟨p1, p2, p3, p4, p5, p6⟩ := initProfiles_ok hp
  refine ⟨q.w, hf, p1, p2, p3, p4, p5, p6, initProfiles_pres0 hlev hp, ?_⟩
  intro hpos i hi
  show 0 < q.rsm.st.tempProf.getD i 0
  have hi' : i < q.rsm.nzref := hi
  rw [p1]
  simp [List.getD_eq_getElem?_getD, hi', hpos]

/-- **`generate_canyon_averages`** (C13, joining C07 / C08). With the stock selected by the tied model of
    `_customize_reference_data ; _compute_BEM` (`Bem.generateBEM`), the wall albedo handed to the canyon is the
    fraction-weighted sum of the wall albedos of the SELECTED buildings AFTER the overrides, the facade absorptivity
    `UCM.facAbsor` is made of the equally weighted glazing ratio, wall albedo and SHGC, every selected building
    carries each override that is set, and the buildings the simulation starts from are the selected ones in the
    selected order. (Nothing reads `facAbsor`: of the three averages only the wall albedo reaches a pass.) -/
theorem generate_canyon_averages (B : Bem.Params ℚ) (customs : List (Bem.Arch ℚ)) (lib : Bem.Lib ℚ)
    (payload : Nat → Bld ℚ) (sched : Nat → Sched ℚ) (es : List (Bem.Entry ℚ)) (tot : Bem.Totals ℚ)
    (site : Epw.Site) (g : Epw.Ground) (first : Option Weather.Rec) (x : Objects)
    (hb : Bem.generateBEM B customs lib = .ok (es, tot))
    (h : generateFull S P (stockOf payload sched (es, tot)) site g first zm = .ok x) :
    x.cfg.albWall = (es.map fun e => e.frac * e.arch.albWall).sum ∧
    x.extra.facAbsor = Urb.facAbsor (es.map fun e => e.frac * e.arch.glz).sum
      (es.map fun e => e.frac * e.arch.albWall).sum (es.map fun e => e.frac * e.arch.shgc).sum ∧
    (∀ v, B.albwall = some v → ∀ e ∈ es, (bldOf payload e).wall.albedo = v) ∧
    (∀ v, B.glzr = some v → ∀ e ∈ es, (bldOf payload e).glazingRatio = v) ∧
    (∀ v, B.shgc = some v → ∀ e ∈ es, (bldOf payload e).shgc = v) ∧
    x.state.blds = (es.map (bldOf payload)).map (autosize P.autosize) ∧
    x.cfg.sch = es.map fun e => sched e.arch.pid := by
  obtain ⟨q, hq, hc, hs, he⟩ := generateFull_ok S P _ zm h
  obtain ⟨_, _, _, _, _, _, ⟨_, _, hu⟩, _, _⟩ := stages_ok hq
  obtain ⟨_, _, _, _, _, u6⟩ := ucmInit_static S hu
  obtain ⟨o1, o2, o3, _, _, _, t1, t2, t3⟩ := C08.override_applied_generate B customs lib es tot hb
  refine ⟨?_, ?_, ?_, ?_, ?_, ?_, ?_⟩
  · rw [hc]; exact t3
  · rw [he]
    show q.ucm.facAbsor = _
    rw [u6]
    show Urb.facAbsor tot.rGlaze tot.albWall tot.shgc = _
    rw [t1, t2, t3]
  · intro v hv e hm; exact o3 v hv e hm
  · intro v hv e hm; exact o1 v hv e hm
  · intro v hv e hm; exact o2 v hv e hm
  · rw [hs]; rfl
  · rw [hc]; rfl

/-- **`generate_column_index`** (C20 / C17). With at least three ground depths in the header, a returning
    `generate()` carries as `_soilindex1` (and `_soilindex2`) exactly the index `columnOutcome` selected for the
    pavement of the parameter file - a stated depth -, the deep-temperature table of the run is row `i` of the
    header's monthly table, and the rural element the simulation starts from is that padded column at 293 K. -/
theorem generate_column_index (site : Epw.Site) (g : Epw.Ground) (first : Option Weather.Rec) (x : Objects)
    (h3 : 3 ≤ g.recs.length) (h : generateFull S P stock site g first zm = .ok x) :
    ∃ ls i, columnOutcome (1 / 20) (1 / 100) (1 / 1000000000000000) P.droad P.kroad P.croad 1 2000000
        (g.recs.map (·.depth)) = .ok ls (some i) ∧
      x.extra.soilIndex1 = some i ∧ x.extra.soilIndex2 = some i ∧ (∃ r, g.recs[i]? = some r) ∧
      tableOf P.droad P.kroad P.croad g = deepTable g i ∧
      x.state.rural.layers = ls.map (fun l => { d := l.d, k := l.k, c := l.c, t := 293 }) ∧
      x.extra.road.layers = ls.map (fun l => { d := l.d, k := l.k, c := l.c, t := 293 }) := by
  obtain ⟨q, hq, _, hs, he⟩ := generateFull_ok S P stock zm h
  obtain ⟨_, _, _, _, _, _, _, hcol, _⟩ := stages_ok hq
  cases hidx : q.col.2 with
  | none =>
    exfalso
    rw [hidx] at hcol
    unfold roadColumn columnOutcome at hcol
    split at hcol
    · cases hcol
    · split at hcol
      · cases hcol
      · rename_i hlen
        apply hlen
        rw [List.length_map]
        exact h3
    · cases hcol
  | some i =>
    rw [hidx] at hcol
    refine ⟨q.col.1, i, hcol, by rw [he]; exact hidx, by rw [he]; exact hidx, roadColumn_index hcol, ?_,
      by rw [hs]; rfl, by rw [he]; rfl⟩
    unfold tableOf
    rw [hcol]

/-- **`generate_initial_state`.** The objects a simulation starts from: canyon and road temperature, the boundary
    layer and all its cells at the dry bulb of the FIRST window row (K), the canyon humidity at that row's humidity
    ratio, the canyon wind at its wind cell; street-level anthropogenic heat, `h_mix`, `latanth` the parameters; the
    canyon's road the un-padded pavement of `ceil(droad / 0.05)` layers of 5 cm at 293 K with the three cover
    fractions divided by the unbuilt fraction; no flux, no record yet. -/
theorem generate_initial_state (site : Epw.Site) (g : Epw.Ground) (first : Option Weather.Rec)
    (C : Cfg ℚ) (s : State ℚ) (h : generateState S P stock site g first zm = .ok (C, s)) :
    ∃ w wind, first = some w ∧ w.umod = .num wind ∧
      s.ucm.canTemp = w.temp ∧ s.ucm.roadTemp = w.temp ∧ s.ucm.canHum = w.hum ∧ s.ucm.canWind = wind ∧
      s.ubl.ublTemp = w.temp ∧ (∀ c ∈ s.ubl.cells, c = w.temp) ∧
      s.ucm.sensAnthrop = P.sensanth ∧ C.hMix = P.h_mix ∧ C.latAnthrop = P.latanth ∧ C.sensanth = P.sensanth ∧
      s.ucm.road.layers = List.replicate ⌈P.droad / (1 / 20)⌉₊ ⟨1 / 20, P.kroad, P.croad, 293⟩ ∧
      s.ucm.road.vegcoverage = (P.treecover + P.grasscover) / (1 - P.blddensity) ∧
      s.ucm.road.roadCover = some (P.grasscover / (1 - P.blddensity), P.treecover / (1 - P.blddensity)) ∧
      s.ucm.latHeat = none ∧ s.ucm.canRHum = none ∧ s.ucm.tdp = none ∧ 1 - P.blddensity ≠ 0 := by
  obtain ⟨q, hq, rfl, rfl⟩ := generateState_ok S P stock zm h
  obtain ⟨_, hf, _, _, hden, _, ⟨wind, hw, hu⟩, _, _⟩ := stages_ok hq
  obtain ⟨_, _, _, u4, _⟩ := ucmInit_static S hu
  refine ⟨q.w, wind, hf, hw, rfl, rfl, rfl, u4, rfl, ?_, rfl, rfl, rfl, rfl, ?_, rfl, rfl, rfl, rfl, rfl, hden⟩
  · intro c hc
    exact List.eq_of_mem_replicate hc
  · show (newElem _ _ _ _ (pavement P) 293).layers = _
    unfold newElem pavement
    simp

/-- **`generate_autosize`** (`_hvac_autosize`). The buildings a simulation starts from are the selected ones, in
    order; with `autosize` set every one has cooling and heating capacity 9999, otherwise they are untouched. -/
theorem generate_autosize (site : Epw.Site) (g : Epw.Ground) (first : Option Weather.Rec)
    (C : Cfg ℚ) (s : State ℚ) (h : generateState S P stock site g first zm = .ok (C, s)) :
    s.blds.length = stock.blds.length ∧
    (P.autosize = true → ∀ b ∈ s.blds, b.coolcap = 9999 ∧ b.heatCap = 9999) ∧
    (P.autosize = false → s.blds = stock.blds) ∧ C.sch = stock.sch := by
  obtain ⟨q, _, rfl, rfl⟩ := generateState_ok S P stock zm h
  refine ⟨by simp [stateOfParts], ?_, ?_, rfl⟩
  · intro ha b hb
    simp only [stateOfParts, List.mem_map] at hb
    obtain ⟨b0, _, rfl⟩ := hb
    simp [autosize, ha]
  · intro ha
    have hid : autosize false = id := by funext b; simp [autosize]
    simp [stateOfParts, ha, hid]

/-- **`generate_fail_stop_order`** (C10). `generate()` never returns objects built from refused input: a zero
    timestep or one that does not divide the hour is refused by `SimParam` BEFORE anything else is looked at (the
    exact exception); and text in the first wind cell, a pavement below the deepest of at least three stated depths
    (or an empty pavement), a non-positive conductivity or heat capacity of the pavement, a fully built-up area
    (`blddensity = 1`), an empty window, no level of the rural column at or above the reference height each make
    `generateState` an exception - no configuration, no state. -/
theorem generate_fail_stop_order (site : Epw.Site) (g : Epw.Ground) (first : Option Weather.Rec) :
    (P.dtsim = 0 → generateState S P stock site g first zm = .error ⟨.zerodiv, .simparam⟩) ∧
    (P.dtsim ≠ 0 → 3600 % P.dtsim ≠ 0 → generateState S P stock site g first zm = .error ⟨.timestep, .simparam⟩) ∧
    (((∃ w, first = some w ∧ w.umod = .text) ∨ first = none ∨
      roadColumn P.droad P.kroad P.croad g = .refused ∨ roadColumn P.droad P.kroad P.croad g = .index ∨
      P.kroad ≤ 0 ∨ P.croad ≤ 0 ∨ P.blddensity = 1 ∨ level (Rsm.mesoGrid zm).1 P.h_ref = none) →
      ∃ e, generateState S P stock site g first zm = .error e) := by
  refine ⟨?_, ?_, ?_⟩
  · intro h0
    simp [generateState, stages, simParam, h0, raise, bind, Except.bind]
  · intro h0 h1
    simp [generateState, stages, simParam, h0, h1, raise, bind, Except.bind]
  · intro hbad
    cases hg : generateState S P stock site g first zm with
    | error e => exact ⟨e, rfl⟩
    | ok cs =>
      exfalso
      obtain ⟨C, s⟩ := cs
      obtain ⟨q, hq, _, _⟩ := generateState_ok S P stock zm hg
      obtain ⟨_, hf, _, ⟨hk, hc⟩, hden, hr, ⟨wind, hw, _⟩, hcol, _⟩ := stages_ok hq
      obtain ⟨a1, _⟩ := rsmInit_ok hr
      rcases hbad with ⟨w, hw1, hw2⟩ | hn | h1 | h2 | h3 | h4 | h5 | h6
      · rw [hf] at hw1; cases hw1; rw [hw] at hw2; cases hw2
      · rw [hf] at hn; cases hn
      · rw [hcol] at h1; cases h1
      · rw [hcol] at h2; cases h2
      · exact absurd hk (not_lt.mpr h3)
      · exact absurd hc (not_lt.mpr h4)
      · apply hden; rw [h5]; norm_num
      · rw [a1] at h6; cases h6

/-- **`uwgMainLib_stock`.** The program with the stock selection composed in front (`_read_epw` first, then
    `_customize_reference_data ; _compute_BEM` = `Bem.generateBEM`): a written file comes from `uwgMain` on exactly the
    stock `stockOf` builds from the selection's outcome; a refused selection (`Bem.Err`) yields no file. -/
theorem uwgMainLib_stock (B : Bem.Params ℚ) (customs : List (Bem.Arch ℚ)) (lib : Bem.Lib ℚ)
    (payload : Nat → Bld ℚ) (sched : Nat → Sched ℚ) (p : Nat) (hdr rows : List Csv.Row) :
    (∀ text, uwgMainLib S P B customs lib payload sched zm p hdr rows = .ok text →
      ∃ r, Bem.generateBEM B customs lib = .ok r ∧
        uwgMain S P (stockOf payload sched r) zm p hdr rows = .ok text) ∧
    (∀ e, Bem.generateBEM B customs lib = .error e →
      ∃ e', uwgMainLib S P B customs lib payload sched zm p hdr rows = .error e') := by
  constructor
  · intro text h
    unfold uwgMainLib at h
    split at h
    · cases h
    · split at h
      · cases h
      · rename_i r hr; exact ⟨r, hr, h⟩
  · intro e he
    unfold uwgMainLib
    split
    · exact ⟨_, rfl⟩
    · rw [he]; exact ⟨_, rfl⟩

/-- **`uwgMain_ground_cells`** (= `pipeline_ground_cells` + `generate_column_index`; C20 end to end). For a
    ground-temperature line laid out as the EPW data dictionary says with ANY number `≥ 3` of depths: a returning
    `generate()` carries as `_soilindex1` an index `i` of a STATED depth, and for every month the deep temperature the
    run looks up is the number in cell `6 + 16·i + (m−1)` of line 4 plus 273.15, the ground-water temperature the
    number in cell `6 + 16·2 + (m−1)` plus 273.15. -/
theorem uwgMain_ground_cells (hdr rows : List Csv.Row) (label count : Cell) (recs : List Epw.GText)
    (trailing : List Cell) (parsed : List Epw.GRec) (x : Objects)
    (hc : Epw.parseInt count = some (recs.length : Int)) (hm : ∀ r ∈ recs, r.months.length = 12)
    (hp : Epw.parseRecs recs = some parsed) (h3 : 3 ≤ recs.length)
    (hg : hdr[3]? = some (Epw.groundLine label count recs trailing))
    (hf : generateFile S P stock zm hdr rows = .ok x) :
    ∃ i, x.extra.soilIndex1 = some i ∧ i < recs.length ∧
      ∀ m, 1 ≤ m → m ≤ 12 → ∃ (ci c2 : Cell) (vi v2 : ℚ),
        (Epw.groundLine label count recs trailing)[6 + 16 * i + (m - 1)]? = some ci ∧
        C06.parseFloat ci = some vi ∧
        (Epw.groundLine label count recs trailing)[6 + 16 * 2 + (m - 1)]? = some c2 ∧
        C06.parseFloat c2 = some v2 ∧
        tableOf P.droad P.kroad P.croad ⟨(recs.length : Int), parsed⟩ m =
          ⟨vi + 27315 / 100, v2 + 27315 / 100⟩ := by
  obtain ⟨site, g, wrecs, hh, _, _, hgf⟩ := generateFile_ok S P stock zm hf
  obtain ⟨_, gl, _, h3', _, hgr⟩ := readHeader_ok hh
  rw [hg] at h3'
  cases h3'
  rw [Epw.readGround_groundLine label count recs trailing parsed hc hm hp] at hgr
  simp only [Except.ok.injEq] at hgr
  subst hgr
  have hlen : 3 ≤ (⟨(recs.length : Int), parsed⟩ : Epw.Ground).recs.length := by
    show 3 ≤ parsed.length
    rw [parseRecs_length recs parsed hp]
    exact h3
  obtain ⟨ls, i, hcol, hi1, _, _, _, _, _⟩ := generate_column_index S P stock zm site _ wrecs.head? x hlen hgf
  obtain ⟨_, hi, _, _, hmon⟩ := pipeline_ground_cells P.droad P.kroad P.croad hdr label count recs trailing parsed site
    _ wrecs ls i hc hm hp h3 hg hh hcol
  exact ⟨i, hi1, hi, hmon⟩

/-! ## Non-vacuity: a tiny city through `generate()` and the first hour of the whole program (kernel, over ℚ)

The parameters below, the one-building stock of `Props/Step.lean` (`exState.blds`, `exCfg.sch`), a rural column of four
levels and the rural file of `Props/Pipeline.lean` (`exHdr`, `exRows`: site 1.0 / 104.0 / 8.0, three ground depths, 24
rows with wind 0.5 below the minimum wind 1). The kernel evaluates `generateFile` completely, and ONE hour of the program
(`pipelineCore … hours = 1` on the generated configuration and state: exact rationals of a whole day of passes are out
of reach; `uwgMain` is the same function at `hours = 24·nday`, its full-day runs are exhibited by the harness in floating
point, C01). -/

def exP : GenParams :=
  { month := 1, day := 1, nday := 1, dtsim := 3600, dtweather := 3600, autosize := true, sensocc := 100,
    latfocc := 3 / 10, radfocc := 1 / 5, radfequip := 1 / 2, radflight := 7 / 10, h_ubl1 := 1000, h_ubl2 := 80,
    h_ref := 150, h_temp := 2, h_wind := 10, c_circ := 6 / 5, c_exch := 1, maxday := 150, maxnight := 20,
    windmin := 1, h_obs := 1 / 10, bldheight := 10, h_mix := 1, blddensity := 1 / 2, vertohor := 4 / 5,
    charlength := 1000, albroad := 1 / 10, droad := 1 / 2, sensanth := 20, latanth := none, grasscover := 1 / 10,
    treecover := 1 / 10, vegstart := 4, vegend := 10, albveg := 1 / 4, rurvegcover := 9 / 10, latgrss := 2 / 5,
    lattree := 3 / 5, schtraffic := StepProps.exCfg.schtraffic, kroad := 1, croad := 1600000 }

def exStock : Stock :=
  { blds := StepProps.exState.blds, sch := StepProps.exCfg.sch, rGlaze := 3 / 10, shgc := 2 / 5, albWall := 1 / 5 }

def exZm : List ℚ := [0, 20, 120, 300, 500]

/-- `generate()` returns: minimum wind and season handed on, site of the header, reference and night levels both the
    third cell (210 m is the first mid-point at or above 150 m and above 80 m), `_soilindex1 = 0` (the 0.5 m pavement
    reaches the first depth), four boundary-layer cells of 250 m at the first row's 303.15 K, autosized capacities;
    the hypotheses of `generate_rsm_grid` hold for this `z_meso` and the reference level is not the top cell. -/
example : (match generateFile stubQ exP exStock exZm exHdr exRows with
    | .ok x => decide (x.cfg.par.windMin = 1) && decide (x.cfg.par.vegStart = 4) && decide (x.cfg.lat = 1) &&
        decide (x.cfg.nzref = 3) && decide (x.cfg.nzfor = 3) && decide (x.cfg.z.length = 4) &&
        decide (x.extra.soilIndex1 = some 0) &&
        decide (x.state.ubl.cells = [6063 / 20, 6063 / 20, 6063 / 20, 6063 / 20]) &&
        (x.state.blds.all fun b => decide (b.coolcap = 9999)) && decide (x.state.ucm.canWind = 1 / 2) &&
        decide (x.extra.ublWind = 1) && decide (x.extra.nz0 = some 1) && decide (x.extra.nzi = none)
    | .error _ => false) = true := by
  decide +kernel

/-- The first hour of the whole program on the generated objects writes a file of 32 lines whose first window row
    carries the minimum wind `1.0` and the canyon temperature `30.2`. -/
example : (match generateFile stubQ exP exStock exZm exHdr exRows with
    | .ok x => ((pipelineCore stubQ x.cfg (fun _ => x.state) exP.droad exP.kroad exP.croad 3600 1 1 1 1 1 exHdr
        exRows).toOption.map fun t => ((parseFile t).length, cellAt (parseFile t) 8 21, cellAt (parseFile t) 8 6))
    | .error _ => none) = some (32, some "1.0".toList, some "30.2".toList) := by
  decide +kernel

/-- Fail-stop in Python's order on the same inputs: a timestep that does not divide the hour is refused before
    anything else; a fully built-up area stops at the cover fractions although the pavement is also too deep; a
    pavement below the deepest depth is refused; a reference height above the column is the TypeError of `range(None)`;
    a night boundary-layer height above the column is the model's own `nzfor` outcome. -/
example :
    (match generateFile stubQ { exP with dtsim := 7, blddensity := 1 } exStock exZm exHdr exRows with
      | .error (.gen ⟨.timestep, .simparam⟩) => true
      | _ => false) = true ∧
    (match generateFile stubQ { exP with blddensity := 1, grasscover := 0, treecover := 0, droad := 5 } exStock exZm
        exHdr exRows with
      | .error (.gen ⟨.zerodiv, .input⟩) => true
      | _ => false) = true ∧
    (match generateFile stubQ { exP with droad := 5 } exStock exZm exHdr exRows with
      | .error (.gen ⟨.refused, .input⟩) => true
      | _ => false) = true ∧
    (match generateFile stubQ { exP with h_ref := 500 } exStock exZm exHdr exRows with
      | .error (.gen ⟨.type, .rsm⟩) => true
      | _ => false) = true ∧
    (match generateFile stubQ { exP with h_ubl2 := 500 } exStock exZm exHdr exRows with
      | .error (.gen ⟨.nzfor, .rsm⟩) => true
      | _ => false) = true := by
  refine ⟨?_, ?_, ?_, ?_, ?_⟩ <;> decide +kernel

end Uwg.Gen
