/-
Composition B - `Element.SurfFlux` = season partition (C18) + conduction step (C11).

Theorems about `surfFlux` (Model/SurfFlux.lean), for every linearly ordered field: the energy balance of
the WHOLE routine in terms of the quantities it leaves on the element (`solAbs`, `infra`, `lat`, `sens`),
the off-season "bare ground" statement carried through the conduction step to the new layer temperatures,
and the isothermal fixed point.
-/
import UwgVerif.Model.SurfFlux
import UwgVerif.Props.C11
import UwgVerif.Props.C18

namespace Uwg.SurfFluxEnergy
open Uwg Uwg.C11
variable {K : Type} [Field K] [LinearOrder K] [IsStrictOrderedRing K]

theorem isNearZero_zero : isNearZero (0 : K) = true := by
  unfold isNearZero
  simp only [lt_self_iff_false, if_false, decide_eq_true_eq]
  positivity

theorem isNearZero_one : isNearZero (1 : K) = false := by
  unfold isNearZero
  have h1 : ¬ ((1 : K) < 0) := not_lt.mpr zero_le_one
  simp only [h1, if_false, decide_eq_false_iff_not, not_lt]
  rw [div_le_one (by positivity)]
  norm_num

/-- What a successful `SurfFlux` consists of: the partition evaluated at the old outer-layer temperature,
    then `Conduction` with the net flux and the boundary selected by `boundCond`. -/
theorem surfFlux_ok_inv (e : SurfElement K) (a : SurfArgs K) (r : SurfResult K)
    (h : surfFlux e a = .ok r) :
    ∃ (l0 : Layer K) (bc : BC K), e.layers.head? = some l0 ∧ 2 ≤ e.layers.length ∧
      (if isNearZero (a.boundCond - 1) then some (BC.flux a.intFlux)
        else if isNearZero (a.boundCond - 2) then some (BC.deep a.deepTemp) else none) = some bc ∧
      conduction a.dt (surfPartition e a l0.t).flux bc e.layers = some r.layerTemp ∧
      r.solAbs = (surfPartition e a l0.t).solAbs ∧ r.lat = (surfPartition e a l0.t).lat ∧
      r.sens = (surfPartition e a l0.t).sens ∧ r.flux = (surfPartition e a l0.t).flux ∧
      r.aeroCond = aeroCondOf a.windRef ∧ r.dens = a.pres / densDenom a ∧
      r.layerTemp.head? = some r.tExt ∧ r.layerTemp.getLast? = some r.tInt := by
  unfold surfFlux at h
  split at h
  · cases h
  · cases hl : e.layers.head? with
    | none => simp [hl] at h
    | some l0 =>
      simp only [hl] at h
      split at h
      · cases h
      · rename_i hlen
        split at h
        · cases h
        · rename_i bc hbc
          cases hc : conduction a.dt (surfPartition e a l0.t).flux bc e.layers with
          | none => simp [hc] at h
          | some xs =>
            simp only [hc] at h
            split at h
            · rename_i x0 xl h0 hlast
              cases h
              exact ⟨l0, bc, rfl, by omega, hbc, hc, rfl, rfl, rfl, rfl, rfl, rfl, h0, hlast⟩
            · cases h

/-- The net flux handed to `Conduction` is `solAbs + infra − lat − sens` of the partition, for both
    orientations. -/
theorem partition_flux (e : SurfElement K) (a : SurfArgs K) (t0 : K) :
    (surfPartition e a t0).flux =
      (surfPartition e a t0).solAbs + e.infra - (surfPartition e a t0).lat - (surfPartition e a t0).sens := by
  unfold surfPartition
  split
  · simp only [surfFluxHorizontal, surfIn]
  · simp only [surfFluxVertical]

/-- **`surfflux_energy_flux_bc`.** Boundary kind 1 (flux at the inner face, `boundCond = 1`): for
    physically admissible layers and a positive timestep, whenever `SurfFlux` returns, the heat stored in
    the element has changed by exactly `dt · (solAbs + infra − lat − sens + intFlux)`, where `solAbs`,
    `lat`, `sens` are the values the routine leaves on the element - for horizontal elements in and out of
    the vegetation season (road or not) and for vertical ones. -/
theorem surfflux_energy_flux_bc (e : SurfElement K) (a : SurfArgs K) (r : SurfResult K)
    (hbc : a.boundCond = 1) (hdt : 0 < a.dt) (hpos : PosLayers e.layers)
    (h : surfFlux e a = .ok r) :
    storedChange e.layers r.layerTemp = a.dt * (r.solAbs + e.infra - r.lat - r.sens + a.intFlux) ∧
    r.flux = r.solAbs + e.infra - r.lat - r.sens := by
  obtain ⟨l0, bc, _, hlen, hsel, hc, h1, h2, h3, h4, _⟩ := surfFlux_ok_inv e a r h
  rw [hbc, sub_self, isNearZero_zero, if_pos rfl] at hsel
  cases hsel
  have hE := energy_flux_bc a.dt _ a.intFlux e.layers r.layerTemp hdt hpos hlen hc
  have hf := partition_flux e a l0.t
  rw [← h1, ← h2, ← h3] at hf
  exact ⟨by rw [hE, hf], by rw [h4, hf]⟩

/-- **`surfflux_energy_deep_bc`.** Boundary kind 2 (`boundCond = 2`): the innermost layer takes the deep
    temperature (so `T_int = deepTemp`), and the heat stored in the other layers changes by exactly
    `dt · (solAbs + infra − lat − sens − conductive flux into the deep layer)`. -/
theorem surfflux_energy_deep_bc (e : SurfElement K) (a : SurfArgs K) (r : SurfResult K)
    (hbc : a.boundCond = 2) (hdt : 0 < a.dt) (hpos : PosLayers e.layers)
    (h : surfFlux e a = .ok r) :
    r.tInt = a.deepTemp ∧
    storedChange e.layers.dropLast r.layerTemp =
      a.dt * (r.solAbs + e.infra - r.lat - r.sens - deepFlux e.layers r.layerTemp) := by
  obtain ⟨l0, bc, _, hlen, hsel, hc, h1, h2, h3, _, _, _, _, hlast⟩ := surfFlux_ok_inv e a r h
  have e1 : a.boundCond - 1 = 1 := by rw [hbc]; norm_num
  rw [e1, isNearZero_one, if_neg (by simp), hbc, sub_self, isNearZero_zero, if_pos rfl] at hsel
  cases hsel
  obtain ⟨hL, hE⟩ := energy_deep_bc a.dt _ a.deepTemp e.layers r.layerTemp hdt hpos hlen hc
  have hf := partition_flux e a l0.t
  rw [← h1, ← h2, ← h3] at hf
  rw [hlast] at hL
  exact ⟨by injection hL, by rw [hE, hf]⟩

/-- **`surfflux_offseason_bare`** (C18 through the whole step). Two calls that agree on everything
    except the vegetation data - the element's vegetation cover, its grass / tree cover, the vegetation
    albedo and the two latent fractions, and the season bounds themselves - and that are both off season
    (or concern a vertical element) have the same outcome: the same absorbed / latent / sensible / net
    flux and the same NEW LAYER TEMPERATURES, `T_ext`, `T_int` (or the same exception). -/
theorem surfflux_offseason_bare (e e' : SurfElement K) (a a' : SurfArgs K)
    (he : e.horizontal = e'.horizontal ∧ e.albedo = e'.albedo ∧ e.solRec = e'.solRec ∧
      e.infra = e'.infra ∧ e.layers = e'.layers)
    (ha : a.pres = a'.pres ∧ a.deepTemp = a'.deepTemp ∧ a.waterDens = a'.waterDens ∧ a.lv = a'.lv ∧
      a.dt = a'.dt ∧ a.humRef = a'.humRef ∧ a.tempRef = a'.tempRef ∧ a.windRef = a'.windRef ∧
      a.boundCond = a'.boundCond ∧ a.intFlux = a'.intFlux)
    (hoff : e.horizontal = false ∨ (offSeasonElement a.month a.vegStart a.vegEnd = true ∧
      offSeasonElement a'.month a'.vegStart a'.vegEnd = true)) :
    surfFlux e a = surfFlux e' a' := by
  obtain ⟨e1, e2, e3, e4, e5⟩ := he
  obtain ⟨a1, a2, a3, a4, a5, a6, a7, a8, a9, a10⟩ := ha
  have hden : densDenom a = densDenom a' := by unfold densDenom; rw [a6, a7]
  have hpart : ∀ t0, surfPartition e a t0 = surfPartition e' a' t0 := by
    intro t0
    unfold surfPartition
    rw [← e1]
    cases hh : e.horizontal with
    | false => simp only [Bool.false_eq_true, if_false, surfFluxVertical, e2, e3, e4, a7, a8]
    | true =>
      rcases hoff with hv | ⟨h1, h2⟩
      · rw [hh] at hv; cases hv
      · simp only [if_true, h1, h2]
        exact C18.off_season_bare _ _ ⟨e2, e3, e4, by simp only [surfIn, a3, a4],
          by simp only [surfIn, a8], rfl, by simp only [surfIn, a7]⟩
  unfold surfFlux
  simp only [hden, hpart, e5, a1, a2, a5, a8, a9, a10]

/-- **`surfflux_isothermal`.** No radiation (`solRec = 0`, `infra = 0`), every layer at the reference
    air temperature (`T_surface = tempRef`, uniform layers), no heat through the inner face (zero inner
    flux for kind 1; deep temperature equal to that same temperature for kind 2): `SurfFlux` leaves the
    element unchanged - net flux 0, every layer temperature as before, `T_ext = T_int = tempRef` - in and
    out of season, for every orientation and wind. -/
theorem surfflux_isothermal (e : SurfElement K) (a : SurfArgs K)
    (hsol : e.solRec = 0) (hinf : e.infra = 0) (hu : Uniform a.tempRef e.layers)
    (hkind : (a.boundCond = 1 ∧ a.intFlux = 0) ∨ (a.boundCond = 2 ∧ a.deepTemp = a.tempRef))
    (hden : densDenom a ≠ 0) (hdt : 0 < a.dt) (hpos : PosLayers e.layers) (hlen : 2 ≤ e.layers.length) :
    ∃ r, surfFlux e a = .ok r ∧ r.layerTemp = e.layers.map (·.t) ∧ r.flux = 0 ∧ r.sens = 0 ∧
      r.tExt = a.tempRef ∧ r.tInt = a.tempRef := by
  match hls : e.layers, hlen with
  | l :: l' :: rest, _ =>
    rw [hls] at hu hpos
    have ht : l.t = a.tempRef := hu l (by simp)
    have hpart : surfPartition e a l.t = ⟨0, 0, 0, 0⟩ := by
      unfold surfPartition
      split
      · unfold surfFluxHorizontal surfIn
        cases offSeasonElement a.month a.vegStart a.vegEnd
        · cases hrc : e.roadCover with
          | none => simp [hsol, hinf, ht]
          | some gt => obtain ⟨g, t⟩ := gt; simp [hsol, hinf, ht]
        · simp [hsol, hinf, ht]
      · simp [surfFluxVertical, hsol, hinf, ht]
    have hlast : ((l :: l' :: rest).getLast (by simp)).t = a.tempRef :=
      hu _ (List.getLast_mem _)
    have hmaphead : ((l :: l' :: rest).map (·.t)).head? = some a.tempRef := by simp [ht]
    have hmaplast : ((l :: l' :: rest).map (·.t)).getLast? = some a.tempRef := by
      rw [List.getLast?_map, List.getLast?_eq_getLast_of_ne_nil (by simp)]
      exact congrArg some hlast
    have hcond : ∀ bc : BC K, (bc = .flux 0 ∨ bc = .deep a.tempRef) →
        conduction a.dt 0 bc (l :: l' :: rest) = some ((l :: l' :: rest).map (·.t)) := by
      intro bc hb
      rcases hb with rfl | rfl
      · exact uniform_fixed a.dt a.tempRef _ hdt hpos (by simp) hu
      · have := steady_fixed_deep a.dt 0 l l' rest hdt hpos (uniform_steady a.tempRef _ hu)
        rw [hlast] at this
        exact this
    have hsel : ∃ bc, (if isNearZero (a.boundCond - 1) then some (BC.flux a.intFlux)
        else if isNearZero (a.boundCond - 2) then some (BC.deep a.deepTemp) else none) = some bc ∧
        (bc = .flux 0 ∨ bc = .deep a.tempRef) := by
      rcases hkind with ⟨h1, h2⟩ | ⟨h1, h2⟩
      · exact ⟨.flux 0, by rw [h1, sub_self, isNearZero_zero, if_pos rfl, h2], .inl rfl⟩
      · have e1 : a.boundCond - 1 = 1 := by rw [h1]; norm_num
        exact ⟨.deep a.tempRef, by
          rw [e1, isNearZero_one, if_neg (by simp), h1, sub_self, isNearZero_zero, if_pos rfl, h2],
          .inr rfl⟩
    obtain ⟨bc, hbc, hb⟩ := hsel
    refine ⟨{ dens := a.pres / densDenom a, aeroCond := aeroCondOf a.windRef, solAbs := 0, lat := 0,
              sens := 0, flux := 0, layerTemp := (l :: l' :: rest).map (·.t), tExt := a.tempRef,
              tInt := a.tempRef }, ?_, rfl, rfl, rfl, rfl, rfl⟩
    unfold surfFlux
    rw [if_neg hden, hls]
    simp only [List.head?_cons, hpart, hbc, hcond bc hb]
    have hl2 : ¬ ((l :: l' :: rest).length < 2) := by simp
    rw [if_neg hl2]
    simp only [hmaphead, hmaplast]

/-- `SurfFlux` returns (no exception) whenever the density denominator does not vanish, the element has
    at least two layers and the boundary kind is 1 or 2. -/
theorem surfflux_returns (e : SurfElement K) (a : SurfArgs K) (hden : densDenom a ≠ 0)
    (hlen : 2 ≤ e.layers.length) (hkind : a.boundCond = 1 ∨ a.boundCond = 2) :
    ∃ r, surfFlux e a = .ok r := by
  match hls : e.layers, hlen with
  | l :: l' :: rest, _ =>
    have hsel : ∃ bc, (if isNearZero (a.boundCond - 1) then some (BC.flux a.intFlux)
        else if isNearZero (a.boundCond - 2) then some (BC.deep a.deepTemp) else none) = some bc := by
      rcases hkind with h1 | h1
      · exact ⟨_, by rw [h1, sub_self, isNearZero_zero, if_pos rfl]⟩
      · have e1 : a.boundCond - 1 = 1 := by rw [h1]; norm_num
        exact ⟨_, by rw [e1, isNearZero_one, if_neg (by simp), h1, sub_self, isNearZero_zero, if_pos rfl]⟩
    obtain ⟨bc, hbc⟩ := hsel
    have hl2 : ¬ ((l :: l' :: rest).length < 2) := by simp
    have hc : conduction a.dt (surfPartition e a l.t).flux bc (l :: l' :: rest) =
        some (solve (condRows a.dt bc 0 0 (surfPartition e a l.t).flux (l :: l' :: rest))) := by
      unfold conduction; rw [if_neg hl2]
    have hxl : (solve (condRows a.dt bc 0 0 (surfPartition e a l.t).flux (l :: l' :: rest))).length =
        rest.length + 2 := by rw [solve_length, condRows_length]; rfl
    match hxs : solve (condRows a.dt bc 0 0 (surfPartition e a l.t).flux (l :: l' :: rest)), hxl with
    | x0 :: x1 :: xs, _ =>
      unfold surfFlux
      rw [if_neg hden, hls]
      simp only [List.head?_cons, hbc, if_neg hl2, hc, hxs]
      rw [List.getLast?_eq_getLast_of_ne_nil (by simp)]
      exact ⟨_, rfl⟩

/-! ### Non-vacuity -/

private def exE : SurfElement ℚ := ⟨true, 1/10, 1/2, some (1/5, 1/10), 400, -50,
  [⟨1/20, 1, 1600000, 295⟩, ⟨1/20, 1, 1600000, 293⟩, ⟨1/10, 3/2, 1400000, 290⟩]⟩
private def exA : SurfArgs ℚ :=
  ⟨101325, 288, 4, 10, 1/4, 1/2, 7/10, 1000, 2500000, 7, 300, 1/100, 298, 3, 1, 5⟩

/-- A concrete road-like element (three layers, in season - month 7 of 4..10 -, grass and tree cover) and
    arguments with boundary kind 1: the hypotheses of the energy theorem are met and the routine returns. -/
example : PosLayers exE.layers ∧ 0 < exA.dt ∧ exA.boundCond = 1 ∧ (∃ r, surfFlux exE exA = .ok r) := by
  refine ⟨?_, by norm_num [exA], rfl, ?_⟩
  · intro l hl
    simp only [exE, List.mem_cons, List.mem_nil_iff, or_false] at hl
    rcases hl with rfl | rfl | rfl <;> norm_num
  · exact surfflux_returns exE exA (by norm_num [densDenom, exA]) (by simp [exE]) (.inl rfl)

end Uwg.SurfFluxEnergy
