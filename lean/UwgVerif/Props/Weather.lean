/-
Property theorems about `Weather.__init__` (model `Uwg.Weather.read`): the station record of a rural row is a
function of that row's ten modelled cells and of nothing else (C02: a record holds the values of its row; C03: rows
after the record, rows outside the window and unmodelled columns cannot influence it; C09: the humidity ratio of the
forcing is the psychrometric function of the row's RH, temperature and pressure).
-/
import UwgVerif.Model.Weather

namespace Uwg.Weather
open Uwg.C06

/-! ### helper lemmas -/

theorem mapE_ok_iff {α β ε : Type} (f : α → Except ε β) (l : List α) (ys : List β) :
    mapE f l = .ok ys ↔ List.Forall₂ (fun a b => f a = .ok b) l ys := by
  induction l generalizing ys with
  | nil =>
    cases ys with
    | nil => simp [mapE]
    | cons y ys =>
      simp only [mapE]
      constructor
      · intro h; cases h
      · intro h; cases h
  | cons a as ih =>
    generalize hfa : f a = fa
    cases fa with
    | error e =>
      simp only [mapE, hfa]
      constructor
      · intro h; cases h
      · intro h
        cases h with
        | cons h1 _ => rw [hfa] at h1; cases h1
    | ok b =>
      generalize hrs : mapE f as = ras
      cases ras with
      | error e =>
        simp only [mapE, hfa, hrs]
        constructor
        · intro h; cases h
        · intro h
          cases h with
          | cons _ h2 => have := (ih _).2 h2; rw [hrs] at this; cases this
      | ok bs =>
        simp only [mapE, hfa, hrs]
        constructor
        · intro h
          cases h
          exact List.Forall₂.cons hfa ((ih bs).1 hrs)
        · intro h
          cases h with
          | cons h1 h2 =>
            rw [hfa] at h1
            cases h1
            have := (ih _).2 h2
            rw [hrs] at this
            cases this
            rfl

theorem extractAll_ok_iff (cd : List Row) (ws : List Raw) :
    extractAll cd = .ok ws ↔ List.Forall₂ (fun r w => extract r = .ok w) cd ws := mapE_ok_iff _ _ _

theorem finishAll_ok_iff (s : Sym ℚ) (ws : List Raw) (xs : List Rec) :
    finishAll s ws = .ok xs ↔ List.Forall₂ (fun w x => finish s w = .ok x) ws xs := mapE_ok_iff _ _ _

theorem rowRec_ok_iff (s : Sym ℚ) (r : Row) (x : Rec) :
    rowRec s r = .ok x ↔ ∃ w, extract r = .ok w ∧ finish s w = .ok x := by
  unfold rowRec
  cases h : extract r with
  | error e => simp [bind, Except.bind]
  | ok w => simp [bind, Except.bind]

theorem forall₂_comp {α β γ : Type} {R : α → β → Prop} {S : β → γ → Prop} {as : List α} {bs : List β}
    {cs : List γ} (h1 : List.Forall₂ R as bs) (h2 : List.Forall₂ S bs cs) :
    List.Forall₂ (fun a c => ∃ b, R a b ∧ S b c) as cs := by
  induction h1 generalizing cs with
  | nil => cases h2; exact List.Forall₂.nil
  | cons hab _ ih =>
    cases h2 with
    | cons hbc h2' => exact List.Forall₂.cons ⟨_, hab, hbc⟩ (ih h2')

theorem forall₂_imp {α β : Type} {R S : α → β → Prop} {as : List α} {bs : List β}
    (h : List.Forall₂ R as bs) (hi : ∀ a b, R a b → S a b) : List.Forall₂ S as bs := by
  induction h with
  | nil => exact List.Forall₂.nil
  | cons hab _ ih => exact List.Forall₂.cons (hi _ _ hab) ih

theorem forall₂_length {α β : Type} {R : α → β → Prop} {as : List α} {bs : List β}
    (h : List.Forall₂ R as bs) : as.length = bs.length := by
  induction h with
  | nil => rfl
  | cons _ _ ih => simp [ih]

theorem extract_ok {r : Row} {w : Raw} (h : extract r = .ok w) :
    cell r 6 = .ok w.temp ∧ cell r 8 = .ok w.rhum ∧ cell r 9 = .ok w.pres ∧ cell r 21 = .ok w.umod := by
  unfold extract at h
  simp only [bind, Except.bind, pure, Except.pure] at h
  repeat' (split at h <;> try (cases h; done))
  cases h
  exact ⟨by assumption, by assumption, by assumption, by assumption⟩

theorem finish_ok {s : Sym ℚ} {w : Raw} {x : Rec} (hf : finish s w = .ok x) :
    ∃ t rh p, w.temp = .num t ∧ w.rhum = .num rh ∧ w.pres = .num p ∧ x.temp = t + 273.15 ∧ x.rhum = rh ∧
      x.pres = p ∧ x.umod = w.umod ∧ humFromRh s rh t p = .ok x.hum := by
  unfold finish at hf
  cases ht : w.temp with
  | text => simp [ht] at hf
  | num t =>
    simp only [ht] at hf
    split at hf
    · cases hf
    · split at hf
      · cases hf
      · cases hr : w.rhum with
        | text => simp [hr] at hf
        | num rh =>
          cases hp : w.pres with
          | text => simp [hr, hp] at hf
          | num p =>
            simp only [hr, hp] at hf
            cases hh : humFromRh s rh t p with
            | error e => simp [hh] at hf
            | ok hv =>
              simp only [hh] at hf
              cases hf
              exact ⟨t, rh, p, rfl, rfl, rfl, rfl, rfl, rfl, rfl, hh⟩

/-! ### property theorems -/

/-- **Row-locality.** When `Weather(...)` returns, record `i` is `rowRec` of row `HI + i` of the table: one record
per row of the window, each a function of its own row. -/
theorem read_rowwise (s : Sym ℚ) (table : List Row) (HI HF : Nat) (xs : List Rec)
    (h : read s table HI HF = .ok xs) :
    List.Forall₂ (fun r x => rowRec s r = .ok x) (window table HI HF) xs := by
  unfold read at h
  cases table with
  | nil => cases h
  | cons first rest =>
    simp only at h
    cases h1 : first[1]? with
    | none => simp [h1] at h
    | some c =>
      simp only [h1] at h
      by_cases hcd : window (first :: rest) HI HF = []
      · simp [hcd] at h
      · simp only [hcd, if_false] at h
        cases hws : extractAll (window (first :: rest) HI HF) with
        | error e => simp [hws, bind, Except.bind] at h
        | ok ws =>
          simp only [hws, bind, Except.bind] at h
          have a := (extractAll_ok_iff _ _).1 hws
          have b := (finishAll_ok_iff s _ _).1 h
          have c := forall₂_comp a b
          exact forall₂_imp c (fun _ _ hx => (rowRec_ok_iff s _ _).2 hx)

/-- the number of records is the number of table rows in `HI .. HF` -/
theorem read_length (s : Sym ℚ) (table : List Row) (HI HF : Nat) (xs : List Rec)
    (h : read s table HI HF = .ok xs) : xs.length = (window table HI HF).length :=
  (forall₂_length (read_rowwise s table HI HF xs h)).symm

/-- **Only ten cells matter.** Two rows that agree on cells 6, 7, 8, 9, 12, 13, 14, 15, 20, 21 give the same record
(or the same exception): every other column of the rural file is irrelevant to the forcing. -/
theorem rowRec_congr (s : Sym ℚ) (r r' : Row)
    (h : ∀ j ∈ [6, 7, 8, 9, 12, 13, 14, 15, 20, 21], r[j]? = r'[j]?) : rowRec s r = rowRec s r' := by
  have e : extract r = extract r' := by
    simp only [extract, cell]
    rw [h 6 (by simp), h 7 (by simp), h 8 (by simp), h 9 (by simp), h 12 (by simp), h 13 (by simp),
      h 14 (by simp), h 15 (by simp), h 20 (by simp), h 21 (by simp)]
  simp [rowRec, e]

/-- **Humidity of the forcing.** The humidity ratio of a record is `hum_from_rhum_temp` of the row's own relative
humidity, dry-bulb temperature and pressure - the values recorded beside it. -/
theorem rowRec_hum (s : Sym ℚ) (r : Row) (x : Rec) (h : rowRec s r = .ok x) :
    humFromRh s x.rhum (x.temp - 273.15) x.pres = .ok x.hum := by
  obtain ⟨w, _, hf⟩ := (rowRec_ok_iff s r x).1 h
  obtain ⟨t, rh, p, _, _, _, e1, e2, e3, _, hh⟩ := finish_ok hf
  rw [e1, e2, e3]
  simpa using hh

/-- the recorded values are the row's: temperature = cell 6 + 273.15, RH = cell 8, pressure = cell 9, wind = cell 21 -/
theorem rowRec_values (s : Sym ℚ) (r : Row) (x : Rec) (h : rowRec s r = .ok x) :
    (∃ c, r[6]? = some c ∧ str2flCell c = .num (x.temp - 273.15)) ∧
    (∃ c, r[8]? = some c ∧ str2flCell c = .num x.rhum) ∧
    (∃ c, r[9]? = some c ∧ str2flCell c = .num x.pres) ∧
    (∃ c, r[21]? = some c ∧ str2flCell c = x.umod) := by
  obtain ⟨w, he, hf⟩ := (rowRec_ok_iff s r x).1 h
  have cellOk : ∀ j v, cell r j = .ok v → ∃ c, r[j]? = some c ∧ str2flCell c = v := by
    intro j v hc
    unfold cell at hc
    cases hj : r[j]? with
    | none => simp [hj] at hc
    | some c => simp [hj] at hc; exact ⟨c, rfl, hc⟩
  obtain ⟨c6, c8, c9, c21⟩ := extract_ok he
  obtain ⟨t, rh, p, e1, e2, e3, x1, x2, x3, x4, _⟩ := finish_ok hf
  rw [e1] at c6; rw [e2] at c8; rw [e3] at c9
  refine ⟨?_, ?_, ?_, ?_⟩
  · rw [x1]; simpa using cellOk 6 _ c6
  · rw [x2]; exact cellOk 8 _ c8
  · rw [x3]; exact cellOk 9 _ c9
  · rw [x4]; exact cellOk 21 _ c21

/-- **Window only.** Two tables with the same rows `HI .. HF` (and a first line with a second cell) give the same
station vectors: rows outside the window are irrelevant. -/
theorem read_window_only (s : Sym ℚ) (t t' : List Row) (HI HF : Nat) (f f' : Row) (c c' : Str)
    (h0 : t.head? = some f) (h0' : t'.head? = some f') (h1 : f[1]? = some c) (h1' : f'[1]? = some c')
    (hw : window t HI HF = window t' HI HF) : read s t HI HF = read s t' HI HF := by
  cases t with
  | nil => simp at h0
  | cons a as =>
    cases t' with
    | nil => simp at h0'
    | cons b bs =>
      simp at h0 h0'
      subst h0 h0'
      simp only [read, h1, h1', hw]

/-- **Causality at the source.** If the window is extended (`HF ≤ HF'`) and both reads return, the records of the
shorter window are the first records of the longer one: a later rural row cannot change an earlier record. -/
theorem read_prefix (s : Sym ℚ) (table : List Row) (HI HF HF' : Nat) (xs ys : List Rec) (hle : HF ≤ HF')
    (h : read s table HI HF = .ok xs) (h' : read s table HI HF' = .ok ys) : xs = ys.take xs.length := by
  have a := read_rowwise s table HI HF xs h
  have b := read_rowwise s table HI HF' ys h'
  have hw : window table HI HF = (window table HI HF').take (window table HI HF).length := by
    unfold window
    rw [List.take_take]
    have : min (HF + 1 - HI) (HF' + 1 - HI) = HF + 1 - HI := by omega
    simp only [List.length_take]
    rw [List.take_eq_take_iff.2]
    omega
  -- functional relation: the shorter list is determined row by row
  have key : ∀ (rs : List Row) (xs ys : List Rec) (k : Nat),
      List.Forall₂ (fun r x => rowRec s r = .ok x) (rs.take k) xs →
      List.Forall₂ (fun r x => rowRec s r = .ok x) rs ys → xs = ys.take xs.length := by
    intro rs
    induction rs with
    | nil =>
      intro xs ys k h1 h2
      simp at h1
      cases h1
      simp
    | cons r rs ih =>
      intro xs ys k h1 h2
      cases k with
      | zero => simp at h1; cases h1; simp
      | succ k =>
        simp only [List.take_succ_cons] at h1
        cases h1 with
        | cons hx h1' =>
          cases h2 with
          | cons hy h2' =>
            rw [hx] at hy
            cases hy
            simp [← ih _ _ k h1' h2']
  rw [hw] at a
  exact key _ _ _ _ a b

end Uwg.Weather

namespace Uwg.Weather

/-! ### non-vacuity: a two-row table read at the stub symbols -/

def demoTable : List Row :=
  [["LOCATION", "X"], ["1989", "1", "1", "1", "60", "f", "25.5", "20", "80", "100,900", "0", "0", "400", "0", "0", "0",
    "0", "0", "0", "0", "180", "2.5"],
   ["1989", "1", "1", "2", "60", "f", "-0.05", "", "103", "101325", "0", "0", "", "0", "0", "0", "0", "0", "0", "0",
    "x", "10.0", "extra"]].map (·.map String.toList)

example : (read stubQ demoTable 1 2).toOption.map (fun xs => xs.map (fun x => (x.temp, x.rhum, x.pres, x.umod))) =
    some [(25.5 + 273.15, 80, 100900, .num 2.5), (-0.05 + 273.15, 103, 101325, .num 10)] := by decide +kernel

example : (read stubQ demoTable 1 2).toOption.map (fun xs => xs.map (fun x => (x.tdp, x.infra, x.udir))) =
    some [(.num 20, .num 400, .num 180), (.text, .text, .text)] := by decide +kernel

example : read stubQ demoTable 1 1 = (read stubQ demoTable 1 2).map (·.take 1) := by decide +kernel

end Uwg.Weather
