/-
C03 — Urban weather at hour h depends only on rural data up to hour h.

Stated on `Sim.simulate` / `Sim.simulateFile` (Model/Sim.lean): the real control loop (closed form
proved in Props/C02.lean) with an arbitrary physics step. All theorems hold for every `Phys`, i.e.
whatever the physics computes from (its state, the current forcing row, the clock view, the deep
temperatures). Records are compared whether the runs return or raise (`recordsOf`).
-/
import UwgVerif.Lemmas.Sim

namespace Uwg.C03
open Uwg Uwg.Sim Uwg.C02
variable {S R D Rec E : Type}

/-- Key arithmetic fact (from C02): every step up to and including the one that stores record `h`
    reads a forcing row `≤ h`. -/
theorem rowIdx_le_of_before_record (dt it h : Nat) (hdt : dt ∣ 3600) (hpos : 0 < dt) (hit : 1 ≤ it)
    (hle : it ≤ 3600 * (h + 1) / dt) : rowIdx dt it ≤ h := by
  rw [rowIdx_eq dt it hpos hit]
  have hJ : 3600 * (h + 1) / dt * dt = 3600 * (h + 1) :=
    Nat.div_mul_cancel (Nat.dvd_trans hdt ⟨h + 1, rfl⟩)
  have : it * dt ≤ 3600 * (h + 1) := by
    calc it * dt ≤ 3600 * (h + 1) / dt * dt := Nat.mul_le_mul_right dt hle
      _ = 3600 * (h + 1) := hJ
  have h1 : 1 ≤ it * dt := Nat.mul_pos hit hpos
  omega

private theorem prefix_lemma (P : Phys S R D Rec E) (deep deep' : StepTrace → D) (rows rows' : List R)
    (pre suf suf' : List StepTrace) (s0 : S)
    (hagree : ∀ t ∈ pre, rows[t.row]? = rows'[t.row]? ∧ deep t = deep' t) :
    (recordsOf (runSteps P deep rows (pre ++ suf) s0 [])).take (records pre).length =
    (recordsOf (runSteps P deep' rows' (pre ++ suf') s0 [])).take (records pre).length := by
  rw [runSteps_append, runSteps_append, runSteps_congr P deep deep' rows rows' pre hagree]
  cases hX : runSteps P deep' rows' pre s0 [] with
  | error x => rfl
  | ok p =>
    obtain ⟨s1, a1⟩ := p
    have hlen := runSteps_ok_length P deep' rows' pre s0 s1 [] a1 hX
    simp only [List.length_nil, Nat.zero_add] at hlen
    obtain ⟨x, hx⟩ := runSteps_extends P deep rows suf s1 a1
    obtain ⟨x', hx'⟩ := runSteps_extends P deep' rows' suf' s1 a1
    simp only []
    rw [hx, hx', ← hlen, List.take_left', List.take_left'] <;> rfl

/-- The control trace of a valid run, split after the step that stores record `h`. -/
private theorem trace_split (dt M Dy days nrows h : Nat) (hv : Valid ⟨dt, M, Dy, days, nrows⟩)
    (hh : h < 24 * days) :
    ∃ pre suf, driver ⟨dt, M, Dy, days, nrows⟩ = .ok (pre ++ suf) ∧
      pre = (List.range' 1 (3600 * (h + 1) / dt)).map (stepSpec dt (clockAt dt M Dy)) ∧
      (records pre).length = h + 1 ∧ (∀ t ∈ pre, t.row ≤ h) := by
  have hJ : 3600 * (h + 1) / dt * dt = 3600 * (h + 1) :=
    Nat.div_mul_cancel (Nat.dvd_trans hv.dvd ⟨h + 1, rfl⟩)
  have hK : (nt dt days - 1) * dt = days * 86400 := steps_mul ⟨dt, M, Dy, days, nrows⟩ hv
  have hJK : 3600 * (h + 1) / dt ≤ nt dt days - 1 := by
    have : 3600 * (h + 1) / dt * dt ≤ (nt dt days - 1) * dt := by rw [hJ, hK]; omega
    exact Nat.le_of_mul_le_mul_right this hv.pos
  refine ⟨(List.range' 1 (3600 * (h + 1) / dt)).map (stepSpec dt (clockAt dt M Dy)),
    (List.range' (1 + 3600 * (h + 1) / dt) (nt dt days - 1 - 3600 * (h + 1) / dt)).map
      (stepSpec dt (clockAt dt M Dy)), ?_, rfl, ?_, ?_⟩
  · have htr := driver_trace ⟨dt, M, Dy, days, nrows⟩ hv
    dsimp only at htr
    rw [htr, ← List.map_append]
    congr 2
    rw [List.range'_append_1]
    congr 1
    generalize 3600 * (h + 1) / dt = J at hJK ⊢
    omega
  · have := records_spec hv.dvd hv.pos (clockAt dt M Dy) (3600 * (h + 1) / dt) 0
    simp only [Nat.zero_add] at this
    rw [this]
    simp only [List.length_map, List.length_range', Nat.zero_mul, Nat.zero_div, Nat.sub_zero]
    rw [hJ]; omega
  · intro t ht
    rw [List.mem_map] at ht
    obtain ⟨it, hit, rfl⟩ := ht
    rw [List.mem_range'_1] at hit
    have := rowIdx_le_of_before_record dt it h hv.dvd hv.pos hit.1 (by omega)
    rw [rowIdx_eq dt it hv.pos hit.1] at this
    exact this

private theorem getElem?_of_take_eq {rows rows' : List R} {k i : Nat}
    (h : rows.take k = rows'.take k) (hi : i < k) : rows[i]? = rows'[i]? := by
  have h1 : (rows.take k)[i]? = rows[i]? := by rw [List.getElem?_take]; simp [hi]
  have h2 : (rows'.take k)[i]? = rows'[i]? := by rw [List.getElem?_take]; simp [hi]
  rw [← h1, ← h2, h]

/-- Common core of T1, T2 and T5. -/
theorem prefix_records (P : Phys S R D Rec E) (soil soil' : Soil D) (dt M Dy days days' : Nat)
    (rows rows' : List R) (s0 : S) (h : Nat)
    (hv : Valid ⟨dt, M, Dy, days, rows.length⟩) (hv' : Valid ⟨dt, M, Dy, days', rows'.length⟩)
    (hh : h < 24 * days) (hh' : h < 24 * days')
    (hrows : rows.take (h + 1) = rows'.take (h + 1))
    (hsoil : ∀ t, deepAt soil t = deepAt soil' t) :
    (recordsOf (simulate P soil dt M Dy days rows s0)).take (h + 1) =
    (recordsOf (simulate P soil' dt M Dy days' rows' s0)).take (h + 1) := by
  obtain ⟨pre, suf, htr, hpre, hlen, hrow⟩ := trace_split dt M Dy days rows.length h hv hh
  obtain ⟨pre', suf', htr', hpre', _, _⟩ := trace_split dt M Dy days' rows'.length h hv' hh'
  have : pre' = pre := by rw [hpre, hpre']
  subst this
  rw [simulate_of_driver_ok P soil dt M Dy days rows s0 _ htr,
    simulate_of_driver_ok P soil' dt M Dy days' rows' s0 _ htr']
  rw [← hlen]
  apply prefix_lemma
  intro t ht
  exact ⟨getElem?_of_take_eq hrows (by have := hrow t ht; omega), hsoil t⟩

/-- T1 `causal`. With at least three ground-temperature depths (deep temperature = monthly table
    of the header), the records for hours `0 … h` are the same for any two rural windows that agree
    on rows `0 … h` — whatever the later rows contain. -/
theorem causal (P : Phys S R D Rec E) (table : Nat → D) (dt M Dy days : Nat)
    (rows rows' : List R) (s0 : S) (h : Nat)
    (hv : Valid ⟨dt, M, Dy, days, rows.length⟩) (hv' : Valid ⟨dt, M, Dy, days, rows'.length⟩)
    (hh : h < 24 * days) (hrows : rows.take (h + 1) = rows'.take (h + 1)) :
    (recordsOf (simulate P (.monthly table) dt M Dy days rows s0)).take (h + 1) =
    (recordsOf (simulate P (.monthly table) dt M Dy days rows' s0)).take (h + 1) :=
  prefix_records P _ _ dt M Dy days days rows rows' s0 h hv hv' hh hh hrows (fun _ => rfl)

/-- T2 `extend_days`. Simulating more days from the same start leaves the records of the shorter
    run unchanged: they are the first `24·d₁` records of the longer run. -/
theorem extend_days (P : Phys S R D Rec E) (table : Nat → D) (dt M Dy d₁ d₂ : Nat)
    (rows : List R) (s0 : S) (hd : d₁ ≤ d₂) (hpos : 0 < d₁)
    (hv₁ : Valid ⟨dt, M, Dy, d₁, (rows.take (24 * d₁)).length⟩)
    (hv₂ : Valid ⟨dt, M, Dy, d₂, rows.length⟩) :
    (recordsOf (simulate P (.monthly table) dt M Dy d₁ (rows.take (24 * d₁)) s0)).take (24 * d₁) =
    (recordsOf (simulate P (.monthly table) dt M Dy d₂ rows s0)).take (24 * d₁) := by
  have h := prefix_records P (.monthly table) (.monthly table) dt M Dy d₁ d₂ (rows.take (24 * d₁)) rows
    s0 (24 * d₁ - 1) hv₁ hv₂ (by omega) (by omega)
    (by rw [List.take_take]; congr 1; omega) (fun _ => rfl)
  have e : 24 * d₁ - 1 + 1 = 24 * d₁ := by omega
  rw [e] at h
  exact h

/-- T3 `outside_window_irrelevant`. Only the rows of the simulated window are read: two rural
    files that agree on data rows `24·j₀ … 24·j₀ + 24·days − 1` give the same run. -/
theorem outside_window_irrelevant {α : Type} (P : Phys S R D Rec E) (b : Bool) (table : Nat → D)
    (mean : List R → D) (proj : α → R) (dt M Dy days : Nat) (file file' : List α)
    (init : Option R → S)
    (hwin : ∀ i, 24 * (Clock.init M Dy).julian ≤ i → i < 24 * (Clock.init M Dy).julian + 24 * days →
      file[i]? = file'[i]?) :
    simulateFile P b table mean proj dt M Dy days file init =
    simulateFile P b table mean proj dt M Dy days file' init := by
  have : window M Dy days file = window M Dy days file' := by
    unfold window
    apply List.ext_getElem?
    intro i
    rw [List.getElem?_take, List.getElem?_take]
    by_cases hi : i < 24 * days
    · simp only [hi, if_true, List.getElem?_drop]
      exact hwin _ (by omega) (by omega)
    · simp [hi]
  unfold simulateFile
  rw [this]

/-- T4 `unmodelled_columns_irrelevant`. Rural files whose window rows have the same modelled
    columns (the projection `proj`) give the same run, whatever the other columns contain. -/
theorem unmodelled_columns_irrelevant {α : Type} (P : Phys S R D Rec E) (b : Bool) (table : Nat → D)
    (mean : List R → D) (proj : α → R) (dt M Dy days : Nat) (file file' : List α)
    (init : Option R → S)
    (hcols : (window M Dy days file).map proj = (window M Dy days file').map proj) :
    simulateFile P b table mean proj dt M Dy days file init =
    simulateFile P b table mean proj dt M Dy days file' init := by
  unfold simulateFile
  rw [hcols]

/-- T5 `nsoil_lt3_only_via_mean`. With fewer than three ground depths the deep temperature is the
    whole-window mean; that mean is the *only* way later rows can influence earlier hours: windows
    agreeing on rows `0 … h` and having the same mean give the same records for hours `0 … h`. -/
theorem nsoil_lt3_only_via_mean (P : Phys S R D Rec E) (m m' : D) (dt M Dy days : Nat)
    (rows rows' : List R) (s0 : S) (h : Nat)
    (hv : Valid ⟨dt, M, Dy, days, rows.length⟩) (hv' : Valid ⟨dt, M, Dy, days, rows'.length⟩)
    (hh : h < 24 * days) (hrows : rows.take (h + 1) = rows'.take (h + 1)) (hm : m = m') :
    (recordsOf (simulate P (.windowMean m) dt M Dy days rows s0)).take (h + 1) =
    (recordsOf (simulate P (.windowMean m') dt M Dy days rows' s0)).take (h + 1) :=
  prefix_records P _ _ dt M Dy days days rows rows' s0 h hv hv' hh hh hrows (fun _ => by simp [deepAt, hm])

/-- Non-vacuity: a one-day run at dt = 300 s from 1 January with 24 rows is `Valid`; the toy
    physics "state = sum of forcing values read so far" records prefix sums, so hour 0 is
    unaffected by changing hours 1..23. -/
example : Valid ⟨300, 1, 1, 1, 24⟩ :=
  { date := by decide, dvd := ⟨12, by decide⟩, pos := by decide, inYear := by decide, rows := by decide }

end Uwg.C03
