/-
C18 — Vegetation acts exactly in the configured season, consistently.
-/
import UwgVerif.Model.Season
import Mathlib.Tactic.Ring

namespace Uwg.C18
open Uwg

/-- T1. The surface-flux model and the reflection model agree on the season for *every*
    month / start / end (all naturals, so in particular all 12 × 12 × 12 combinations). -/
theorem season_agree (m s e : Nat) : offSeasonElement m s e = offSeasonSolar m s e := rfl

/-- T1'. For a start month not after the end month, vegetation is active exactly in the months
    from start to end inclusive. -/
theorem in_season_iff (m s e : Nat) (_h : s ≤ e) :
    offSeasonElement m s e = false ↔ (s ≤ m ∧ m ≤ e) := by
  unfold offSeasonElement
  simp only [Bool.or_eq_false_iff, decide_eq_false_iff_not]
  omega

/-- Wrap-around (`start > end`, reported separately by the property): both models are then
    off-season in every month — the season is empty, it does not wrap. -/
theorem wraparound_never_in_season (m s e : Nat) (h : e < s) :
    offSeasonElement m s e = true ∧ offSeasonSolar m s e = true := by
  unfold offSeasonElement offSeasonSolar
  simp only [Bool.or_eq_true, decide_eq_true_eq]
  omega

variable {K : Type} [Field K]

/-- T2. Off season the horizontal surface behaves as bare ground: absorbed, latent, sensible and
    net flux do not depend on vegetation albedo, latent fractions or any vegetation cover. -/
theorem off_season_bare (i j : SurfIn K)
    (h : i.albedo = j.albedo ∧ i.solRec = j.solRec ∧ i.infra = j.infra ∧ i.soilLat = j.soilLat ∧
         i.aeroCond = j.aeroCond ∧ i.tSurf = j.tSurf ∧ i.tempRef = j.tempRef) :
    surfFluxHorizontal true i = surfFluxHorizontal true j := by
  obtain ⟨h1, h2, h3, h4, h5, h6, h7⟩ := h
  simp [surfFluxHorizontal, h1, h2, h3, h4, h5, h6, h7]

/-- T2 (explicit form). Off season: `solAbs = (1 − albedo)·solRec`, no vegetation latent or
    sensible heat. -/
theorem off_season_formula (i : SurfIn K) :
    (surfFluxHorizontal true i).solAbs = (1 - i.albedo) * i.solRec ∧
    (surfFluxHorizontal true i).lat = i.soilLat + 0 ∧
    (surfFluxHorizontal true i).sens = 0 + i.aeroCond * (i.tSurf - i.tempRef) := by
  simp [surfFluxHorizontal]

/-- T2 for the reflection model: off season the road albedo is the bare pavement albedo. -/
theorem off_season_road_albedo (a vc va : K) : roadAlbedo true a vc va = a := by
  simp [roadAlbedo]

/-- T3. In season the vegetated fraction absorbs with the vegetation albedo and the absorbed
    sunlight of the vegetation is split into latent and sensible parts that add up to it. -/
theorem in_season_formula (i : SurfIn K) :
    (surfFluxHorizontal false i).solAbs =
      ((1 - i.vegcoverage) * (1 - i.albedo) + i.vegcoverage * (1 - i.vegAlbedo)) * i.solRec := by
  unfold surfFluxHorizontal
  cases i.roadCover with
  | none => simp
  | some p => obtain ⟨g, t⟩ := p; simp

theorem in_season_partition_nonroad (i : SurfIn K) (h : i.roadCover = none) :
    ((surfFluxHorizontal false i).lat - i.soilLat) +
      ((surfFluxHorizontal false i).sens - i.aeroCond * (i.tSurf - i.tempRef)) =
      i.vegcoverage * (1 - i.vegAlbedo) * i.solRec := by
  simp only [surfFluxHorizontal, h, Bool.false_eq_true, if_false]
  ring

theorem in_season_road_albedo (a vc va : K) :
    roadAlbedo false a vc va = a * (1 - vc) + va * vc := by simp [roadAlbedo]

/-- T2 for the canyon air: off season vegetation releases no sensible or latent heat, whatever
    the vegetation parameters. -/
theorem off_season_no_veg_heat (va tF gF r tc vc : K) : vegHeat true va tF gF r tc vc = (0, 0) := by
  simp [vegHeat]

/-- T3 for the canyon air: in season the sensible and latent vegetation heat add up to the
    sunlight absorbed by the vegetated fraction. -/
theorem in_season_veg_heat_partition (va tF gF r tc vc : K) :
    (vegHeat false va tF gF r tc vc).1 + (vegHeat false va tF gF r tc vc).2 = (1 - va) * r * vc := by
  simp only [vegHeat, Bool.false_eq_true, if_false]
  ring

/-- T4. The unrepaired test (`and`) is never off-season for a normal season. -/
theorem asis_never_off (m s e : Nat) (h : s ≤ e) : offSeasonElementAsis m s e = false := by
  unfold offSeasonElementAsis
  simp only [Bool.and_eq_false_iff, decide_eq_false_iff_not]
  omega

/-- T4 witness: January with season April..October — the repaired test is off-season, the old one
    was not, while the reflection model was already off-season (the two disagreed). -/
theorem asis_disagrees : offSeasonElementAsis 1 4 10 = false ∧ offSeasonSolar 1 4 10 = true ∧
    offSeasonElement 1 4 10 = true := by decide

end Uwg.C18
