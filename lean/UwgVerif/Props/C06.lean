/-
C06 — All construction routes and serialisation round trips are equivalent.
Property theorems only; models in `Model/{Json,ParamKinds,Params,NumTok,Reader}.lean`, the parameter table
in `Gen/ParamTable.lean` (regenerated from `uwg/uwg.py` on every run), helper lemmas in `Lemmas/C06*.lean`.

What the theorems do NOT cover (left to the harness, `harness/props/c06.py`):
  * the csv/`open` layer (line endings, quoting) that turns text into rows;
  * `json.dumps`/`json.loads` (the model's `J` is the tree *after* parsing);
  * the command-line wrappers, and that equal parameter records simulate identically (C05);
  * IEEE rounding: the cover-sum and `bld`-sum assertions are exact here, floating point in Python.
-/
import UwgVerif.Lemmas.C06RoundTrip
import UwgVerif.Lemmas.C06Routes
import UwgVerif.Lemmas.C06Reader
import UwgVerif.Lemmas.C06Char

namespace Uwg.C06
open Uwg.Gen

/-! ## T5 — the parameter table is closed -/

/-- T5. Every name of `PARAMETER_LIST` has a recognised setter kind (the table lists exactly
    `PARAMETER_LIST`, in order, without duplicates); `to_dict`, `from_dict` and the tail of
    `_read_input` still are the plain loops over `PARAMETER_LIST` the model assumes; every name is its
    own lower-cased, space-free form, contains no `#` and is not a reference building type, so the
    reader's `clean` reaches it and never mistakes it for a comment or a `bld` row; the optional set is
    exactly the set of names with an `opt` setter and exactly what `__init__` presets to `None`; the
    keyword route assigns every non-optional name exactly once; the cover setters are closed and the
    names `type`, `ref_sch_vector`, `ref_bem_vector` are free. Re-proved by `decide` against the table
    regenerated from the current source. -/
theorem table_closed :
    (∀ n ∈ paramList, kindOf n ≠ .unknown) ∧
    setterKinds.map Prod.fst = paramList ∧
    paramList.Nodup ∧
    toDictLoop = true ∧ fromDictLoop = true ∧ readerLoop = true ∧
    (∀ n ∈ paramList, clean n = n ∧ '#' ∉ n ∧ n ∉ REF_BLDTYPES) ∧
    (∀ n ∈ paramList, n ∈ optionalSet ↔ ∃ k, kindOf n = .opt k) ∧
    (∀ n, n ∈ optionalSet ↔ n ∈ initNone) ∧
    (∀ n ∈ optionalSet, n ∈ paramList) ∧
    kwargsOrder.Nodup ∧
    (∀ n ∈ paramList, n ∈ kwargsOrder ↔ n ∉ optionalSet) ∧
    (∀ n ∈ kwargsOrder, n ∈ paramList) ∧
    coverClosedB = true ∧ tableOK = true := by
  refine ⟨by decide, by decide, by decide, by decide, by decide, by decide, by decide, ?_, ?_,
    by decide, by decide, by decide, by decide, by decide, by decide⟩
  · intro n hn
    have h : ∀ n ∈ paramList, (decide (n ∈ optionalSet)) =
        (match kindOf n with | .opt _ => true | _ => false) := by decide
    have h' := h n hn
    constructor
    · intro ho
      simp only [ho, decide_true] at h'
      split at h'
      · rename_i k hk; exact ⟨k, hk⟩
      · cases h'
    · rintro ⟨k, hk⟩
      rw [hk] at h'
      simpa using h'
  · intro n
    have h1 : ∀ n ∈ optionalSet, n ∈ initNone := by decide
    have h2 : ∀ n ∈ initNone, n ∈ optionalSet := by decide
    exact ⟨h1 n, h2 n⟩

/-- `to_dict` emits every `PARAMETER_LIST` name (or fails as a whole with AttributeError) -/
theorem toDict_emits_all (b : Bool) (m : UWG) (d : J) (h : m.toDict b = .ok d) :
    ∀ n ∈ paramList, ∃ v, d.get n = .ok v := by
  intro n hn
  have hall : ∀ k ∈ paramList, ∃ v, alookup k m.st = some v := by
    intro k hk
    unfold UWG.toDict at h
    have aux : ∀ (ns : List Str) r, getAttrs m.st ns = .ok r → ∀ k ∈ ns, ∃ v, alookup k m.st = some v := by
      intro ns
      induction ns with
      | nil => intro r _ k hk; cases hk
      | cons x xs ih =>
        intro r hr k hk
        unfold getAttrs at hr
        split at hr
        · cases hr
        · rename_i v hv
          split at hr
          · cases hr
          · rename_i r' hr'
            rcases List.mem_cons.mp hk with rfl | hk'
            · exact ⟨v, hv⟩
            · exact ih r' hr' k hk'
    split at h
    · cases h
    · rename_i ps hps; exact aux _ ps hps k hk
  have heq := toDict_eq m m.attr (fun k hk => by
    obtain ⟨v, hv⟩ := hall k hk
    simp [UWG.attr, hv])
  have hb : m.toDict b = .ok (dictOf m.attr (if b then refTail m.refBem m.refSch else [])) := by
    cases b
    · unfold UWG.toDict
      rw [getAttrs_eq m.st m.attr paramList (fun k hk => by
        obtain ⟨v, hv⟩ := hall k hk
        simp [UWG.attr, hv])]
      simp [dictOf]
    · exact heq
  rw [hb] at h
  cases h
  exact ⟨m.attr n, dictOf_get m.attr _ table_closed.2.2.2.2.2.2.2.2.2.2.2.2.2.2 hn⟩

/-- `from_dict` consumes every `PARAMETER_LIST` name: a dictionary lacking one is rejected (KeyError) -/
theorem fromDict_needs_all (d : J) (m : UWG) (h : UWG.fromDict d = .ok m) :
    ∀ n ∈ paramList, ∃ v, d.get n = .ok v := by
  have aux : ∀ (ns : List Str) (st st' : St), runSetters (fun n => d.get n) ns st = .ok st' →
      ∀ n ∈ ns, ∃ v, d.get n = .ok v := by
    intro ns
    induction ns with
    | nil => intro _ _ _ n hn; cases hn
    | cons x xs ih =>
      intro st st' hr n hn
      unfold runSetters at hr
      split at hr
      · cases hr
      · rename_i v hv
        split at hr
        · cases hr
        · rename_i st1 _
          rcases List.mem_cons.mp hn with rfl | hn'
          · exact ⟨v, hv⟩
          · exact ih st1 st' hr n hn'
  unfold UWG.fromDict at h
  cases h1 : checkType (cs! "UWG") d with
  | error e => rw [h1] at h; cases h
  | ok u =>
    rw [bind_ok _ h1] at h
    cases h2 : runSetters (fun n => d.get n) paramList initSt with
    | error e => rw [h2] at h; cases h
    | ok st => exact aux _ _ _ h2

/-! ## T1 / T2 — dictionary round trips -/

/-- T1. For every valid model `m` (every parameter holds a value its setter stores, the cover fractions
    sum to at most one, the custom reference vectors are absent or non-empty, pairwise matching and made
    of valid BEMDef/SchDef objects — `heat_cap` included), `to_dict(include_refDOE=True)` succeeds and
    `from_dict` of the result succeeds with the same parameter record and the same custom vectors. -/
theorem from_to_dict (m : UWG) (h : m.Valid) :
    ∃ d m', m.toDict true = .ok d ∧ UWG.fromDict d = .ok m' ∧ UWG.Same m m' := by
  have ht : tableOK = true := table_closed.2.2.2.2.2.2.2.2.2.2.2.2.2.2
  obtain ⟨d, m', h1, h2, h3, h4⟩ := round_trip_core m ht h.toParamsValid (fun _ => h.refs)
  refine ⟨d, m', h1, h2, h3, ?_⟩
  have hr := h.refs
  match hb : m.refBem, hs : m.refSch with
  | none, none => simp [hb, hs, truthy] at h4; exact ⟨h4.1.symm, h4.2.symm⟩
  | some bs, some ss =>
    rw [hb, hs] at hr h4
    obtain ⟨hne, hchk, _, _⟩ := hr
    have hl := checkRef_length hchk
    have t1 : truthy (some bs) = true := (truthy_iff bs).2 hne
    have t2 : truthy (some ss) = true := (truthy_iff ss).2 (by
      intro h0; subst h0; cases bs <;> simp_all)
    simp [t1, t2] at h4
    exact ⟨h4.1.symm, h4.2.symm⟩
  | none, some _ => rw [hb, hs] at hr; exact hr.elim
  | some _, none => rw [hb, hs] at hr; exact hr.elim

/-- T2. `to_dict` is stable under a round trip: serialising the round-tripped model gives the same
    dictionary again. -/
theorem to_from_to (m : UWG) (h : m.Valid) (d : J) (m' : UWG)
    (h1 : m.toDict true = .ok d) (h2 : UWG.fromDict d = .ok m') : m'.toDict true = .ok d := by
  obtain ⟨d0, m0, e1, e2, hs⟩ := from_to_dict m h
  rw [h1] at e1; cases e1
  rw [h2] at e2; cases e2
  rw [← UWG.toDict_congr true m m' hs, h1]

/-- An *empty* custom vector is dropped: `to_dict` omits falsy vectors, so `[]` comes back as `None`
    (both mean "no custom reference data"); the parameters are unaffected. -/
theorem from_to_dict_empty_refs (m : UWG) (h : m.ParamsValid)
    (he : m.refBem = some [] ∨ m.refSch = some []) :
    ∃ d m', m.toDict true = .ok d ∧ UWG.fromDict d = .ok m' ∧
      (∀ n ∈ paramList, alookup n m.st = alookup n m'.st) ∧ m'.refBem = none ∧ m'.refSch = none := by
  have ht : tableOK = true := table_closed.2.2.2.2.2.2.2.2.2.2.2.2.2.2
  have hf : (truthy m.refBem && truthy m.refSch) = false := by
    rcases he with he | he <;> simp [he, truthy]
  obtain ⟨d, m', h1, h2, h3, h4⟩ := round_trip_core m ht h (fun t => by rw [hf] at t; cases t)
  simp [hf] at h4
  exact ⟨d, m', h1, h2, h3, h4.1, h4.2⟩

theorem upper_zone_fixed : ∀ z ∈ REF_ZONES, upper z = z := by decide

/-- What a setter stores is a fixed point of that setter (normalisation is idempotent): every value
    produced by any construction route satisfies the per-parameter hypothesis of T1. -/
theorem setters_store_fixpoints (k : Kind) (v v' : J) (h : norm k v = .ok v') : Stored k v' := by
  induction k generalizing v v' with
  | intRange lo hi =>
    simp only [norm, checkIntRange] at h
    split at h
    · cases h
    · rename_i n _
      split at h
      · rename_i hr; cases h
        simp [Stored, norm, checkIntRange, pyInt, hr]
      · cases h
  | intMin lo =>
    simp only [norm, checkIntRange] at h
    split at h
    · cases h
    · rename_i n _
      split at h
      · rename_i hr; cases h
        simp [Stored, norm, checkIntRange, pyInt, hr]
      · cases h
  | fltRange lo hi =>
    obtain ⟨rfl, hr⟩ := checkRange_eq_ok h
    exact checkRange_ok hr
  | fltMin lo =>
    obtain ⟨rfl, hr⟩ := checkRange_eq_ok h
    exact checkRange_ok hr
  | fltExcl lo =>
    obtain ⟨rfl, hr⟩ := checkExclMin_eq_ok h
    exact checkExclMin_ok hr
  | boolNum =>
    simp only [norm] at h
    split at h <;> cases h <;> rfl
  | zone =>
    simp only [norm] at h
    split at h
    · split at h
      · rename_i s hz; cases h
        simp [Stored, norm, upper_zone_fixed _ hz, hz]
      · cases h
    · cases h
  | bld =>
    simp only [norm, normBld] at h
    split at h
    · split at h
      · cases h
      · split at h
        · cases h; rename_i rows tot hb ht
          simp [Stored, norm, normBld, hb, ht]
        · cases h
    · cases h
  | sch =>
    have := checkWeek_eq_ok h
    subst this
    exact h
  | cover a b =>
    obtain ⟨rfl, hr⟩ := checkRange_eq_ok h
    exact checkRange_ok hr
  | opt k ih =>
    simp only [norm] at h
    split at h
    · cases h; rfl
    · have := ih v v' h
      unfold Stored at this ⊢
      cases v' with
      | null => rfl
      | _ => simpa [norm] using this
  | unknown => simp [norm] at h

/-! ### the five record classes -/

/-- Material: `from_dict(to_dict(x)) = x` whenever conductivity and heat capacity are positive. -/
theorem material_from_to (m : Material) (h : m.Valid) : Material.fromDict m.toDict = .ok m :=
  material_from_to' m h

/-- Element: identity for valid elements (non-negative albedo/emissivity/t_init, vegetation cover in
    [0,1], positive thicknesses as many as materials, valid materials). -/
theorem element_from_to (e : Element) (h : e.Valid) : Element.fromDict e.toDict = .ok e :=
  element_from_to' e h

/-- Building: identity for valid buildings — including the non-constructor attribute `heat_cap`
    (whatever non-None value it holds) and the unvalidated `int_heat_day`. -/
theorem building_from_to (b : Building) (h : b.Valid) : Building.fromDict b.toDict = .ok b :=
  building_from_to' b h

/-- SchDef: identity for valid schedules (3×24 numeric weeks, non-negative loads, known era). -/
theorem schdef_from_to (s : SchDef) (h : s.Valid) : SchDef.fromDict s.toDict = .ok s :=
  schdef_from_to' s h

/-- BEMDef: identity for valid definitions (valid building and elements, known era). -/
theorem bemdef_from_to (x : BEMDef) (h : x.Valid) : BEMDef.fromDict x.toDict = .ok x :=
  bemdef_from_to' x h

/-! ## T3 — the reader is independent of the layout -/

/-- the parsed map of an entry list: the entries themselves, read as an association list -/
def mapOf (es : List (Str × J)) : Dict := es

/-- A layout of the entry list `es`: a sequence of pieces — filler rows (blank lines `[]`, rows whose
    first cell contains `#`) and entry blocks (one `key,value,...` row; a `schtraffic` header followed by
    its three rows; a `bld` header followed by its type rows) — whose entry blocks, in file order, spell
    a permutation of `es`. Fillers stand *between* blocks only; key case, spaces inside cells, trailing
    cells and the spelling of numbers are free because an entry's meaning (`Entry.sem`) is computed from
    the cleaned cells. -/
structure Layout (es : List (Str × J)) where
  pieces : List Piece
  wf : ∀ p ∈ pieces, p.WF
  perm : (sems pieces).Perm es

def layout (es : List (Str × J)) (L : Layout es) : List Row := render L.pieces

/-- T3. For entries with distinct keys, every layout of them is read to a dictionary that maps each
    key to its entry's value and nothing else (equality as finite maps: Python dict order differs with
    the permutation). Side conditions that make a block an entry are in `Entry.sem`: a one-row entry's
    key must not contain `#` nor be a reference building type, and its value must be a `float()` token
    (empty allowed for the optional names). -/
theorem reader_layout_invariant (es : List (Str × J)) (hnd : (es.map Prod.fst).Nodup)
    (L : Layout es) :
    ∃ m, readInput (layout es L) = .ok m ∧ ∀ k, alookup k m = alookup k (mapOf es) := by
  obtain ⟨pend', d', h1, h2⟩ := rd_pieces L.pieces L.wf [] none []
  have hnd' : ((sems L.pieces).map Prod.fst).Nodup := (L.perm.map Prod.fst).nodup_iff.mpr hnd
  refine ⟨flush pend' d', ?_, ?_⟩
  · simp only [readInput, layout]
    simp only [List.append_nil] at h1
    rw [h1]
    cases pend' <;> rfl
  · intro k
    rw [h2, apply_fold_eq L.pieces L.wf]
    simp only [flush]
    rw [alookup_assign k _ [] hnd']
    simp only [alookup, mapOf]
    rw [← alookup_perm L.perm hnd' k]
    cases alookup k (sems L.pieces) <;> rfl

/-- Two layouts of the same entries (any permutation, any fillers between blocks, any decoration of the
    cells) give the same dictionary, hence — through the same `PARAMETER_LIST` loop — the same model. -/
theorem reader_layout_perm (es : List (Str × J)) (hnd : (es.map Prod.fst).Nodup)
    (L1 L2 : Layout es) :
    (∃ m1 m2, readInput (layout es L1) = .ok m1 ∧ readInput (layout es L2) = .ok m2 ∧
      ∀ k, alookup k m1 = alookup k m2) ∧
    UWG.fromFile (layout es L1) = UWG.fromFile (layout es L2) := by
  obtain ⟨m1, h1, e1⟩ := reader_layout_invariant es hnd L1
  obtain ⟨m2, h2, e2⟩ := reader_layout_invariant es hnd L2
  refine ⟨⟨m1, m2, h1, h2, fun k => by rw [e1, e2]⟩, ?_⟩
  simp only [UWG.fromFile, h1, h2]
  have : dictSrc m1 = dictSrc m2 := by
    funext n; simp only [dictSrc]; rw [e1, e2]
  rw [this]

/-- A malformed value raises, wherever it stands: after any well-formed prefix, a row that is not a
    type row and whose `if/elif` chain fails (missing value cell, non-numeric token) makes the repaired
    reader stop with that exception — for every continuation of the file. -/
theorem reader_malformed_raises (ps : List Piece) (hwf : ∀ p ∈ ps, p.WF) (row : Row) (rest : List Row)
    (e : Err) (ht : isTypeRow (row.map clean) = false) (hc : classify (row.map clean) = .fail e) :
    readInput (render ps ++ row :: rest) = .error e := by
  obtain ⟨pend', d', h1, _⟩ := rd_pieces ps hwf (row :: rest) none []
  simp only [readInput]
  rw [h1, rd_step_top pend' row rest d' ht, hc]

/-- `clean` ignores spaces anywhere in a cell. -/
theorem clean_space_insensitive (a b : Str) : clean (a ++ ' ' :: b) = clean (a ++ b) := by
  simp [clean, List.filter_append]

/-- `clean` ignores ASCII case: upper- or lower-casing any letters of a cell does not change it. -/
theorem clean_case_insensitive (s : Str) (f : Char → Char)
    (hf : ∀ c, f c = c ∨ f c = c.toUpper ∨ f c = c.toLower) : clean (s.map f) = clean s := by
  have low : ∀ c : Char, c.toLower.toLower = c.toLower ∧ c.toUpper.toLower = c.toLower ∧
      (c.toLower = ' ' ↔ c = ' ') ∧ (c.toUpper = ' ' ↔ c = ' ') := char_case_facts
  induction s with
  | nil => rfl
  | cons c s ih =>
    simp only [clean, lower, List.map_cons, List.filter_cons] at ih ⊢
    obtain ⟨l1, l2, l3, l4⟩ := low c
    rcases hf c with h | h | h
    · rw [h]; split <;> simp_all
    · rw [h]
      by_cases hc : c = ' '
      · subst hc; simp_all
      · have : ¬ c.toUpper = ' ' := fun hh => hc (l4.mp hh)
        simp_all
    · rw [h]
      by_cases hc : c = ' '
      · subst hc; simp_all
      · have : ¬ c.toLower = ' ' := fun hh => hc (l3.mp hh)
        simp_all

/-- Why fillers are only claimed *between* blocks: a comment row inside a `schtraffic` block is taken
    as schedule data, one directly after the `bld` header ends the block before it began (the type rows
    are then read as ordinary parameters and rejected). -/
theorem filler_inside_block_changes_meaning :
    readInput [[cs! "schtraffic"], [cs! "# c"], [cs! "1"], [cs! "2"], [cs! "3"]] ≠
      readInput [[cs! "schtraffic"], [cs! "1"], [cs! "2"], [cs! "3"]] ∧
    readInput [[cs! "bld"], [cs! "# c"], [cs! "hospital", cs! "new", cs! "1"]] = .error .exc ∧
    (∃ d, readInput [[cs! "bld"], [cs! "hospital", cs! "new", cs! "1"], [cs! "# c"]] = .ok d) := by
  refine ⟨by decide +kernel, by decide +kernel,
    ⟨[(cs! "bld", .list [.list [.str (cs! "hospital"), .str (cs! "new"), .num (.flt 1)]])],
     by decide +kernel⟩⟩

/-! ## the hang of the unrepaired reader -/

/-- Before the repair the reader never got past a non-numeric value: on the single row
    `bldheight,abc` the cursor stays where it is for every amount of fuel. -/
theorem asis_reader_diverges (fuel : Nat) (d : Dict) :
    rdAsis fuel [[cs! "bldheight", cs! "abc"]] d = none := by
  induction fuel with
  | zero => rfl
  | succ n ih =>
    have hc : classify ([cs! "bldheight", cs! "abc"].map clean) = .fail .exc := by decide +kernel
    rw [rdAsis, hc]
    exact ih

/-- The repaired reader (which cannot loop: `rd` is a structural recursion) raises on that row. -/
theorem repaired_reader_raises : readInput [[cs! "bldheight", cs! "abc"]] = .error .exc := by
  decide +kernel

/-! ## T4 — the construction routes agree on the parameter record -/

theorem tableFacts : TableFacts := by
  obtain ⟨_, h2, _, _, _, _, _, h8, h9, h10, _, h12, h13, h14, h15⟩ := table_closed
  exact ⟨h15, h14, h2, fun n hn => (h8 n (h10 n hn)).1 hn, h9, h10, h13, h12⟩

theorem fromDict_ok_iff (d : J) (ht : checkType (cs! "UWG") d = .ok ())
    (hr : UWG.refsFromDict d = .ok (none, none)) (m : UWG) :
    UWG.fromDict d = .ok m ↔
      ∃ st, runSetters (fun n => d.get n) paramList initSt = .ok st ∧ m = ⟨st, none, none⟩ := by
  unfold UWG.fromDict
  rw [bind_ok _ ht]
  cases h : runSetters (fun n => d.get n) paramList initSt with
  | error e =>
    constructor
    · intro h'; cases h'
    · rintro ⟨st, h', _⟩; cases h'
  | ok st =>
    rw [bind_ok _ rfl, bind_ok _ hr]
    constructor
    · intro h'; cases h'; exact ⟨st, rfl, rfl⟩
    · rintro ⟨st', h', rfl⟩; cases h'; rfl

theorem fromKwargs_ok_iff (kw : J) (extra : List (Str × J)) (m : UWG) :
    UWG.fromKwargs kw extra none none = .ok m ↔
      ∃ sa sb, runSetters (fun n => kw.get n) kwargsOrder initSt = .ok sa ∧
        runSetters (extraSrc extra) (extra.map (·.1)) sa = .ok sb ∧ m = ⟨sb, none, none⟩ := by
  unfold UWG.fromKwargs
  cases h : runSetters (fun n => kw.get n) kwargsOrder initSt with
  | error e =>
    constructor
    · intro h'; cases h'
    · rintro ⟨sa, sb, h', _⟩; cases h'
  | ok sa =>
    simp only [kwRefCheck]
    cases h2 : runSetters (extraSrc extra) (extra.map (·.1)) sa with
    | error e =>
      constructor
      · intro h'; cases h'
      · rintro ⟨sa', sb, h', h'', _⟩; cases h'; rw [h2] at h''; cases h''
    | ok sb =>
      constructor
      · intro h'; cases h'; exact ⟨sa, sb, rfl, h2, rfl⟩
      · rintro ⟨sa', sb', h', h'', rfl⟩; cases h'; rw [h2] at h''; cases h''; rfl

/-- T4 (keyword route vs dictionary route). Give both routes the same values `val n`: the dictionary
    binds every `PARAMETER_LIST` name, the keyword call binds every argument of `from_param_args`, and
    the optional overrides listed in `xs` are afterwards assigned as attributes (every optional
    parameter not in `xs` has the value `None`). Then one route accepts iff the other does, and they
    produce the same parameter record — although the setters run in different orders, so that the
    cover-sum assertion is evaluated by a different setter, on a differently ordered sum.
    (Exact arithmetic: in floating point the two orders of that sum can round differently; see the
    finding reported by the check.) -/
theorem routes_agree (val : Str → J) (d kw : J) (xs : List Str)
    (hty : checkType (cs! "UWG") d = .ok ()) (hrefs : UWG.refsFromDict d = .ok (none, none))
    (hd : ∀ n ∈ paramList, d.get n = .ok (val n))
    (hkw : ∀ n ∈ kwargsOrder, kw.get n = .ok (val n))
    (hxs : ∀ n ∈ xs, n ∈ optionalSet) (hnull : ∀ n ∈ optionalSet, n ∉ xs → val n = .null) :
    (∀ m1, UWG.fromDict d = .ok m1 →
      ∃ m2, UWG.fromKwargs kw (xs.map fun n => (n, val n)) none none = .ok m2 ∧ UWG.Same m1 m2) ∧
    (∀ m2, UWG.fromKwargs kw (xs.map fun n => (n, val n)) none none = .ok m2 →
      ∃ m1, UWG.fromDict d = .ok m1 ∧ UWG.Same m1 m2) := by
  have hmap : (xs.map fun n => (n, val n)).map (·.1) = xs := by
    simp [List.map_map, Function.comp_def]
  have hX : ∀ n ∈ xs, extraSrc (xs.map fun n => (n, val n)) n = .ok (val n) := by
    intro n hn
    simp [extraSrc, alookup_map_self, hn]
  constructor
  · intro m1 h1
    obtain ⟨st1, hr1, rfl⟩ := (fromDict_ok_iff d hty hrefs m1).1 h1
    obtain ⟨sa, sb, ha, hb, hsame⟩ := dict_to_kwargs tableFacts val _ _ _ xs hd hkw hX hxs hnull st1 hr1
    refine ⟨⟨sb, none, none⟩, (fromKwargs_ok_iff kw _ _).2 ⟨sa, sb, ha, by rw [hmap]; exact hb, rfl⟩,
      hsame, rfl, rfl⟩
  · intro m2 h2
    obtain ⟨sa, sb, ha, hb, rfl⟩ := (fromKwargs_ok_iff kw _ m2).1 h2
    rw [hmap] at hb
    obtain ⟨st1, hr1, hsame⟩ := kwargs_to_dict tableFacts val _ _ _ xs hd hkw hX hnull sa sb ha hb
    exact ⟨⟨st1, none, none⟩, (fromDict_ok_iff d hty hrefs _).2 ⟨st1, hr1, rfl⟩, hsame, rfl, rfl⟩

theorem runSetters_congr (src src' : Str → Except Err J) (ns : List Str)
    (h : ∀ n ∈ ns, src n = src' n) : ∀ st, runSetters src ns st = runSetters src' ns st := by
  induction ns with
  | nil => intro st; rfl
  | cons n ns ih =>
    intro st
    unfold runSetters
    rw [h n (by simp)]
    split
    · rfl
    · split
      · rfl
      · exact ih (fun x hx => h x (by simp [hx])) _

/-- T4 (file route vs dictionary route). If the parsed map of a parameter file binds every
    `PARAMETER_LIST` name (and does not use the names of the reference vectors), `from_param_file`
    builds exactly the model `from_dict` builds from that map read as a dictionary — the numbers being
    the `float`s the reader produced. With T3 this holds for every layout of the file. -/
theorem routes_agree_file (rows : List Row) (d0 : Dict) (hread : readInput rows = .ok d0)
    (hall : ∀ n ∈ paramList, (alookup n d0).isSome)
    (hs : alookup (cs! "ref_sch_vector") d0 = none) (hb : alookup (cs! "ref_bem_vector") d0 = none) :
    UWG.fromFile rows = UWG.fromDict (.obj ((cs! "type", .str (cs! "UWG")) :: d0)) := by
  have hty : checkType (cs! "UWG") (.obj ((cs! "type", .str (cs! "UWG")) :: d0)) = .ok () := by
    simp [checkType, J.get, alookup]
  have hrefs : UWG.refsFromDict (.obj ((cs! "type", .str (cs! "UWG")) :: d0)) = .ok (none, none) := by
    have g1 : (J.obj ((cs! "type", .str (cs! "UWG")) :: d0)).get (cs! "ref_sch_vector") = .error .key := by
      simp only [J.get, alookup]
      rw [if_neg (by decide), hs]
    have g2 : (J.obj ((cs! "type", .str (cs! "UWG")) :: d0)).get (cs! "ref_bem_vector") = .error .key := by
      simp only [J.get, alookup]
      rw [if_neg (by decide), hb]
    unfold UWG.refsFromDict
    simp only [presentNotNone, g1, g2, bne_self_eq_false, Bool.false_eq_true, if_false, Bool.and_self]
    rfl
  have hsrc : ∀ n ∈ paramList, dictSrc d0 n =
      (fun n => (J.obj ((cs! "type", .str (cs! "UWG")) :: d0)).get n) n := by
    intro n hn
    have hne : n ≠ cs! "type" := by
      intro h
      have := table_closed.2.2.2.2.2.2.2.2.2.2.2.2.2.2
      simp only [tableOK, Bool.and_eq_true, Bool.not_eq_true', decide_eq_false_iff_not] at this
      exact this.1.1.2 (h ▸ hn)
    have := hall n hn
    cases hl : alookup n d0 with
    | none => rw [hl] at this; cases this
    | some v => simp [dictSrc, J.get, alookup, hne, hl]
  unfold UWG.fromFile UWG.fromDict
  rw [hread, bind_ok _ hty]
  simp only []
  rw [runSetters_congr _ _ paramList hsrc initSt]
  cases runSetters (fun n => (J.obj ((cs! "type", .str (cs! "UWG")) :: d0)).get n) paramList initSt with
  | error e => rfl
  | ok st => rw [bind_ok _ rfl, bind_ok _ hrefs]; rfl

/-- Reachability: the hypothesis of T1 is not restrictive on the parameter side — every model that
    `from_dict` accepts has valid parameters (each holds a fixed point of its setter, and the cover sum
    holds in the order of each of the three setters, not only of the one that happened to test it). -/
theorem fromDict_params_valid (d : J) (m : UWG) (h : UWG.fromDict d = .ok m) : m.ParamsValid := by
  let val : Str → J := fun n => match d.get n with | .ok v => v | .error _ => .null
  have hsrc : ∀ n ∈ paramList, (fun n => d.get n) n = .ok (val n) := by
    intro n hn
    obtain ⟨v, hv⟩ := fromDict_needs_all d m h n hn
    simp [val, hv]
  -- extract the run
  unfold UWG.fromDict at h
  cases h1 : checkType (cs! "UWG") d with
  | error e => rw [h1] at h; cases h
  | ok u =>
    rw [bind_ok _ h1] at h
    cases h2 : runSetters (fun n => d.get n) paramList initSt with
    | error e => rw [h2] at h; cases h
    | ok st =>
      rw [bind_ok _ h2] at h
      cases h3 : UWG.refsFromDict d with
      | error e => rw [h3] at h; cases h
      | ok r =>
        rw [bind_ok _ h3] at h
        cases h
        obtain ⟨hinv, hcov⟩ := runSetters_inv tableFacts _ val paramList initSt st [] hsrc h2
          (StInv_init _) (CovInv_nil _)
        have mem : ∀ n, n ∈ paramList → n ∈ paramList.reverse ++ [] := by intro n hn; simpa using hn
        have look : ∀ n ∈ paramList, alookup n st = some (nvOf val n) := by
          intro n hn; rw [hinv n, if_pos (mem n hn)]
        constructor
        · intro n hn
          exact ⟨nvOf val n, look n hn, setters_store_fixpoints _ _ _ (hcov.1 n (mem n hn))⟩
        · intro n hn a b hk
          obtain ⟨_, ha, hb, _, _, _, hka, hkb⟩ := cover_closure tableFacts hk
          obtain ⟨p, q, r, hp, hq, hr, hs⟩ := hcov.2 n a b (mem n hn) (mem a ha) (mem b hb) hk
          have ea : nvOf val a = val a := by
            rcases hka with h | h <;> exact nvOf_cover h (hcov.1 a (mem a ha))
          have eb : nvOf val b = val b := by
            rcases hkb with h | h <;> exact nvOf_cover h (hcov.1 b (mem b hb))
          have en : nvOf val n = val n := nvOf_cover hk (hcov.1 n (mem n hn))
          refine ⟨p, q, r, ?_, ?_, ?_, hs⟩
          · simp only [UWG.attr, look a ha, Option.getD_some, ea]; exact hp
          · simp only [UWG.attr, look b hb, Option.getD_some, eb]; exact hq
          · simp only [UWG.attr, look n hn, Option.getD_some, en]; exact hr

/-! ## non-vacuity -/

/-- Boolean form of `UWG.ParamsValid`, so that concrete models can be checked by evaluation -/
def UWG.paramsValidB (m : UWG) : Bool :=
  paramList.all (fun n =>
    match alookup n m.st with
    | none => false
    | some v =>
      decide (norm (kindOf n) v = .ok v) &&
      (match kindOf n with
       | .cover a b =>
         match numView (m.attr a), numView (m.attr b), numView (m.attr n) with
         | some p, some q, some r => decide (p + q + r ≤ 1)
         | _, _, _ => false
       | _ => true))

theorem paramsValidB_sound (m : UWG) (h : m.paramsValidB = true) : m.ParamsValid := by
  simp only [UWG.paramsValidB, List.all_eq_true] at h
  constructor
  · intro n hn
    have := h n hn
    split at this
    · cases this
    · rename_i v hv
      simp only [Bool.and_eq_true, decide_eq_true_eq] at this
      exact ⟨v, hv, this.1⟩
  · intro n hn a b hk
    have := h n hn
    split at this
    · cases this
    · simp only [Bool.and_eq_true, decide_eq_true_eq] at this
      have h2 := this.2
      rw [hk] at h2
      simp only at h2
      split at h2
      · rename_i p q r hp hq hr
        exact ⟨p, q, r, hp, hq, hr, by simpa using h2⟩
      · cases h2

/-- the Singapore example parameters as the keyword route stores them (ints stay ints) -/
def exampleSt : St :=
  [(cs! "shgc", .null), (cs! "flr_h", .null), (cs! "albroof", .null), (cs! "albwall", .null),
   (cs! "glzr", .num (.flt (1/4))), (cs! "vegroof", .null),
   (cs! "bldheight", .num (.int 10)), (cs! "blddensity", .num (.flt (1/2))),
   (cs! "vertohor", .num (.flt (4/5))), (cs! "zone", .str (cs! "1A")), (cs! "month", .num (.int 1)),
   (cs! "day", .num (.int 1)), (cs! "nday", .num (.int 31)), (cs! "dtsim", .num (.int 300)),
   (cs! "dtweather", .num (.int 3600)), (cs! "autosize", .bool false), (cs! "h_mix", .num (.int 1)),
   (cs! "sensocc", .num (.int 100)), (cs! "latfocc", .num (.flt (3/10))),
   (cs! "radfocc", .num (.flt (1/5))), (cs! "radfequip", .num (.flt (1/2))),
   (cs! "radflight", .num (.flt (7/10))),
   (cs! "bld", .list [.list [.str (cs! "largeoffice"), .str (cs! "pst80"), .num (.flt (2/5))],
                     .list [.str (cs! "midriseapartment"), .str (cs! "pst80"), .num (.flt (3/5))]]),
   (cs! "charlength", .num (.int 1000)), (cs! "albroad", .num (.flt (1/10))),
   (cs! "droad", .num (.flt (1/2))), (cs! "sensanth", .num (.int 20)), (cs! "kroad", .num (.int 1)),
   (cs! "croad", .num (.int 1600000)), (cs! "treecover", .num (.flt (1/10))),
   (cs! "grasscover", .num (.flt (2/5))), (cs! "vegstart", .num (.int 4)),
   (cs! "vegend", .num (.int 10)), (cs! "albveg", .num (.flt (1/4))),
   (cs! "rurvegcover", .num (.flt (9/10))), (cs! "latgrss", .num (.flt (2/5))),
   (cs! "lattree", .num (.flt (3/5))),
   (cs! "schtraffic", .list (List.replicate 3 (.list (List.replicate 24 (.num (.flt (1/5))))))),
   (cs! "h_ubl1", .num (.int 1000)), (cs! "h_ubl2", .num (.int 80)), (cs! "h_ref", .num (.int 150)),
   (cs! "h_temp", .num (.int 2)), (cs! "h_wind", .num (.int 10)), (cs! "c_circ", .num (.flt (6/5))),
   (cs! "c_exch", .num (.int 1)), (cs! "maxday", .num (.int 150)), (cs! "maxnight", .num (.int 20)),
   (cs! "windmin", .num (.int 1)), (cs! "h_obs", .num (.flt (1/10)))]

def exampleBuilding : Building :=
  ⟨.num (.flt (61/20)), .num (.flt 1), .num (.flt 2), .num (.flt (1/2)), .num (.flt (1/10)),
   .num (.flt (1/5)), .num (.flt (1/1000)), .num (.flt (1/4)), .num (.flt 3), .num (.flt (2/5)),
   cs! "AIR", .num (.flt 3), .num (.flt 200), .num (.flt (4/5)), .num (.int 293),
   .num (.flt (501/2))⟩     -- heat_cap 250.5, not the constructor default 999

def exampleElement (h : Bool) : Element :=
  ⟨.num (.flt (1/5)), .num (.flt (9/10)), .list [.num (.flt (1/10)), .num (.flt (1/20))],
   [⟨.str (cs! "concrete"), .num (.flt (13/10)), .num (.int 1800000)⟩,
    ⟨.str (cs! "gypsum"), .num (.flt (4/25)), .num (.flt 830000)⟩],
   .num (.int 0), .num (.int 293), h, .str (cs! "wall")⟩

def exampleWeek : J := .list (List.replicate 3 (.list (List.replicate 24 (.num (.flt (1/2))))))

def exampleBem : BEMDef :=
  ⟨exampleBuilding, exampleElement true, exampleElement false, exampleElement true, cs! "custom1", cs! "new"⟩

def exampleSch : SchDef :=
  ⟨exampleWeek, exampleWeek, exampleWeek, exampleWeek, exampleWeek, exampleWeek, exampleWeek,
   .num (.flt 10), .num (.flt 0), .num (.flt 8), .num (.flt (1/10)), .num (.flt (1/1000)),
   .num (.int 0), cs! "custom1", cs! "new"⟩

def exampleModel : UWG := ⟨exampleSt, some [exampleBem], some [exampleSch]⟩

theorem inR_intro {lo : Int} {hi : Option Int} {v : J} (x : Rat) (h1 : numView v = some x)
    (h2 : inRange lo hi x = true) : InR lo hi v := ⟨x, h1, h2⟩

/-- Non-vacuity of T1/T2: a model with an override (`glzr`), mixed ints and floats, and a custom
    BEMDef/SchDef pair whose `heat_cap` differs from the constructor default satisfies `UWG.Valid`. -/
example : exampleModel.Valid := by
  have hp : exampleModel.ParamsValid := paramsValidB_sound _ (by decide +kernel)
  have elemValid : ∀ h, (exampleElement h).Valid := by
    intro h
    refine ⟨inR_intro _ rfl (by decide +kernel), inR_intro _ rfl (by decide +kernel),
      ⟨_, rfl, rfl, by decide +kernel⟩, ?_, inR_intro _ rfl (by decide +kernel),
      inR_intro _ rfl (by decide +kernel)⟩
    intro m hm
    simp only [exampleElement, List.mem_cons, List.not_mem_nil, or_false] at hm
    rcases hm with rfl | rfl <;>
      exact ⟨⟨_, rfl, by decide +kernel⟩, ⟨_, rfl, by decide +kernel⟩⟩
  have bldValid : exampleBuilding.Valid := by
    refine ⟨inR_intro _ rfl (by decide +kernel), inR_intro _ rfl (by decide +kernel),
      inR_intro _ rfl (by decide +kernel), inR_intro _ rfl (by decide +kernel),
      inR_intro _ rfl (by decide +kernel), inR_intro _ rfl (by decide +kernel),
      inR_intro _ rfl (by decide +kernel), inR_intro _ rfl (by decide +kernel),
      inR_intro _ rfl (by decide +kernel), by decide, inR_intro _ rfl (by decide +kernel),
      inR_intro _ rfl (by decide +kernel), inR_intro _ rfl (by decide +kernel),
      inR_intro _ rfl (by decide +kernel), by decide⟩
  have schValid : exampleSch.Valid := by
    have hw : IsWeek exampleWeek := by unfold IsWeek; decide +kernel
    exact ⟨hw, hw, hw, hw, hw, hw, hw, inR_intro _ rfl (by decide +kernel),
      inR_intro _ rfl (by decide +kernel), inR_intro _ rfl (by decide +kernel),
      inR_intro _ rfl (by decide +kernel), inR_intro _ rfl (by decide +kernel),
      inR_intro _ rfl (by decide +kernel), by decide⟩
  refine ⟨hp, ?_⟩
  show RefsValid (some [exampleBem]) (some [exampleSch])
  refine ⟨by simp, by decide, ?_, ?_⟩
  · intro b hb
    simp only [List.mem_cons, List.not_mem_nil, or_false] at hb
    subst hb
    exact ⟨bldValid, elemValid _, elemValid _, elemValid _, by decide⟩
  · intro s hs
    simp only [List.mem_cons, List.not_mem_nil, or_false] at hs
    subst hs
    exact schValid

/-- Non-vacuity of T3: two entries and a schedule, written in another order, with a comment and a
    blank row between the blocks, upper-case keys and padded cells, form a layout of the entry list. -/
def examplePieces : List Piece :=
  [.filler [cs! "# Urban characteristics"],
   .entry (.sch [cs! " SchTraffic "] [cs! "0.2", cs! " 0.4"] [cs! "1"] [cs! "0.5", cs! "", cs! "# Sunday"]),
   .filler [],
   .entry (.scalar [cs! "bld Height", cs! " 10 ", cs! " # m"]),
   .entry (.scalar [cs! "ALBROOF", cs! ""]),
   .entry (.bld [cs! "BLD"] [[cs! "LargeOffice", cs! " Pst80", cs! "0.4"],
                              [cs! "Hospital", cs! "new", cs! ".6", cs! "# x"]])]

def exampleEntries : List (Str × J) :=
  [(cs! "bldheight", .num (.flt 10)), (cs! "albroof", .null),
   (cs! "bld", .list [.list [.str (cs! "largeoffice"), .str (cs! "pst80"), .num (.flt (2/5))],
                     .list [.str (cs! "hospital"), .str (cs! "new"), .num (.flt (3/5))]]),
   (cs! "schtraffic", .list [.list [.num (.flt (1/5)), .num (.flt (2/5))], .list [.num (.flt 1)],
                            .list [.num (.flt (1/2)), .str (cs! "null"), .str (cs! "# Sunday")]])]

def exampleLayout : Layout exampleEntries where
  pieces := examplePieces
  wf := by
    intro p hp
    simp only [examplePieces, List.mem_cons, List.not_mem_nil, or_false] at hp
    rcases hp with rfl | rfl | rfl | rfl | rfl | rfl
    · exact Or.inr ⟨_, _, rfl, by decide⟩
    · show (Entry.sem _).isSome = true; decide +kernel
    · exact Or.inl rfl
    · show (Entry.sem _).isSome = true; decide +kernel
    · show (Entry.sem _).isSome = true; decide +kernel
    · show (Entry.sem _).isSome = true; decide +kernel
  perm := by decide +kernel

example : (exampleEntries.map Prod.fst).Nodup := by decide

end Uwg.C06
