/-
C09 — Moisture is conserved and the written humidity fields are consistent.

Property theorems only (helpers in `Lemmas/Psychro.lean`; model in `Model/Psychro.lean`).
Symbols are interpreted by the real functions (`realSym`: `Real.exp`, `Real.log`, `x ^ y`).

Units as in the code: `psychrometrics(Tdb_in [K], w, P [Pa])`, `hum_from_rhum_temp(RH [%], T [°C],
P [Pa])`.  The two routines use different molar-mass ratios (0.621945 resp. 0.62198), so the
round trip reproduces the humidity ratio up to the *constant* factor 0.62198/0.621945
(relative deviation 5.63e-5) — stated, not hidden.

Outside the theorems (measured by the harness, never decided here): that the written dew point
*is* the dew point, i.e. `saturation_pressure(Tdp) ≈ pw` within the validity range of the
empirical correlation; rounding of the written columns to `epw_precision` decimals; IEEE effects.
-/
import UwgVerif.Lemmas.Psychro

namespace Uwg.C09
open Uwg

/-- The constant by which the round trip scales the humidity ratio. -/
noncomputable def ratio : ℝ := 0.62198 / 0.621945

/-- Under the physical guards (`T > 0` K, `w ≥ 0`, `P > 0` Pa) `psychrometrics` raises no
    exception. -/
theorem psychro_defined (T w P : ℝ) (hT : 0 < T) (hw : 0 ≤ w) (hP : 0 < P) :
    ∃ r, psychro realSym T w P = .ok r := by
  obtain ⟨r, h, _⟩ := psychro_ok T w P hT hw hP
  exact ⟨r, h⟩

/-- T1 (value level, *any* temperature). The relative humidity `phi` that `psychrometrics`
    reports for humidity ratio `w ≥ 0` at temperature `T` and pressure `P > 0`, fed back through
    `hum_from_rhum_temp` at the same temperature and pressure, gives `0.62198/0.621945 · w`,
    independent of `T`. -/
theorem moisture_identity (T w P : ℝ) (hw : 0 ≤ w) (hP : 0 < P) :
    humFromRhVal realSym (phiVal realSym T w P) (T - 273.15) P = ratio * w :=
  moisture_identity_val T w P hw hP

/-- T1 on the routines with their exception behaviour: for `T > 0` K both calls return, and the
    second returns `ratio · w`. -/
theorem moisture_identity_checked (T w P : ℝ) (hT : 0 < T) (hw : 0 ≤ w) (hP : 0 < P) :
    ∃ r, psychro realSym T w P = .ok r ∧ r.w = w ∧
      humFromRh realSym r.phi (T - 273.15) P = .ok (ratio * w) := by
  obtain ⟨r, h, hphi, _, hw', _⟩ := psychro_ok T w P hT hw hP
  refine ⟨r, h, hw', ?_⟩
  rw [hphi, humFromRh_ok _ _ _ (by rw [kelvin_roundtrip]; exact hT)
    (reconstructed_denominator_ne T w P hw hP), moisture_identity T w P hw hP]

/-- Corollary of T1: the reconstructed humidity ratio deviates from `w` by less than
    5.7e-5 relative (exactly: by the factor 0.62198/0.621945 − 1 = 5.6275…e-5). -/
theorem moisture_deviation (T w P : ℝ) (hw : 0 < w) (hP : 0 < P) :
    |humFromRhVal realSym (phiVal realSym T w P) (T - 273.15) P - w| < 5.7e-5 * w := by
  rw [moisture_identity T w P hw.le hP]
  have h1 : ratio * w - w = (ratio - 1) * w := by ring
  have h2 : 0 < ratio - 1 := by unfold ratio; norm_num
  have h3 : ratio - 1 < 5.7e-5 := by unfold ratio; norm_num
  rw [h1, abs_of_pos (mul_pos h2 hw)]
  exact mul_lt_mul_of_pos_right h3 hw

/-- T2. Driver + T1. For a rural row (`rh ≥ 0`, absolute temperature positive, vapour pressure
    below station pressure) and any positive canyon temperature, the step's humidity chain
    `staHum = hum_from_rhum_temp(row)`, `canHum = staHum`, `psychrometrics(canTemp, canHum, pres)`
    raises nothing; the recorded `w` is the rural humidity ratio (nothing added or removed); the
    humidity ratio implied by the recorded `(canTemp, canRHum, pres)` is `ratio ·` that of the
    rural row; and the recorded dew point is the correlation evaluated at that humidity ratio. -/
theorem written_rh_consistent (row : RuralRow ℝ) (canTemp : ℝ)
    (hrh : 0 ≤ row.rh) (hT : 0 < row.tC + 273.15) (hTc : 0 < canTemp)
    (hpw : row.rh * Real.exp (humExponent realSym (row.tC + 273.15)) / 100 < row.pres) :
    ∃ w r, canHumOf realSym row = .ok w ∧ 0 ≤ w ∧
      recordHumidity realSym row canTemp = .ok r ∧ r.w = w ∧
      humFromRh realSym r.phi (canTemp - 273.15) row.pres = .ok (ratio * w) ∧
      r.tdp = tdpVal realSym w row.pres := by
  have hX : 0 < Real.exp (humExponent realSym (row.tC + 273.15)) := Real.exp_pos _
  have hpw0 : 0 ≤ row.rh * Real.exp (humExponent realSym (row.tC + 273.15)) / 100 := by positivity
  have hP : 0 < row.pres := lt_of_le_of_lt hpw0 hpw
  have hne : row.pres - row.rh * Real.exp (humExponent realSym (row.tC + 273.15)) / 100.0 ≠ 0 := by
    rw [lit100]; linarith
  have hw : canHumOf realSym row = .ok (humFromRhVal realSym row.rh row.tC row.pres) :=
    humFromRh_ok _ _ _ hT hne
  have hw0 : 0 ≤ humFromRhVal realSym row.rh row.tC row.pres := by
    unfold humFromRhVal
    simp only [realSym_exp, lit100]
    apply div_nonneg
    · exact mul_nonneg (by norm_num) hpw0
    · linarith
  obtain ⟨r, hr, hrw, hphi⟩ := moisture_identity_checked canTemp _ row.pres hTc hw0 hP
  obtain ⟨_, htdp, _, _⟩ := psychro_fields _ _ _ _ _ hr
  refine ⟨_, r, hw, hw0, ?_, hrw, hphi, htdp⟩
  unfold recordHumidity
  rw [hw]
  exact hr

/-- T2 on the stated range: every rural row with 0 ≤ RH ≤ 100 %, −40 ≤ T ≤ 50 °C and
    P ≥ 60 kPa satisfies the guards of `written_rh_consistent` (saturation pressure stays
    below 22.1 kPa < 60 kPa), so the conclusion holds for every such row and every positive
    canyon temperature. -/
theorem written_rh_consistent_range (row : RuralRow ℝ) (canTemp : ℝ)
    (hrh0 : 0 ≤ row.rh) (hrh1 : row.rh ≤ 100) (ht0 : -40 ≤ row.tC) (ht1 : row.tC ≤ 50)
    (hp : 60000 ≤ row.pres) (hTc : 0 < canTemp) :
    ∃ w r, canHumOf realSym row = .ok w ∧ 0 ≤ w ∧
      recordHumidity realSym row canTemp = .ok r ∧ r.w = w ∧
      humFromRh realSym r.phi (canTemp - 273.15) row.pres = .ok (ratio * w) ∧
      r.tdp = tdpVal realSym w row.pres := by
  have hsat := satPa_lt (row.tC + 273.15) (by linarith) (by linarith)
  have hX : 0 < Real.exp (humExponent realSym (row.tC + 273.15)) := Real.exp_pos _
  apply written_rh_consistent row canTemp hrh0 (by linarith) hTc
  have : row.rh * Real.exp (humExponent realSym (row.tC + 273.15))
      ≤ 100 * Real.exp (humExponent realSym (row.tC + 273.15)) :=
    mul_le_mul_of_nonneg_right hrh1 hX.le
  linarith

/-- T3. At fixed temperature and pressure `P > 0` the relative humidity returned by
    `psychrometrics` is strictly increasing in the humidity ratio on `w ≥ 0`. -/
theorem phi_strictMono_w (T P w₁ w₂ : ℝ) (r₁ r₂ : PsyOut ℝ) (hP : 0 < P)
    (h1 : 0 ≤ w₁) (h12 : w₁ < w₂)
    (e₁ : psychro realSym T w₁ P = .ok r₁) (e₂ : psychro realSym T w₂ P = .ok r₂) :
    r₁.phi < r₂.phi := by
  rw [(psychro_fields _ _ _ _ _ e₁).1, (psychro_fields _ _ _ _ _ e₂).1]
  unfold phiVal
  have hs := satPressureVal_pos (T - 273.15)
  have hv := vapourPressure_strictMono (P / 1000) w₁ w₂ (by positivity) h1 h12
  have := div_lt_div_of_pos_right hv hs
  rw [lit100]
  linarith

/-- T4. At fixed pressure `P > 0` the dew point returned by `psychrometrics` is strictly
    increasing in the humidity ratio on `w > 0` (there `_pw > 0`, `alpha = log _pw`):
    `Tdp = 6.54 + 14.526α + 0.7389α² + 0.09486α³ + 0.4569·pw^0.1984` with the cubic increasing on
    all of ℝ, `log` and `x ↦ x^0.1984` increasing, and `pw = wP/(0.621945+w)` increasing in `w`. -/
theorem tdp_strictMono_w (T P w₁ w₂ : ℝ) (r₁ r₂ : PsyOut ℝ) (hP : 0 < P)
    (h1 : 0 < w₁) (h12 : w₁ < w₂)
    (e₁ : psychro realSym T w₁ P = .ok r₁) (e₂ : psychro realSym T w₂ P = .ok r₂) :
    r₁.tdp < r₂.tdp := by
  rw [(psychro_fields _ _ _ _ _ e₁).2.1, (psychro_fields _ _ _ _ _ e₂).2.1]
  unfold tdpVal
  exact dewPoint_strictMono _ _ (vapourPressure_pos (P / 1000) w₁ (by positivity) h1)
    (vapourPressure_strictMono (P / 1000) w₁ w₂ (by positivity) h1.le h12)

/-- Remark to T4: strictness cannot be extended to `w = 0`. There the code takes the
    `except ValueError` branch (`alpha = -3`) and returns the constant −32.94912 °C, which lies
    *above* the dew point of small positive humidity ratios (e.g. vapour pressure e⁻¹⁰ kPa). -/
theorem tdp_zero_branch :
    dewPoint realSym 0 = -32.94912 ∧ dewPoint realSym (Real.exp (-10)) < dewPoint realSym 0 := by
  have h0 : dewPoint realSym 0 = -32.94912 := by
    unfold dewPoint dewAlpha
    simp only [realSym_rpow, le_refl, if_true]
    rw [Real.zero_rpow (by norm_num)]
    norm_num
  refine ⟨h0, ?_⟩
  rw [h0]
  have hp : 0 < Real.exp (-10) := Real.exp_pos _
  have hle : Real.exp (-10) ^ (0.1984 : ℝ) ≤ 1 :=
    Real.rpow_le_one hp.le (Real.exp_le_one_iff.mpr (by norm_num)) (by norm_num)
  unfold dewPoint dewAlpha
  simp only [realSym_rpow, realSym_log, if_neg (not_le.mpr hp), Real.log_exp]
  norm_num
  linarith

/-- `saturation_pressure` is strictly increasing on −40 … 50 °C. -/
theorem satPressure_strictMono (t₁ t₂ : ℝ) (h0 : -40 ≤ t₁) (h12 : t₁ < t₂) (h2 : t₂ ≤ 50) :
    satPressureVal realSym t₁ < satPressureVal realSym t₂ := by
  unfold satPressureVal
  simp only [realSym_exp]
  have := satExponent_strictMono (t₁ + 273.15) (t₂ + 273.15) (by linarith) (by linarith)
    (by linarith)
  exact div_lt_div_of_pos_right (Real.exp_lt_exp.mpr this) (by norm_num)

/-- T5. At fixed humidity ratio `w > 0` and pressure `P > 0` the relative humidity returned by
    `psychrometrics` strictly decreases with temperature on 233.15 … 323.15 K (−40 … 50 °C). -/
theorem phi_strictAnti_T (T₁ T₂ w P : ℝ) (r₁ r₂ : PsyOut ℝ) (hw : 0 < w) (hP : 0 < P)
    (h0 : 233.15 ≤ T₁) (h12 : T₁ < T₂) (h2 : T₂ ≤ 323.15)
    (e₁ : psychro realSym T₁ w P = .ok r₁) (e₂ : psychro realSym T₂ w P = .ok r₂) :
    r₂.phi < r₁.phi := by
  rw [(psychro_fields _ _ _ _ _ e₁).1, (psychro_fields _ _ _ _ _ e₂).1]
  unfold phiVal
  have hs1 := satPressureVal_pos (T₁ - 273.15)
  have hs := satPressure_strictMono (T₁ - 273.15) (T₂ - 273.15) (by linarith) (by linarith)
    (by linarith)
  have hv := vapourPressure_pos (P / 1000) w (by positivity) hw
  have := div_lt_div_of_pos_left hv hs1 hs
  rw [lit100]
  linarith

/-- Non-vacuity: a concrete rural row (RH 80 %, 27 °C, 100.8 kPa) and canyon temperature 301 K
    satisfy all hypotheses of `written_rh_consistent_range`, and `psychrometrics` is defined at
    the monotonicity theorems' inputs. -/
example : ∃ w r, canHumOf realSym ⟨80, 27, 100800⟩ = .ok w ∧ 0 ≤ w ∧
    recordHumidity realSym ⟨80, 27, 100800⟩ 301 = .ok r ∧ r.w = w ∧
    humFromRh realSym r.phi (301 - 273.15) 100800 = .ok (ratio * w) ∧
    r.tdp = tdpVal realSym w 100800 :=
  written_rh_consistent_range ⟨80, 27, 100800⟩ 301 (by norm_num) (by norm_num) (by norm_num)
    (by norm_num) (by norm_num) (by norm_num)

example : ∃ r₁ r₂, psychro realSym 300 0.01 101325 = .ok r₁ ∧
    psychro realSym 300 0.02 101325 = .ok r₂ ∧ r₁.phi < r₂.phi ∧ r₁.tdp < r₂.tdp := by
  obtain ⟨r₁, e₁⟩ := psychro_defined 300 0.01 101325 (by norm_num) (by norm_num) (by norm_num)
  obtain ⟨r₂, e₂⟩ := psychro_defined 300 0.02 101325 (by norm_num) (by norm_num) (by norm_num)
  exact ⟨r₁, r₂, e₁, e₂,
    phi_strictMono_w 300 101325 0.01 0.02 r₁ r₂ (by norm_num) (by norm_num) (by norm_num) e₁ e₂,
    tdp_strictMono_w 300 101325 0.01 0.02 r₁ r₂ (by norm_num) (by norm_num) (by norm_num) e₁ e₂⟩

end Uwg.C09
