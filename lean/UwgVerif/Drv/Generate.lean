/-
Line-protocol driver for composition E (`Model/Generate.lean`): `_read_epw ; _compute_input ; _hvac_autosize` on the
header rows and data rows of a rural file, the parameters, the stock as `_compute_BEM` delivers it and the numbers of
`z_meso.txt`, evaluated at ℚ with the shared stub symbols (`stubQ`).

Strings travel percent-encoded as in Drv/Pipeline.lean; buildings, schedules, elements, configuration and state
travel as in Drv/Step.lean (the parsing / printing code below is a copy of that driver's: a driver file cannot import
another driver, both define `main`).

Ops
  gen  hdr=<rows> rows=<rows> zm=[…] gp=[17 rationals] gq=[16 rationals] gpn=[month;day;nday;dtsim;vegstart;vegend;autosize]
       latanth=<none|q> traffic=<table> tot=[r_glaze;SHGC;alb_wall] nb= b<i>… nsch= sch<i>…
        → ok <cfg> <state> <extra>  |  err <stage>
  main (the arguments of gen) hours= p=
        → ok <enc text> | err <stage>       (`uwgHours`: generate(); simulate() [first hours]; write_epw(), nothing handed in)
  rsm  zm=[…] h=[refHeight;tempHeight;nightBLHeight;windHeight;dayBLHeight] height= t= p=
        → ok <z dz z0r disp levels profiles> | err <class>      (`RSMDef.__init__` alone, real constants)
  stages: header-index header-value weather-<class> <class>@<stage> unsupported-dtweather
-/
import UwgVerif.Drv.Proto
import UwgVerif.Model.Generate
open Uwg Uwg.Proto Uwg.Step Uwg.Csv Uwg.Gen

/-! ### percent-encoding (as Drv/C01.lean) -/

def hexDigit (n : Nat) : Char :=
  if n < 10 then Char.ofNat (48 + n) else Char.ofNat (55 + n)

def hexVal? (c : Char) : Option Nat :=
  if '0' ≤ c ∧ c ≤ '9' then some (c.toNat - 48)
  else if 'A' ≤ c ∧ c ≤ 'F' then some (c.toNat - 55)
  else if 'a' ≤ c ∧ c ≤ 'f' then some (c.toNat - 87)
  else none

def plain (c : Char) : Bool := c.isAlphanum || c = '.' || c = '_' || c = '-'

def enc (l : List Char) : String :=
  String.ofList (l.flatMap fun c =>
    if plain c then [c] else ['%', hexDigit (c.toNat / 16 % 16), hexDigit (c.toNat % 16)])

def decAux : List Char → Option (List Char)
  | [] => some []
  | '%' :: a :: b :: rest => do
    let x ← hexVal? a
    let y ← hexVal? b
    let r ← decAux rest
    some (Char.ofNat (16 * x + y) :: r)
  | '%' :: _ => none
  | c :: rest => (decAux rest).map (c :: ·)

def dec? (s : String) : Option (List Char) := decAux s.toList

def decRow? (s : String) : Option Row :=
  match s.splitOn "|" with
  | [n, body] => do
    let k ← n.toNat?
    if k = 0 then (if body.isEmpty then some [] else none) else
    let cells ← (body.splitOn ";").mapM dec?
    if cells.length = k then some cells else none
  | _ => none

def decRows? (s : String) : Option (List Row) :=
  match s.splitOn ":" with
  | [n, body] => do
    let k ← n.toNat?
    if k = 0 then (if body.isEmpty then some [] else none) else
    let rows ← (body.splitOn "/").mapM decRow?
    if rows.length = k then some rows else none
  | _ => none


/-- `[a;b|c;d|…]` → rows (`[]` → no row; an empty row is written as nothing between the bars). -/
def parseTable? (s : String) : Option (List (List ℚ)) :=
  if s.startsWith "[" && s.endsWith "]" then
    let inner := ((s.drop 1).toString.dropEnd 1).toString
    if inner.isEmpty then some []
    else (inner.splitOn "|").mapM (fun row =>
      if row.isEmpty then some [] else (row.splitOn ";").mapM parseRat?)
  else none

def Uwg.Proto.Args.table? (a : Args) (k : String) : Option (List (List ℚ)) := a.get? k >>= parseTable?

/-- `none` or a rational. -/
def Uwg.Proto.Args.orat? (a : Args) (k : String) : Option (Option ℚ) :=
  match a.get? k with
  | some "none" => some none
  | some v => (parseRat? v).map some
  | none => none

def fmtORat : Option ℚ → String
  | none => "none"
  | some x => fmtRat x

def parsePar (a : Args) : Option (Par ℚ) := do
  match ← a.rats? "par" with
  | [dayBL, windHeight, circCoeff, dayThreshold, treeFLat, grassFLat, vegAlbedo, nightSetStart,
     nightSetEnd, windMin, exCoeff, g, cp, vk, r, lv, waterDens] =>
    pure { dayBLHeight := dayBL, windHeight := windHeight, circCoeff := circCoeff,
           dayThreshold := dayThreshold, treeFLat := treeFLat, grassFLat := grassFLat,
           vegAlbedo := vegAlbedo, vegStart := ← a.nat? "vegStart", vegEnd := ← a.nat? "vegEnd",
           nightSetStart := nightSetStart, nightSetEnd := nightSetEnd, windMin := windMin,
           exCoeff := exCoeff, g := g, cp := cp, vk := vk, r := r, lv := lv, waterDens := waterDens }
  | _ => none

def parseSched (a : Args) (i : Nat) : Option (Sched ℚ) := do
  let p := s!"sch{i}"
  match ← a.rats? (p ++ "s") with
  | [qElec, qGas, qLight, nOcc, vent, vSwh] =>
    pure { elec := ← a.table? (p ++ "elec"), gas := ← a.table? (p ++ "gas"),
           light := ← a.table? (p ++ "light"), occ := ← a.table? (p ++ "occ"),
           cool := ← a.table? (p ++ "cool"), heat := ← a.table? (p ++ "heat"),
           swh := ← a.table? (p ++ "swh"), qElec := qElec, qGas := qGas, qLight := qLight,
           nOcc := nOcc, vent := vent, vSwh := vSwh }
  | _ => none

def parseCfg (a : Args) : Option (Cfg ℚ) := do
  let par ← parsePar a
  let nsch ← a.nat? "nsch"
  let sch ← (List.range nsch).mapM (parseSched a)
  match ← a.rats? "sim", ← a.rats? "ucmc", ← a.rats? "rsmc", ← a.rats? "ublc" with
  | [dt, lat, lon, gmt, sigma, sensanth, sensocc, latfocc, radflight, radfequip],
    [bldHeight, bldDensity, verToHor, treeCoverage, vegcover, roadShad, canAspect, roadConf,
     wallConf, facArea, roadArea, roofArea, z0u, lDisp, albWall, hMix],
    [z0r, disp],
    [dayBL, nightBL, orthLength, urbArea, perimeter, paralLength, charLength] =>
    pure { par := par, dt := dt, inobis := ← a.nats? "inobis", lat := lat, lon := lon, gmt := gmt,
           sigma := sigma, sensanth := sensanth, schtraffic := ← a.table? "traffic",
           sensocc := sensocc, latfocc := latfocc, radflight := radflight, radfequip := radfequip,
           sch := sch, bldHeight := bldHeight, bldDensity := bldDensity, verToHor := verToHor,
           treeCoverage := treeCoverage, vegcover := vegcover, roadShad := roadShad,
           canAspect := canAspect, roadConf := roadConf, wallConf := wallConf, facArea := facArea,
           roadArea := roadArea, roofArea := roofArea, z0u := z0u, lDisp := lDisp,
           albWall := albWall, hMix := hMix, latAnthrop := ← a.orat? "latAnthrop",
           nzref := ← a.nat? "nzref", nzfor := ← a.nat? "nzfor", z := ← a.rats? "z",
           dz := ← a.rats? "dz", z0r := z0r, disp := disp, ublDayBLHeight := dayBL,
           ublNightBLHeight := nightBL, orthLength := orthLength, urbArea := urbArea,
           perimeter := perimeter, paralLength := paralLength, charLength := charLength,
           nightCount := Air.loopCount charLength paralLength }
  | _, _, _, _ => none

def mkLayers : List ℚ → List ℚ → List ℚ → List ℚ → List (Layer ℚ)
  | d :: ds, k :: ks, c :: cs, t :: ts => { d := d, k := k, c := c, t := t } :: mkLayers ds ks cs ts
  | _, _, _, _ => []

def parseElem (a : Args) (p : String) : Option (Elem ℚ) := do
  let cover ← match a.get? (p ++ "cover") with
    | some "none" => some none
    | some v => match parseRatList? v with
      | some [g, t] => some (some (g, t))
      | _ => none
    | none => none
  let d ← a.rats? (p ++ "d")
  let k ← a.rats? (p ++ "k")
  let c ← a.rats? (p ++ "cv")
  let t ← a.rats? (p ++ "t")
  if d.length ≠ t.length ∨ k.length ≠ t.length ∨ c.length ≠ t.length then none
  match ← a.rats? (p ++ "c") with
  | [albedo, emissivity, vegcoverage, solRec, infra, aeroCond, solAbs, lat, sens, flux, tExt, tInt] =>
    pure { horizontal := (← a.nat? (p ++ "h")) ≠ 0, albedo := albedo, emissivity := emissivity,
           vegcoverage := vegcoverage, roadCover := cover, layers := mkLayers d k c t,
           solRec := solRec, infra := infra, aeroCond := aeroCond, solAbs := solAbs, lat := lat,
           sens := sens, flux := flux, tExt := tExt, tInt := tInt }
  | _ => none

def fmtElem (p : String) (e : Elem ℚ) : String :=
  s!"{p}c=" ++ fmtRatList [e.albedo, e.emissivity, e.vegcoverage, e.solRec, e.infra, e.aeroCond,
    e.solAbs, e.lat, e.sens, e.flux, e.tExt, e.tInt] ++
  s!" {p}h={if e.horizontal then 1 else 0} {p}cover=" ++
  (match e.roadCover with
   | none => "none"
   | some (g, t) => fmtRatList [g, t]) ++
  s!" {p}d=" ++ fmtRatList (e.layers.map (·.d)) ++ s!" {p}k=" ++ fmtRatList (e.layers.map (·.k)) ++
  s!" {p}cv=" ++ fmtRatList (e.layers.map (·.c)) ++ s!" {p}t=" ++ fmtRatList (e.layers.map (·.t))

def bemOutList (o : Hvac.BemOut ℚ) : List ℚ :=
  [o.nFloor, o.intHeat, o.sensCoolDemand, o.sensHeatDemand, o.dehumDemand, o.Qhvac, o.Qheat,
   o.coolConsump, o.heatConsump, o.sensWaste, o.latWaste, o.indoorTemp, o.indoorHum, o.indoorRhum,
   o.fluxWall, o.fluxRoof, o.fluxMass, o.fluxSolar, o.fluxWindow, o.fluxInterior, o.fluxInfil,
   o.fluxVent, o.elecTotal, o.gasTotal]

def parseBemOut (s : String) : Option (Option (Hvac.BemOut ℚ)) :=
  if s = "none" then some none else
  match parseRatList? s with
  | some [nFloor, intHeat, sensCoolDemand, sensHeatDemand, dehumDemand, qhvac, qheat, coolConsump,
          heatConsump, sensWaste, latWaste, indoorTemp, indoorHum, indoorRhum, fluxWall, fluxRoof,
          fluxMass, fluxSolar, fluxWindow, fluxInterior, fluxInfil, fluxVent, elecTotal, gasTotal] =>
    some (some { nFloor := nFloor, intHeat := intHeat, sensCoolDemand := sensCoolDemand,
                 sensHeatDemand := sensHeatDemand, dehumDemand := dehumDemand, Qhvac := qhvac,
                 Qheat := qheat, coolConsump := coolConsump, heatConsump := heatConsump,
                 sensWaste := sensWaste, latWaste := latWaste, indoorTemp := indoorTemp,
                 indoorHum := indoorHum, indoorRhum := indoorRhum, fluxWall := fluxWall,
                 fluxRoof := fluxRoof, fluxMass := fluxMass, fluxSolar := fluxSolar,
                 fluxWindow := fluxWindow, fluxInterior := fluxInterior, fluxInfil := fluxInfil,
                 fluxVent := fluxVent, elecTotal := elecTotal, gasTotal := gasTotal })
  | _ => none

def parseBld (a : Args) (i : Nat) : Option (Bld ℚ) := do
  let p := s!"b{i}"
  let cond ← match a.get? (p ++ "cond") with
    | some "AIR" => some Hvac.Cond.air
    | some "WATER" => some Hvac.Cond.water
    | _ => none
  let out ← (a.get? (p ++ "out")) >>= parseBemOut
  match ← a.rats? (p ++ "c"), ← a.rats? (p ++ "s") with
  | [frac, flArea, floorHeight, infil, glazingRatio, uValue, shgc, copAdj, coolcap, heateff, heatCap],
    [elec, light, nocc, qocc, swh, gas, tWallex, tWallin, tRoofex, tRoofin, elecTotal, coolSetDay,
     coolSetNight, heatSetDay, heatSetNight, vent, intHeatDay, intHeatNight, intHeatFRad,
     intHeatFLat, indoorTemp, indoorHum] =>
    pure { frac := frac, flArea := flArea, floorHeight := floorHeight, infil := infil,
           glazingRatio := glazingRatio, uValue := uValue, shgc := shgc, cond := cond,
           copAdj := copAdj, coolcap := coolcap, heateff := heateff, heatCap := heatCap,
           mass := ← parseElem a (p ++ "mass"), wall := ← parseElem a (p ++ "wall"),
           roof := ← parseElem a (p ++ "roof"), elec := elec, light := light, nocc := nocc,
           qocc := qocc, swh := swh, gas := gas, tWallex := tWallex, tWallin := tWallin,
           tRoofex := tRoofex, tRoofin := tRoofin, elecTotal := elecTotal, coolSetDay := coolSetDay,
           coolSetNight := coolSetNight, heatSetDay := heatSetDay, heatSetNight := heatSetNight,
           vent := vent, intHeatDay := intHeatDay, intHeatNight := intHeatNight,
           intHeatFRad := intHeatFRad, intHeatFLat := intHeatFLat, indoorTemp := indoorTemp,
           indoorHum := indoorHum, latWaste := ← a.orat? (p ++ "lw"), out := out }
  | _, _ => none

def fmtBld (i : Nat) (b : Bld ℚ) : String :=
  let p := s!"b{i}"
  s!"{p}c=" ++ fmtRatList [b.frac, b.flArea, b.floorHeight, b.infil, b.glazingRatio, b.uValue,
    b.shgc, b.copAdj, b.coolcap, b.heateff, b.heatCap] ++
  s!" {p}cond=" ++ (match b.cond with | .air => "AIR" | .water => "WATER") ++
  s!" {p}s=" ++ fmtRatList [b.elec, b.light, b.nocc, b.qocc, b.swh, b.gas, b.tWallex, b.tWallin,
    b.tRoofex, b.tRoofin, b.elecTotal, b.coolSetDay, b.coolSetNight, b.heatSetDay, b.heatSetNight,
    b.vent, b.intHeatDay, b.intHeatNight, b.intHeatFRad, b.intHeatFLat, b.indoorTemp, b.indoorHum] ++
  s!" {p}lw=" ++ fmtORat b.latWaste ++
  s!" {p}out=" ++ (match b.out with | none => "none" | some o => fmtRatList (bemOutList o)) ++
  " " ++ fmtElem (p ++ "mass") b.mass ++ " " ++ fmtElem (p ++ "wall") b.wall ++
  " " ++ fmtElem (p ++ "roof") b.roof

def parseUcm (a : Args) : Option (Ucm ℚ) := do
  match ← a.rats? "ucm" with
  | [canTemp, roadTemp, canHum, canWind, ustar, ustarMod, uExch, turbU, turbV, turbW, sensHeat,
     sensAnthrop, treeSensHeat, treeLatHeat, solRecRoof, solRecRoad, solRecWall, qRoof, qWall,
     qWindow, qRoad, qHvac, qTraffic, qUbl, qVent, elecTotal, gasTotal, roofTemp, wallTemp] =>
    pure { road := ← parseElem a "road", canTemp := canTemp, roadTemp := roadTemp, canHum := canHum,
           canWind := canWind, ustar := ustar, ustarMod := ustarMod, uExch := uExch, turbU := turbU,
           turbV := turbV, turbW := turbW, sensHeat := sensHeat, latHeat := ← a.orat? "latHeat",
           windProf := ← a.rats? "uwp", sensAnthrop := sensAnthrop, treeSensHeat := treeSensHeat,
           treeLatHeat := treeLatHeat, solRecRoof := solRecRoof, solRecRoad := solRecRoad,
           solRecWall := solRecWall, qRoof := qRoof, qWall := qWall, qWindow := qWindow,
           qRoad := qRoad, qHvac := qHvac, qTraffic := qTraffic, qUbl := qUbl, qVent := qVent,
           elecTotal := elecTotal, gasTotal := gasTotal, roofTemp := roofTemp, wallTemp := wallTemp,
           canRHum := ← a.orat? "canRHum", tdp := ← a.orat? "tdp" }
  | _ => none

def fmtUcm (u : Ucm ℚ) : String :=
  "ucm=" ++ fmtRatList [u.canTemp, u.roadTemp, u.canHum, u.canWind, u.ustar, u.ustarMod, u.uExch,
    u.turbU, u.turbV, u.turbW, u.sensHeat, u.sensAnthrop, u.treeSensHeat, u.treeLatHeat,
    u.solRecRoof, u.solRecRoad, u.solRecWall, u.qRoof, u.qWall, u.qWindow, u.qRoad, u.qHvac,
    u.qTraffic, u.qUbl, u.qVent, u.elecTotal, u.gasTotal, u.roofTemp, u.wallTemp] ++
  " latHeat=" ++ fmtORat u.latHeat ++ " uwp=" ++ fmtRatList u.windProf ++
  " canRHum=" ++ fmtORat u.canRHum ++ " tdp=" ++ fmtORat u.tdp ++ " " ++ fmtElem "road" u.road

def parseForc (l : List ℚ) : Option (Forcing ℚ) :=
  match l with
  | [deepTemp, waterTemp, infra, wind, uDir, hum, pres, temp, rHum, prec, dif, dir] =>
    some { deepTemp := deepTemp, waterTemp := waterTemp, infra := infra, wind := wind, uDir := uDir,
           hum := hum, pres := pres, temp := temp, rHum := rHum, prec := prec, dif := dif,
           dir := dir }
  | _ => none

def fmtForc (f : Forcing ℚ) : String :=
  "forc=" ++ fmtRatList [f.deepTemp, f.waterTemp, f.infra, f.wind, f.uDir, f.hum, f.pres, f.temp,
    f.rHum, f.prec, f.dif, f.dir]

def parseRsm (a : Args) : Option (Rsm.VdmOut ℚ) := do
  pure { st := { tempProf := ← a.rats? "tempProf", presProf := ← a.rats? "presProf",
                 tempRealProf := ← a.rats? "tempRealProf", densityProfC := ← a.rats? "densityProfC",
                 densityProfS := ← a.rats? "densityProfS", windProf := ← a.rats? "windProf" },
         ublPres := ← a.rat? "ublPres", dlu := ← a.rats? "dlu", dld := ← a.rats? "dld" }

def fmtRsm (r : Rsm.VdmOut ℚ) : String :=
  "tempProf=" ++ fmtRatList r.st.tempProf ++ " presProf=" ++ fmtRatList r.st.presProf ++
  " tempRealProf=" ++ fmtRatList r.st.tempRealProf ++ " densityProfC=" ++
  fmtRatList r.st.densityProfC ++ " densityProfS=" ++ fmtRatList r.st.densityProfS ++
  " windProf=" ++ fmtRatList r.st.windProf ++ " ublPres=" ++ fmtRat r.ublPres ++
  " dlu=" ++ fmtRatList r.dlu ++ " dld=" ++ fmtRatList r.dld

def parseState (a : Args) : Option (State ℚ) := do
  let nb ← a.nat? "nb"
  let blds ← (List.range nb).mapM (parseBld a)
  match ← a.rats? "ubl" with
  | [ublTemp, advHeat, sensHeat] =>
    pure { forc := ← (a.rats? "forc") >>= parseForc, ucm := ← parseUcm a,
           rural := ← parseElem a "rural", blds := blds,
           ubl := { ublTemp := ublTemp, cells := ← a.rats? "cells", advHeat := advHeat,
                    sensHeat := sensHeat },
           rsm := ← parseRsm a }
  | _ => none

def fmtBlds (bs : List (Bld ℚ)) : String :=
  " ".intercalate ((List.range bs.length).zip bs |>.map (fun p => fmtBld p.1 p.2))

def fmtState (s : State ℚ) : String :=
  fmtForc s.forc ++ " " ++ fmtUcm s.ucm ++ " " ++ fmtElem "rural" s.rural ++
  s!" nb={s.blds.length} " ++ fmtBlds s.blds ++
  " ubl=" ++ fmtRatList [s.ubl.ublTemp, s.ubl.advHeat, s.ubl.sensHeat] ++
  " cells=" ++ fmtRatList s.ubl.cells ++ " " ++ fmtRsm s.rsm


/-! ### configuration, extras -/

def fmtTable (t : List (List ℚ)) : String :=
  "[" ++ "|".intercalate (t.map fun row => ";".intercalate (row.map fmtRat)) ++ "]"

def fmtSched (i : Nat) (s : Sched ℚ) : String :=
  let p := s!"sch{i}"
  s!"{p}s=" ++ fmtRatList [s.qElec, s.qGas, s.qLight, s.nOcc, s.vent, s.vSwh] ++
  s!" {p}elec=" ++ fmtTable s.elec ++ s!" {p}gas=" ++ fmtTable s.gas ++ s!" {p}light=" ++ fmtTable s.light ++
  s!" {p}occ=" ++ fmtTable s.occ ++ s!" {p}cool=" ++ fmtTable s.cool ++ s!" {p}heat=" ++ fmtTable s.heat ++
  s!" {p}swh=" ++ fmtTable s.swh

/-- the text `harness/props/step.py` `ser_cfg` produces -/
def fmtCfg (C : Cfg ℚ) : String :=
  let p := C.par
  "par=" ++ fmtRatList [p.dayBLHeight, p.windHeight, p.circCoeff, p.dayThreshold, p.treeFLat, p.grassFLat,
    p.vegAlbedo, p.nightSetStart, p.nightSetEnd, p.windMin, p.exCoeff, p.g, p.cp, p.vk, p.r, p.lv, p.waterDens] ++
  s!" vegStart={p.vegStart} vegEnd={p.vegEnd}" ++
  " sim=" ++ fmtRatList [C.dt, C.lat, C.lon, C.gmt, C.sigma, C.sensanth, C.sensocc, C.latfocc, C.radflight,
    C.radfequip] ++
  " inobis=" ++ fmtNatList C.inobis ++ " traffic=" ++ fmtTable C.schtraffic ++ s!" nsch={C.sch.length}" ++
  String.join (((List.range C.sch.length).zip C.sch).map fun q => " " ++ fmtSched q.1 q.2) ++
  " ucmc=" ++ fmtRatList [C.bldHeight, C.bldDensity, C.verToHor, C.treeCoverage, C.vegcover, C.roadShad,
    C.canAspect, C.roadConf, C.wallConf, C.facArea, C.roadArea, C.roofArea, C.z0u, C.lDisp, C.albWall, C.hMix] ++
  " latAnthrop=" ++ fmtORat C.latAnthrop ++ " rsmc=" ++ fmtRatList [C.z0r, C.disp] ++
  s!" nzref={C.nzref} nzfor={C.nzfor}" ++ " z=" ++ fmtRatList C.z ++ " dz=" ++ fmtRatList C.dz ++
  " ublc=" ++ fmtRatList [C.ublDayBLHeight, C.ublNightBLHeight, C.orthLength, C.urbArea, C.perimeter,
    C.paralLength, C.charLength]

def fmtONat : Option Nat → String
  | none => "none"
  | some n => toString n

def geoList (G : GeoParam) : List ℚ :=
  [G.dayBLHeight, G.nightBLHeight, G.refHeight, G.tempHeight, G.windHeight, G.circCoeff, G.dayThreshold,
   G.nightThreshold, G.treeFLat, G.grassFLat, G.vegAlbedo, G.nightSetStart, G.nightSetEnd, G.windMin, G.wgmax,
   G.exCoeff, G.maxdx, G.g, G.cp, G.vk, G.r, G.rv, G.lv, G.pi, G.sigma, G.waterDens, G.lvtt, G.tt, G.estt, G.cl,
   G.cpv, G.b, G.cm, G.colburn]

def fmtExtra (C : Cfg ℚ) (x : Extra) : String :=
  "geo=" ++ fmtRatList (geoList x.geo) ++ s!" geoVeg=[{x.geo.vegStart};{x.geo.vegEnd}]" ++
  s!" simt=[{x.sim.julian};{x.sim.nt};{x.sim.timeInitial};{x.sim.timeFinal}] " ++
  fmtElem "xroad" x.road ++
  " soil1=" ++ fmtONat x.soilIndex1 ++ " soil2=" ++ fmtONat x.soilIndex2 ++ " nz0=" ++ fmtONat x.nz0 ++
  " nz10=" ++ fmtONat x.nz10 ++ " nzi=" ++ fmtONat x.nzi ++
  " ucmx=" ++ fmtRatList [x.facAbsor, x.roadAbsor, x.ublWind, x.bldWidth, x.canWidth] ++
  " usm=" ++ fmtRatList [x.usmZ0r, x.usmDisp] ++ " nightCount=" ++ fmtONat C.nightCount

/-! ### arguments -/

def parseParams (a : Args) : Option GenParams := do
  match ← a.rats? "gp", ← a.rats? "gq", ← a.nats? "gpn" with
  | [dtweather, sensocc, latfocc, radfocc, radfequip, radflight, h_ubl1, h_ubl2, h_ref, h_temp, h_wind, c_circ,
     c_exch, maxday, maxnight, windmin, h_obs],
    [bldheight, h_mix, blddensity, vertohor, charlength, albroad, droad,
     sensanth, grasscover, treecover, albveg, rurvegcover, latgrss, lattree, kroad, croad],
    [month, day, nday, dtsim, vegstart, vegend, asz] =>
    pure { month := month, day := day, nday := nday, dtsim := dtsim, dtweather := dtweather,
           autosize := asz ≠ 0, sensocc := sensocc, latfocc := latfocc, radfocc := radfocc,
           radfequip := radfequip, radflight := radflight, h_ubl1 := h_ubl1, h_ubl2 := h_ubl2, h_ref := h_ref,
           h_temp := h_temp, h_wind := h_wind, c_circ := c_circ, c_exch := c_exch, maxday := maxday,
           maxnight := maxnight, windmin := windmin, h_obs := h_obs, bldheight := bldheight, h_mix := h_mix,
           blddensity := blddensity, vertohor := vertohor, charlength := charlength, albroad := albroad,
           droad := droad, sensanth := sensanth, latanth := ← a.orat? "latanth", grasscover := grasscover,
           treecover := treecover, vegstart := vegstart, vegend := vegend, albveg := albveg,
           rurvegcover := rurvegcover, latgrss := latgrss, lattree := lattree,
           schtraffic := ← a.table? "traffic", kroad := kroad, croad := croad }
  | _, _, _ => none

def parseStock (a : Args) : Option Stock := do
  let nb ← a.nat? "nb"
  let blds ← (List.range nb).mapM (parseBld a)
  let nsch ← a.nat? "nsch"
  let sch ← (List.range nsch).mapM (parseSched a)
  match ← a.rats? "tot" with
  | [rg, sh, aw] => pure { blds := blds, sch := sch, rGlaze := rg, shgc := sh, albWall := aw }
  | _ => none

def stepCls : Step.Err → String
  | .zerodiv => "zerodiv" | .index => "index" | .value => "value"
  | .fatal => "fatal" | .assert => "assert" | .type => "type"
  | .unbound => "unbound"

def pipeStage : Pipeline.PipeErr → String
  | .header .index => "err header-index"
  | .header .value => "err header-value"
  | .timestep .timestep => "err timestep"
  | .timestep .zerodiv => "err zerodiv"
  | .weather .index => "err weather-index"
  | .weather .type => "err weather-type"
  | .weather .zerodiv => "err weather-zerodiv"
  | .weather .value => "err weather-value"
  | .initWind => "err init-type"
  | .column .index => "err column-index"
  | .column .refused => "err refused"
  | .sim (.phys e) => "err sim-" ++ stepCls e
  | .sim .index => "err sim-index"
  | .sim (.drv _) => "err sim-driver"
  | .write => "err write"

def clsName : Cls → String
  | .zerodiv => "zerodiv" | .index => "index" | .value => "value" | .assert => "assert" | .type => "type"
  | .timestep => "timestep" | .refused => "refused" | .nzfor => "nzfor"

def stageName : Stage → String
  | .simparam => "simparam" | .input => "input" | .ubl => "ubl" | .material => "material"
  | .element => "element" | .rsm => "rsm" | .ucm => "ucm" | .procmat => "procmat"

def wErrName : Weather.Err → String
  | .index => "index" | .type => "type" | .zerodiv => "zerodiv" | .value => "value"

def mainErrName : MainErr → String
  | .header .index => "err header-index"
  | .header .value => "err header-value"
  | .bem e => "err bem-" ++ e.name
  | .weather e => "err weather-" ++ wErrName e
  | .gen e => "err " ++ clsName e.cls ++ "@" ++ stageName e.stage
  | .dtweather => "err unsupported-dtweather"
  | .pipe e => pipeStage e

def fmtProfiles (s : Rsm.VdmState ℚ) : String :=
  "tempProf=" ++ fmtRatList s.tempProf ++ " presProf=" ++ fmtRatList s.presProf ++
  " tempRealProf=" ++ fmtRatList s.tempRealProf ++ " densityProfC=" ++ fmtRatList s.densityProfC ++
  " densityProfS=" ++ fmtRatList s.densityProfS ++ " windProf=" ++ fmtRatList s.windProf

def genDrv (line : String) : String :=
  let (op, a) := parseLine line
  match op with
  | "gen" =>
    match parseParams a, parseStock a, a.get? "hdr" >>= decRows?, a.get? "rows" >>= decRows?, a.rats? "zm" with
    | some P, some stock, some hdr, some rows, some zm =>
      match generateFile stubQ P stock zm hdr rows with
      | .ok x => "ok " ++ fmtCfg x.cfg ++ " " ++ fmtState x.state ++ " " ++ fmtExtra x.cfg x.extra
      | .error e => mainErrName e
    | none, _, _, _, _ => "bad-params"
    | _, none, _, _, _ => "bad-stock"
    | _, _, _, _, _ => "bad-args"
  | "main" =>
    match parseParams a, parseStock a, a.get? "hdr" >>= decRows?, a.get? "rows" >>= decRows?, a.rats? "zm",
          a.nat? "hours", a.nat? "p" with
    | some P, some stock, some hdr, some rows, some zm, some hours, some p =>
      match uwgHours stubQ P stock zm hours p hdr rows with
      | .ok t => "ok " ++ enc t
      | .error e => mainErrName e
    | _, _, _, _, _, _, _ => "bad-args"
  | "rsm" =>
    match a.rats? "zm", a.rats? "h", a.rat? "height", a.rat? "t", a.rat? "p" with
    | some zm, some [href, htemp, hnight, hwind, hday], some height, some t, some p =>
      let P0 : GenParams :=
        { month := 1, day := 1, nday := 1, dtsim := 300, dtweather := 3600, autosize := false, sensocc := 0,
          latfocc := 0, radfocc := 0, radfequip := 0, radflight := 0, h_ubl1 := hday, h_ubl2 := hnight,
          h_ref := href, h_temp := htemp, h_wind := hwind, c_circ := 0, c_exch := 0, maxday := 0, maxnight := 0,
          windmin := 0, h_obs := height, bldheight := 0, h_mix := 0, blddensity := 0, vertohor := 0,
          charlength := 0, albroad := 0, droad := 0, sensanth := 0, latanth := none, grasscover := 0,
          treecover := 0, vegstart := 1, vegend := 1, albveg := 0, rurvegcover := 0, latgrss := 0, lattree := 0,
          schtraffic := [], kroad := 0, croad := 0 }
      match rsmInit stubQ (rsmParamOf P0) P0.h_ref P0.h_ubl2 height t p zm with
      | .error e => "err " ++ clsName e.cls
      | .ok r =>
        "ok z=" ++ fmtRatList r.z ++ " dz=" ++ fmtRatList r.dz ++ " rsmc=" ++ fmtRatList [r.z0r, r.disp] ++
        " nz0=" ++ fmtONat (level r.z htemp) ++ s!" nzref={r.nzref}" ++ " nzfor=" ++ fmtONat r.nzfor ++
        " nz10=" ++ fmtONat (level r.z hwind) ++ " nzi=" ++ fmtONat (level r.z hday) ++ " " ++ fmtProfiles r.st
    | _, _, _, _, _ => "bad-args"
  | _ => "bad-op"

def main : IO Unit := loop genDrv
