/-
C06 correspondence driver. One case per line: `<op> <payload> [<payload>...]`, payloads contain no spaces.

Text form of a `J` value (also the canonical answer form; object keys sorted in answers):
  N | T | F | i<int> | f<p>/<q> | s<enc> | [v,v,...] | {<enc>:v,...}
`<enc>`: every character outside [A-Za-z0-9_.-] as %XX (two hex digits, ASCII only).
Rows of a parameter file: rows separated by `;`, cells by `,`, each cell `<enc>`; a row without cells
is `~`; a file without rows is `-`.
-/
import UwgVerif.Model.Reader
open Uwg.C06

namespace C06Drv

def hexVal (c : Char) : Nat :=
  if c.isDigit then c.toNat - '0'.toNat
  else if 'a' ≤ c ∧ c ≤ 'f' then c.toNat - 'a'.toNat + 10
  else if 'A' ≤ c ∧ c ≤ 'F' then c.toNat - 'A'.toNat + 10
  else 0

def decode : List Char → List Char
  | '%' :: a :: b :: rest => Char.ofNat (16 * hexVal a + hexVal b) :: decode rest
  | c :: rest => c :: decode rest
  | [] => []

def hexDigit (n : Nat) : Char :=
  if n < 10 then Char.ofNat ('0'.toNat + n) else Char.ofNat ('A'.toNat + n - 10)

def plainChar (c : Char) : Bool := c.isAlphanum || c = '_' || c = '.' || c = '-'

def encode (s : List Char) : String :=
  String.ofList (s.flatMap (fun c =>
    if plainChar c then [c] else ['%', hexDigit (c.toNat / 16), hexDigit (c.toNat % 16)]))

def isDelim (c : Char) : Bool := c = ',' || c = ']' || c = '}' || c = ':'

def spanTok (s : List Char) : List Char × List Char := s.span (fun c => !isDelim c)

def parseInt? (s : List Char) : Option Int :=
  match s with
  | '-' :: r => (String.ofList r).toNat?.map (fun n => -(n : Int))
  | r => (String.ofList r).toNat?.map (fun n => (n : Int))

def parseRat? (s : List Char) : Option Rat :=
  match s.span (· ≠ '/') with
  | (p, '/' :: q) => do
    let n ← parseInt? p
    let d ← (String.ofList q).toNat?
    if d = 0 then none else some ((n : Rat) / (d : Rat))
  | (p, _) => (parseInt? p).map (fun n => (n : Rat))

mutual
partial def parseJ : List Char → Option (J × List Char)
  | 'N' :: r => some (.null, r)
  | 'T' :: r => some (.bool true, r)
  | 'F' :: r => some (.bool false, r)
  | 'i' :: r =>
    let (t, rest) := spanTok r
    (parseInt? t).map (fun n => (.num (.int n), rest))
  | 'f' :: r =>
    let (t, rest) := spanTok r
    (parseRat? t).map (fun q => (.num (.flt q), rest))
  | 's' :: r =>
    let (t, rest) := spanTok r
    some (.str (decode t), rest)
  | '[' :: ']' :: r => some (.list [], r)
  | '[' :: r => do
    let (xs, rest) ← parseElems r
    some (.list xs, rest)
  | '{' :: '}' :: r => some (.obj [], r)
  | '{' :: r => do
    let (kvs, rest) ← parseFields r
    some (.obj kvs, rest)
  | _ => none
partial def parseElems (s : List Char) : Option (List J × List Char) := do
  let (x, rest) ← parseJ s
  match rest with
  | ',' :: r => do
    let (xs, rest') ← parseElems r
    some (x :: xs, rest')
  | ']' :: r => some ([x], r)
  | _ => none
partial def parseFields (s : List Char) : Option (List (Str × J) × List Char) := do
  let (k, rest) := spanTok s
  match rest with
  | ':' :: r => do
    let (v, rest') ← parseJ r
    match rest' with
    | ',' :: r' => do
      let (kvs, rest'') ← parseFields r'
      some ((decode k, v) :: kvs, rest'')
    | '}' :: r' => some ([(decode k, v)], r')
    | _ => none
  | _ => none
end

def parseJ? (s : String) : Option J :=
  match parseJ s.toList with
  | some (j, []) => some j
  | _ => none

def fmtRat (q : Rat) : String := s!"{q.num}/{q.den}"

def keyLe (a b : Str × J) : Bool := decide (String.ofList a.1 ≤ String.ofList b.1)

partial def fmtJ : J → String
  | .null => "N"
  | .bool true => "T"
  | .bool false => "F"
  | .num (.int n) => s!"i{n}"
  | .num (.flt q) => "f" ++ fmtRat q
  | .str s => "s" ++ encode s
  | .list xs => "[" ++ ",".intercalate (xs.map fmtJ) ++ "]"
  | .obj kvs =>
    "{" ++ ",".intercalate ((kvs.mergeSort keyLe).map (fun kv => encode kv.1 ++ ":" ++ fmtJ kv.2)) ++ "}"

def fmtErr : Err → String
  | .assert => "err assert"
  | .value => "err value"
  | .index => "err index"
  | .type => "err type"
  | .key => "err key"
  | .attr => "err attr"
  | .exc => "err exc"

/-- split at every occurrence of `c` (structural: current piece accumulated in reverse) -/
def splitGo (c : Char) : List Char → List Char → List (List Char)
  | [], cur => [cur.reverse]
  | x :: rest, cur => if x = c then cur.reverse :: splitGo c rest [] else splitGo c rest (x :: cur)

def splitOnChar (c : Char) (s : List Char) : List (List Char) := splitGo c s []

def parseRows (s : String) : List Row :=
  if s = "-" then [] else
  (splitOnChar ';' s.toList).map (fun r =>
    if r = ['~'] then [] else (splitOnChar ',' r).map decode)

def answerJ (r : Except Err J) : String :=
  match r with
  | .ok j => "ok " ++ fmtJ j
  | .error e => fmtErr e

def step (line : String) : String :=
  match (line.trimAscii.toString.splitOn " ").filter (· ≠ "") with
  | ["read", rows] => answerJ ((readInput (parseRows rows)).map J.obj)
  | ["file", rows] =>
    answerJ (match UWG.fromFile (parseRows rows) with
             | .error e => .error e
             | .ok m => m.toDict true)
  | ["dict", d] =>
    match parseJ? d with
    | none => "bad-args"
    | some j => answerJ (match UWG.fromDict j with
                         | .error e => .error e
                         | .ok m => m.toDict true)
  | ["kwargs", kw, extra, sch, bem] =>
    match parseJ? kw, parseJ? extra, parseJ? sch, parseJ? bem with
    | some kw, some (.obj extra), some sch, some bem =>
      let refs : Except Err (Option (List BEMDef) × Option (List SchDef)) := do
        let b ← (match bem with
                 | .null => pure none
                 | .list xs => (BEMDef.fromDicts xs).map some
                 | _ => .error .type)
        let s ← (match sch with
                 | .null => pure none
                 | .list xs => (SchDef.fromDicts xs).map some
                 | _ => .error .type)
        pure (b, s)
      answerJ (match refs with
               | .error e => .error e
               | .ok (b, s) =>
                 match UWG.fromKwargs kw extra b s with
                 | .error e => .error e
                 | .ok m => m.toDict true)
    | some _, some (.obj []), _, _ => "bad-args"
    | _, _, _, _ => "bad-args"
  | ["tok", t] =>
    match parseFloat (decode t.toList) with
    | some q => "ok f" ++ fmtRat q
    | none => "err value"
  | ["asis", fuel, rows] =>
    match readInputAsis (fuel.toNat?.getD 0) (parseRows rows) with
    | some d => "ok " ++ fmtJ (.obj d)
    | none => "running"
  | _ => "bad-op"

end C06Drv

partial def main : IO Unit := do
  let stdin ← IO.getStdin
  let stdout ← IO.getStdout
  let rec go : IO Unit := do
    let line ← stdin.getLine
    if line.isEmpty then return ()
    if line.trimAscii.toString.isEmpty then go else
    stdout.putStrLn (C06Drv.step line)
    go
  go
  stdout.flush
