import UwgVerif.Drv.Proto
import UwgVerif.Model.Hvac
open Uwg Uwg.Proto Uwg.Hvac

/-- `bem key=value …` → `BemIn ℚ` (every field is required). -/
def parseBem (a : Args) : Option (BemIn ℚ) := do
  let r := fun k => a.rat? k
  let cond ← match a.get? "cond" with
    | some "AIR" => some Cond.air
    | some "WATER" => some Cond.water
    | _ => none
  pure {
    floorHeight := ← r "floorHeight", intHeatNight := ← r "intHeatNight",
    intHeatDay := ← r "intHeatDay", intHeatFRad := ← r "intHeatFRad",
    intHeatFLat := ← r "intHeatFLat", infil := ← r "infil", vent := ← r "vent",
    glazingRatio := ← r "glazingRatio", uValue := ← r "uValue", shgc := ← r "shgc",
    cond := cond, copAdj := ← r "copAdj", coolcap := ← r "coolcap", heateff := ← r "heateff",
    heatCap := ← r "heatCap", coolSetDay := ← r "coolSetDay", coolSetNight := ← r "coolSetNight",
    heatSetDay := ← r "heatSetDay", heatSetNight := ← r "heatSetNight",
    indoorTemp := ← r "indoorTemp", indoorHum := ← r "indoorHum", latWaste0 := ← r "latWaste0",
    bldHeight := ← r "bldHeight", verToHor := ← r "verToHor", bldDensity := ← r "bldDensity",
    canTemp := ← r "canTemp", canHum := ← r "canHum",
    tWall := ← r "tWall", tCeil := ← r "tCeil", tMass := ← r "tMass", solRec := ← r "solRec",
    swh := ← r "swh", elec := ← r "elec", light := ← r "light", gas := ← r "gas",
    pres := ← r "pres", waterTemp := ← r "waterTemp",
    lv := ← r "lv", cp := ← r "cp", nightSetStart := ← r "nightSetStart",
    nightSetEnd := ← r "nightSetEnd", secDay := ← r "secDay", dt := ← r "dt" }

/-- attributes in the fixed order shared with `harness/props/c14.py` (`indoorRhum` omitted) -/
def outList (o : BemOut ℚ) : List ℚ :=
  [o.nFloor, o.intHeat, o.sensCoolDemand, o.sensHeatDemand, o.dehumDemand, o.Qhvac, o.Qheat,
   o.coolConsump, o.heatConsump, o.sensWaste, o.latWaste, o.indoorTemp, o.indoorHum,
   o.fluxWall, o.fluxRoof, o.fluxMass, o.fluxSolar, o.fluxWindow, o.fluxInterior, o.fluxInfil,
   o.fluxVent, o.elecTotal, o.gasTotal]

def branchName : Branch → String
  | .cool => "cool" | .heat => "heat" | .idle => "idle"

def stepC14 (line : String) : String :=
  let (op, a) := parseLine line
  match op with
  | "bem" =>
    match parseBem a with
    | some i =>
      match bemCalc (fun _ _ _ => (0 : ℚ)) i with
      | .ok o => "ok " ++ fmtRatList (outList o)
      | .error .zerodiv => "err zerodiv"
      | .error .fatal => "err fatal"
    | none => "bad-args"
  | _ => "bad-op"

def main : IO Unit := loop stepC14
