import UwgVerif.Model.Lifecycle
import UwgVerif.Drv.Proto
open Uwg.Life Uwg.Proto

/-- op syntax: `<obj>:gen`, `<obj>:sim`, `<obj>:setg:<n>`, `<obj>:unsetg`, `<obj>:seta:<n>`, `<obj>:unseta` -/
def parseOp (s : String) : Option (Nat × Op Ov) :=
  match s.splitOn ":" with
  | [i, "gen"] => i.toNat?.map (·, .generate)
  | [i, "sim"] => i.toNat?.map (·, .simulate)
  | [i, "setg", n] => do some (← i.toNat?, .set (fun p => { p with glzr := some (n.toNat?.getD 0) }))
  | [i, "unsetg"] => i.toNat?.map (·, .set (fun p => { p with glzr := none }))
  | [i, "seta", n] => do some (← i.toNat?, .set (fun p => { p with albroof := some (n.toNat?.getD 0) }))
  | [i, "unseta"] => i.toNat?.map (·, .set (fun p => { p with albroof := none }))
  | _ => none

def fmtArch (a : Arch) : String := s!"{a.glz},{a.alb},{if a.dirty then 1 else 0}"
def fmtLib (l : List Arch) : String := "(" ++ " ".intercalate (l.map fmtArch) ++ ")"
def fmtObj (o : Obj Ov (List Arch) (List Arch) (List Arch)) : String :=
  fmtLib o.lib ++ (if o.built.isSome then "B" else "-") ++
    (match o.last with | some r => "L" ++ fmtLib r | none => "L-")

def stepC17 (line : String) : String :=
  let (op, a) := parseLine line
  match op with
  | "world" =>
    match a.nat? "n", a.nats? "ref", a.get? "ops" >>= parseList?, a.nat? "asis" with
    | some n, some ref, some opsS, some asis =>
      let pristine := ref.map (fun r => (⟨r, r + 500, r, r + 500, false⟩ : Arch))
      let M := toy pristine
      match opsS.mapM parseOp with
      | none => "bad-ops"
      | some ops =>
        let w0 : World Ov (List Arch) (List Arch) (List Arch) := List.replicate n (fresh M ⟨none, none⟩)
        -- trace: state of the addressed object after every operation
        let (_, tr) := ops.foldl (fun (acc : World Ov (List Arch) (List Arch) (List Arch) × List String) iop =>
            let w' := acc.1.modify iop.1 (fun o => step M (asis == 1) o iop.2)
            (w', acc.2 ++ [(w'[iop.1]?.map fmtObj).getD "?"])) (w0, [])
        "ok " ++ "|".intercalate tr
    | _, _, _, _ => "bad-args"
  | _ => "bad-op"

def main : IO Unit := loop stepC17
