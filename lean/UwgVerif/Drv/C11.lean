import UwgVerif.Drv.Proto
import UwgVerif.Model.Conduction
open Uwg Uwg.Proto

def mkLayers : List ℚ → List ℚ → List ℚ → List ℚ → List (Layer ℚ)
  | d :: ds, k :: ks, c :: cs, t :: ts => ⟨d, k, c, t⟩ :: mkLayers ds ks cs ts
  | _, _, _, _ => []

def stepC11 (line : String) : String :=
  let (op, a) := parseLine line
  match op with
  | "cond" =>
    match a.rat? "dt", a.rat? "flx1", a.get? "bc", a.rat? "v2", a.rats? "d", a.rats? "k",
          a.rats? "c", a.rats? "t" with
    | some dt, some flx1, some bc, some v2, some d, some k, some c, some t =>
      let ls := mkLayers d k c t
      let bc' : BC ℚ := if bc == "deep" then .deep v2 else .flux v2
      match conduction dt flx1 bc' ls with
      | some xs => "ok " ++ fmtRatList xs
      | none => "err index"
    | _, _, _, _, _, _, _, _ => "bad-args"
  | "solve" =>
    match a.rats? "a", a.rats? "b", a.rats? "c", a.rats? "y" with
    | some la, some lb, some lc, some ly =>
      let rec mk : List ℚ → List ℚ → List ℚ → List ℚ → List (Row ℚ)
        | a :: as, b :: bs, c :: cs, y :: ys => ⟨a, b, c, y⟩ :: mk as bs cs ys
        | _, _, _, _ => []
      "ok " ++ fmtRatList (solve (mk la lb lc ly))
    | _, _, _, _ => "bad-args"
  | _ => "bad-op"

def main : IO Unit := loop stepC11
