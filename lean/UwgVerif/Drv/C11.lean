import UwgVerif.Drv.Proto
import UwgVerif.Model.Conduction
import UwgVerif.Model.SurfFlux
open Uwg Uwg.Proto

def mkLayers : List ℚ → List ℚ → List ℚ → List ℚ → List (Layer ℚ)
  | d :: ds, k :: ks, c :: cs, t :: ts => ⟨d, k, c, t⟩ :: mkLayers ds ks cs ts
  | _, _, _, _ => []

def stepC11 (line : String) : String :=
  let (op, a) := parseLine line
  match op with
  | "cond" =>
    match a.rat? "dt", a.rat? "flx1", a.get? "bc", a.rat? "v2", a.rats? "d", a.rats? "k",
          a.rats? "c", a.rats? "t" with
    | some dt, some flx1, some bc, some v2, some d, some k, some c, some t =>
      let ls := mkLayers d k c t
      let bc' : BC ℚ := if bc == "deep" then .deep v2 else .flux v2
      match conduction dt flx1 bc' ls with
      | some xs => "ok " ++ fmtRatList xs
      | none => "err index"
    | _, _, _, _, _, _, _, _ => "bad-args"
  | "solve" =>
    match a.rats? "a", a.rats? "b", a.rats? "c", a.rats? "y" with
    | some la, some lb, some lc, some ly =>
      let rec mk : List ℚ → List ℚ → List ℚ → List ℚ → List (Row ℚ)
        | a :: as, b :: bs, c :: cs, y :: ys => ⟨a, b, c, y⟩ :: mk as bs cs ys
        | _, _, _, _ => []
      "ok " ++ fmtRatList (solve (mk la lb lc ly))
    | _, _, _, _ => "bad-args"
  | "surfflux" =>
    -- the whole Element.SurfFlux (composition B): v = [albedo; vegcoverage; grasscoverage; treecoverage;
    -- solRec; infra; pres; deepTemp; vegAlbedo; grassFLat; treeFLat; waterDens; lv; dt; humRef; tempRef;
    -- windRef; boundCond; intFlux]
    match a.nat? "hor", a.nat? "road", a.nat? "m", a.nat? "s", a.nat? "e", a.rats? "v",
          a.rats? "d", a.rats? "k", a.rats? "c", a.rats? "t" with
    | some hor, some road, some m, some s, some e, some v, some d, some k, some c, some t =>
      match v with
      | [alb, vc, g, tr, solRec, infra, pres, deepT, va, gf, tf, wd, lv, dt, hum, tref, wind, bc, intF] =>
        let el : SurfElement ℚ :=
          { horizontal := hor == 1, albedo := alb, vegcoverage := vc,
            roadCover := if road == 1 then some (g, tr) else none, solRec := solRec, infra := infra,
            layers := mkLayers d k c t }
        let ar : SurfArgs ℚ :=
          { pres := pres, deepTemp := deepT, vegStart := s, vegEnd := e, vegAlbedo := va, grassFLat := gf,
            treeFLat := tf, waterDens := wd, lv := lv, month := m, dt := dt, humRef := hum, tempRef := tref,
            windRef := wind, boundCond := bc, intFlux := intF }
        match surfFlux el ar with
        | .ok r => "ok " ++ fmtRatList [r.aeroCond, r.solAbs, r.lat, r.sens, r.flux, r.tExt, r.tInt] ++ " " ++
            fmtRatList r.layerTemp
        | .error .zerodiv => "err zerodiv"
        | .error .index => "err index"
        | .error .fatal => "err fatal"
      | _ => "bad-args"
    | _, _, _, _, _, _, _, _, _, _ => "bad-args"
  | _ => "bad-op"

def main : IO Unit := loop stepC11
