/-
Line-protocol driver for the header interpretation of the rural EPW file (`Uwg.Epw.readHeader`).

Rows travel as in the C01 driver: percent-encoded cells, `<n>|<cell>;<cell>;…`, lists of rows `<k>:<row>/<row>/…`.

Ops
  header hdr=<rows>   → ok <lat> <lon> <gmt> <nSoil> <depths> <months flattened>  |  err index | err value
  site hdr=<rows>     → ok <lat> <lon> <gmt>                                      |  err index | err value
  ground hdr=<rows>   → ok <nSoil> <depths> <months flattened>  (line 4 only)     |  err index | err value
-/
import UwgVerif.Drv.Proto
import UwgVerif.Model.EpwHeader
open Uwg.Epw Uwg.Proto

namespace EpwDrv

def hexVal? (c : Char) : Option Nat :=
  if '0' ≤ c ∧ c ≤ '9' then some (c.toNat - 48)
  else if 'A' ≤ c ∧ c ≤ 'F' then some (c.toNat - 55)
  else if 'a' ≤ c ∧ c ≤ 'f' then some (c.toNat - 87)
  else none

def decAux : List Char → Option (List Char)
  | [] => some []
  | '%' :: a :: b :: rest => do
    let x ← hexVal? a
    let y ← hexVal? b
    let r ← decAux rest
    some (Char.ofNat (16 * x + y) :: r)
  | '%' :: _ => none
  | c :: rest => (decAux rest).map (c :: ·)

def dec? (s : String) : Option (List Char) := decAux s.toList

def decRow? (s : String) : Option (List (List Char)) :=
  match s.splitOn "|" with
  | [n, body] => do
    let k ← n.toNat?
    if k = 0 then (if body.isEmpty then some [] else none) else
    let cells ← (body.splitOn ";").mapM dec?
    if cells.length = k then some cells else none
  | _ => none

def decRows? (s : String) : Option (List (List (List Char))) :=
  match s.splitOn ":" with
  | [n, body] => do
    let k ← n.toNat?
    if k = 0 then (if body.isEmpty then some [] else none) else
    let rows ← (body.splitOn "/").mapM decRow?
    if rows.length = k then some rows else none
  | _ => none

def fmtErr : Err → String
  | .index => "err index"
  | .value => "err value"

def fmtGround (g : Ground) : String :=
  s!"{g.nSoil} {fmtRatList (g.recs.map (·.depth))} {fmtRatList (g.recs.flatMap (·.months))}"

def step (line : String) : String :=
  let (op, a) := parseLine line
  match op with
  | "header" =>
    match a.get? "hdr" >>= decRows? with
    | some hdr =>
      match readHeader hdr with
      | .ok (s, g) => s!"ok {fmtRat s.lat} {fmtRat s.lon} {fmtRat s.gmt} {fmtGround g}"
      | .error e => fmtErr e
    | none => "bad-op"
  | "site" =>
    match a.get? "hdr" >>= decRows? with
    | some hdr =>
      match rowAt hdr 0 >>= readSite with
      | .ok s => s!"ok {fmtRat s.lat} {fmtRat s.lon} {fmtRat s.gmt}"
      | .error e => fmtErr e
    | none => "bad-op"
  | "ground" =>
    match a.get? "hdr" >>= decRows? with
    | some hdr =>
      match rowAt hdr 3 >>= readGround with
      | .ok g => s!"ok {fmtGround g}"
      | .error e => fmtErr e
    | none => "bad-op"
  | _ => "bad-op"

end EpwDrv

def main : IO Unit := loop EpwDrv.step
