import UwgVerif.Model.Sim
import UwgVerif.Drv.Proto
open Uwg Uwg.Sim Uwg.Proto

/-- Toy physics shared with harness/props/c03.py: the state is a rolling code of everything a
    step is allowed to read (forcing row, clock view of the step, deep temperature); it raises
    when the code is a multiple of `raiseMod` (0 = never). Records store the state. -/
def toyPhys (raiseMod : Nat) : Phys Nat Nat Nat Nat Unit where
  step s t r d :=
    let v := (s * 31 + r + 7 * t.month + 3 * t.hourDay + 11 * t.dayType + 13 * d + t.secDay) % 1000003
    if raiseMod ≠ 0 ∧ v % raiseMod = 0 then .error () else .ok v
  record s _ _ := s

def fmtOutcome : Outcome Nat Nat Unit → String
  | .ok (_, recs) => "ok " ++ fmtNatList recs
  | .error (recs, .drv .zerodiv) => "err zerodiv " ++ fmtNatList recs
  | .error (recs, .drv .timestep) => "err timestep " ++ fmtNatList recs
  | .error (recs, .drv .index) => "err index " ++ fmtNatList recs
  | .error (recs, .index) => "err index " ++ fmtNatList recs
  | .error (recs, .phys _) => "err fatal " ++ fmtNatList recs

def stepC03 (line : String) : String :=
  let (op, a) := parseLine line
  match op with
  | "sim" =>
    match a.nat? "dt", a.nat? "M", a.nat? "D", a.nat? "days", a.nat? "nsoil3", a.nat? "mean",
          a.nat? "raise", a.nat? "s0", a.nats? "rows" with
    | some dt, some M, some D, some days, some ns, some mean, some rz, some s0, some rows =>
      let soil : Soil Nat := if ns == 1 then .monthly (fun m => m) else .windowMean mean
      fmtOutcome (simulate (toyPhys rz) soil dt M D days rows s0)
    | _, _, _, _, _, _, _, _, _ => "bad-args"
  | _ => "bad-op"

def main : IO Unit := loop stepC03
