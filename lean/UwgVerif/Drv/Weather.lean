/-
Line-protocol driver for `Uwg.Weather.read` (Weather.__init__ + str2fl) at ℚ with the shared stub symbols.

Rows travel as in the C01 driver (percent-encoded cells, `<n>|c;c;…`, lists of rows `<k>:<row>/<row>/…`).

Op
  weather rows=<rows> hi=<nat> hf=<nat>  → ok <rec>/<rec>/…   (rec = temp;tdp;rhum;pres;infra;hor;dir;dif;udir;umod;hum,
                                            each `p/q` or `T` for text left by str2fl)
                                          | err index | err type | err zerodiv | err value
-/
import UwgVerif.Drv.Proto
import UwgVerif.Model.Weather
open Uwg Uwg.Weather Uwg.Proto

namespace WeatherDrv

def hexVal? (c : Char) : Option Nat :=
  if '0' ≤ c ∧ c ≤ '9' then some (c.toNat - 48)
  else if 'A' ≤ c ∧ c ≤ 'F' then some (c.toNat - 55)
  else if 'a' ≤ c ∧ c ≤ 'f' then some (c.toNat - 87)
  else none

def decAux : List Char → Option (List Char)
  | [] => some []
  | '%' :: a :: b :: rest => do
    let x ← hexVal? a
    let y ← hexVal? b
    let r ← decAux rest
    some (Char.ofNat (16 * x + y) :: r)
  | '%' :: _ => none
  | c :: rest => (decAux rest).map (c :: ·)

def dec? (s : String) : Option (List Char) := decAux s.toList

def decRow? (s : String) : Option (List (List Char)) :=
  match s.splitOn "|" with
  | [n, body] => do
    let k ← n.toNat?
    if k = 0 then (if body.isEmpty then some [] else none) else
    let cells ← (body.splitOn ";").mapM dec?
    if cells.length = k then some cells else none
  | _ => none

def decRows? (s : String) : Option (List (List (List Char))) :=
  match s.splitOn ":" with
  | [n, body] => do
    let k ← n.toNat?
    if k = 0 then (if body.isEmpty then some [] else none) else
    let rows ← (body.splitOn "/").mapM decRow?
    if rows.length = k then some rows else none
  | _ => none

def fmtVal : Val → String
  | .num q => fmtRat q
  | .text => "T"

def fmtRec (x : Rec) : String :=
  ";".intercalate [fmtRat x.temp, fmtVal x.tdp, fmtRat x.rhum, fmtRat x.pres, fmtVal x.infra, fmtVal x.hor,
    fmtVal x.dir, fmtVal x.dif, fmtVal x.udir, fmtVal x.umod, fmtRat x.hum]

def fmtErr : Err → String
  | .index => "err index"
  | .type => "err type"
  | .zerodiv => "err zerodiv"
  | .value => "err value"

def step (line : String) : String :=
  let (op, a) := parseLine line
  match op with
  | "weather" =>
    match a.get? "rows" >>= decRows?, a.nat? "hi", a.nat? "hf" with
    | some rows, some hi, some hf =>
      match read stubQ rows hi hf with
      | .ok xs => "ok " ++ "/".intercalate (xs.map fmtRec)
      | .error e => fmtErr e
    | _, _, _ => "bad-op"
  | _ => "bad-op"

end WeatherDrv

def main : IO Unit := loop WeatherDrv.step
