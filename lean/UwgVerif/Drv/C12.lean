import UwgVerif.Drv.Proto
import UwgVerif.Model.Solar
open Uwg Uwg.Proto

/-- `ha` is a local variable of the Python routine; `withha=0` omits it from the answer. -/
def fmtSolar (o : SolarOut ℚ) (withHa : Bool) : String :=
  "ok ut=" ++ fmtRat o.ut ++ " ad=" ++ fmtRat o.ad ++ " eqtime=" ++ fmtRat o.eqtime ++
  " decsol=" ++ fmtRat o.decsol ++ (if withHa then " ha=" ++ fmtRat o.ha else "") ++
  " zenith=" ++ fmtRat o.zenith ++ " tanzen=" ++ fmtRat o.tanzen ++
  " critOrient=" ++ fmtRat o.critOrient

def fmtRes (r : Except SolErr (SolarOut ℚ)) (withHa : Bool) : String :=
  match r with
  | .ok o => fmtSolar o withHa
  | .error .index => "err index"
  | .error .zerodiv => "err zerodiv"

def stepC12 (line : String) : String :=
  let (op, a) := parseLine line
  let withHa := (a.nat? "withha").getD 1 != 0
  match a.int? "month", a.int? "day", a.int? "secDay", a.rat? "lat", a.rat? "lon", a.rat? "gmt",
        a.rat? "canAspect" with
  | some month, some day, some secDay, some lat, some lon, some gmt, some ca =>
    match op with
    | "impl" =>
      let inobis := (a.nats? "inobis").getD inobisStd
      fmtRes (solaranglesImpl stubQ inobis month day secDay lat lon gmt ca) withHa
    | "spec" => fmtRes (solaranglesSpec stubQ month day secDay lat lon gmt ca) withHa
    | _ => "bad-op"
  | _, _, _, _, _, _, _ => "bad-args"

def main : IO Unit := loop stepC12
