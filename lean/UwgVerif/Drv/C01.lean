/-
Line-protocol driver for C01 (text layer of write_epw).

Strings travel percent-encoded (ASCII only): every character outside `[A-Za-z0-9._-]` is `%XX`.
Rows are `<n>|<cell>;<cell>;…` (n = number of cells, so `0|` is the empty row and `1|` the row with one
empty cell); lists of rows are `<k>:<row>/<row>/…`.

Ops
  parse l=<enc line>                         → ok <row>
  render cells=<row>                         → ok <enc line>
  endst l=<enc line>                         → ok open|closed   (open = the line ends inside a quoted field)
  fmt num=<int> den=<nat> p=<nat>            → ok <enc text>
  name n=<enc name>                          → ok <enc name>
  write hdr=<rows> rows=<rows> s=<nat> res=[r;r;r;r;…] p=<nat>   (res flattened, 4 rationals per hour)
                                             → ok <enc text> | err index
  parsefile t=<enc text>                     → ok <rows>
-/
import UwgVerif.Drv.Proto
import UwgVerif.Model.Csv
open Uwg.Csv Uwg.Proto

namespace C01Drv

def hexDigit (n : Nat) : Char :=
  if n < 10 then Char.ofNat (48 + n) else Char.ofNat (55 + n)

def hexVal? (c : Char) : Option Nat :=
  if '0' ≤ c ∧ c ≤ '9' then some (c.toNat - 48)
  else if 'A' ≤ c ∧ c ≤ 'F' then some (c.toNat - 55)
  else if 'a' ≤ c ∧ c ≤ 'f' then some (c.toNat - 87)
  else none

def plain (c : Char) : Bool := c.isAlphanum || c = '.' || c = '_' || c = '-'

def enc (l : List Char) : String :=
  String.ofList (l.flatMap fun c =>
    if plain c then [c] else ['%', hexDigit (c.toNat / 16 % 16), hexDigit (c.toNat % 16)])

def decAux : List Char → Option (List Char)
  | [] => some []
  | '%' :: a :: b :: rest => do
    let x ← hexVal? a
    let y ← hexVal? b
    let r ← decAux rest
    some (Char.ofNat (16 * x + y) :: r)
  | '%' :: _ => none
  | c :: rest => (decAux rest).map (c :: ·)

def dec? (s : String) : Option (List Char) := decAux s.toList

def encRow (r : Row) : String := s!"{r.length}|" ++ ";".intercalate (r.map enc)

def decRow? (s : String) : Option Row :=
  match s.splitOn "|" with
  | [n, body] => do
    let k ← n.toNat?
    if k = 0 then (if body.isEmpty then some [] else none) else
    let cells ← (body.splitOn ";").mapM dec?
    if cells.length = k then some cells else none
  | _ => none

def encRows (rs : List Row) : String := s!"{rs.length}:" ++ "/".intercalate (rs.map encRow)

def decRows? (s : String) : Option (List Row) :=
  match s.splitOn ":" with
  | [n, body] => do
    let k ← n.toNat?
    if k = 0 then (if body.isEmpty then some [] else none) else
    let rows ← (body.splitOn "/").mapM decRow?
    if rows.length = k then some rows else none
  | _ => none

def toFrac (q : ℚ) : Frac := ⟨q.num, q.den⟩

def groupRes : List ℚ → Option (List Res)
  | [] => some []
  | a :: b :: c :: d :: rest => (groupRes rest).map (⟨toFrac a, toFrac b, toFrac c, toFrac d⟩ :: ·)
  | _ => none

def step (line : String) : String :=
  let (op, a) := parseLine line
  match op with
  | "parse" =>
    match a.get? "l" >>= dec? with
    | some l => "ok " ++ encRow (Uwg.Csv.parseLine l)
    | none => "bad-args"
  | "endst" =>
    match a.get? "l" >>= dec? with
    | some l => if endSt .start l = .quoted then "ok open" else "ok closed"
    | none => "bad-args"
  | "render" =>
    match a.get? "cells" >>= decRow? with
    | some r => "ok " ++ enc (renderRow r)
    | none => "bad-args"
  | "fmt" =>
    match a.int? "num", a.nat? "den", a.nat? "p" with
    | some n, some d, some p => if d = 0 then "bad-args" else "ok " ++ enc (fmtFixed n d p)
    | _, _, _ => "bad-args"
  | "name" =>
    match a.get? "n" >>= dec? with
    | some n => "ok " ++ enc (defaultName n)
    | none => "bad-args"
  | "parsefile" =>
    match a.get? "t" >>= dec? with
    | some t => "ok " ++ encRows (parseFile t)
    | none => "bad-args"
  | "write" =>
    match a.get? "hdr" >>= decRows?, a.get? "rows" >>= decRows?, a.nat? "s",
          a.rats? "res" >>= groupRes, a.nat? "p" with
    | some hdr, some rows, some s, some res, some p =>
      match writeEpw hdr rows s res p with
      | some t => "ok " ++ enc t
      | none => "err index"
    | _, _, _, _, _ => "bad-args"
  | _ => "bad-op"

end C01Drv

def main : IO Unit := loop C01Drv.step
