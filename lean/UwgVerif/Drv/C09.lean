import UwgVerif.Drv.Proto
import UwgVerif.Model.Psychro
open Uwg Uwg.Proto

/-- ops (all arguments rationals, symbols = `stubQ`):
      psy  Tdb= w= P=      -> ok [Tdb;w;phi;h;Tdp;v]         psychrometrics
      sat  T=              -> ok [Pws]                        saturation_pressure
      hum  RH= T= P=       -> ok [w]                          hum_from_rhum_temp
      dens P= T= H=        -> ok [rho]                        moist_air_density
      rec  RH= T= P= Tc=   -> ok [canHum;phi;Tdp]             staHum -> canHum -> psychrometrics -/
def stepC09 (line : String) : String :=
  let (op, a) := parseLine line
  let err (e : PErr) : String := "err " ++ e.toString
  match op with
  | "psy" =>
    match a.rat? "Tdb", a.rat? "w", a.rat? "P" with
    | some t, some w, some p =>
      match psychro stubQ t w p with
      | .ok r => "ok " ++ fmtRatList [r.tdb, r.w, r.phi, r.h, r.tdp, r.v]
      | .error e => err e
    | _, _, _ => "bad-args"
  | "sat" =>
    match a.rat? "T" with
    | some t =>
      match satPressure stubQ t with
      | .ok r => "ok " ++ fmtRatList [r]
      | .error e => err e
    | _ => "bad-args"
  | "hum" =>
    match a.rat? "RH", a.rat? "T", a.rat? "P" with
    | some rh, some t, some p =>
      match humFromRh stubQ rh t p with
      | .ok r => "ok " ++ fmtRatList [r]
      | .error e => err e
    | _, _, _ => "bad-args"
  | "dens" =>
    match a.rat? "P", a.rat? "T", a.rat? "H" with
    | some p, some t, some h =>
      match moistAirDensity p t h with
      | .ok r => "ok " ++ fmtRatList [r]
      | .error e => err e
    | _, _, _ => "bad-args"
  | "rec" =>
    match a.rat? "RH", a.rat? "T", a.rat? "P", a.rat? "Tc" with
    | some rh, some t, some p, some tc =>
      match canHumOf stubQ ⟨rh, t, p⟩, recordHumidity stubQ ⟨rh, t, p⟩ tc with
      | .ok w, .ok r => "ok " ++ fmtRatList [w, r.phi, r.tdp]
      | .error e, _ => err e
      | _, .error e => err e
    | _, _, _, _ => "bad-args"
  | _ => "bad-op"

def main : IO Unit := loop stepC09
