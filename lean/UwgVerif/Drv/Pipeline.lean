/-
Line-protocol driver for composition D (`Model/Pipeline.lean`): the whole pipeline with the concrete readers
and the concrete physics, evaluated at ℚ with the shared stub symbols (`stubQ`).

Strings travel percent-encoded as in Drv/C01.lean (rows `<n>|<cell>;…`, lists of rows `<k>:<row>/…`); the
configuration and the state after `generate()` travel as in Drv/Step.lean (the parsing code below is a copy of
that driver's: a driver file cannot import another driver, both define `main`).

Ops
  pipe hdr=<rows> rows=<rows> dt= M= D= days= hours= p= droad= kroad= croad= <cfg> <state>
        → ok <enc text> | err <stage>
  psim (same arguments, `p` ignored)
        → ok <state> recs=<[tdb;tdp;rh;wind]|…> | err <stage>      (no file writing)
  stages: header-index header-value timestep zerodiv weather-index weather-type weather-zerodiv weather-value
          init-type column-index refused sim-<class of Step.Err> sim-index sim-driver write

The fields `lat lon gmt dt` of the transmitted configuration are NOT used by `pipeline` (it takes them from the
header and from `dt=`); the harness sends zeros there.
-/
import UwgVerif.Drv.Proto
import UwgVerif.Model.Pipeline
open Uwg Uwg.Proto Uwg.Step Uwg.Csv Uwg.Sim Uwg.Pipeline

/-! ### percent-encoding (as Drv/C01.lean) -/

def hexDigit (n : Nat) : Char :=
  if n < 10 then Char.ofNat (48 + n) else Char.ofNat (55 + n)

def hexVal? (c : Char) : Option Nat :=
  if '0' ≤ c ∧ c ≤ '9' then some (c.toNat - 48)
  else if 'A' ≤ c ∧ c ≤ 'F' then some (c.toNat - 55)
  else if 'a' ≤ c ∧ c ≤ 'f' then some (c.toNat - 87)
  else none

def plain (c : Char) : Bool := c.isAlphanum || c = '.' || c = '_' || c = '-'

def enc (l : List Char) : String :=
  String.ofList (l.flatMap fun c =>
    if plain c then [c] else ['%', hexDigit (c.toNat / 16 % 16), hexDigit (c.toNat % 16)])

def decAux : List Char → Option (List Char)
  | [] => some []
  | '%' :: a :: b :: rest => do
    let x ← hexVal? a
    let y ← hexVal? b
    let r ← decAux rest
    some (Char.ofNat (16 * x + y) :: r)
  | '%' :: _ => none
  | c :: rest => (decAux rest).map (c :: ·)

def dec? (s : String) : Option (List Char) := decAux s.toList

def decRow? (s : String) : Option Row :=
  match s.splitOn "|" with
  | [n, body] => do
    let k ← n.toNat?
    if k = 0 then (if body.isEmpty then some [] else none) else
    let cells ← (body.splitOn ";").mapM dec?
    if cells.length = k then some cells else none
  | _ => none

def decRows? (s : String) : Option (List Row) :=
  match s.splitOn ":" with
  | [n, body] => do
    let k ← n.toNat?
    if k = 0 then (if body.isEmpty then some [] else none) else
    let rows ← (body.splitOn "/").mapM decRow?
    if rows.length = k then some rows else none
  | _ => none


/-! ### configuration and state (copy of Drv/Step.lean) -/

/-- `[a;b|c;d|…]` → rows (`[]` → no row; an empty row is written as nothing between the bars). -/
def parseTable? (s : String) : Option (List (List ℚ)) :=
  if s.startsWith "[" && s.endsWith "]" then
    let inner := ((s.drop 1).toString.dropEnd 1).toString
    if inner.isEmpty then some []
    else (inner.splitOn "|").mapM (fun row =>
      if row.isEmpty then some [] else (row.splitOn ";").mapM parseRat?)
  else none

def Uwg.Proto.Args.table? (a : Args) (k : String) : Option (List (List ℚ)) := a.get? k >>= parseTable?

/-- `none` or a rational. -/
def Uwg.Proto.Args.orat? (a : Args) (k : String) : Option (Option ℚ) :=
  match a.get? k with
  | some "none" => some none
  | some v => (parseRat? v).map some
  | none => none

def fmtORat : Option ℚ → String
  | none => "none"
  | some x => fmtRat x

def parsePar (a : Args) : Option (Par ℚ) := do
  match ← a.rats? "par" with
  | [dayBL, windHeight, circCoeff, dayThreshold, treeFLat, grassFLat, vegAlbedo, nightSetStart,
     nightSetEnd, windMin, exCoeff, g, cp, vk, r, lv, waterDens] =>
    pure { dayBLHeight := dayBL, windHeight := windHeight, circCoeff := circCoeff,
           dayThreshold := dayThreshold, treeFLat := treeFLat, grassFLat := grassFLat,
           vegAlbedo := vegAlbedo, vegStart := ← a.nat? "vegStart", vegEnd := ← a.nat? "vegEnd",
           nightSetStart := nightSetStart, nightSetEnd := nightSetEnd, windMin := windMin,
           exCoeff := exCoeff, g := g, cp := cp, vk := vk, r := r, lv := lv, waterDens := waterDens }
  | _ => none

def parseSched (a : Args) (i : Nat) : Option (Sched ℚ) := do
  let p := s!"sch{i}"
  match ← a.rats? (p ++ "s") with
  | [qElec, qGas, qLight, nOcc, vent, vSwh] =>
    pure { elec := ← a.table? (p ++ "elec"), gas := ← a.table? (p ++ "gas"),
           light := ← a.table? (p ++ "light"), occ := ← a.table? (p ++ "occ"),
           cool := ← a.table? (p ++ "cool"), heat := ← a.table? (p ++ "heat"),
           swh := ← a.table? (p ++ "swh"), qElec := qElec, qGas := qGas, qLight := qLight,
           nOcc := nOcc, vent := vent, vSwh := vSwh }
  | _ => none

def parseCfg (a : Args) : Option (Cfg ℚ) := do
  let par ← parsePar a
  let nsch ← a.nat? "nsch"
  let sch ← (List.range nsch).mapM (parseSched a)
  match ← a.rats? "sim", ← a.rats? "ucmc", ← a.rats? "rsmc", ← a.rats? "ublc" with
  | [dt, lat, lon, gmt, sigma, sensanth, sensocc, latfocc, radflight, radfequip],
    [bldHeight, bldDensity, verToHor, treeCoverage, vegcover, roadShad, canAspect, roadConf,
     wallConf, facArea, roadArea, roofArea, z0u, lDisp, albWall, hMix],
    [z0r, disp],
    [dayBL, nightBL, orthLength, urbArea, perimeter, paralLength, charLength] =>
    pure { par := par, dt := dt, inobis := ← a.nats? "inobis", lat := lat, lon := lon, gmt := gmt,
           sigma := sigma, sensanth := sensanth, schtraffic := ← a.table? "traffic",
           sensocc := sensocc, latfocc := latfocc, radflight := radflight, radfequip := radfequip,
           sch := sch, bldHeight := bldHeight, bldDensity := bldDensity, verToHor := verToHor,
           treeCoverage := treeCoverage, vegcover := vegcover, roadShad := roadShad,
           canAspect := canAspect, roadConf := roadConf, wallConf := wallConf, facArea := facArea,
           roadArea := roadArea, roofArea := roofArea, z0u := z0u, lDisp := lDisp,
           albWall := albWall, hMix := hMix, latAnthrop := ← a.orat? "latAnthrop",
           nzref := ← a.nat? "nzref", nzfor := ← a.nat? "nzfor", z := ← a.rats? "z",
           dz := ← a.rats? "dz", z0r := z0r, disp := disp, ublDayBLHeight := dayBL,
           ublNightBLHeight := nightBL, orthLength := orthLength, urbArea := urbArea,
           perimeter := perimeter, paralLength := paralLength, charLength := charLength,
           nightCount := Air.loopCount charLength paralLength }
  | _, _, _, _ => none

def mkLayers : List ℚ → List ℚ → List ℚ → List ℚ → List (Layer ℚ)
  | d :: ds, k :: ks, c :: cs, t :: ts => { d := d, k := k, c := c, t := t } :: mkLayers ds ks cs ts
  | _, _, _, _ => []

def parseElem (a : Args) (p : String) : Option (Elem ℚ) := do
  let cover ← match a.get? (p ++ "cover") with
    | some "none" => some none
    | some v => match parseRatList? v with
      | some [g, t] => some (some (g, t))
      | _ => none
    | none => none
  let d ← a.rats? (p ++ "d")
  let k ← a.rats? (p ++ "k")
  let c ← a.rats? (p ++ "cv")
  let t ← a.rats? (p ++ "t")
  if d.length ≠ t.length ∨ k.length ≠ t.length ∨ c.length ≠ t.length then none
  match ← a.rats? (p ++ "c") with
  | [albedo, emissivity, vegcoverage, solRec, infra, aeroCond, solAbs, lat, sens, flux, tExt, tInt] =>
    pure { horizontal := (← a.nat? (p ++ "h")) ≠ 0, albedo := albedo, emissivity := emissivity,
           vegcoverage := vegcoverage, roadCover := cover, layers := mkLayers d k c t,
           solRec := solRec, infra := infra, aeroCond := aeroCond, solAbs := solAbs, lat := lat,
           sens := sens, flux := flux, tExt := tExt, tInt := tInt }
  | _ => none

def fmtElem (p : String) (e : Elem ℚ) : String :=
  s!"{p}c=" ++ fmtRatList [e.albedo, e.emissivity, e.vegcoverage, e.solRec, e.infra, e.aeroCond,
    e.solAbs, e.lat, e.sens, e.flux, e.tExt, e.tInt] ++
  s!" {p}h={if e.horizontal then 1 else 0} {p}cover=" ++
  (match e.roadCover with
   | none => "none"
   | some (g, t) => fmtRatList [g, t]) ++
  s!" {p}d=" ++ fmtRatList (e.layers.map (·.d)) ++ s!" {p}k=" ++ fmtRatList (e.layers.map (·.k)) ++
  s!" {p}cv=" ++ fmtRatList (e.layers.map (·.c)) ++ s!" {p}t=" ++ fmtRatList (e.layers.map (·.t))

def bemOutList (o : Hvac.BemOut ℚ) : List ℚ :=
  [o.nFloor, o.intHeat, o.sensCoolDemand, o.sensHeatDemand, o.dehumDemand, o.Qhvac, o.Qheat,
   o.coolConsump, o.heatConsump, o.sensWaste, o.latWaste, o.indoorTemp, o.indoorHum, o.indoorRhum,
   o.fluxWall, o.fluxRoof, o.fluxMass, o.fluxSolar, o.fluxWindow, o.fluxInterior, o.fluxInfil,
   o.fluxVent, o.elecTotal, o.gasTotal]

def parseBemOut (s : String) : Option (Option (Hvac.BemOut ℚ)) :=
  if s = "none" then some none else
  match parseRatList? s with
  | some [nFloor, intHeat, sensCoolDemand, sensHeatDemand, dehumDemand, qhvac, qheat, coolConsump,
          heatConsump, sensWaste, latWaste, indoorTemp, indoorHum, indoorRhum, fluxWall, fluxRoof,
          fluxMass, fluxSolar, fluxWindow, fluxInterior, fluxInfil, fluxVent, elecTotal, gasTotal] =>
    some (some { nFloor := nFloor, intHeat := intHeat, sensCoolDemand := sensCoolDemand,
                 sensHeatDemand := sensHeatDemand, dehumDemand := dehumDemand, Qhvac := qhvac,
                 Qheat := qheat, coolConsump := coolConsump, heatConsump := heatConsump,
                 sensWaste := sensWaste, latWaste := latWaste, indoorTemp := indoorTemp,
                 indoorHum := indoorHum, indoorRhum := indoorRhum, fluxWall := fluxWall,
                 fluxRoof := fluxRoof, fluxMass := fluxMass, fluxSolar := fluxSolar,
                 fluxWindow := fluxWindow, fluxInterior := fluxInterior, fluxInfil := fluxInfil,
                 fluxVent := fluxVent, elecTotal := elecTotal, gasTotal := gasTotal })
  | _ => none

def parseBld (a : Args) (i : Nat) : Option (Bld ℚ) := do
  let p := s!"b{i}"
  let cond ← match a.get? (p ++ "cond") with
    | some "AIR" => some Hvac.Cond.air
    | some "WATER" => some Hvac.Cond.water
    | _ => none
  let out ← (a.get? (p ++ "out")) >>= parseBemOut
  match ← a.rats? (p ++ "c"), ← a.rats? (p ++ "s") with
  | [frac, flArea, floorHeight, infil, glazingRatio, uValue, shgc, copAdj, coolcap, heateff, heatCap],
    [elec, light, nocc, qocc, swh, gas, tWallex, tWallin, tRoofex, tRoofin, elecTotal, coolSetDay,
     coolSetNight, heatSetDay, heatSetNight, vent, intHeatDay, intHeatNight, intHeatFRad,
     intHeatFLat, indoorTemp, indoorHum] =>
    pure { frac := frac, flArea := flArea, floorHeight := floorHeight, infil := infil,
           glazingRatio := glazingRatio, uValue := uValue, shgc := shgc, cond := cond,
           copAdj := copAdj, coolcap := coolcap, heateff := heateff, heatCap := heatCap,
           mass := ← parseElem a (p ++ "mass"), wall := ← parseElem a (p ++ "wall"),
           roof := ← parseElem a (p ++ "roof"), elec := elec, light := light, nocc := nocc,
           qocc := qocc, swh := swh, gas := gas, tWallex := tWallex, tWallin := tWallin,
           tRoofex := tRoofex, tRoofin := tRoofin, elecTotal := elecTotal, coolSetDay := coolSetDay,
           coolSetNight := coolSetNight, heatSetDay := heatSetDay, heatSetNight := heatSetNight,
           vent := vent, intHeatDay := intHeatDay, intHeatNight := intHeatNight,
           intHeatFRad := intHeatFRad, intHeatFLat := intHeatFLat, indoorTemp := indoorTemp,
           indoorHum := indoorHum, latWaste := ← a.orat? (p ++ "lw"), out := out }
  | _, _ => none

def fmtBld (i : Nat) (b : Bld ℚ) : String :=
  let p := s!"b{i}"
  s!"{p}c=" ++ fmtRatList [b.frac, b.flArea, b.floorHeight, b.infil, b.glazingRatio, b.uValue,
    b.shgc, b.copAdj, b.coolcap, b.heateff, b.heatCap] ++
  s!" {p}cond=" ++ (match b.cond with | .air => "AIR" | .water => "WATER") ++
  s!" {p}s=" ++ fmtRatList [b.elec, b.light, b.nocc, b.qocc, b.swh, b.gas, b.tWallex, b.tWallin,
    b.tRoofex, b.tRoofin, b.elecTotal, b.coolSetDay, b.coolSetNight, b.heatSetDay, b.heatSetNight,
    b.vent, b.intHeatDay, b.intHeatNight, b.intHeatFRad, b.intHeatFLat, b.indoorTemp, b.indoorHum] ++
  s!" {p}lw=" ++ fmtORat b.latWaste ++
  s!" {p}out=" ++ (match b.out with | none => "none" | some o => fmtRatList (bemOutList o)) ++
  " " ++ fmtElem (p ++ "mass") b.mass ++ " " ++ fmtElem (p ++ "wall") b.wall ++
  " " ++ fmtElem (p ++ "roof") b.roof

def parseUcm (a : Args) : Option (Ucm ℚ) := do
  match ← a.rats? "ucm" with
  | [canTemp, roadTemp, canHum, canWind, ustar, ustarMod, uExch, turbU, turbV, turbW, sensHeat,
     sensAnthrop, treeSensHeat, treeLatHeat, solRecRoof, solRecRoad, solRecWall, qRoof, qWall,
     qWindow, qRoad, qHvac, qTraffic, qUbl, qVent, elecTotal, gasTotal, roofTemp, wallTemp] =>
    pure { road := ← parseElem a "road", canTemp := canTemp, roadTemp := roadTemp, canHum := canHum,
           canWind := canWind, ustar := ustar, ustarMod := ustarMod, uExch := uExch, turbU := turbU,
           turbV := turbV, turbW := turbW, sensHeat := sensHeat, latHeat := ← a.orat? "latHeat",
           windProf := ← a.rats? "uwp", sensAnthrop := sensAnthrop, treeSensHeat := treeSensHeat,
           treeLatHeat := treeLatHeat, solRecRoof := solRecRoof, solRecRoad := solRecRoad,
           solRecWall := solRecWall, qRoof := qRoof, qWall := qWall, qWindow := qWindow,
           qRoad := qRoad, qHvac := qHvac, qTraffic := qTraffic, qUbl := qUbl, qVent := qVent,
           elecTotal := elecTotal, gasTotal := gasTotal, roofTemp := roofTemp, wallTemp := wallTemp,
           canRHum := ← a.orat? "canRHum", tdp := ← a.orat? "tdp" }
  | _ => none

def fmtUcm (u : Ucm ℚ) : String :=
  "ucm=" ++ fmtRatList [u.canTemp, u.roadTemp, u.canHum, u.canWind, u.ustar, u.ustarMod, u.uExch,
    u.turbU, u.turbV, u.turbW, u.sensHeat, u.sensAnthrop, u.treeSensHeat, u.treeLatHeat,
    u.solRecRoof, u.solRecRoad, u.solRecWall, u.qRoof, u.qWall, u.qWindow, u.qRoad, u.qHvac,
    u.qTraffic, u.qUbl, u.qVent, u.elecTotal, u.gasTotal, u.roofTemp, u.wallTemp] ++
  " latHeat=" ++ fmtORat u.latHeat ++ " uwp=" ++ fmtRatList u.windProf ++
  " canRHum=" ++ fmtORat u.canRHum ++ " tdp=" ++ fmtORat u.tdp ++ " " ++ fmtElem "road" u.road

def parseForc (l : List ℚ) : Option (Forcing ℚ) :=
  match l with
  | [deepTemp, waterTemp, infra, wind, uDir, hum, pres, temp, rHum, prec, dif, dir] =>
    some { deepTemp := deepTemp, waterTemp := waterTemp, infra := infra, wind := wind, uDir := uDir,
           hum := hum, pres := pres, temp := temp, rHum := rHum, prec := prec, dif := dif,
           dir := dir }
  | _ => none

def fmtForc (f : Forcing ℚ) : String :=
  "forc=" ++ fmtRatList [f.deepTemp, f.waterTemp, f.infra, f.wind, f.uDir, f.hum, f.pres, f.temp,
    f.rHum, f.prec, f.dif, f.dir]

def parseRsm (a : Args) : Option (Rsm.VdmOut ℚ) := do
  pure { st := { tempProf := ← a.rats? "tempProf", presProf := ← a.rats? "presProf",
                 tempRealProf := ← a.rats? "tempRealProf", densityProfC := ← a.rats? "densityProfC",
                 densityProfS := ← a.rats? "densityProfS", windProf := ← a.rats? "windProf" },
         ublPres := ← a.rat? "ublPres", dlu := ← a.rats? "dlu", dld := ← a.rats? "dld" }

def fmtRsm (r : Rsm.VdmOut ℚ) : String :=
  "tempProf=" ++ fmtRatList r.st.tempProf ++ " presProf=" ++ fmtRatList r.st.presProf ++
  " tempRealProf=" ++ fmtRatList r.st.tempRealProf ++ " densityProfC=" ++
  fmtRatList r.st.densityProfC ++ " densityProfS=" ++ fmtRatList r.st.densityProfS ++
  " windProf=" ++ fmtRatList r.st.windProf ++ " ublPres=" ++ fmtRat r.ublPres ++
  " dlu=" ++ fmtRatList r.dlu ++ " dld=" ++ fmtRatList r.dld

def parseState (a : Args) : Option (State ℚ) := do
  let nb ← a.nat? "nb"
  let blds ← (List.range nb).mapM (parseBld a)
  match ← a.rats? "ubl" with
  | [ublTemp, advHeat, sensHeat] =>
    pure { forc := ← (a.rats? "forc") >>= parseForc, ucm := ← parseUcm a,
           rural := ← parseElem a "rural", blds := blds,
           ubl := { ublTemp := ublTemp, cells := ← a.rats? "cells", advHeat := advHeat,
                    sensHeat := sensHeat },
           rsm := ← parseRsm a }
  | _ => none

def fmtBlds (bs : List (Bld ℚ)) : String :=
  " ".intercalate ((List.range bs.length).zip bs |>.map (fun p => fmtBld p.1 p.2))

def fmtState (s : State ℚ) : String :=
  fmtForc s.forc ++ " " ++ fmtUcm s.ucm ++ " " ++ fmtElem "rural" s.rural ++
  s!" nb={s.blds.length} " ++ fmtBlds s.blds ++
  " ubl=" ++ fmtRatList [s.ubl.ublTemp, s.ubl.advHeat, s.ubl.sensHeat] ++
  " cells=" ++ fmtRatList s.ubl.cells ++ " " ++ fmtRsm s.rsm

def parseRow (l : List ℚ) : Option (FRow ℚ) :=
  match l with
  | [infra, wind, uDir, hum, pres, temp, rHum, prec, dif, dir] =>
    some { infra := infra, wind := wind, uDir := uDir, hum := hum, pres := pres, temp := temp,
           rHum := rHum, prec := prec, dif := dif, dir := dir }
  | _ => none

def parseDeep (l : List ℚ) : Option (Deep ℚ) :=
  match l with
  | [a, b] => some { deepTemp := a, waterTemp := b }
  | _ => none

/-- `clock<i>=[secDay;hourDay;month;day;julian;recorded;row]`; `it` carries the pass number (used to
    select `deep<i>`), the other fields of the trace are not read by the physics. -/
def parseClock (i : Nat) (l : List Nat) : Option StepTrace :=
  match l with
  | [secDay, hourDay, month, day, julian, recorded, row] =>
    some { it := i, row := row, secDay := secDay, hourDay := hourDay, month := month, day := day,
           julian := julian, dayType := dayType julian, nBefore := i, recorded := recorded ≠ 0,
           monthBefore := month }
  | _ => none

def errName : Err → String
  | .zerodiv => "err zerodiv" | .index => "err index" | .value => "err value"
  | .fatal => "err fatal" | .assert => "err assert" | .type => "err type"
  | .unbound => "err unbound"

def fmtRec (r : Rec ℚ) : String := fmtRatList [r.canTemp, r.tdp, r.canRHum, r.wind]


/-! ### the pipeline ops -/

def fmtFrac' (q : Frac) : String := s!"{q.num}/{q.den}"

def fmtRes (x : Res) : String :=
  "[" ++ ";".intercalate [fmtFrac' x.tdb, fmtFrac' x.tdp, fmtFrac' x.rh, fmtFrac' x.wind] ++ "]"

def clsName : Err → String
  | .zerodiv => "zerodiv" | .index => "index" | .value => "value"
  | .fatal => "fatal" | .assert => "assert" | .type => "type"
  | .unbound => "unbound"

def stageName : PipeErr → String
  | .header .index => "err header-index"
  | .header .value => "err header-value"
  | .timestep .timestep => "err timestep"
  | .timestep .zerodiv => "err zerodiv"
  | .weather .index => "err weather-index"
  | .weather .type => "err weather-type"
  | .weather .zerodiv => "err weather-zerodiv"
  | .weather .value => "err weather-value"
  | .initWind => "err init-type"
  | .column .index => "err column-index"
  | .column .refused => "err refused"
  | .sim (.phys e) => "err sim-" ++ clsName e
  | .sim .index => "err sim-index"
  | .sim (.drv _) => "err sim-driver"
  | .write => "err write"

def pipeDrv (line : String) : String :=
  let (op, a) := parseLine line
  if op ≠ "pipe" ∧ op ≠ "psim" then "bad-op" else
  match parseCfg a, parseState a with
  | none, _ => "bad-cfg"
  | _, none => "bad-state"
  | some C, some s =>
    match a.get? "hdr" >>= decRows?, a.get? "rows" >>= decRows?, a.nat? "dt", a.nat? "M", a.nat? "D",
          a.nat? "days", a.nat? "hours", a.nat? "p", a.rat? "droad", a.rat? "kroad", a.rat? "croad" with
    | some hdr, some rows, some dt, some M, some D, some days, some hours, some p, some droad, some kroad,
      some croad =>
      if op = "pipe" then
        match pipelineCore stubQ C (fun _ => s) droad kroad croad dt M D days hours p hdr rows with
        | .ok t => "ok " ++ enc t
        | .error e => stageName e
      else
        match pipelineSim stubQ C (fun _ => s) droad kroad croad dt M D days hours hdr rows with
        | .ok (s', recs) => "ok " ++ fmtState s' ++ " recs=" ++ "|".intercalate (recs.map fmtRes)
        | .error e => stageName e
    | _, _, _, _, _, _, _, _, _, _, _ => "bad-args"

def main : IO Unit := loop pipeDrv
