import UwgVerif.Drv.Proto
import UwgVerif.Model.Season
open Uwg Uwg.Proto

def b2s (b : Bool) : String := if b then "1" else "0"

def stepC18 (line : String) : String :=
  let (op, a) := parseLine line
  match op with
  | "season" =>
    match a.nat? "m", a.nat? "s", a.nat? "e" with
    | some m, some s, some e => s!"ok {b2s (offSeasonElement m s e)} {b2s (offSeasonSolar m s e)}"
    | _, _, _ => "bad-args"
  | "surf" =>
    match a.nat? "m", a.nat? "s", a.nat? "e", a.rats? "v", a.get? "road" with
    | some m, some s, some e, some [alb, vc, g, t, solRec, infra, soilLat, aero, ts, tr, va, gf, tf], some road =>
      let i : SurfIn ℚ := { albedo := alb, vegcoverage := vc,
                            roadCover := if road == "1" then some (g, t) else none,
                            solRec := solRec, infra := infra, soilLat := soilLat, aeroCond := aero,
                            tSurf := ts, tempRef := tr, vegAlbedo := va, grassFLat := gf, treeFLat := tf }
      let o := surfFluxHorizontal (offSeasonElement m s e) i
      "ok " ++ fmtRatList [o.solAbs, o.lat, o.sens, o.flux]
    | _, _, _, _, _ => "bad-args"
  | "alb" =>
    match a.nat? "m", a.nat? "s", a.nat? "e", a.rats? "v" with
    | some m, some s, some e, some [alb, vc, va] =>
      "ok " ++ fmtRat (roadAlbedo (offSeasonSolar m s e) alb vc va)
    | _, _, _, _ => "bad-args"
  | "vegheat" =>
    match a.nat? "m", a.nat? "s", a.nat? "e", a.rats? "v" with
    | some m, some s, some e, some [va, tf, gf, r, tc, vc] =>
      let o := vegHeat (offSeasonSolar m s e) va tf gf r tc vc
      "ok " ++ fmtRatList [o.1, o.2]
    | _, _, _, _ => "bad-args"
  | _ => "bad-op"

def main : IO Unit := loop stepC18
