/-
Line protocol shared by all correspondence drivers.

One case per input line:   <op> key=value key=value ...
Values: rationals `p/q` or `p` (optional leading `-`), lists `[v;v;...]`, bare words.
One canonical answer line per case: `ok ...` or `err <class>`.
-/
import Mathlib.Algebra.Order.Field.Rat

namespace Uwg.Proto

def parseNat? (s : String) : Option Nat := s.toNat?

def parseInt? (s : String) : Option Int :=
  if s.startsWith "-" then (s.drop 1).toString.toNat?.map (fun n => -(n : Int))
  else s.toNat?.map (fun n => (n : Int))

/-- `p/q`, `p`, `-p/q`. -/
def parseRat? (s : String) : Option ℚ :=
  match s.splitOn "/" with
  | [p] => (parseInt? p).map (fun n => (n : ℚ))
  | [p, q] => do
    let n ← parseInt? p
    let d ← parseNat? q
    if d = 0 then none else some (mkRat n d)
  | _ => none

/-- `[a;b;c]` → list of strings (`[]` → empty). -/
def parseList? (s : String) : Option (List String) :=
  if s.startsWith "[" && s.endsWith "]" then
    let inner := ((s.drop 1).toString.dropEnd 1).toString
    if inner.isEmpty then some [] else some (inner.splitOn ";")
  else none

def parseRatList? (s : String) : Option (List ℚ) := do
  let ws ← parseList? s
  ws.mapM parseRat?

def parseNatList? (s : String) : Option (List Nat) := do
  let ws ← parseList? s
  ws.mapM parseNat?

def fmtRat (r : ℚ) : String := s!"{r.num}/{r.den}"

def fmtRatList (l : List ℚ) : String := "[" ++ ";".intercalate (l.map fmtRat) ++ "]"

def fmtNatList (l : List Nat) : String := "[" ++ ";".intercalate (l.map toString) ++ "]"

abbrev Args := List (String × String)

/-- Split a line into op and key=value arguments. -/
def parseLine (line : String) : String × Args :=
  match (line.trimAscii.toString.splitOn " ").filter (· ≠ "") with
  | [] => ("", [])
  | op :: rest =>
    (op, rest.filterMap (fun w =>
      match w.splitOn "=" with
      | k :: v :: more => some (k, "=".intercalate (v :: more))
      | _ => none))

def Args.get? (a : Args) (k : String) : Option String := (a.find? (·.1 == k)).map (·.2)
def Args.rat? (a : Args) (k : String) : Option ℚ := a.get? k >>= parseRat?
def Args.nat? (a : Args) (k : String) : Option Nat := a.get? k >>= parseNat?
def Args.int? (a : Args) (k : String) : Option Int := a.get? k >>= parseInt?
def Args.rats? (a : Args) (k : String) : Option (List ℚ) := a.get? k >>= parseRatList?
def Args.nats? (a : Args) (k : String) : Option (List Nat) := a.get? k >>= parseNatList?

/-- Read stdin line by line, answer each with `step`. -/
partial def loop (step : String → String) : IO Unit := do
  let stdin ← IO.getStdin
  let stdout ← IO.getStdout
  let rec go : IO Unit := do
    let line ← stdin.getLine
    if line.isEmpty then return ()
    if line.trimAscii.toString.isEmpty then go else
    stdout.putStrLn (step line)
    go
  go
  stdout.flush

end Uwg.Proto
