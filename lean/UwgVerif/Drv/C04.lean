import UwgVerif.Drv.Proto
import UwgVerif.Model.Clock
open Uwg Uwg.Proto

/-- One state in canonical text: `month,day,julian,secDay,hourDay,dayType`. -/
def fmtClock (c : Clock) : String :=
  s!"{c.month},{c.day},{c.julian},{c.secDay},{c.hourDay},{dayType c.julian}"

def hashP : Nat := 2305843009213693951

/-- `dtype = false`: the day type is left out (stand-alone `SimParam` has none). -/
def packClock (dtype : Bool) (c : Clock) : Nat :=
  c.month + 13 * (c.day + 40 * (c.julian + 400 * (c.secDay + 86401 *
    (c.hourDay + 25 * (if dtype then dayType c.julian else 0)))))

/-- Step the model clock `k` times; digest of every state after each update, the last state, or the index
of the update that raised. -/
def digestRun (dtype : Bool) (dt : Nat) : Nat → Nat → Nat → Clock → Except Nat (Nat × Clock)
  | 0, _, h, c => .ok (h, c)
  | k + 1, i, h, c =>
    match Clock.update dt c with
    | none => .error (i + 1)
    | some c' => digestRun dtype dt k (i + 1) ((h * 1000003 + packClock dtype c') % hashP) c'

def fullRun (dt : Nat) : Nat → Nat → List String → Clock → Except Nat (List String)
  | 0, _, acc, _ => .ok acc.reverse
  | k + 1, i, acc, c =>
    match Clock.update dt c with
    | none => .error (i + 1)
    | some c' => fullRun dt k (i + 1) (fmtClock c' :: acc) c'

/-- `raw=1`: the constructor's timestep guard is bypassed (the harness sets `dt` on the object afterwards),
so that `update_date` is exercised for arbitrary `dt`. -/
def mkClock (a : Args) (dt M D : Nat) : Except ClockErr Clock :=
  if a.nat? "raw" = some 1 then .ok (Clock.init M D) else Clock.create dt M D

def withClock (a : Args) (f : Nat → Nat → Clock → String) : String :=
  match a.nat? "M", a.nat? "D", a.nat? "dt", a.nat? "k" with
  | some M, some D, some dt, some k =>
    match mkClock a dt M D with
    | .error .zerodiv => "err zerodiv"
    | .error .timestep => "err timestep"
    | .ok c => f dt k c
  | _, _, _, _ => "bad-args"

def stepC04 (line : String) : String :=
  let (op, a) := parseLine line
  match op with
  | "clock" =>
    withClock a fun dt k c =>
      match Clock.run dt k c with
      | some c => "ok " ++ fmtClock c
      | none => "err timestep"
  | "trace" =>
    withClock a fun dt k c =>
      match digestRun (a.nat? "dtype" != some 0) dt k 0 0 c with
      | .ok (h, c) => s!"ok digest={h} last={fmtClock c}"
      | .error i => s!"err timestep at={i}"
  | "full" =>
    withClock a fun dt k c =>
      match fullRun dt k 0 [] c with
      | .ok l => "ok " ++ ";".intercalate l
      | .error i => s!"err timestep at={i}"
  | "cal" =>
    -- the specification itself: true calendar fields and true day type at `secs`
    match a.nat? "secs" with
    | some secs =>
      let c := trueCalendar secs
      s!"ok {c.month},{c.day},{c.julian},{c.secDay},{c.hourDay},{trueDayType c.julian}"
    | none => "bad-args"
  | _ => "bad-op"

def main : IO Unit := loop stepC04
