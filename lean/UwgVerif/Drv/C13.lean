import UwgVerif.Drv.Proto
import UwgVerif.Model.Canyon
open Uwg Uwg.Proto Uwg.Canyon

def fmtErr : Err → String
  | .zerodiv => "err zerodiv"
  | .value => "err value"

/-- Symbols for a run: the shared stub table, optionally with the two roots that
    `UCMDef.__init__` takes replaced by supplied exact values (`root=` for `pow(a²+1, 0.5)`,
    `sq=` for `sqrt(bldDensity)`), as the harness does on the Python side for Pythagorean
    geometries. -/
def symFor (a : Args) : Sym ℚ :=
  let s0 := stubQ
  let s1 : Sym ℚ := match a.rat? "root" with
    | some r => { s0 with rpow := fun _ _ => r }
    | none => s0
  match a.rat? "sq" with
  | some r => { s1 with sqrt := fun _ => r }
  | none => s1

def stepC13 (line : String) : String :=
  let (op, a) := parseLine line
  match op with
  | "ucm" =>
    match a.rat? "h", a.rat? "dens", a.rat? "vth", a.rat? "tree", a.rat? "veg" with
    | some h, some dens, some vth, some tree, some veg =>
      match ucmGeometry (symFor a) h dens vth tree veg with
      | .ok g => "ok " ++ fmtRatList [g.vegcover, g.roadShad, g.bldWidth, g.canWidth, g.canAspect,
                                      g.roadConf, g.wallConf, g.facArea, g.roadArea, g.roofArea]
      | .error e => fmtErr e
    | _, _, _, _, _ => "bad-args"
  | "solar" =>
    let cl : Closure := if a.get? "cl" == some "spec" then .spec else .impl
    match a.rats? "sun", a.rats? "geo", a.int? "month", a.int? "vs", a.int? "ve", a.rats? "sfc" with
    | some [dir, dif, zen, tz, crit], some [asp, rc, wc], some month, some vs, some ve,
      some [ralb, rveg, valb, walb, tree, vegc, tfl, gfl] =>
      let i : SolarIn ℚ :=
        { dir := dir, dif := dif, zenith := zen, tanzen := tz, critOrient := crit,
          canAspect := asp, roadConf := rc, wallConf := wc, month := month, vegStart := vs,
          vegEnd := ve, roadAlbedo := ralb, roadVeg := rveg, vegAlbedo := valb, albWall := walb,
          treeCoverage := tree, vegcover := vegc, treeFLat := tfl, grassFLat := gfl }
      match solarcalcs cl stubQ i with
      | .ok o =>
        let core := [o.roadRec, o.ruralRec, o.roofRec, o.wallRec, o.solRecRoof, o.solRecRoad,
                     o.solRecWall, o.treeSens, o.treeLat]
        if o.sun then
          "ok sun " ++ fmtRatList (core ++ [o.horSol, o.kw, o.kr, o.bldSol, o.roadSol, o.mr, o.mw])
        else "ok nosun " ++ fmtRatList core
      | .error e => fmtErr e
    | _, _, _, _, _, _ => "bad-args"
  | "infra" =>
    match a.rats? "v" with
    | some [rc, wc, shad, infra, er, ew, tr, tw] =>
      let r := infracalcs (K := ℚ) ⟨rc, wc, shad, infra, er, ew, tr, tw⟩
      "ok " ++ fmtRatList [r.1, r.2]
    | _ => "bad-args"
  | "coef" =>
    -- absorbed fractions of the coded closure (known-finding signature: cR > 1)
    match a.rats? "v" with
    | some [asp, rc, wc, ar, aw] =>
      "ok " ++ fmtRatList [cR asp rc wc ar aw, cB asp rc wc ar aw,
                           absorbedOf .impl asp rc wc ar aw 1 0,
                           absorbedOf .spec asp rc wc ar aw 1 0]
    | _ => "bad-args"
  | _ => "bad-op"

def main : IO Unit := loop stepC13
