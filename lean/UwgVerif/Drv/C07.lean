/-
Line-protocol driver for C07 and C08 (model `Uwg.Bem`, executed at ℚ).

  lib nt=<rows> nz=<zone columns> cells=[c;c;…]     define the current library (type × 3 eras × nz,
                                                     row-major);  c = `-` (None) or
                                                     `type,era,pid,glz,shgc,albw,albr,vegr,flrh`
  bem|sel|asis zone=… bld=[type,eratext,frac;…] glzr=v|none shgc=… albwall=… albroof=… vegroof=…
      flrh=… cl=… bd=… bh=… customs=[c;…]            generate's customise-then-select on the current
                                                     library (`asis`: the logic before the repair)
  wf zone=…                                          the decidable well-formedness checks of the
                                                     theorems on the current library at that zone
  setbld bld=[…]                                     the `bld` setter
  setov kind=01|pos v=…                              an override setter

Answers: `ok n=<k> e=[type,era,pid,frac,flarea,glz,shgc,albw,albr,vegr,flrh;…] tot=[g;s;a]`
(`sel`: no flarea, no totals), `ok`, or `err <class>`.
-/
import UwgVerif.Drv.Proto
import UwgVerif.Model.Bem
import UwgVerif.Lemmas.Bem
open Uwg Uwg.Proto Uwg.Bem

def parseCell? (s : String) : Option (Option (Arch ℚ)) :=
  if s == "-" then some none else
  match s.splitOn "," with
  | [t, e, p, a, b, c, d, f, g] => do
    let e ← parseNat? e
    let p ← parseNat? p
    let a ← parseRat? a
    let b ← parseRat? b
    let c ← parseRat? c
    let d ← parseRat? d
    let f ← parseRat? f
    let g ← parseRat? g
    pure (some ⟨t, e, p, a, b, c, d, f, g⟩)
  | _ => none

def chunk {α : Type} (n : Nat) (l : List α) : List (List α) :=
  if n = 0 then [] else
  let rec go (fuel : Nat) (l : List α) (acc : List (List α)) : List (List α) :=
    match fuel, l with
    | 0, _ => acc.reverse
    | _, [] => acc.reverse
    | fuel + 1, l => go fuel (l.drop n) (l.take n :: acc)
  go (l.length + 1) l []

def parseLib? (a : Args) : Option (Lib ℚ) := do
  let nz ← a.nat? "nz"
  let ws ← a.get? "cells" >>= parseList?
  let cells ← ws.mapM parseCell?
  pure ((chunk 3 (chunk nz cells)))

def parseRow? (s : String) : Option (Row ℚ) :=
  match s.splitOn "," with
  | [t, e, f] => (parseRat? f).map (fun f => ⟨t, e, f⟩)
  | _ => none

def parseOpt? (a : Args) (k : String) : Option (Option ℚ) :=
  match a.get? k with
  | none => none
  | some "none" => some none
  | some s => (parseRat? s).map some

def parseParams? (a : Args) : Option (Params ℚ × List (Arch ℚ)) := do
  let zone ← a.get? "zone"
  let bld ← (a.get? "bld" >>= parseList?) >>= (·.mapM parseRow?)
  let glzr ← parseOpt? a "glzr"
  let shgc ← parseOpt? a "shgc"
  let albwall ← parseOpt? a "albwall"
  let albroof ← parseOpt? a "albroof"
  let vegroof ← parseOpt? a "vegroof"
  let flrh ← parseOpt? a "flrh"
  let cl ← a.rat? "cl"
  let bd ← a.rat? "bd"
  let bh ← a.rat? "bh"
  let cs ← (a.get? "customs" >>= parseList?) >>= (·.mapM parseCell?)
  pure (⟨zone, bld, glzr, shgc, albwall, albroof, vegroof, flrh, cl, bd, bh⟩, cs.filterMap id)

def fmtEntry (full : Bool) (e : Entry ℚ) : String :=
  let a := e.arch
  ",".intercalate
    ([a.bldtype, toString a.era, toString a.pid, fmtRat e.frac] ++
     (if full then [fmtRat e.flArea] else []) ++
     [fmtRat a.glz, fmtRat a.shgc, fmtRat a.albWall, fmtRat a.albRoof, fmtRat a.vegRoof,
      fmtRat a.flrH])

def fmtResult (full : Bool) : Except Err (List (Entry ℚ) × Totals ℚ) → String
  | .error e => "err " ++ e.name
  | .ok (es, t) =>
    s!"ok n={es.length} e=[" ++ ";".intercalate (es.map (fmtEntry full)) ++ "]" ++
      (if full then " tot=" ++ fmtRatList [t.rGlaze, t.shgc, t.albWall] else "")

def generateAsis (P : Params ℚ) (cs : List (Arch ℚ)) (lib : Lib ℚ) :=
  match cs with
  | [] => computeBEMAsis P lib
  | _ :: _ =>
    match customizeAsis P.zone cs lib with
    | .error e => .error e
    | .ok lib' => computeBEMAsis P lib'

def stepC07 (lib : Lib ℚ) (line : String) : Lib ℚ × String :=
  let (op, a) := parseLine line
  match op with
  | "lib" =>
    match parseLib? a with
    | some l => (l, s!"ok lib rows={l.length}")
    | none => (lib, "bad-args")
  | "bem" =>
    match parseParams? a with
    | some (P, cs) => (lib, fmtResult true (generateBEM P cs lib))
    | none => (lib, "bad-args")
  | "sel" =>
    match parseParams? a with
    | some (P, cs) => (lib, fmtResult false (generateBEM P cs lib))
    | none => (lib, "bad-args")
  | "asis" =>
    match parseParams? a with
    | some (P, cs) => (lib, fmtResult true (generateAsis P cs lib))
    | none => (lib, "bad-args")
  | "wf" =>
    match a.get? "zone" >>= zoneIdx? with
    | some z =>
      let b (x : Bool) : String := if x then "1" else "0"
      (lib, s!"ok shape={b (shapeOKb z lib)} slot={b (slotOKb z lib)} " ++
        s!"keys={b (decide (KeysUnique z lib))} reflib={b (refLibB z lib)}")
    | none => (lib, "err value")
  | "setbld" =>
    match (a.get? "bld" >>= parseList?) >>= (·.mapM parseRow?) with
    | some rows =>
      match bldSetter rows with
      | .ok _ => (lib, "ok")
      | .error e => (lib, "err " ++ e.name)
    | none => (lib, "bad-args")
  | "setov" =>
    match a.get? "kind", parseOpt? a "v" with
    | some k, some v =>
      match (if k == "pos" then ovSetterPos v else ovSetter01 v) with
      | .ok _ => (lib, "ok")
      | .error e => (lib, "err " ++ e.name)
    | _, _ => (lib, "bad-args")
  | _ => (lib, "bad-op")

partial def main : IO Unit := do
  let stdin ← IO.getStdin
  let stdout ← IO.getStdout
  let rec go (lib : Lib ℚ) : IO Unit := do
    let line ← stdin.getLine
    if line.isEmpty then return ()
    if line.trimAscii.toString.isEmpty then go lib else
    let (lib', ans) := stepC07 lib line
    stdout.putStrLn ans
    go lib'
  go []
  stdout.flush
