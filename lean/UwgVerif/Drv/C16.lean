import UwgVerif.Drv.Proto
import UwgVerif.Model.Diffusion
open Uwg Uwg.Proto

def fmtErr : PyErr → String
  | .index => "err index"
  | .zerodiv => "err zerodiv"

def fmtRes : Except PyErr (List ℚ) → String
  | .ok xs => "ok " ++ fmtRatList xs
  | .error e => fmtErr e

def mkRows : List ℚ → List ℚ → List ℚ → List ℚ → List (Row ℚ)
  | a :: as, b :: bs, c :: cs, y :: ys => ⟨a, b, c, y⟩ :: mkRows as bs cs ys
  | _, _, _, _ => []

def stepC16 (line : String) : String :=
  let (op, a) := parseLine line
  match op with
  | "diff" =>
    match a.nat? "nz", a.rat? "dt", a.rats? "co", a.rats? "da", a.rats? "daz", a.rats? "cd",
          a.rats? "dz" with
    | some nz, some dt, some co, some da, some daz, some cd, some dz =>
      fmtRes (diffusion nz dt co da daz cd dz)
    | _, _, _, _, _, _, _ => "bad-args"
  | "solve" =>
    match a.rats? "a", a.rats? "b", a.rats? "c", a.rats? "y" with
    | some la, some lb, some lc, some ly => fmtRes (solveChecked (mkRows la lb lc ly))
    | _, _, _, _ => "bad-args"
  | _ => "bad-op"

def main : IO Unit := loop stepC16
