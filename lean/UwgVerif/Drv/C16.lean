import UwgVerif.Drv.Proto
import UwgVerif.Model.Diffusion
import UwgVerif.Model.RsmCoef
open Uwg Uwg.Proto

def fmtErr : PyErr → String
  | .index => "err index"
  | .zerodiv => "err zerodiv"

def fmtRes : Except PyErr (List ℚ) → String
  | .ok xs => "ok " ++ fmtRatList xs
  | .error e => fmtErr e

def mkRows : List ℚ → List ℚ → List ℚ → List ℚ → List (Row ℚ)
  | a :: as, b :: bs, c :: cs, y :: ys => ⟨a, b, c, y⟩ :: mkRows as bs cs ys
  | _, _, _, _ => []

/-! ### `RSMDef.dissipation_bougeault`, `length_bougeault`, `diffusion_coefficient`, `vdm` -/

def fmtRErr : Rsm.RErr → String
  | .index => "err index"
  | .zerodiv => "err zerodiv"
  | .value => "err value"

def fmtR (f : α → String) : Rsm.R α → String
  | .ok a => "ok " ++ f a
  | .error e => fmtRErr e

def param? (a : Args) : Option (Rsm.Param ℚ) :=
  match a.rat? "r", a.rat? "cp", a.rat? "g", a.rat? "vk", a.rat? "daybl" with
  | some r, some cp, some g, some vk, some d => some ⟨r, cp, g, vk, d⟩
  | _, _, _, _, _ => none

def state? (a : Args) : Option (Rsm.VdmState ℚ) :=
  match a.rats? "temp", a.rats? "pres", a.rats? "treal", a.rats? "dc", a.rats? "ds",
        a.rats? "wind" with
  | some t, some p, some tr, some dc, some ds, some w => some ⟨t, p, tr, dc, ds, w⟩
  | _, _, _, _, _, _ => none

def forc? (a : Args) : Option (Rsm.Forc ℚ) :=
  match a.rat? "ftemp", a.rat? "fpres", a.rat? "fwind" with
  | some t, some p, some w => some ⟨t, p, w⟩
  | _, _, _ => none

def fmtCoef (o : Rsm.CoefOut ℚ) : String :=
  s!"kt={fmtRatList o.kt} ustar={fmtRat o.ustar} te={fmtRatList o.te} " ++
  s!"dlu={fmtRatList o.dlu} dld={fmtRatList o.dld}"

def fmtVdm (o : Rsm.VdmOut ℚ) : String :=
  s!"temp={fmtRatList o.st.tempProf} pres={fmtRatList o.st.presProf} " ++
  s!"treal={fmtRatList o.st.tempRealProf} dc={fmtRatList o.st.densityProfC} " ++
  s!"ds={fmtRatList o.st.densityProfS} wind={fmtRatList o.st.windProf} " ++
  s!"ubl={fmtRat o.ublPres} dlu={fmtRatList o.dlu} dld={fmtRatList o.dld}"

def stepC16 (line : String) : String :=
  let (op, a) := parseLine line
  match op with
  | "diff" =>
    match a.nat? "nz", a.rat? "dt", a.rats? "co", a.rats? "da", a.rats? "daz", a.rats? "cd",
          a.rats? "dz" with
    | some nz, some dt, some co, some da, some daz, some cd, some dz =>
      fmtRes (diffusion nz dt co da daz cd dz)
    | _, _, _, _, _, _, _ => "bad-args"
  | "solve" =>
    match a.rats? "a", a.rats? "b", a.rats? "c", a.rats? "y" with
    | some la, some lb, some lc, some ly => fmtRes (solveChecked (mkRows la lb lc ly))
    | _, _, _, _ => "bad-args"
  | "dissip" =>
    match a.rat? "g", a.nat? "nz", a.rats? "z", a.rats? "dz", a.rats? "te", a.rats? "pt" with
    | some g, some nz, some z, some dz, some te, some pt =>
      fmtR (fun (r : List ℚ × List ℚ) => s!"dlu={fmtRatList r.1} dld={fmtRatList r.2}")
        (Rsm.dissipation stubQ g nz z dz te pt)
    | _, _, _, _, _, _ => "bad-args"
  | "lengths" =>
    match a.nat? "nz", a.rats? "dld", a.rats? "dlu", a.rats? "z" with
    | some nz, some dld, some dlu, some z =>
      fmtR (fun (r : List ℚ × List ℚ × List ℚ) =>
          s!"dld={fmtRatList r.1} dls={fmtRatList r.2.1} dlk={fmtRatList r.2.2}")
        (Rsm.lengthBougeault stubQ nz dld dlu z)
    | _, _, _, _ => "bad-args"
  | "coef" =>
    match param? a, a.rat? "rho", a.rats? "z", a.rats? "dz", a.rat? "z0", a.rat? "disp",
          a.rat? "trur", a.rat? "heat", a.nat? "nz", a.rat? "uref", a.rats? "th" with
    | some P, some rho, some z, some dz, some z0, some disp, some trur, some heat, some nz,
      some uref, some th =>
      fmtR fmtCoef (Rsm.diffusionCoefficient stubQ P rho z dz z0 disp trur heat nz uref th)
    | _, _, _, _, _, _, _, _, _, _, _ => "bad-args"
  | "vdm" =>
    match param? a, state? a, forc? a, a.nat? "nzref", a.nat? "nzfor", a.rat? "dt", a.rats? "z",
          a.rats? "dz", a.rat? "z0r", a.rat? "disp", a.rat? "sens" with
    | some P, some st, some F, some nzref, some nzfor, some dt, some z, some dz, some z0r,
      some disp, some sens =>
      fmtR fmtVdm (Rsm.vdm stubQ P nzref nzfor dt z dz z0r disp F sens st)
    | _, _, _, _, _, _, _, _, _, _, _ => "bad-args"
  | "grid" =>
    match a.rats? "zm" with
    | some zm =>
      let g := Rsm.mesoGrid zm
      s!"ok z={fmtRatList g.1} dz={fmtRatList g.2}"
    | none => "bad-args"
  | _ => "bad-op"

def main : IO Unit := loop stepC16
