import UwgVerif.Drv.Proto
import UwgVerif.Model.Procmat
import Mathlib.Data.Rat.Floor
open Uwg Uwg.Proto

def mkLays : List ℚ → List ℚ → List ℚ → List (Lay ℚ)
  | d :: ds, k :: ks, c :: cs => ⟨d, k, c⟩ :: mkLays ds ks cs
  | _, _, _ => []

def fmtLays (ls : List (Lay ℚ)) : String :=
  "d=" ++ fmtRatList (ls.map (·.d)) ++ " k=" ++ fmtRatList (ls.map (·.k)) ++ " c=" ++ fmtRatList (ls.map (·.c))

def stepC20 (line : String) : String :=
  let (op, a) := parseLine line
  match op with
  | "procmat" =>
    match a.rat? "max", a.rat? "min", a.rats? "d", a.rats? "k", a.rats? "c" with
    | some mx, some mn, some d, some k, some c =>
      match procmat mx mn (mkLays d k c) with
      | some out => "ok " ++ fmtLays out
      | none => "err index"
    | _, _, _, _, _ => "bad-args"
  | "column" =>
    match a.rat? "droad", a.rat? "kroad", a.rat? "croad", a.rats? "depths" with
    | some droad, some kroad, some croad, some depths =>
      match columnOutcome (1/20) (1/100) (1/1000000000000000) droad kroad croad 1 2000000 depths with
      | .ok ls idx =>
        "ok " ++ fmtLays ls ++ " idx=" ++ (match idx with | some i => toString i | none => "unset")
      | .index => "err index"
      | .refused => "err refused"
    | _, _, _, _ => "bad-args"
  | _ => "bad-op"

def main : IO Unit := loop stepC20
