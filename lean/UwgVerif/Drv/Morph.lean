/-
Line-protocol driver for composition A (`Model/Morph.lean`): the pipeline generate; simulate; write_epw
evaluated with the TOY PHYSICS of harness/simtoy.py (`toy_morph_run`).

Strings travel percent-encoded as in Drv/C01.lean (rows `<n>|<cell>;…`, lists of rows `<k>:<row>/…`).

Ops
  morph hdr=<rows> rows=<rows> dt= M= D= days= p= nsoil3=<0|1> raise=<nat> s0=<nat> wmin=<rat> c=<rat>
        → ok <enc text> | err timestep | err zerodiv | err weather | err sim-index | err sim-fatal | err write
        (`c` = the exact value of the double 273.15, `wmin` = the exact value of the double windMin)
  dbl x=<enc decimal text>  → ok p/q     (exact value of the double `float(x)`; helper of `proj`, tied separately)

The concrete instance: `proj` reads the cells of columns 6, 8, 9, 12, 14, 15, 20, 21 as decimal numbers
(`float(cell)`: the wind as the exact double, the others as the integers the toy folds); the toy step folds
everything a step may read into an integer code; the toy record derives the four written doubles from the
code and the pressure of the row, and copies `max(wind, windMin)`.
-/
import UwgVerif.Drv.Proto
import UwgVerif.Model.Morph
open Uwg Uwg.Csv Uwg.Sim Uwg.Morph Uwg.Proto

namespace MorphDrv

/-! ### percent-encoding (as Drv/C01.lean) -/

def hexDigit (n : Nat) : Char :=
  if n < 10 then Char.ofNat (48 + n) else Char.ofNat (55 + n)

def hexVal? (c : Char) : Option Nat :=
  if '0' ≤ c ∧ c ≤ '9' then some (c.toNat - 48)
  else if 'A' ≤ c ∧ c ≤ 'F' then some (c.toNat - 55)
  else if 'a' ≤ c ∧ c ≤ 'f' then some (c.toNat - 87)
  else none

def plain (c : Char) : Bool := c.isAlphanum || c = '.' || c = '_' || c = '-'

def enc (l : List Char) : String :=
  String.ofList (l.flatMap fun c =>
    if plain c then [c] else ['%', hexDigit (c.toNat / 16 % 16), hexDigit (c.toNat % 16)])

def decAux : List Char → Option (List Char)
  | [] => some []
  | '%' :: a :: b :: rest => do
    let x ← hexVal? a
    let y ← hexVal? b
    let r ← decAux rest
    some (Char.ofNat (16 * x + y) :: r)
  | '%' :: _ => none
  | c :: rest => (decAux rest).map (c :: ·)

def dec? (s : String) : Option (List Char) := decAux s.toList

def decRow? (s : String) : Option Row :=
  match s.splitOn "|" with
  | [n, body] => do
    let k ← n.toNat?
    if k = 0 then (if body.isEmpty then some [] else none) else
    let cells ← (body.splitOn ";").mapM dec?
    if cells.length = k then some cells else none
  | _ => none

def decRows? (s : String) : Option (List Row) :=
  match s.splitOn ":" with
  | [n, body] => do
    let k ← n.toNat?
    if k = 0 then (if body.isEmpty then some [] else none) else
    let rows ← (body.splitOn "/").mapM decRow?
    if rows.length = k then some rows else none
  | _ => none

/-! ### `float(cell)` -/

def digitsVal (l : List Char) : Option Nat :=
  if l.all Char.isDigit then some (l.foldl (fun acc c => acc * 10 + (c.toNat - 48)) 0) else none

/-- Decimal text `[+-]?d*(.d*)?` with at least one digit, blanks stripped (what the generator writes). -/
def parseDec (cell : List Char) : Option ℚ :=
  let s := (cell.dropWhile (· = ' ')).reverse.dropWhile (· = ' ') |>.reverse
  let (neg, body) := match s with
    | '-' :: r => (true, r)
    | '+' :: r => (false, r)
    | r => (false, r)
  let ip := body.takeWhile (· ≠ '.')
  let rest := body.dropWhile (· ≠ '.')
  let fp := match rest with
    | '.' :: f => f
    | _ => []
  if ip.isEmpty && fp.isEmpty then none else
  match digitsVal ip, digitsVal fp with
  | some a, some b =>
    let v : ℚ := (a : ℚ) + (b : ℚ) / (10 : ℚ) ^ fp.length
    some (if neg then -v else v)
  | _, _ => none

def pow2 (e : Int) : ℚ := if e ≥ 0 then (2 : ℚ) ^ e.toNat else 1 / (2 : ℚ) ^ (-e).toNat

/-- Round a non-negative rational to the nearest integer, ties to even. -/
def rne (q : ℚ) : Int :=
  let f := q.floor
  let r := q - f
  if r < 1 / 2 then f else if r > 1 / 2 then f + 1 else if f % 2 = 0 then f else f + 1

/-- The IEEE-754 binary64 value nearest to `q` (normal range; ties to even). -/
def nearestDouble (q : ℚ) : ℚ :=
  if q = 0 then 0 else
  let a := |q|
  let e0 : Int := 52 - ((Nat.log2 a.num.natAbs : Int) - (Nat.log2 a.den : Int))
  let e := if a * pow2 e0 < (2 : ℚ) ^ 52 then e0 + 1 else if a * pow2 e0 ≥ (2 : ℚ) ^ 53 then e0 - 1 else e0
  let m := rne (a * pow2 e)
  (if q < 0 then -1 else 1) * (m : ℚ) * pow2 (-e)

/-! ### the toy instance -/

structure TRow where
  t100 : Int
  rh : Int
  pres : Int
  infra : Int
  dir : Int
  dif : Int
  udir : Int
  wind : ℚ

def cellQ (r : Row) (j : Nat) : ℚ := ((r[j]?).bind parseDec).getD 0

/-- `int(x)` of a float: truncation toward zero. -/
def truncQ (q : ℚ) : Int := Int.tdiv q.num q.den

/-- The modelled columns of one rural row, as the toy reads them. -/
def proj (r : Row) : TRow :=
  { t100 := (cellQ r 6 * 100).floor + 27315     -- int(round((float(cell) + 273.15) * 100)), cells with <= 2 decimals
    rh := truncQ (cellQ r 8), pres := truncQ (cellQ r 9), infra := truncQ (cellQ r 12),
    dir := truncQ (cellQ r 14), dif := truncQ (cellQ r 15), udir := truncQ (cellQ r 20),
    wind := nearestDouble (cellQ r 21) }

def toFrac (q : ℚ) : Frac := ⟨q.num, q.den⟩

structure ToyCfg where
  raiseMod : Nat
  windMin : ℚ
  c27315 : ℚ

def toyPhys (cfg : ToyCfg) : Phys Nat TRow Int Res Unit where
  step s t r d :=
    let w := max r.wind cfg.windMin
    let w100 : Int := (w * 100 + 1 / 2).floor
    let v : Int := ((s : Int) * 31 + r.t100 + 3 * r.rh + 5 * r.pres + 7 * r.infra + 11 * r.dir + 13 * r.dif +
      17 * r.udir + 19 * w100 + 23 * t.month + 29 * t.hourDay + 37 * t.dayType + 41 * d + t.secDay) % 1000003
    if cfg.raiseMod ≠ 0 ∧ v.toNat % cfg.raiseMod = 0 then .error () else .ok v.toNat
  record s _ r :=
    let T : ℚ := 250 + ((s % 1024 : Nat) : ℚ) / 8
    let k : Int := (T * 8).floor
    { tdb := toFrac (T - cfg.c27315)
      tdp := toFrac (T / 4 - 60 - ((r.pres % 7 : Int) : ℚ) / 16)
      rh := toFrac ((((k * 37 + r.pres) % 1001 : Int) : ℚ) / 8)
      wind := toFrac (max r.wind cfg.windMin) }

def step (line : String) : String :=
  let (op, a) := parseLine line
  match op with
  | "dbl" =>
    match (a.get? "x" >>= dec?) >>= parseDec with
    | some q => "ok " ++ fmtRat (nearestDouble q)
    | none => "bad-args"
  | "morph" =>
    match a.get? "hdr" >>= decRows?, a.get? "rows" >>= decRows?, a.nat? "dt", a.nat? "M", a.nat? "D",
          a.nat? "days", a.nat? "p", a.nat? "nsoil3", a.nat? "raise", a.nat? "s0", a.rat? "wmin", a.rat? "c" with
    | some hdr, some rows, some dt, some M, some D, some days, some p, some ns, some rz, some s0,
      some wmin, some c =>
      let P := toyPhys ⟨rz, wmin, c⟩
      let mean : List TRow → Int := fun rs => (rs.foldl (fun acc r => acc + r.t100) 0) / (rs.length : Int)
      let init : Option TRow → Nat := fun r =>
        match r with
        | some r => ((s0 : Int) + r.t100).toNat % 1000003
        | none => s0
      match morph P (ns == 1) (fun m => 100 * (m : Int)) mean proj init dt M D days p hdr rows with
      | .ok t => "ok " ++ enc t
      | .error (.timestep .timestep) => "err timestep"
      | .error (.timestep .zerodiv) => "err zerodiv"
      | .error .weather => "err weather"
      | .error (.sim (.phys _)) => "err sim-fatal"
      | .error (.sim _) => "err sim-index"
      | .error .write => "err write"
    | _, _, _, _, _, _, _, _, _, _, _, _ => "bad-args"
  | _ => "bad-op"

end MorphDrv

def main : IO Unit := loop MorphDrv.step
