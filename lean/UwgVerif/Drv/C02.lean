import UwgVerif.Drv.Proto
import UwgVerif.Model.Driver
open Uwg Uwg.Proto

def hashP2 : Nat := 2147483647

def mix (h x : Nat) : Nat := (h * 1000003 + x) % hashP2

def fieldsOf (t : StepTrace) : List Nat :=
  [t.it, t.row, t.secDay, t.hourDay, t.month, t.day, t.julian, t.dayType, t.nBefore,
   (if t.recorded then 1 else 0), t.monthBefore]

def hashStep (h : Nat) (t : StepTrace) : Nat :=
  mix (mix (mix (mix (mix (mix (mix (mix (mix (mix (mix h t.it) t.row) t.secDay) t.hourDay) t.month) t.day)
    t.julian) t.dayType) t.nBefore) (if t.recorded then 1 else 0)) t.monthBefore

def fmtStep (t : StepTrace) : String := ",".intercalate ((fieldsOf t).map toString)

def errStr : DrvErr → String
  | .zerodiv => "err zerodiv"
  | .timestep => "err timestep"
  | .index => "err index"

/-- Iterate the model's `drvStep` keeping only digests: trace digest, number of steps, record digest
(over `(n, it, row)`), number of records. Same iteration as `drvLoop`, constant memory. -/
def digestLoop (dt N rows : Nat) : Nat → Nat → Clock → Nat → Nat → Nat → Nat → Nat →
    Except DrvErr (Nat × Nat × Nat × Nat)
  | 0, _, _, _, h, cnt, rh, rc => .ok (h, cnt, rh, rc)
  | steps + 1, it, c, n, h, cnt, rh, rc =>
    match drvStep dt N rows it c n with
    | .error e => .error e
    | .ok (c', n', t) =>
      let rh' := if t.recorded then mix (mix (mix rh t.nBefore) t.it) t.row else rh
      digestLoop dt N rows steps (it + 1) c' n' (hashStep h t) (cnt + 1) rh'
        (if t.recorded then rc + 1 else rc)

def stepC02 (line : String) : String :=
  let (op, a) := parseLine line
  match op with
  | "drv" =>
    -- `file=` : data rows of the rural file (the model derives the window); `rows=` overrides it
    let rows? := match a.nat? "rows", a.nat? "M", a.nat? "D", a.nat? "days", a.nat? "file" with
      | some r, _, _, _, _ => some r
      | none, some M, some D, some days, some f => some (windowRows M D days f)
      | _, _, _, _, _ => none
    match a.nat? "dt", a.nat? "M", a.nat? "D", a.nat? "days", rows? with
    | some dt, some M, some D, some days, some rows =>
      if a.nat? "full" = some 1 then
        -- the model's `driver` itself, whole trace and record list
        match driver ⟨dt, M, D, days, rows⟩ with
        | .error e => errStr e
        | .ok tr =>
          "ok " ++ ";".intercalate (tr.map fmtStep) ++ " rec=" ++
            ";".intercalate ((records tr).map fun r => s!"{r.1},{r.2.1},{r.2.2}")
      else
        match Clock.create dt M D with
        | .error .zerodiv => "err zerodiv"
        | .error .timestep => "err timestep"
        | .ok c0 =>
          match digestLoop dt (24 * days) rows (nt dt days - 1) 1 c0 0 0 0 0 0 with
          | .error e => errStr e
          | .ok (h, cnt, rh, rc) => s!"ok steps={cnt} digest={h} nrec={rc} rdigest={rh}"
    | _, _, _, _, _ => "bad-args"
  | "wrow" =>
    -- data row written for record slot n, its EPW stamp, and the window bounds
    match a.nat? "M", a.nat? "D", a.nat? "days", a.nat? "n" with
    | some M, some D, some days, some n =>
      let k := writeRow M D n
      let s := stamp k
      s!"ok row={k} stamp={s.1},{s.2.1},{s.2.2} HI={timeInitial M D} HF={timeFinal M D days} win={timeFinal M D days + 1 - timeInitial M D}"
    | _, _, _, _ => "bad-args"
  | "row" =>
    match a.nat? "dt", a.nat? "it" with
    | some dt, some it => s!"ok {rowIdx dt it}"
    | _, _ => "bad-args"
  | _ => "bad-op"

def main : IO Unit := loop stepC02
