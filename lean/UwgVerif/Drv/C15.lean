import UwgVerif.Drv.Proto
import UwgVerif.Model.AirNodes
import UwgVerif.Model.UrbFlux
import UwgVerif.Model.Symbols
open Uwg Uwg.Proto Uwg.Air

/-- per-building fields arrive as parallel lists -/
def mkBlds (cols : List (List ℚ)) : List (Bld ℚ) :=
  match cols with
  | [fr, ti, tw, gl, uv, ve, nf, inf, sw, sr, sh, tr, rs, fa, el, ga] =>
    let rec go : List ℚ → List ℚ → List ℚ → List ℚ → List ℚ → List ℚ → List ℚ → List ℚ →
        List ℚ → List ℚ → List ℚ → List ℚ → List ℚ → List ℚ → List ℚ → List ℚ → List (Bld ℚ)
      | a :: as, b :: bs, c :: cs, d :: ds, e :: es, f :: fs, g :: gs, h :: hs, i :: is, j :: js,
        k :: ks, l :: ls, m :: ms, n :: ns, o :: os, p :: ps =>
        { frac := a, indoorTemp := b, tWall := c, glazingRatio := d, uValue := e, vent := f,
          nFloor := g, infil := h, sensWaste := i, solRec := j, shgc := k, tRoof := l,
          roofSens := m, flArea := n, elecTotal := o, gasTotal := p } ::
          go as bs cs ds es fs gs hs is js ks ls ms ns os ps
      | _, _, _, _, _, _, _, _, _, _, _, _, _, _, _, _ => []
    go fr ti tw gl uv ve nf inf sw sr sh tr rs fa el ga
  | _ => []

def bldKeys : List String :=
  ["frac", "indoorTemp", "tWall", "glazingRatio", "uValue", "vent", "nFloor", "infil",
   "sensWaste", "solRec", "shgc", "tRoof", "roofSens", "flArea", "elecTotal", "gasTotal"]

def parseUcm (a : Args) : Option (UcmIn ℚ × List (Bld ℚ)) := do
  let r := fun k => a.rat? k
  let cols ← bldKeys.mapM (fun k => a.rats? k)
  let u : UcmIn ℚ := {
    pres := ← r "pres", forcHum := ← r "forcHum", cp := ← r "cp", tUbl := ← r "tUbl",
    canTemp := ← r "canTemp", canHum := ← r "canHum", tRoad := ← r "tRoad",
    aeroCond := ← r "aeroCond", roadArea := ← r "roadArea", roofArea := ← r "roofArea",
    facArea := ← r "facArea", uExch := ← r "uExch", sensAnthrop := ← r "sensAnthrop",
    treeSensHeat := ← r "treeSensHeat", bldHeight := ← r "bldHeight", hMix := ← r "hMix",
    bldDensity := ← r "bldDensity", verToHor := ← r "verToHor", qRoof0 := ← r "qRoof0" }
  pure (u, mkBlds cols)

def ucmOutList (o : UcmOut ℚ) : List ℚ :=
  [o.canTemp, o.qRoad, o.qUbl, o.qWall, o.qTraffic, o.qWindow, o.qVent, o.qHvac, o.qRoof,
   o.elecTotal, o.gasTotal, o.sensHeat, o.wallTemp, o.roofTemp]

def errName : Err → String
  | .zerodiv => "err zerodiv" | .index => "err index" | .fatal => "err fatal"

def parseUbl (a : Args) : Option (UblIn ℚ) := do
  let r := fun k => a.rat? k
  let charLength ← r "charLength"
  let paralLength ← r "paralLength"
  let rsm : Rsm ℚ := {
    nzref := ← a.nat? "nzref", nzfor := ← a.nat? "nzfor",
    densityProfC := ← a.rats? "densityProfC", dz := ← a.rats? "dz", z := ← a.rats? "z",
    tempProf := ← a.rats? "tempProf", windProf := ← a.rats? "windProf" }
  pure {
    sensHeat := ← r "sensHeat", qUbl := ← r "qUbl", ruralSens := ← r "ruralSens", cp := ← r "cp",
    circCoeff := ← r "circCoeff", g := ← r "g", dayThreshold := ← r "dayThreshold",
    windMin := ← r "windMin", wind := ← r "wind", dir := ← r "dir", dif := ← r "dif",
    secDay := ← r "secDay", dt := ← r "dt", dayBLHeight := ← r "dayBLHeight",
    nightBLHeight := ← r "nightBLHeight", orthLength := ← r "orthLength",
    urbArea := ← r "urbArea", perimeter := ← r "perimeter", paralLength := paralLength,
    charLength := charLength, ublTemp := ← r "ublTemp", cells := ← a.rats? "cells",
    count := loopCount charLength paralLength, rsm := rsm }

/-! ### where the weights come from (`Model/UrbFlux.lean`) -/

def urbErrName : Urb.Err → String
  | .zerodiv => "err zerodiv" | .index => "err index" | .value => "err value"
  | .type => "err type"

def canyonErrName : Canyon.Err → String
  | .zerodiv => "err zerodiv" | .value => "err value"

def parseUrb (a : Args) : Option (Urb.UrbIn ℚ) := do
  let r := fun k => a.rat? k
  let rsm : Rsm ℚ := {
    nzref := ← a.nat? "nzref", nzfor := ← a.nat? "nzfor",
    densityProfC := ← a.rats? "densityProfC", dz := ← a.rats? "dz", z := ← a.rats? "z",
    tempProf := ← a.rats? "tempProf", windProf := ← a.rats? "windProf" }
  pure {
    rsm := rsm, z0r := ← r "z0r", paralLength := ← r "paralLength", ublTemp := ← r "ublTemp",
    urbArea := ← r "urbArea", wind := ← r "wind", pres := ← r "pres", cp := ← r "cp",
    windHeight := ← r "windHeight", vk := ← r "vk", g := ← r "g", exCoeff := ← r "exCoeff",
    canTemp := ← r "canTemp", canHum := ← r "canHum", bldHeight := ← r "bldHeight",
    z0u := ← r "z0u", lDisp := ← r "lDisp", sensHeat := ← r "sensHeat",
    verToHor := ← r "verToHor", windProf0 := ← a.rats? "windProf0" }

def parseUcmInit (a : Args) : Option (Urb.UcmInitIn ℚ) := do
  let r := fun k => a.rat? k
  pure {
    bldHeight := ← r "h", bldDensity := ← r "dens", verToHor := ← r "vth",
    treeCoverage := ← r "tree", roadVeg := ← r "veg", roadAlbedo := ← r "ralb",
    initialWind := ← r "wind", windMin := ← r "windMin", rGlaze := ← r "rglaze",
    shgc := ← r "shgc", albWall := ← r "walb" }

def stepInputs (op : String) (a : Args) : String :=
  match op with
  | "urb" =>
    match parseUrb a with
    | some x =>
      match Urb.urbTail stubQ x with
      | .ok o => "ok " ++ fmtRatList [o.advHeat, o.ustar, o.ustarMod, o.uExch, o.canWind, o.turbU,
                                      o.turbV, o.turbW] ++ " " ++ fmtRatList o.windProf
      | .error e => urbErrName e
    | none => "bad-args"
  | "surf" =>
    match a.rat? "pres", a.rat? "tempRef", a.rat? "humRef", a.rat? "windRef" with
    | some p, some t, some q, some w =>
      match Urb.surfHead p t q w with
      | .ok (_, ac) => "ok " ++ fmtRat ac
      | .error e => urbErrName e
    | _, _, _, _ => "bad-args"
  | "ucminit" =>
    match parseUcmInit a with
    | some i =>
      match Urb.ucmInit stubQ i with
      | .ok o =>
        let g := o.geom
        "ok " ++ fmtRatList [g.vegcover, g.roadShad, g.bldWidth, g.canWidth, g.canAspect,
          g.roadConf, g.wallConf, g.facArea, g.roadArea, g.roofArea] ++ " " ++
          fmtRatList [o.ublWind, o.canWind, o.ustar, o.ustarMod, o.z0u, o.lDisp, o.facAbsor,
            o.roadAbsor]
      | .error e => canyonErrName e
    | none => "bad-args"
  | "ublinit" =>
    match a.rat? "charLength", a.rat? "maxdx" with
    | some l, some m =>
      match Urb.ublInit l m with
      | .ok g => "ok " ++ fmtRatList [g.perimeter, g.urbArea, g.orthLength, g.paralLength] ++
          s!" numdx={g.numdx} ncells={g.ncells} count=" ++
          (match loopCount l g.paralLength with
           | some n => toString n
           | none => "zerodiv")
      | .error e => urbErrName e
    | _, _ => "bad-args"
  | "rsmwind" =>
    match a.rat? "ustarRur", a.rat? "vk", a.rat? "disp", a.rat? "z0r", a.nat? "nzref",
        a.rats? "z", a.rats? "old" with
    | some u, some vk, some disp, some z0r, some n, some zs, some old =>
      match Urb.rsmWindLoop stubQ u vk disp z0r n zs old with
      | .ok l => "ok " ++ fmtRatList l
      | .error e => urbErrName e
    | _, _, _, _, _, _, _ => "bad-args"
  | _ => "bad-op"

def stepC15 (line : String) : String :=
  let (op, a) := parseLine line
  match op with
  | "ucm" =>
    match parseUcm a with
    | some (u, bs) =>
      match ucModel u bs with
      | .ok o => "ok " ++ fmtRatList (ucmOutList o)
      | .error e => errName e
    | none => "bad-args"
  | "ubl" =>
    match parseUbl a with
    | some b =>
      match ublModel stubQ.rpow b with
      | .ok o => "ok " ++ fmtRat o.ublTemp ++ " " ++ fmtRatList o.cells
      | .error e => errName e
    | none => "bad-args"
  | "night" =>
    -- UBLDef.nightforc called directly: a1, a2 are computed from the RSM lists as in the code
    match parseUbl a, a.rat? "csurf", a.rat? "hUBL" with
    | some b, some csurf, some h =>
      let b' := { b with nightBLHeight := h }
      if ¬ b'.rsm.wf then "err index"
      else if b'.paralLength = 0 ∨ h = 0 then "err zerodiv"
      else if b'.cells = [] then "err index"
      else if 1 + advCoef2 b' = 0 then "err zerodiv"
      else match b'.count with
        | none => "err zerodiv"
        | some n =>
          match nightforc b'.cells n csurf (advCoef1 b') (advCoef2 b') b'.paralLength
              b'.charLength with
          | none => "err index"
          | some (t, cs) =>
            if b'.charLength = 0 then "err zerodiv"
            else "ok " ++ fmtRat t ++ " " ++ fmtRatList cs
    | _, _, _ => "bad-args"
  | _ => stepInputs op a

def main : IO Unit := loop stepC15
