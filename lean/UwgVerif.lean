import UwgVerif.Model.Tridiag
import UwgVerif.Model.Conduction
import UwgVerif.Model.Symbols
import UwgVerif.Model.SymbolsReal
import UwgVerif.Lemmas.Tridiag
import UwgVerif.Lemmas.Conduction
import UwgVerif.Props.C11
import UwgVerif.Drv.Proto
