import UwgVerif.Model.Tridiag
