#!/bin/bash
# seed sweep of every quick check on the unchanged tree (run via: vp run -- notes/sweep.sh "1 2 3" )
seeds=${1:-"1 2 3"}
(cd lean && lake build > /dev/null 2>&1)
for s in $seeds; do
  for c in C01 C02 C03 C04 C05 C07 C08 C09 C10 C11 C12 C13 C14 C15 C16 C17 C18 C19 C20; do
    out=$(VERIF_SEED=$s timeout 1500 bin/check $c 2>&1); rc=$?
    echo "seed=$s $c rc=$rc $(echo "$out" | grep -c '^VIOLATION') viol; $(echo "$out" | tail -1)"
    if [ $rc -ne 0 ]; then echo "$out" | grep "VIOLATION\|INFRA\|Traceback\|Error" | head -5; fi
  done
done
