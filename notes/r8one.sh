#!/bin/bash
# r8one.sh <ID> <n>...: evaluate (own check) and confirm the given round-8 seeds of one property
id=$1; shift
for n in "$@"; do
  [ -f /tmp/seed8/$id/seed_out/change$n.diff ] || { echo "$id-$n: no diff"; continue; }
  ( notes/eval_seed.sh $id /tmp/seed8/$id/seed_out/change$n.diff > /tmp/ev/eval8_${id}_$n.txt 2>&1 ) &
  ( SEEDROOT=/tmp/seed8 notes/confirm_seed.sh $id $n > /dev/null 2>&1 ) &
done
wait
for n in "$@"; do echo "--- $id-$n"; cat /tmp/ev/eval8_${id}_$n.txt 2>/dev/null | cut -c1-400; cat /tmp/ev/result_${id}_$n.txt 2>/dev/null; done
