"""Idempotent: (re-)apply the hook lines of compositions that live in their own modules to the check files
(used after a check file was replaced by a strengthened version written against an older copy)."""
import re, sys
def patch(path, edits):
    s = open(path).read(); o = s
    for marker, old, new in edits:
        if marker in s:
            continue
        if old not in s:
            print('HOOK NOT APPLIED in %s: %r' % (path, old[:60])); continue
        s = s.replace(old, new, 1)
    if s != o:
        open(path, 'w').write(s); print('patched', path)
H = '/verif/harness/props/'
patch(H + 'c01.py', [
    ('pipeline.THEOREMS', "    from props import morph\n    chk.proof(MODULE, THEOREMS + morph.THEOREMS, extra_modules=[morph.MODULE])",
     "    from props import morph, pipeline\n    chk.proof(MODULE, THEOREMS + morph.THEOREMS + pipeline.THEOREMS, extra_modules=[morph.MODULE, pipeline.MODULE])"),
    ('morph.MODULE, pipeline.MODULE])\n', "        chk.leanchecker([MODULE, morph.MODULE])", "        chk.leanchecker([MODULE, morph.MODULE, pipeline.MODULE])"),
    ('pipeline.run_pipeline(chk)', "    morph.run_morph(chk)\n", "    morph.run_morph(chk)\n    pipeline.run_pipeline(chk)      # (p) composition D: the same pipeline with the concrete readers and physics\n"),
    ("kind == 'pipeline'", "    elif kind == 'e2e':", "    elif kind == 'pipeline':\n        from props import pipeline\n        msg = pipeline.replay_case(chk, case)\n    elif kind == 'e2e':"),
])
patch(H + 'c02.py', [
    ('weather.THEOREMS', "def run(chk):\n    chk.proof(MODULE, THEOREMS)", "def run(chk):\n    from props import weather\n    chk.proof(MODULE, THEOREMS + weather.THEOREMS, extra_modules=[weather.MODULE])"),
    ('weather.MODULE])\n', "        chk.leanchecker([MODULE])", "        chk.leanchecker([MODULE, weather.MODULE])"),
    ('weather.run_weather(chk)', "    chk.assumptions.append('the rural file has 8760 hourly rows stamped",
     "    # the source of every record: Weather.__init__ + str2fl on the window rows, exact tie to the Lean model\n    weather.run_weather(chk)\n    chk.assumptions.append('the rural file has 8760 hourly rows stamped"),
])
patch(H + 'c03.py', [
    ('step.THEOREMS', "    chk.proof(MODULE, THEOREMS)\n    if chk.tier == 'thorough':\n        chk.leanchecker([MODULE])",
     "    from props import step\n    chk.proof(MODULE, THEOREMS + step.THEOREMS, extra_modules=[step.MODULE])\n    if chk.tier == 'thorough':\n        chk.leanchecker([MODULE, step.MODULE])"),
    ('step.run_step(chk)', "    variant_pairs(chk, work, base)\n", "    variant_pairs(chk, work, base)\n    # composition C: the physics of one step as one Lean function, tied exactly to the real loop body\n    step.run_step(chk)\n"),
])
patch(H + 'c12.py', [
    ('epwheader.SITE_THEOREMS', "def run(chk):\n    chk.proof(MODULE, THEOREMS)\n    if chk.tier == 'thorough':\n        chk.leanchecker([MODULE])",
     "def run(chk):\n    from props import epwheader\n    chk.proof(MODULE, THEOREMS + epwheader.SITE_THEOREMS, extra_modules=[epwheader.MODULE])\n    if chk.tier == 'thorough':\n        chk.leanchecker([MODULE, epwheader.MODULE])"),
])
patch(H + 'c20.py', [
    ('epwheader.GROUND_THEOREMS', "    chk.proof(MODULE, THEOREMS)\n    if chk.tier == 'thorough':\n        chk.leanchecker([MODULE])",
     "    from props import epwheader\n    chk.proof(MODULE, THEOREMS + epwheader.GROUND_THEOREMS, extra_modules=[epwheader.MODULE])\n    if chk.tier == 'thorough':\n        chk.leanchecker([MODULE, epwheader.MODULE])"),
])
patch(H + 'c17.py', [
    ('generate.THEOREMS', "def run(chk):\n    chk.proof(MODULE, THEOREMS)", "def run(chk):\n    from props import generate\n    chk.proof(MODULE, THEOREMS + generate.THEOREMS, extra_modules=[generate.MODULE])"),
])
# c17: run_generate as the last statement of run()
p17 = H + 'c17.py'
s17 = open(p17).read()
if 'generate.run_generate(chk)' not in s17:
    i = s17.index('def run(chk):')
    j = s17.find('\ndef ', i + 10)
    body = (s17[i:j] if j > 0 else s17[i:]).rstrip('\n') + "\n    # composition E: generate() as one Lean function, tied exactly to the real generate()\n    generate.run_generate(chk)\n"
    s17 = s17[:i] + body + ("\n\n" + s17[j + 1:] if j > 0 else "")
    open(p17, 'w').write(s17); print('patched c17 tail')
