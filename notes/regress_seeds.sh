#!/bin/bash
# every stored seeded change against the check of its property (scratch copies of /repo HEAD); 4 at a time
cd /verif
ls seeded | xargs -P ${PAR:-4} -I{} sh -c 'id=$(echo {} | cut -d- -f1); r=$(notes/eval_seed.sh $id /verif/seeded/{}/patch.diff 2>&1 | grep "^== " ); echo "{} $r"' | sort
