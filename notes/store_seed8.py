"""store_seed8.py <PROP> <n> <first-evaluation> <needs...>: copy a confirmed round-8 seed into /verif/seeded/<PROP>-r8-<n>/"""
import glob, json, os, shutil, sys
pid, n, first = sys.argv[1], sys.argv[2], sys.argv[3]
needs = ' '.join(sys.argv[4:])
src = '/tmp/seed8/%s/seed_out' % pid
dst = '/verif/seeded/%s-r8-%s' % (pid, n)
os.makedirs(dst, exist_ok=True)
shutil.copy(os.path.join(src, 'change%s.diff' % n), os.path.join(dst, 'patch.diff'))
shutil.copy(os.path.join(src, 'demo%s.py' % n), os.path.join(dst, 'demo.py'))
for f in glob.glob(os.path.join(src, '*.py')):
    b = os.path.basename(f)
    if not b.startswith('demo'):
        shutil.copy(f, os.path.join(dst, b))
if os.path.exists(os.path.join(src, 'notes.md')):
    shutil.copy(os.path.join(src, 'notes.md'), os.path.join(dst, 'notes.md'))
r = '/tmp/ev/result_%s_%s.txt' % (pid, n)
conf = open(r).read().strip() if os.path.exists(r) else ''
meta = {'property': pid, 'round': 8, 'needs_to_manifest': needs,
        'written_by': 'fresh sub-agent given only the property text, its own worktree of /repo and the list of kinds of change '
                      'the first seven rounds had tried (notes/SEED_PROMPT_R8.md); 20-minute time box',
        'confirmed': conf,
        'what_i_ran': ['SEEDROOT=/tmp/seed8 notes/confirm_seed.sh %s %s  (scratch copy of /repo HEAD: demo exits 0 clean, non-zero seeded; '
                       'pinned suite 60 passed with the change)' % (pid, n),
                       'notes/eval_seed.sh %s /tmp/seed8/%s/seed_out/change%s.diff  (scratch copy + UWG_REPO=<copy> bin/check %s)' % (pid, pid, n, pid)],
        'first_evaluation': first}
json.dump(meta, open(os.path.join(dst, 'meta.json'), 'w'), indent=1)
print(dst)
