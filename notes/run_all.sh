#!/bin/bash
# run every quick (or $1=thorough) check on /repo, 4 at a time, and summarise
tier=${1:-quick}
ls_ids="C01 C02 C03 C04 C05 C06 C07 C08 C09 C10 C11 C12 C13 C14 C15 C16 C17 C18 C19 C20"
mkdir -p /tmp/ev/all
echo $ls_ids | tr ' ' '\n' | xargs -P 4 -I{} sh -c "cd /verif && bin/check {} --tier $tier > /tmp/ev/all/{}.log 2>&1; echo {} rc=\$? \$(tail -1 /tmp/ev/all/{}.log)"
