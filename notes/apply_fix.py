"""Helper: exact-string replace preserving a file's line endings. usage: apply_fix.py file <<< JSON [[old,new],...]"""
import sys, json
path = sys.argv[1]
pairs = json.load(sys.stdin)
b = open(path, 'rb').read()
crlf = b'\r\n' in b
s = b.decode('utf-8').replace('\r\n', '\n')
for old, new in pairs:
    assert s.count(old) == 1, (s.count(old), old)
    s = s.replace(old, new)
if crlf:
    s = s.replace('\n', '\r\n')
open(path, 'wb').write(s.encode('utf-8'))
