#!/bin/bash
# eval_seed.sh <PROP-ID> <diff-file> [check ids...]: apply a seeded change to a scratch copy of /repo HEAD
# and run the given checks (default: the property's own) against it. Prints the VIOLATION lines.
id=$1; diff=$2; shift 2; checks=${@:-$id}
d=/tmp/ev/$(basename $(dirname $diff))_$(basename $(dirname $(dirname $diff)))_$(basename $diff .diff)_$$
rm -rf $d && mkdir -p $d && (cd /repo && git archive HEAD | tar -x -C $d) || exit 2
(cd $d && git init -q . 2>/dev/null; git -C $d apply --whitespace=nowarn $diff 2>&1 || (cd $d && patch -p1 --binary < $diff)) || { echo "APPLY FAILED"; exit 2; }
rm -rf $d.lean && cp -r /verif/lean $d.lean
for c in $checks; do
  out=$(cd /verif && VERIF_LEAN_DIR=$d.lean VERIF_EVIDENCE_DIR=/tmp/ev/evidence VERIF_REPLAY_DIR=/tmp/ev/replays UWG_REPO=$d timeout 1800 bin/check $c 2>&1)
  rc=$?
  echo "== $c on $(basename $d): rc=$rc; $(echo "$out" | grep -c '^VIOLATION') violation lines; $(echo "$out" | grep -c 'no-failing-input-found') without input"
  echo "$out" | grep "^VIOLATION\|INFRA\|KNOWN" | head -3
done
rm -rf $d $d.lean
