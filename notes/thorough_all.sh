#!/bin/bash
(cd lean && lake build > /dev/null 2>&1)
for c in C01 C02 C03 C04 C05 C06 C07 C08 C09 C10 C11 C12 C13 C14 C15 C16 C17 C18 C19 C20; do
  out=$(VERIF_EVIDENCE_DIR=/tmp/ev/evidence_thorough timeout 3000 bin/check $c --tier thorough 2>&1); rc=$?
  echo "$c rc=$rc $(echo "$out" | grep -c '^VIOLATION') viol; $(echo "$out" | tail -1)"
  if [ $rc -ne 0 ]; then echo "$out" | grep "VIOLATION\|INFRA\|Traceback\|Error" | head -5; fi
done
