"""store_seed.py <PROP> <n> <caught-by> <needs...>: copy a confirmed seed into /verif/seeded/"""
import json, os, shutil, sys
pid, n, caught = sys.argv[1], sys.argv[2], sys.argv[3]
needs = ' '.join(sys.argv[4:])
src = '/tmp/seed/%s/seed_out' % pid
dst = '/verif/seeded/%s-%s' % (pid, n)
os.makedirs(dst, exist_ok=True)
shutil.copy(os.path.join(src, 'change%s.diff' % n), os.path.join(dst, 'patch.diff'))
shutil.copy(os.path.join(src, 'demo%s.py' % n), os.path.join(dst, 'demo.py'))
conf = open('/tmp/ev/result_%s_%s.txt' % (pid, n)).read().strip() if os.path.exists('/tmp/ev/result_%s_%s.txt' % (pid, n)) else ''
meta = {'property': pid, 'needs_to_manifest': needs,
        'written_by': 'fresh sub-agent given only the property text and its own worktree of /repo',
        'confirmed': conf,
        'what_i_ran': ['notes/confirm_seed.sh %s %s  (scratch copy of /repo HEAD: demo passes clean, fails seeded; pinned suite 60 passed with the change)' % (pid, n),
                       'notes/eval_seed.sh %s seeded/%s-%s/patch.diff  (scratch copy + UWG_REPO=<copy> bin/check %s)' % (pid, pid, n, pid)],
        'detected_by': caught}
json.dump(meta, open(os.path.join(dst, 'meta.json'), 'w'), indent=1)
print(dst)
