#!/bin/bash
# confirm_seed.sh <PROP-ID> <n>: confirm seed /tmp/seed/<ID>/seed_out/change<n>.diff in a scratch copy of /repo HEAD:
# demo passes without the change, fails with it; the pinned test-suite still passes with it.
id=$1; n=$2; src=${SEEDROOT:-/tmp/seed}/$id/seed_out
d=/tmp/ev/confirm_${id}_$n
rm -rf $d && mkdir -p $d && (cd /repo && git archive HEAD | tar -x -C $d) || exit 2
mkdir -p $d/seed_out && cp $src/*.py $d/seed_out/ 2>/dev/null
cd $d
/venv/bin/python seed_out/demo$n.py > $d.demo_clean.log 2>&1; rc_clean=$?
git init -q . >/dev/null 2>&1
git apply --whitespace=nowarn $src/change$n.diff 2>/dev/null || patch -p1 --binary -s < $src/change$n.diff || { echo "$id $n APPLY-FAILED"; exit 2; }
/venv/bin/python seed_out/demo$n.py > $d.demo_seeded.log 2>&1; rc_seed=$?
/venv/bin/python -m pytest -q -p no:cacheprovider --timeout=900 --deselect tests/test_RSMDef.py::test_rsm_dissipation_bougeault --deselect tests/test_UWG.py::test_read_input --deselect tests/test_UWG.py::test_procMat --deselect tests/test_cli.py::test_model_validate --deselect tests/test_cli.py::test_param_validate --deselect tests/test_element.py::test_SurfFlux_with_waterStorage_middle --deselect tests/test_element.py::test_SurfFlux_integration > $d.tests.log 2>&1
tests=$(tail -1 $d.tests.log)
echo "$id change$n: demo_clean_rc=$rc_clean demo_seeded_rc=$rc_seed tests: $tests" | tee /tmp/ev/result_${id}_$n.txt
cd /; rm -rf $d
