#!/bin/bash
# r3.sh <ID>...: evaluate (own check) and confirm both third-round seeds of each property
for id in "$@"; do
  for n in 1 2; do
    ( notes/eval_seed.sh $id /tmp/seed8/$id/seed_out/change$n.diff 2>&1 | grep "^== " | sed "s/^/$id-$n /" ) &
    ( SEEDROOT=/tmp/seed8 notes/confirm_seed.sh $id $n > /dev/null 2>&1 ) &
  done
done
wait
for id in "$@"; do for n in 1 2; do cat /tmp/ev/result_${id}_$n.txt; done; done
