#!/bin/bash
# fresh scratch copy of /repo HEAD (committed state) under /tmp/mut (or $1) for mutation experiments
d=${1:-/tmp/mut}
rm -rf "$d" && mkdir -p "$d" && cd /repo && git archive HEAD | tar -x -C "$d" && echo "$d ready"
